"""Per-property checks.  Each function returns the process exit code (0 / 1) after printing the
VIOLATION / KNOWN-FINDING lines and writing evidence (common.conclude)."""
import json
import os
import shutil
import subprocess
import time
import random

import cfg
import common
import sweep

TRUSTED = [
    "Lean 4.33.0 kernel (thorough tier: re-checked by leanchecker); axioms of each theorem as listed under theorem_axioms (subset of propext, Classical.choice, Quot.sound)",
    "compiled ymodel executable computes what the Lean definitions denote (Lean compiler/runtime)",
    "Go harness (dumps the implementation's artefacts in-process under build tag verif) and the Python orchestrator/oracles (cfg.py)",
]


def prebuild():
    ok, msg = common.build_harness()
    if not ok:
        return False, msg
    ok, msg = common.run_translator()
    if not ok:
        # the regenerated model fragments are missing: every theorem that depends on them is unproved,
        # but the harness, the model executable and the search for a failing input still run
        common.TRANSLATOR_ERROR = msg
    ok, msg = common.build_ymodel()
    return ok, msg


def build_failure(pid, tier, msg):
    """the harness/model cannot even be built against the current tree: nothing is shown"""
    proof = {"ok": False, "obligations": 1, "discharged": 0, "detail": msg[:2000]}
    return common.conclude(pid, tier, "proof", proof, [{"what": "build", "detail": msg[:2000]}], [],
                           {"evaluations": 0, "distinct_nontrivial": 0, "rule": "build failed", "samples": []}, [])


def cert_ties(results, names):
    """certificates that must pass on every accepted grammar for the theorems to apply"""
    ties = []
    for r in results:
        if r.refused is not None:
            continue
        for nm in names:
            v = r.V.get(nm)
            if v is None or v[0] != "ok":
                ties.append({"what": "certificate %s fails on the implementation's artefacts" % nm,
                             "case": r.id, "detail": v, "src": r.case["src"]})
    return ties


def mirror_ties(results, prefixes, what):
    ties = []
    for r in results:
        if r.refused is not None:
            continue
        d = common.stage_diff(r.impl, r.M, prefixes)
        if d is not None:
            ties.append({"what": "mirror stage differs: " + what, "case": r.id, "detail": d, "src": r.case["src"]})
    return ties


# ------------------------------------------------------------------------------------------- C01

def check_C01(tier):
    pid = "C01"
    rng = random.Random(common.seed() * 1000003 + 1)
    ok, msg = prebuild()
    if not ok:
        return build_failure(pid, tier, msg)
    proof = common.prove(["Y.Props.C01_sound",
                          # the verified table generator: its table ALWAYS passes certT; the whole modelled pipeline is sound
                          "Y.Props.genTable_certT", "Y.Props.C01_generator", "Y.Props.pipeline_certT", "Y.Props.C01_pipeline",
                          "Y.Props.genRowL_eq_core", "Y.Props.C01_pairWinner_sel"],
                         ["Yv.Props.C01", "Yv.Props.C01gen"])
    results = sweep.run(tier, rng)
    # the theorem needs only the certificates on the implementation's artefacts (and the driver
    # model = generated code, which the C08 check ties by execution); no generator mirror is involved
    ties = cert_ties(results, ["gramWF", "certA", "certT", "codes"])
    violations = []
    runs = 0
    accepted = 0
    samples = []
    for r in results:
        if r.refused is not None:
            continue
        for f in r.runs:
            i = int(f[1])
            w = r.inputs[i]
            runs += 1
            if f[2] == "accept":
                accepted += 1
                reds = [int(x) for x in f[4:]]
                good = r.g.check_rm_derivation(reds, w) and int(f[3]) == len(w) + 1
                if len(samples) < 3 and len(w) >= 2:
                    samples.append({"case": r.id, "input": w, "reductions": reds, "valid_rightmost_derivation": good})
                if not good:
                    violations.append({
                        "key": common.finding_key({"src": r.case["src"], "input": w}),
                        "what": "accepted input whose reductions are not a rightmost derivation of it",
                        "replay": {"property": pid, "grammar": r.case["src"], "input_symbol_ids": w,
                                   "reductions": reds, "tokens_requested": int(f[3]),
                                   "how": "driver model run on the implementation's GTable (ymodel R line); replay: bin/check C01 --replay <this file>"}})
    # the COMPILED parsers of all five variants (tables, constants, translate switch and driver as emitted): every accepted
    # run's reductions, read backwards, must be a rightmost derivation of exactly the tokens the lexer delivered
    res = x_sweep(tier, rng, n=12 if tier == "quick" else 150)
    ties += x_build_ties(res)
    vnames = [v[3] for v in xrun.VARIANTS if not (v[0] == "typescript" and res["node"] is None)]
    xaccepted = 0
    for c in res["usable"]:
        g = c["core"].g
        if g is None:
            continue
        name2id = {v["name"]: k for k, v in g.syms.items()}
        ids = [name2id.get(t if not t.startswith("'") else "$operator" + t[1], 0) for t in c["xs"]["terms"]]
        for w in c["inputs"]:
            toks = [ids[ord(ch) - 97] if ord(ch) - 97 < len(ids) else 0 for ch in w]
            for vn in vnames:
                r = xrun.impl_run(res, c, vn, w)
                if r is None or r["verdict"] != "accept":
                    continue
                xaccepted += 1
                if not (g.check_rm_derivation(r["log"], toks) and r["req"] == len(w) + 1):
                    violations.append(xviol(pid, res, c, vn, "compiled parser accepts an input whose reductions are not a rightmost derivation of it",
                                            {"input": w, "token_symbol_ids": toks, "reductions": r["log"], "tokens_requested": r["req"]}))
    accepted += xaccepted
    dist = sweep.distribution(results)
    cov = {"evaluations": runs, "distinct_nontrivial": dist["distinct_rule_sets"], "accepted_runs_of_compiled_parsers": xaccepted,
           "rule": "corpus + sampled exhaustive tiny grammars + random structured grammars (+precedence, literals) + operator grammars; "
                   "distinct = distinct rule sets among accepted grammars; per grammar all strings up to a length bound over its terminals plus an unknown token, sampled sentences and mutated sentences are run through the driver model on the implementation's GTable",
           "samples": samples, "accepted_runs": accepted, "distribution": dist,
           "certificates_evaluated": sum(1 for r in results if r.refused is None) * 3,
           "trusted_base": TRUSTED,
           "partial": ["the compiled generated parsers are executed on a smaller set of grammars than the driver model; C08 compares them with the driver model run by run"]}
    return common.conclude(pid, tier, "proof", proof, ties, violations, cov,
                           ["inputs are token sequences before the first end marker; symbols outside 0..nT cannot be produced by translate()"])


# ------------------------------------------------------------------------------------------- helpers

TYN = {"shift": 0, "reduce": 1, "error": 2}


def std_cov(results, evaluations, rule, samples, extra=None):
    dist = sweep.distribution(results)
    cov = {"evaluations": evaluations, "distinct_nontrivial": dist["distinct_rule_sets"], "rule": rule,
           "samples": samples, "distribution": dist, "trusted_base": TRUSTED}
    if extra:
        cov.update(extra)
    return cov


GEN_RULE = ("corpus (textbook separators LR(0)/SLR/LALR/LR(1), nullable, cyclic, operator tables) + sampled exhaustive tiny grammars + "
            "random structured grammars with precedence/literals/%prec + large random grammars + operator grammars; "
            "distinct = distinct rule sets among the grammars yaccgo accepts")


def viol(pid, r, what, extra):
    payload = {"property": pid, "grammar": r.case["src"], "what": what}
    payload.update(extra)
    return {"key": common.finding_key({"src": r.case["src"], "what": what, "x": extra.get("key_extra", extra)}),
            "what": what, "replay": payload}


# ------------------------------------------------------------------------------------------- C02

def check_C02(tier):
    pid = "C02"
    rng = random.Random(common.seed() * 1000003 + 2)
    ok, msg = prebuild()
    if not ok:
        return build_failure(pid, tier, msg)
    proof = common.prove(["Y.Props.C02_complete", "Y.Props.C02_complete_sound", "Y.Props.C01_sound", "Y.Props.C03_oracle_exact",
                          # generator level: for every LALR(1) grammar the modelled pipeline accepts exactly the language
                          "Y.Props.genTable_certC", "Y.Props.C02_generator", "Y.Props.C02_generator_laL", "Y.Props.C02_pipeline"],
                         ["Yv.Props.C02", "Yv.Props.C01", "Yv.Props.C03", "Yv.Props.C01gen"])
    results = sweep.run(tier, rng)
    ties = cert_ties(results, ["gramWF", "certA", "certT"])
    violations, samples = [], []
    runs = lalr = sentences = 0
    for r in results:
        if r.refused is not None:
            continue
        # is the GRAMMAR LALR(1)?  decided on the verified generator's automaton (buildL) with the verified
        # lookahead oracle, not on the automaton the implementation built (which may be the broken part)
        impl_lalr = r.V.get("isLALR1", ["?"])[0] == "yes"
        ref = r.V.get("isLALR1ref", ["unknown"])[0]
        is_lalr = (ref == "yes") if ref in ("yes", "no") else impl_lalr
        if not is_lalr:
            continue
        lalr += 1
        if not impl_lalr:
            ties.append({"what": "the grammar is LALR(1) but the implementation's automaton with the verified lookaheads has a conflict",
                         "case": r.id, "src": r.case["src"]})
        else:
            for nm in ("certC", "setsClosed", "laClosed", "laTerm", "prodOK"):
                if r.V.get(nm, ["missing"])[0] != "ok":
                    ties.append({"what": "hypothesis %s of C02_complete fails on an LALR(1) grammar" % nm, "case": r.id, "src": r.case["src"]})
        if r.warns() or r.warn_any():
            violations.append(viol(pid, r, "conflict warning for a grammar whose LALR(1) automaton has no conflict", {"warnings": r.warns(), "warning_lines": r.warn_any()}))
        for f in r.runs:
            w = r.inputs[int(f[1])]
            runs += 1
            if r.g.recognizes(w):
                sentences += 1
                if len(samples) < 3 and len(w) >= 3:
                    samples.append({"case": r.id, "sentence": w, "verdict": f[2]})
                if f[2] != "accept":
                    violations.append(viol(pid, r, "sentence of an LALR(1) grammar is not accepted",
                                           {"input_symbol_ids": w, "verdict": f[2]}))
            elif f[2] == "accept":
                violations.append(viol(pid, r, "non-sentence accepted (language is not exactly the grammar's)",
                                       {"input_symbol_ids": w}))
    # the COMPILED parsers of all five variants (packed and plain tables, both Go templates, TypeScript): every sentence of an
    # LALR(1) grammar is accepted by each of them, every non-sentence by none
    res = x_sweep(tier, rng, n=12 if tier == "quick" else 150)
    ties += x_build_ties(res)
    vnames = [v[3] for v in xrun.VARIANTS if not (v[0] == "typescript" and res["node"] is None)]
    xsent = 0
    for c in res["usable"]:
        core = c["core"]
        if core.g is None or core.V.get("isLALR1", ["?"])[0] != "yes" or core.V.get("isLALR1ref", ["yes"])[0] == "no":
            continue
        name2id = {v["name"]: k for k, v in core.g.syms.items()}
        ids = [name2id.get(t if not t.startswith("'") else "$operator" + t[1], 0) for t in c["xs"]["terms"]]
        for w in c["inputs"]:
            toks = [ids[ord(ch) - 97] if ord(ch) - 97 < len(ids) else 0 for ch in w]
            member = core.g.recognizes(toks)
            for vn in vnames:
                r = xrun.impl_run(res, c, vn, w)
                if r is None or r["verdict"] == "loop":
                    continue
                xsent += member
                if member and r["verdict"] != "accept":
                    violations.append(xviol(pid, res, c, vn, "compiled parser does not accept a sentence of an LALR(1) grammar",
                                            {"input": w, "token_symbol_ids": toks, "verdict": r["verdict"]}))
                elif not member and r["verdict"] == "accept":
                    violations.append(xviol(pid, res, c, vn, "compiled parser accepts a non-sentence (language is not exactly the grammar's)",
                                            {"input": w, "token_symbol_ids": toks}))
    cov = std_cov(results, runs, GEN_RULE + "; inputs: all strings up to a bound + sampled sentences, membership decided by an Earley recogniser", samples,
                  {"lalr1_grammars": lalr, "sentences_checked": sentences, "sentence_runs_of_compiled_parsers": xsent,
                   "hypotheses_evaluated": "gramWF certA certT setsClosed laClosed certC laTerm on the implementation's automaton/table with the verified oracle's lookahead table"})
    return common.conclude(pid, tier, "proof", proof, ties, violations, cov, ["LALR(1) is decided by the verified lookahead oracle on the verified LR(0) generator's automaton"])


# ------------------------------------------------------------------------------------------- C03

def check_C03(tier):
    pid = "C03"
    rng = random.Random(common.seed() * 1000003 + 3)
    ok, msg = prebuild()
    if not ok:
        return build_failure(pid, tier, msg)
    proof = common.prove(["Y.Props.C03_oracle_exact", "Y.Props.C03_oracle_lr1", "Y.Props.C03_laLines", "Y.LA_iff",
                          "Y.Props.C03_dp_exact", "Y.Props.C03_dp_exact_with", "Y.Props.C03_dp_eq_laL", "Y.Props.C03_dp_declarative", "Y.Props.C03_dp_lr1", "Y.Props.C03_dp_lines",
                          "Y.Props.C03_dp_read", "Y.Props.C03_dp_follow", "Y.Props.C03_dp_la",
                          # the Digraph/Traverse routine itself (model Y.DG): total, computes the least solution
                          "Y.Props.digraph_total", "Y.Props.digraph_least", "Y.Props.digraph_eq_solve", "Y.Props.C03_dp_digraph",
                          "Y.Props.C03_dp_digraph_exact", "Y.Props.C03_dg_lines_eq"],
                         ["Yv.Props.C03", "Yv.Abs.Lalr", "Yv.Props.C03b", "Yv.Props.C03c"])
    results = sweep.run(tier, rng, inputs=False, n_random=600 if tier == "quick" else 15000,
                        n_tiny=600 if tier == "quick" else None)
    ties = cert_ties(results, ["gramWF", "certA", "prodOK"])
    for r in results:
        if r.refused is None and r.V.get("laOracle", ["?"])[0] == "UNSTABLE":
            ties.append({"what": "the verified oracle laL returned none (fails closed)", "case": r.id, "src": r.case["src"]})
    # the DeRemer-Pennello computation itself: every stage of the implementation (transition list, DR, Read,
    # Follow, the three relations) against the verified model (C03_dp_exact), whose hypotheses are evaluated too
    dp_stage_lines = 0
    for r in results:
        if r.refused is not None:
            continue
        for nm in ("certCanon", "nullExact", "dpStartOK"):
            v = r.V.get(nm)
            if v is None or v[0] != "ok":
                ties.append({"what": "hypothesis %s of C03_dp_exact fails on the implementation's artefacts" % nm, "case": r.id, "src": r.case["src"]})
        norm = lambda l: " ".join(l.split())
        il = sorted(norm(l) for l in r.impl if l.split() and l.split()[0] in ("DPTR", "DPKEY", "DPREL"))
        ml = sorted(norm(l) for l in r.M if l.split() and l.split()[0] in ("DPTR", "DPKEY", "DPREL"))
        dp_stage_lines += len(il)
        if any(l.startswith("M DPNONE") for l in r.raw_model):
            ties.append({"what": "the DeRemer-Pennello model returned none (a least solution failed its check)", "case": r.id, "src": r.case["src"]})
        elif il != ml:
            k = next((i for i in range(max(len(il), len(ml))) if i >= len(il) or i >= len(ml) or il[i] != ml[i]), 0)
            ties.append({"what": "a stage of the DeRemer-Pennello computation differs from the verified model", "case": r.id, "src": r.case["src"],
                         "impl": il[k][:300] if k < len(il) else "<missing>", "model": ml[k][:300] if k < len(ml) else "<missing>"})
        if any(l.startswith("X dp=laL FAIL") for l in r.raw_model):
            ties.append({"what": "the DeRemer-Pennello model disagrees with the verified oracle laL", "case": r.id, "src": r.case["src"]})
        if any(l.startswith("X stagesDG=stagesWith FAIL") for l in r.raw_model) or r.V.get("dgSizeOK", ["ok"])[0] != "ok":
            ties.append({"what": "the Digraph model disagrees with the least solutions (or its size hypothesis fails)", "case": r.id, "src": r.case["src"]})
    violations, samples = [], []
    sets = 0
    warn_lines_seen = warn_lines_read = 0
    for r in results:
        if r.refused is not None:
            continue
        sets += len(r.las())
        v = r.V.get("laOracle")
        if v is not None and v[0] == "UNSTABLE":
            continue
        if v is None or v[0] != "ok":
            violations.append(viol(pid, r, "lookahead set differs from the LALR(1) set",
                                   {"state_rule_symbols": v[1:] if v else None,
                                    "note": "implementation's (state, rule) lookaheads vs the propagation fixpoint (= union over canonical LR(1) states, theorem LA_iff) on the implementation's own automaton"}))
        # cell level: a cell gets a warning iff folding its candidates meets a pair that precedence
        # cannot resolve (independent of which default wins, see DESIGN §5 C03)
        iw = sorted(set((q, s) for q, s, a, b in r.warns()))
        ow = sorted(set(tuple(int(x) for x in l.split()[2:4]) for l in rec_lines(r, "O WARN")))
        any_w = r.warn_any()
        readable = bool(iw) or not any_w          # the warning lines are in the wording this check reads
        warn_lines_seen += bool(any_w)
        warn_lines_read += bool(iw)
        if (any_w is not None and (any_w > 0) != bool(ow)):
            # grammar level, independent of the wording: a warning is printed iff an unresolved conflict exists
            violations.append(viol(pid, r, "a conflict warning is printed although no unresolved LALR(1) conflict exists" if any_w else
                                   "an unresolved LALR(1) conflict exists but no warning is printed", {"warning_lines": any_w, "expected_cells": ow}))
        elif readable and iw != ow:
            violations.append(viol(pid, r, "conflict warnings differ from the unresolved LALR(1) conflicts",
                                   {"implementation": iw, "expected": ow}))
        if len(samples) < 3 and len(r.las()) > 3:
            samples.append({"case": r.id, "lookaheads": r.las()[:4], "warnings": iw[:3]})
    if warn_lines_seen and not warn_lines_read:
        ties.append({"what": "conflict warnings are printed but none is in the wording this check reads: only the grammar-level iff was checked, not the cells"})
    cov = std_cov(results, sets, GEN_RULE + "; evaluations = (state, rule) lookahead sets compared", samples,
                  {"dp_stage_lines_compared": dp_stage_lines,
                   "partial": ["the Digraph routine (SCC-based closure) is not modelled: its results ReadSet/FollowSet/lookaheads are compared per grammar with the verified least solutions of the DeRemer-Pennello model (C03_dp_exact)"]})
    return common.conclude(pid, tier, "proof", proof, ties, violations, cov, [])


def rec_lines(r, prefix):
    return [l for l in getattr(r, "raw_model", []) if l.startswith(prefix)]


# ------------------------------------------------------------------------------------------- C09

def check_C09(tier):
    pid = "C09"
    rng = random.Random(common.seed() * 1000003 + 9)
    ok, msg = prebuild()
    if not ok:
        return build_failure(pid, tier, msg)
    proof = common.prove(C09_THEOREMS, C09_MODULES)
    results = sweep.run(tier, rng, inputs=False, n_random=800 if tier == "quick" else 20000,
                        n_tiny=800 if tier == "quick" else None, big=30 if tier == "quick" else 300)
    ties = cert_ties(results, ["gramWF", "certA", "certCanon"])
    ties += mirror_ties(results, ("STATE", "GOTO"), "LR(0) states and transitions (literal numbering) vs the verified generator buildL")
    for r in results:
        if r.refused is None and any(l.startswith("X coreLR0=buildL FAIL") for l in r.raw_model):
            ties.append({"what": "the array-based mirror Core.buildLR0 differs from the verified generator buildL", "case": r.id, "src": r.case["src"]})
    violations, samples = [], []
    nstates = 0
    for r in results:
        if r.refused is not None:
            continue
        istates = [frozenset(tuple(int(x) for x in it.split(".")) for it in st) for st in r.states()]
        nstates += len(istates)
        igoto = {(q, x): p for (q, x, p) in r.gotos()}
        ref_states, ref_trans = cfg.lr0_collection(r.g)
        what = None
        if len(set(istates)) != len(istates):
            what = "duplicate states (two states with the same item set)"
        elif set(istates) != set(ref_states):
            what = "state set differs from the canonical LR(0) collection (missing or extra state)"
        elif istates[0] != ref_states[0]:
            what = "state 0 is not the closure of the augmented start item"
        else:
            ref_index = {s: i for i, s in enumerate(ref_states)}
            for q, s in enumerate(istates):
                rq = ref_index[s]
                mine = {x: istates[p] for (q2, x), p in igoto.items() if q2 == q and p < len(istates)}
                ref = {x: ref_states[p] for (q2, x), p in ref_trans.items() if q2 == rq}
                if mine != ref or any(p >= len(istates) for (q2, x), p in igoto.items() if q2 == q):
                    what = "transitions of a state differ from the canonical goto function"
                    break
            # representation details the property does not fix (item order inside a state, the Index field):
            # the models and certificates assume them, so a change is a broken tie, not a violation
            for st in r.states():
                its = [tuple(int(x) for x in it.split(".")) for it in st]
                if its != sorted(set(its)):
                    ties.append({"what": "item list of a state is not sorted/duplicate-free (representation assumed by the certificates)", "case": r.id, "src": r.case["src"]})
                    break
            for q, l in enumerate(l for l in r.impl if l.startswith("STATE ")):
                if int(l.split()[2]) != q:
                    ties.append({"what": "a state's Index field differs from its position", "case": r.id, "src": r.case["src"]})
                    break
        if what:
            violations.append(viol(pid, r, what, {"states": [sorted(s) for s in istates][:40]}))
        if len(samples) < 3 and len(istates) > 4:
            samples.append({"case": r.id, "states": len(istates), "transitions": len(igoto)})
    # a grammar whose canonical collection is known in closed form (2N+2 item sets) and lies beyond the state limit: it is
    # either refused, or its automaton has exactly that many states
    nn = 1100
    fam = ("%token " + " ".join("T%d" % i for i in range(1, nn + 1)) + "\n%start s\n%%\ns : " +
           " | ".join("T%d T%d" % (i, i) for i in range(1, nn + 1)) + " ;\n%%\n")
    frec = run_front([{"id": "lim", "src": fam}])["lim"]
    fns = next((int(l.split()[1]) for l in frec["impl"] if l.startswith("NSTATES ")), None)
    if fns is not None and not any(l.startswith("REFUSE") for l in frec["impl"]) and fns != 2 * nn + 2:
        violations.append({"key": common.finding_key({"limit-family": fns}), "what": "state set differs from the canonical LR(0) collection: the grammar has %d item sets, the automaton delivered has %d states" % (2 * nn + 2, fns),
                           "replay": {"property": pid, "grammar_file": fam, "canonical_item_sets": 2 * nn + 2, "states_delivered": fns}})
    cov = std_cov(results, nstates, GEN_RULE + "; evaluations = states compared with an independently computed canonical collection", samples)
    return common.conclude(pid, tier, "proof", proof, ties, violations, cov, ["grammars below the 2000-state cap"])


C09_THEOREMS = ["Y.Props.C09_canonical", "Y.Props.C09_hygiene", "Y.Props.C09_closure",
                "Y.Props.C09_gen", "Y.Props.C09_gen_canonical", "Y.Props.C09_gen_layout", "Y.Props.C09_gen_fuel"]
C09_MODULES = ["Yv.Props.C09", "Yv.Props.C09gen"]


# ------------------------------------------------------------------------------------------- C04

def spec_winner(a, b):
    """The property's resolution rule for a two-way conflict; candidates are dicts
    (kind 'S'/'R', idx, prec, assoc).  Returns 'S', 'R', the winning reduce dict, 'error' or None (unspecified)."""
    if a["kind"] == "R" and b["kind"] == "S":
        a, b = b, a
    if a["kind"] == "S" and b["kind"] == "R":
        if a["prec"] != -1 and b["prec"] != -1:
            if b["prec"] > a["prec"]:
                return b
            if b["prec"] < a["prec"]:
                return a
            if a["assoc"] == 0:
                return b          # %left reduces
            if a["assoc"] == 1:
                return a          # %right shifts
            return "error"        # %nonassoc / %precedence
        return a                  # default: shift
    if a["kind"] == "R" and b["kind"] == "R":
        if a["prec"] == -1 or b["prec"] == -1:
            return a if a["idx"] < b["idx"] else b
        return None               # both rules carry a precedence: unspecified (DESIGN §4)
    return None


def cell_candidates(r):
    """per (state, terminal): candidate actions from the implementation's automaton and lookaheads"""
    g = r.g
    cands = {}
    for (q, x, p) in r.gotos():
        if g.is_t(x):
            cands.setdefault((q, x), []).append({"kind": "S", "idx": p, "prec": g.syms[x]["prec"], "assoc": g.syms[x]["assoc"]})
    for (q, ru, la) in r.las():
        ps = g.rules[ru][2]
        pr = g.syms[ps]["prec"] if ps >= 0 else -1
        asc = g.syms[ps]["assoc"] if ps >= 0 else 2
        for a in la:
            cands.setdefault((q, a), []).append({"kind": "R", "idx": ru, "prec": pr, "assoc": asc})
    return cands


def expr_reference(g, toks, names):
    """precedence-climbing reference for the operator grammars of gen.expr_grammar.
    Returns a tree (nested tuples of rule shapes) or None for a syntax error."""
    # operator info from the symbol table the implementation built
    sym = {v["name"]: k for k, v in g.syms.items()}
    T0 = sym["T0"]
    lp, rp = sym.get("$operator("), sym.get("$operator)")
    binops = {}
    unary = None
    paren = False
    for i, (lhs, rhs, ps) in enumerate(g.rules):
        if i == 0:
            continue
        if len(rhs) == 3 and rhs[0] == rhs[2] == lhs:
            binops[rhs[1]] = i
        elif len(rhs) == 2 and rhs[1] == lhs:
            unary = (rhs[0], i, g.syms[ps]["prec"] if ps >= 0 else -1)
        elif len(rhs) == 3 and rhs[0] == lp:
            paren = i
        elif rhs == [T0]:
            leaf = i
    pos = [0]

    def peek():
        return toks[pos[0]] if pos[0] < len(toks) else None

    def primary():
        t = peek()
        if t == T0:
            pos[0] += 1
            return ("leaf",)
        if paren and t == lp:
            pos[0] += 1
            e = expr(0)
            if e is None or peek() != rp:
                return None
            pos[0] += 1
            return ("paren", e)
        if unary and t == unary[0]:
            pos[0] += 1
            e = expr(unary[2] + 1)
            if e is None:
                return None
            return ("un", e)
        return None

    def expr(minp):
        lhs = primary()
        if lhs is None:
            return None
        last_nonassoc = None
        while True:
            t = peek()
            if t not in binops:
                return lhs
            p, asc = g.syms[t]["prec"], g.syms[t]["assoc"]
            if p < minp:
                return lhs
            if last_nonassoc is not None and p == last_nonassoc:
                return None
            pos[0] += 1
            rhs = expr(p + 1 if asc != 1 else p)
            if rhs is None:
                return None
            lhs = ("bin", t, lhs, rhs)
            last_nonassoc = p if asc == 2 else None

    e = expr(0)
    if e is None or pos[0] != len(toks):
        return None
    return e


def tree_from_reductions(g, reds, w):
    """parse tree from the reductions in the order performed: read backwards they are a rightmost
    derivation, so expanding the start symbol with them, children right to left, rebuilds the tree;
    returns None unless its yield is exactly w"""
    it = iter(reversed(list(reds)))

    def expand(sym):
        r = next(it)
        if not (1 <= r < len(g.rules)):
            raise ValueError
        lhs, rhs, _ = g.rules[r]
        if lhs != sym:
            raise ValueError
        kids = [None] * len(rhs)
        for k in range(len(rhs) - 1, -1, -1):
            kids[k] = ("tok", rhs[k]) if g.is_t(rhs[k]) else expand(rhs[k])
        return ("node", r, kids)

    def yield_(t, out):
        if t[0] == "tok":
            out.append(t[1])
        else:
            for k in t[2]:
                yield_(k, out)
    try:
        root = expand(g.start)
    except (StopIteration, ValueError, RecursionError):
        return None
    if next(it, None) is not None:
        return None
    out = []
    yield_(root, out)
    if out != list(w):
        return None
    return root


def shape(g, t):
    """normalise a parse tree of an operator grammar to the reference's shape"""
    if t[0] == "tok":
        return None
    _, r, kids = t
    rhs = g.rules[r][1]
    lhs = g.rules[r][0]
    if len(rhs) == 1:
        return ("leaf",)
    if len(rhs) == 3 and rhs[0] == rhs[2] == lhs:
        return ("bin", rhs[1], shape(g, kids[0]), shape(g, kids[2]))
    if len(rhs) == 2:
        return ("un", shape(g, kids[1]))
    return ("paren", shape(g, kids[1]))


def random_expr_tokens(g, rng, depth=0):
    sym = {v["name"]: k for k, v in g.syms.items()}
    T0 = sym["T0"]
    ops = [rhs[1] for (lhs, rhs, _) in g.rules[1:] if len(rhs) == 3 and rhs[0] == rhs[2] == lhs]
    un = [rhs[0] for (lhs, rhs, _) in g.rules[1:] if len(rhs) == 2]
    par = [rhs for (lhs, rhs, _) in g.rules[1:] if len(rhs) == 3 and rhs[0] != lhs]
    out = []

    def atom(d):
        c = rng.random()
        if un and c < 0.2 and d < 4:
            out.append(un[0])
            atom(d + 1)
        elif par and c < 0.35 and d < 3:
            out.append(par[0][0])
            ex(d + 1)
            out.append(par[0][2])
        else:
            out.append(T0)

    def ex(d):
        atom(d)
        for _ in range(rng.choice([0, 1, 1, 2, 3, 4] if d == 0 else [0, 1, 2])):
            if not ops:
                break
            out.append(rng.choice(ops))
            atom(d)

    ex(depth)
    return out


def check_C04(tier):
    pid = "C04"
    rng = random.Random(common.seed() * 1000003 + 4)
    ok, msg = prebuild()
    if not ok:
        return build_failure(pid, tier, msg)
    proof = common.prove(["C04.sr_higher_rule", "C04.sr_higher_token", "C04.sr_equal_left", "C04.sr_equal_right",
                          "C04.sr_equal_nonassoc", "C04.no_prec_is_error", "C04.default_sr_shifts", "C04.rr_first", "Y.Props.C01_pairWinner_is_go", "Y.Props.C01_goRes_sel", "Y.Props.genTableL_goRes"], ["Yv.Props.C04", "Yv.Props.C04gen"])
    ties, violations, samples = [], [], []
    # (1) the decision functions themselves, all pairs over a small domain, against the property's rule
    p = common.sh([common.BIN + "/yharness", "resolve"])
    pairs = 0
    for line in p.stdout.decode().split("\n"):
        if not line.startswith("RES "):
            continue
        parts = [x.strip() for x in line[4:].split("|")]
        A, B = [int(x) for x in parts[0].split()], [int(x) for x in parts[1].split()]
        res, dflt = parts[2], [int(x) for x in parts[3].split()]
        pairs += 1

        def mk(v):
            return {"kind": "S" if v[0] == 0 else "R", "idx": abs(v[1]), "prec": v[3], "assoc": v[2]}
        a, b = mk(A), mk(B)
        same_level_diff_assoc = a["prec"] == b["prec"] != -1 and a["assoc"] != b["assoc"]
        if same_level_diff_assoc:
            continue   # unreachable: one declaration line gives one associativity per level
        want = spec_winner(a, b)
        if want is None:
            continue
        if res == "panic":
            got = "panic"
        elif res == "none":
            got = mk(dflt)
        else:
            rv = [int(x) for x in res.split()]
            got = "error" if rv[0] == 2 else mk(rv)
        def act(x):
            return (x["kind"], x["idx"]) if isinstance(x, dict) else x
        if act(got) != act(want):
            violations.append({"key": common.finding_key({"pair": [A, B]}),
                               "what": "ResolveConflict/UseDefaultResolveConflict pick the wrong action",
                               "replay": {"property": pid, "act01": A, "act02": B, "fields": "ActionType ActionIndex PrecType Prec",
                                          "got": got, "expected": want}})
    # (2) every two-way conflict cell of every generated grammar
    results = sweep.run(tier, rng, inputs=False, n_random=500 if tier == "quick" else 8000)
    ties += cert_ties(results, ["gramWF", "certA", "laOracle"])
    ties += mirror_ties(results, ("ROW",), "dense table")
    for r in results:
        if r.refused is None and any(l.startswith("X genTableL=implRows FAIL") or l.startswith("X genTableL=coreGenRow FAIL") for l in r.raw_model):
            ties.append({"what": "the verified table generator genTableL (with the translated resolution functions) differs from the implementation's table",
                         "case": r.id, "src": r.case["src"]})
    cells = 0
    expr_results = []
    for r in results:
        if r.refused is not None:
            continue
        if r.case["kind"] == "expr" and not r.case.get("spec", {}).get("layered"):
            expr_results.append(r)
        # rule precedence: that of its %prec symbol if given, else of the LAST right-hand-side symbol that has one
        sp = r.case.get("spec")
        if sp is not None and len(sp["rules"]) + 1 == len(r.g.rules):
            declared = {}
            for li, (kind, syms) in enumerate(sp.get("prec", [])):
                for sname in syms:
                    declared[sym_name(sname)] = li + 1
            names = {k: v["name"] for k, v in r.g.syms.items()}
            # the level and associativity of every token: its LAST precedence declaration
            want_lv = {}
            for li, (kind, syms) in enumerate(sp.get("prec", [])):
                for sname in syms:
                    want_lv[sym_name(sname)] = (li + 1, {"left": 0, "right": 1}.get(kind, 2))
            for k, v in r.g.syms.items():
                if not v["nt"] and v["name"] not in ("$", "start"):
                    got_lv = (v["prec"], v["assoc"])
                    exp_lv = want_lv.get(v["name"], (-1, 2))
                    if got_lv != exp_lv and not (exp_lv[0] == -1 and got_lv[0] == -1):
                        violations.append(viol(pid, r, "a token carries the wrong precedence level / associativity",
                                               {"token": v["name"], "implementation": got_lv, "declared (last declaration counts)": exp_lv}))
                        break
            for i, ru in enumerate(sp["rules"]):
                want_p = None
                for sname in ru["rhs"]:
                    if sym_name(sname) in declared:
                        want_p = sym_name(sname)
                if ru.get("prec"):
                    want_p = sym_name(ru["prec"]) if sym_name(ru["prec"]) in declared else None
                ps = r.g.rules[i + 1][2]
                got_p = names.get(ps) if ps >= 0 else None
                if got_p != want_p:
                    violations.append(viol(pid, r, "a rule carries the wrong precedence symbol",
                                           {"rule": i + 1, "rhs": ru["rhs"], "prec_directive": ru.get("prec"),
                                            "implementation": got_p, "expected": want_p}))
        rows = r.rows()
        err, acc_code = r.codes()      # the property does not fix the numeric codes: use the implementation's own
        for (q, a), cs in cell_candidates(r).items():
            if len(cs) < 2:
                continue
            if len(cs) == 2:
                want = spec_winner(cs[0], cs[1])
            else:
                # more than two candidates: the property only speaks about pairs, so a verdict is demanded only
                # when the pairs agree — one candidate beats every other one, or every pair says "syntax error"
                cpairs = [(x, y, spec_winner(x, y)) for i, x in enumerate(cs) for y in cs[i + 1:]]
                want = None
                if all(w is not None for _, _, w in cpairs):
                    champs = [x for x in cs if all((w is x) for (p1, p2, w) in cpairs if p1 is x or p2 is x)]
                    if len(champs) == 1:
                        want = champs[0]
                    elif all(w == "error" for _, _, w in cpairs):
                        want = "error"
            if want is None:
                continue
            cells += 1
            exp = err if want == "error" else (want["idx"] if want["kind"] == "S" else (-want["idx"] if want["idx"] != 0 else acc_code))
            got = rows[q][a]
            if len(samples) < 3:
                samples.append({"case": r.id, "state": q, "symbol": a, "candidates": cs, "cell": got})
            if got != exp:
                violations.append(viol(pid, r, "two-way conflict cell holds the wrong action",
                                       {"state": q, "symbol": a, "candidates": cs, "cell": got, "expected": exp}))
    # (3) operator grammars: grouping of whole expressions (driver model on the implementation's table)
    def expr_inputs(cid, impl_lines):
        if not cid.startswith("expr:") or any(l.startswith("REFUSE") for l in impl_lines):
            return []
        g = cfg.G(impl_lines)
        return [random_expr_tokens(g, rng) for _ in range(25 if tier == "quick" else 100)]
    ecases = [{"id": r.id, "src": r.case["src"]} for r in expr_results]
    exprs = 0
    if ecases:
        rec = common.run_core(ecases, inputs_fn=expr_inputs)
        for c in ecases:
            r = sweep.CaseResult({"id": c["id"], "src": c["src"], "kind": "expr"}, rec[c["id"]])
            for f in r.runs:
                w = r.inputs[int(f[1])]
                ref = expr_reference(r.g, w, None)
                exprs += 1
                if f[2] == "accept":
                    t = tree_from_reductions(r.g, [int(x) for x in f[4:]], w)
                    got = shape(r.g, t) if t else "unparseable-log"
                else:
                    got = None
                if got != ref:
                    violations.append(viol(pid, r, "expression grouped differently from the declared precedence/associativity",
                                           {"input_symbol_ids": w, "verdict": f[2], "got": repr(got), "expected": repr(ref)}))
    # (3b) the same through the COMPILED parsers of all five variants: what the user runs goes through the packed arrays,
    # their default actions and the three driver texts, none of which the dense table of (3) shows
    xc = [c for c in make_xcases(tier, rng, n=12 if tier == "quick" else 120) if c["kind"] == "expr" and not c["xs"].get("layered")]
    res = x_sweep(tier, rng, xcases=xc, inputs_fn=lambda c: expr_letter_inputs(c["xs"], rng, 25 if tier == "quick" else 80))
    ties += x_build_ties(res)
    vnames = [v[3] for v in xrun.VARIANTS if not (v[0] == "typescript" and res["node"] is None)]
    xexprs = 0
    for c in res["usable"]:
        g = c["core"].g
        if g is None:
            continue
        name2id = {v["name"]: k for k, v in g.syms.items()}
        ids = [name2id.get(t if not t.startswith("'") else "$operator" + t[1], 0) for t in c["xs"]["terms"]]
        for w in c["inputs"]:
            toks = [ids[ord(ch) - 97] if ord(ch) - 97 < len(ids) else 0 for ch in w]
            ref = expr_reference(g, toks, None)
            for vn in vnames:
                r = xrun.impl_run(res, c, vn, w)
                if r is None or r["verdict"] not in ("accept", "reject"):
                    continue
                xexprs += 1
                if r["verdict"] == "accept":
                    t = tree_from_reductions(g, r["log"], toks)
                    got = shape(g, t) if t else "unparseable-log"
                else:
                    got = None
                if got != ref:
                    violations.append(xviol(pid, res, c, vn, "compiled parser groups an expression differently from the declared precedence/associativity",
                                            {"input": w, "verdict": r["verdict"], "got": repr(got), "expected": repr(ref)}))
    exprs += xexprs
    cov = std_cov(results, pairs + cells + exprs,
                  GEN_RULE + "; evaluations = action pairs through the real ResolveConflict + two-way conflict cells recomputed from the property's rule + whole expressions grouped against a precedence-climbing reference",
                  samples, {"action_pairs": pairs, "two_way_cells": cells, "expressions": exprs, "of_which_through_compiled_parsers_of_all_variants": xexprs,
                            "partial": ["end-to-end grouping (all operator tables x all expressions) is covered by execution against a precedence-climbing reference, the cell-level rule by theorems on the translated functions",
                                        "reduce/reduce cells where both rules carry a precedence are unspecified by the property and excluded"]})
    return common.conclude(pid, tier, "proof", proof, ties, violations, cov, [])


# ------------------------------------------------------------------------------------------- C05

def rand_matrix(rng):
    rows = rng.randint(1, 12)
    cols = rng.randint(1, 12)
    dens = rng.choice([0.0, 0.1, 0.3, 0.5, 0.8, 1.0])
    vals = rng.choice([[1, 2, 3], [-3, -2, -1, 1, 2, 3, 105, 205], [7]])
    tab = [[rng.choice(vals) if rng.random() < dens else 0 for _ in range(cols)] for _ in range(rows)]
    if rng.random() < 0.3 and rows > 1:
        tab[rng.randrange(rows)] = list(tab[rng.randrange(rows)])
    if rng.random() < 0.3:
        for r in tab:
            r[0] = 0
    return tab


def check_C05(tier):
    pid = "C05"
    rng = random.Random(common.seed() * 1000003 + 5)
    ok, msg = prebuild()
    if not ok:
        return build_failure(pid, tier, msg)
    proof = common.prove(C05_THEOREMS, C05_MODULES)
    ties, violations, samples = [], [], []
    # (1) matrices through the real PackTable / UnPackTable
    mats = [[[0, 5, 0, 7]], [[0, 0, 1], [0, 1, 0], [0, 0, 1]], [[0]], [[0, 0], [0, 0]], [[0, 0, 0, 3], [0, 2, 0, 0]]]
    mats += [rand_matrix(rng) for _ in range(3000 if tier == "quick" else 60000)]
    inp = "".join(json.dumps({"id": "m%d" % i, "aux": m}) + "\n" for i, m in enumerate(mats)).encode()
    p = common.sh([common.BIN + "/yharness", "pack"], inp=inp)
    impl = parse_blocks(p.stdout.decode(), "PCASE", "PEND")
    mo = common.sh([common.YMODEL], inp=p.stdout)
    model = parse_blocks(mo.stdout.decode(), "PCASE", "PEND")
    for i, m in enumerate(mats):
        b = impl.get("m%d" % i, [])
        unp = [[int(x) for x in l.split()[1:]] for l in b if l.startswith("PUNP")]
        pan = [l for l in b if l.startswith("PPANIC")]
        if pan or unp != m:
            violations.append({"key": common.finding_key({"matrix": m}), "what": "UnPackTable(PackTable(t)) != t",
                               "replay": {"property": pid, "matrix": m, "unpacked": unp, "panic": pan}})
        ia = [l for l in b if l.split()[0] in ("PACT", "POFF", "PCHK")]
        ma = [l[2:] for l in model.get("m%d" % i, []) if l.startswith("M ")]
        if ia != ma and not pan:
            ties.append({"what": "the verified packing model packA differs from PackTable's arrays", "matrix": m, "impl": ia, "model": ma})
        if any(l.startswith("X packA=PackX FAIL") for l in model.get("m%d" % i, [])):
            ties.append({"what": "the array-based mirror PackX differs from the verified model packA", "matrix": m})
    samples.append({"matrix": mats[0], "impl": impl.get("m0")})
    # (2) every cell of every generated grammar through the implementation's packed arrays
    results = sweep.run(tier, rng, inputs=False, n_random=500 if tier == "quick" else 10000, big=30 if tier == "quick" else 300)
    ties += mirror_ties(results, ("PACKED", "ACT", "OFF", "CHK", "ADEF", "GDEF"), "split + packed arrays")
    cells = 0
    simple = 0
    for r in results:
        if r.refused is not None or not r.packed():
            continue
        # hypothesis of C05_split_lookup_simple evaluated on the implementation's dense table
        ds = r.V.get("denseSimple")
        if ds is not None and ds[0] == "ok":
            simple += 1
        ds = r.V.get("denseWF")
        if ds is None or ds[0] != "ok":
            ties.append({"what": "hypothesis DenseWF of C05_split_lookup does not hold on the implementation's dense table",
                         "case": r.id, "detail": ds, "src": r.case["src"]})
        if any(l.startswith("X packA=PackX FAIL") for l in r.raw_model):
            ties.append({"what": "the array-based mirror PackX differs from the verified model packA on the split table", "case": r.id, "src": r.case["src"]})
        v = r.V.get("packLookup")
        rows = r.rows()
        cells += len(rows) * len(rows[0])
        if v is None or v[0] != "ok":
            violations.append(viol(pid, r, "packed lookup differs from the dense table",
                                   {"state_symbol": v[1:] if v else None}))
    # (2b) the text of the packed arrays / the plain table as the emitters print it = the emission model's (read-back theorems C05_emit_*)
    et, emit_n, _, _ = emit_ties([r.case["src"] for r in results if r.refused is None][:400 if tier == "quick" else 4000], keys=("Packed", "Dense"))
    ties += et
    # (3) the compiled generated parsers: packed vs -u, global and -o forms, on every input
    res = x_sweep(tier, rng, n=20 if tier == "quick" else 150, variants=[v for v in xrun.VARIANTS if v[0] == "go"])
    ties += x_build_ties(res)
    govars = [v for v in xrun.VARIANTS if v[0] == "go"]
    t2, xruns = x_model_ties(res, variants=govars)
    ties += t2
    ties += driver_cert_ties(res, variants=govars)
    pairs = 0
    for c in res["usable"]:
        for w in c["inputs"]:
            for a, b in (("go-packed", "go-u"), ("go-o", "go-o-u")):
                ra, rb = xrun.impl_run(res, c, a, w), xrun.impl_run(res, c, b, w)
                if ra is None or rb is None:
                    continue
                pairs += 1
                same = (xrun.norm_verdict(ra["verdict"]) == xrun.norm_verdict(rb["verdict"]) and
                        (ra["verdict"] == "loop" or (ra["log"] == rb["log"] and ra["val"] == rb["val"])))
                if not same:
                    violations.append(xviol(pid, res, c, a, "the packed parser and the -u parser differ on an input",
                                            {"input": w, a: {k: ra[k] for k in ("verdict", "log", "val", "req")},
                                             b: {k: rb[k] for k in ("verdict", "log", "val", "req")}}))
    cov = std_cov(results, len(mats) + cells + pairs,
                  "random integer matrices (1x1..12x12, densities 0-100%, negatives, equal rows, empty first column) + the F5 matrix through PackTable/UnPackTable; " + GEN_RULE +
                  "; every (state, symbol) cell of every packed grammar looked up through the implementation's five arrays with the generated Action logic",
                  samples, {"matrices": len(mats), "cells": cells, "packed_vs_unpacked_runs": pairs, "emitted_table_texts_compared_with_emission_model": emit_n, "dense_tables_meeting_DenseSimple": simple,
                            "partial": ["PackTable/TrySplitTable themselves are hand-modelled (packA/trySplit) and tied by the per-run array comparison; the Action method of both Go templates is translated (Gen/Action.lean) and proved equal to the lookup model"]})
    return common.conclude(pid, tier, "proof", proof, ties, violations, cov, [])


C05_THEOREMS = ["PackA.C05_pack_roundtrip", "PackA.C05_unpack_pack", "PackA.place_inv", "PackP.lookup_correct",
                "SplitA.C05_split_lookup", "SplitA.C05_split_lookup_any", "SplitA.C05_split_lookup_simple", "SplitA.denseWF_of_simple"]
C05_THEOREMS += ["C05c.C05_action_global", "C05c.C05_action_object", "C05c.C05_action_is_dense"]
# the text of the packed arrays / the plain table printed into the generated file reads back as exactly the arrays (emission model, tied per run)
C05_THEOREMS += ["Y.Props.emit_dec_readback", "Y.Props.emit_arr_readback", "Y.Props.C05_emit_packed_readback",
                 "Y.Props.C01_emit_rows_readback_go", "Y.Props.C01_emit_rows_readback_ts", "Y.Props.C01_emit_dense_readback_go", "Y.Props.C01_emit_dense_readback_ts"]
C05_MODULES = ["Yv.Props.C05", "Yv.Props.C05b", "Yv.Props.C05c", "Yv.Props.C11b"]


def parse_blocks(txt, begin, end):
    out = {}
    cur = None
    for l in txt.split("\n"):
        if l.startswith(begin + " "):
            cur = l.split()[1]
            out[cur] = []
        elif l.startswith(end):
            cur = None
        elif cur is not None and l:
            out[cur].append(l)
    return out


# ------------------------------------------------------------------------------------------- C06

def check_C06(tier):
    pid = "C06"
    rng = random.Random(common.seed() * 1000003 + 6)
    ok, msg = prebuild()
    if not ok:
        return build_failure(pid, tier, msg)
    proof = common.prove(C06_THEOREMS, C06_MODULES)
    results = sweep.run(tier, rng)
    ties = cert_ties(results, ["gramWF", "certA", "certT", "certCanon", "prodOK"])
    violations, samples = [], []
    runs = rejected = 0
    term_total = term_ok = 0
    for r in results:
        if r.refused is not None:
            continue
        conflict_free = r.V.get("isLALR1", ["?"])[0] == "yes"
        if conflict_free:
            # hypothesis of C06_terminates / C06_nonsentence_rejected on the implementation's table: with it the driver
            # reaches a verdict on EVERY input; without it the theorem says nothing and an input that loops is searched below
            term_total += 1
            if r.V.get("certTerm", ["?"])[0] == "ok":
                term_ok += 1
            elif not any(f[2] == "fuel" for f in r.runs):
                ties.append({"what": "hypothesis certTerm of C06_terminates does not hold on the implementation's table of a conflict-free grammar (no looping input found among the explored ones)",
                             "case": r.id, "src": r.case["src"][:1500]})
        for f in r.runs:
            w = r.inputs[int(f[1])]
            runs += 1
            if f[2] == "accept":
                continue
            rejected += 1
            if f[2] == "crash":
                violations.append(viol(pid, r, "rejected input makes the parser crash (index out of range) instead of reporting a grammar error",
                                       {"input_symbol_ids": w}))
                continue
            if f[2] == "fuel":
                if conflict_free:
                    violations.append(viol(pid, r, "parser does not reach a verdict on a conflict-free grammar", {"input_symbol_ids": w}))
                continue
            if conflict_free:
                p = r.g.viable_len(w)
                req = int(f[3])
                if len(samples) < 3 and len(w) >= 3:
                    samples.append({"case": r.id, "input": w, "first_bad_token_index": p, "tokens_requested": req})
                if req != p + 1:
                    violations.append(viol(pid, r, "syntax error not reported at the first token that cannot continue a sentence",
                                           {"input_symbol_ids": w, "tokens_requested": req, "first_bad_token_index": p}))
    # the compiled generated parsers, all five variants: outcome class and tokens requested
    res = x_sweep(tier, rng, n=20 if tier == "quick" else 300)
    ties += x_build_ties(res)
    t2, xruns = x_model_ties(res)
    ties += t2
    vnames = [v[3] for v in xrun.VARIANTS if not (v[0] == "typescript" and res["node"] is None)]
    xrej = 0
    for c in res["usable"]:
        core = c["core"]
        if core.g is None:
            continue
        conflict_free = core.V.get("isLALR1", ["?"])[0] == "yes"
        if conflict_free:
            term_total += 1
            if core.V.get("certTerm", ["?"])[0] == "ok":
                term_ok += 1
            elif not any((xrun.impl_run(res, c, vn, w) or {}).get("verdict") == "loop" for w in c["inputs"] for vn in vnames):
                ties.append({"what": "hypothesis certTerm of C06_terminates does not hold on the implementation's table of a conflict-free grammar (no looping input found among the explored ones)",
                             "case": c["id"]})
        name2id = {v["name"]: k for k, v in core.g.syms.items()}
        ids = [name2id.get(t if not t.startswith("'") else "$operator" + t[1], 0) for t in c["xs"]["terms"]]
        for w in c["inputs"]:
            toks = [ids[ord(ch) - 97] if ord(ch) - 97 < len(ids) else 0 for ch in w]
            for vn in vnames:
                r = xrun.impl_run(res, c, vn, w)
                if r is None:
                    continue
                if r["verdict"] == "accept":
                    # "never by returning a result as if the input had been accepted": a result although part of
                    # the input was never read, or for an input the grammar does not derive (e.g. an unknown token code
                    # taken for the end marker)
                    if r.get("req") is not None and r["req"] != len(w) + 1:
                        violations.append(xviol(pid, res, c, vn, "a result is returned although the input was not read to its end (no syntax error reported)",
                                                {"input": w, "tokens_requested": r["req"], "tokens_in_input_plus_end_marker": len(w) + 1, "value": r.get("val")}))
                    elif not core.g.recognizes(toks):
                        violations.append(xviol(pid, res, c, vn, "a result is returned for an input the grammar does not derive (no syntax error reported)",
                                                {"input": w, "token_symbol_ids": toks, "value": r.get("val")}))
                    continue
                xrej += 1
                if r["verdict"] not in ("reject", "loop"):
                    violations.append(xviol(pid, res, c, vn, "input is not accepted but the parser does not report it through the documented error channel",
                                            {"input": w, "outcome": r["verdict"]}))
                elif r["verdict"] == "loop" and conflict_free:
                    violations.append(xviol(pid, res, c, vn, "parser does not reach a verdict on a conflict-free grammar", {"input": w}))
                elif r["verdict"] == "reject" and conflict_free:
                    p = core.g.viable_len(toks)
                    if r["req"] != p + 1:
                        violations.append(xviol(pid, res, c, vn, "syntax error not reported at the first token that cannot continue a sentence",
                                                {"input": w, "tokens_requested": r["req"], "first_bad_token_index": p}))
    cov = std_cov(results, runs + xruns, GEN_RULE + "; inputs: all strings up to a bound incl. an unknown token, mutated sentences; viable prefixes decided by an Earley recogniser; plus the compiled parsers of all five variants (outcome class: accept / grammar error / other exception / nil / step limit)",
                  samples, {"rejected_runs": rejected, "compiled_rejected_runs": xrej, "compiled_variants": vnames, "ts_skipped": res["skipped_ts"],
                            "conflict_free_tables": term_total, "of_which_pass_the_termination_certificate": term_ok,
                            "partial": ["termination is a theorem per table (C06_terminates: the decidable certificate certTerm, evaluated on the implementation's table of every conflict-free grammar explored, implies a verdict on every input within an explicit number of steps); that EVERY conflict-free LALR(1) table passes the certificate (needs unambiguity of LR grammars) is not proved",
                                        "the error channel of each backend (Go panic text, TypeScript log + null) is a fact about emitted text and is checked by execution"]})
    return common.conclude(pid, tier, "proof", proof, ties, violations, cov, [])


C06_THEOREMS = ["Y.Props.C06_safe", "Y.Props.C06_prefix", "Y.Props.C06_first_bad_token", "Y.Props.C06_error_prefix",
                "Y.Props.C06_generator", "Y.Props.C06_pipeline",
                "Y.Props.C06_terminates", "Y.Props.C06_terminates_bound", "Y.Props.C06_terminates_mono", "Y.Props.C06_nonsentence_rejected",
                "Y.Props.C06_conflict_table_can_loop", "Y.Term.certTermFast_eq"]
C06_MODULES = ["Yv.Props.C06", "Yv.Props.C06b", "Yv.Props.C01gen", "Yv.Props.C06c"]


# ------------------------------------------------------------------------------------------- X-based checks

import gen     # noqa: E402
import xrun    # noqa: E402

HAND_SPECS = [
    # operators whose names contain characters that are special in Go string literals / Printf formats
    {"tokens": ["N"], "lits": ["'%'", "'\"'", "'+'", "'<'", "'>'"], "prec": [("nonassoc", ["'<'", "'>'"]), ("left", ["'+'"]), ("left", ["'%'", "'\"'"])], "nts": ["E"], "start": "E",
     "rules": [{"lhs": "E", "rhs": ["E", "'+'", "E"], "prec": None}, {"lhs": "E", "rhs": ["E", "'%'", "E"], "prec": None},
               {"lhs": "E", "rhs": ["E", "'\"'", "E"], "prec": None}, {"lhs": "E", "rhs": ["E", "'<'", "E"], "prec": None},
               {"lhs": "E", "rhs": ["E", "'>'", "E"], "prec": None}, {"lhs": "E", "rhs": ["N"], "prec": None}]},
    # literal tokens whose character occurs in yaccgo's internal name prefix `$operator`
    {"tokens": ["N"], "lits": ["'a'", "'t'", "'$'", "'o'"], "prec": [("left", ["'a'"]), ("left", ["'t'"])], "nts": ["E"], "start": "E",
     "rules": [{"lhs": "E", "rhs": ["E", "'a'", "E"], "prec": None}, {"lhs": "E", "rhs": ["E", "'t'", "E"], "prec": None},
               {"lhs": "E", "rhs": ["'$'", "E", "'o'"], "prec": None}, {"lhs": "E", "rhs": ["N"], "prec": None}]},
    # a literal token that is not ASCII (its name must still be printed as written)
    {"tokens": ["N"], "lits": ["'×'", "'+'", "'→'"], "prec": [("right", ["'→'"]), ("left", ["'+'"]), ("left", ["'×'"])], "nts": ["E"], "start": "E",
     "rules": [{"lhs": "E", "rhs": ["E", "'+'", "E"], "prec": None}, {"lhs": "E", "rhs": ["E", "'×'", "E"], "prec": None},
               {"lhs": "E", "rhs": ["E", "'→'", "E"], "prec": None}, {"lhs": "E", "rhs": ["N"], "prec": None}]},
    # grammars so small that the generator may decline to pack the table
    {"tokens": ["A"], "lits": [], "prec": [], "nts": ["S"], "start": "S", "rules": [{"lhs": "S", "rhs": [], "prec": None}]},
    {"tokens": ["A"], "lits": [], "prec": [], "nts": ["S"], "start": "S",
     "rules": [{"lhs": "S", "rhs": ["A", "S"], "prec": None}, {"lhs": "S", "rhs": [], "prec": None}]},
    {"tokens": ["A"], "lits": [], "prec": [], "nts": ["S", "T"], "start": "S",
     "rules": [{"lhs": "S", "rhs": ["T"], "prec": None}, {"lhs": "T", "rhs": [], "prec": None}]},
    {"tokens": ["A", "B", "C", "D", "E"], "lits": [], "prec": [], "nts": ["S", "X", "Y"], "start": "S",
     "rules": [{"lhs": "S", "rhs": ["A", "Y", "E"], "prec": None}, {"lhs": "S", "rhs": ["A", "X", "D"], "prec": None},
               {"lhs": "S", "rhs": ["B", "Y", "D"], "prec": None}, {"lhs": "X", "rhs": ["C"], "prec": None},
               {"lhs": "Y", "rhs": ["C"], "prec": None}]},
    {"tokens": ["A", "B"], "lits": [], "prec": [], "nts": ["S", "X", "Y", "Z"], "start": "S",
     "rules": [{"lhs": "S", "rhs": ["X", "Y", "Z"], "prec": None}, {"lhs": "X", "rhs": [], "prec": None},
               {"lhs": "X", "rhs": ["A"], "prec": None}, {"lhs": "Y", "rhs": [], "prec": None},
               {"lhs": "Y", "rhs": ["B"], "prec": None}, {"lhs": "Z", "rhs": [], "prec": None},
               {"lhs": "Z", "rhs": ["A", "B"], "prec": None}]},
    {"tokens": ["A"], "lits": [], "prec": [], "nts": ["L"], "start": "L",
     "rules": [{"lhs": "L", "rhs": [], "prec": None}, {"lhs": "L", "rhs": ["L", "A"], "prec": None}]},
    {"tokens": ["A", "B"], "lits": [], "prec": [], "nts": ["S"], "start": "S",
     "rules": [{"lhs": "S", "rhs": ["A", "S", "B", "S", "A", "B", "A", "B", "A", "B", "A"], "prec": None},
               {"lhs": "S", "rhs": ["B"], "prec": None}]},
]


# operator tables with a %nonassoc level ABOVE the left/right levels (the state after `E < E` then has more reduce
# entries than error entries, so a default reduction can swallow the error cell) and with %nonassoc lowest
NONASSOC_SPECS = [
    {"tokens": ["T0"], "lits": ["'+'", "'-'", "'*'", "'/'", "'<'"], "prec": [("left", ["'+'", "'-'"]), ("left", ["'*'", "'/'"]), ("nonassoc", ["'<'"])], "nts": ["E"], "start": "E",
     "rules": [{"lhs": "E", "rhs": ["T0"], "prec": None}] + [{"lhs": "E", "rhs": ["E", "'%s'" % o, "E"], "prec": None} for o in "+-*/<"], "layered": False},
    {"tokens": ["T0"], "lits": ["'+'", "'-'", "'*'", "'/'", "'<'", "'>'", "'('", "')'"],
     "prec": [("nonassoc", ["'<'", "'>'"]), ("left", ["'+'", "'-'"]), ("left", ["'*'", "'/'"])], "nts": ["E"], "start": "E",
     "rules": [{"lhs": "E", "rhs": ["T0"], "prec": None}] + [{"lhs": "E", "rhs": ["E", "'%s'" % o, "E"], "prec": None} for o in "+-*/<>"] +
              [{"lhs": "E", "rhs": ["'('", "E", "')'"], "prec": None}], "layered": False},
    {"tokens": ["T0"], "lits": ["'+'", "'<'", "'='"], "prec": [("left", ["'+'"]), ("nonassoc", ["'<'"]), ("right", ["'='"]) ], "nts": ["E"], "start": "E",
     "rules": [{"lhs": "E", "rhs": ["T0"], "prec": None}, {"lhs": "E", "rhs": ["E", "'+'", "E"], "prec": None},
               {"lhs": "E", "rhs": ["E", "'<'", "E"], "prec": None}, {"lhs": "E", "rhs": ["E", "'='", "E"], "prec": None}], "layered": False},
]


def expr_letter_inputs(xs, rng, n):
    """random operator expressions over the terminals of an operator grammar, as letters (index into xs["terms"]);
    chains of one operator (`a<a<a`) are frequent: they are where associativity and %nonassoc show"""
    terms = xs["terms"]
    L = lambda t: chr(97 + terms.index(t))
    leaf = next((t for t in terms if not t.startswith("'")), None)
    if leaf is None:
        return []
    ops = [r["rhs"][1] for r in xs["rules"] if len(r["rhs"]) == 3 and r["rhs"][0] == r["rhs"][2] == r["lhs"]]
    par = next((r["rhs"] for r in xs["rules"] if len(r["rhs"]) == 3 and r["rhs"][0] != r["lhs"] and r["rhs"][1] == r["lhs"]), None)
    un = [r["rhs"][0] for r in xs["rules"] if len(r["rhs"]) == 2 and r["rhs"][1] == r["lhs"] and r["rhs"][0] in terms]
    if not ops:
        return []
    out = []
    for _ in range(n):
        w = []
        def atom(d):
            c = rng.random()
            if un and c < 0.15 and d < 3:
                w.append(L(un[0])); atom(d + 1)
            elif par and c < 0.3 and d < 2:
                w.append(L(par[0])); ex(d + 1); w.append(L(par[2]))
            else:
                w.append(L(leaf))
        def ex(d):
            atom(d)
            chain = rng.random() < 0.4
            o = rng.choice(ops)
            for _ in range(rng.choice([1, 2, 2, 3, 4] if d == 0 else [0, 1, 2])):
                w.append(L(o if chain else rng.choice(ops))); atom(d)
        ex(0)
        out.append("".join(w))
    return sorted(set(out))


def make_xcases(tier, rng, n=None):
    if n is None:
        n = 30 if tier == "quick" else 400
    xc = []
    for i, sp in enumerate(HAND_SPECS):
        xc.append({"id": "hand:%d" % i, "xs": xrun.xspec(sp, rng), "kind": "hand"})
    for i in range(n):
        knobs = rng.choice([{"max_t": 3, "max_n": 3}, {"max_t": 4, "max_n": 3, "p_prec": 0.8}, {"max_t": 3, "max_n": 2, "max_len": 5},
                            {"max_t": 4, "max_n": 4, "p_lit": 0.5}])
        sp = gen.rand_grammar(rng, **knobs)
        if i % 6 == 5 and len(sp["rules"]) >= 2:
            # the same production written twice (a copy-pasted alternative): legal, the second copy is never reduced,
            # and every rule after it must keep its own action
            j = rng.randrange(len(sp["rules"]) - 1)
            sp = dict(sp, rules=sp["rules"][:j + 1] + [dict(sp["rules"][j])] + sp["rules"][j + 1:])
        xc.append({"id": "xr:%d" % i, "xs": xrun.xspec(sp, rng), "kind": "rand"})
    for i in range(max(3, n // 6)):
        sp = gen.expr_grammar(rng)
        xc.append({"id": "xe:%d" % i, "xs": xrun.xspec(sp, rng), "kind": "expr"})
    for i, sp in enumerate(NONASSOC_SPECS):
        xc.append({"id": "xn:%d" % i, "xs": xrun.xspec(sp, rng), "kind": "expr"})
    # alternatives with byte-identical action text but differently tagged symbols
    twin_hand = {"tokens": ["A", "B"], "lits": [], "prec": [], "nts": ["S", "I"], "start": "S",
                 "rules": [{"lhs": "S", "rhs": ["I"], "prec": None}, {"lhs": "S", "rhs": ["S", "I"], "prec": None},
                           {"lhs": "I", "rhs": ["A"], "prec": None}]}
    xc.append({"id": "xt:hand", "xs": xrun.xspec_twin(twin_hand, rng, p=1.0), "kind": "twin"})
    for i in range(max(3, n // 8)):
        sp = gen.rand_grammar(rng, max_t=4, max_n=2, max_len=3, p_lit=0.0, p_split=0.0, p_case=0.0)
        xc.append({"id": "xt:%d" % i, "xs": xrun.xspec_twin(sp, rng), "kind": "twin"})
    return xc


def x_sweep(tier, rng, trace=False, n=None, variants=None, xcases=None, inputs_fn=None):
    xc = xcases if xcases is not None else make_xcases(tier, rng, n)
    def inputs_of(c):
        if inputs_fn is not None:
            return inputs_fn(c)
        # operator expressions for every grammar that has rules of the shape `E : E op E` (random sampling of such an
        # ambiguous grammar hardly ever yields a sentence with an operator)
        extra = expr_letter_inputs(c["xs"], rng, 12 if tier == "quick" else 40) if c.get("kind") in ("expr", "hand") else []
        # the hand-written grammars exist for particular rules and literals: many more sentences, so that every rule is reduced
        n_sent = (40 if c.get("kind") == "hand" else 10) if tier == "quick" else (80 if c.get("kind") == "hand" else 25)
        return gen.x_inputs(c["xs"], rng, max_len=3 if tier == "quick" else 4, n_sent=n_sent,
                            cap=200 if tier == "quick" else 700) + extra
    res = xrun.run_x(xc, inputs_of, trace=trace, variants=variants or xrun.VARIANTS)
    # the same grammars through the core dump (for the Earley oracle and the conflict-free test)
    core_cases = [{"id": c["id"], "src": res["meta"]["%s|%s" % (c["id"], (variants or xrun.VARIANTS)[0][3])]["src"]} for c in res["usable"]]
    core = common.run_core(core_cases) if core_cases else {}
    for c in res["usable"]:
        c["core"] = sweep.CaseResult({"id": c["id"], "src": "", "kind": c["kind"]}, core[c["id"]])
    return res


def x_model_ties(res, variants=None, with_trace=False):
    """the driver model run on the scraped table must reproduce every compiled run"""
    ties = []
    n = 0
    for c in res["usable"]:
        for v in (variants or xrun.VARIANTS):
            if v[0] == "typescript" and res["node"] is None:
                continue
            for i, w in enumerate(c["inputs"]):
                a = xrun.impl_run(res, c, v[3], w)
                b = xrun.model_run(res, c, v[3], i)
                n += 1
                if a is None or b is None:
                    ties.append({"what": "missing run (compiled parser died or model did not answer)", "case": c["id"], "variant": v[3], "input": w,
                                 "impl": a, "model": b, "ts_err": res["meta"]["%s|%s" % (c["id"], v[3])].get("ts_err", "")[-300:]})
                    continue
                same = (xrun.norm_verdict(a["verdict"]) == xrun.norm_verdict(b["verdict"]) and a["req"] == b["req"] and
                        (a["verdict"] == "loop" or (a["log"] == b["log"] and a["val"] == b["val"])))
                if not same:
                    ties.append({"what": "driver model differs from the compiled generated parser", "case": c["id"], "variant": v[3],
                                 "input": w, "impl": {k: a[k] for k in ("verdict", "log", "val", "req")}, "model": b})
    return ties, n


def driver_cert_ties(res, variants=None):
    """the parameters the driver model is run with (scraped from each generated file) must be the
    `dparams` of the grammar and table the implementation built in-process: then the theorems about
    `run (dparams G T n sem eof)` apply to the very function that is compared with the compiled parser"""
    ties = []
    for c in res["usable"]:
        core = c.get("core")
        if core is None or core.g is None:
            continue
        g = core.g
        rows = core.rows()
        n = len(rows)
        for v in (variants or xrun.VARIANTS):
            m = res["meta"]["%s|%s" % (c["id"], v[3])]
            sc = m.get("scrape")
            if not sc:
                continue
            why = None
            if sc["err"] != n + 100 or sc["acc"] != n + 200:
                why = "ERROR_ACTION/ACCEPT_ACTION %s/%s are not the table's codes %d/%d" % (sc["err"], sc["acc"], n + 100, n + 200)
            for i in range(1, len(g.rules)):
                sr = sc["rules"].get(i)
                if sr is None or sr["lhs"] != g.rules[i][0] or sr["base"] != len(g.rules[i][1]) or sr["pop"] != len(g.rules[i][1]):
                    why = "reduce case %d emits %s, the rule has lhs %d and length %d" % (i, sr, g.rules[i][0], len(g.rules[i][1]))
            if set(sc["rules"]) - set(range(1, len(g.rules))):
                why = "reduce cases for non-existent rules"
            if not sc["packed"]:
                if sc["rows"] != rows:
                    why = "emitted table differs from GTable"
            else:
                for key, pre in (("act", "ACT"), ("off", "OFF"), ("chk", "CHK"), ("adef", "ADEF"), ("gdef", "GDEF")):
                    want = [[int(x) for x in l.split()[1:]] for l in core.impl if l.split()[0] == pre]
                    if not want or sc[key] != want[0]:
                        why = "emitted packed array %s differs from the in-process one" % pre
                if sc["nterminals"] != g.nT:
                    why = "NTERMINALS %s != %d" % (sc["nterminals"], g.nT)
            want_tr = {vv["value"]: k for k, vv in g.syms.items() if not vv["nt"]}
            if sc["translate"] != want_tr:
                why = "translate switch differs from the symbol table"
            if why:
                ties.append({"what": "driverCert: " + why, "case": c["id"], "variant": v[3], "grammar_file": m["src"][:1500]})
    return ties


def x_build_ties(res):
    if res.get("build_error"):
        return [{"what": "generated Go files do not compile", "detail": res["build_error"][-1500:]}]
    return []


def xviol(pid, res, c, vname, what, extra):
    m = res["meta"]["%s|%s" % (c["id"], vname)]
    payload = {"property": pid, "what": what, "variant": vname, "grammar_file": m["src"],
               "letters": "letter k = k-th terminal of the %token lines; z = unknown token"}
    payload.update(extra)
    return {"key": common.finding_key({"src": m["src"], "what": what, "x": extra}), "what": what, "replay": payload}


def check_C08(tier):
    pid = "C08"
    rng = random.Random(common.seed() * 1000003 + 8)
    ok, msg = prebuild()
    if not ok:
        return build_failure(pid, tier, msg)
    proof = common.prove(C08_THEOREMS, C08_MODULES)
    res = x_sweep(tier, rng)
    ties = x_build_ties(res)
    t2, nruns = x_model_ties(res)
    ties += t2
    ties += driver_cert_ties(res)
    violations, samples = [], []
    vnames = [v[3] for v in xrun.VARIANTS if not (v[0] == "typescript" and res["node"] is None)]
    inputs = 0
    for c in res["usable"]:
        for w in c["inputs"]:
            inputs += 1
            rs = [(vn, xrun.impl_run(res, c, vn, w)) for vn in vnames]
            rs = [(vn, r) for vn, r in rs if r is not None]
            if not rs:
                continue
            base = rs[0][1]
            for vn, r in rs[1:]:
                same = (xrun.norm_verdict(r["verdict"]) == xrun.norm_verdict(base["verdict"]) and
                        (base["verdict"] == "loop" or (r["log"] == base["log"] and r["val"] == base["val"])))
                # (the number of tokens requested is not part of this property; it is compared with the driver model as a tie)
                if not same:
                    violations.append(xviol(pid, res, c, vn, "output variants disagree on an input",
                                            {"input": w, rs[0][0]: {k: base[k] for k in ("verdict", "log", "val", "req")},
                                             vn: {k: r[k] for k in ("verdict", "log", "val", "req")}}))
            if len(samples) < 3 and base["verdict"] == "accept" and len(w) >= 3:
                samples.append({"case": c["id"], "input": w, "result": {k: base[k] for k in ("verdict", "log", "val", "req")}, "variants_agreeing": [vn for vn, _ in rs]})
    # the same grammar with a NESTED parse inside an action, in the global form (PushContex / ParserInit / Parser /
    # PopContex) and in the -o form (a second context): the two forms must answer alike
    solo = {}
    nt, _, _ = xrun.run_c15_nested(rng, with_expected=True, solo_out=solo)
    ties += nt
    labs = sorted(solo)
    nested_pairs = 0
    if len(labs) == 2:
        for w in sorted(solo[labs[0]]):
            a, b = solo[labs[0]].get(w), solo[labs[1]].get(w)
            if a is None or b is None:
                continue
            nested_pairs += 1
            if a != b:
                violations.append({"key": common.finding_key({"nested": w}),
                                   "what": "the global form and the -o form disagree on an input (grammar with a nested parse in an action)",
                                   "replay": {"property": pid, "input": w, labs[0]: a, labs[1]: b, "grammar_file_global_form": xrun.NESTED_Y}})
    cov = {"evaluations": nruns, "distinct_nontrivial": len(res["usable"]), "nested_parse_inputs_compared_between_global_and_object_form": nested_pairs,
           "rule": "hand-written + random structured + operator grammars with random linear actions over two union fields; every grammar generated in the variants go, go -u, go -o, go -o -u, typescript through the generator entry points, all Go variants linked into one binary, TS under Node type stripping; inputs: all strings up to a bound incl. an unknown letter, sampled and mutated sentences; distinct = grammars for which all variants were generated",
           "samples": samples, "inputs": inputs, "variants": vnames, "ts_skipped": res["skipped_ts"],
           "programs": len(res["usable"]) * len(vnames), "disagreements_checked": len(ties) + len(violations),
           "trusted_base": TRUSTED + ["Go toolchain, Node type stripping"]}
    return common.conclude(pid, tier, C08_LEVEL, proof, ties, violations, cov,
                           ["GetToken is the harness's; actions are linear over union fields modulo a prime so Go int, JS number and Lean Int agree"])


C08_THEOREMS = ["Y.Props.C08_equiv", "Y.AD.astep_refines", "Y.AD.arun_refines",
                # the driver text of both Go templates, translated on every run (Gen/Driver.lean), IS the array driver model
                "C08b.step_global_eq", "C08b.step_object_eq", "C08b.parser_global_eq", "C08b.parser_object_eq",
                "C08b.push_global_eq", "C08b.push_object_eq", "C08b.pop_global_eq", "C08b.pop_object_eq",
                # end to end: the translated Parser text of both templates, run with the translated packed Action text on
                # the arrays the modelled pipeline produces, is sound / accepts exactly the language / never crashes
                "Y.Props.packed_run_eq", "Y.Props.C01_end_to_end_global_go", "Y.Props.C01_end_to_end_object_go",
                "Y.Props.C02_end_to_end_global_go", "Y.Props.C02_end_to_end_object_go",
                "Y.Props.C06_end_to_end_global_go", "Y.Props.C06_end_to_end_object_go",
                "Y.Props.C06_end_to_end_global_checked", "Y.Props.C06_end_to_end_object_checked",
                # termination at the level of the generated text: under the table certificate the translated Parser text reaches
                # a verdict within termBound loop iterations, the verdict is stable under more fuel, and it decides the language
                "Y.Props.C06_end_to_end_terminates_global_go", "Y.Props.C06_end_to_end_terminates_object_go",
                "Y.Props.C06_end_to_end_decides_global_go", "Y.Props.C06_end_to_end_decides_object_go",
                "Y.Props.goParserGlobal_mono", "Y.Props.goParserObject_mono",
                # the TypeScript driver text, translated on every run (Gen/TsDriver.lean), refines the array driver model
                "C08c.step_ts_eq", "C08c.parser_ts_run", "C08c.parser_ts_eq", "C08c.parser_ts_init", "C08c.push_ts_eq", "C08c.pop_ts_eq",
                "C08c.init_ts_eq", "C08c.load_ts_eq", "C08c.parser_ts_second", "C08c.parser_ts_reinit", "C08c.stackRel_unique", "C08c.stackRel_total",
                # end to end for the TypeScript text on the dense table of the modelled pipeline
                "Y.Props.C01_end_to_end_ts", "Y.Props.C02_end_to_end_ts", "Y.Props.C06_end_to_end_ts", "Y.Props.C06_end_to_end_terminates_ts",
                "Y.Props.C06_end_to_end_decides_ts", "Y.Props.C15_ts_second_call", "Y.Props.C15_ts_reinit", "Y.Props.C15_ts_reinit_decides", "Y.Props.tsParser_mono"]
C08_MODULES = ["Yv.Props.C08", "Yv.Props.C08b", "Yv.Props.EndToEnd", "Yv.Props.EndToEndTerm", "Yv.Props.C08c", "Yv.Props.EndToEndTs"]
C08_LEVEL = "proof"


# ------------------------------------------------------------------------------------------- C07

def eval_tree(xs, g, tree, pos):
    """bottom-up evaluation of the harness's actions over a parse tree; returns (value, next token position)"""
    if tree[0] == "tok":
        return None, pos + 1
    _, r, kids = tree
    if not (1 <= r <= len(xs["rules"])) or len(xs["rules"][r - 1]["rhs"]) != len(kids):
        raise ValueError("rule %d of the parse has another shape than rule %d of the grammar file" % (r, r))
    rule = xs["rules"][r - 1]
    acc = xs["K"][r - 1]
    for k, kid in enumerate(kids):
        name = rule["rhs"][k]
        tag = xs["tags"][name]
        if kid[0] == "tok":
            v = (pos + 1) if tag == "a" else (2 * pos + 1)
            pos += 1
        else:
            v, pos = eval_tree(xs, g, kid, pos)
        acc += xs["coef"][r - 1][k] * v
    return acc % xrun.MOD, pos


SUBST_HAND = [
    # corner cases of the two rewriting passes ($$ first, then $digits), comment closing, out-of-range references
    ("%union { v int; w int }\n%token <v> A\n%token <w> B\n%type <v> S\n%start S\n%%\nS : A B A { $$ = $1 + $3 }\n  | A { $$ = $1; $$ = $$ + $$1 }\n"
     "  | B A B { $$$1 $ $a $1a $01 $$$ $2$$ $1$2 **/ */*/ end$ }\n  | A A { /* $$ */ // $1\n }\n  | B ;\n%%\n"),
    ("%union { v int }\n%token <v> A\n%type <v> S\n%start S\n%%\nS : A A A { $$ = $0 } ;\n%%\n"),
    ("%union { v int }\n%token <v> A\n%type <v> S\n%start S\n%%\nS : A A A { $$ = $4 } ;\n%%\n"),
    ("%union { v int }\n%token <v> A\n%type <v> S\n%start S\n%%\nS : A A A { $$ = $99999999999999999999 } ;\n%%\n"),
    ("%union { v int }\n%token <v> A\n%token '-'\n%type <v> S\n%start S\n%%\nS : A '-' A '-' A '-' A '-' A '-' A '-' { $$ = $11 + $012 + $1 }\n  | { \"$1\" }\n  | '-' { `$$` é 你好 } ;\n%%\n"),
]


def subst_ties(sources):
    """the verified substitution model (C07_subst_*) must emit exactly the reduce-case text the three
    emitters produce (Go global, Go -o, TypeScript), and refuse exactly where they panic"""
    cases = [{"id": "s%d" % i, "src": src} for i, src in enumerate(sources)]
    inp = "".join(json.dumps(c) + "\n" for c in cases).encode()
    p = common.sh([common.BIN + "/yharness", "subst"], inp=inp, timeout=600)
    iblocks = parse_blocks(p.stdout.decode(errors="replace"), "SCASE", "SEND")
    mo = common.sh([common.YMODEL], inp=p.stdout, timeout=600)
    mblocks = parse_blocks(mo.stdout.decode(errors="replace"), "SCASE", "SEND")
    ties, n, panics = [], 0, 0
    for c in cases:
        b, m = iblocks.get(c["id"]), mblocks.get(c["id"])
        if b is None or any(l.startswith("REFUSE") for l in b):
            continue
        if m is None:
            ties.append({"what": "substitution model gave no answer", "case": c["id"], "src": c["src"][:1500]})
            continue
        if any(l.startswith("M SSKIP") for l in m):
            continue
        for tag in ("SGO", "SOBJ", "STS"):
            iv = next((l.split()[1] for l in b if l.startswith(tag + " ")), None)
            mv = next((l.split()[2] for l in m if l.startswith("M " + tag + " ")), None)
            n += 1
            panics += iv == "PANIC"
            if iv != mv:
                dec = lambda h: h if h in (None, "PANIC", "-") else bytes.fromhex(h).decode(errors="replace")
                a, bb = dec(iv) or "", dec(mv) or ""
                k = next((i for i in range(min(len(a), len(bb))) if a[i] != bb[i]), min(len(a), len(bb)))
                ties.append({"what": "reduce-case text of the substitution model differs from the emitter (%s)" % tag, "case": c["id"],
                             "src": c["src"][:1500], "impl": a[max(0, k - 60):k + 60], "model": bb[max(0, k - 60):k + 60]})
    return ties, n, panics


def code_tokens(text):
    """the token sequence a Go / TypeScript compiler sees: comments and white space dropped, string literals kept whole"""
    out, i, n = [], 0, len(text)
    while i < n:
        ch = text[i]
        if ch.isspace():
            i += 1
        elif text.startswith("/*", i):
            j = text.find("*/", i + 2)
            i = n if j < 0 else j + 2
        elif text.startswith("//", i):
            j = text.find("\n", i)
            i = n if j < 0 else j
        elif ch == '"':
            j = i + 1
            while j < n and text[j] != '"':
                j += 2 if text[j] == "\\" else 1
            out.append(text[i:j + 1])
            i = j + 1
        elif ch.isalnum() or ch in "_$":
            j = i
            while j < n and (text[j].isalnum() or text[j] in "_$"):
                j += 1
            out.append(text[i:j])
            i = j
        else:
            out.append(ch)
            i += 1
    return out


def emit_ties(sources, keys=None):
    """the emission model (Model/Emit: constant block, table text, translate switch, trace tables of the Go and
    TypeScript emitters) must print exactly the text the emitters leave in the builder, for the packed Go file,
    the plain Go file and the TypeScript file; returns (ties, parts compared, parts skipped (non-ASCII %q), decoded
    implementation parts per case)"""
    cases = [{"id": "e%d" % i, "src": src} for i, src in enumerate(sources)]
    inp = "".join(json.dumps(c) + "\n" for c in cases).encode()
    p = common.sh([common.BIN + "/yharness", "emit"], inp=inp, timeout=900)
    iblocks = parse_blocks(p.stdout.decode(errors="replace"), "ECASE", "EEND")
    mo = common.sh([common.YMODEL], inp=p.stdout, timeout=900)
    mblocks = parse_blocks(mo.stdout.decode(errors="replace"), "ECASE", "EEND")
    ties, n, skipped, texts = [], 0, 0, {}
    dec = lambda h: "" if h == "-" else bytes.fromhex(h).decode(errors="replace")
    for c in cases:
        b, m = iblocks.get(c["id"]), mblocks.get(c["id"])
        if b is None or any(l.startswith("REFUSE") for l in b):
            continue
        if m is None:
            ties.append({"what": "emission model gave no answer", "case": c["id"], "src": c["src"][:1500]})
            continue
        iv = {}
        for l in b:
            t = l.split()
            if t[0] == "EP":
                iv[(t[1], t[2])] = t[3] if len(t) > 3 else "PANIC"
        mv = {}
        for l in m:
            t = l.split()
            if t[:2] == ["M", "EP"]:
                mv[(t[2], t[3])] = t[4]
            elif t[:2] == ["M", "EV"] and "FAIL" in t:
                # hypotheses of the read-back theorems evaluated on this grammar's names
                ties.append({"what": "a hypothesis of the emission read-back theorems does not hold on this grammar's names: " + " ".join(t[2:]),
                             "case": c["id"], "src": c["src"][:1500]})
        texts[c["src"]] = {k: dec(v) for k, v in iv.items() if v != "PANIC"}
        for k in sorted(set(iv) | set(mv)):
            if keys is not None and k[1] not in keys:
                continue
            if mv.get(k) == "SKIP":
                skipped += 1
                continue
            n += 1
            same = iv.get(k) == mv.get(k)
            if not same and iv.get(k) not in (None, "PANIC") and mv.get(k) is not None:
                # white space and comments are not part of the claim: the compilers do not see them
                same = code_tokens(dec(iv[k])) == code_tokens(dec(mv[k]))
            if not same:
                a = dec(iv[k]) if iv.get(k) not in (None, "PANIC") else str(iv.get(k))
                bb = dec(mv[k]) if mv.get(k) is not None else "None"
                j = next((i for i in range(min(len(a), len(bb))) if a[i] != bb[i]), min(len(a), len(bb)))
                ties.append({"what": "text of the emission model differs from the emitter (%s %s)" % k, "case": c["id"],
                             "src": c["src"][:1500], "impl": a[max(0, j - 60):j + 60], "model": bb[max(0, j - 60):j + 60]})
    return ties, n, skipped, texts


def check_C07(tier):
    pid = "C07"
    rng = random.Random(common.seed() * 1000003 + 7)
    ok, msg = prebuild()
    if not ok:
        return build_failure(pid, tier, msg)
    proof = common.prove(C07_THEOREMS, C07_MODULES)
    res = x_sweep(tier, rng)
    ties = x_build_ties(res)
    t2, nruns = x_model_ties(res)
    ties += t2
    ties += driver_cert_ties(res)
    # the text half: the emitters' rewriting of `$$` / `$n` against the verified substitution model
    srcs = list(SUBST_HAND)
    for c in res["usable"]:
        for vn in ("go-packed", "ts"):
            m = res["meta"].get("%s|%s" % (c["id"], vn))
            if m:
                srcs.append(m["src"])
    for i in range(20 if tier == "quick" else 300):
        srcs.append(gen.render_file(gen.file_spec(rng), rng))
    t3, subst_n, subst_panics = subst_ties(srcs)
    ties += t3
    violations, samples = [], []
    # a grammar whose action runs a nested parse on the same global parser: `$1` of the outer rule must still
    # be the outer value afterwards
    nt, nwrong, _ = xrun.run_c15_nested(rng, with_expected=True)
    ties += nt
    for v in nwrong[:3]:
        violations.append({"key": common.finding_key({"nested": v["input"]}),
                           "what": "value of Parser(%r) is %r, the actions evaluate to %r (grammar with a nested parse in an action)" % (v["input"], v["got"], v["expected"]),
                           "replay": dict(v, property=pid)})
    vnames = [v[3] for v in xrun.VARIANTS if not (v[0] == "typescript" and res["node"] is None)]
    accepted = 0
    # "each through the union field declared for that symbol": the field the generator attaches to every symbol must be the
    # declared one, wherever in the declaration section the tag was given (also for grammars whose output does not compile)
    tag_cases = 0
    for c in res.get("all_cases", res["usable"]):
        core = c.get("core")
        if core is None or core.g is None:
            continue
        tag_cases += 1
        for k, sy in core.g.syms.items():
            nm = sy["name"]
            want = c["xs"]["tags"].get(nm if not nm.startswith("$operator") else "'%s'" % nm[9:])
            if want is not None and sy.get("tag", "") != want:
                violations.append(xviol(pid, res, c, vnames[0],
                                        "a symbol's values are read through another union field than the declared one",
                                        {"symbol": nm, "declared_field": want, "field_used": sy.get("tag", "")}))
                break
    for c in res["usable"]:
        g = c["core"].g
        if g is None:
            continue
        # letters -> symbol ids through the implementation's numbering (names)
        name2id = {v["name"]: k for k, v in g.syms.items()}
        ids = []
        for t in c["xs"]["terms"]:
            nm = t if not t.startswith("'") else "$operator" + t[1]
            ids.append(name2id.get(nm, 0))
        for w in c["inputs"]:
            for vn in vnames:
                r = xrun.impl_run(res, c, vn, w)
                if r is None or r["verdict"] != "accept":
                    continue
                accepted += 1
                toks = [ids[ord(ch) - 97] for ch in w]
                tree = tree_from_reductions(g, r["log"], toks)
                if tree is None:
                    violations.append(xviol(pid, res, c, vn, "accepted input whose reduction log is not a bottom-up parse of it",
                                            {"input": w, "log": r["log"]}))
                    continue
                try:
                    want, _ = eval_tree(c["xs"], g, tree, 0)
                except ValueError as e:
                    violations.append(xviol(pid, res, c, vn, "the actions that ran (their log) are not those of the rules the grammar file gives these numbers: " + str(e),
                                            {"input": w, "log": r["log"]}))
                    continue
                if len(samples) < 3 and len(w) >= 3 and vn == vnames[0]:
                    samples.append({"case": c["id"], "input": w, "log": r["log"], "value": r["val"], "bottom_up_value": want})
                if want != r["val"]:
                    violations.append(xviol(pid, res, c, vn, "returned value differs from the bottom-up evaluation of the actions",
                                            {"input": w, "log": r["log"], "value": r["val"], "expected": want}))
    cov = {"evaluations": accepted, "distinct_nontrivial": len(res["usable"]),
           "rule": "grammars with random linear actions $$ = (K + sum c_k * $k) mod p over two union fields (tags alternate a/b on tokens and nonterminals; empty rules, rules up to length 11, deep nesting); all five variants; evaluations = accepted runs whose value was compared with an independent bottom-up evaluation of the parse tree rebuilt from the reduction log",
           "samples": samples, "runs_total": nruns, "variants": vnames, "ts_skipped": res["skipped_ts"],
           "reduce_case_texts_compared_with_substitution_model": subst_n, "of_which_the_emitter_panics": subst_panics,
           "programs": len(res["usable"]) * len(vnames), "disagreements_checked": len(ties) + len(violations), "trusted_base": TRUSTED}
    return common.conclude(pid, tier, C07_LEVEL, proof, ties, violations, cov, ["$k only for 1 <= k <= |rhs| and only for symbols with a tag"])


C07_THEOREMS = ["Y.Props.C07_value", "Y.Props.C07_slots",
                # the text half: the emitters' rewriting of the action text
                "Y.Props.C07_subst_chunks", "Y.Props.C07_subst_chunks_ts", "Y.Props.C07_subst_verbatim", "Y.Props.C07_subst_verbatim_ts",
                "Y.Props.C07_subst_plain", "Y.Props.C07_subst_refuses", "Y.Props.C07_subst_refuses_ts",
                "Y.Props.C07_subst_no_dollar", "Y.Props.C07_subst_no_dollar_ts", "Y.Props.comment_closed", "Y.Props.comment_closed_rule"]
C07_MODULES = ["Yv.Props.C07", "Yv.Props.C07b"]
C07_LEVEL = "proof"


# ------------------------------------------------------------------------------------------- C17

import re  # noqa: E402
import collections  # noqa: E402


def trace_name(nm):
    if len(nm) > 9 and nm.startswith("$operator"):
        return "'" + nm[9:] + "' "
    return nm


def check_C17(tier):
    pid = "C17"
    rng = random.Random(common.seed() * 1000003 + 17)
    ok, msg = prebuild()
    if not ok:
        return build_failure(pid, tier, msg)
    proof = common.prove(C17_THEOREMS, C17_MODULES)
    govars = [v for v in xrun.VARIANTS if v[0] == "go"]
    res = x_sweep(tier, rng, trace=True, variants=govars)
    ties = x_build_ties(res)
    t2, nruns = x_model_ties(res, variants=govars)
    ties += t2
    ties += driver_cert_ties(res, variants=govars)
    # the two trace tables (symbol names, rule texts) as the emitter prints them = the emission model's text
    et, emit_n, emit_skipped, _ = emit_ties([res["meta"]["%s|%s" % (c["id"], govars[0][3])]["src"] for c in res["usable"]],
                                            keys=("TranslateTrace", "ReduceTrace"))
    ties += et
    violations, samples = [], []
    lines_checked = 0
    parsed_kinds = {"S": 0, "R": 0}
    unparseable = []
    # tracing switched on by an action in the middle of a parse (the yydebug idiom): from that reduction on the lines
    # printed must be the lines the same run prints when traced from the start
    late_runs = 0
    for c in res["usable"]:
        for v in govars:
            for w in [x for x in c["inputs"] if x][:12]:
                full, late = xrun.impl_run(res, c, v[3], w), xrun.impl_run(res, c, v[3], "!" + w)
                if full is None or late is None or full["verdict"] == "loop":
                    continue
                late_runs += 1
                k = next((i for i, ln in enumerate(full["trace"]) if ln.startswith("look ahead")), None)
                want = full["trace"][k:] if k is not None else []
                if late["trace"] != want:
                    j = next((i for i in range(max(len(want), len(late["trace"]))) if i >= len(want) or i >= len(late["trace"]) or want[i] != late["trace"][i]), 0)
                    violations.append(xviol(pid, res, c, v[3], "the trace printed after an action has switched tracing on differs from the trace of the same run from that reduction on",
                                            {"input": w, "first_differing_line": j, "printed": late["trace"][j:j + 3], "expected": want[j:j + 3]}))
    for c in res["usable"]:
        g = c["core"].g
        if g is None:
            continue
        goto = {(q, x): p for (q, x, p) in c["core"].gotos()}
        names = {k: trace_name(v["name"]) for k, v in g.syms.items()}
        name2id = {v["name"]: k for k, v in g.syms.items()}
        ids = []
        for t in c["xs"]["terms"]:
            nm = t if not t.startswith("'") else "$operator" + t[1]
            ids.append(name2id.get(nm, 0))
        rule_text = {}
        for i, (lhs, rhs, _) in enumerate(g.rules):
            rule_text[i] = "use Reduce:%s -> %s" % (names[lhs], "".join(names[x] + " " for x in rhs))
        for v in govars:
            for i, w in enumerate(c["inputs"]):
                r = xrun.impl_run(res, c, v[3], w)
                mr = xrun.model_run(res, c, v[3], i)
                if r is None or r["verdict"] == "loop":
                    continue
                toks = [ids[ord(ch) - 97] if ord(ch) - 97 < len(ids) else 0 for ch in w]
                # model's events must be the printed lines (tie)
                evs = []
                for ln in r["trace"]:
                    m1 = re.match(r"Shift (.*), push state (-?\d+)$", ln)
                    m2 = re.match(r"look ahead (.*), (use Reduce:.*), go to state (-?\d+)$", ln)
                    if m1:
                        evs.append(("S", m1.group(1), int(m1.group(2))))
                        parsed_kinds["S"] += 1
                    elif m2:
                        evs.append(("R", m2.group(1), m2.group(2), int(m2.group(3))))
                        parsed_kinds["R"] += 1
                    else:
                        evs.append(("?", ln))
                lines_checked += len(evs)
                if mr is not None and "trace" in mr:
                    mev = []
                    for e in mr["trace"]:
                        f = e.split(":")
                        if f[0] == "S":
                            mev.append(("S", names.get(int(f[1]), "?"), int(f[2])))
                        else:
                            mev.append(("R", names.get(int(f[3]), "?"), rule_text.get(int(f[1]), "?"), int(f[2])))
                    if mev != evs and r["verdict"] in ("accept", "reject"):
                        ties.append({"what": "trace events of the driver model differ from the printed trace", "case": c["id"], "variant": v[3],
                                     "input": w, "printed": r["trace"][:12], "model": mr["trace"][:12]})
                # the property: the printed run is a legal run of the automaton that matches the reductions executed
                what = "unparseable trace line" if any(e[0] == "?" for e in evs) else None
                stack = [0]
                ti = 0
                k = 0
                j = 0
                while j < len(evs) and what is None:
                    e = evs[j]
                    if e[0] == "?":
                        what = "unparseable trace line"
                    elif e[0] == "S":
                        la = toks[ti] if ti < len(toks) else 1
                        if names.get(la) != e[1] or goto.get((stack[-1], la)) != e[2]:
                            what = "shift line does not match the input token / automaton transition"
                        else:
                            stack.append(e[2])
                            ti += 1
                    else:
                        if k >= len(r["log"]):
                            what = "more reduce lines than reductions executed"
                            break
                        ru = r["log"][k]
                        k += 1
                        lhs, rhs, _ = g.rules[ru]
                        la = toks[ti] if ti < len(toks) else 1
                        if e[2] != rule_text[ru]:
                            what = "reduce line prints a different rule text than the rule reduced"
                        elif names.get(la) != e[1]:
                            what = "reduce line prints a different lookahead than the one that triggered it"
                        elif len(stack) - 1 < len(rhs):
                            what = "reduction deeper than the stack"
                        else:
                            del stack[len(stack) - len(rhs):]
                            p = goto.get((stack[-1], lhs))
                            nxt = evs[j + 1] if j + 1 < len(evs) else None
                            if p != e[3] or nxt is None or nxt[0] != "S" or nxt[1] != names[lhs] or nxt[2] != p:
                                what = "goto after a reduction is not the automaton's transition / not followed by its push line"
                            else:
                                stack.append(p)
                                j += 1
                    j += 1
                if what is None and k != len(r["log"]):
                    what = "fewer reduce lines than reductions executed"
                if what is None and r["verdict"] == "accept" and ti != len(toks):
                    what = "accepted but the trace does not shift every token"
                if len(samples) < 2 and r["verdict"] == "accept" and len(w) >= 2:
                    samples.append({"case": c["id"], "variant": v[3], "input": w, "trace": r["trace"][:10]})
                if what == "unparseable trace line":
                    unparseable.append(xviol(pid, res, c, v[3], what, {"input": w, "trace": r["trace"][:40], "log": r["log"]}))
                elif what:
                    violations.append(xviol(pid, res, c, v[3], what, {"input": w, "trace": r["trace"][:40], "log": r["log"]}))
    # a line that cannot be read is a garbled line only if the line format as such is still the known one
    # (lines of both kinds were read elsewhere); a reworded trace is not a violation: the property fixes no format
    if unparseable and (parsed_kinds["S"] == 0 or parsed_kinds["R"] == 0):
        ties.append({"what": "the trace line format is not the one this check reads (no shift or no reduce line could be read): the printed run cannot be judged",
                     "example": unparseable[0]["replay"].get("trace", [])[:6] if isinstance(unparseable[0].get("replay"), dict) else None})
    else:
        violations += unparseable
    cov = {"evaluations": lines_checked, "runs_with_tracing_switched_on_by_an_action": late_runs, "trace_table_texts_compared_with_emission_model": emit_n, "trace_table_texts_not_compared_non_ascii": emit_skipped, "distinct_nontrivial": len(res["usable"]),
           "rule": "Go variants (global and -o, packed and -u) with IsTrace = true; every printed line of every run replayed against the implementation's LR(0) automaton (core dump of the same grammar) and the reduction log; evaluations = trace lines",
           "samples": samples, "runs_total": nruns, "programs": len(res["usable"]) * len(govars),
           "disagreements_checked": len(ties) + len(violations), "trusted_base": TRUSTED}
    return common.conclude(pid, tier, C17_LEVEL, proof, ties, violations, cov, ["symbol names without % or quotes (see C16 finding)"])


C17_THEOREMS = ["Y.Props.C17_trace"]
C17_MODULES = ["Yv.Props.C17"]
C17_LEVEL = "proof"


# ------------------------------------------------------------------------------------------- C16

C16_NAMES_T = ["NUM", "IDENT", "tok_1", "T9", "_x", "Étoile", "λ", "KW_IF", "a1b2", "EOFTOK", "Tok", "x"]
# nonterminal names never become identifiers of the generated code (only tokens do), so they may be
# keywords or emitter-internal names of either target language
C16_NAMES_N = ["expr", "stmt_list", "S1", "_n", "Program", "opt", "é", "n0", "Z",
               "function", "class", "func", "var", "new", "default", "import", "Parser", "ValType", "translate", "StateSym"]
C16_LITS = list("+-*/()=<>!&^~,.#@[]?:;|$_azAZ09") + ['"', "%", "{", "}", "`", "\\"] + list("×ßéλ")


def c16_spec(rng):
    nt = rng.randint(1, 5)
    nn = rng.randint(1, 4)
    tokens = rng.sample(C16_NAMES_T, nt)
    nts = rng.sample(C16_NAMES_N, nn)
    lits = ["'%s'" % c for c in rng.sample(C16_LITS, rng.randint(0, 4))]
    terms = tokens + lits
    rules = []
    for i, n in enumerate(nts):
        for a in range(rng.randint(1, 3)):
            ln = rng.choice([0, 1, 1, 2, 3, 5, 5, 11] if a > 0 else [0, 1, 1, 2, 3, 5])
            rhs = [rng.choice(terms) if (a == 0 or rng.random() < 0.6) else rng.choice(nts) for _ in range(ln)]
            rules.append({"lhs": n, "rhs": rhs, "prec": None})
    prec = []
    if rng.random() < 0.5:
        pool = [t for t in terms if rng.random() < 0.5]
        while pool:
            k = rng.randint(1, min(2, len(pool)))
            prec.append((rng.choice(["left", "right", "nonassoc", "precedence"]), pool[:k]))
            pool = pool[k:]
    sp = {"tokens": tokens, "lits": lits, "prec": prec, "nts": nts, "start": nts[0], "rules": rules}
    if rng.random() < 0.3:
        sp["nums"] = {t: 300 + 7 * i for i, t in enumerate(tokens) if rng.random() < 0.5}
    # the value tag of some terms arrives in a later %token line of its own (after the number / the precedence line)
    in_prec = set(x for _, ss in prec for x in ss)
    sp["late_tags"] = [t for t in terms if rng.random() < (0.6 if t in in_prec else 0.2)]
    return sp


def c16_render(sp, target, pkg, rng_actions):
    """minimal file: prologue names the package and imports fmt; epilogue defines GetToken only"""
    tags = {}
    fields = ["val", "str", "n_2"]
    for s in sp["tokens"] + sp["lits"] + sp["nts"]:
        if rng_actions.random() < 0.6:
            tags[s] = rng_actions.choice(fields)
    # a term whose tag is declared late carries a tag, and some action reads it: its tag is the one of a rule it occurs in
    for t in sp.get("late_tags", []):
        users = [r for r in sp["rules"] if t in r["rhs"]]
        if users:
            lhs = rng_actions.choice(users)["lhs"]
            tags[lhs] = tags.get(lhs, rng_actions.choice(fields))
            tags[t] = tags[lhs]
        else:
            tags.setdefault(t, rng_actions.choice(fields))
    # a rule with ten or more symbols refers to its last symbol ($10, $11, …)
    for r in sp["rules"]:
        if len(r["rhs"]) >= 10:
            tags[r["lhs"]] = tags.get(r["lhs"], "val")
            tags[r["rhs"][-1]] = tags[r["lhs"]]
    acts = []
    for r in sp["rules"]:
        a = ""
        if r["lhs"] in tags:
            same = [k for k, s in enumerate(r["rhs"]) if tags.get(s) == tags[r["lhs"]]]
            if same and (len(r["rhs"]) >= 10 or rng_actions.random() < 0.7):
                a = "$$ = $%d" % ((same[-1] if len(r["rhs"]) >= 10 else rng_actions.choice(same)) + 1)
            elif rng_actions.random() < 0.5:
                a = "$$ = $$"
            if rng_actions.random() < 0.3:
                a += " /* note: $$ */ "
            if rng_actions.random() < 0.2:
                a += " // tail\n"
        if a == "" and rng_actions.random() < 0.5:
            a = None                      # no action block at all
        acts.append(a)
    if rng_actions.random() < 0.15:
        acts = [None] * len(acts)         # a pure recogniser: no rule has an action
    if rng_actions.random() < 0.25:
        # the whole union on one line, ending in a line comment right before the closing brace
        sp = dict(sp, union_inline=True)
        inline = True
    else:
        inline = False
    if target == "go":
        union = " val int; str string; n_2 float64 // the semantic values " if inline else " val int\n str string\n n_2 float64"
        pro = "package %s\nimport \"fmt\"" % pkg
        epi = "\nfunc GetToken(input string, valTy *ValType, pos *int) int {\n\treturn -1\n}\n"
    else:
        union = " val :number; str :string; n_2 :number; // the semantic values " if inline else " val :number;\n str :string;\n n_2 :number;"
        pro = "// ts"
        epi = "\nfunction GetToken(input :string, model:{ValType :ValType, pos :number}) :number {\n\treturn -1\n}\nconsole.log(\"LOADED\", typeof Parser === \"function\");\n"   # loading only: running the parser of a cyclic grammar need not terminate
    src = gen.render(sp, prologue=pro, epilogue=epi, union=union, actions=acts, tags=tags)
    if rng_actions.random() < 0.25:
        # block comments glued to the token that follows (an identifier, a literal, the `{` of an action)
        body_end = src.rfind("%%")
        src = gen.glue_comments(src[:body_end + 2], rng_actions, p=0.5, before=rng_actions.choice(["{", "{", "_{'"])) + src[body_end + 2:]
    return src


def check_C16(tier):
    pid = "C16"
    rng = random.Random(common.seed() * 1000003 + 16)
    ok, msg = prebuild()
    if not ok:
        return build_failure(pid, tier, msg)
    proof = common.prove(C16_THEOREMS, C16_MODULES)
    n = 40 if tier == "quick" else 1200
    specs = [c16_spec(rng) for _ in range(n)]
    for sp in HAND_SPECS:
        specs.append(sp)
    work = common.tmpdir("c16")
    jobs, meta = [], {}
    node = xrun.find_node()
    for ci, sp in enumerate(specs):
        arng = random.Random(rng.random())
        for vi, (target, unpack, obj, vname) in enumerate(xrun.VARIANTS):
            pkg = "g%dv%d" % (ci, vi)
            if target == "go":
                d = os.path.join(work, "xp", pkg)
                os.makedirs(d, exist_ok=True)
                outp = os.path.join(d, "p.go")
            else:
                os.makedirs(os.path.join(work, "ts"), exist_ok=True)
                outp = os.path.join(work, "ts", pkg + ".ts")
            src = c16_render(sp, target, pkg, random.Random(arng.random() if False else ci))
            jid = "%d|%s" % (ci, vname)
            if ci % 3 == 0:
                # the output path already holds a longer file (an earlier generation of a bigger grammar): the new
                # file must still be complete program text "as is"
                with open(outp, "w") as f:
                    f.write(("// stale output of an earlier run\n" + "var stale%d = 1 +\n" % ci) * 4000)
            jobs.append({"id": jid, "src": src, "out": outp, "target": target, "unpack": unpack, "object": obj})
            meta[jid] = {"src": src, "out": outp, "target": target, "pkg": pkg, "vname": vname}
    p = common.sh([common.BIN + "/yharness", "xgen"], inp="".join(json.dumps(j) + "\n" for j in jobs).encode())
    for line in p.stdout.decode(errors="replace").split("\n"):
        f = line.split()
        if len(f) >= 3 and f[0] == "XGEN":
            meta[f[1]]["gen"] = f[2:]
    violations, ties, samples = [], [], []
    accepted = 0
    open(os.path.join(work, "go.mod"), "w").write("module xp\n\ngo 1.18\n")
    gofiles = []
    for jid, m in meta.items():
        if m.get("gen", ["?"])[0] != "ok":
            if m["target"] == "go":
                shutil.rmtree(os.path.dirname(m["out"]), ignore_errors=True)
            continue
        accepted += 1
        if m["target"] == "go":
            gofiles.append(m)
    # one `go vet`-free build of all packages; on failure find the offending packages one by one
    b = common.sh(["go", "build", "./..."], cwd=work, env=common.GOENV)
    if b.returncode != 0:
        err = b.stderr.decode(errors="replace")
        badpk = sorted(set(re.findall(r"xp/(g\d+v\d+)", err)))
        for m in gofiles:
            if m["pkg"] in badpk:
                msgs = [l for l in err.split("\n") if m["pkg"] in l][:5]
                violations.append({"key": common.finding_key({"src": m["src"]}), "what": "generated Go file does not compile",
                                   "replay": {"property": pid, "variant": m["vname"], "grammar_file": m["src"], "compiler": msgs}})
        if not badpk:
            ties.append({"what": "go build failed", "detail": err[-1500:]})
    ts_loaded = 0
    if node:
        procs = []
        for jid, m in meta.items():
            if m["target"] == "typescript" and m.get("gen", ["?"])[0] == "ok":
                procs.append((m, subprocess.Popen([node, "--experimental-strip-types", "--no-warnings", m["out"]],
                                                  stdout=subprocess.PIPE, stderr=subprocess.PIPE)))
                if len(procs) >= 16:
                    ts_loaded += _c16_collect(pid, procs, violations)
                    procs = []
        ts_loaded += _c16_collect(pid, procs, violations)
    samples.append({"grammar_file": meta["0|go-packed"]["src"][:600]})
    cov = {"evaluations": accepted, "distinct_nontrivial": len(specs),
           "rule": "random grammars over a pool of symbol names (underscores, digits, non-ASCII letters), 0-4 character literals from a pool of 33 printable characters, explicit token numbers, tags on a random subset of symbols, rules of length 0-5, precedence lines; minimal prologue (package + import fmt) and epilogue (GetToken only); all five variants; evaluations = generated files accepted by yaccgo and given to go build / Node",
           "samples": samples, "go_files_built": len(gofiles), "ts_files_loaded": ts_loaded, "ts_skipped": 0 if node else n,
           "explanation": "the dynamic fragments vary with the grammar; the static template text is compiled once per variant by the real toolchain. TypeScript is loaded with Node type stripping: there is no tsc in this sandbox, so TS type errors are out of reach.",
           "trusted_base": TRUSTED + ["Go toolchain, Node type stripping (no TypeScript type checking available)"]}
    return common.conclude(pid, tier, "other", proof, ties, violations, cov,
                           ["symbol names are identifiers that are not keywords/predeclared names of the target language nor yaccgo directive words"])


def _c16_collect(pid, procs, violations):
    okc = 0
    for m, p in procs:
        try:
            out, err = p.communicate(timeout=60)
        except subprocess.TimeoutExpired:
            p.kill()
            out, err = p.communicate()
        if p.returncode == 0 and b"LOADED" in out:
            okc += 1
        else:
            violations.append({"key": common.finding_key({"src": m["src"]}), "what": "generated TypeScript file does not load",
                               "replay": {"property": pid, "variant": "ts", "grammar_file": m["src"], "node_stderr": err.decode(errors="replace")[-800:]}})
    return okc


C16_THEOREMS = []
C16_MODULES = []


# ------------------------------------------------------------------------------------------- C15

def check_C15(tier):
    pid = "C15"
    rng = random.Random(common.seed() * 1000003 + 15)
    ok, msg = prebuild()
    if not ok:
        return build_failure(pid, tier, msg)
    proof = common.prove(C15_THEOREMS, C15_MODULES)
    xc = make_xcases(tier, rng, n=10 if tier == "quick" else 60)
    def inputs_of(c):
        return gen.x_inputs(c["xs"], rng, max_len=2, n_sent=12, cap=40)
    res = xrun.run_c15(xc, inputs_of, rng)
    ties, violations, samples = [], [], []
    if res["build_error"]:
        ties.append({"what": "generated files do not compile", "detail": res["build_error"][-1500:]})
    if res["race"]:
        violations.append({"key": common.finding_key({"race": True}), "what": "data race between parsers running on distinct contexts",
                           "replay": {"property": pid, "race_report": res["race"]}})
    evals = 0
    for c in res["usable"]:
        # reference = the same implementation parsing the input ALONE in a fresh process; the Lean
        # model's pure-function result must equal it (tie), histories/contexts must equal it (property)
        exp = {}
        for i, w in enumerate(c["base"]):
            so = res.get("solo", {}).get((c["id"], w))
            mo = res["mruns"].get((c["id"], i))
            if so is None:
                ties.append({"what": "no solo reference run", "case": c["id"], "input": w})
                exp[w] = mo
                continue
            sref = (xrun.norm_verdict(so[0]), so[1] or [], so[2])
            exp[w] = sref
            if mo is not None and not (sref[0] == "loop" or mo[0] == "loop") and (mo[0], mo[1], mo[2]) != sref:
                ties.append({"what": "driver model differs from the solo run of the compiled parser", "case": c["id"], "input": w,
                             "impl": list(sref), "model": list(mo)})
        h = res["meta"]["%s|h" % c["id"]]["pkg"]
        k = res["meta"]["%s|c" % c["id"]]["pkg"]

        def norm(r):
            if isinstance(r, dict):
                return (xrun.norm_verdict(r["V"]), r["Log"] or [], r["Val"])
            return (xrun.norm_verdict(r[0]), r[1] or [], r[2])

        def cmp(label, ins, outs, variant):
            nonlocal evals
            if outs is None:
                ties.append({"what": "no output from the runner", "case": c["id"], "mode": label})
                return
            for w, r in zip(ins, outs):
                evals += 1
                e = exp.get(w)
                got = norm(r)
                if e is None:
                    continue
                if got[0] == "loop" or e[0] == "loop":
                    if got[0] != e[0]:
                        violations.append(xviol15(pid, res, c, variant, label, w, got, e))
                    continue
                if got != (e[0], e[1], e[2]):
                    violations.append(xviol15(pid, res, c, variant, label, w, got, e))
        cmp("global parser: history of parses with ParserInit() in between", c["hist"], res["out"].get(h), "h")
        # the -o form is compared with ITS OWN fresh-context results
        fresh = res["out"].get(k + ":F")
        if fresh is not None:
            for w, r in zip(c["base"], fresh):
                exp[w] = norm(r)
        cmp("one context reused over a history with c.ParserInit() in between", c["hist"], res["out"].get(k + ":R"), "c")
        conc = res["out"].get(k + ":C")
        if conc is not None:
            for w, rounds in zip(c["base"][:16], conc):
                cmp("distinct contexts running concurrently (3 rounds each)", [w] * len(rounds), rounds, "c")
        if res["node"]:
            for w in c["base"]:
                so = res.get("tssolo", {}).get((c["id"], w))
                if so is not None:
                    exp[w] = (xrun.norm_verdict(so[0]), so[1] or [], so[2])
            tr = res["tsruns"].get(c["id"], [])
            cmp("TypeScript parser: history with initialize() in between", [x[0] for x in tr], [[x[1], x[2], x[3]] for x in tr], "ts")
            if len(tr) != len(c["hist"]):
                ties.append({"what": "TypeScript history run incomplete", "case": c["id"], "got": len(tr), "want": len(c["hist"])})
        if len(samples) < 2:
            samples.append({"case": c["id"], "history": c["hist"][:8], "results": (res["out"].get(h) or [])[:4]})
    # nested parses through the package-global template's context stack (PushContex / PopContex)
    nt, nv, ne = xrun.run_c15_nested(rng)
    ties += nt
    evals += ne
    for v in nv[:3]:
        violations.append({"key": common.finding_key({"nested": v["input"], "pos": v["position_in_history"]}),
                           "what": "global parser with nested parses: after ParserInit() the result of Parser(%r) is %r, alone it is %r" % (v["input"], v["got"], v["alone"]),
                           "replay": dict(v, property=pid)})
    # the nested parse and the enclosing parse must not interfere either: the enclosing parse continues as if the
    # sub-string had been parsed by a parser of its own (the independent evaluation substitutes its value)
    nt2, nwrong, nsolo = xrun.run_c15_nested(rng, with_expected=True)
    ties += nt2
    evals += nsolo
    for v in nwrong[:3]:
        violations.append({"key": common.finding_key({"nested-interference": v["input"]}),
                           "what": "a nested parse interferes with the enclosing one (%s): Parser(%r) gives %r, with the sub-strings parsed separately it is %r" % (
                               v["scenario"], v["input"], v["got"], v["expected"]),
                           "replay": dict(v, property=pid)})
    cov = {"evaluations": evals, "distinct_nontrivial": len(res["usable"]) + 1,
           "rule": "a fixed grammar whose action parses a sub-string with the same global parser (PushContex/ParserInit/Parser/PopContex), history with failing nested parses vs fresh-process runs; per grammar: a shuffled history with repeats (accepted and rejected inputs mixed) on the global Go parser with ParserInit() in between, on one reused -o context with c.ParserInit() in between, on fresh contexts, on up to 16 contexts parsing concurrently (3 rounds each) under the Go race detector, and on the TypeScript parser with initialize() in between; every result must equal the pure-function result of the Lean driver model on the scraped table",
           "samples": samples, "race_detector": bool(res.get("race_build")), "ts_skipped": 0 if res["node"] else len(res["usable"]),
           "programs": len(res["usable"]) * 3, "disagreements_checked": len(ties) + len(violations), "trusted_base": TRUSTED + ["Go race detector"],
           "partial": ["memory-level data races are outside the Lean model; they are covered by the race detector run only"]}
    return common.conclude(pid, tier, C15_LEVEL, proof, ties, violations, cov, [])


def xviol15(pid, res, c, variant, label, w, got, exp):
    m = res["meta"]["%s|%s" % (c["id"], variant)]
    payload = {"property": pid, "what": "a parse depends on earlier or concurrent parses", "mode": label, "grammar_file": m["src"],
               "input": w, "got": list(got), "expected_solo": list(exp), "history": c["hist"]}
    return {"key": common.finding_key({"src": m["src"], "mode": label, "input": w}), "what": payload["what"] + " (" + label + ")", "replay": payload}


C15_THEOREMS = ["Y.Props.C15_reinit_global", "Y.Props.C15_reinit_ctx", "Y.Props.bottomIntact_preserved",
                "Y.Props.C15_reinit_ctx_after_parses", "Y.Props.C15_contexts", "Y.Props.C15_contexts_run"]
C15_THEOREMS += ["C08b.init_global_eq", "C08b.init_object_eq"]     # ParserInit of both Go templates, translated
C15_MODULES = ["Yv.Props.C15", "Yv.Props.C08b"]
C15_LEVEL = "proof"


# ------------------------------------------------------------------------------------------- front end (C10-C13)

def run_front(cases, timeout=900):
    """cases: list of dict(id, src) -> dict id -> {'impl': [...], 'model': [...]}"""
    def run_batch(batch, tmo):
        inp = "".join(json.dumps({"id": c["id"], "src": c["src"]}) + "\n" for c in batch).encode()
        try:
            p = common.sh(["bash", "-c", "ulimit -v 6000000; exec %s front" % (common.BIN + "/yharness")], inp=inp, timeout=tmo)
            return p.returncode == 0, p.stdout
        except subprocess.TimeoutExpired:
            return False, b""
    out = b""
    B = 200
    died = [0]
    for k in range(0, len(cases), B):
        batch = cases[k:k + B]
        good, txt = run_batch(batch, 30 + len(batch))
        if good:
            out += txt
            continue
        # the process died or hung: run its cases one by one; a case that kills it alone is recorded as a hang
        for c in batch:
            if died[0] >= 8:
                out += ("FCASE %s\nSKIPPED\nFEND\n" % c["id"]).encode()
                continue
            good, txt = run_batch([c], 15)
            if good:
                out += txt
            else:
                died[0] += 1
                out += ("FCASE %s\nPROCESSDIED\nBUILDHANG\nFEND\n" % c["id"]).encode()
    m = common.sh([common.YMODEL], inp=out, timeout=timeout)
    p = type("P", (), {"stdout": out})
    impl = parse_blocks(p.stdout.decode(errors="replace"), "FCASE", "FEND")
    model = parse_blocks(m.stdout.decode(errors="replace"), "FCASE", "FEND")
    return {c["id"]: {"impl": [l for l in impl.get(c["id"], []) if not l.startswith("SRC ")],
                      "model": model.get(c["id"], [])} for c in cases}


def front_stage_ties(cid, rec, src, stages=("TOK", "AST", "GRAMMAR", "SYM", "RULE", "REFUSE"), refuse_class=True):
    """model vs implementation, stage by stage (ASCII texts only)"""
    ml = [l[2:] for l in rec["model"] if l.startswith("M ")]
    if any(l in ("NONASCII", "NONUTF8") for l in ml):
        return []
    ties = []
    for st in stages:
        a = [l for l in rec["impl"] if l.split()[0] == st]
        b = [l for l in ml if l.split()[0] == st]
        if st == "SYM":
            # the nullable flag is a by-product of a later stage (C02/C03/C12 look at it); the front-end
            # properties C10/C11 do not depend on it
            a = [" ".join(l.split(" ")[:6] + l.split(" ")[7:]) for l in a]
            b = [" ".join(l.split(" ")[:6] + l.split(" ")[7:]) for l in b]
        if st == "REFUSE":
            a = [" ".join(l.split()[:2]) for l in a]
            a = [x if not x.startswith("REFUSE panic") else "REFUSE panic" for x in a]
            b = [x if not x.startswith("REFUSE panic") else "REFUSE panic" for x in b]
            if not refuse_class:
                # only "stops with a diagnostic" matters (C13); which diagnostic comes first on texts
                # outside the grammar domain (e.g. a garbled %start) is not mirrored
                a = ["REFUSE" for _ in a]
                b = ["REFUSE" for _ in b]
        if a != b:
            k = next((i for i in range(max(len(a), len(b))) if i >= len(a) or i >= len(b) or a[i] != b[i]), 0)
            ties.append({"what": "front-end mirror stage differs: " + st, "case": cid, "src": src[:2000],
                         "impl": a[k] if k < len(a) else "<missing>", "model": b[k] if k < len(b) else "<missing>"})
            break
    return ties


def unq(s):
    return cfg._unq(s) if s.startswith('"') else s


def digest_front(lines):
    """what the implementation read, in terms of names"""
    d = {"syms": {}, "rules": [], "actions": {}, "ast": {}, "refuse": None, "hang": None, "ast_err": False}
    for l in lines:
        f = l.split(" ", 1)
        if f[0] in ("LEXHANG", "PARSEHANG", "BUILDHANG"):
            d["hang"] = f[0]
        elif f[0] == "REFUSE":
            d["refuse"] = l.split()[1]
        elif f[0] == "AST":
            g = f[1].split(" ", 1)
            if g[0] in ("ERR", "PANIC"):
                d["ast_err"] = True
            elif g[0] in ("code", "union", "rest", "start"):
                d["ast"][g[0]] = unq(g[1])
        elif f[0] == "SYM":
            p = l.split(" ", 8)
            d["syms"][int(p[1])] = {"nt": p[2] == "1", "value": int(p[3]), "prec": int(p[4]), "assoc": int(p[5]),
                                    "name": unq(p[7]), "tag": unq(p[8]) if len(p) > 8 else ""}
        elif f[0] == "RULE":
            p = l.split()
            d["rules"].append((int(p[2]), int(p[3]), [int(x) for x in p[4:]]))
        elif f[0] == "ACTION":
            p = l.split(" ", 2)
            d["actions"][int(p[1])] = unq(p[2])
        elif f[0] == "START":
            d["start"] = unq(l.split(" ", 1)[1])
    return d


def sym_name(s):
    return "$operator" + gen.lit_char(s) if s.startswith("'") else s


def expected_front(fs):
    """what C10 says the grammar must contain, from the abstract file spec"""
    level = {}
    for i, (kind, syms) in enumerate(fs["prec"]):
        for s in syms:
            level[s] = (i + 1, {"left": 0, "right": 1}.get(kind, 2))
    rules = []
    for i, r in enumerate(fs["rules"]):
        pr = None
        for s in r["rhs"]:
            if s in level:
                pr = s
        if r.get("prec"):
            pr = r["prec"] if r["prec"] in level else None
        rules.append({"lhs": r["lhs"], "rhs": [sym_name(s) for s in r["rhs"]], "prec": sym_name(pr) if pr else None,
                      "action": fs["actions"][i] or ""})
    syms = {}
    for t in fs["tokens"]:
        syms[t] = {"tag": fs["tags"].get(t, ""), "value": fs["nums"].get(t), "level": level.get(t, (-1, 2))}
    for l in fs["lits"]:
        syms[sym_name(l)] = {"tag": fs["tags"].get(l, ""), "value": ord(gen.lit_char(l)), "level": level.get(l, (-1, 2))}
    for n in fs["nts"]:
        syms[n] = {"tag": fs["tags"].get(n, ""), "value": None, "level": (-1, 2)}
    return {"rules": rules, "syms": syms, "start": fs["start"], "code": fs["prologue"], "union": fs["union"], "rest": fs["epilogue"]}


def compare_front(d, exp):
    """returns None if the implementation read exactly the expected grammar, else a description"""
    if d["refuse"] or d["ast_err"] or d["hang"]:
        return "not accepted: %s" % (d["refuse"] or d["hang"] or "syntax error")
    name = {k: v["name"] for k, v in d["syms"].items()}
    got_rules = []
    for i, (lhs, ps, rhs) in enumerate(d["rules"]):
        if i == 0:
            if [name[x] for x in rhs] != [exp["start"]]:
                return "start symbol is %s, expected %s" % ([name[x] for x in rhs], exp["start"])
            continue
        got_rules.append({"lhs": name[lhs], "rhs": [name[x] for x in rhs], "prec": name[ps] if ps >= 0 else None,
                          "action": d["actions"].get(i, "")})
    if got_rules != exp["rules"]:
        for i in range(max(len(got_rules), len(exp["rules"]))):
            a = got_rules[i] if i < len(got_rules) else None
            b = exp["rules"][i] if i < len(exp["rules"]) else None
            if a != b:
                return "rule %d read as %s, expected %s" % (i + 1, a, b)
    by_name = {v["name"]: v for v in d["syms"].values()}
    for n, e in exp["syms"].items():
        g = by_name.get(n)
        if g is None:
            # a literal or nonterminal that occurs nowhere in the file (no tag, no precedence, no rule) is not a symbol
            used = any(n == r["lhs"] or n in r["rhs"] for r in exp["rules"]) or e["tag"] or e["level"][0] != -1 or n == exp["start"]
            if not used and (e["value"] is None or n.startswith("$operator")):
                continue
            return "symbol %s missing" % n
        if g["tag"] != e["tag"]:
            return "symbol %s has tag %r, expected %r" % (n, g["tag"], e["tag"])
        if e["value"] is not None and g["value"] != e["value"]:
            return "token %s has code %d, expected %d" % (n, g["value"], e["value"])
        if (g["prec"], g["assoc"]) != e["level"] and not g["nt"]:
            return "token %s has precedence %s, expected %s" % (n, (g["prec"], g["assoc"]), e["level"])
    # "token numbers" are read faithfully only if every terminal still has a code of its own
    tv = sorted((v["value"], v["name"]) for v in d["syms"].values() if not v["nt"])
    for (a, na), (b, nb) in zip(tv, tv[1:]):
        if a == b:
            return "tokens %s and %s share the code %d" % (na, nb, a)
    for k in ("code", "union", "rest"):
        if d["ast"].get(k) != exp[k]:
            return "%s carried as %r, expected %r" % ({"code": "prologue", "union": "%union body", "rest": "epilogue"}[k], d["ast"].get(k), exp[k])
    return None


def check_C10(tier):
    pid = "C10"
    rng = random.Random(common.seed() * 1000003 + 10)
    ok, msg = prebuild()
    if not ok:
        return build_failure(pid, tier, msg)
    proof = common.prove(C10_THEOREMS, C10_MODULES)
    nspec = 60 if tier == "quick" else 2500
    nlay = 6 if tier == "quick" else 16
    cases, specs = [], {}
    for i in range(nspec):
        fs = gen.file_spec(rng)
        specs[i] = fs
        cases.append({"id": "s%d:min" % i, "src": gen.render_file(fs, minimal=True)})
        for k in range(nlay):
            cases.append({"id": "s%d:l%d" % (i, k), "src": gen.render_file(fs, rng, drop_semi=(k % 2 == 1), drop_last_section=(k % 3 == 2))})
    rec = run_front(cases)
    ties, violations, samples = [], [], []
    refused_specs = 0
    base_refusal = {}
    for c in cases:
        i = int(c["id"].split(":")[0][1:])
        exp = expected_front(specs[i])
        d = digest_front(rec[c["id"]]["impl"])
        ties += front_stage_ties(c["id"], rec[c["id"]], c["src"])
        if c["id"].endswith(":min"):
            # is the specification itself an unusable grammar (C12)?  decided from the abstract spec, not from the wording of
            # the refusal: then every layout must be refused too (for which reason is C12's business, and a tie there)
            base_refusal[i] = c12_expected(specs[i]) if (d["refuse"] and d["refuse"] != "syntax" and not d["ast_err"]) else None
            if base_refusal[i]:
                refused_specs += 1
        if base_refusal.get(i):
            refused_now = bool(d["refuse"]) and d["refuse"] != "syntax" and not d["ast_err"] and not d["hang"]
            why = None if refused_now else "layout changes the verdict: the unusable grammar (%s) is %s in this layout" % (
                base_refusal[i], "processed" if not (d["refuse"] or d["ast_err"] or d["hang"]) else "not read (syntax error / no verdict)")
        else:
            why = compare_front(d, exp)
        if why:
            violations.append({"key": common.finding_key({"src": c["src"]}), "what": "grammar file not read faithfully: " + why,
                               "replay": {"property": pid, "grammar_file": c["src"], "why": why, "layout": c["id"]}})
    samples.append({"layout": cases[1]["id"], "grammar_file": cases[1]["src"][:700]})
    cov = {"evaluations": len(cases), "distinct_nontrivial": nspec,
           "rule": "random abstract file specifications (prologue, %union body, tagged/numbered tokens, literal tokens, %type, precedence lines, %start, rules with %prec and action bodies containing braces/comments, epilogue) x textual renderings: a minimal one and random ones (gaps drawn from blanks, tabs, newlines, // and /* */ comments incl. /**/ and /* x **/, optional ';'); the implementation's result (rules in order, symbols, start, numbers, tags, precedence, verbatim sections) is compared with what the specification says, and all stages with the Lean front-end model; distinct = specifications",
           "samples": samples, "layouts_per_spec": nlay + 1, "specs_refused_as_unusable": refused_specs, "trusted_base": TRUSTED,
           "partial": ["kernel-checked on the lexer model: inserting any gap (blanks, tabs, newlines, //-comments, /* */-comments) at a token boundary leaves kinds and values of all tokens unchanged (C10_lex_layout, C10_layout_chunks), the three opaque bodies are carried verbatim; the parser/visitor half of the round trip is established by the stage-by-stage correspondence and the expected-result comparison",
                       "C10_directive_chain_caveat (kernel-checked): directly after a %-directive word the lexer keeps scanning for another directive word, so `%token left` depends on layout; identifiers that are directive words are outside the domain (DESIGN §4)"]}
    return common.conclude(pid, tier, C10_LEVEL, proof, ties[:50], violations, cov,
                           ["layouts stay inside the domain of DESIGN §4: `%union` and its `{` are separated by blanks only; identifiers are not directive words"])


C10_THEOREMS = ["YLex.lexAll_total", "Y.Props.C10_lex_layout", "Y.Props.C10_skip_gap", "Y.Props.C10_offset_independent",
                "Y.Props.C10_boundary_gap", "Y.Props.C10_layout_chunks", "Y.Props.C10_action_verbatim",
                "Y.Props.C10_prologue_verbatim", "Y.Props.C10_union_verbatim"]
C10_MODULES = ["Yv.Proofs.YLexTotal", "Yv.Props.C10"]
C10_LEVEL = "proof"


# ------------------------------------------------------------------------------------------- C11

def c11_spec(rng):
    """token declaration mixes"""
    nt = rng.randint(1, 6)
    tokens = ["T%d" % i for i in range(nt)]
    lits = ["'%s'" % c for c in rng.sample(list("+-*/()=<>!&^~,.#@AZaz059") + ["\\"] + list("×ßéλ"), rng.randint(0, 4))]   # '\' is the quote character; non-ASCII characters count by their code point
    nums = {}
    used = set(ord(gen.lit_char(l)) for l in lits)
    for t in tokens:
        if rng.random() < 0.5:
            n = rng.choice([3, 4, 5, 6, 7, 2, 43, 44, 45, 65, 66, 97, 256, 257, 258, 300, 1000])
            if n not in used:
                used.add(n)
                nums[t] = n
    only_prec = [t for t in tokens if rng.random() < 0.25]       # declared only through a precedence line
    prec = []
    pool = list(only_prec) + [l for l in lits if rng.random() < 0.5] + [t for t in tokens if t not in only_prec and rng.random() < 0.3]
    rng.shuffle(pool)
    while pool:
        k = rng.randint(1, min(2, len(pool)))
        prec.append((rng.choice(["left", "right", "nonassoc"]), pool[:k]))
        pool = pool[k:]
    terms = tokens + lits
    rules = [{"lhs": "S", "rhs": [rng.choice(terms) for _ in range(rng.randint(0, 3))], "prec": None} for _ in range(rng.randint(1, 3))]
    rules += [{"lhs": "S", "rhs": [t], "prec": None} for t in terms if rng.random() < 0.5]
    sp = {"tokens": [t for t in tokens if t not in only_prec], "lits": lits, "prec": prec, "nts": ["S"], "start": "S",
          "rules": rules, "nums": {t: n for t, n in nums.items() if t not in only_prec}}
    tags = {t: "val" for t in sp["tokens"] if rng.random() < 0.4}
    sp["all_named"] = tokens
    sp["tagsel"] = tags
    # half of the specs put several tokens on one %token line (same tag status), numbered ones before un-numbered ones too
    if rng.random() < 0.5:
        groups, cur = [], []
        for t in sp["tokens"]:
            if cur and ((t in tags) != (cur[0] in tags) or len(cur) >= 3 or rng.random() < 0.3):
                groups.append(cur)
                cur = []
            cur.append(t)
        if cur:
            groups.append(cur)
        sp["token_groups"] = groups
    sp["eof_token"] = rng.random() < 0.3
    # numbers given in a LATER declaration than the first mention (`%token <val> NUM` … `%token NUM 5`),
    # chosen just above the largest code so far, where the automatic range would go next
    sp["num_pad"] = {t: rng.randint(1, 3) for t in sp["nums"] if rng.random() < 0.3}     # zero-padded numerals (007, 0300): still decimal
    sp["redecl"] = []
    unnumbered = [t for t in sp["tokens"] if t not in sp["nums"]]
    if unnumbered and rng.random() < 0.5:
        top = max([2] + list(sp["nums"].values()) + [ord(gen.lit_char(l)) for l in lits])
        t = rng.choice(unnumbered)
        n = top + rng.randint(1, 3)
        sp["redecl"].append((t, n))
        sp["late_nums"] = {t: n}
        if rng.random() < 0.5:
            sp["redecl_tag"] = "val"          # `%token <val> T n`: the re-declaration carries a tag as well
    return sp


def check_C11(tier):
    pid = "C11"
    rng = random.Random(common.seed() * 1000003 + 11)
    ok, msg = prebuild()
    if not ok:
        return build_failure(pid, tier, msg)
    proof = common.prove(C11_THEOREMS, C11_MODULES)
    n = 150 if tier == "quick" else 12000
    specs = [c11_spec(rng) for _ in range(n)]
    scrape_ok, scrape_bad = {}, {}
    work = common.tmpdir("c11")
    cases, jobs = [], []
    for i, sp in enumerate(specs):
        src = gen.render(sp, prologue="package p\nimport \"fmt\"", union=" val int", tags=sp["tagsel"],
                         epilogue="\nfunc GetToken(input string, valTy *ValType, pos *int) int { return -1 }\n")
        cases.append({"id": "d%d" % i, "src": src})
        for target in ("go", "typescript"):
            jobs.append({"id": "d%d|%s" % (i, target), "src": src, "out": os.path.join(work, "d%d.%s" % (i, "go" if target == "go" else "ts")),
                         "target": target, "unpack": False, "object": False})
    rec = run_front(cases)
    p = common.sh([common.BIN + "/yharness", "xgen"], inp="".join(json.dumps(j) + "\n" for j in jobs).encode())
    genok = {}
    for line in p.stdout.decode(errors="replace").split("\n"):
        f = line.split()
        if len(f) >= 3 and f[0] == "XGEN":
            genok[f[1]] = f[2] == "ok"
    ties, violations, samples = [], [], []
    accepted = 0
    for i, (c, sp) in enumerate(zip(cases, specs)):
        ties += front_stage_ties(c["id"], rec[c["id"]], c["src"], stages=("GRAMMAR", "SYM", "REFUSE"))
        d = digest_front(rec[c["id"]]["impl"])
        if d["refuse"] or d["ast_err"] or d["hang"]:
            continue
        accepted += 1
        terms = {v["name"]: v for v in d["syms"].values() if not v["nt"]}
        ids = {v["name"]: k for k, v in d["syms"].items()}
        why = None
        for l in sp["lits"]:
            v = terms.get(sym_name(l))
            if v is not None and v["value"] != ord(gen.lit_char(l)):
                why = "literal %s numbered %d instead of its character code" % (l, v["value"])
            used_lit = any(l in r["rhs"] for r in sp["rules"]) or any(l in ss for _, ss in sp["prec"])
            if v is None and used_lit:
                why = "literal %s (character code %d) is not a terminal of the grammar; terminals: %s" % (
                    l, ord(gen.lit_char(l)), sorted((x["value"], nm) for nm, x in terms.items()))
        for t, nnum in list(sp["nums"].items()) + list(sp.get("late_nums", {}).items()):
            if terms.get(t, {}).get("value") != nnum:
                why = "token %s declared with number %d is numbered %s" % (t, nnum, terms.get(t, {}).get("value"))
        codes = [v["value"] for nm, v in terms.items()]
        if len(set(codes)) != len(codes):
            why = "two terminals share a code: %s" % sorted((v["value"], nm) for nm, v in terms.items())
        if any(v["value"] == -1 for nm, v in terms.items() if nm != "$"):
            why = "a token is numbered -1 (the end marker)"
        for t in sp["all_named"]:
            if t not in terms and any(t in r["rhs"] for r in sp["rules"]):
                why = "token %s is not a terminal of the grammar" % t
        # the generated interface: const block and translate switch, both targets
        for target in ("go", "typescript"):
            if not genok.get("d%d|%s" % (i, target)):
                ties.append({"what": "generation failed although the front end accepts", "case": c["id"], "target": target})
                continue
            sc = xrun.scrape(os.path.join(work, "d%d.%s" % (i, "go" if target == "go" else "ts")), target)
            want_consts = {nm: v["value"] for nm, v in terms.items() if nm != "$" and not nm.startswith("$operator")}
            if sp.get("eof_token"):
                want_consts["EOF"] = -1
            for kind, gotv, wantv, msg in (("consts", sc["consts"], want_consts, "%s: constants %s differ from the token codes %s"),
                                           ("translate", sc["translate"], {v["value"]: ids[nm] for nm, v in terms.items()},
                                            "%s: translate switch %s differs from code->symbol %s")):
                # the text is READABLE when most of the expected entries are found with their values; a readable
                # table that differs (an entry too many, one missing, a wrong value) is a wrong table
                agree = sum(1 for k, v in wantv.items() if gotv.get(k) == v)
                if gotv == wantv:
                    scrape_ok[(target, kind)] = scrape_ok.get((target, kind), 0) + 1
                elif wantv and agree * 2 >= len(wantv):
                    scrape_ok[(target, kind)] = scrape_ok.get((target, kind), 0) + 1
                    scrape_bad.setdefault((target, kind), []).append((c, msg % (target, gotv, wantv)))
                else:
                    scrape_bad.setdefault((target, kind), []).append((c, msg % (target, gotv, wantv)))
        if why:
            violations.append({"key": common.finding_key({"src": c["src"]}), "what": "token codes / lexer interface: " + why,
                               "replay": {"property": pid, "grammar_file": c["src"], "why": why}})
        if len(samples) < 2:
            samples.append({"grammar_file": c["src"][:400], "codes": {nm: v["value"] for nm, v in terms.items()}})
    # the const block / translate switch are read out of the generated text: if NO file at all yields the
    # expected table for a target, the text has another shape than this check reads (tie), otherwise a
    # file that differs is a wrong table (violation)
    for key, bad in scrape_bad.items():
        if scrape_ok.get(key, 0) == 0:
            ties.append({"what": "the %s of the generated %s file cannot be read by this check (no file yields the expected table)" % (key[1], key[0]),
                         "example": bad[0][1][:600]})
        else:
            for c, why in bad:
                violations.append({"key": common.finding_key({"src": c["src"], "k": key[1]}), "what": "token codes / lexer interface: " + why,
                                   "replay": {"property": pid, "grammar_file": c["src"], "why": why}})
    # the const block and the translate switch as the emitters print them = the emission model's text (read-back theorems C11_emit_*)
    et, emit_n, _, _ = emit_ties([c["src"] for c in cases] + [gen.render(sp) for sp in HAND_SPECS], keys=("Const", "Translate"))
    ties += et
    # the translation as the generated parsers PERFORM it (all five variants): an integer that is no token code — above the
    # range, 0, a negative one other than -1 — must be an error, not the end marker or another token
    res = x_sweep(tier, rng, n=8 if tier == "quick" else 80)
    ties += x_build_ties(res)
    vnames = [v[3] for v in xrun.VARIANTS if not (v[0] == "typescript" and res["node"] is None)]
    unknown_runs = 0
    for c in res["usable"]:
        nterm = len(c["xs"]["terms"])
        for w in c["inputs"]:
            k = next((i for i, ch in enumerate(w) if ord(ch) - 97 >= nterm), None)
            if k is None:
                continue
            for vn in vnames:
                r = xrun.impl_run(res, c, vn, w)
                if r is None or r["verdict"] == "loop":
                    continue
                unknown_runs += 1
                if r["verdict"] == "accept" or (r["verdict"] == "reject" and r["req"] > k + 1):
                    violations.append(xviol(pid, res, c, vn, "an integer that is no token code is not translated to an error by the generated parser",
                                            {"input": w, "position_of_the_unknown_code": k, "letter": w[k], "verdict": r["verdict"], "tokens_requested": r["req"],
                                             "codes": "v = -2, w = 0, x/y = largest token code + 2/+1, z = 9999"}))
    cov = {"evaluations": len(cases) * 3, "distinct_nontrivial": accepted, "emitted_texts_compared_with_emission_model": emit_n,
           "runs_of_compiled_parsers_on_inputs_with_an_unknown_code": unknown_runs,
           "rule": "random declaration mixes: explicit numbers near literal codes and near the automatic range, character literals, tagged/untagged tokens, tokens declared via %token or only via %left/%right/%nonassoc or (literals) only used in rules; front end in-process + generated Go and TypeScript files scraped for the const block and the translate switch; distinct = accepted mixes",
           "samples": samples, "programs": accepted * 2, "disagreements_checked": len(ties) + len(violations), "trusted_base": TRUSTED}
    return common.conclude(pid, tier, C11_LEVEL, proof, ties[:50], violations, cov,
                           ["explicit numbers are positive, pairwise distinct and distinct from the character codes of the literals used"])


C11_THEOREMS = ["Visitor.C11_codes_distinct", "Visitor.C11_codes_kept", "Visitor.C11_codes_fresh",
                "Visitor.C11_codes_distinct_rules", "Visitor.C11_sym_values_distinct",
                # the const block and the translate switch printed into the generated file read back as exactly the codes (emission model, tied per run)
                "Y.Props.C11_emit_translate_readback_go", "Y.Props.C11_emit_translate_readback_ts", "Y.Props.C11_emit_consts_readback_go",
                "Y.Props.C11_emit_consts_readback_ts", "Y.Props.C11_emit_translate_functional", "Y.Props.C06_emitted_codes_go", "Y.Props.C06_emitted_codes_ts",
                "Y.Props.C06_emitted_codes_last"]
C11_MODULES = ["Yv.Props.C11", "Yv.Props.C11b"]
C11_LEVEL = "proof"


# ------------------------------------------------------------------------------------------- C12

def c12_spec(rng):
    sp = gen.rand_grammar(rng, max_t=3, max_n=4, max_alt=3, max_len=3, p_prec=0.2, p_lit=0.2)
    plant = rng.choice(["none", "none", "undefined", "norule_type", "unproductive_self", "unproductive_mutual", "unproductive_start",
                        "unreachable_unproductive", "unproductive_deep"])
    nts = sp["nts"]
    terms = sp["tokens"] + sp["lits"]
    t = rng.choice(terms)
    if plant == "undefined":
        r = rng.choice(sp["rules"])
        r["rhs"].insert(rng.randint(0, len(r["rhs"])), "UNDEF")
    elif plant == "norule_type":
        sp["extra_type"] = rng.choice(["Ghost", "AAA", "zz", "N00"])
    elif plant == "unproductive_self":
        sp["nts"] = nts + ["U"]
        sp["rules"].append({"lhs": "U", "rhs": [t, "U"], "prec": None})
        rng.choice(sp["rules"][:-1])["rhs"].append("U")
    elif plant == "unproductive_mutual":
        sp["nts"] = nts + ["U", "W"]
        sp["rules"].append({"lhs": "U", "rhs": ["W", t], "prec": None})
        sp["rules"].append({"lhs": "W", "rhs": [t, "U"], "prec": None})
        rng.choice(sp["rules"][:-2])["rhs"].append("U")
    elif plant == "unproductive_start":
        sp["rules"] = [r for r in sp["rules"] if r["lhs"] != "N0"] + [{"lhs": "N0", "rhs": ["N0", t], "prec": None}]
    elif plant == "unreachable_unproductive":
        sp["nts"] = nts + ["U"]
        sp["rules"].append({"lhs": "U", "rhs": ["U"], "prec": None})
    elif plant == "unproductive_deep":
        sp["nts"] = nts + ["U", "W"]
        sp["rules"].append({"lhs": "W", "rhs": [t, "U", t], "prec": None})
        sp["rules"].append({"lhs": "U", "rhs": ["U", t], "prec": None})
        sp["rules"].append({"lhs": "U", "rhs": [t, "W"], "prec": None})
        rng.choice(sp["rules"][:-3])["rhs"].insert(0, "W")
    # `start` is also the name of yaccgo's internal augmented symbol; as a user nonterminal it is legal
    if plant.startswith("unproductive") or plant == "unreachable_unproductive" or plant == "none":
        old_name = "U" if "U" in sp["nts"] else (rng.choice(sp["nts"][1:]) if len(sp["nts"]) > 1 else None)
        if old_name and rng.random() < 0.3 and "start" not in sp["nts"]:
            sp["nts"] = ["start" if n == old_name else n for n in sp["nts"]]
            for r in sp["rules"]:
                if r["lhs"] == old_name:
                    r["lhs"] = "start"
                r["rhs"] = ["start" if x == old_name else x for x in r["rhs"]]
    sp["plant"] = plant
    sp["eof_token"] = rng.random() < 0.3
    if sp["tokens"] and rng.random() < 0.2:
        sp["type_on_token"] = rng.choice(sp["tokens"])      # `%type <v> TOKEN`: the yacc way to tag a token
    return sp


def c12_expected(sp):
    """the property's verdict, from the abstract spec"""
    terms = set(sp["tokens"] + sp["lits"])
    lhss = set(r["lhs"] for r in sp["rules"])
    declared_nt = set([sp["start"]]) | ({sp["extra_type"]} if sp.get("extra_type") else set())
    for r in sp["rules"]:
        for s in r["rhs"]:
            if s not in terms and s not in lhss and s not in declared_nt:
                return "undefined"
    for n in declared_nt:
        if n not in lhss:
            return "norule"
    prod = set(terms)
    ch = True
    while ch:
        ch = False
        for r in sp["rules"]:
            if r["lhs"] not in prod and all(s in prod for s in r["rhs"]):
                prod.add(r["lhs"])
                ch = True
    if any(n not in prod for n in lhss):
        return "unproductive"
    return None


def check_C12(tier):
    pid = "C12"
    rng = random.Random(common.seed() * 1000003 + 12)
    ok, msg = prebuild()
    if not ok:
        return build_failure(pid, tier, msg)
    proof = common.prove(C12_THEOREMS, C12_MODULES)
    n = 500 if tier == "quick" else 40000
    specs = [c12_spec(rng) for _ in range(n)]
    tiny = list(gen.enum_tiny(max_rules=3, max_len=2))
    if tier == "quick":
        tiny = rng.sample(tiny, 400)
    for sp in tiny:
        sp = dict(sp)
        sp["plant"] = "tiny"
        specs.append(sp)
    cases = []
    for i, sp in enumerate(specs):
        src = gen.render(sp)
        if sp.get("extra_type"):
            src = src.replace("%start", "%%type <v> %s\n%%start" % sp["extra_type"], 1)
        if sp.get("type_on_token"):
            src = src.replace("%start", "%%type <v> %s\n%%start" % sp["type_on_token"], 1)
        if i % 5 == 4:
            src = gen.glue_comments(src, rng)      # comments glued to the following token: layout only
        cases.append({"id": "g%d" % i, "src": src})
    rec = run_front(cases)
    ties, violations, samples = [], [], []
    hist = {}
    for c, sp in zip(cases, specs):
        ties += front_stage_ties(c["id"], rec[c["id"]], c["src"], stages=("GRAMMAR", "REFUSE"))
        d = digest_front(rec[c["id"]]["impl"])
        exp = c12_expected(sp)
        got = d["refuse"] if d["refuse"] else ("hang" if d["hang"] else ("syntax" if d["ast_err"] else None))
        hist[(sp["plant"], str(exp), str(got))] = hist.get((sp["plant"], str(exp), str(got)), 0) + 1
        okv = (got == exp) or (exp is None and got == "toomany")
        if not okv and exp is not None and got not in (None, "hang"):
            # refused, as the property demands, but for a reason this check classifies differently (a reworded
            # message, or another defect of the same grammar reported first): not a violation of the property
            ties.append({"what": "grammar is refused as expected, but the reason is classified %r instead of %r" % (got, exp),
                         "case": c["id"], "src": c["src"][:1200]})
        elif not okv:
            what = ("usable grammar refused (%s)" % got) if exp is None else (
                "unusable grammar (%s) is %s" % (exp, "processed" if got is None else "refused for another reason: %s" % got))
            violations.append({"key": common.finding_key({"src": c["src"]}), "what": what,
                               "replay": {"property": pid, "grammar_file": c["src"], "expected": exp, "got": got}})
        if len(samples) < 3 and exp is not None:
            samples.append({"grammar_file": c["src"][:300], "verdict": got})
    # "every other well-formed grammar (below the built-in limit of 2000 parser states) is processed": a family with exactly
    # 2N+2 states on both sides of the limit, and at the sizes where a growing array changes its capacity
    def family(nn):
        return ("%token " + " ".join("T%d" % i for i in range(1, nn + 1)) + "\n%start s\n%%\ns : " +
                " | ".join("T%d T%d" % (i, i) for i in range(1, nn + 1)) + " ;\n%%\n")
    # usable grammars of particular shapes: a token whose NAME is a single letter that also occurs as a character literal
    for hi, hsrc in enumerate(["%token n 300\n%start s\n%%\ns : n | 'n' n ;\n%%\n",
                               "%token a b\n%left a\n%start s\n%%\ns : s a s | 'a' | b 'b' 'a' ;\n%%\n",
                               "%token x\n%type <v> s\n%union { v int }\n%start s\n%%\ns : 'x' x 'x' | ;\n%%\n"]):
        hrec = run_front([{"id": "hand%d" % hi, "src": hsrc}])["hand%d" % hi]
        hd = digest_front(hrec["impl"])
        if hd["refuse"] or hd["hang"] or hd["ast_err"]:
            violations.append({"key": common.finding_key({"hand": hsrc}), "what": "usable grammar refused (%s)" % (hd["refuse"] or hd["hang"] or "syntax"),
                               "replay": {"property": pid, "grammar_file": hsrc, "got": hd["refuse"] or hd["hang"] or "syntax"}})
    lim_cases = [{"id": "lim%d" % nn, "src": family(nn), "states": 2 * nn + 2} for nn in (511, 767, 895, 998, 999, 1100)]
    lrec = run_front(lim_cases)
    near_limit = {}
    for c in lim_cases:
        d = digest_front(lrec[c["id"]]["impl"])
        got = d["refuse"] if d["refuse"] else ("hang" if d["hang"] else ("syntax" if d["ast_err"] else None))
        near_limit[str(c["states"])] = str(got)
        ns = next((int(l.split()[1]) for l in lrec[c["id"]]["impl"] if l.startswith("NSTATES ")), None)
        if got is None and ns is not None and ns != c["states"]:
            # processed, but with another number of parser states than the grammar's canonical collection has (2N+2):
            # a grammar beyond the limit that is "processed" by cutting states off is neither refused nor usable
            violations.append({"key": common.finding_key({"states": c["states"], "ns": ns}),
                               "what": "grammar whose LR(0) collection has %d states is processed with %d states" % (c["states"], ns),
                               "replay": {"property": pid, "grammar_file": c["src"], "canonical_states": c["states"], "states_delivered": ns}})
        if c["states"] < 2000 and got is not None:
            violations.append({"key": common.finding_key({"states": c["states"]}), "what": "usable grammar with %d parser states (below the limit of 2000) is refused (%s)" % (c["states"], got),
                               "replay": {"property": pid, "grammar_file": c["src"], "parser_states": c["states"], "got": got}})
        elif c["states"] >= 2000 and got is None and not any(l.startswith("GRAMMAR") for l in lrec[c["id"]]["impl"]):
            ties.append({"what": "no verdict read for the grammar with %d states" % c["states"]})
    cov = {"evaluations": len(cases) + len(lim_cases), "distinct_nontrivial": len(set(c["src"] for c in cases)), "grammars_around_the_state_limit": near_limit,
           "rule": "a family of grammars with exactly 2N+2 parser states around the limit of 2000 (1024..2202 states); random grammars with a planted defect (undefined symbol; nonterminal declared by %type without rule; unproductive nonterminal: self-recursive, mutually recursive, at the start symbol, deep, unreachable) or none, plus sampled exhaustive tiny grammars; the verdict (processed / refused with reason class) is compared with the property's rule computed from the abstract specification, and with the Lean front-end model",
           "samples": samples, "verdict_histogram": {"%s expected=%s got=%s" % k: v for k, v in sorted(hist.items())},
           "programs": len(cases), "disagreements_checked": len(ties) + len(violations), "trusted_base": TRUSTED}
    return common.conclude(pid, tier, C12_LEVEL, proof, ties[:50], violations, cov, ["explicit %start; below the 2000-state cap"])


C12_THEOREMS = ["Visitor.C12_productive_exact", "Visitor.C12_productive_stable", "Visitor.C12_productive_exact_built",
                "Visitor.C12_verdict", "Visitor.C12_verdict_spec", "Visitor.C12_norule"]
C12_MODULES = ["Yv.Props.C12"]
C12_LEVEL = "proof"


# ------------------------------------------------------------------------------------------- C13

from concurrent.futures import ThreadPoolExecutor  # noqa: E402
import glob  # noqa: E402


def c13_texts(tier, rng):
    base = []
    for f in sorted(glob.glob(os.path.join(common.REPO, "examples", "*.y"))):
        try:
            base.append(open(f, encoding="utf-8").read())
        except Exception:
            pass
    for _ in range(6 if tier == "quick" else 40):
        base.append(gen.render_file(gen.file_spec(rng), rng))
    texts = ["%token A \u0663\n%start S\n%%\nS : A ;\n", "\u0663", "%token A 1\u0663", "", "%", "%%", "%token <@", "%token <#val> NUM", "%start* L", "%token A\n%start", "%union", "%union {", "%{", "/*", "'", "\"", "{", "%token A\n%%\nS : A {",
             "%token A\n%%\nS : A /* x", "/*/", "%token A\n%start S\n%%\nS : A ;\n/*/ rest", "%token A\n/*////\n%start S", "%prec", "%type", "%type <", "%left", "%token A 1 2 3 <", "$", "$$", "$end", "%token A\n%%\nS : %prec", "%token A\n%%\nS :", "%token A\n%%\nS"]
    step = 23 if tier == "quick" else 5
    for b in base:
        for k in range(0, len(b), step):
            texts.append(b[:k])
    junk = list("%{}'\"/*<>|:;$ \n\t") + ["%%", "%{", "%}", "/*", "*/", "/*/", "//", "%token", "%union", "%start", "%type", "%left", "%prec", "$$", "{", "}",
                                             "\u0663", "\u0967", "\u00e9", "\u03bb", "\u00a0", "\ufeff", "\r", "\x00", "-", "9"]
    n_edit = 400 if tier == "quick" else 20000
    for _ in range(n_edit):
        b = rng.choice(base)
        s = list(b)
        for _ in range(rng.randint(1, 3)):
            if not s:
                break
            i = rng.randrange(len(s))
            op = rng.randrange(4)
            if op == 0:
                del s[i:i + rng.randint(1, 6)]
            elif op == 1:
                s[i:i] = list(rng.choice(junk))
            elif op == 2:
                s[i] = rng.choice(junk)
            else:
                s[i:i] = s[max(0, i - rng.randint(1, 8)):i]
        texts.append("".join(s))
    seen = set()
    out = []
    for t in texts:
        if t not in seen:
            seen.add(t)
            out.append(t)
    return out


def check_C13(tier):
    pid = "C13"
    rng = random.Random(common.seed() * 1000003 + 13)
    ok, msg = prebuild()
    if not ok:
        return build_failure(pid, tier, msg)
    proof = common.prove(C13_THEOREMS, C13_MODULES)
    texts = c13_texts(tier, rng)
    work = common.tmpdir("c13")
    cli = os.path.join(common.BIN, "yaccgo")
    # the deadline is three orders of magnitude above the normal run time; on a heavily loaded machine it grows with the load
    DEADLINE = min(60, int(6 * max(1.0, 2.0 * os.getloadavg()[0] / (os.cpu_count() or 1))))

    def one(job):
        i, mode = job
        inp = os.path.join(work, "t%d.y" % i)
        cmd = [cli, "generate", "go", inp, os.path.join(work, "o%d_%s.out" % (i, mode))] if mode != "debug" else [cli, "debug", inp]
        if mode == "ts":
            cmd = [cli, "generate", "typescript", inp, os.path.join(work, "o%d_ts.out" % i)]
        t0 = time.time()
        try:
            p = subprocess.run(cmd, stdout=subprocess.DEVNULL, stderr=subprocess.DEVNULL, timeout=DEADLINE, cwd=work)
            return (i, mode, "exit%d" % p.returncode if p.returncode in (0, 2) else "rc%d" % p.returncode, time.time() - t0)
        except subprocess.TimeoutExpired:
            return (i, mode, "HANG", time.time() - t0)
    for i, t in enumerate(texts):
        open(os.path.join(work, "t%d.y" % i), "w", encoding="utf-8").write(t)
    jobs = [(i, m) for i in range(len(texts)) for m in ("go", "debug")] + [(i, "ts") for i in range(0, len(texts), 7)]
    with ThreadPoolExecutor(max_workers=16) as ex:
        results = list(ex.map(one, jobs))
    violations, ties, samples = [], [], []
    hist = {}
    slowest = 0.0
    # grammars far above the state limit: the construction must be cut off by the limit (run alone, with a
    # deadline an order of magnitude above the 2-5 s the cut-off takes; without the limit it would run for weeks)
    SLOW_DEADLINE = 60
    for n_blow in ((16,) if tier == "quick" else (13, 16, 18)):
        t = gen.blowup_grammar(n_blow)
        f = os.path.join(work, "blow%d.y" % n_blow)
        open(f, "w").write(t)
        for mode, cmd in (("go", [cli, "generate", "go", f, os.path.join(work, "blow.out")]), ("debug", [cli, "debug", f])):
            t0 = time.time()
            try:
                subprocess.run(cmd, stdout=subprocess.DEVNULL, stderr=subprocess.DEVNULL, timeout=SLOW_DEADLINE, cwd=work)
                hist["statelimit:" + mode + ":finished"] = hist.get("statelimit:" + mode + ":finished", 0) + 1
            except subprocess.TimeoutExpired:
                violations.append({"key": common.finding_key({"blowup": n_blow, "mode": mode}),
                                   "what": "yaccgo %s does not finish on a grammar with about %d LR(0) states (no cut-off at the state limit)" % (
                                       "debug" if mode == "debug" else "generate", n_blow * 2 ** n_blow),
                                   "replay": {"property": pid, "input_text": t, "command": mode, "deadline_s": SLOW_DEADLINE}})
            slowest_special = time.time() - t0
    hangs = [r for r in results if r[2] == "HANG"]
    # a hang is re-run once alone before it is reported
    confirmed = []
    for (i, mode, _, _) in hangs[:40]:
        r2 = one((i, mode))
        if r2[2] == "HANG":
            confirmed.append((i, mode))
        if len(confirmed) >= 3:
            break
    for (i, mode, outc, dt) in results:
        hist[mode + ":" + outc] = hist.get(mode + ":" + outc, 0) + 1
        slowest = max(slowest, dt)
    for (i, mode) in confirmed:
        violations.append({"key": common.finding_key({"text": texts[i], "mode": mode}),
                           "what": "yaccgo %s does not finish on an input text" % ("debug" if mode == "debug" else "generate"),
                           "replay": {"property": pid, "input_text": texts[i], "command": mode, "deadline_s": DEADLINE}})
    # the front-end model on the same texts (ASCII ones): ok / diagnostic must agree
    hung = set(i for (i, mode, outc, dt) in results if outc == "HANG")
    ascii_cases = [{"id": "t%d" % i, "src": t} for i, t in enumerate(texts) if all(ord(ch) < 128 for ch in t) and i not in hung]
    rec = run_front(ascii_cases)
    rerun_budget = 5
    for c in ascii_cases:
        d = digest_front(rec[c["id"]]["impl"])
        if d["hang"] and rerun_budget > 0:
            # an in-process deadline was missed: run this text once more, alone, before it is reported
            rerun_budget -= 1
            rec[c["id"]] = run_front([c])[c["id"]]
            d = digest_front(rec[c["id"]]["impl"])
        if d["hang"]:
            violations.append({"key": common.finding_key({"text": c["src"], "mode": "in-process"}),
                               "what": "front end does not finish on an input text (%s)" % d["hang"],
                               "replay": {"property": pid, "input_text": c["src"], "command": "parser.ParseAndBuild in-process"}})
        ties += front_stage_ties(c["id"], rec[c["id"]], c["src"], stages=("TOK", "AST", "GRAMMAR", "REFUSE"), refuse_class=False)
    samples.append({"input_text": texts[30][:200] if len(texts) > 30 else "", "outcome": [r[2] for r in results if r[0] == 30]})
    cov = {"evaluations": len(results), "distinct_nontrivial": len(texts),
           "rule": "distinct input texts: hand-written truncations, every %d-th prefix of the repository's example grammars and of rendered random files, random edits (delete / insert / replace / duplicate with brace, quote, comment and directive fragments); each text through `yaccgo generate go`, `yaccgo debug` (and every 7th through `generate typescript`) as child processes with a %d s deadline, 16 at a time; a hang is re-run alone before it is reported; the ASCII texts also through the in-process front end against the Lean front-end model" % (23 if tier == "quick" else 5, DEADLINE),
           "samples": samples, "outcome_histogram": hist, "slowest_s": round(slowest, 2), "model_compared_texts": len(ascii_cases),
           "trusted_base": TRUSTED + ["wall-clock deadline three orders of magnitude above the normal run time"],
           "partial": ["kernel-checked: the lexer model (fuel |src|+2) and the parser model (fuel 2*|tokens|+10) never run out of fuel on any text (C13_front_total); the visitor and the later stages are total Lean functions bounded by the 2000-state cap; the tie to the Go code is the stage-by-stage correspondence and the deadline runs"]}
    return common.conclude(pid, tier, C13_LEVEL, proof, ties[:50], violations, cov, ["texts of a few kilobytes"])


C13_THEOREMS = ["YLex.lexAll_total", "YParse.C13_parse_total", "YParse.parse_eq_instrumented", "YParse.C13_front_total"]
C13_MODULES = ["Yv.Proofs.YLexTotal", "Yv.Props.C13"]
C13_LEVEL = "proof"


# ------------------------------------------------------------------------------------------- C14

import hashlib  # noqa: E402


def check_C14(tier):
    pid = "C14"
    rng = random.Random(common.seed() * 1000003 + 14)
    ok, msg = prebuild()
    if not ok:
        return build_failure(pid, tier, msg)
    proof = common.prove(C14_THEOREMS, C14_MODULES)
    work = common.tmpdir("c14")
    cli = os.path.join(common.BIN, "yaccgo")
    srcs = []
    for f in sorted(glob.glob(os.path.join(common.REPO, "examples", "*.y"))):
        srcs.append(("example:" + os.path.basename(f), open(f, encoding="utf-8").read()))
    n = 25 if tier == "quick" else 200
    for i in range(n):
        sp = gen.rand_grammar(rng, max_t=6, max_n=5, p_prec=0.7, p_lit=0.4, big=(i % 5 == 4), p_case=0.3)
        xs = xrun.xspec(sp, rng)
        srcs.append(("rand:%d" % i, xrun.render_x(xs, "go", "p", False, False)))
    for i in range(5 if tier == "quick" else 40):
        srcs.append(("file:%d" % i, gen.render_file(gen.file_spec(rng), rng)))
    for name, src in gen.CORPUS.items():
        srcs.append(("corpus:" + name, src))
    for i in range(12 if tier == "quick" else 80):
        srcs.append(("expr:%d" % i, gen.render(gen.expr_grammar(rng))))
    # names that share a token number (synonyms for one lexer code; two names for the end marker)
    srcs.append(("alias:eof", "%token NUM\n%token EOF -1\n%token END -1\n%left '+'\n%start E\n%%\nE : E '+' E | NUM ;\n%%\n"))
    srcs.append(("alias:num", "%token NUM 299\n%token NE 300\n%token NEQ 300\n%token ID 300\n%start E\n%%\nE : E NE E | E NEQ NUM | ID | NUM ;\n%%\n"))
    # wide rows with an exact tie for the most frequent value (the default action of a packed row): in the state after A_j
    # K columns reduce x_j and the other K = 2 + J + M columns are empty; several such rows per grammar, several widths
    # (the unpacked dense table of the 130-wide grammar takes about a minute to emit: thorough tier only)
    for K in ((12, 40, 70) if tier == "quick" else (12, 40, 70, 100, 130)):
        J = 6
        M = K - 2 - J
        src = "%{\npackage main\n%}\n%union { v int }\n" + "".join("%%token A%d\n" % j for j in range(J)) + \
              "".join("%%token T%d\n" % i for i in range(K)) + "".join("%%token U%d\n" % i for i in range(M)) + "%start s\n%%\ns : " + \
              "\n  | ".join(["x%d T%d" % (j, i) for j in range(J) for i in range(K)] + ["U%d" % i for i in range(M)]) + "\n  ;\n" + \
              "".join("x%d : A%d ;\n" % (j, j) for j in range(J)) + "%%\n"
        srcs.append(("widetie:%d" % K, src))
    N = 6 if tier == "quick" else 20
    optsets = [("go", []), ("go", ["-u"]), ("go", ["-o"]), ("go", ["-o", "-u"]), ("typescript", [])]
    jobs = []
    for si, (name, src) in enumerate(srcs):
        inp = os.path.join(work, "s%d.y" % si)
        open(inp, "w", encoding="utf-8").write(src)
        for oi, (target, flags) in enumerate(optsets):
            for k in range(N):
                jobs.append((si, oi, k, [cli, "generate"] + flags + [target, inp, os.path.join(work, "o_%d_%d_%d" % (si, oi, k))]))

    DEADLINE14 = 600
    UNFINISHED = "unfinished"

    def one(job, deadline=DEADLINE14):
        si, oi, k, cmd = job
        if k == 1:
            # the output path already holds something longer (an earlier generation): the result must not depend on it
            with open(cmd[-1], "w") as f:
                f.write("// earlier output\n" * 20000)
        try:
            p = subprocess.run(cmd, stdout=subprocess.DEVNULL, stderr=subprocess.DEVNULL, timeout=deadline, cwd=work)
            rc = p.returncode
        except subprocess.TimeoutExpired:
            rc = -9
        if rc < 0:
            # killed at the deadline (or by a signal): this run produced no output to compare; whether the tool finishes is
            # C13's subject, a run cut short says nothing about two finished runs differing
            return (si, oi, k, rc, UNFINISHED)
        try:
            data = open(cmd[-1], "rb").read()
            # a refused grammar leaves the earlier file as it is (that is C19's subject): no output of this run
            h = None if (k == 1 and rc != 0 and data.startswith(b"// earlier output\n// earlier output\n")) else hashlib.sha256(data).hexdigest()
        except FileNotFoundError:
            h = None
        return (si, oi, k, rc, h)
    with ThreadPoolExecutor(max_workers=16) as ex:
        results = list(ex.map(one, jobs))
    # a run that was cut short is repeated once, alone, with a longer deadline; if it is cut short again it stays out of the comparison
    unfinished = 0
    for idx, r in enumerate(results):
        if r[4] == UNFINISHED:
            r2 = one(jobs[idx], deadline=3 * DEADLINE14)
            results[idx] = r2
            if r2[4] == UNFINISHED:
                unfinished += 1
    # twice in one process, through the generator entry points
    injobs = []
    for si, (name, src) in enumerate(srcs):
        for oi, (target, flags) in enumerate(optsets):
            for k in range(2):
                injobs.append({"id": "%d|%d|%d" % (si, oi, k), "src": src, "out": os.path.join(work, "i_%d_%d_%d" % (si, oi, k)),
                               "target": target, "unpack": "-u" in flags, "object": "-o" in flags})
    common.sh([common.BIN + "/yharness", "xgen"], inp="".join(json.dumps(j) + "\n" for j in injobs).encode())
    groups = {}
    for (si, oi, k, rc, h) in results:
        groups.setdefault((si, oi), []).append((rc, h))
    for j in injobs:
        si, oi, k = [int(x) for x in j["id"].split("|")]
        try:
            h = hashlib.sha256(open(j["out"], "rb").read()).hexdigest()
        except FileNotFoundError:
            h = None
        groups[(si, oi)].append(("inproc", h))
    violations, samples = [], []
    generated = 0
    for (si, oi), rs in sorted(groups.items()):
        hs = set(h for _, h in rs if h != UNFINISHED)
        if not hs:
            continue
        if None not in hs:
            generated += 1
        if len(hs) > 1 and hs != {None}:
            # different bytes (or generated in some runs only)
            a = next(k for (s2, o2, k, rc, h) in results if s2 == si and o2 == oi)
            violations.append({"key": common.finding_key({"src": srcs[si][1], "opts": optsets[oi]}),
                               "what": "two runs on the same grammar and options give different output",
                               "replay": {"property": pid, "grammar_file": srcs[si][1], "options": optsets[oi],
                                          "distinct_outputs": len(hs), "runs": len(rs)}})
    samples.append({"grammar": srcs[0][0], "options": optsets[0], "sha256_of_runs": sorted(set(str(h) for _, h in groups[(0, 0)]))})
    cov = {"evaluations": len(results) + len(injobs), "distinct_nontrivial": generated,
           "rule": "the repository's example grammars + random grammars with up to 14 tokens/nonterminals, precedence and literals + random rendered files; each with the option sets go, go -u, go -o, go -o -u, typescript; %d runs in fresh processes (Go randomises every map iteration) and 2 runs in one process; outputs compared byte for byte; distinct = (grammar, option set) pairs that generate a file; wide-row grammars (a tie for the most frequent value in rows of 26 to %d columns); a child run cut short at the %d s deadline is repeated alone and, if cut short again, left out of the comparison (unfinished_runs)" % (N, 260 if tier != "quick" else 140, DEADLINE14),
           "samples": samples, "runs_per_pair": N + 2, "unfinished_runs": unfinished, "trusted_base": TRUSTED,
           "partial": ["set-invariance of the lookahead stage under reordering of its relation lists is assumed by the order-irrelevance argument and validated by the repeated runs and by C03's oracle comparison"]}
    return common.conclude(pid, tier, C14_LEVEL, proof, [], violations, cov, [])


C14_THEOREMS = ["C14.sites_as_expected", "C14.C14_order_irrelevant", "C14.sort_perm_eq", "C14.tabSorted_perm_eq",
                "C14.writes_perm_eq", "C14.mem_perm", "C14.filter_isEmpty_perm"]
C14_MODULES = ["Yv.Props.C14"]
C14_LEVEL = "proof"


# ------------------------------------------------------------------------------------------- C18

def dot_escape(nm):
    if len(nm) > 9 and nm.startswith("$operator"):
        nm = "'" + nm[9:] + "' "
    return nm.replace("<", "\\<").replace(">", "\\>")


def item_str(g, names, r, d):
    lhs, rhs, _ = g.rules[r]
    s = names[lhs] + "-\\>"
    if not rhs:
        return s + "ε"
    for i, x in enumerate(rhs):
        if i == d:
            s += "•"
        s += " " + dot_escape(names[x])
    if len(rhs) == d:
        s += "•"
    return s


def split_top(s, sep="|"):
    out, cur, depth = [], "", 0
    for ch in s:
        if ch == "{":
            depth += 1
        elif ch == "}":
            depth -= 1
        if ch == sep and depth == 0:
            out.append(cur)
            cur = ""
        else:
            cur += ch
    out.append(cur)
    return out


C18_TEXT_KINDS = [("node header", "dot-header"), ("items shown for state", "dot-items"), ("reduce annotations", "dot-reduce"),
                  ("listing shows", "list-header"), ("listing state header", "list-header"), ("listing items", "list-items"),
                  ("listing transitions", "list-gotos"), ("listing lookahead sets", "list-la"),
                  ("listing transition section", "list-trans"), ("listing direct-read sets", "list-dr"), ("listing read sets", "list-rd"),
                  ("listing follow sets", "list-fo")]


# literal characters that are structure characters of a DOT record label and are NOT escaped by the drawing code: a graph
# with such a name cannot be read back (DESIGN §5 C18); `<` and `>` are escaped (EscapeDotGraph) and are in the domain
C18_UNREADABLE = ["'|'", "'{'", "'}'", "'\"'"]


def check_C18(tier):
    pid = "C18"
    rng = random.Random(common.seed() * 1000003 + 18)
    ok, msg = prebuild()
    if not ok:
        return build_failure(pid, tier, msg)
    proof = common.prove(C18_THEOREMS, C18_MODULES)
    cases = sweep.make_cases(tier, rng, n_random=150 if tier == "quick" else 3000, n_tiny=100 if tier == "quick" else 2000, big=5 if tier == "quick" else 60)
    # very long symbol names (every view must show them in full)
    long_t, long_n = "END_OF_STATEMENT_SEPARATOR_TOKEN_SEMICOLON", "declaration_list_with_optional_trailing_separator_"
    cases.append({"id": "long:names", "kind": "hand", "src": "%%token %s ID\n%%start prog\n%%%%\nprog : %sa | %sb ;\n%sa : ID %s ;\n%sb : ID ID %s ;\n%%%%\n" % (
        long_t, long_n, long_n, long_n, long_t, long_n, long_t)})
    # more than 256 rules (rule numbers that do not fit a byte) and more than 256 symbols
    cases.append({"id": "many:rules", "kind": "hand", "src": "%token SEP " + " ".join("T%03d" % i for i in range(300)) + "\n%start prog\n%%\nprog : | prog item SEP ;\nitem : " +
                  " | ".join("T%03d" % i for i in range(300)) + " ;\n%%\n"})
    # literals that are special in Printf formats and in DOT labels
    cases.append({"id": "percent:literal", "kind": "hand", "src": "%token N\n%left '+' '<'\n%left '%' '>'\n%start E\n%%\nE : E '+' E | E '%' E | E '<' E | E '>' E | '%' E | N ;\n%%\n"})
    cases.append({"id": "unicode:names", "kind": "hand", "src": "%token ЧИСЛО\n%left '×'\n%left '→'\n%start список\n%%\nсписок : список '→' élément | élément ;\nélément : élément '×' ЧИСЛО | ЧИСЛО ;\n%%\n"})
    safe = []
    for c in cases:
        # names that contain the renderer's own separators cannot be read back (DESIGN §5 C18)
        if any(ch in c["src"] for ch in C18_UNREADABLE):
            continue
        safe.append(c)
    inp = "".join(json.dumps({"id": c["id"], "src": c["src"]}) + "\n" for c in safe).encode()
    p = common.sh([common.BIN + "/yharness", "views"], inp=inp, timeout=900)
    blocks = parse_blocks(p.stdout.decode(errors="replace"), "CASE", "ENDCASE")
    mo = common.sh([common.YMODEL], inp=p.stdout, timeout=900)
    mblocks = parse_blocks(mo.stdout.decode(errors="replace"), "CASE", "ENDCASE")
    violations, ties, samples = [], [], []
    # the verified views model (C18_views) must render exactly the graph DrawGrammar builds
    for c in safe:
        il = sorted(l for l in blocks.get(c["id"], []) if l.startswith("HDOT"))
        ml = sorted(l[2:] for l in mblocks.get(c["id"], []) if l.startswith("M HDOT"))
        if il and il != ml:
            k = next((i for i in range(max(len(il), len(ml))) if i >= len(il) or i >= len(ml) or il[i] != ml[i]), 0)
            ties.append({"what": "views model differs from DrawGrammar's graph", "case": c["id"], "src": c["src"][:1500],
                         "impl": il[k][:200] if k < len(il) else "<missing>", "model": ml[k][:200] if k < len(ml) else "<missing>"})
    # the verified listing model (C18_listing_*) must print exactly the two sections of the debug listing
    # (state section in order; lookahead section as a multiset of lines: the code ranges over a map there)
    listing_lines = 0
    for c in safe:
        b, mb = blocks.get(c["id"], []), mblocks.get(c["id"], [])
        if not b or any(l.startswith("REFUSE") for l in b):
            continue
        il = [l for l in b if l.startswith("HLISTS ")]
        ml = [l[2:] for l in mb if l.startswith("M HLISTS ")]
        ila = sorted(l for l in b if l.startswith("HLISTLA "))
        mla = sorted(l[2:] for l in mb if l.startswith("M HLISTLA "))
        listing_lines += len(il) + len(ila)
        extra = []
        for tag, what, ordered in (("HLISTTR", "transition section", True), ("HLISTDR", "direct-read section", False),
                                   ("HLISTRD", "read section", False), ("HLISTFO", "follow section", False)):
            xi = [l for l in b if l.startswith(tag + " ") or l.startswith(tag + "-MISSING")]
            xm = [l[2:] for l in mb if l.startswith("M " + tag + " ")]
            if not ordered:
                xi, xm = sorted(xi), sorted(xm)
            listing_lines += len(xi)
            extra.append((what, xi, xm))
        for what, x, y in [("state section", il, ml), ("lookahead section", ila, mla)] + extra:
            if x != y:
                k = next((i for i in range(max(len(x), len(y))) if i >= len(x) or i >= len(y) or x[i] != y[i]), 0)
                dec = lambda h: bytes.fromhex(h.split(" ", 1)[1]).decode(errors="replace") if " " in h else h
                ties.append({"what": "listing model differs from the debug listing (%s)" % what, "case": c["id"], "src": c["src"][:1500],
                             "impl": dec(x[k])[:200] if k < len(x) else "<missing>", "model": dec(y[k])[:200] if k < len(y) else "<missing>"})
    nstates = 0
    accepted = 0
    c18_bad, c18_pass = [], 0
    for c in safe:
        lines = blocks.get(c["id"], [])
        if not lines or any(l.startswith("REFUSE") for l in lines):
            continue
        accepted += 1
        g = cfg.G(lines)
        names = {k: v["name"] for k, v in g.syms.items()}
        states = [[tuple(int(x) for x in it.split(".")) for it in l.split()[3:]] for l in lines if l.startswith("STATE ")]
        gotos = [tuple(int(x) for x in l.split()[1:]) for l in lines if l.startswith("GOTO ")]
        rows = [[int(x) for x in l.split()[2:]] for l in lines if l.startswith("ROW ")]
        las = [(int(f[1]), int(f[2]), [int(x) for x in f[3:]]) for f in (l.split() for l in lines) if f[0] == "LA"]
        n = len(rows)
        err, acc = n + 100, n + 200
        for l in lines:
            if l.startswith("CODES "):
                err, acc = int(l.split()[1]), int(l.split()[2])   # the implementation's own codes
        nstates += n
        why = None
        readable = False
        if any(l.startswith("DOTPANIC") for l in lines):
            why = "DrawGrammar panics"
        # ---- DOT
        nodes = {}
        for l in lines:
            if l.startswith("DOTNODE "):
                f = l.split(" ", 3)
                nodes[f[1]] = (f[2] == "1", unq(f[3]))
        edges = set()
        for l in lines:
            if l.startswith("DOTEDGE "):
                f = l.split(" ", 3)
                lab = unq(f[3])
                if len(lab) >= 2 and lab[0] == '"' and lab[-1] == '"':
                    lab = lab[1:-1]
                edges.add((f[1], f[2], lab))
        exp_edges = set()
        for q_, row in enumerate(rows):
            for x, d in enumerate(row):
                if d != err and d != acc and d >= 0:
                    exp_edges.add(("state_%d" % q_, "state_%d" % d, dot_escape(names[x])))
        if why is None and set(nodes) != set("state_%d" % i for i in range(n)):
            why = "graph nodes are not exactly the states: %s" % sorted(nodes)
        if why is None and edges != exp_edges:
            why = "graph edges differ from the shift/goto entries of the table: extra %s missing %s" % (sorted(edges - exp_edges)[:3], sorted(exp_edges - edges)[:3])
        if why is None:
            for q_ in range(n):
                filled, label = nodes["state_%d" % q_]
                parts = split_top(label[1:-1] if len(label) >= 2 and label[0] == '"' else label)
                head = parts[0]
                items_txt = split_top(parts[1][1:-1]) if len(parts) > 1 and parts[1].startswith("{") else []
                red_txt = split_top(parts[2][1:-1]) if len(parts) > 2 else []
                exp_items = [item_str(g, names, r, d) for (r, d) in states[q_]]
                exp_red = ["%s: reduce rule at %d" % (dot_escape(names[x]), -d) for x, d in enumerate(rows[q_]) if d < 0]
                if head != "<f0> state %d" % q_:
                    why = "node header %r for state %d" % (head, q_)
                    readable = re.fullmatch(r"<f0> state \d+", head) is not None
                elif items_txt != exp_items:
                    why = "items shown for state %d are %s, the state holds %s" % (q_, items_txt, exp_items)
                    readable = bool(items_txt) and all(re.fullmatch(r"\S+-\\>(ε|(•? \S+)+•?)", x) for x in items_txt)
                elif red_txt != exp_red:
                    why = "reduce annotations of state %d are %s, the table has %s" % (q_, red_txt, exp_red)
                    readable = all(re.fullmatch(r".+: reduce rule at \d+", x) for x in red_txt)
                elif filled != (acc in rows[q_]):
                    why = "accept decoration of state %d is %s" % (q_, filled)
                if why:
                    break
        # ---- text listing
        listing = ""
        for l in lines:
            if l.startswith("LISTING "):
                listing = unq(l.split(" ", 1)[1])
        if why is None:
            sec = listing.split("===========SHOW TRANS================")[0]
            blocks_txt = sec.split("--------state ")[1:]
            if len(blocks_txt) != n:
                why = "listing shows %d states, the automaton has %d" % (len(blocks_txt), n)
                readable = len(blocks_txt) > 0
            for bi, b in enumerate(blocks_txt):
                if why:
                    break
                bl = b.split("\n")
                if not bl[0].startswith("%d-" % bi):
                    why = "listing state header %r at position %d" % (bl[0], bi)
                    readable = re.match(r"\d+-", bl[0]) is not None
                    break
                gi = bl.index("GOTO:") if "GOTO:" in bl else len(bl)
                got_items = bl[1:gi]
                got_gotos = [x for x in bl[gi + 1:] if x.startswith("at ")]
                exp_items = []
                for (r, d) in states[bi]:
                    lhs, rhs, _ = g.rules[r]
                    exp_items.append(names[lhs] + "-->" + "".join(" %s " % names[x] for x in rhs[:d]) + "@" +
                                     "".join(" %s " % names[x] for x in rhs[d:]))
                exp_gotos = ["at %s goto %d " % (names[x], p2) for (q2, x, p2) in gotos if q2 == bi]
                # the property is about what is shown, not about blanks: compare up to white space
                ws = lambda ls: [x.split() for x in ls]
                if ws(got_items) != ws(exp_items):
                    why = "listing items of state %d: %s, the state holds %s" % (bi, got_items, exp_items)
                    readable = bool(got_items) and all(re.fullmatch(r"\S+-->( \S+ )*@( \S+ )*", x) for x in got_items)
                elif ws(got_gotos) != ws(exp_gotos):
                    why = "listing transitions of state %d: %s, the automaton has %s" % (bi, got_gotos, exp_gotos)
                    readable = all(re.fullmatch(r"at \S+ goto \d+ ?", x) for x in got_gotos) and (bool(got_gotos) or not exp_gotos)
        if why is None and "==========Show LookAhead SET===============" in listing:
            sec = listing.split("==========Show LookAhead SET===============")[1].split("\n")
            got = sorted(x for x in sec if ":" in x and "-->" in x)
            exp = []
            for (q_, r, la) in las:
                lhs, rhs, _ = g.rules[r]
                exp.append("%d:%s-->%s : %s" % (q_, names[lhs], "".join(" %s " % names[x] for x in rhs),
                                                 "".join(" " + names[a] for a in (la if r != 0 else [1]))))
            # the listing prints lookaheads in the implementation's internal order: compare as sets of symbols per line
            def canon(s):
                a, b = s.rsplit(" : ", 1)
                return (a, tuple(sorted(b.split())))
            if sorted(map(canon, got)) != sorted(map(canon, exp)):
                gs, es = set(map(canon, got)), set(map(canon, exp))
                why = "listing lookahead sets differ from the lookaheads used for the table: only in the listing %s; only in the table %s" % (
                    str(sorted(gs - es)[:3])[:400], str(sorted(es - gs)[:3])[:400])
                readable = bool(got) and all(re.fullmatch(r"\d+:\S+-->.* : .*", x) for x in got)
        # ---- the sections between the states and the lookaheads: transitions, direct-read, read and follow sets
        heads = ["===========SHOW TRANS================", "==========Show Direct Read SET===============",
                 "==========Show Reads SET===============", "==========Show FollowSet SET===============",
                 "==========Show LookAhead SET==============="]
        if why is None and all(h in listing for h in heads):
            def section(i):
                return [x for x in listing.split(heads[i] + "\n", 1)[1].split(heads[i + 1], 1)[0].split("\n") if x.strip()]
            ltr = [tuple(int(x) for x in l.split()[1:4]) for l in lines if l.startswith("LTR ")]
            exp = []
            for (q_, k, x) in ltr:
                if k == 1 and x < len(g.rules):
                    lhs, rhs, _ = g.rules[x]
                    exp.append("%d:%s-->%s" % (q_, names[lhs], "".join(" %s " % names[y] for y in rhs)))
                else:
                    exp.append("%d:%s" % (q_, names.get(x, "?")))
            got = section(0)
            wsn = lambda ls: [" ".join(x.split()) for x in ls]
            if sorted(wsn(got)) != sorted(wsn(exp)):
                gs, es = collections.Counter(wsn(got)), collections.Counter(wsn(exp))
                why = "listing transition section differs from the transitions of the automaton: only in the listing %s; only in the automaton %s" % (
                    str(sorted((gs - es).elements())[:3])[:400], str(sorted((es - gs).elements())[:3])[:400])
                readable = bool(got) and all(re.fullmatch(r"\d+:\S+(-->( \S+ )*)?", x) for x in got)
            for si, tag, what in ((1, "LDR", "direct-read"), (2, "LRD", "read"), (3, "LFO", "follow")):
                if why is not None:
                    break
                expS = collections.Counter()
                for l in lines:
                    f = l.split()
                    if f[0] == tag and f[1] != "-1":
                        expS[(int(f[1]), names.get(int(f[2]), "?"), tuple(sorted(names.get(int(x), "?") for x in f[3:])))] += 1
                gotS, sec_ok = collections.Counter(), True
                got = section(si)
                for x in got:
                    m = re.fullmatch(r"(\d+)--(\S+)--> \[(.*)\]", x)
                    if not m:
                        sec_ok = False
                        continue
                    gotS[(int(m.group(1)), m.group(2), tuple(sorted(m.group(3).split())))] += 1
                if gotS != expS or not sec_ok:
                    why = "listing %s sets differ from the sets used for the lookaheads: only in the listing %s; only in the computation %s" % (
                        what, str(sorted((gotS - expS).elements())[:3])[:400], str(sorted((expS - gotS).elements())[:3])[:400])
                    readable = bool(got) and sec_ok
        if why:
            kind = next((k for pre, k in C18_TEXT_KINDS if why.startswith(pre)), "struct")
            if readable:
                kind = "struct"        # written in the known notation, but saying something else: a wrong view
            c18_bad.append((kind, {"key": common.finding_key({"src": c["src"], "why": why[:60]}),
                                   "what": "debug listing / DOT graph does not describe the generated parser: " + why,
                                   "replay": {"property": pid, "grammar_file": c["src"], "why": why}}))
        else:
            c18_pass += 1
        if len(samples) < 2 and n > 3:
            samples.append({"case": c["id"], "states": n, "dot_node_0": nodes.get("state_0", ("", ""))[1][:200]})
    # the views are TEXT: when not a single grammar's view can be read the way this check reads it and all
    # complaints are about how something is written, the notation has changed (tie); otherwise a view that
    # differs misdescribes the parser (violation)
    if c18_bad and c18_pass == 0 and all(k != "struct" for k, _ in c18_bad):
        ties.append({"what": "no view is written in the notation this check reads (%s): the views cannot be judged" % sorted(set(k for k, _ in c18_bad)),
                     "example": c18_bad[0][1]["replay"]["why"][:400]})
    else:
        violations += [v for _, v in c18_bad]
    cov = {"evaluations": nstates, "distinct_nontrivial": accepted,
           "rule": GEN_RULE + "; per grammar the graph object returned by DrawGrammar (nodes, item texts, edges, reduce annotations, accept decoration) and the stdout of the debug mode (states, items, transitions, lookahead sets) are parsed and compared with LR0Closure / GTable / the hooked lookaheads of the same run; evaluations = states",
           "samples": samples, "programs": accepted, "listing_lines_compared_with_model": listing_lines, "disagreements_checked": len(violations), "trusted_base": TRUSTED + ["gographviz graph object"]}
    return common.conclude(pid, tier, C18_LEVEL, proof, ties, violations, cov,
                           ["symbol names do not contain the renderers' own separators (| { } < > quotes)"])


C18_THEOREMS = ["Y.Props.C18_views", "Y.Props.C18_determines", "Y.Props.C18_determined", "Y.Props.dot_edges", "Y.Props.dot_nodes"]
C18_THEOREMS += ["Y.Props.C18_listing_states", "Y.Props.C18_listing_la", "Y.Props.C18_listing_determines", "Y.Props.C18_listing_determines_auto",
                 "Y.Props.C18_listing_determined", "Y.Props.C18_listing_mem", "Y.Props.list_item_str_injective", "Y.Props.list_goto_str_injective", "Y.Props.la_line_injective"]
C18_THEOREMS += ["Y.Props.C18_listing_sets", "Y.Props.C18_listing_follow", "Y.Props.C18_listing_trans", "Y.Props.set_line_injective",
                 "Y.Props.follow_line_injective", "Y.Props.tr_shift_injective", "Y.Props.trReduceStr_prefix", "Y.Props.tr_reduce_injective",
                 "Y.Props.tr_line_injective", "Y.Props.tr_shift_ne_reduce"]
C18_MODULES = ["Yv.Props.C18", "Yv.Props.C18b", "Yv.Props.C18c"]
C18_LEVEL = "proof"


# ------------------------------------------------------------------------------------------- C19

C19_FAILURES = {
    "lexical error": "%token A\n%start S\n%%\nS : A ? ;\n%%\n",
    "unterminated comment": "%token A\n%start S\n%%\nS : A /* oops ;\n%%\n",
    "unbalanced action brace": "%token A\n%start S\n%%\nS : A { x := 1 ;\n%%\n",
    "syntax error (no rules section)": "%token A\n%start S\n",
    "syntax error (stray token in declarations)": "%token A\n: %start S\n%%\nS : A ;\n%%\n",
    "undefined symbol": "%token A\n%start S\n%%\nS : A B ;\n%%\n",
    "nonterminal without rule": "%token A\n%type <v> T\n%start S\n%%\nS : A ;\n%%\n",
    "unproductive nonterminal": "%token A\n%start S\n%%\nS : A S ;\n%%\n",
    "$n out of range": "%union { v int }\n%token <v> A\n%type <v> S\n%start S\n%%\nS : A { $$ = $3 } ;\n%%\n",
    "$0": "%union { v int }\n%token <v> A\n%type <v> S\n%start S\n%%\nS : A { $$ = $0 } ;\n%%\n",
    "truncated file": "%token A\n%start S\n%%\nS : A",
    "empty file": "",
}


def check_C19(tier):
    pid = "C19"
    rng = random.Random(common.seed() * 1000003 + 19)
    ok, msg = prebuild()
    if not ok:
        return build_failure(pid, tier, msg)
    proof = common.prove(C19_THEOREMS, C19_MODULES)
    work = common.tmpdir("c19")
    cli = os.path.join(common.BIN, "yaccgo")
    failures = dict(C19_FAILURES)
    big_epi = "\nfunc GetToken() {}\nvar table = []string{\n" + "".join("\t\"keyword_number_%d\",\n" % i for i in range(4000)) + "}\n// END OF EPILOGUE\n"
    failures["large input (100 KiB epilogue)"] = "%token A\n%start S\n%%\nS : A ;\n%%" + big_epi
    # grammars of unusual but legal SHAPE that must succeed and end with their epilogue
    epi = "\nfunc GetToken(input string, valTy *ValType, pos *int) int { return -1 }\n// the last line of the epilogue\n"
    failures["ok: every terminal is a character literal (no named token)"] = "%{\npackage p\n%}\n%union { v int }\n%start S\n%%\nS : 'a' S 'b' | 'c' ;\n%%" + epi
    failures["ok: literal tokens with precedence only"] = "%{\npackage p\n%}\n%union { v int }\n%left '+'\n%left '*'\n%start E\n%%\nE : E '+' E | E '*' E | 'n' ;\n%%" + epi
    failures["ok: tokens declared by precedence lines only"] = "%{\npackage p\n%}\n%union { v int }\n%left PLUS\n%right POW\n%nonassoc N\n%start E\n%%\nE : E PLUS E | E POW E | N ;\n%%" + epi
    failures["ok: empty language of the empty string"] = "%{\npackage p\n%}\n%union { v int }\n%token A\n%start S\n%%\nS : ;\n%%" + epi
    failures["ok: no prologue, no union"] = "%token A\n%start S\n%%\nS : A ;\n%%" + epi
    failures["ok: typed everything, actions everywhere"] = ("%{\npackage p\n%}\n%union { v int }\n%token <v> A\n%type <v> S T\n%start S\n%%\nS : T { $$ = $1 } | S A { $$ = $1 + $2 } ;\n"
                                                           "T : A { $$ = $1 } ;\n%%" + epi)
    # random failing texts: prefixes / edits of valid files that the front end rejects
    texts = c13_texts(tier, rng)
    rng.shuffle(texts)
    for i, t in enumerate(texts[:150 if tier == "quick" else 6000]):
        failures["mutated file %d" % i] = t
    violations, samples = [], []
    hist = {}
    runs = 0
    # an input that cannot be opened at all (missing file; a path through a regular file): the output stays as it is
    for target in ("go", "typescript"):
        for nm, badin in (("missing input file", os.path.join(work, "no_such_file.y")), ("input path through a file", os.path.join(cli, "x.y"))):
            outp = os.path.join(work, "out_noinput_%s_%d.txt" % (target, len(nm)))
            before = b"PRE-EXISTING OUTPUT (no input)\n" * 30
            open(outp, "wb").write(before)
            try:
                p0 = subprocess.run([cli, "generate", target, badin, outp], stdout=subprocess.DEVNULL, stderr=subprocess.DEVNULL, timeout=60, cwd=work)
                rc0 = p0.returncode
            except subprocess.TimeoutExpired:
                rc0 = -9
            after = open(outp, "rb").read() if os.path.exists(outp) else None
            runs += 1
            hist[nm + (":fail" if rc0 != 0 else ":ok")] = hist.get(nm + (":fail" if rc0 != 0 else ":ok"), 0) + 1
            if rc0 != 0 and after != before:
                violations.append({"key": common.finding_key({"noinput": nm, "target": target}),
                                   "what": "a failed generation (%s) modified the existing output file" % nm,
                                   "replay": {"property": pid, "input_path": badin, "target": target, "exit": rc0,
                                              "file_before_len": len(before), "file_after_len": None if after is None else len(after)}})
    jobs = []
    for ki, (kind, src) in enumerate(failures.items()):
        for target, flags in (("go", []), ("go", ["-o", "-u"]), ("typescript", [])):
            jobs.append((ki, kind, src, target, flags))

    def one(job):
        ki, kind, src, target, flags = job
        tag = "%d_%s_%s" % (ki, target, "".join(f.strip("-") for f in flags))
        inp = os.path.join(work, "in_%s.y" % tag)
        outp = os.path.join(work, "out_%s.txt" % tag)
        open(inp, "w", encoding="utf-8").write(src)
        # half of the pre-existing files are much longer than any generated output (a writer that does not
        # truncate leaves their tail behind)
        before = ("PRE-EXISTING OUTPUT %s\n" % tag).encode() * (20 if ki % 2 else 4000)
        open(outp, "wb").write(before)
        if ki % 3 == 0:
            os.chmod(outp, 0o444)          # a read-only (e.g. checked-in) generated file
        try:
            p = subprocess.run([cli, "generate"] + flags + [target, inp, outp], stdout=subprocess.DEVNULL, stderr=subprocess.DEVNULL, timeout=60, cwd=work)
            rc = p.returncode
        except subprocess.TimeoutExpired:
            rc = -9
        after = open(outp, "rb").read() if os.path.exists(outp) else None
        return (kind, src, target, flags, rc, before, after)
    with ThreadPoolExecutor(max_workers=16) as ex:
        results = list(ex.map(one, jobs))
    # where the epilogue of a successfully processed text begins is decided by the Lean front-end model
    # (a `%%` inside a comment, string, action or prologue is not a section mark)
    ok_srcs = sorted(set(src for (kind, src, target, flags, rc, before, after) in results if rc == 0))
    frec = run_front([{"id": "e%d" % i, "src": t} for i, t in enumerate(ok_srcs)]) if ok_srcs else {}
    epilogue_of = {}
    for i, t in enumerate(ok_srcs):
        for l in frec.get("e%d" % i, {}).get("model", []):
            if l.startswith("M AST rest "):
                epilogue_of[t] = unq(l[len("M AST rest "):])
    epi_unknown = 0
    for (kind, src, target, flags, rc, before, after) in results:
        runs += 1
        cls = "fail" if rc != 0 else "ok"
        hist[(kind if not kind.startswith("mutated") else "mutated file") + ":" + cls] = hist.get((kind if not kind.startswith("mutated") else "mutated file") + ":" + cls, 0) + 1
        if rc != 0:
            if after != before:
                violations.append({"key": common.finding_key({"src": src, "target": target, "flags": flags}),
                                   "what": "a failed generation (%s) modified the existing output file" % kind,
                                   "replay": {"property": pid, "grammar_file": src, "target": target, "flags": flags, "exit": rc,
                                              "file_before_len": len(before), "file_after_len": None if after is None else len(after)}})
        else:
            # success: the file is complete, ending with the epilogue
            epi = epilogue_of.get(src)
            if epi is None:
                epi_unknown += 1       # the model does not read this text (non-ASCII, or it refuses it): not judged
                continue
            if after is None or not after.decode("utf-8", "replace").endswith(epi):
                violations.append({"key": common.finding_key({"src": src, "target": target, "tail": True}),
                                   "what": "successful generation whose output does not end with the epilogue",
                                   "replay": {"property": pid, "grammar_file": src, "target": target, "flags": flags}})
    hist["successes whose epilogue the front-end model could not give (not judged)"] = epi_unknown
    samples.append({"kind": "undefined symbol", "grammar_file": C19_FAILURES["undefined symbol"], "outcomes": [r[4] for r in results if r[0] == "undefined symbol"]})
    cov = {"evaluations": runs, "distinct_nontrivial": len(failures),
           "rule": "every kind of input-caused failure (lexical error, unterminated comment/brace, syntax errors, undefined symbol, nonterminal without rule, unproductive nonterminal, $n out of range, $0, truncated, empty) plus prefixes/edits of valid files, x {go, go -o -u, typescript}, each with a pre-existing output file; after a non-zero exit the file must be byte-identical; after success it must end with the epilogue; distinct = input texts",
           "samples": samples, "outcome_histogram": {k: v for k, v in sorted(hist.items())}, "trusted_base": TRUSTED + ["operating-system file semantics (os.Create truncates)"],
           "explanation": "logic part (create comes after every fallible step) is a source fact extracted by the translator and checked in Lean against the expectation the theorem was proved for; OS behaviour is assumed"}
    return common.conclude(pid, tier, C19_LEVEL, proof, [], violations, cov, ["the output path is writable; failures of the OS itself are out of scope"])


C19_THEOREMS = ["C19.C19_atomic_on_failure", "C19.C19_success_content", "C19.C19_go", "C19.C19_ts",
                "C19.go_create_after_fallible", "C19.ts_create_after_fallible", "C19.last_write_is_epilogue",
                "C19.go_templates_end_with_epilogue"]
C19_MODULES = ["Yv.Props.C19"]
C19_LEVEL = "proof"


# ------------------------------------------------------------------------------------------- replay

def replay_any(pid, path):
    """Re-run the concrete case recorded in a replay file against the current tree and say whether
    the property still fails on it (exit 1) or not (exit 0)."""
    d = json.load(open(path))
    ok, msg = prebuild()
    if not ok:
        print("REPLAY: cannot build: " + msg[:500])
        return 2
    print("REPLAY property=%s file=%s" % (pid, path))
    if d.get("no_failing_input_found"):
        print("REPLAY: this report names a broken proof/correspondence, not an input: %s | %s" %
              (d.get("proof_detail", ""), [t.get("what") for t in d.get("tie_breaks", [])][:3]))
        print("REPLAY: re-running the quick check")
        return globals()["check_" + pid]("quick")
    if "matrix" in d:
        p = common.sh([common.BIN + "/yharness", "pack"], inp=(json.dumps({"id": "m", "aux": d["matrix"]}) + "\n").encode())
        b = parse_blocks(p.stdout.decode(), "PCASE", "PEND").get("m", [])
        unp = [[int(x) for x in l.split()[1:]] for l in b if l.startswith("PUNP")]
        bad = unp != d["matrix"]
        print("REPLAY: matrix %s unpacked as %s -> %s" % (d["matrix"], unp, "STILL FAILS" if bad else "ok now"))
        return 1 if bad else 0
    if "input_text" in d:
        work = common.tmpdir("replay")
        f = os.path.join(work, "in.y")
        open(f, "w", encoding="utf-8").write(d["input_text"])
        mode = d.get("command", "go")
        cmd = [common.BIN + "/yaccgo", "debug", f] if mode == "debug" else [common.BIN + "/yaccgo", "generate", "go" if mode != "ts" else "typescript", f, os.path.join(work, "out")]
        try:
            p = subprocess.run(cmd, stdout=subprocess.DEVNULL, stderr=subprocess.DEVNULL, timeout=d.get("deadline_s", 6), cwd=work)
            print("REPLAY: finished with exit status %d -> ok now" % p.returncode)
            return 0
        except subprocess.TimeoutExpired:
            print("REPLAY: still does not finish within the deadline -> STILL FAILS")
            return 1
    if "grammar" in d and "input_symbol_ids" in d:
        w = d["input_symbol_ids"]
        rec = common.run_core([{"id": "r", "src": d["grammar"]}], inputs_fn=lambda cid, lines: [w])
        r = sweep.CaseResult({"id": "r", "src": d["grammar"], "kind": "replay"}, rec["r"])
        if r.refused is not None:
            print("REPLAY: grammar is refused now: %s" % r.refused)
            return 0
        f = r.runs[0] if r.runs else None
        print("REPLAY: driver model on the implementation's table: %s" % f)
        print("REPLAY: Earley says sentence=%s viable_prefix_len=%d ; certificates %s" %
              (r.g.recognizes(w), r.g.viable_len(w), {k: v[0] for k, v in r.V.items()}))
        if f and f[2] == "accept":
            good = r.g.check_rm_derivation([int(x) for x in f[4:]], w)
            print("REPLAY: accepted, reductions are a rightmost derivation of the input: %s" % good)
            bad = (not good) or (not r.g.recognizes(w))
        else:
            bad = r.g.recognizes(w) and r.V.get("isLALR1", ["?"])[0] == "yes" or (f is not None and f[2] == "crash")
        print("REPLAY: %s" % ("STILL FAILS" if bad else "ok now"))
        return 1 if bad else 0
    if pid == "C14" and "grammar_file" in d and "options" in d:
        # the recorded grammar and option set, generated 24 times in fresh processes (16 at a time), bytes compared
        work = common.tmpdir("replay")
        f = os.path.join(work, "in.y")
        open(f, "w", encoding="utf-8").write(d["grammar_file"])
        target, flags = d["options"]

        def gen1(k):
            out = os.path.join(work, "out_%d" % k)
            try:
                p = subprocess.run([common.BIN + "/yaccgo", "generate"] + list(flags) + [target, f, out], stdout=subprocess.DEVNULL,
                                   stderr=subprocess.DEVNULL, timeout=1800, cwd=work)
            except subprocess.TimeoutExpired:
                return "unfinished"
            if p.returncode < 0:
                return "unfinished"
            try:
                return hashlib.sha256(open(out, "rb").read()).hexdigest()
            except FileNotFoundError:
                return None
        with ThreadPoolExecutor(max_workers=16) as ex:
            hs = list(ex.map(gen1, range(24)))
        done = set(h for h in hs if h != "unfinished")
        print("REPLAY: %d runs, %d finished, distinct outputs among the finished runs: %d" % (len(hs), len([h for h in hs if h != "unfinished"]), len(done)))
        bad = len(done) > 1
        print("REPLAY: %s" % ("STILL FAILS" if bad else "ok now (a difference that shows in fewer than 1 of 24 runs may need the quick check)"))
        return 1 if bad else 0
    if "grammar_file" in d or "grammar" in d:
        src = d.get("grammar_file") or d.get("grammar")
        rec = run_front([{"id": "r", "src": src}])
        dg = digest_front(rec["r"]["impl"])
        print("REPLAY: front end says refuse=%s syntax_error=%s hang=%s symbols=%d rules=%d" %
              (dg["refuse"], dg["ast_err"], dg["hang"], len(dg["syms"]), len(dg["rules"])))
        print("REPLAY: recorded: %s" % {k: v for k, v in d.items() if k not in ("grammar_file", "grammar")})
        print("REPLAY: re-running the quick check of %s to decide" % pid)
        return globals()["check_" + pid]("quick")
    print("REPLAY: %s" % json.dumps(d)[:2000])
    return globals()["check_" + pid]("quick")


for _p in ["C%02d" % i for i in range(1, 20)]:
    globals()["replay_" + _p] = (lambda path, _p=_p: replay_any(_p, path))
