//go:build verif

package main

import (
	"bufio"
	"encoding/hex"
	"fmt"
	"os"

	builder "github.com/acekingke/yaccgo/Builder"
	parser "github.com/acekingke/yaccgo/Parser"
	utils "github.com/acekingke/yaccgo/Utils"
)

// cmdSubst: per grammar, the data the reduce-case emitters read (per user rule: left-hand side id,
// name and tag, right-hand side names and tags, line number, action text) and the text they emit
// (Go global form, Go -o form, TypeScript), or the fact that they panic.
func cmdSubst() {
	w := bufio.NewWriterSize(realStdout, 1<<20)
	defer w.Flush()
	h := func(s string) string {
		if s == "" {
			return "-"
		}
		return hex.EncodeToString([]byte(s))
	}
	readCases(os.Stdin, func(c Case) {
		fmt.Fprintf(w, "SCASE %s\n", c.ID)
		defer fmt.Fprintf(w, "SEND\n")
		wk, _, cls, msg := build(c.Src)
		if wk == nil {
			fmt.Fprintf(w, "REFUSE %s %s\n", cls, oneLine(msg))
			return
		}
		v := wk.VistorNode.(*parser.RootVistor)
		vr := v.VerifRules()
		for i := 1; i < len(v.G.ProductoinRules); i++ {
			pr := v.G.ProductoinRules[i]
			one := vr[i-1]
			fmt.Fprintf(w, "SRULE %d %d %d %s %s %s %d", i, pr.LeftPart.ID, one.LineNo, h(one.Left), h(pr.LeftPart.Tag), h(one.ActionCode), len(pr.RighPart))
			for k, s := range pr.RighPart {
				nm := ""
				if k < len(one.Right) {
					nm = one.Right[k]
				}
				fmt.Fprintf(w, " %s %s", h(nm), h(s.Tag))
			}
			// the comment lists the names of the visitor's rule; their number may differ from the grammar rule's
			fmt.Fprintf(w, " | %d", len(one.Right))
			for k := len(pr.RighPart); k < len(one.Right); k++ {
				fmt.Fprintf(w, " %s", h(one.Right[k]))
			}
			fmt.Fprintf(w, "\n")
		}
		emit := func(tag string, obj bool, f func() string) {
			var s string
			utils.ObjectMode = obj
			_, pv := capture(func() { s = f() })
			utils.ObjectMode = false
			if pv != nil {
				fmt.Fprintf(w, "%s PANIC\n", tag)
			} else {
				fmt.Fprintf(w, "%s %s\n", tag, h(s))
			}
		}
		emit("SGO", false, func() string { return builder.VerifReduceFuncGo(wk) })
		emit("SOBJ", true, func() string { return builder.VerifReduceFuncGo(wk) })
		emit("STS", false, func() string { return builder.VerifReduceFuncTs(wk) })
	})
}
