import Yv.Abs.Sound
/-! Prototype of the completeness induction (C02), single-inductive formulation. -/
namespace Y

/-- `GenL G γ w`: the symbol sequence γ derives the terminal string w (big-step, = a parse forest) -/
inductive GenL (G : Grammar) : List Sym → List Sym → Prop
  | nil : GenL G [] []
  | tm (t : Sym) (γ v : List Sym) : G.isT t = true → GenL G γ v → GenL G (t :: γ) (t :: v)
  | nt (r : Nat) (rl : Rule) (γ u v : List Sym) : G.rules[r]? = some rl → GenL G rl.rhs u → GenL G γ v →
      GenL G (rl.lhs :: γ) (u ++ v)

/-- `a` can be the first terminal of a terminal string derived from γ -/
def FirstOf (G : Grammar) (γ : List Sym) (a : Sym) : Prop := ∃ u, GenL G γ (a :: u)

theorem GenL.snocT {G : Grammar} {γ w} (h : GenL G γ w) (a : Sym) (ha : G.isT a = true) :
    GenL G (γ ++ [a]) (w ++ [a]) := by
  induction h with
  | nil => exact .tm a [] [] ha .nil
  | tm t γ v ht _ ih => exact .tm t _ _ ht ih
  | nt r rl γ u v hr h1 _ _ ih2 =>
    have := GenL.nt r rl _ u _ hr h1 ih2
    simpa [List.append_assoc] using this

def steps (G : Grammar) (T : Tab) : Nat → Cfg → Option Cfg
  | 0, c => some c
  | n+1, c => match step G T c with
    | .next c' => steps G T n c'
    | _ => none

theorem steps_add (G : Grammar) (T : Tab) (m n : Nat) (c c' c'' : Cfg)
    (h1 : steps G T m c = some c') (h2 : steps G T n c' = some c'') :
    steps G T (m + n) c = some c'' := by
  induction m generalizing c with
  | zero =>
    change some c = some c' at h1
    cases h1; simpa using h2
  | succ k ih =>
    have : k + 1 + n = (k + n) + 1 := by omega
    rw [this]
    unfold steps at h1 ⊢
    split at h1
    · rename_i c1 hs
      exact ih c1 h1
    · cases h1

structure GWF (G : Grammar) : Prop where
  lhsNT : ∀ (r : Nat) (rl : Rule), G.rules[r]? = some rl → G.isT rl.lhs = false

/-- the completeness certificate, as facts about lookahead-annotated items `It q r d b` -/
structure Complete (G : Grammar) (T : Tab) (It : Nat → Nat → Nat → Sym → Prop) : Prop where
  closure : ∀ (q r d : Nat) (b : Sym) (rl : Rule) (a : Sym) (r' : Nat) (rl' : Rule), It q r d b → G.rules[r]? = some rl →
      G.rules[r']? = some rl' → rl.rhs[d]? = some rl'.lhs →
      FirstOf G (rl.rhs.drop (d+1) ++ [b]) a → It q r' 0 a
  shift : ∀ (q r d : Nat) (b : Sym) (rl : Rule) (t : Sym), It q r d b → G.rules[r]? = some rl → rl.rhs[d]? = some t →
      G.isT t = true → ∃ p, T.act q t = .shift p ∧ It p r (d+1) b
  goto : ∀ (q r d : Nat) (b : Sym) (rl : Rule) (B : Sym), It q r d b → G.rules[r]? = some rl → rl.rhs[d]? = some B →
      G.isT B = false → ∃ p, T.goto q B = some p ∧ It p r (d+1) b
  reduce : ∀ (q r : Nat) (a : Sym) (rl : Rule), G.rules[r]? = some rl → It q r rl.rhs.length a → T.act q a = .reduce r
  lookT : ∀ (q r d : Nat) (b : Sym), It q r d b → G.isT b = true

theorem top_cons (c : Cfg) (p : Nat) (x : Sym) (st) (h : c.stack = (p, x) :: st) : top c = p := by
  simp [top, topOf, h]

theorem step_reduce (G : Grammar) (T : Tab) (c : Cfg) (a : Sym) (v : List Sym) (r : Nat) (rl : Rule)
    (ext base : List (Nat × Sym)) (p : Nat)
    (hrest : c.rest = a :: v) (hact : T.act (top c) a = .reduce r) (hr : G.rules[r]? = some rl)
    (hstk : c.stack = ext ++ base) (hlen : ext.length = rl.rhs.length)
    (hg : T.goto (topOf base) rl.lhs = some p) :
    step G T c = .next { c with stack := (p, rl.lhs) :: base, reds := r :: c.reds } := by
  have hle : rl.rhs.length ≤ c.stack.length := by rw [hstk, ← hlen]; simp
  have hdrop : c.stack.drop rl.rhs.length = base := by rw [hstk, ← hlen]; simp
  unfold step
  rw [hrest]
  simp only [hact, hr, hle, if_true, hdrop, hg]

/-- Main simulation lemma: parsing the remainder `γ = rhs.drop k` of an item. -/
theorem sim (G : Grammar) (T : Tab) (It) (hG : GWF G) (hC : Complete G T It) :
    ∀ (γ w : List Sym), GenL G γ w →
    ∀ (c : Cfg) (r k : Nat) (a : Sym) (rl : Rule) (v : List Sym),
    It (top c) r k a → G.rules[r]? = some rl → k ≤ rl.rhs.length → rl.rhs.drop k = γ →
    c.rest = w ++ a :: v →
    ∃ n c', steps G T n c = some c' ∧
      (∃ ext : List (Nat × Sym), c'.stack = ext ++ c.stack ∧ ext.length = γ.length) ∧
      c'.rest = a :: v ∧ It (top c') r rl.rhs.length a := by
  intro γ w h
  induction h with
  | nil =>
    intro c r k a rl v hit hr hk hdrop hrest
    have : k = rl.rhs.length := by
      have := congrArg List.length hdrop; simp at this; omega
    subst this
    exact ⟨0, c, rfl, ⟨[], by simp, rfl⟩, by simpa using hrest, hit⟩
  | tm t γ w' ht _ ih =>
    intro c r k a rl v hit hr hk hdrop hrest
    have hk' : k < rl.rhs.length := by
      have := congrArg List.length hdrop; simp at this; omega
    have hx : rl.rhs[k]? = some t := by
      have := congrArg (·[0]?) hdrop; simpa using this
    have hdrop' : rl.rhs.drop (k+1) = γ := by
      have := congrArg (List.drop 1) hdrop; simpa using this
    obtain ⟨p, hact, hp⟩ := hC.shift (top c) r k a rl t hit hr hx ht
    let c1 : Cfg := { c with stack := (p, t) :: c.stack, rest := w' ++ a :: v }
    have hs1 : steps G T 1 c = some c1 := by
      simp at hrest
      simp [steps, step, hrest, hact, c1]
    have htop1 : top c1 = p := top_cons c1 p t c.stack rfl
    obtain ⟨n, c', hs, ⟨ext, hext, hlen⟩, hr', hit'⟩ :=
      ih c1 r (k+1) a rl v (by rw [htop1]; exact hp) hr (by omega) hdrop' rfl
    refine ⟨1 + n, c', steps_add G T 1 n c c1 c' hs1 hs, ⟨ext ++ [(p, t)], ?_, ?_⟩, hr', hit'⟩
    · simp [hext, c1]
    · simp [hlen]
  | nt r' rl' γ u w' hr' _ _ ih1 ih2 =>
    intro c r k a rl v hit hr hk hdrop hrest
    have hk' : k < rl.rhs.length := by
      have := congrArg List.length hdrop; simp at this; omega
    have hx : rl.rhs[k]? = some rl'.lhs := by
      have := congrArg (·[0]?) hdrop; simpa using this
    have hdrop' : rl.rhs.drop (k+1) = γ := by
      have := congrArg (List.drop 1) hdrop; simpa using this
    -- the token that follows the yield of this nonterminal
    have haT : G.isT a = true := hC.lookT _ _ _ _ hit
    obtain ⟨a1, v1, hw1⟩ : ∃ a1 v1, w' ++ a :: v = a1 :: v1 := by
      cases w' with
      | nil => exact ⟨a, v, rfl⟩
      | cons x xs => exact ⟨x, xs ++ a :: v, rfl⟩
    have hfirst : FirstOf G (rl.rhs.drop (k+1) ++ [a]) a1 := by
      rw [hdrop']
      rename_i hγ
      have := GenL.snocT hγ a haT
      cases w' with
      | nil => simp at hw1; obtain ⟨rfl, _⟩ := hw1; exact ⟨[], by simpa using this⟩
      | cons x xs => simp at hw1; obtain ⟨rfl, _⟩ := hw1; exact ⟨xs ++ [a], by simpa using this⟩
    have hit0 : It (top c) r' 0 a1 := hC.closure (top c) r k a rl a1 r' rl' hit hr hr' hx hfirst
    -- parse the body of rule r'
    obtain ⟨n1, c1, hs1, ⟨ext1, hext1, hlen1⟩, hrest1, hit1⟩ :=
      ih1 c r' 0 a1 rl' v1 hit0 hr' (by omega) (by simp) (by rw [hrest, List.append_assoc, hw1])
    -- reduce by r'
    have hact : T.act (top c1) a1 = .reduce r' := hC.reduce _ _ _ _ hr' hit1
    obtain ⟨p, hgoto, hp⟩ := hC.goto (top c) r k a rl rl'.lhs hit hr hx (hG.lhsNT r' rl' hr')
    let c2 : Cfg := { c1 with stack := (p, rl'.lhs) :: c.stack, reds := r' :: c1.reds }
    have hs2 : steps G T 1 c1 = some c2 := by
      have := step_reduce G T c1 a1 v1 r' rl' ext1 c.stack p hrest1 hact hr' hext1 hlen1 hgoto
      simp [steps, this, c2]
    have htop2 : top c2 = p := top_cons c2 p rl'.lhs c.stack rfl
    have hrest2 : c2.rest = w' ++ a :: v := by simp [c2, hrest1, hw1]
    obtain ⟨n3, c3, hs3, ⟨ext3, hext3, hlen3⟩, hrest3, hit3⟩ :=
      ih2 c2 r (k+1) a rl v (by rw [htop2]; exact hp) hr (by omega) hdrop' hrest2
    refine ⟨(n1 + 1) + n3, c3, ?_, ⟨ext3 ++ [(p, rl'.lhs)], ?_, ?_⟩, hrest3, hit3⟩
    · exact steps_add G T (n1+1) n3 c c2 c3 (steps_add G T n1 1 c c1 c2 hs1 hs2) hs3
    · simp [hext3, c2]
    · simp [hlen3]

end Y
