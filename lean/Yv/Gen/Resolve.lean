-- GENERATED from LALR/Table.go and Symbol/symbol.go; do not edit
namespace Gen

structure Action where
  actionType : Int
  actionIndex : Int
  precType : Int
  prec : Int
deriving DecidableEq, Repr

def SHIFT : Int := 0
def REDUCE : Int := 1
def ERROR : Int := 2
def LEFT : Int := 0
def RIGHT : Int := 1
def NONE : Int := 2

def resolveConflict (act01 act02 : Action) : Except Unit Action :=
  let act_first := act01
  let act_second := act02
  if ((act02.actionType = 1) ∧ (act01.actionType = 0)) then
    let act_first := act02
    let act_second := act01
    if ((act_first.prec = (-1)) ∨ (act_second.prec = (-1))) then
      .error ()
    else
      if (act_first.prec > act_second.prec) then
        .ok act_first
      else
        if (act_first.prec = act_second.prec) then
          if ((act_first.precType = 2) ∨ (act_second.precType = 2)) then
            let actionError := { actionType := 2, actionIndex := 0, precType := 2, prec := act_first.prec : Action }
            .ok actionError
          else
            if (act_first.precType = 0) then
              .ok act_first
            else
              if (act_first.precType = 1) then
                .ok act_second
              else
                .error ()
        else
          .ok act_second
  else
    if ((act_first.prec = (-1)) ∨ (act_second.prec = (-1))) then
      .error ()
    else
      if (act_first.prec > act_second.prec) then
        .ok act_first
      else
        if (act_first.prec = act_second.prec) then
          if ((act_first.precType = 2) ∨ (act_second.precType = 2)) then
            let actionError := { actionType := 2, actionIndex := 0, precType := 2, prec := act_first.prec : Action }
            .ok actionError
          else
            if (act_first.precType = 0) then
              .ok act_first
            else
              if (act_first.precType = 1) then
                .ok act_second
              else
                .error ()
        else
          .ok act_second

def useDefaultResolveConflict (act01 act02 : Action) : Action :=
  if (act01.actionType = 0) then
    act01
  else
    if (act02.actionType = 0) then
      act02
    else
      if (act01.actionIndex < act02.actionIndex) then
        act02
      else
        act01

end Gen
