/-! Prototype for C15: the generated parser's stack (growable array + stack pointer, slots at or above
    the pointer are stale) refines a plain list stack. -/
namespace ArrS

structure Ent where
  st : Nat
  sym : Nat
  val : Int
deriving Repr, DecidableEq

structure Arr where
  a : List Ent          -- the slice (as a list: index 0 is the bottom)
  sp : Nat

/-- PushStateSym: append when the pointer is at the end, else overwrite the stale slot -/
def push (s : Arr) (e : Ent) : Arr :=
  if s.sp ≥ s.a.length then ⟨s.a ++ [e], s.sp + 1⟩ else ⟨s.a.set s.sp e, s.sp + 1⟩

/-- PopStateSym -/
def pop (s : Arr) (n : Nat) : Arr := ⟨s.a, s.sp - n⟩

/-- the live part, top first -/
def abs (s : Arr) : List Ent := (s.a.take s.sp).reverse

def Inv (s : Arr) : Prop := s.sp ≤ s.a.length

theorem inv_push (s : Arr) (e : Ent) (h : Inv s) : Inv (push s e) := by
  unfold Inv push at *
  split <;> simp <;> omega

theorem inv_pop (s : Arr) (n : Nat) (h : Inv s) : Inv (pop s n) := by
  unfold Inv pop at *; simp; omega

theorem abs_push (s : Arr) (e : Ent) (h : Inv s) : abs (push s e) = e :: abs s := by
  unfold Inv at h
  unfold push abs
  split
  · rename_i hge
    have : s.sp = s.a.length := by omega
    have e1 : List.take (s.a.length + 1) (s.a ++ [e]) = s.a ++ [e] :=
      List.take_of_length_le (by simp)
    simp [this, e1]
  · rename_i hlt
    have hlt' : s.sp < s.a.length := by omega
    simp only
    rw [List.take_succ]
    simp [List.take_set_of_le (Nat.le_refl _), List.getElem?_set_self hlt']

theorem abs_pop (s : Arr) (n : Nat) (h : Inv s) (hn : n ≤ s.sp) : abs (pop s n) = (abs s).drop n := by
  unfold Inv at h
  unfold pop abs
  simp only
  rw [List.drop_reverse, List.take_take]
  congr 1
  have h1 : min (s.sp - n) s.sp = s.sp - n := by omega
  have : (List.take s.sp s.a).length = s.sp := by simp [List.length_take]; omega
  rw [this, h1]

/-- stale contents never matter: two arrays with the same live part are indistinguishable to
    push, pop and `abs`, hence to the whole driver -/
theorem abs_push_congr (s t : Arr) (e : Ent) (hs : Inv s) (ht : Inv t) (h : abs s = abs t) :
    abs (push s e) = abs (push t e) := by
  rw [abs_push s e hs, abs_push t e ht, h]

/-- ParserInit of the global-state template: whatever was there before -/
def initGlobal (_ : Arr) (bottom : Ent) : Arr := ⟨[bottom], 1⟩
theorem abs_initGlobal (s : Arr) (b : Ent) : abs (initGlobal s b) = [b] := by simp [initGlobal, abs]

/-- ParserInit of the context template: append, then reset the pointer -/
def initObj (s : Arr) (bottom : Ent) : Arr := ⟨s.a ++ [bottom], 1⟩
theorem abs_initObj (s : Arr) (b : Ent) (h : s.a = [] ∨ s.a[0]? = some b) : abs (initObj s b) = [b] := by
  unfold initObj abs
  rcases h with h | h
  · simp [h]
  · cases hs : s.a with
    | nil => simp [hs] at h
    | cons x xs => simp [hs] at h ⊢; exact h

end ArrS
