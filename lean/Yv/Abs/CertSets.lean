import Yv.Abs.Lalr
/-! Prototype: from Bool certificates to the Prop-level facts used by `sim` (C02) and `LA_iff` (C03). -/
namespace Y

/-- candidate nullable / first sets, as data -/
structure Sets where
  nullable : Sym → Bool
  first : Sym → List Sym

def nullableSeq (S : Sets) (γ : List Sym) : Bool := γ.all S.nullable

def firstSeq (S : Sets) : List Sym → List Sym
  | [] => []
  | x :: xs => S.first x ++ (if S.nullable x then firstSeq S xs else [])

/-- Bool check: the sets are closed under the grammar's rules and contain every terminal -/
def setsClosed (G : Grammar) (S : Sets) : Bool :=
  (G.rules.all fun rl =>
    (!(nullableSeq S rl.rhs) || S.nullable rl.lhs) &&
    (firstSeq S rl.rhs).all fun a => (S.first rl.lhs).contains a) &&
  ((List.range (G.nT + 1)).all fun t => !(G.isT t) || ((S.first t).contains t && !(S.nullable t)))

theorem isT_lt {G : Grammar} {t : Sym} (h : G.isT t = true) : t < G.nT + 1 := by
  unfold Grammar.isT at h
  have h2 : t ≤ G.nT := by
    have := (Bool.and_eq_true _ _ ▸ h : _ ∧ _).2
    exact of_decide_eq_true this
  exact Nat.lt_succ_of_le h2

theorem closed_rule {G : Grammar} {S : Sets} (hc : setsClosed G S = true) {r : Nat} {rl : Rule}
    (hr : G.rules[r]? = some rl) :
    (nullableSeq S rl.rhs = true → S.nullable rl.lhs = true) ∧
    (∀ a ∈ firstSeq S rl.rhs, a ∈ S.first rl.lhs) := by
  have hmem : rl ∈ G.rules := List.mem_of_getElem? hr
  simp only [setsClosed, Bool.and_eq_true, List.all_eq_true] at hc
  have := hc.1 rl hmem
  simp only [Bool.and_eq_true, Bool.or_eq_true, Bool.not_eq_true', List.all_eq_true] at this
  refine ⟨fun hn => ?_, fun a ha => ?_⟩
  · rcases this.1 with h | h
    · rw [hn] at h; cases h
    · exact h
  · have := this.2 a ha
    simpa using this

theorem closed_term {G : Grammar} {S : Sets} (hc : setsClosed G S = true) {t : Sym} (ht : G.isT t = true) :
    t ∈ S.first t ∧ S.nullable t = false := by
  simp only [setsClosed, Bool.and_eq_true, List.all_eq_true] at hc
  have := hc.2 t (List.mem_range.mpr (isT_lt ht))
  simp only [ht, Bool.not_true, Bool.false_or, Bool.and_eq_true, Bool.not_eq_true'] at this
  exact ⟨by simpa using this.1, this.2⟩

/-- Theorem A: closed candidate sets contain the declarative nullable/first facts -/
theorem gen_sets (G : Grammar) (S : Sets) (hc : setsClosed G S = true) :
    ∀ γ w, GenL G γ w →
      (w = [] → nullableSeq S γ = true) ∧ (∀ a u, w = a :: u → a ∈ firstSeq S γ) := by
  intro γ w h
  induction h with
  | nil => exact ⟨fun _ => rfl, fun a u h => (by cases h)⟩
  | tm t γ v ht _ ih =>
    refine ⟨fun h => (by cases h), fun a u h => ?_⟩
    cases h
    simp only [firstSeq, List.mem_append]
    exact Or.inl (closed_term hc ht).1
  | nt r rl γ u v hr _ _ ih1 ih2 =>
    obtain ⟨hnull, hfirst⟩ := closed_rule hc hr
    refine ⟨fun h => ?_, fun a w' h => ?_⟩
    · have hu : u = [] := (List.append_eq_nil_iff.mp h).1
      have hv : v = [] := (List.append_eq_nil_iff.mp h).2
      simp only [nullableSeq, List.all_cons, Bool.and_eq_true]
      exact ⟨hnull (ih1.1 hu), ih2.1 hv⟩
    · simp only [firstSeq, List.mem_append]
      cases u with
      | nil =>
        have hn : S.nullable rl.lhs = true := hnull (ih1.1 rfl)
        simp only [List.nil_append] at h
        right; simp only [hn, if_true]
        exact ih2.2 a w' h
      | cons x xs =>
        simp only [List.cons_append, List.cons.injEq] at h
        obtain ⟨rfl, _⟩ := h
        exact Or.inl (hfirst _ (ih1.2 x xs rfl))

theorem firstOf_sets (G : Grammar) (S : Sets) (hc : setsClosed G S = true) (γ : List Sym) (a : Sym)
    (h : FirstOf G γ a) : a ∈ firstSeq S γ := by
  obtain ⟨u, hu⟩ := h
  exact (gen_sets G S hc γ (a :: u) hu).2 a u rfl

/-- automaton and candidate lookahead table, as data -/
structure LAData where
  n : Nat
  items : Nat → List Item
  goto : Nat → Sym → Option Nat
  la : Nat → Item → List Sym

/-- Bool check: item sets contain the start item and are closed under closure and goto;
    the lookahead table contains `$` on the start item and is closed under the propagation rules -/
def laClosed (G : Grammar) (S : Sets) (D : LAData) : Bool :=
  (D.items 0).contains ⟨0, 0⟩ && (D.la 0 ⟨0, 0⟩).contains 1 &&
  (List.range D.n).all fun q =>
    (D.items q).all fun it =>
      match G.rules[it.r]? with
      | none => true
      | some rl =>
        match rl.rhs[it.d]? with
        | none => true
        | some x =>
          -- goto
          (match D.goto q x with
           | none => true
           | some p => p < D.n && (D.items p).contains ⟨it.r, it.d + 1⟩ &&
               (D.la q it).all fun b => (D.la p ⟨it.r, it.d + 1⟩).contains b) &&
          -- closure
          ((List.range G.rules.length).all fun r' =>
            match G.rules[r']? with
            | none => true
            | some rl' =>
              !(rl'.lhs == x) ||
                ((D.items q).contains ⟨r', 0⟩ &&
                 (D.la q it).all fun b =>
                   (firstSeq S (rl.rhs.drop (it.d + 1) ++ [b])).all fun a => (D.la q ⟨r', 0⟩).contains a))

theorem laClosed_item {G : Grammar} {S : Sets} {D : LAData} (hc : laClosed G S D = true)
    {q : Nat} (hq : q < D.n) {it : Item} (hit : it ∈ D.items q) {rl : Rule} {x : Sym}
    (hr : G.rules[it.r]? = some rl) (hx : rl.rhs[it.d]? = some x) :
    (∀ p, D.goto q x = some p → p < D.n ∧ ⟨it.r, it.d + 1⟩ ∈ D.items p ∧
        ∀ b ∈ D.la q it, b ∈ D.la p ⟨it.r, it.d + 1⟩) ∧
    (∀ r' rl', G.rules[r']? = some rl' → rl'.lhs = x → ⟨r', 0⟩ ∈ D.items q ∧
        ∀ b ∈ D.la q it, ∀ a ∈ firstSeq S (rl.rhs.drop (it.d + 1) ++ [b]), a ∈ D.la q ⟨r', 0⟩) := by
  simp only [laClosed, Bool.and_eq_true, List.all_eq_true] at hc
  have h := hc.2 q (List.mem_range.mpr hq) it hit
  simp only [hr, hx, Bool.and_eq_true, List.all_eq_true] at h
  refine ⟨fun p hp => ?_, fun r' rl' hr' hl => ?_⟩
  · have h1 := h.1
    simp only [hp, Bool.and_eq_true, List.all_eq_true, decide_eq_true_eq] at h1
    exact ⟨h1.1.1, by simpa using h1.1.2, fun b hb => by simpa using h1.2 b hb⟩
  · have hlt : r' < G.rules.length := by
      rcases Nat.lt_or_ge r' G.rules.length with h | h
      · exact h
      · simp [List.getElem?_eq_none h] at hr'
    have h2 := h.2 r' (List.mem_range.mpr hlt)
    simp only [hr', hl, beq_self_eq_true, Bool.not_true, Bool.false_or, Bool.and_eq_true,
      List.all_eq_true] at h2
    exact ⟨by simpa using h2.1, fun b hb a ha => by simpa using h2.2 b hb a ha⟩

/-- C03/C02 bridge: a table that passes the Bool checks contains every LALR(1) fact -/
theorem LA_in_table (G : Grammar) (S : Sets) (D : LAData) (hs : setsClosed G S = true)
    (hc : laClosed G S D = true) (hn : 0 < D.n) :
    ∀ q it a, LA G D.goto q it a → q < D.n ∧ it ∈ D.items q ∧ a ∈ D.la q it := by
  intro q it a h
  induction h with
  | init =>
    simp only [laClosed, Bool.and_eq_true] at hc
    exact ⟨hn, by simpa using hc.1.1, by simpa using hc.1.2⟩
  | clos q r d b r' a _ hstep ih =>
    obtain ⟨hq, hit, hb⟩ := ih
    obtain ⟨rl, rl', hr, hr', hx, hfirst⟩ := hstep
    have := (laClosed_item hc hq hit (it := ⟨r, d⟩) hr hx).2 r' rl' hr' rfl
    exact ⟨hq, this.1, this.2 b hb a (firstOf_sets G S hs _ a hfirst)⟩
  | goto q r d b rl X p _ hr hx hg ih =>
    obtain ⟨hq, hit, hb⟩ := ih
    have := (laClosed_item hc hq hit (it := ⟨r, d⟩) hr hx).1 p hg
    exact ⟨this.1, this.2.1, this.2.2 b hb⟩

end Y
