import Yv.Proofs.DSound
import Yv.Proofs.ArrRefine
import Yv.Props.C05b
import Yv.Props.C01gen
/-! Facts behind `Yv/Props/EndToEnd.lean` (no `Yv.Gen.*` import here).

* `packedL` / `pparams`: the driver parameters of the PACKED parser: the table lookup is the
  generated lookup `SplitA.lookupA` on the arrays `PackA.packA (PackX.trySplit T nT).tab`, TOTAL
  (always `some …`): no index range is built into the definition.
* `step_congr`: two parameter sets that differ only in the lookup, and whose lookups agree on
  `q < n`, `a < nS`, make the same step from every configuration whose stack states are `< n` and
  whose lookahead is `< nS` (rule left-hand sides `< nS`).
* `packed_step_eq`, `packed_run_eq`: on a certified table, from every configuration that satisfies
  the invariant `Y.D.Inv` of `DSound` (in particular `init`), the packed driver and the dense
  driver take the same step / have the same run.
* `lookupGo` / `pparamsP`: the packed `Action` with Go's slice-index checks (`none` = index out of
  range); `lookupGo_some`: where it does not panic it is `lookupA`; `lookupGo_eq`: for `q < n`,
  `a < nS` it does not panic; `packedP_run_inv`: its run is the dense run as well.
* `denseSimple_of_certT`: for a certified table, `DenseSimple` (hence `DenseWF`) reduces to
  "every row has an action cell that is not the error code" (`rowsLive`). -/
namespace Y.D
open Y

variable {V : Type}

/-! ### the packed lookup -/

/-- the lookup the generated parser performs on the packed arrays the model pipeline produces -/
def packedL (T : Dense) (nT : Nat) (err : Int) (q a : Nat) : Int :=
  SplitA.lookupA (PackA.packA (PackX.trySplit T nT).tab) (PackX.trySplit T nT) nT err q a

/-- the driver parameters of the packed parser: `dparams` with the packed lookup (total) -/
def pparams (G : Grammar) (T : Dense) (n : Nat) (sem : Nat → List V → V) (eofVal : V) : Params V :=
  { L := fun q a => some (packedL T G.nT (errCode n) q a), errC := errCode n, accC := accCode n,
    rule := fun r => if r = 0 then none else (G.rules[r]?).map (fun rl => (rl.lhs, rl.rhs.length)),
    sem := sem, eofVal := eofVal }

theorem pparams_eq (G : Grammar) (T : Dense) (n : Nat) (sem : Nat → List V → V) (eofVal : V) :
    pparams G T n sem eofVal =
      { dparams G T n sem eofVal with L := fun q a => some (packedL T G.nT (errCode n) q a) } := rfl

/-! ### shape of a certified table -/

theorem certT_shape {G : Grammar} {nS : Nat} {A : Auto} {T : Dense} (h : certT G nS A T = true) :
    T.length = A.n ∧ ∀ row ∈ T, row.length = nS := by
  unfold certT at h
  simp only [Bool.and_eq_true] at h
  obtain ⟨⟨⟨h1, h2⟩, _⟩, _⟩ := h
  refine ⟨of_decide_eq_true h1, ?_⟩
  intro row hr
  exact of_decide_eq_true (List.all_eq_true.mp h2 row hr)

theorem cell_eq_getD (T : Dense) (nS : Nat) (hrect : ∀ r ∈ T, r.length = nS) (q a : Nat)
    (hq : q < T.length) (ha : a < nS) : cell T q a = some ((T.getD q []).getD a 0) := by
  have hl := SplitA.row_length T nS hrect q hq
  have hr : T.getD q [] = T[q] := by
    rw [List.getD_eq_getElem?_getD, List.getElem?_eq_getElem hq]; rfl
  rw [hr] at hl ⊢
  have ha' : a < T[q].length := by omega
  unfold cell
  rw [List.getElem?_eq_getElem hq]
  simp only [Option.bind_some]
  rw [List.getElem?_eq_getElem ha', List.getD_eq_getElem?_getD, List.getElem?_eq_getElem ha']
  rfl

/-- on the index ranges of the table the packed lookup is the dense cell -/
theorem packedL_eq_cell (T : Dense) (nT nS : Nat) (err : Int)
    (hrect : ∀ r ∈ T, r.length = nS) (hnT : nT < nS) (hwf : SplitA.DenseWF T nT nS err = true)
    (q a : Nat) (hq : q < T.length) (ha : a < nS) :
    some (packedL T nT err q a) = cell T q a := by
  rw [cell_eq_getD T nS hrect q a hq ha]
  unfold packedL
  rw [SplitA.C05_split_lookup T nT nS err hrect hnT hwf q a hq ha]

/-! ### one step with two lookups that agree on the index ranges -/

theorem step_congr (P : Params V) (L' : Nat → Nat → Option Int) (n nS : Nat)
    (hL : ∀ q a, q < n → a < nS → L' q a = P.L q a)
    (hrule : ∀ r lhs k, P.rule r = some (lhs, k) → lhs < nS)
    (c : Cfg V) (hst : ∀ e ∈ c.stack, e.st < n) (hla : (look P.eofVal c).1 < nS) :
    step { P with L := L' } c = step P c := by
  unfold step
  cases hs : c.stack with
  | nil => rfl
  | cons top below =>
    simp only []
    rw [hs] at hst
    rw [hL top.st _ (hst top (List.mem_cons_self ..)) hla]
    cases hL1 : P.L top.st (look P.eofVal c).1 with
    | none => rfl
    | some a =>
      simp only []
      by_cases he : a = P.errC
      · rw [if_pos he, if_pos he]
      rw [if_neg he, if_neg he]
      by_cases hac : a = P.accC
      · rw [if_pos hac, if_pos hac]
      rw [if_neg hac, if_neg hac]
      by_cases hpos : 0 < a
      · rw [if_pos hpos, if_pos hpos]
      rw [if_neg hpos, if_neg hpos]
      cases hr : P.rule (-a).toNat with
      | none => rfl
      | some ln =>
        obtain ⟨lhs, k⟩ := ln
        simp only []
        by_cases hk : k ≤ below.length
        · rw [if_pos hk, if_pos hk]
          cases hd : (top :: below).drop k with
          | nil => rfl
          | cons under rest' =>
            simp only []
            have hmem : under ∈ top :: below :=
              List.mem_of_mem_drop (by rw [hd]; exact List.mem_cons_self ..)
            rw [hL under.st lhs (hst under hmem) (hrule _ _ _ hr)]
        · rw [if_neg hk, if_neg hk]

/-! ### the states on a path are states of the automaton -/

theorem PathOK.all_lt {G : Grammar} {A : Auto} (hA : AOK G A) {st : List (Entry V)}
    (h : PathOK A st) : ∀ e ∈ st, e.st < A.n := by
  induction h with
  | bottom v =>
    intro e he
    rw [List.mem_singleton] at he
    subst he
    exact hA.npos
  | push e st hp hg ih =>
    intro e' he'
    rcases List.mem_cons.mp he' with rfl | h
    · exact (hA.edge _ (hp.top_lt hA) _ _ hg).1
    · exact ih e' h

theorem dparams_rule_lt {G : Grammar} {nS : Nat} (hG : GOK G nS) (T : Dense) (n : Nat)
    (sem : Nat → List V → V) (eofVal : V) (r : Nat) (lhs k : Nat)
    (h : (dparams G T n sem eofVal).rule r = some (lhs, k)) : lhs < nS := by
  simp only [dparams] at h
  by_cases h0 : r = 0
  · rw [if_pos h0] at h; cases h
  · rw [if_neg h0] at h
    cases hr : G.rules[r]? with
    | none => rw [hr] at h; cases h
    | some rl =>
      rw [hr] at h
      simp only [Option.map_some, Option.some.injEq, Prod.mk.injEq] at h
      rw [← h.1]
      exact hG.lhs_lt r rl hr

/-! ### a driver whose lookup agrees with the dense table on its index ranges -/

/-- one step from a configuration satisfying the run invariant: every lookup the step makes has
    `q < A.n` and `a < nS`, so a lookup `L'` that agrees with the table there gives the same step -/
theorem agree_step_eq {G : Grammar} {nS : Nat} {A : Auto} {T : Dense} {w : List Sym}
    (sem : Nat → List V → V) (eofVal : V)
    (hG : gramWF G nS = true) (hA : certA G A = true)
    (L' : Nat → Nat → Option Int) (hL : ∀ q a, q < A.n → a < nS → L' q a = cell T q a)
    {c : Cfg V} (h : Inv G A w c) :
    step { dparams G T A.n sem eofVal with L := L' } c = step (dparams G T A.n sem eofVal) c := by
  have hG' := gramWF_ok hG
  have hA' := certA_ok hA
  refine step_congr (dparams G T A.n sem eofVal) L' A.n nS hL ?_ c ?_ ?_
  · exact dparams_rule_lt hG' T A.n sem eofVal
  · exact PathOK.all_lt hA' h.path
  · exact Nat.lt_of_le_of_lt (look_le hG'.nT1 h) hG'.nTS

theorem agree_run_inv {G : Grammar} {nS : Nat} {A : Auto} {T : Dense} {w : List Sym}
    (sem : Nat → List V → V) (eofVal : V)
    (hG : gramWF G nS = true) (hA : certA G A = true) (hT : certT G nS A T = true)
    (L' : Nat → Nat → Option Int) (hL : ∀ q a, q < A.n → a < nS → L' q a = cell T q a) :
    ∀ (fuel : Nat) (c : Cfg V), Inv G A w c →
      run { dparams G T A.n sem eofVal with L := L' } fuel c =
        run (dparams G T A.n sem eofVal) fuel c := by
  intro fuel
  induction fuel with
  | zero => intro c _; rfl
  | succ k ih =>
    intro c h
    unfold run
    rw [agree_step_eq sem eofVal hG hA L' hL h]
    rcases step_cases sem eofVal (gramWF_ok hG) (certA_ok hA) (certT_ok hT) h with
      ⟨c', hs, hi⟩ | ⟨v, hs, _, _⟩ | hs
    · rw [hs]; exact ih c' hi
    · rw [hs]
    · rw [hs]

/-! ### the packed driver is the dense driver on certified tables -/

theorem packedL_agree {G : Grammar} {nS : Nat} {A : Auto} {T : Dense}
    (hG : gramWF G nS = true) (hT : certT G nS A T = true)
    (hW : SplitA.DenseWF T G.nT nS (errCode A.n) = true) :
    ∀ q a, q < A.n → a < nS → some (packedL T G.nT (errCode A.n) q a) = cell T q a := by
  obtain ⟨hlen, hrect⟩ := certT_shape hT
  intro q a hq ha
  exact packedL_eq_cell T G.nT nS (errCode A.n) hrect (gramWF_ok hG).nTS hW q a (by omega) ha

/-- one step from a configuration satisfying the run invariant -/
theorem packed_step_eq {G : Grammar} {nS : Nat} {A : Auto} {T : Dense} {w : List Sym}
    (sem : Nat → List V → V) (eofVal : V)
    (hG : gramWF G nS = true) (hA : certA G A = true) (hT : certT G nS A T = true)
    (hW : SplitA.DenseWF T G.nT nS (errCode A.n) = true)
    {c : Cfg V} (h : Inv G A w c) :
    step (pparams G T A.n sem eofVal) c = step (dparams G T A.n sem eofVal) c :=
  agree_step_eq sem eofVal hG hA _ (packedL_agree hG hT hW) h

/-- **the packed run is the dense run**, from every configuration satisfying the invariant -/
theorem packed_run_inv {G : Grammar} {nS : Nat} {A : Auto} {T : Dense} {w : List Sym}
    (sem : Nat → List V → V) (eofVal : V)
    (hG : gramWF G nS = true) (hA : certA G A = true) (hT : certT G nS A T = true)
    (hW : SplitA.DenseWF T G.nT nS (errCode A.n) = true) :
    ∀ (fuel : Nat) (c : Cfg V), Inv G A w c →
      run (pparams G T A.n sem eofVal) fuel c = run (dparams G T A.n sem eofVal) fuel c :=
  agree_run_inv sem eofVal hG hA hT _ (packedL_agree hG hT hW)

/-! ### the lookup with Go's index checks

`lookupGo` is the packed `Action` method with every slice index checked as Go checks it
(`none` = "index out of range" panic): `off[q]`, then — `chk[o]` being guarded by the tests
`o < 0` and `o >= len(chk)` — `gdef[a-nT-1]` / `adef[q]` on a miss and `act[o]` on a hit. -/

def lookupGo (p : PackA.Packed) (s : PackX.Split) (nT : Nat) (err : Int) (q a : Nat) : Option Int :=
  match p.off[q]? with
  | none => none
  | some oq =>
    if oq + (a : Int) < 0 then some err
    else if (oq + (a : Int)).toNat ≥ p.check.length || p.check.getD (oq + (a : Int)).toNat (-1) != q then
      if a > nT then s.gtdef[a - nT - 1]? else s.actdef[q]?
    else p.act[(oq + (a : Int)).toNat]?

theorem getElem?_some_getD (l : List Int) (i : Nat) (h : i < l.length) : l[i]? = some (l.getD i 0) := by
  rw [List.getD_eq_getElem?_getD, List.getElem?_eq_getElem h]; rfl

theorem getD_of_getElem? (l : List Int) (i : Nat) (v : Int) (h : l[i]? = some v) : l.getD i 0 = v := by
  rw [List.getD_eq_getElem?_getD, h]; rfl

/-- wherever the checked lookup does not panic it returns what the unchecked `lookupA` (= the
    translated `Action` text, C05c) returns — for ALL arrays, states and symbols -/
theorem lookupGo_some (p : PackA.Packed) (s : PackX.Split) (nT : Nat) (err : Int) (q a : Nat) (v : Int)
    (h : lookupGo p s nT err q a = some v) : SplitA.lookupA p s nT err q a = v := by
  unfold lookupGo at h
  unfold SplitA.lookupA
  cases ho : p.off[q]? with
  | none => rw [ho] at h; cases h
  | some oq =>
    rw [ho] at h
    simp only [] at h
    rw [getD_of_getElem? _ _ _ ho]
    simp only []
    by_cases h0 : oq + (a : Int) < 0
    · rw [if_pos h0] at h ⊢
      exact Option.some.inj h
    rw [if_neg h0] at h ⊢
    by_cases hm : ((oq + (a : Int)).toNat ≥ p.check.length ||
        p.check.getD (oq + (a : Int)).toNat (-1) != (q : Int)) = true
    · rw [if_pos hm] at h ⊢
      by_cases hc : a > nT
      · rw [if_pos hc] at h ⊢
        exact getD_of_getElem? _ _ _ h
      · rw [if_neg hc] at h ⊢
        exact getD_of_getElem? _ _ _ h
    · rw [if_neg hm] at h ⊢
      exact getD_of_getElem? _ _ _ h

theorem packA_off_length (tab : List (List Int)) : (PackA.packA tab).off.length = tab.length := by
  simp [PackA.packA, PackA.packOf]

theorem packA_act_length (tab : List (List Int)) :
    (PackA.packA tab).act.length = (PackA.packA tab).check.length := by
  simp [PackA.packA, PackA.packOf, PackA.retU, PackA.chkU]

theorem trySplit_actdef_length (T : Dense) (nT : Nat) : (PackX.trySplit T nT).actdef.length = T.length := by
  simp [PackX.trySplit]

theorem trySplit_gtdef_length (T : Dense) (nT : Nat) :
    (PackX.trySplit T nT).gtdef.length = (T.headD []).length - nT - 1 := by
  simp [PackX.trySplit, PackX.transpose]

/-- inside the index ranges of the table no index of the packed `Action` is out of range, and the
    value is `lookupA`'s -/
theorem lookupGo_eq (T : Dense) (nT nS : Nat) (err : Int) (hrect : ∀ r ∈ T, r.length = nS)
    (q a : Nat) (hq : q < T.length) (ha : a < nS) :
    lookupGo (PackA.packA (PackX.trySplit T nT).tab) (PackX.trySplit T nT) nT err q a =
      some (packedL T nT err q a) := by
  have hne : T ≠ [] := by intro h; rw [h] at hq; simp at hq
  have hh := SplitA.headD_length T nS hrect hne
  have hoff : q < (PackA.packA (PackX.trySplit T nT).tab).off.length := by
    rw [packA_off_length, SplitA.trySplit_eq, SplitA.length_tab]; exact hq
  have hact := packA_act_length (PackX.trySplit T nT).tab
  have hadef := trySplit_actdef_length T nT
  have hgdef := trySplit_gtdef_length T nT
  rw [hh] at hgdef
  unfold lookupGo packedL SplitA.lookupA
  rw [getElem?_some_getD _ q hoff]
  simp only []
  generalize (PackA.packA (PackX.trySplit T nT).tab).off.getD q 0 + (a : Int) = o at *
  by_cases h0 : o < 0
  · rw [if_pos h0, if_pos h0]
  rw [if_neg h0, if_neg h0]
  by_cases hm : (o.toNat ≥ (PackA.packA (PackX.trySplit T nT).tab).check.length ||
      (PackA.packA (PackX.trySplit T nT).tab).check.getD o.toNat (-1) != (q : Int)) = true
  · rw [if_pos hm, if_pos hm]
    by_cases hc : a > nT
    · rw [if_pos hc, if_pos hc]
      exact getElem?_some_getD _ _ (by omega)
    · rw [if_neg hc, if_neg hc]
      exact getElem?_some_getD _ _ (by omega)
  · rw [if_neg hm, if_neg hm]
    have : ¬ o.toNat ≥ (PackA.packA (PackX.trySplit T nT).tab).check.length := by
      intro hge
      apply hm
      simp [hge]
    exact getElem?_some_getD _ _ (by omega)

/-- the parameters of the packed parser with Go's index checks in the lookup -/
def pparamsP (G : Grammar) (T : Dense) (n : Nat) (sem : Nat → List V → V) (eofVal : V) : Params V :=
  { L := lookupGo (PackA.packA (PackX.trySplit T G.nT).tab) (PackX.trySplit T G.nT) G.nT (errCode n),
    errC := errCode n, accC := accCode n,
    rule := fun r => if r = 0 then none else (G.rules[r]?).map (fun rl => (rl.lhs, rl.rhs.length)),
    sem := sem, eofVal := eofVal }

theorem lookupGo_agree {G : Grammar} {nS : Nat} {A : Auto} {T : Dense}
    (hG : gramWF G nS = true) (hT : certT G nS A T = true)
    (hW : SplitA.DenseWF T G.nT nS (errCode A.n) = true) :
    ∀ q a, q < A.n → a < nS →
      lookupGo (PackA.packA (PackX.trySplit T G.nT).tab) (PackX.trySplit T G.nT) G.nT (errCode A.n) q a
        = cell T q a := by
  obtain ⟨hlen, hrect⟩ := certT_shape hT
  intro q a hq ha
  rw [lookupGo_eq T G.nT nS (errCode A.n) hrect q a (by omega) ha]
  exact packedL_agree hG hT hW q a hq ha

/-- the run with Go's index checks is the dense run: no lookup of a run panics -/
theorem packedP_run_inv {G : Grammar} {nS : Nat} {A : Auto} {T : Dense} {w : List Sym}
    (sem : Nat → List V → V) (eofVal : V)
    (hG : gramWF G nS = true) (hA : certA G A = true) (hT : certT G nS A T = true)
    (hW : SplitA.DenseWF T G.nT nS (errCode A.n) = true) :
    ∀ (fuel : Nat) (c : Cfg V), Inv G A w c →
      run (pparamsP G T A.n sem eofVal) fuel c = run (dparams G T A.n sem eofVal) fuel c :=
  agree_run_inv sem eofVal hG hA hT _ (lookupGo_agree hG hT hW)

/-! ### from the array driver's outcome to the list driver's -/

open Y.AD in
theorem absOutcome_accept {o : AOutcome V} {v : V} {c' : Cfg V}
    (h : absOutcome o = some (.accept v c')) : ∃ c, o = .accept v c ∧ absCfg c = c' := by
  cases o with
  | accept v2 c =>
    simp only [absOutcome, Option.some.injEq, Outcome.accept.injEq] at h
    exact ⟨c, by rw [h.1], h.2⟩
  | syntaxError c => simp [absOutcome] at h
  | crash => simp [absOutcome] at h
  | outOfFuel => simp [absOutcome] at h
  | nil => simp [absOutcome] at h

/-! ### `DenseWF` for certified tables -/

/-- every state has an action cell (columns `0 … nT`) that is not the error code -/
def rowsLive (T : Dense) (nT : Nat) (err : Int) : Bool :=
  T.all fun r => (r.take (nT + 1)).any (· != err)

theorem cell_of_mem {T : Dense} {r : List Int} {x : Int} (hr : r ∈ T) (hx : x ∈ r) :
    ∃ q a, cell T q a = some x := by
  obtain ⟨q, hq, rfl⟩ := List.getElem_of_mem hr
  obtain ⟨a, ha, rfl⟩ := List.getElem_of_mem hx
  refine ⟨q, a, ?_⟩
  unfold cell
  rw [List.getElem?_eq_getElem hq]
  simp only [Option.bind_some]
  exact List.getElem?_eq_getElem ha

/-- a certified table has no cell 0 and its column 0 is the error code; so the criterion
    `DenseSimple` on the dense table reduces to `rowsLive` -/
theorem denseSimple_of_certT {G : Grammar} {nS : Nat} {A : Auto} {T : Dense}
    (hG : gramWF G nS = true) (hT : certT G nS A T = true)
    (hlive : rowsLive T G.nT (errCode A.n) = true) :
    SplitA.DenseSimple T G.nT (errCode A.n) = true := by
  have hG' := gramWF_ok hG
  have hT' := certT_ok hT
  obtain ⟨hlen, hrect⟩ := certT_shape hT
  unfold rowsLive at hlive
  unfold SplitA.DenseSimple
  simp only [List.all_eq_true, Bool.and_eq_true, bne_iff_ne, ne_eq, beq_iff_eq] at hlive ⊢
  intro r hr
  refine ⟨⟨?_, ?_⟩, hlive r hr⟩
  · intro x hx h0
    obtain ⟨q, a, hc⟩ := cell_of_mem hr hx
    subst h0
    have he : (0 : Int) ≠ errCode A.n := by unfold errCode; omega
    have hac : (0 : Int) ≠ accCode A.n := by unfold accCode; omega
    have := (hT'.red q a 0 hc he hac (by omega)).1
    simp at this
  · obtain ⟨q, hq, rfl⟩ := List.getElem_of_mem hr
    have hnS : 0 < nS := by have := hG'.nTS; omega
    have hc := cell_eq_getD T nS hrect q 0 hq hnS
    have hr' : T.getD q [] = T[q] := by
      rw [List.getD_eq_getElem?_getD, List.getElem?_eq_getElem hq]; rfl
    rw [hr'] at hc
    exact hT'.col0 q _ hc

theorem denseWF_of_certT {G : Grammar} {nS : Nat} {A : Auto} {T : Dense}
    (hG : gramWF G nS = true) (hT : certT G nS A T = true)
    (hlive : rowsLive T G.nT (errCode A.n) = true) :
    SplitA.DenseWF T G.nT nS (errCode A.n) = true :=
  SplitA.denseWF_of_simple PackX.findMax T G.nT nS (errCode A.n) (certT_shape hT).2
    (gramWF_ok hG).nTS (denseSimple_of_certT hG hT hlive)

end Y.D
