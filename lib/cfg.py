"""Independent reference algorithms over the grammar *as the implementation numbered it* (parsed from
the harness dump): rightmost-derivation replay, Earley recognition / viable prefixes, sentence
enumeration and sampling.  These are the oracles of the property predicates (DESIGN §3.4 step 4);
they share no code with the Lean model or with yaccgo."""
import itertools
import json
import random


_SIMPLE = {"a": "\a", "b": "\b", "f": "\f", "n": "\n", "r": "\r", "t": "\t", "v": "\v", "\\": "\\", '"': '"', "'": "'"}


def _unq(s):
    """undo Go's strconv.QuoteToASCII (the harness writes names and texts with it)"""
    s = s.strip()
    if not (len(s) >= 2 and s[0] == '"' and s[-1] == '"'):
        return s
    body = s[1:-1]
    out = []
    i = 0
    while i < len(body):
        ch = body[i]
        if ch != "\\":
            out.append(ch)
            i += 1
            continue
        e = body[i + 1] if i + 1 < len(body) else ""
        if e in _SIMPLE:
            out.append(_SIMPLE[e])
            i += 2
        elif e == "x":
            out.append(chr(int(body[i + 2:i + 4], 16)))
            i += 4
        elif e == "u":
            out.append(chr(int(body[i + 2:i + 6], 16)))
            i += 6
        elif e == "U":
            out.append(chr(int(body[i + 2:i + 10], 16)))
            i += 10
        elif e.isdigit():
            out.append(chr(int(body[i + 1:i + 4], 8)))
            i += 4
        else:
            out.append(e)
            i += 2
    return "".join(out)


class G:
    def __init__(self, impl_lines):
        self.nsyms = 0
        self.nT = 0
        self.syms = {}
        self.rules = []
        for l in impl_lines:
            f = l.split()
            if f[0] == "GRAMMAR":
                self.nsyms, self.nT = int(f[1]), int(f[2])
            elif f[0] == "SYM":
                g = l.split(" ", 8)
                self.syms[int(f[1])] = {"nt": f[2] == "1", "value": int(f[3]), "prec": int(f[4]), "assoc": int(f[5]),
                                        "nullable": f[6] == "1", "name": _unq(g[7]), "tag": _unq(g[8]) if len(g) > 8 else ""}
            elif f[0] == "RULE":
                self.rules.append((int(f[2]), [int(x) for x in f[4:]], int(f[3])))
        self.terms = list(range(2, self.nT + 1))
        self.start = self.rules[0][1][0] if self.rules and self.rules[0][1] else None
        self.by_lhs = {}
        for i, (l, r, _) in enumerate(self.rules):
            self.by_lhs.setdefault(l, []).append(i)

    def is_t(self, x):
        return 1 <= x <= self.nT

    # ---- rightmost derivation replay: reds in the order performed by the parser
    def check_rm_derivation(self, reds, w):
        """True iff reversing `reds` gives a rightmost derivation S =>* w (every step rewrites the rightmost nonterminal)."""
        sent = [self.start]
        for r in reversed(reds):
            if not (1 <= r < len(self.rules)):
                return False
            lhs, rhs, _ = self.rules[r]
            k = None
            for i in range(len(sent) - 1, -1, -1):
                if not self.is_t(sent[i]):
                    k = i
                    break
            if k is None or sent[k] != lhs:
                return False
            sent = sent[:k] + rhs + sent[k + 1:]
        return sent == list(w)

    # ---- Earley
    def _earley_sets(self, w):
        """returns list of item sets; item = (rule, dot, origin)"""
        n = len(w)
        S = [set() for _ in range(n + 1)]
        nullable = self.nullable_set()

        def close(k):
            work = list(S[k])
            while work:
                (r, d, o) = work.pop()
                rhs = self.rules[r][1]
                if d < len(rhs):
                    x = rhs[d]
                    if not self.is_t(x):
                        for r2 in self.by_lhs.get(x, []):
                            it = (r2, 0, k)
                            if it not in S[k]:
                                S[k].add(it)
                                work.append(it)
                        if x in nullable:
                            it = (r, d + 1, o)
                            if it not in S[k]:
                                S[k].add(it)
                                work.append(it)
                else:
                    lhs = self.rules[r][0]
                    for (r2, d2, o2) in list(S[o]):
                        rhs2 = self.rules[r2][1]
                        if d2 < len(rhs2) and rhs2[d2] == lhs:
                            it = (r2, d2 + 1, o2)
                            if it not in S[k]:
                                S[k].add(it)
                                work.append(it)
        S[0].add((0, 0, 0))
        close(0)
        for k in range(n):
            for (r, d, o) in S[k]:
                rhs = self.rules[r][1]
                if d < len(rhs) and rhs[d] == w[k]:
                    S[k + 1].add((r, d + 1, o))
            if not S[k + 1]:
                return S[:k + 2]
            close(k + 1)
        return S

    def nullable_set(self):
        if hasattr(self, "_nl"):
            return self._nl
        nl = set()
        ch = True
        while ch:
            ch = False
            for (l, r, _) in self.rules:
                if l not in nl and all(x in nl for x in r):
                    nl.add(l)
                    ch = True
        self._nl = nl
        return nl

    def productive_set(self):
        pr = set(range(1, self.nT + 1))
        ch = True
        while ch:
            ch = False
            for (l, r, _) in self.rules:
                if l not in pr and all(x in pr for x in r):
                    pr.add(l)
                    ch = True
        return pr

    def recognizes(self, w):
        if any(not (2 <= x <= self.nT) for x in w):
            return False
        S = self._earley_sets(list(w))
        if len(S) != len(w) + 1:
            return False
        return (0, 1, 0) in S[len(w)]

    def viable_len(self, w):
        """length of the longest prefix of w that can be extended to a sentence (all nonterminals productive assumed)"""
        ww = []
        for x in w:
            if not (2 <= x <= self.nT):
                break
            ww.append(x)
        S = self._earley_sets(ww)
        # S has k+1 sets when prefix of length k scanned with non-empty set; the last may be empty
        k = len(S) - 1
        if not S[k]:
            k -= 1
        return k

    # ---- sentences
    def min_lengths(self):
        INF = 10 ** 9
        ml = {x: (1 if self.is_t(x) else INF) for x in range(self.nsyms)}
        self.best = {}
        ch = True
        while ch:
            ch = False
            for i, (l, r, _) in enumerate(self.rules):
                s = sum(ml[x] for x in r)
                if s < ml[l]:
                    ml[l] = s
                    self.best[l] = i   # strictly decreasing: following `best` always terminates
                    ch = True
        return ml

    def sample_sentence(self, rng, max_len=14, budget=60):
        """random leftmost expansion with a budget; falls back to minimal expansions"""
        ml = self.min_lengths()
        if self.start is None or ml[self.start] > max_len:
            return None
        out = []
        stack = [self.start]
        steps = 0
        while stack:
            x = stack.pop()
            if self.is_t(x):
                out.append(x)
                if len(out) > max_len:
                    return None
                continue
            alts = self.by_lhs.get(x, [])
            if not alts:
                return None
            steps += 1
            if steps > budget * 20:
                return None
            if steps > budget:
                alts = [self.best[x]] if x in self.best else alts[:1]
            else:
                alts = [r for r in alts if sum(ml[y] for y in self.rules[r][1]) < 10 ** 9] or alts
            r = rng.choice(alts)
            for y in reversed(self.rules[r][1]):
                stack.append(y)
        return out

    def strings_upto(self, k, extra=(0,)):
        alpha = self.terms + list(extra)
        for n in range(k + 1):
            for t in itertools.product(alpha, repeat=n):
                yield list(t)


# ---------------------------------------------------------------- canonical LR(0) collection (reference)

def lr0_closure(g, kernel):
    items = set(kernel)
    work = list(kernel)
    while work:
        (r, d) = work.pop()
        rhs = g.rules[r][1]
        if d < len(rhs) and not g.is_t(rhs[d]):
            for r2 in g.by_lhs.get(rhs[d], []):
                if (r2, 0) not in items:
                    items.add((r2, 0))
                    work.append((r2, 0))
    return frozenset(items)


def lr0_collection(g, cap=2100):
    """returns (list of item sets, dict (index, symbol) -> index); state 0 first"""
    s0 = lr0_closure(g, [(0, 0)])
    states = [s0]
    index = {s0: 0}
    trans = {}
    i = 0
    while i < len(states) and len(states) < cap:
        by_sym = {}
        for (r, d) in states[i]:
            rhs = g.rules[r][1]
            if d < len(rhs):
                by_sym.setdefault(rhs[d], []).append((r, d + 1))
        for x, k in by_sym.items():
            t = lr0_closure(g, k)
            if t not in index:
                index[t] = len(states)
                states.append(t)
            trans[(i, x)] = index[t]
        i += 1
    return states, trans
