import Yv.Proofs.DComplete
import Yv.Props.C01
/-! # C02 — every sentence is accepted (completeness)

For every grammar, automaton, dense table, candidate nullable/first sets and lookahead table — all
given **as data** — that pass the decidable certificates

* `gramWF`, `certA`, `certT` (as for C01),
* `setsClosed` (the candidate sets are closed under the rules),
* `laClosed` (item sets and lookahead table are closed under LR(1) closure and goto, `$` on the start item),
* `certC` (every lookahead of a complete item holds its reduction / accept; every terminal after a
  dot holds the shift to the automaton's successor),
* `laTerm` (every stored lookahead symbol is a terminal),

the concrete driver `Y.D.run` on the dense table accepts **every** token sequence whose symbols are
derived from the start symbol `S₀` (`rules[0] = start' → S₀`), whatever the token values, the
semantic actions, the end-marker value and the bottom-of-stack value are. -/
namespace Y.Props
open Y Y.D

theorem C02_complete {V : Type} (G : Grammar) (nS : Nat) (A : Auto) (T : Dense) (S : Sets) (la : LATab)
    (sem : Nat → List V → V) (eofVal bv : V)
    (hG : gramWF G nS = true) (hA : certA G A = true) (hT : certT G nS A T = true)
    (hS : setsClosed G S = true) (hL : laClosed G S (toLAData A la) = true)
    (hC : certC G A la T = true) (hLT : laTerm G A la = true)
    (S₀ : Sym) (h0 : G.rules[0]? = some ⟨0, [S₀]⟩)
    (w : List (Sym × V)) (hw : GenL G [S₀] (w.map Prod.fst)) :
    ∃ fuel v c', run (dparams G T A.n sem eofVal) fuel (init bv w) = .accept v c' :=
  complete_run sem eofVal bv (gramWF_ok hG) (certA_ok hA) (certT_ok hT) hS hL hC hLT w ⟨0, [S₀]⟩ h0 hw

/-- the same, with the start symbol left implicit: sentences are the terminal strings derived from
    the body of rule 0 -/
theorem C02_complete_rhs0 {V : Type} (G : Grammar) (nS : Nat) (A : Auto) (T : Dense) (S : Sets) (la : LATab)
    (sem : Nat → List V → V) (eofVal bv : V)
    (hG : gramWF G nS = true) (hA : certA G A = true) (hT : certT G nS A T = true)
    (hS : setsClosed G S = true) (hL : laClosed G S (toLAData A la) = true)
    (hC : certC G A la T = true) (hLT : laTerm G A la = true)
    (w : List (Sym × V)) (hw : GenL G (G.rhsOf 0) (w.map Prod.fst)) :
    ∃ fuel v c', run (dparams G T A.n sem eofVal) fuel (init bv w) = .accept v c' := by
  obtain ⟨rl0, h0, _, _⟩ := (gramWF_ok hG).r0
  rw [rhsOf_eq h0] at hw
  exact complete_run sem eofVal bv (gramWF_ok hG) (certA_ok hA) (certT_ok hT) hS hL hC hLT w rl0 h0 hw

/-- C02 together with C01: the accepting run of a sentence performs a rightmost derivation of it,
    consumes every token and requests exactly `|w|+1` tokens -/
theorem C02_complete_sound {V : Type} (G : Grammar) (nS : Nat) (A : Auto) (T : Dense) (S : Sets) (la : LATab)
    (sem : Nat → List V → V) (eofVal bv : V)
    (hG : gramWF G nS = true) (hA : certA G A = true) (hT : certT G nS A T = true)
    (hS : setsClosed G S = true) (hL : laClosed G S (toLAData A la) = true)
    (hC : certC G A la T = true) (hLT : laTerm G A la = true)
    (S₀ : Sym) (h0 : G.rules[0]? = some ⟨0, [S₀]⟩)
    (w : List (Sym × V)) (hw : GenL G [S₀] (w.map Prod.fst))
    (hwT : ∀ t ∈ w, t.1 ≤ G.nT ∧ t.1 ≠ 1) :
    ∃ fuel v c', run (dparams G T A.n sem eofVal) fuel (init bv w) = .accept v c' ∧
      RmDer G [S₀] c'.reds (w.map Prod.fst) ∧ c'.rest = [] ∧ c'.req = w.length + 1 := by
  obtain ⟨fuel, v, c', hrun⟩ := C02_complete G nS A T S la sem eofVal bv hG hA hT hS hL hC hLT S₀ h0 w hw
  obtain ⟨rl0, hr0, _, hder, hrest, hreq⟩ := C01_sound G nS A T sem eofVal bv hG hA hT w hwT fuel v c' hrun
  rw [h0] at hr0; cases hr0
  exact ⟨fuel, v, c', hrun, hder, hrest, hreq⟩

/-! ## Non-vacuity: the example grammar `S' → S ; S → a S | b` of C01 with its 5-state automaton
    and table, candidate sets and LALR(1) lookaheads; all certificates evaluate to `true`, and the
    theorem applies to the sentence `a a b`. -/

def exS : Sets :=
  { nullable := fun _ => false,
    first := fun x => if x = 0 ∨ x = 4 then [2, 3] else if x ≤ 3 then [x] else [] }

def exLA : LATab :=
  { tab := [[(⟨0,0⟩, [1]), (⟨1,0⟩, [1]), (⟨2,0⟩, [1])],
            [(⟨0,1⟩, [1])],
            [(⟨1,0⟩, [1]), (⟨1,1⟩, [1]), (⟨2,0⟩, [1])],
            [(⟨2,1⟩, [1])],
            [(⟨1,2⟩, [1])]] }

example : gramWF exG 5 = true ∧ certA exG exA = true ∧ certT exG 5 exA exT = true ∧
    setsClosed exG exS = true ∧ laClosed exG exS (toLAData exA exLA) = true ∧
    certC exG exA exLA exT = true ∧ laTerm exG exA exLA = true := by decide

/-- `a a b` is a sentence of the example grammar -/
theorem ex_sentence : GenL exG [4] ([(2, ()), (2, ()), (3, ())].map Prod.fst) := by
  have hb : GenL exG [3] [3] := .tm 3 [] [] (by decide) .nil
  have hS1 : GenL exG [4] [3] := by
    simpa using GenL.nt (G := exG) 2 ⟨4, [3]⟩ [] [3] [] rfl hb .nil
  have hS2 : GenL exG [4] [2, 3] := by
    have hbody : GenL exG [2, 4] [2, 3] := .tm 2 [4] [3] (by decide) hS1
    simpa using GenL.nt (G := exG) 1 ⟨4, [2, 4]⟩ [] [2, 3] [] rfl hbody .nil
  have hbody : GenL exG [2, 4] [2, 2, 3] := .tm 2 [4] [2, 3] (by decide) hS2
  simpa using GenL.nt (G := exG) 1 ⟨4, [2, 4]⟩ [] [2, 2, 3] [] rfl hbody .nil

example : ∃ fuel v c', run (dparams (V := Unit) exG exT exA.n (fun _ _ => ()) ()) fuel
    (init () [(2, ()), (2, ()), (3, ())]) = .accept v c' :=
  C02_complete exG 5 exA exT exS exLA (fun _ _ => ()) () ()
    (by decide) (by decide) (by decide) (by decide) (by decide) (by decide) (by decide)
    4 rfl _ ex_sentence

end Y.Props
