import Yv.Model.Listing
import Yv.Model.ListingDrv
import Yv.Props.C18
/-! # C18 (text half) — the state listing of `yaccgo debug` shows exactly the automaton

`listingView names G A` (Yv/Model/Listing.lean) is the listing that `Grammar.Show` prints for the item
collections `A`, kept structured: per state its number, its item lines and its goto lines.
`laLineStr` is a line of the `Show LookAhead SET` section.

* `C18_listing_states` — nothing extra, nothing missing, numbered as in the tables: one entry per state
  in order; entry `q` lists the items of state `q` and the gotos of state `q`, in their stored order.
* `list_item_str_injective`, `list_goto_str_injective`, `la_line_injective` — the lines determine what
  they print.  Hypotheses on the spellings, all explicit:
  - item line: injective, no blank in a name;
  - goto line: injective;
  - lookahead line: injective, no blank in a name, no name is exactly `":"`.
  (No condition on `@`, `-`, `>`: a name is always printed between two blanks, the dot never is.)
* `C18_listing_determines` — two automata with the same listing have the same states with the same
  items and the same goto lists.
* `C18_listing_la` — a lookahead line is in the section iff its entry is. -/
namespace Y.Props
open Y

/-! ## the view -/

/-- the entry of state `q` -/
def listStateOf (names : Nat → String) (G : Grammar) (A : Auto) (q : Nat) : ListState :=
  { state := q,
    items := (A.its q).map (listItemStr names G),
    gotos := (A.gts q).map (listGotoStr names) }

theorem listingView_eq (names : Nat → String) (G : Grammar) (A : Auto) :
    listingView names G A = (List.range A.n).map (listStateOf names G A) := rfl

theorem listingView_get (names : Nat → String) (G : Grammar) (A : Auto) (q : Nat) (hq : q < A.n) :
    (listingView names G A)[q]? = some (listStateOf names G A q) := by
  rw [listingView_eq, List.getElem?_map, List.getElem?_range hq]; rfl

/-- **C18, listing: nothing extra, nothing missing, numbered as in the tables.**  The listing has exactly
    one entry per state, in order, numbered `0 … n-1`; entry `q` lists exactly the items of state `q`, in
    order, each printed as `ShowCloure` prints it, and exactly the gotos of state `q`, in stored order. -/
theorem C18_listing_states (names : Nat → String) (G : Grammar) (A : Auto) :
    (listingView names G A).map (·.state) = List.range A.n ∧
    (listingView names G A).length = A.n ∧
    ∀ q, q < A.n → ∃ st, (listingView names G A)[q]? = some st ∧ st.state = q ∧
      st.items = (A.its q).map (listItemStr names G) ∧
      st.gotos = (A.gts q).map (listGotoStr names) := by
  refine ⟨?_, by simp [listingView_eq], ?_⟩
  · rw [listingView_eq, List.map_map]
    conv => rhs; rw [← List.map_id (List.range A.n)]
    rfl
  · intro q hq
    exact ⟨listStateOf names G A q, listingView_get names G A q hq, rfl, rfl, rfl⟩

/-! ## characters -/

/-- the characters of `symsStr` -/
def symsL (names : Nat → String) : List Sym → List Char
  | [] => []
  | x :: xs => ' ' :: ((names x).toList ++ ' ' :: symsL names xs)

/-- the characters of `laStr` -/
def laL (names : Nat → String) : List Sym → List Char
  | [] => []
  | a :: as => ' ' :: ((names a).toList ++ laL names as)

theorem blank_toList : " ".toList = [' '] := by decide

theorem symsStr_toList (names : Nat → String) : ∀ xs, (symsStr names xs).toList = symsL names xs := by
  intro xs
  induction xs with
  | nil => rfl
  | cons x xs ih =>
    rw [symsStr, symsL, String.toList_append, String.toList_append, String.toList_append, ih, blank_toList]
    simp

theorem laStr_toList (names : Nat → String) : ∀ xs, (laStr names xs).toList = laL names xs := by
  intro xs
  induction xs with
  | nil => rfl
  | cons x xs ih =>
    rw [laStr, laL, String.toList_append, String.toList_append, ih, blank_toList]
    simp

theorem symsL_head (names : Nat → String) (xs : List Sym) : ∀ c ∈ (symsL names xs).head?, c = ' ' := by
  intro c hc
  cases xs with
  | nil => simp [symsL] at hc
  | cons x xs => simp [symsL] at hc; exact hc.symm

theorem laL_head (names : Nat → String) (xs : List Sym) : ∀ c ∈ (laL names xs).head?, c = ' ' := by
  intro c hc
  cases xs with
  | nil => simp [laL] at hc
  | cons x xs => simp [laL] at hc; exact hc.symm

/-- the symbols before a `@` (symbols are printed between blanks, so the first non-blank chunk start is
    the dot) -/
theorem symsL_at_inj (names : Nat → String) (hinj : ∀ a b, names a = names b → a = b)
    (hnb : ∀ x, ∀ c ∈ (names x).toList, ¬ c = ' ') :
    ∀ (xs ys : List Sym) (u u' : List Char),
      symsL names xs ++ '@' :: u = symsL names ys ++ '@' :: u' → xs = ys ∧ u = u' := by
  intro xs
  induction xs with
  | nil =>
    intro ys u u' h
    cases ys with
    | nil => exact ⟨rfl, (List.cons.inj h).2⟩
    | cons y ys => exact absurd (List.cons.inj h).1 (by decide)
  | cons x xs ih =>
    intro ys u u' h
    cases ys with
    | nil => exact absurd (List.cons.inj h).1 (by decide)
    | cons y ys =>
      simp only [symsL, List.cons_append, List.append_assoc, List.cons.injEq, true_and] at h
      obtain ⟨hn, ht⟩ := split_sep (· = ' ') _ _ _ _ (hnb x) (hnb y) (by simp) (by simp) h
      obtain ⟨h1, h2⟩ := ih ys u u' (List.cons.inj ht).2
      exact ⟨by rw [hinj _ _ (String.toList_inj.1 hn), h1], h2⟩

theorem symsL_inj (names : Nat → String) (hinj : ∀ a b, names a = names b → a = b)
    (hnb : ∀ x, ∀ c ∈ (names x).toList, ¬ c = ' ') (xs ys : List Sym)
    (h : symsL names xs = symsL names ys) : xs = ys :=
  (symsL_at_inj names hinj hnb xs ys [] [] (by rw [h])).1

theorem laL_inj (names : Nat → String) (hinj : ∀ a b, names a = names b → a = b)
    (hnb : ∀ x, ∀ c ∈ (names x).toList, ¬ c = ' ') :
    ∀ (xs ys : List Sym), laL names xs = laL names ys → xs = ys := by
  intro xs
  induction xs with
  | nil =>
    intro ys h
    cases ys with
    | nil => rfl
    | cons y ys => cases h
  | cons x xs ih =>
    intro ys h
    cases ys with
    | nil => cases h
    | cons y ys =>
      simp only [laL, List.cons.injEq, true_and] at h
      obtain ⟨hn, ht⟩ := split_sep (· = ' ') _ _ _ _ (hnb x) (hnb y) (laL_head _ _) (laL_head _ _) h
      rw [hinj _ _ (String.toList_inj.1 hn), ih ys ht]

/-- blank-free `a` stays blank-free when a blank-free literal is appended -/
theorem nb_app (a l : List Char) (ha : ∀ c ∈ a, ¬ c = ' ') (hl : ∀ c ∈ l, ¬ c = ' ') :
    ∀ c ∈ a ++ l, ¬ c = ' ' := by
  intro c hc
  rcases List.mem_append.1 hc with h | h
  · exact ha c h
  · exact hl c h

/-! ## the item line -/

theorem listItemStr_toList (names : Nat → String) (G : Grammar) (it : Item) :
    (listItemStr names G it).toList = (names (G.lhsOf it.r)).toList ++ ('-' :: '-' :: '>' ::
      (symsL names ((G.rhsOf it.r).take it.d) ++ '@' :: symsL names ((G.rhsOf it.r).drop it.d))) := by
  unfold listItemStr
  rw [String.toList_append, String.toList_append, String.toList_append, String.toList_append,
    symsStr_toList, symsStr_toList]
  have e1 : "-->".toList = ['-', '-', '>'] := by decide
  have e2 : "@".toList = ['@'] := by decide
  rw [e1, e2]
  simp

/-- splitting `lhs-->…@…` at the left-hand side: the first blank follows either `-->` or `-->@` -/
theorem lhs_split (names : Nat → String) (a b : List Char)
    (ha : ∀ c ∈ a, ¬ c = ' ') (hb : ∀ c ∈ b, ¬ c = ' ') (xs ys zs ws : List Sym)
    (h : a ++ ('-' :: '-' :: '>' :: (symsL names xs ++ '@' :: symsL names zs)) =
         b ++ ('-' :: '-' :: '>' :: (symsL names ys ++ '@' :: symsL names ws))) :
    a = b ∧ symsL names xs ++ '@' :: symsL names zs = symsL names ys ++ '@' :: symsL names ws := by
  have l3 : ∀ c ∈ ['-', '-', '>'], ¬ c = ' ' := by decide
  have l4 : ∀ c ∈ ['-', '-', '>', '@'], ¬ c = ' ' := by decide
  cases xs with
  | nil =>
    cases ys with
    | nil =>
      have h' : (a ++ ['-', '-', '>', '@']) ++ symsL names zs =
          (b ++ ['-', '-', '>', '@']) ++ symsL names ws := by simpa [symsL] using h
      obtain ⟨h1, h2⟩ := split_sep (· = ' ') _ _ _ _ (nb_app _ _ ha l4) (nb_app _ _ hb l4)
        (symsL_head _ _) (symsL_head _ _) h'
      exact ⟨List.append_cancel_right h1, by rw [h2]⟩
    | cons y ys =>
      exfalso
      have h' : (a ++ ['-', '-', '>', '@']) ++ symsL names zs =
          (b ++ ['-', '-', '>']) ++ (symsL names (y :: ys) ++ '@' :: symsL names ws) := by
        simpa [symsL] using h
      have h1 := (split_sep (· = ' ') _ _ _ _ (nb_app _ _ ha l4) (nb_app _ _ hb l3)
        (symsL_head _ _) (by simp [symsL]) h').1
      have := congrArg List.reverse h1
      simp at this
  | cons x xs =>
    cases ys with
    | nil =>
      exfalso
      have h' : (a ++ ['-', '-', '>']) ++ (symsL names (x :: xs) ++ '@' :: symsL names zs) =
          (b ++ ['-', '-', '>', '@']) ++ symsL names ws := by
        simpa [symsL] using h
      have h1 := (split_sep (· = ' ') _ _ _ _ (nb_app _ _ ha l3) (nb_app _ _ hb l4)
        (by simp [symsL]) (symsL_head _ _) h').1
      have := congrArg List.reverse h1
      simp at this
    | cons y ys =>
      have h' : (a ++ ['-', '-', '>']) ++ (symsL names (x :: xs) ++ '@' :: symsL names zs) =
          (b ++ ['-', '-', '>']) ++ (symsL names (y :: ys) ++ '@' :: symsL names ws) := by
        simpa using h
      obtain ⟨h1, h2⟩ := split_sep (· = ' ') _ _ _ _ (nb_app _ _ ha l3) (nb_app _ _ hb l3)
        (by simp [symsL]) (by simp [symsL]) h'
      exact ⟨List.append_cancel_right h1, h2⟩

/-- the item line determines the item's content: the left-hand side, the right-hand side and the
    position of the dot — for spellings that are injective and contain no blank -/
theorem list_item_str_injective (names : Nat → String) (G : Grammar)
    (hinj : ∀ a b, names a = names b → a = b)
    (hnb : ∀ x, ∀ c ∈ (names x).toList, ¬ c = ' ')
    (it it' : Item) (hd : it.d ≤ (G.rhsOf it.r).length) (hd' : it'.d ≤ (G.rhsOf it'.r).length)
    (h : listItemStr names G it = listItemStr names G it') :
    G.lhsOf it.r = G.lhsOf it'.r ∧ G.rhsOf it.r = G.rhsOf it'.r ∧ it.d = it'.d := by
  have h1 := congrArg String.toList h
  rw [listItemStr_toList, listItemStr_toList] at h1
  obtain ⟨hl, ht⟩ := lhs_split names _ _ (hnb _) (hnb _) _ _ _ _ h1
  obtain ⟨hpre, hpost⟩ := symsL_at_inj names hinj hnb _ _ _ _ ht
  have hpost := symsL_inj names hinj hnb _ _ hpost
  refine ⟨hinj _ _ (String.toList_inj.1 hl), ?_, ?_⟩
  · rw [← List.take_append_drop it.d (G.rhsOf it.r), ← List.take_append_drop it'.d (G.rhsOf it'.r),
      hpre, hpost]
  · have := congrArg List.length hpre
    rw [List.length_take, List.length_take] at this
    omega

/-- with distinct rules, the item line determines the item -/
theorem list_item_str_injective' (names : Nat → String) (G : Grammar)
    (hinj : ∀ a b, names a = names b → a = b)
    (hnb : ∀ x, ∀ c ∈ (names x).toList, ¬ c = ' ')
    (hnd : G.rules.Nodup)
    (it it' : Item) (hr : it.r < G.rules.length) (hr' : it'.r < G.rules.length)
    (hd : it.d ≤ (G.rhsOf it.r).length) (hd' : it'.d ≤ (G.rhsOf it'.r).length)
    (h : listItemStr names G it = listItemStr names G it') : it = it' := by
  obtain ⟨h1, h2, h3⟩ := list_item_str_injective names G hinj hnb it it' hd hd' h
  have e : G.rules[it.r]? = G.rules[it'.r]? := by
    unfold Grammar.lhsOf at h1
    unfold Grammar.rhsOf at h2
    rw [List.getElem?_eq_getElem hr, List.getElem?_eq_getElem hr'] at h1 h2 ⊢
    simp only at h1 h2
    congr 1
    cases hx : G.rules[it.r]; cases hy : G.rules[it'.r]
    rw [hx, hy] at h1 h2
    simp only at h1 h2
    rw [h1, h2]
  have := (List.getElem?_inj hr hnd).1 e
  cases it; cases it'
  simp only at this h3
  rw [this, h3]

/-! ## the goto line -/

theorem listGotoStr_toList (names : Nat → String) (e : Sym × Nat) :
    (listGotoStr names e).toList = ['a', 't', ' '] ++ ((names e.1).toList ++
      ([' ', 'g', 'o', 't', 'o', ' '] ++ (Nat.toDigits 10 e.2 ++ [' ']))) := by
  unfold listGotoStr
  rw [String.toList_append, String.toList_append, String.toList_append, String.toList_append,
    Nat.toString_eq_repr, Nat.toList_repr, blank_toList]
  have e1 : "at ".toList = ['a', 't', ' '] := by decide
  have e2 : " goto ".toList = [' ', 'g', 'o', 't', 'o', ' '] := by decide
  rw [e1, e2]
  simp

theorem digits_nb (n : Nat) : ∀ c ∈ (Nat.toDigits 10 n).reverse, ¬ c = ' ' := by
  intro c hc e
  subst e
  have := Nat.isDigit_of_mem_toDigits (by decide) (by decide) (List.mem_reverse.1 hc)
  exact absurd this (by decide)

/-- the goto line determines the symbol and the target state (read from the right end: the digits of
    the target, then ` goto `, then the name — no condition on the characters of the names) -/
theorem list_goto_str_injective (names : Nat → String) (hinj : ∀ a b, names a = names b → a = b)
    (e e' : Sym × Nat) (h : listGotoStr names e = listGotoStr names e') : e = e' := by
  obtain ⟨a, p⟩ := e
  obtain ⟨a', p'⟩ := e'
  have h1 := congrArg String.toList h
  rw [listGotoStr_toList, listGotoStr_toList] at h1
  have h2 := List.append_cancel_left h1
  simp only [← List.append_assoc] at h2
  have h3 := congrArg List.reverse (List.append_cancel_right h2)
  simp only [List.reverse_append, List.append_assoc] at h3
  obtain ⟨hdg, ht⟩ := split_sep (· = ' ') _ _ _ _ (digits_nb p) (digits_nb p') (by simp) (by simp) h3
  have hp : p = p' := toDigits_inj _ _ (List.reverse_inj.1 hdg)
  have ha : a = a' := hinj _ _ (String.toList_inj.1 (List.reverse_inj.1 (List.append_cancel_left ht)))
  rw [hp, ha]

/-! ## the lookahead line -/

theorem laLineStr_toList (names : Nat → String) (G : Grammar) (q r : Nat) (la : List Sym) :
    (laLineStr names G q r la).toList = Nat.toDigits 10 q ++ (':' :: ((names (G.lhsOf r)).toList ++
      ('-' :: '-' :: '>' :: (symsL names (G.rhsOf r) ++ (' ' :: ':' :: ' ' :: laL names la))))) := by
  unfold laLineStr
  rw [String.toList_append, String.toList_append, String.toList_append, String.toList_append,
    String.toList_append, String.toList_append, symsStr_toList, laStr_toList,
    Nat.toString_eq_repr, Nat.toList_repr]
  have e1 : "-->".toList = ['-', '-', '>'] := by decide
  have e2 : ":".toList = [':'] := by decide
  have e3 : " : ".toList = [' ', ':', ' '] := by decide
  rw [e1, e2, e3]
  simp

theorem digits_nc (n : Nat) : ∀ c ∈ Nat.toDigits 10 n, ¬ c = ':' := by
  intro c hc e
  subst e
  have := Nat.isDigit_of_mem_toDigits (by decide) (by decide) hc
  exact absurd this (by decide)

theorem colon_toList : ":".toList = [':'] := by decide

/-- the right-hand side and the lookaheads of a lookahead line: the separator ` : ` is told from a
    right-hand-side symbol because no symbol is spelt `:` -/
theorem laR_inj (names : Nat → String) (hinj : ∀ a b, names a = names b → a = b)
    (hnb : ∀ x, ∀ c ∈ (names x).toList, ¬ c = ' ') (hcolon : ∀ x, names x ≠ ":") :
    ∀ (xs ys : List Sym) (la la' : List Sym),
      symsL names xs ++ (' ' :: ':' :: ' ' :: laL names la) =
        symsL names ys ++ (' ' :: ':' :: ' ' :: laL names la') → xs = ys ∧ la = la' := by
  have key : ∀ (y : Sym) (t t' : List Char),
      ' ' :: ':' :: ' ' :: t = ' ' :: ((names y).toList ++ ' ' :: t') → False := by
    intro y t t' h
    have h := (List.cons.inj h).2
    have := (split_sep (· = ' ') [':'] (names y).toList (' ' :: t) (' ' :: t') (by decide) (hnb y)
      (by simp) (by simp) h).1
    rw [← colon_toList] at this
    exact hcolon y (String.toList_inj.1 this).symm
  intro xs
  induction xs with
  | nil =>
    intro ys la la' h
    cases ys with
    | nil =>
      simp only [symsL, List.nil_append, List.cons.injEq, true_and] at h
      exact ⟨rfl, laL_inj names hinj hnb _ _ h⟩
    | cons y ys =>
      simp only [symsL, List.nil_append, List.cons_append, List.append_assoc] at h
      exact (key y _ _ h).elim
  | cons x xs ih =>
    intro ys la la' h
    cases ys with
    | nil =>
      simp only [symsL, List.nil_append, List.cons_append, List.append_assoc] at h
      exact (key x _ _ h.symm).elim
    | cons y ys =>
      simp only [symsL, List.cons_append, List.append_assoc, List.cons.injEq, true_and] at h
      obtain ⟨hn, ht⟩ := split_sep (· = ' ') _ _ _ _ (hnb x) (hnb y) (by simp) (by simp) h
      obtain ⟨h1, h2⟩ := ih ys la la' (List.cons.inj ht).2
      exact ⟨by rw [hinj _ _ (String.toList_inj.1 hn), h1], h2⟩

theorem laR_head (names : Nat → String) (xs : List Sym) (t : List Char) :
    ∀ c ∈ (symsL names xs ++ ' ' :: t).head?, c = ' ' := by
  intro c hc
  cases xs with
  | nil => simp [symsL] at hc; exact hc.symm
  | cons x xs => simp [symsL] at hc; exact hc.symm

/-- the lookahead line determines the state, the content of the rule (left-hand side and right-hand
    side) and the list of lookahead symbols — for spellings that are injective, contain no blank, and of
    which none is exactly `:` -/
theorem la_line_injective (names : Nat → String) (G : Grammar)
    (hinj : ∀ a b, names a = names b → a = b)
    (hnb : ∀ x, ∀ c ∈ (names x).toList, ¬ c = ' ')
    (hcolon : ∀ x, names x ≠ ":")
    (q q' r r' : Nat) (la la' : List Sym)
    (h : laLineStr names G q r la = laLineStr names G q' r' la') :
    q = q' ∧ G.lhsOf r = G.lhsOf r' ∧ G.rhsOf r = G.rhsOf r' ∧ la = la' := by
  have h1 := congrArg String.toList h
  rw [laLineStr_toList, laLineStr_toList] at h1
  obtain ⟨hq, ht⟩ := split_sep (· = ':') _ _ _ _ (digits_nc q) (digits_nc q') (by simp) (by simp) h1
  have ht := (List.cons.inj ht).2
  have l3 : ∀ c ∈ ['-', '-', '>'], ¬ c = ' ' := by decide
  have h' : ((names (G.lhsOf r)).toList ++ ['-', '-', '>']) ++
        (symsL names (G.rhsOf r) ++ (' ' :: ':' :: ' ' :: laL names la)) =
      ((names (G.lhsOf r')).toList ++ ['-', '-', '>']) ++
        (symsL names (G.rhsOf r') ++ (' ' :: ':' :: ' ' :: laL names la')) := by
    simpa using ht
  obtain ⟨hl, hr⟩ := split_sep (· = ' ') _ _ _ _ (nb_app _ _ (hnb _) l3) (nb_app _ _ (hnb _) l3)
    (laR_head _ _ _) (laR_head _ _ _) h'
  obtain ⟨hrhs, hla⟩ := laR_inj names hinj hnb hcolon _ _ _ _ hr
  exact ⟨toDigits_inj _ _ hq, hinj _ _ (String.toList_inj.1 (List.append_cancel_right hl)), hrhs, hla⟩

/-- with distinct rules, the lookahead line determines its entry -/
theorem la_line_injective' (names : Nat → String) (G : Grammar)
    (hinj : ∀ a b, names a = names b → a = b)
    (hnb : ∀ x, ∀ c ∈ (names x).toList, ¬ c = ' ')
    (hcolon : ∀ x, names x ≠ ":") (hnd : G.rules.Nodup)
    (q q' r r' : Nat) (la la' : List Sym) (hr : r < G.rules.length) (hr' : r' < G.rules.length)
    (h : laLineStr names G q r la = laLineStr names G q' r' la') :
    q = q' ∧ r = r' ∧ la = la' := by
  obtain ⟨hq, h1, h2, hla⟩ := la_line_injective names G hinj hnb hcolon q q' r r' la la' h
  refine ⟨hq, ?_, hla⟩
  have e : G.rules[r]? = G.rules[r']? := by
    unfold Grammar.lhsOf at h1
    unfold Grammar.rhsOf at h2
    rw [List.getElem?_eq_getElem hr, List.getElem?_eq_getElem hr'] at h1 h2 ⊢
    simp only at h1 h2
    congr 1
    cases hx : G.rules[r]; cases hy : G.rules[r']
    rw [hx, hy] at h1 h2
    simp only at h1 h2
    rw [h1, h2]
  exact (List.getElem?_inj hr hnd).1 e

/-- **C18, lookahead section.**  The section printed for the entries `L` (in whatever order) consists of
    exactly one line per entry, and — for distinct rules and clean spellings — the line of
    `(q, r, la)` is in the section iff `(q, r, la)` is an entry: nothing extra, nothing missing. -/
theorem C18_listing_la (names : Nat → String) (G : Grammar)
    (hinj : ∀ a b, names a = names b → a = b)
    (hnb : ∀ x, ∀ c ∈ (names x).toList, ¬ c = ' ')
    (hcolon : ∀ x, names x ≠ ":") (hnd : G.rules.Nodup)
    (L : List (Nat × Nat × List Sym)) (hL : ∀ e ∈ L, e.2.1 < G.rules.length) :
    (laView names G L).length = L.length ∧
    (∀ l, l ∈ laView names G L ↔ ∃ e ∈ L, l = laLineStr names G e.1 e.2.1 e.2.2) ∧
    ∀ q r la, r < G.rules.length → (laLineStr names G q r la ∈ laView names G L ↔ (q, r, la) ∈ L) := by
  refine ⟨by simp [laView], ?_, ?_⟩
  · intro l
    unfold laView
    rw [List.mem_map]
    constructor
    · rintro ⟨e, he, hl⟩; exact ⟨e, he, hl.symm⟩
    · rintro ⟨e, he, hl⟩; exact ⟨e, he, hl.symm⟩
  · intro q r la hr
    unfold laView
    rw [List.mem_map]
    constructor
    · rintro ⟨⟨q', r', la'⟩, he, hl⟩
      obtain ⟨h1, h2, h3⟩ := la_line_injective' names G hinj hnb hcolon hnd q' q r' r la' la
        (hL _ he) hr hl
      rw [← h1, ← h2, ← h3]; exact he
    · intro he; exact ⟨(q, r, la), he, rfl⟩

/-! ## the listing determines the automaton -/

theorem gts_eq_getElem (A : Auto) (q : Nat) (hq : q < A.gotos.length) :
    A.gotos[q]? = some (A.gts q) := by
  unfold Auto.gts
  rw [List.getD_eq_getElem?_getD, List.getElem?_eq_getElem hq]; rfl

/-- **C18, listing: the listing determines the automaton.**  Two automata with the same listing (for
    spellings that are injective and contain no blank; distinct rules; items that are items of the
    grammar) have the same number of states, the same states with the same items, and in every state the
    same goto list (same symbols, same targets, same order). -/
theorem C18_listing_determines (names : Nat → String) (G : Grammar) (A A' : Auto)
    (hinj : ∀ a b, names a = names b → a = b)
    (hnb : ∀ x, ∀ c ∈ (names x).toList, ¬ c = ' ')
    (hnd : G.rules.Nodup)
    (hval : ∀ q, ∀ it ∈ A.its q, it.r < G.rules.length ∧ it.d ≤ (G.rhsOf it.r).length)
    (hval' : ∀ q, ∀ it ∈ A'.its q, it.r < G.rules.length ∧ it.d ≤ (G.rhsOf it.r).length)
    (h : listingView names G A = listingView names G A') :
    A.n = A'.n ∧ A.items = A'.items ∧ (∀ q, q < A.n → A.its q = A'.its q) ∧
    (∀ q, q < A.n → A.gts q = A'.gts q) := by
  have hn : A.n = A'.n := by
    have := congrArg List.length h
    simpa [listingView_eq] using this
  have hq : ∀ q, q < A.n → listStateOf names G A q = listStateOf names G A' q := by
    intro q hq
    have := congrArg (fun l => l[q]?) h
    simp only [listingView_get names G A q hq, listingView_get names G A' q (hn ▸ hq),
      Option.some.injEq] at this
    exact this
  have hits : ∀ q, q < A.n → A.its q = A'.its q := by
    intro q hlt
    have := congrArg ListState.items (hq q hlt)
    apply map_inj_on (listItemStr names G) _ _ _ this
    intro x hx y hy hxy
    exact list_item_str_injective' names G hinj hnb hnd x y (hval q x hx).1 (hval' q y hy).1
      (hval q x hx).2 (hval' q y hy).2 hxy
  refine ⟨hn, ?_, hits, ?_⟩
  · apply List.ext_getElem?
    intro q
    by_cases hlt : q < A.n
    · rw [its_eq_getElem A q hlt, its_eq_getElem A' q (hn ▸ hlt), hits q hlt]
    · rw [List.getElem?_eq_none (by unfold Auto.n at hlt; omega),
        List.getElem?_eq_none (by unfold Auto.n at hlt hn; omega)]
  · intro q hlt
    have := congrArg ListState.gotos (hq q hlt)
    exact map_inj_on (listGotoStr names) _ _
      (fun x _ y _ hxy => list_goto_str_injective names hinj x y hxy) this

/-- … and so, when both carry one goto list per state (as `certA` checks), they are the same automaton -/
theorem C18_listing_determines_auto (names : Nat → String) (G : Grammar) (A A' : Auto)
    (hinj : ∀ a b, names a = names b → a = b)
    (hnb : ∀ x, ∀ c ∈ (names x).toList, ¬ c = ' ')
    (hnd : G.rules.Nodup)
    (hval : ∀ q, ∀ it ∈ A.its q, it.r < G.rules.length ∧ it.d ≤ (G.rhsOf it.r).length)
    (hval' : ∀ q, ∀ it ∈ A'.its q, it.r < G.rules.length ∧ it.d ≤ (G.rhsOf it.r).length)
    (hg : A.gotos.length = A.n) (hg' : A'.gotos.length = A'.n)
    (h : listingView names G A = listingView names G A') : A = A' := by
  obtain ⟨hn, hi, _, hgt⟩ := C18_listing_determines names G A A' hinj hnb hnd hval hval' h
  have : A.gotos = A'.gotos := by
    apply List.ext_getElem?
    intro q
    by_cases hlt : q < A.n
    · rw [gts_eq_getElem A q (by omega), gts_eq_getElem A' q (by omega), hgt q hlt]
    · rw [List.getElem?_eq_none (by omega), List.getElem?_eq_none (by omega)]
  cases A; cases A'
  simp only at hi this
  rw [hi, this]

/-- conversely the listing depends only on the item lists and the goto lists of the states -/
theorem C18_listing_determined (names : Nat → String) (G : Grammar) (A A' : Auto)
    (hi : A.items = A'.items) (hg : ∀ q, q < A.n → A.gts q = A'.gts q) :
    listingView names G A = listingView names G A' := by
  have hn : A.n = A'.n := by unfold Auto.n; rw [hi]
  rw [listingView_eq, listingView_eq, ← hn]
  apply List.map_congr_left
  intro q hq
  have hq := List.mem_range.1 hq
  unfold listStateOf Auto.its
  rw [hi, hg q hq]

/-- membership form: for clean spellings, an item line / a goto line is listed in entry `q` iff the
    item / the goto belongs to state `q` -/
theorem C18_listing_mem (names : Nat → String) (G : Grammar) (A : Auto)
    (hinj : ∀ a b, names a = names b → a = b)
    (hnb : ∀ x, ∀ c ∈ (names x).toList, ¬ c = ' ')
    (hnd : G.rules.Nodup)
    (hval : ∀ q, ∀ it ∈ A.its q, it.r < G.rules.length ∧ it.d ≤ (G.rhsOf it.r).length)
    (q : Nat) (hq : q < A.n) :
    ∃ st, (listingView names G A)[q]? = some st ∧
      (∀ it : Item, it.r < G.rules.length → it.d ≤ (G.rhsOf it.r).length →
        (listItemStr names G it ∈ st.items ↔ it ∈ A.its q)) ∧
      (∀ e : Sym × Nat, listGotoStr names e ∈ st.gotos ↔ e ∈ A.gts q) := by
  refine ⟨listStateOf names G A q, listingView_get names G A q hq, ?_, ?_⟩
  · intro it hr hd
    show _ ∈ (A.its q).map (listItemStr names G) ↔ _
    rw [List.mem_map]
    constructor
    · rintro ⟨it', hm, hs⟩
      rw [← list_item_str_injective' names G hinj hnb hnd it' it (hval q it' hm).1 hr
        (hval q it' hm).2 hd hs]
      exact hm
    · intro hm; exact ⟨it, hm, rfl⟩
  · intro e
    show _ ∈ (A.gts q).map (listGotoStr names) ↔ _
    rw [List.mem_map]
    constructor
    · rintro ⟨e', hm, hs⟩
      rw [← list_goto_str_injective names hinj e' e hs]; exact hm
    · intro hm; exact ⟨e, hm, rfl⟩

/-! ## the driver entry point prints the verified view -/

theorem listingLines_fst (names : Array String) (G : Grammar) (states : Array (List (Nat × Nat)))
    (gotos : Array (List (Nat × Nat))) (la : Array (Nat × Nat × List Nat)) :
    (listingLines names G states gotos la).1 =
      (listingView (namesOf names) G (autoOf states gotos)).flatMap stateLines := rfl

theorem listingLines_snd (names : Array String) (G : Grammar) (states : Array (List (Nat × Nat)))
    (gotos : Array (List (Nat × Nat))) (la : Array (Nat × Nat × List Nat)) :
    (listingLines names G states gotos la).2 =
      la.toList.map fun e => laLineStr (namesOf names) G e.1 e.2.1 e.2.2 := rfl

/-! ## Non-vacuity: the listing of the example automaton of C01
    (`S' → S ; S → a S | b`, symbols `$`=1, `a`=2, `b`=3, `S`=4), with the spellings `exNames` -/

example : (listingView exNames exG exA)[2]? =
    some ⟨2, ["S-->@ a  S ", "S--> a @ S ", "S-->@ b "], ["at a goto 2 ", "at S goto 4 ", "at b goto 3 "]⟩ := by
  decide
example : (listingView exNames exG exA).map (·.state) = [0, 1, 2, 3, 4] := by decide

/-- a three-state automaton (states 0, 1, 3 of the example, renumbered) -/
def exA3 : Auto :=
  { items := [[⟨0,0⟩, ⟨1,0⟩, ⟨2,0⟩], [⟨0,1⟩], [⟨2,1⟩]], gotos := [[(4,1), (3,2)], [], []] }

/-- the lines of its state section -/
example : listingLinesOf (listingView exNames exG exA3) =
    ["--------state 0------------", "start'-->@ S ", "S-->@ a  S ", "S-->@ b ", "GOTO:",
       "at S goto 1 ", "at b goto 2 ",
     "--------state 1------------", "start'--> S @", "GOTO:",
     "--------state 2------------", "S--> b @", "GOTO:"] := by decide

-- the exact text of its state section (the string is long for `decide`'s default recursion depth)
set_option maxRecDepth 4000 in
example : renderStates (listingView exNames exG exA3) =
    "--------state 0------------\n" ++
    "start'-->@ S \n" ++
    "S-->@ a  S \n" ++
    "S-->@ b \n" ++
    "GOTO:\n" ++
    "at S goto 1 \n" ++
    "at b goto 2 \n" ++
    "--------state 1------------\n" ++
    "start'--> S @\n" ++
    "GOTO:\n" ++
    "--------state 2------------\n" ++
    "S--> b @\n" ++
    "GOTO:\n" := by decide

/-- a two-state automaton, whose text is within the default limits -/
def exA2 : Auto := { items := [[⟨0,0⟩, ⟨2,0⟩], [⟨2,1⟩]], gotos := [[(3,1)], []] }

example : renderStates (listingView exNames exG exA2) =
    "--------state 0------------\nstart'-->@ S \nS-->@ b \nGOTO:\nat b goto 1 \n" ++
    "--------state 1------------\nS--> b @\nGOTO:\n" := by decide

example : laView exNames exG [(1, 0, [1]), (4, 1, [1]), (3, 2, [1, 2])] =
    ["1:start'--> S  :  $end", "4:S--> a  S  :  $end", "3:S--> b  :  $end a"] := by decide

/-- the hypotheses of the injectivity / determination theorems are satisfiable: the numbered spellings
    `s0, s1, …` on the example -/
example :
    (∀ a b, numNames a = numNames b → a = b) ∧
    (∀ x, ∀ c ∈ (numNames x).toList, ¬ c = ' ') ∧
    (∀ x, numNames x ≠ ":") ∧
    exG.rules.Nodup ∧
    (∀ q, ∀ it ∈ exA.its q, it.r < exG.rules.length ∧ it.d ≤ (exG.rhsOf it.r).length) ∧
    exA.gotos.length = exA.n := by
  refine ⟨?_, ?_, ?_, by decide, ?_, by decide⟩
  · intro a b h
    have := congrArg String.toList h
    rw [numNames_toList, numNames_toList] at this
    exact toDigits_inj _ _ (List.cons.inj this).2
  · intro x c hc e
    subst e
    rw [numNames_toList, List.mem_cons] at hc
    rcases hc with h | h
    · exact absurd h (by decide)
    · exact absurd (Nat.isDigit_of_mem_toDigits (by decide) (by decide) h) (by decide)
  · intro x h
    have := congrArg String.toList h
    rw [numNames_toList, colon_toList] at this
    exact absurd (List.cons.inj this).1 (by decide)
  · intro q
    match q with
    | 0 | 1 | 2 | 3 | 4 => decide
    | n + 5 => intro it hit; simp [Auto.its, exA] at hit

#print axioms C18_listing_states
#print axioms list_item_str_injective
#print axioms list_goto_str_injective
#print axioms la_line_injective
#print axioms C18_listing_la
#print axioms C18_listing_determines
#print axioms C18_listing_determines_auto
#print axioms C18_listing_determined
#print axioms C18_listing_mem

end Y.Props

