import Yv.Model.Views
import Yv.Props.C01
/-! # C18 — the DOT graph shows exactly the automaton that the tables implement

`dotView names G A T` (Yv/Model/Views.lean) is the graph that `DrawGrammar` builds from the item
collections `A` and the dense table `T`, kept structured: nodes (state number, item strings, reduce
annotations, accept decoration) and edges (source, target, label).

* `C18_views` — nothing extra, nothing missing, numbered as in the tables: one node per state in order;
  node `q` lists the items of state `q`; its annotations are exactly the negative cells of row `q`; it
  is decorated iff row `q` holds the accept code; the edges are exactly the shift/goto cells.
* `redStr_inj`, `item_str_injective`, `item_str_injective'` — the strings determine what they print
  (symbol and rule of an annotation; left-hand side, right-hand side and dot of an item).
* `C18_determines` — two automaton/table pairs with the same graph agree on states, items, shift/goto
  cells, reduce cells and accepting rows.
* `C18_determined` / `dotView_eq_viewOf` — conversely the graph depends only on the item lists and the
  classification of the cells. -/
namespace Y.Props
open Y

/-! ## cells -/

theorem classify_edge (n : Nat) (d : Int) (p : Nat) :
    classify n d = .edge p ↔ d ≠ errCode n ∧ d ≠ accCode n ∧ 0 ≤ d ∧ d.toNat = p := by
  unfold classify
  split
  · rename_i h
    simp only [CellView.edge.injEq]
    exact ⟨fun e => ⟨h.1, h.2.1, h.2.2, e⟩, fun e => e.2.2.2⟩
  · rename_i h
    constructor
    · intro e; split at e
      · cases e
      · split at e <;> cases e
    · intro e; exact absurd ⟨e.1, e.2.1, e.2.2.1⟩ h

theorem classify_accept (n : Nat) (d : Int) : classify n d = .accept ↔ d = accCode n := by
  unfold classify accCode errCode
  constructor
  · intro e
    split at e
    · cases e
    · split at e
      · assumption
      · split at e <;> cases e
  · intro e
    subst e
    rw [if_neg (by omega), if_pos rfl]

theorem classify_reduce (n : Nat) (d : Int) (r : Nat) :
    classify n d = .reduce r ↔ 0 < r ∧ d = -(r : Int) := by
  unfold classify accCode errCode
  constructor
  · intro e
    split at e
    · cases e
    · split at e
      · cases e
      · split at e
        · simp only [CellView.reduce.injEq] at e
          omega
        · cases e
  · intro ⟨h0, e⟩
    subst e
    rw [if_neg (by omega), if_neg (by omega), if_pos (by omega)]
    simp

theorem edge?_eq (c : CellView) (p : Nat) : c.edge? = some p ↔ c = .edge p := by
  cases c <;> simp [CellView.edge?]
theorem reduce?_eq (c : CellView) (r : Nat) : c.reduce? = some r ↔ c = .reduce r := by
  cases c <;> simp [CellView.reduce?]
theorem accept?_eq (c : CellView) : c.accept? = true ↔ c = .accept := by
  cases c <;> simp [CellView.accept?]

theorem cell_eq (T : Dense) (q a : Nat) (d : Int) :
    cell T q a = some d ↔ ∃ row, T[q]? = some row ∧ row[a]? = some d := by
  unfold cell
  cases T[q]? <;> simp

/-! ## rows -/

theorem mem_rowEdges (names : Nat → String) (n q : Nat) (row : List Int) (e : DotEdge) :
    e ∈ rowEdges names n q row ↔
      ∃ a d, row[a]? = some d ∧ classify n d = .edge e.dst ∧ e.src = q ∧ e.label = names a := by
  unfold rowEdges
  rw [List.mem_filterMap]
  constructor
  · rintro ⟨⟨d, a⟩, hm, hf⟩
    rw [List.mem_zipIdx_iff_getElem?] at hm
    simp only [Option.map_eq_some_iff] at hf
    obtain ⟨p, hp, he⟩ := hf
    subst he
    exact ⟨a, d, hm, (edge?_eq _ _).1 hp, rfl, rfl⟩
  · rintro ⟨a, d, hm, hc, hs, hl⟩
    refine ⟨(d, a), List.mem_zipIdx_iff_getElem?.2 hm, ?_⟩
    simp only [Option.map_eq_some_iff]
    refine ⟨e.dst, (edge?_eq _ _).2 hc, ?_⟩
    cases e; simp_all

theorem mem_rowReducePairs (n : Nat) (row : List Int) (a r : Nat) :
    (a, r) ∈ rowReducePairs n row ↔ 0 < r ∧ row[a]? = some (-(r : Int)) := by
  unfold rowReducePairs
  rw [List.mem_filterMap]
  constructor
  · rintro ⟨⟨d, a'⟩, hm, hf⟩
    rw [List.mem_zipIdx_iff_getElem?] at hm
    simp only [Option.map_eq_some_iff, Prod.mk.injEq] at hf
    obtain ⟨r', hr, ha, hr'⟩ := hf
    subst ha hr'
    obtain ⟨h0, hd⟩ := (classify_reduce _ _ _).1 ((reduce?_eq _ _).1 hr)
    subst hd
    exact ⟨h0, hm⟩
  · rintro ⟨h0, hm⟩
    refine ⟨(-(r : Int), a), List.mem_zipIdx_iff_getElem?.2 hm, ?_⟩
    show Option.map _ (classify n (-(r : Int))).reduce? = _
    rw [(reduce?_eq _ _).2 ((classify_reduce _ _ _).2 ⟨h0, rfl⟩)]; rfl

theorem rowFilled_iff (n : Nat) (row : List Int) :
    rowFilled n row = true ↔ ∃ a : Nat, row[a]? = some (accCode n) := by
  unfold rowFilled
  rw [List.any_eq_true]
  constructor
  · rintro ⟨d, hm, hd⟩
    obtain ⟨a, ha⟩ := List.getElem?_of_mem hm
    rw [(classify_accept _ _).1 ((accept?_eq _).1 hd)] at ha
    exact ⟨a, ha⟩
  · rintro ⟨a, ha⟩
    exact ⟨_, List.mem_of_getElem? ha, (accept?_eq _).2 ((classify_accept _ _).2 rfl)⟩

/-! ## the view -/

/-- the node of state `q` -/
def nodeOf (names : Nat → String) (G : Grammar) (A : Auto) (T : Dense) (q : Nat) : DotNode :=
  { state := q,
    items := (A.its q).map (itemStr names G),
    reduces := rowReduces names A.n (T.getD q []),
    filled := rowFilled A.n (T.getD q []) }

theorem dotView_nodes (names : Nat → String) (G : Grammar) (A : Auto) (T : Dense) :
    (dotView names G A T).nodes = (List.range A.n).map (nodeOf names G A T) := rfl

/-- one node per state, numbered as in the tables, in order; node `q` lists the items of state `q`,
    in order -/
theorem dot_nodes (names : Nat → String) (G : Grammar) (A : Auto) (T : Dense) :
    (dotView names G A T).nodes.map (·.state) = List.range A.n ∧
    (dotView names G A T).nodes.length = A.n ∧
    ∀ q, q < A.n → ∃ nd, (dotView names G A T).nodes[q]? = some nd ∧ nd.state = q ∧
      nd.items = (A.its q).map (itemStr names G) := by
  rw [dotView_nodes]
  refine ⟨?_, by simp, ?_⟩
  · rw [List.map_map]
    conv => rhs; rw [← List.map_id (List.range A.n)]
    rfl
  · intro q hq
    refine ⟨nodeOf names G A T q, ?_, rfl, rfl⟩
    rw [List.getElem?_map, List.getElem?_range hq]; rfl

theorem mem_dot_edges (names : Nat → String) (G : Grammar) (A : Auto) (T : Dense) (e : DotEdge) :
    e ∈ (dotView names G A T).edges ↔
      ∃ a d, cell T e.src a = some d ∧ classify A.n d = .edge e.dst ∧ e.label = names a := by
  show e ∈ T.zipIdx.flatMap (fun x => rowEdges names A.n x.2 x.1) ↔ _
  rw [List.mem_flatMap]
  constructor
  · rintro ⟨⟨row, q⟩, hm, he⟩
    rw [List.mem_zipIdx_iff_getElem?] at hm
    obtain ⟨a, d, hd, hc, hs, hl⟩ := (mem_rowEdges _ _ _ _ _).1 he
    simp only at hm hs
    exact ⟨a, d, (cell_eq _ _ _ _).2 ⟨row, hs ▸ hm, hd⟩, hc, hl⟩
  · rintro ⟨a, d, hc, hk, hl⟩
    obtain ⟨row, hr, hd⟩ := (cell_eq _ _ _ _).1 hc
    exact ⟨(row, e.src), List.mem_zipIdx_iff_getElem?.2 hr,
      (mem_rowEdges _ _ _ _ _).2 ⟨a, d, hd, hk, rfl, hl⟩⟩

theorem cell_getD (T : Dense) (q a : Nat) : cell T q a = (T.getD q [])[a]? := by
  unfold cell
  rw [List.getD_eq_getElem?_getD]
  cases T[q]? <;> simp

theorem cell_bounds (T : Dense) (nS : Nat) (hrow : ∀ row ∈ T, row.length = nS) (q a : Nat) (d : Int)
    (h : cell T q a = some d) : q < T.length ∧ a < nS := by
  obtain ⟨row, hr, hd⟩ := (cell_eq _ _ _ _).1 h
  have hq := (List.getElem?_eq_some_iff.1 hr).1
  have ha := (List.getElem?_eq_some_iff.1 hd).1
  rw [hrow row (List.mem_of_getElem? hr)] at ha
  exact ⟨hq, ha⟩

/-- nothing extra: every edge of the graph is a shift/goto cell of the table, labelled by its symbol -/
theorem dot_edges_sound (names : Nat → String) (G : Grammar) (nS : Nat) (A : Auto) (T : Dense)
    (hT : T.length = A.n) (hrow : ∀ row ∈ T, row.length = nS) (e : DotEdge)
    (he : e ∈ (dotView names G A T).edges) :
    e.src < A.n ∧ ∃ a, a < nS ∧ e.label = names a ∧ ∃ d, cell T e.src a = some d ∧
      d ≠ errCode A.n ∧ d ≠ accCode A.n ∧ 0 ≤ d ∧ d.toNat = e.dst := by
  obtain ⟨a, d, hc, hk, hl⟩ := (mem_dot_edges _ _ _ _ _).1 he
  obtain ⟨hq, ha⟩ := cell_bounds T nS hrow _ _ _ hc
  exact ⟨hT ▸ hq, a, ha, hl, d, hc, (classify_edge _ _ _).1 hk⟩

/-- the edge set is the set of shift/goto cells -/
theorem dot_edges (names : Nat → String) (G : Grammar) (nS : Nat) (A : Auto) (T : Dense)
    (hT : T.length = A.n) (hrow : ∀ row ∈ T, row.length = nS)
    (hinj : ∀ a b, names a = names b → a = b) (q p a : Nat) :
    (⟨q, p, names a⟩ : DotEdge) ∈ (dotView names G A T).edges ↔
      q < A.n ∧ a < nS ∧ ∃ d, cell T q a = some d ∧
        d ≠ errCode A.n ∧ d ≠ accCode A.n ∧ 0 ≤ d ∧ d.toNat = p := by
  constructor
  · intro he
    obtain ⟨hq, a', ha', hl, d, hc, hd⟩ := dot_edges_sound names G nS A T hT hrow _ he
    have : a = a' := hinj _ _ hl
    subst this
    exact ⟨hq, ha', d, hc, hd⟩
  · rintro ⟨_, _, d, hc, hd⟩
    exact (mem_dot_edges _ _ _ _ _).2 ⟨a, d, hc, (classify_edge _ _ _).2 hd, rfl⟩

/-- the reduce annotations of node `q`, as (symbol, rule) pairs, are the negative cells of row `q` -/
theorem dot_reduce_pairs (A : Auto) (T : Dense) (q a r : Nat) :
    (a, r) ∈ rowReducePairs A.n (T.getD q []) ↔ 0 < r ∧ cell T q a = some (-(r : Int)) := by
  rw [mem_rowReducePairs, cell_getD]

/-- node `q` carries the accept decoration iff some cell of row `q` is the accept code -/
theorem dot_filled (names : Nat → String) (G : Grammar) (A : Auto) (T : Dense) (q : Nat) (hq : q < A.n) :
    ∃ nd, (dotView names G A T).nodes[q]? = some nd ∧
      (nd.filled = true ↔ ∃ a, cell T q a = some (accCode A.n)) := by
  refine ⟨nodeOf names G A T q, ?_, ?_⟩
  · rw [dotView_nodes, List.getElem?_map, List.getElem?_range hq]; rfl
  · show rowFilled A.n (T.getD q []) = true ↔ _
    rw [rowFilled_iff]
    simp only [cell_getD]

/-! ## the strings determine what they render -/

/-- splitting at the first separator character: if `a`, `b` contain no separator and `t`, `t'` are
    empty or start with one, then `a ++ t = b ++ t'` splits uniquely -/
theorem split_sep (P : Char → Prop) : ∀ (a b t t' : List Char),
    (∀ c ∈ a, ¬ P c) → (∀ c ∈ b, ¬ P c) → (∀ c ∈ t.head?, P c) → (∀ c ∈ t'.head?, P c) →
    a ++ t = b ++ t' → a = b ∧ t = t' := by
  intro a
  induction a with
  | nil =>
    intro b t t' _ hb ht _ h
    cases b with
    | nil => exact ⟨rfl, h⟩
    | cons c b =>
      simp only [List.nil_append] at h
      subst h
      exact absurd (ht c (by simp)) (hb c (by simp))
  | cons c a ih =>
    intro b t t' ha hb ht ht' h
    cases b with
    | nil =>
      simp only [List.nil_append] at h
      subst h
      exact absurd (ht' c (by simp)) (ha c (by simp))
    | cons c' b =>
      simp only [List.cons_append, List.cons.injEq] at h
      obtain ⟨hc, h⟩ := h
      subst hc
      obtain ⟨h1, h2⟩ := ih b t t' (fun x hx => ha x (by simp [hx])) (fun x hx => hb x (by simp [hx])) ht ht' h
      exact ⟨by rw [h1], h2⟩

theorem toDigits_inj (r r' : Nat) (h : Nat.toDigits 10 r = Nat.toDigits 10 r') : r = r' := by
  rw [← @Nat.ofDigitChars_ten_toDigits r, ← @Nat.ofDigitChars_ten_toDigits r', h]

theorem toString_nat_inj (r r' : Nat) (h : toString r = toString r') : r = r' := by
  apply toDigits_inj
  rw [← Nat.toList_repr, ← Nat.toList_repr, ← Nat.toString_eq_repr, ← Nat.toString_eq_repr, h]

theorem redStr_toList (names : Nat → String) (a r : Nat) :
    (redStr names (a, r)).toList =
      (names a).toList ++ (": reduce rule at".toList ++ (' ' :: Nat.toDigits 10 r)) := by
  unfold redStr
  rw [String.toList_append, String.toList_append, Nat.toString_eq_repr, Nat.toList_repr]
  have : ": reduce rule at ".toList = ": reduce rule at".toList ++ [' '] := by decide
  rw [this]
  simp

/-- the annotation string determines the symbol and the rule number -/
theorem redStr_inj (names : Nat → String) (hinj : ∀ a b, names a = names b → a = b)
    (e e' : Sym × Nat) (h : redStr names e = redStr names e') : e = e' := by
  obtain ⟨a, r⟩ := e
  obtain ⟨a', r'⟩ := e'
  have h1 := congrArg (fun s => s.toList.reverse) h
  simp only [redStr_toList, List.reverse_append, List.reverse_cons, List.append_assoc] at h1
  have nd : ∀ (n : Nat) (c : Char), c ∈ (Nat.toDigits 10 n).reverse → ¬ c = ' ' := by
    intro n c hc e
    subst e
    have := Nat.isDigit_of_mem_toDigits (by decide) (by decide) (List.mem_reverse.1 hc)
    exact absurd this (by decide)
  obtain ⟨h2, h3⟩ := split_sep (· = ' ') _ _ _ _ (nd r) (nd r') (by simp) (by simp) h1
  have hr : r = r' := toDigits_inj _ _ (List.reverse_inj.1 h2)
  simp only [List.singleton_append, List.cons.injEq, true_and] at h3
  have h4 := List.append_cancel_left h3
  have ha : a = a' := hinj _ _ (String.toList_inj.1 (List.reverse_inj.1 h4))
  rw [hr, ha]

/-- the annotation `name: reduce rule at r` is listed at node `q` iff cell `(q, a)` is `-r` -/
theorem dot_reduces (names : Nat → String) (G : Grammar) (A : Auto) (T : Dense)
    (hinj : ∀ a b, names a = names b → a = b) (q : Nat) (hq : q < A.n) :
    ∃ nd, (dotView names G A T).nodes[q]? = some nd ∧
      nd.reduces = (rowReducePairs A.n (T.getD q [])).map (redStr names) ∧
      ∀ a r : Nat, (names a ++ ": reduce rule at " ++ toString r ∈ nd.reduces ↔
        0 < r ∧ cell T q a = some (-(r : Int))) := by
  refine ⟨nodeOf names G A T q, ?_, rfl, ?_⟩
  · rw [dotView_nodes, List.getElem?_map, List.getElem?_range hq]; rfl
  · intro a r
    show redStr names (a, r) ∈ (rowReducePairs A.n (T.getD q [])).map (redStr names) ↔ _
    rw [← dot_reduce_pairs, List.mem_map]
    constructor
    · rintro ⟨e, he, hs⟩
      rw [← redStr_inj names hinj _ _ hs]; exact he
    · intro h; exact ⟨_, h, rfl⟩

/-! ### items -/

/-- `•` when `p` holds -/
def bul (p : Prop) [Decidable p] : List Char := if p then ['•'] else []

theorem bul_inj (p q : Prop) [Decidable p] [Decidable q] (h : bul p = bul q) : p ↔ q := by
  unfold bul at h
  by_cases hp : p <;> by_cases hq : q <;> simp_all

theorem bul_nosp (p : Prop) [Decidable p] : ∀ c ∈ bul p, ¬ c = ' ' := by
  intro c hc e
  subst e
  unfold bul at hc
  split at hc
  · exact absurd hc (by decide)
  · cases hc

/-- the characters after `lhs-\>` for a non-empty right-hand side -/
def tailL (names : Nat → String) (d : Nat) : Nat → List Sym → List Char
  | i, [] => bul (i = d)
  | i, x :: xs => bul (i = d) ++ ' ' :: ((names x).toList ++ tailL names d (i + 1) xs)

theorem rhsStr_toList (names : Nat → String) (d : Nat) : ∀ (xs : List Sym) (i : Nat),
    (rhsStr names d i xs ++ (if i + xs.length = d then "•" else "")).toList = tailL names d i xs := by
  intro xs
  induction xs with
  | nil =>
    intro i
    simp only [rhsStr, tailL, bul, List.length_nil, Nat.add_zero, String.toList_append]
    split
    · decide
    · decide
  | cons x xs ih =>
    intro i
    have e : i + (x :: xs).length = i + 1 + xs.length := by simp only [List.length_cons]; omega
    rw [e, tailL, ← ih (i + 1), rhsStr]
    simp only [String.toList_append, List.append_assoc]
    have : " ".toList = [' '] := by decide
    rw [this]
    unfold bul
    split
    · have : "•".toList = ['•'] := by decide
      rw [this]; rfl
    · have : "".toList = [] := by decide
      rw [this]; rfl

theorem itemStr_toList (names : Nat → String) (G : Grammar) (it : Item) :
    (itemStr names G it).toList = (names (G.lhsOf it.r)).toList ++ ('-' :: '\\' :: '>' ::
      (if (G.rhsOf it.r).length = 0 then ['ε'] else tailL names it.d 0 (G.rhsOf it.r))) := by
  unfold itemStr
  rw [String.toList_append, String.toList_append]
  have : "-\\>".toList = ['-', '\\', '>'] := by decide
  rw [this]
  split
  · have : "ε".toList = ['ε'] := by decide
    rw [this]; simp
  · have := rhsStr_toList names it.d (G.rhsOf it.r) 0
    rw [Nat.zero_add] at this
    rw [this]; simp

theorem tailL_head (names : Nat → String) (d i : Nat) (xs : List Sym) :
    ∀ c ∈ (tailL names d i xs).head?, c = ' ' ∨ c = '•' := by
  intro c hc
  cases xs with
  | nil =>
    unfold tailL bul at hc
    split at hc
    · simp at hc; exact Or.inr hc.symm
    · simp at hc
  | cons x xs =>
    unfold tailL bul at hc
    split at hc
    · simp at hc; exact Or.inr hc.symm
    · simp at hc; exact Or.inl hc.symm

theorem tailL_inj (names : Nat → String) (hinj : ∀ a b, names a = names b → a = b)
    (hclean : ∀ x, ∀ c ∈ (names x).toList, ¬ (c = ' ' ∨ c = '•')) (d d' : Nat) :
    ∀ (xs ys : List Sym) (i : Nat), tailL names d i xs = tailL names d' i ys →
      xs = ys ∧ ∀ j, i ≤ j → j ≤ i + xs.length → (j = d ↔ j = d') := by
  intro xs
  induction xs with
  | nil =>
    intro ys i h
    cases ys with
    | nil =>
      refine ⟨rfl, ?_⟩
      intro j h1 h2
      have : j = i := by simp only [List.length_nil] at h2; omega
      subst this
      exact bul_inj _ _ h
    | cons y ys =>
      rw [tailL, tailL] at h
      have := (split_sep (· = ' ') (bul (i = d)) (bul (i = d')) []
        (' ' :: ((names y).toList ++ tailL names d' (i + 1) ys)) (bul_nosp _) (bul_nosp _)
        (by simp) (by simp) (by rw [List.append_nil]; exact h)).2
      cases this
  | cons x xs ih =>
    intro ys i h
    cases ys with
    | nil =>
      rw [tailL, tailL] at h
      have := (split_sep (· = ' ') (bul (i = d)) (bul (i = d'))
        (' ' :: ((names x).toList ++ tailL names d (i + 1) xs)) [] (bul_nosp _) (bul_nosp _)
        (by simp) (by simp) (by rw [List.append_nil]; exact h)).2
      cases this
    | cons y ys =>
      rw [tailL, tailL] at h
      obtain ⟨hb, ht⟩ := split_sep (· = ' ') _ _ _ _ (bul_nosp _) (bul_nosp _) (by simp) (by simp) h
      simp only [List.cons.injEq, true_and] at ht
      obtain ⟨hn, ht⟩ := split_sep (fun c => c = ' ' ∨ c = '•') _ _ _ _ (hclean x) (hclean y)
        (tailL_head _ _ _ _) (tailL_head _ _ _ _) ht
      have hxy : x = y := hinj _ _ (String.toList_inj.1 hn)
      obtain ⟨hxs, hj⟩ := ih ys (i + 1) ht
      refine ⟨by rw [hxy, hxs], ?_⟩
      intro j h1 h2
      by_cases hji : j = i
      · subst hji; exact bul_inj _ _ hb
      · exact hj j (by omega) (by simp only [List.length_cons] at h2; omega)

/-- the item string determines the item's content: the left-hand side, the right-hand side and the
    position of the dot -/
theorem item_str_injective (names : Nat → String) (G : Grammar)
    (hinj : ∀ a b, names a = names b → a = b)
    (hclean : ∀ x, ∀ c ∈ (names x).toList, ¬ (c = ' ' ∨ c = '•'))
    (hlhs : ∀ r, ∀ c ∈ (names (G.lhsOf r)).toList, ¬ c = '-')
    (it it' : Item) (hd : it.d ≤ (G.rhsOf it.r).length) (hd' : it'.d ≤ (G.rhsOf it'.r).length)
    (h : itemStr names G it = itemStr names G it') :
    G.lhsOf it.r = G.lhsOf it'.r ∧ G.rhsOf it.r = G.rhsOf it'.r ∧ it.d = it'.d := by
  have h1 := congrArg String.toList h
  rw [itemStr_toList, itemStr_toList] at h1
  obtain ⟨hl, ht⟩ := split_sep (· = '-') _ _ _ _ (hlhs it.r) (hlhs it'.r) (by simp) (by simp) h1
  refine ⟨hinj _ _ (String.toList_inj.1 hl), ?_⟩
  simp only [List.cons.injEq, true_and] at ht
  split at ht <;> split at ht
  · rename_i e e'
    have e0 := List.eq_nil_of_length_eq_zero e
    have e0' := List.eq_nil_of_length_eq_zero e'
    exact ⟨by rw [e0, e0'], by omega⟩
  · exfalso
    rename_i e e'
    cases hr : G.rhsOf it'.r with
    | nil => rw [hr] at e'; exact e' rfl
    | cons y ys =>
      rw [hr, tailL] at ht
      unfold bul at ht
      split at ht
      · exact absurd (List.cons.inj ht).1 (by decide)
      · exact absurd (List.cons.inj ht).1 (by decide)
  · exfalso
    rename_i e e'
    cases hr : G.rhsOf it.r with
    | nil => rw [hr] at e; exact e rfl
    | cons y ys =>
      rw [hr, tailL] at ht
      unfold bul at ht
      split at ht
      · exact absurd (List.cons.inj ht).1 (by decide)
      · exact absurd (List.cons.inj ht).1 (by decide)
  · obtain ⟨hr, hj⟩ := tailL_inj names hinj hclean _ _ _ _ 0 ht
    exact ⟨hr, (hj it.d (Nat.zero_le _) (by omega)).1 rfl⟩

/-- with distinct rules, the item string determines the item -/
theorem item_str_injective' (names : Nat → String) (G : Grammar)
    (hinj : ∀ a b, names a = names b → a = b)
    (hclean : ∀ x, ∀ c ∈ (names x).toList, ¬ (c = ' ' ∨ c = '•'))
    (hlhs : ∀ r, ∀ c ∈ (names (G.lhsOf r)).toList, ¬ c = '-')
    (hnd : G.rules.Nodup)
    (it it' : Item) (hr : it.r < G.rules.length) (hr' : it'.r < G.rules.length)
    (hd : it.d ≤ (G.rhsOf it.r).length) (hd' : it'.d ≤ (G.rhsOf it'.r).length)
    (h : itemStr names G it = itemStr names G it') : it = it' := by
  obtain ⟨h1, h2, h3⟩ := item_str_injective names G hinj hclean hlhs it it' hd hd' h
  have e : G.rules[it.r]? = G.rules[it'.r]? := by
    unfold Grammar.lhsOf at h1
    unfold Grammar.rhsOf at h2
    rw [List.getElem?_eq_getElem hr, List.getElem?_eq_getElem hr'] at h1 h2 ⊢
    simp only at h1 h2
    congr 1
    cases hx : G.rules[it.r]; cases hy : G.rules[it'.r]
    rw [hx, hy] at h1 h2
    simp only at h1 h2
    rw [h1, h2]
  have := (List.getElem?_inj hr hnd).1 e
  cases it; cases it'
  simp only at this h3
  rw [this, h3]

theorem map_inj_on {α β : Type} (f : α → β) : ∀ (l l' : List α),
    (∀ x ∈ l, ∀ y ∈ l', f x = f y → x = y) → l.map f = l'.map f → l = l' := by
  intro l
  induction l with
  | nil => intro l' _ h; cases l' with
    | nil => rfl
    | cons y l' => cases h
  | cons x l ih =>
    intro l' hf h
    cases l' with
    | nil => cases h
    | cons y l' =>
      simp only [List.map_cons, List.cons.injEq] at h
      rw [hf x (by simp) y (by simp) h.1,
        ih l' (fun a ha b hb => hf a (by simp [ha]) b (by simp [hb])) h.2]

/-! ## the final statements -/

/-- **C18.**  For a rectangular table with one row per state and injective symbol spellings, the graph
    drawn from the automaton `A` and the dense table `T`:
    * has exactly one node per state, in order, numbered `0 … n-1` as the rows of the table;
    * node `q` lists exactly the items of state `q`, in order, each printed by `ItemToStr`;
    * node `q` lists exactly one annotation `a: reduce rule at r` per cell `(q, a) = -r` (`r > 0`), in
      column order, and such an annotation is present iff the cell has that value;
    * node `q` carries the accept decoration iff row `q` contains the accept code;
    * every edge is a shift/goto cell, and `q -a-> p` is an edge iff cell `(q, a)` is a non-negative
      value `p` other than the error and accept codes. -/
theorem C18_views (names : Nat → String) (G : Grammar) (nS : Nat) (A : Auto) (T : Dense)
    (hT : T.length = A.n) (hrow : ∀ row ∈ T, row.length = nS)
    (hinj : ∀ a b, names a = names b → a = b) :
    (dotView names G A T).nodes.map (·.state) = List.range A.n ∧
    (∀ q, q < A.n → ∃ nd, (dotView names G A T).nodes[q]? = some nd ∧ nd.state = q ∧
      nd.items = (A.its q).map (itemStr names G) ∧
      nd.reduces = (rowReducePairs A.n (T.getD q [])).map (redStr names) ∧
      (∀ a r : Nat, (a, r) ∈ rowReducePairs A.n (T.getD q []) ↔
        0 < r ∧ cell T q a = some (-(r : Int))) ∧
      (∀ a r : Nat, names a ++ ": reduce rule at " ++ toString r ∈ nd.reduces ↔
        0 < r ∧ cell T q a = some (-(r : Int))) ∧
      (nd.filled = true ↔ ∃ a, cell T q a = some (accCode A.n))) ∧
    (∀ e ∈ (dotView names G A T).edges,
      e.src < A.n ∧ ∃ a, a < nS ∧ e.label = names a ∧ ∃ d, cell T e.src a = some d ∧
        d ≠ errCode A.n ∧ d ≠ accCode A.n ∧ 0 ≤ d ∧ d.toNat = e.dst) ∧
    (∀ q p a : Nat, (⟨q, p, names a⟩ : DotEdge) ∈ (dotView names G A T).edges ↔
      q < A.n ∧ a < nS ∧ ∃ d, cell T q a = some d ∧
        d ≠ errCode A.n ∧ d ≠ accCode A.n ∧ 0 ≤ d ∧ d.toNat = p) := by
  refine ⟨(dot_nodes names G A T).1, ?_, dot_edges_sound names G nS A T hT hrow,
    dot_edges names G nS A T hT hrow hinj⟩
  intro q hq
  obtain ⟨nd, h1, h2, h3⟩ := dot_reduces names G A T hinj q hq
  obtain ⟨nd', h1', h4⟩ := dot_filled names G A T q hq
  have hnd : nd = nodeOf names G A T q := by
    rw [dotView_nodes, List.getElem?_map, List.getElem?_range hq] at h1
    exact (Option.some.inj h1).symm
  have : nd = nd' := Option.some.inj (h1.symm.trans h1')
  subst this
  refine ⟨nd, h1, ?_, ?_, h2, fun a r => dot_reduce_pairs A T q a r, h3, h4⟩ <;> rw [hnd] <;> rfl

/-! ### the view is determined by the items and the classified cells … -/

/-- the graph as a function of the item lists and the classified cells only -/
def viewOf (names : Nat → String) (G : Grammar) (items : List (List Item))
    (C : List (List CellView)) : Dot :=
  { nodes := (List.range items.length).map fun q =>
      { state := q,
        items := (items.getD q []).map (itemStr names G),
        reduces := ((C.getD q []).zipIdx.filterMap fun e => (e.1.reduce?).map fun r => (e.2, r)).map
          (redStr names),
        filled := (C.getD q []).any CellView.accept? },
    edges := C.zipIdx.flatMap fun e =>
      e.1.zipIdx.filterMap fun c => (c.1.edge?).map fun p => ⟨e.2, p, names c.2⟩ }

theorem getD_map_map {α β : Type} (f : α → β) (T : List (List α)) (q : Nat) :
    (T.map (List.map f)).getD q [] = (T.getD q []).map f := by
  rw [List.getD_eq_getElem?_getD, List.getD_eq_getElem?_getD, List.getElem?_map]
  cases T[q]? <;> rfl

/-- the graph depends on the automaton and the table only through the item lists and the
    classification of the cells (not, e.g., on the automaton's own goto lists) -/
theorem dotView_eq_viewOf (names : Nat → String) (G : Grammar) (A : Auto) (T : Dense) :
    dotView names G A T = viewOf names G A.items (T.map (List.map (classify A.n))) := by
  unfold dotView viewOf
  congr 1
  · apply List.map_congr_left
    intro q _
    rw [getD_map_map]
    unfold rowReduces rowReducePairs rowFilled Auto.its
    rw [List.zipIdx_map, List.filterMap_map, List.any_map]
    rfl
  · rw [List.zipIdx_map, List.flatMap_map]
    unfold rowEdges
    simp only [Prod.map, id, List.zipIdx_map, List.filterMap_map]
    rfl

theorem C18_determined (names : Nat → String) (G : Grammar) (A A' : Auto) (T T' : Dense)
    (hi : A.items = A'.items)
    (hc : T.map (List.map (classify A.n)) = T'.map (List.map (classify A'.n))) :
    dotView names G A T = dotView names G A' T' := by
  rw [dotView_eq_viewOf, dotView_eq_viewOf, hi, hc]

/-! ### … and determines them -/

theorem its_eq_getElem (A : Auto) (q : Nat) (hq : q < A.n) : A.items[q]? = some (A.its q) := by
  unfold Auto.its
  rw [List.getD_eq_getElem?_getD, List.getElem?_eq_getElem hq]; rfl

/-- Two automaton/table pairs with the same graph (for spellings that are injective, contain neither a
    blank nor `•`, with no `-` in left-hand-side names; distinct rules; items that are items of the
    grammar) have the same states with the same items, the same shift/goto cells with the same targets,
    the same reduce cells with the same rules, and the same accepting rows. -/
theorem C18_determines (names : Nat → String) (G : Grammar) (A A' : Auto) (T T' : Dense)
    (hinj : ∀ a b, names a = names b → a = b)
    (hclean : ∀ x, ∀ c ∈ (names x).toList, ¬ (c = ' ' ∨ c = '•'))
    (hlhs : ∀ r, ∀ c ∈ (names (G.lhsOf r)).toList, ¬ c = '-')
    (hnd : G.rules.Nodup)
    (hval : ∀ q, ∀ it ∈ A.its q, it.r < G.rules.length ∧ it.d ≤ (G.rhsOf it.r).length)
    (hval' : ∀ q, ∀ it ∈ A'.its q, it.r < G.rules.length ∧ it.d ≤ (G.rhsOf it.r).length)
    (h : dotView names G A T = dotView names G A' T') :
    A.items = A'.items ∧
    (∀ q a p, (∃ d, cell T q a = some d ∧ classify A.n d = .edge p) ↔
      (∃ d, cell T' q a = some d ∧ classify A'.n d = .edge p)) ∧
    (∀ q, q < A.n → ∀ a r : Nat, 0 < r →
      (cell T q a = some (-(r : Int)) ↔ cell T' q a = some (-(r : Int)))) ∧
    (∀ q, q < A.n → ((∃ a, cell T q a = some (accCode A.n)) ↔
      (∃ a, cell T' q a = some (accCode A'.n)))) := by
  have hN := congrArg Dot.nodes h
  rw [dotView_nodes, dotView_nodes] at hN
  have hn : A.n = A'.n := by
    have := congrArg List.length hN
    simpa using this
  have hq : ∀ q, q < A.n → nodeOf names G A T q = nodeOf names G A' T' q := by
    intro q hq
    have := congrArg (fun l => l[q]?) hN
    simp only [List.getElem?_map, List.getElem?_range hq, List.getElem?_range (hn ▸ hq),
      Option.map_some, Option.some.injEq] at this
    exact this
  refine ⟨?_, ?_, ?_, ?_⟩
  · apply List.ext_getElem?
    intro q
    by_cases hlt : q < A.n
    · rw [its_eq_getElem A q hlt, its_eq_getElem A' q (hn ▸ hlt)]
      congr 1
      have := congrArg DotNode.items (hq q hlt)
      apply map_inj_on (itemStr names G) _ _ _ this
      intro x hx y hy hxy
      exact item_str_injective' names G hinj hclean hlhs hnd x y (hval q x hx).1 (hval' q y hy).1
        (hval q x hx).2 (hval' q y hy).2 hxy
    · rw [List.getElem?_eq_none (by unfold Auto.n at hlt; omega),
        List.getElem?_eq_none (by unfold Auto.n at hlt hn; omega)]
  · intro q a p
    have e1 : (∃ d, cell T q a = some d ∧ classify A.n d = .edge p) ↔
        (⟨q, p, names a⟩ : DotEdge) ∈ (dotView names G A T).edges := by
      rw [mem_dot_edges]
      constructor
      · rintro ⟨d, h1, h2⟩; exact ⟨a, d, h1, h2, rfl⟩
      · rintro ⟨a', d, h1, h2, h3⟩
        have : a = a' := hinj _ _ h3
        subst this; exact ⟨d, h1, h2⟩
    have e2 : (∃ d, cell T' q a = some d ∧ classify A'.n d = .edge p) ↔
        (⟨q, p, names a⟩ : DotEdge) ∈ (dotView names G A' T').edges := by
      rw [mem_dot_edges]
      constructor
      · rintro ⟨d, h1, h2⟩; exact ⟨a, d, h1, h2, rfl⟩
      · rintro ⟨a', d, h1, h2, h3⟩
        have : a = a' := hinj _ _ h3
        subst this; exact ⟨d, h1, h2⟩
    rw [e1, e2, h]
  · intro q hlt a r h0
    have := congrArg DotNode.reduces (hq q hlt)
    have hp : rowReducePairs A.n (T.getD q []) = rowReducePairs A'.n (T'.getD q []) :=
      map_inj_on (redStr names) _ _ (fun x _ y _ hxy => redStr_inj names hinj x y hxy) this
    have e1 := dot_reduce_pairs A T q a r
    have e2 := dot_reduce_pairs A' T' q a r
    rw [hp] at e1
    constructor
    · intro hc; exact (e2.1 (e1.2 ⟨h0, hc⟩)).2
    · intro hc; exact (e1.1 (e2.2 ⟨h0, hc⟩)).2
  · intro q hlt
    have := congrArg DotNode.filled (hq q hlt)
    have e : rowFilled A.n (T.getD q []) = rowFilled A'.n (T'.getD q []) := this
    have e1 := rowFilled_iff A.n (T.getD q [])
    have e2 := rowFilled_iff A'.n (T'.getD q [])
    simp only [← cell_getD] at e1 e2
    rw [← e1, ← e2, e]

/-! ## Non-vacuity: the graph of the example automaton of C01
    (`S' → S ; S → a S | b`, symbols `$`=1, `a`=2, `b`=3, `S`=4) -/

def exNames (n : Nat) : String :=
  match n with
  | 0 => "start'" | 1 => "$end" | 2 => "a" | 3 => "b" | 4 => "S" | n + 5 => "x" ++ toString n

example : (dotView exNames exG exA exT).nodes[2]? =
    some ⟨2, ["S-\\>• a S", "S-\\> a• S", "S-\\>• b"], [], false⟩ := by decide
example : (dotView exNames exG exA exT).nodes[3]? =
    some ⟨3, ["S-\\> b•"], ["$end: reduce rule at 2"], false⟩ := by decide
example : (dotView exNames exG exA exT).nodes[1]? =
    some ⟨1, ["start'-\\> S•"], [], true⟩ := by decide
example : (dotView exNames exG exA exT).edges =
    [⟨0, 2, "a"⟩, ⟨0, 3, "b"⟩, ⟨0, 1, "S"⟩, ⟨2, 2, "a"⟩, ⟨2, 3, "b"⟩, ⟨2, 4, "S"⟩] := by decide
example : (⟨2, 4, "S"⟩ : DotEdge) ∈ (dotView exNames exG exA exT).edges := by decide
example : (dotView exNames exG exA exT).nodes.map (·.state) = [0, 1, 2, 3, 4] := by decide
example : (dotView exNames exG exA exT).nodes.map nodeLabel =
    ["\"<f0> state 0|{start'-\\>• S|S-\\>• a S|S-\\>• b}\"",
     "\"<f0> state 1|{start'-\\> S•}\"",
     "\"<f0> state 2|{S-\\>• a S|S-\\> a• S|S-\\>• b}\"",
     "\"<f0> state 3|{S-\\> b•}|{$end: reduce rule at 2}\"",
     "\"<f0> state 4|{S-\\> a S•}|{$end: reduce rule at 1}\""] := by decide
example : exT.length = exA.n ∧ ∀ row ∈ exT, row.length = 5 := by decide

/-- the hypotheses of `C18_determines` are satisfiable: numbered spellings `s0, s1, …` on the example -/
def numNames (n : Nat) : String := "s" ++ toString n

theorem numNames_toList (n : Nat) : (numNames n).toList = 's' :: Nat.toDigits 10 n := by
  unfold numNames
  rw [String.toList_append, Nat.toString_eq_repr, Nat.toList_repr]
  rfl

example :
    (∀ a b, numNames a = numNames b → a = b) ∧
    (∀ x, ∀ c ∈ (numNames x).toList, ¬ (c = ' ' ∨ c = '•')) ∧
    (∀ r, ∀ c ∈ (numNames (exG.lhsOf r)).toList, ¬ c = '-') ∧
    exG.rules.Nodup ∧
    (∀ q, ∀ it ∈ exA.its q, it.r < exG.rules.length ∧ it.d ≤ (exG.rhsOf it.r).length) := by
  have dig : ∀ (n : Nat) (c : Char), c ∈ (numNames n).toList → c = 's' ∨ c.isDigit = true := by
    intro n c hc
    rw [numNames_toList, List.mem_cons] at hc
    exact hc.imp id (Nat.isDigit_of_mem_toDigits (by decide) (by decide))
  refine ⟨?_, ?_, ?_, by decide, ?_⟩
  · intro a b h
    have := congrArg String.toList h
    rw [numNames_toList, numNames_toList] at this
    exact toDigits_inj _ _ (List.cons.inj this).2
  · intro x c hc e
    rcases dig x c hc with h | h <;> rcases e with e | e <;> subst e <;> exact absurd h (by decide)
  · intro r c hc e
    subst e
    rcases dig _ _ hc with h | h <;> exact absurd h (by decide)
  · intro q
    match q with
    | 0 | 1 | 2 | 3 | 4 => decide
    | n + 5 => intro it hit; simp [Auto.its, exA] at hit

#print axioms C18_views
#print axioms C18_determines
#print axioms C18_determined

end Y.Props
