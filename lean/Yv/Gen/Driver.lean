-- GENERATED from Builder/GoCodeTemplate.go and Builder/GoObjectTemplate.go; do not edit
import Yv.Model.GoAst
namespace Gen

/-- `PushStateSym` of the global template -/
def pushGlobal : Fn :=
  { params := [.state],
    body :=
      [
        .expr (.call (.id .TraceShift) [(.id .state)]),
        .ite (.bin .ge (.id .StackPointer) (.call (.id .len) [(.id .StateSymStack)]))
          [
            .assign (.id .StateSymStack) (.call (.id .append) [(.id .StateSymStack), (.deref (.id .state))]) ]
          [
            .assign (.index (.id .StateSymStack) (.id .StackPointer)) (.deref (.id .state)) ],
        .inc (.id .StackPointer) ] }

/-- `PopStateSym` of the global template -/
def popGlobal : Fn :=
  { params := [.num],
    body :=
      [
        .subAssign (.id .StackPointer) (.id .num) ] }

/-- `ParserInit` of the global template -/
def parserInitGlobal : Fn :=
  { params := [],
    body :=
      [
        .assign (.id .StateSymStack) (.sliceLit .StateSym [(.lit .StateSym [.Yystate, .YySymIndex] [(.int 0), (.int 1)])]),
        .assign (.id .StackPointer) (.int 1) ] }

/-- `Parser` of the global template -/
def parserGlobal : Fn :=
  { params := [.input],
    body :=
      [
        .varDecl .currentPos .int (some (.int 0)),
        .varDecl .val .ValType none,
        .define .lookAhead (.call (.id .fetchLookAhead) [(.id .input), (.addr (.id .val)), (.addr (.id .currentPos))]),
        .loop
          [
            .ite (.bin .eq (.id .StackPointer) (.int 0))
              [
                .brk ]
              [],
            .ite (.bin .gt (.id .StackPointer) (.call (.id .len) [(.id .StateSymStack)]))
              [
                .brk ]
              [],
            .define .s (.addr (.index (.id .StateSymStack) (.bin .sub (.id .StackPointer) (.int 1)))),
            .define .a (.call (.sel (.id .s) .Action) [(.id .lookAhead)]),
            .ite (.bin .eq (.id .a) (.id .ERROR_ACTION))
              [
                .expr (.call (.id .panic) [(.bin .add (.bin .add (.call (.sel (.id .fmt) .Sprintf) [(.str "Grammar error near pos %d"), (.id .currentPos)]) (.str ":")) (.call (.id .TraceTranslate) [(.id .lookAhead)]))]) ]
              [
                .ite (.bin .eq (.id .a) (.id .ACCEPT_ACTION))
                  [
                    .ret (.addr (.sel (.id .s) .ValType)) ]
                  [
                    .ite (.bin .gt (.id .a) (.int 0))
                      [
                        .expr (.call (.id .PushStateSym) [(.addr (.lit .StateSym [.Yystate, .YySymIndex, .ValType] [(.id .a), (.id .lookAhead), (.id .val)]))]),
                        .assign (.id .lookAhead) (.call (.id .fetchLookAhead) [(.id .input), (.addr (.id .val)), (.addr (.id .currentPos))]) ]
                      [
                        .define .reduceIndex (.neg (.id .a)),
                        .define .SymTy (.call (.id .ReduceFunc) [(.id .reduceIndex)]),
                        .define .s (.addr (.index (.id .StateSymStack) (.bin .sub (.id .StackPointer) (.int 1)))),
                        .define .gotoState (.call (.sel (.id .s) .Action) [(.sel (.id .SymTy) .YySymIndex)]),
                        .assign (.sel (.id .SymTy) .Yystate) (.id .gotoState),
                        .expr (.call (.id .TraceReduce) [(.id .reduceIndex), (.id .gotoState), (.call (.id .TraceTranslate) [(.id .lookAhead)])]),
                        .expr (.call (.id .PushStateSym) [(.id .SymTy)]) ] ] ] ],
        .ret (.id .nil) ] }

/-- text of `{{ if .HttpParser }} … {{ end }}` blocks inside the functions above, NOT translated -/
def droppedGlobal : List String := ["TracePingFun(input[currentPos:])"]

/-- `PushStateSym` of the object template -/
def pushObject : Fn :=
  { params := [.state],
    body :=
      [
        .expr (.call (.id .TraceShift) [(.id .state)]),
        .ite (.bin .ge (.sel (.id .c) .Stackpos) (.call (.id .len) [(.sel (.id .c) .StackSym)]))
          [
            .assign (.sel (.id .c) .StackSym) (.call (.id .append) [(.sel (.id .c) .StackSym), (.deref (.id .state))]) ]
          [
            .assign (.index (.sel (.id .c) .StackSym) (.sel (.id .c) .Stackpos)) (.deref (.id .state)) ],
        .inc (.sel (.id .c) .Stackpos) ] }

/-- `PopStateSym` of the object template -/
def popObject : Fn :=
  { params := [.num],
    body :=
      [
        .subAssign (.sel (.id .c) .Stackpos) (.id .num) ] }

/-- `ParserInit` of the object template -/
def parserInitObject : Fn :=
  { params := [],
    body :=
      [
        .assign (.sel (.id .c) .StackSym) (.call (.id .append) [(.sel (.id .c) .StackSym), (.lit .StateSym [.Yystate, .YySymIndex] [(.int 0), (.int 1)])]),
        .assign (.sel (.id .c) .Stackpos) (.int 1) ] }

/-- `Parser` of the object template -/
def parserObject : Fn :=
  { params := [.input],
    body :=
      [
        .varDecl .currentPos .int (some (.int 0)),
        .varDecl .val .ValType none,
        .define .lookAhead (.call (.id .fetchLookAhead) [(.id .input), (.addr (.id .val)), (.addr (.id .currentPos))]),
        .loop
          [
            .ite (.bin .eq (.sel (.id .c) .Stackpos) (.int 0))
              [
                .brk ]
              [],
            .ite (.bin .gt (.sel (.id .c) .Stackpos) (.call (.id .len) [(.sel (.id .c) .StackSym)]))
              [
                .brk ]
              [],
            .define .s (.addr (.index (.sel (.id .c) .StackSym) (.bin .sub (.sel (.id .c) .Stackpos) (.int 1)))),
            .define .a (.call (.sel (.id .s) .Action) [(.id .lookAhead)]),
            .ite (.bin .eq (.id .a) (.id .ERROR_ACTION))
              [
                .expr (.call (.id .panic) [(.bin .add (.bin .add (.call (.sel (.id .fmt) .Sprintf) [(.str "Grammar error near pos %d"), (.id .currentPos)]) (.str ":")) (.call (.id .TraceTranslate) [(.id .lookAhead)]))]) ]
              [
                .ite (.bin .eq (.id .a) (.id .ACCEPT_ACTION))
                  [
                    .ret (.addr (.sel (.id .s) .ValType)) ]
                  [
                    .ite (.bin .gt (.id .a) (.int 0))
                      [
                        .expr (.call (.sel (.id .c) .PushStateSym) [(.addr (.lit .StateSym [.Yystate, .YySymIndex, .ValType] [(.id .a), (.id .lookAhead), (.id .val)]))]),
                        .assign (.id .lookAhead) (.call (.id .fetchLookAhead) [(.id .input), (.addr (.id .val)), (.addr (.id .currentPos))]) ]
                      [
                        .define .reduceIndex (.neg (.id .a)),
                        .define .SymTy (.call (.sel (.id .c) .ReduceFunc) [(.id .reduceIndex)]),
                        .define .s (.addr (.index (.sel (.id .c) .StackSym) (.bin .sub (.sel (.id .c) .Stackpos) (.int 1)))),
                        .define .gotoState (.call (.sel (.id .s) .Action) [(.sel (.id .SymTy) .YySymIndex)]),
                        .assign (.sel (.id .SymTy) .Yystate) (.id .gotoState),
                        .expr (.call (.id .TraceReduce) [(.id .reduceIndex), (.id .gotoState), (.call (.id .TraceTranslate) [(.id .lookAhead)])]),
                        .expr (.call (.sel (.id .c) .PushStateSym) [(.id .SymTy)]) ] ] ] ],
        .ret (.id .nil) ] }

/-- text of `{{ if .HttpParser }} … {{ end }}` blocks inside the functions above, NOT translated -/
def droppedObject : List String := []

end Gen
