import Yv.Proofs.DPrefix
import Yv.Props.C06
import Yv.Props.C09
/-! # C06, second half — a non-sentence is rejected at the first token that cannot continue any sentence

For every grammar, automaton and dense table (given **as data**) that pass the decidable
certificates `gramWF`, `certA`, `certT`, `certCanon` (the automaton is the canonical LR(0)
collection, C09) and `prodOK` (every grammar symbol is productive, C12), for every input and every
configuration the concrete driver `Y.D.step` reaches from the initial one:

* `C06_prefix` / `C06_prefix_gen`: the tokens **shifted so far** are a prefix of a sentence — there
  is a terminal string `z` such that the start symbol `S₀` (`rules[0] = start' → S₀`) derives
  `shifted ++ z` (small-step `Derives`, resp. the forest relation `GenL` used by C02);
* `C06_first_bad_token`: if the next token `a` is such that `shifted ++ [a]` is a prefix of no
  sentence, then whatever the driver does from there on (reductions), it never shifts `a`: the
  remaining input stays the same;
* `C06_error_prefix`: when a run ends in a syntax error, the consumed tokens are a prefix of a
  sentence and exactly one more token than those was requested from the lexer (with `C06_safe`:
  "error at the first bad token, nothing after it requested"). -/
namespace Y.Props
open Y Y.D

/-- **C06 (viable prefix), token level, forest form.**  `w` splits into the consumed tokens and the
    remaining input, and the consumed symbols extend by a terminal string `z` to a sentence. -/
theorem C06_prefix_gen {V : Type} (G : Grammar) (nS : Nat) (A : Auto) (T : Dense)
    (sem : Nat → List V → V) (eofVal bv : V)
    (hG : gramWF G nS = true) (hA : certA G A = true) (hT : certT G nS A T = true)
    (hK : certCanon G A = true) (hP : prodOK G nS = true)
    (w : List (Sym × V)) (hw : ∀ t ∈ w, t.1 ≤ G.nT ∧ t.1 ≠ 1)
    (c : D.Cfg V) (hreach : Reach (dparams G T A.n sem eofVal) (init bv w) c) :
    ∃ (shifted : List (Sym × V)) (z : List Sym), w = shifted ++ c.rest ∧ (∀ t ∈ z, G.isT t = true) ∧
      ∃ S₀, G.rules[0]? = some ⟨0, [S₀]⟩ ∧ Derives G [S₀] (shifted.map Prod.fst ++ z) ∧
        GenL G [S₀] (shifted.map Prod.fst ++ z) := by
  obtain ⟨shifted, z, hsplit, hz, S₀, h0, hder⟩ :=
    reach_prefix sem eofVal bv hG (certA_ok hA) (certT_ok hT) (certCanon_ok hK)
      (prodOK_rhsProductive hP) w hw hreach
  have hgenS : GenL G (ssyms c.stack) (shifted.map Prod.fst) := by
    have hinv := reach_invV sem eofVal (gramWF_ok hG) (certA_ok hA) (certT_ok hT)
      (init_invV (A := A) sem bv w hw) hreach
    obtain ⟨sh', hw', hg, _⟩ := stack_derives_shifted hinv
    have : sh' = shifted := List.append_cancel_right (hw'.symm.trans hsplit)
    rw [← this]; exact hg
  refine ⟨shifted, z, hsplit, hz, S₀, h0, hder, hder.genL ?_⟩
  intro t ht
  rcases List.mem_append.mp ht with h | h
  · exact hgenS.terms t h
  · exact hz t h

/-- **C06 (viable prefix).**  Whatever the driver has shifted so far can be completed to a
    sentence. -/
theorem C06_prefix {V : Type} (G : Grammar) (nS : Nat) (A : Auto) (T : Dense)
    (sem : Nat → List V → V) (eofVal bv : V)
    (hG : gramWF G nS = true) (hA : certA G A = true) (hT : certT G nS A T = true)
    (hK : certCanon G A = true) (hP : prodOK G nS = true)
    (w : List (Sym × V)) (hw : ∀ t ∈ w, t.1 ≤ G.nT ∧ t.1 ≠ 1)
    (c : D.Cfg V) (hreach : Reach (dparams G T A.n sem eofVal) (init bv w) c) :
    ∃ shifted z, w.map Prod.fst = shifted ++ c.rest.map Prod.fst ∧ (∀ t ∈ z, G.isT t = true) ∧
      ∃ S₀, G.rules[0]? = some ⟨0, [S₀]⟩ ∧ Derives G [S₀] (shifted ++ z) := by
  obtain ⟨shifted, z, hsplit, hz, S₀, h0, hder, _⟩ :=
    C06_prefix_gen G nS A T sem eofVal bv hG hA hT hK hP w hw c hreach
  refine ⟨shifted.map Prod.fst, z, ?_, hz, S₀, h0, hder⟩
  conv => lhs; rw [hsplit]
  exact List.map_append

/-- **C06 (first bad token).**  If the driver has consumed `shifted`, the next token is `a`, and
    `shifted ++ [a]` is a prefix of no sentence, then the driver never shifts `a`: in every
    configuration it reaches from there the remaining input is unchanged (it can only reduce, and
    then report the error — it cannot accept, by C01, nor crash, by `C06_safe`). -/
theorem C06_first_bad_token {V : Type} (G : Grammar) (nS : Nat) (A : Auto) (T : Dense)
    (sem : Nat → List V → V) (eofVal bv : V)
    (hG : gramWF G nS = true) (hA : certA G A = true) (hT : certT G nS A T = true)
    (hK : certCanon G A = true) (hP : prodOK G nS = true)
    (w : List (Sym × V)) (hw : ∀ t ∈ w, t.1 ≤ G.nT ∧ t.1 ≠ 1)
    (c : D.Cfg V) (hreach : Reach (dparams G T A.n sem eofVal) (init bv w) c)
    (shifted : List (Sym × V)) (a : Sym) (v : V) (rest' : List (Sym × V))
    (hsplit : w = shifted ++ (a, v) :: rest') (hrest : c.rest = (a, v) :: rest')
    (hbad : ¬ ∃ (z : List Sym) (S₀ : Sym), (∀ t ∈ z, G.isT t = true) ∧
        G.rules[0]? = some ⟨0, [S₀]⟩ ∧ GenL G [S₀] (shifted.map Prod.fst ++ a :: z))
    (c' : D.Cfg V) (hreach' : Reach (dparams G T A.n sem eofVal) c c') :
    c'.rest = c.rest := by
  obtain ⟨sh', z, hw', hz, S₀, h0, _, hgen⟩ :=
    C06_prefix_gen G nS A T sem eofVal bv hG hA hT hK hP w hw c' (Reach.trans hreach hreach')
  obtain ⟨u, hu⟩ := hreach'.rest_suffix
  cases u with
  | nil => exact hu.symm
  | cons x u' =>
    exfalso
    rw [hrest, List.cons_append] at hu
    injection hu with hx hr'
    subst hx
    have hsh : sh' = shifted ++ (a, v) :: u' := by
      apply List.append_cancel_right (bs := c'.rest)
      rw [← hw', hsplit, hr']
      simp only [List.append_assoc, List.cons_append]
    rw [hsh] at hgen
    simp only [List.map_append, List.map_cons, List.append_assoc, List.cons_append] at hgen
    refine hbad ⟨u'.map Prod.fst ++ z, S₀, ?_, h0, hgen⟩
    intro t ht
    exact hgen.terms t (List.mem_append_right _ (List.mem_cons_of_mem _ ht))

/-- **C06 (error report).**  When a run ends in a syntax error, the tokens consumed before it are a
    prefix of a sentence, and exactly one token more than those was requested from the lexer. -/
theorem C06_error_prefix {V : Type} (G : Grammar) (nS : Nat) (A : Auto) (T : Dense)
    (sem : Nat → List V → V) (eofVal bv : V)
    (hG : gramWF G nS = true) (hA : certA G A = true) (hT : certT G nS A T = true)
    (hK : certCanon G A = true) (hP : prodOK G nS = true)
    (w : List (Sym × V)) (hw : ∀ t ∈ w, t.1 ≤ G.nT ∧ t.1 ≠ 1) (fuel : Nat) (c' : D.Cfg V)
    (hrun : run (dparams G T A.n sem eofVal) fuel (init bv w) = .syntaxError c') :
    ∃ (shifted : List (Sym × V)) (z : List Sym), w = shifted ++ c'.rest ∧
      c'.req = shifted.length + 1 ∧ (∀ t ∈ z, G.isT t = true) ∧
      ∃ S₀, G.rules[0]? = some ⟨0, [S₀]⟩ ∧ GenL G [S₀] (shifted.map Prod.fst ++ z) := by
  obtain ⟨hreach, _⟩ := run_error_reach fuel _ hrun
  obtain ⟨shifted, z, hsplit, hz, S₀, h0, _, hgen⟩ :=
    C06_prefix_gen G nS A T sem eofVal bv hG hA hT hK hP w hw c' hreach
  have hcnt := (C06_safe G nS A T sem eofVal bv hG hA hT w hw fuel).2 c' hrun
  refine ⟨shifted, z, hsplit, ?_, hz, S₀, h0, hgen⟩
  have hl := congrArg List.length hsplit
  rw [List.length_append] at hl
  omega

/-! ## Non-vacuity: the example of C01/C09 (`S' → S ; S → a S | b`) passes all five certificates;
    on the non-sentence `a b b` the driver shifts `a b`, and reports the error on the second `b`
    having requested exactly three tokens. -/

example : gramWF exG 5 = true ∧ certA exG exA = true ∧ certT exG 5 exA exT = true ∧
    certCanon exG exA = true ∧ prodOK exG 5 = true := by decide

example : ∃ c', run (dparams (V := Unit) exG exT exA.n (fun _ _ => ()) ()) 20
      (init () [(2, ()), (3, ()), (3, ())]) = .syntaxError c' ∧ c'.rest = [(3, ())] ∧ c'.req = 3 :=
  ⟨_, rfl, rfl, rfl⟩

end Y.Props
