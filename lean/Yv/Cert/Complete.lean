import Yv.Cert.Auto
/-! Completeness certificate: relative to a lookahead table `la` (LALR(1) lookaheads of all items),
    every complete item's lookaheads hold its reduction (accept for rule 0) and every terminal
    after a dot holds the shift to the automaton's successor.  Since a cell holds one value,
    passing implies the grammar has no conflict under `la`. -/
namespace Y

structure LATab where
  tab : List (List (Item × List Sym))

def LATab.get (t : LATab) (q : Nat) (it : Item) : List Sym :=
  match (t.tab.getD q []).find? (fun p => p.1 == it) with
  | some p => p.2
  | none => []

def certC (G : Grammar) (A : Auto) (la : LATab) (T : Dense) : Bool :=
  (List.range A.n).all fun q => (A.its q).all fun it =>
    match (G.rhsOf it.r)[it.d]? with
    | none =>
      (la.get q it).all fun a =>
        cell T q a == some (if it.r = 0 then accCode A.n else -(it.r : Int))
    | some X =>
      if G.isT X then
        match A.goto q X with
        | some p => cell T q X == some (p : Int)
        | none => false
      else true

end Y
