/-! Functional model of the emitters that print tables and codes into the generated file:
    `buildConstPart`, `buildAnalyTable`, `buildTranslate` of `Builder/GoTemplBuilder.go` (Go, packed
    and plain table) and of `Builder/TsGenCode.go` (TypeScript).  Each function returns the text the
    emitter leaves in the builder field of the same name; the texts are compared byte for byte with
    the implementation's on every explored grammar (`M EP` lines).  Definitions only; the read-back
    theorems are in `Yv/Props/C11b.lean`.

    Go's `%d` is `dec`; Go's `%q` is `quote` (ASCII only: a name with a non-ASCII character makes the
    two trace tables `none`, i.e. not compared). -/
namespace Emit

structure EId where
  name : String
  isTerm : Bool
  value : Int
deriving Repr, Inhabited

structure ESym where
  id : Nat
  isNT : Bool
  value : Int
  name : String
deriving Repr, Inhabited

structure ERule where
  left : String
  right : List String
deriving Repr, Inhabited

structure Data where
  ids : List EId            -- identifier table in the order of `SortedIdsymtabl`
  syms : List ESym          -- `G.Symbols`
  rows : List (List Int)    -- `GTable`
  need : Bool               -- `NeedPacked` of the visitor
  act : List Int
  off : List Int
  check : List Int
  actdef : List Int
  gotodef : List Int
  errC : Int
  accC : Int
  rules : List ERule        -- the visitor's rules (user rule i = grammar rule i+1)
deriving Repr, Inhabited

/-- decimal digits of a natural number, most significant first -/
def digits : Nat → List Char
  | n => if h : n < 10 then [Char.ofNat (48 + n)] else digits (n / 10) ++ [Char.ofNat (48 + n % 10)]
decreasing_by omega

/-- Go's `%d` -/
def dec (i : Int) : String :=
  match i with
  | .ofNat n => String.ofList (digits n)
  | .negSucc n => String.ofList ('-' :: digits (n + 1))

def cat (l : List String) : String := l.foldl (· ++ ·) ""

/-- `parser.TestPrefix` -/
def isTemp (name : String) : Bool := name.startsWith "$operator"

/-- `parser.RemoveTempName` -/
def removeTemp (name : String) : String :=
  if name.utf8ByteSize > 9 && name.startsWith "$operator" then "'" ++ (name.drop 9).toString ++ "' " else name

def hexDigit (n : Nat) : Char := if n < 10 then Char.ofNat (48 + n) else Char.ofNat (87 + n)

/-- one character of Go's `strconv.Quote`, ASCII only -/
def quoteChar (c : Char) : Option String :=
  let n := c.toNat
  if n ≥ 128 then none
  else if c == '"' then some "\\\""
  else if c == '\\' then some "\\\\"
  else if 32 ≤ n && n < 127 then some (String.singleton c)
  else if n == 7 then some "\\a" else if n == 8 then some "\\b" else if n == 12 then some "\\f"
  else if n == 10 then some "\\n" else if n == 13 then some "\\r" else if n == 9 then some "\\t"
  else if n == 11 then some "\\v"
  else some ("\\x" ++ String.ofList [hexDigit (n / 16), hexDigit (n % 16)])

/-- Go's `%q` of a string (ASCII only) -/
def quote (s : String) : Option String :=
  (s.toList.foldl (fun (acc : Option String) c =>
    match acc, quoteChar c with
    | some a, some q => some (a ++ q)
    | _, _ => none) (some "\"")).map (· ++ "\"")

def constLines (d : Data) : String :=
  cat ((d.ids.filter fun i => i.isTerm && !isTemp i.name).map fun i =>
    "const " ++ i.name ++ " = " ++ dec i.value ++ "\n")

/-- `TemplateBuilder.buildConstPart` -/
def constGo (d : Data) : String :=
  constLines d ++ "const ERROR_ACTION = " ++ dec d.errC ++ "\nconst ACCEPT_ACTION = " ++ dec d.accC ++ "\n"

/-- `TsBuilder.buildConstPart` -/
def constTs (d : Data) : String :=
  "// const part \n" ++ constLines d ++
  "const ERROR_ACTION = " ++ dec d.errC ++ " \nconst ACCEPT_ACTION = " ++ dec d.accC ++ "\n"

def arr (xs : List Int) : String := cat (xs.map fun v => dec v ++ ",\t")

def header (d : Data) : String := "/*     " ++ cat (d.syms.map fun s => s.name ++ "\t") ++ "*/\n"

def rowsTxt (op cl : String) (rows : List (List Int)) : String :=
  cat (rows.zipIdx.map fun (r, i) => "/* " ++ dec i ++ " */ " ++ op ++ arr r ++ cl ++ ",\n")

/-- `TemplateBuilder.buildAnalyTable`, plain table (`AnalyTable`); empty when the packed one is emitted -/
def denseGo (d : Data) (pack : Bool) : String :=
  if d.need && pack then "" else header d ++ rowsTxt "{" "}" d.rows

/-- `TemplateBuilder.buildAnalyTable`, packed arrays (`PackAnalyTable`); empty when the plain one is emitted -/
def packedGo (d : Data) (pack : Bool) : String :=
  if d.need && pack then
    "\nvar StatePackAction = []int {\n\t" ++ arr d.act ++ " \n}\nvar StatePackOffset = []int {\n\t" ++ arr d.off ++
    "\n}\nvar StackPackCheck = []int {\n\t" ++ arr d.check ++ "\n}\nvar StackPackActDef = []int {\n\t" ++ arr d.actdef ++
    "\n}\nvar StackPackGotoDef = []int {\n\t" ++ arr d.gotodef ++ "\n}\n"
  else ""

/-- `TsBuilder.buildAnalyTable` -/
def denseTs (d : Data) : String :=
  "\nvar StateActionArray :number[][] =[\n\t" ++ header d ++ rowsTxt "[" "]" d.rows ++ " \n]\n"

/-- `TemplateBuilder.buildTranslate`, field `Translate` -/
def translateGo (d : Data) : String :=
  cat ((d.syms.filter (!·.isNT)).map fun s => "\tcase " ++ dec s.value ++ ":\n \tconv = " ++ dec s.id ++ "\n")

/-- `TsBuilder.buildTranslate` -/
def translateTs (d : Data) : String :=
  "\nfunction translate(c :number) :number {\n\tvar conv :number = 0\n\tswitch (c) {\n" ++
  cat ((d.syms.filter (!·.isNT)).map fun s => "\tcase " ++ dec s.value ++ ":\n \tconv = " ++ dec s.id ++ ";\nbreak;\n") ++
  "\n\t}\n\treturn conv;\n}\n"

def catOpt (l : List (Option String)) : Option String :=
  l.foldl (fun acc x => match acc, x with | some a, some b => some (a ++ b) | _, _ => none) (some "")

/-- field `TranslateTrace` -/
def translateTrace (d : Data) : Option String :=
  catOpt (d.syms.map fun s => (quote (removeTemp s.name)).map fun q => "\tcase " ++ dec s.id ++ ":\n \tconv = " ++ q ++ "\n")

/-- field `ReduceTrace` -/
def reduceTrace (d : Data) : Option String :=
  catOpt (d.rules.zipIdx.map fun (r, i) =>
    (quote ("use Reduce:" ++ removeTemp r.left ++ " -> " ++ cat (r.right.map fun x => removeTemp x ++ " "))).map fun q =>
      "\t\tcase " ++ dec (i + 1 : Nat) ++ ": \n" ++
      "\n\t\tfmt.Printf(\"look ahead %s, %s, go to state %d\\n\", look, " ++ q ++ ", s)\n")

/-- all parts of one variant, keyed as the harness prints them -/
def parts (d : Data) (variant : String) : List (String × Option String) :=
  if variant == "ts" then
    [("Const", some (constTs d)), ("Dense", some (denseTs d)), ("Translate", some (translateTs d))]
  else
    let pack := variant == "gop"
    [("Const", some (constGo d)), ("Dense", some (denseGo d pack)), ("Packed", some (packedGo d pack)),
     ("ReduceTrace", reduceTrace d), ("Translate", some (translateGo d)), ("TranslateTrace", translateTrace d)]

end Emit
