import Yv.Model.PackA
import Yv.Model.PackX
/-! Executable model of the composition `TrySplitTable` ; `PackTable` ; generated lookup, on the
    VERIFIED packing `PackA.packA`.  Definitions only; the proofs are in `Yv/Props/C05b.lean`.

    * `trySplitWith choose` is `PackX.trySplit` with the default-choice function abstracted
      (`PackX.trySplit = trySplitWith PackX.findMax`, by `rfl`).
    * `lookupA` is the generated lookup (`PackX.lookup`) on a `PackA.Packed`.
    * `DenseWF` / `DenseWFWith` is the (weak, computed) well-formedness predicate of
      `C05_split_lookup`; `DenseSimple` is a sufficient criterion that looks at the dense table only. -/
namespace SplitA

/-- `PackX.trySplit` with the choice of the default value (`findMaxOccurence`) as a parameter -/
def trySplitWith (choose : List Int → Int) (tab : List (List Int)) (nT : Nat) : PackX.Split :=
  let nSyms := (tab.headD []).length
  let act := tab.map (·.take (nT + 1))
  let actdef := act.map choose
  let actB := (act.zip actdef).map fun (r, d) => PackX.blank r d
  let gotoCols := PackX.transpose (tab.map (·.drop (nT + 1))) (nSyms - nT - 1)
  let gtdef := gotoCols.map choose
  let gotoB := (gotoCols.zip gtdef).map fun (c, d) => PackX.blank c d
  let gotoRows := PackX.transpose gotoB tab.length
  { tab := (actB.zip gotoRows).map fun (a, g) => a ++ g, actdef := actdef, gtdef := gtdef }

/-- the default the generated lookup falls back to for (state `q`, symbol `a`):
    the default goto of the nonterminal `a` if `a > nT`, else the default action of state `q` -/
def dflt (s : PackX.Split) (nT q a : Nat) : Int :=
  if a > nT then s.gtdef.getD (a - nT - 1) 0 else s.actdef.getD q 0

/-- the lookup the generated parser performs (same text as `PackX.lookup`, on `PackA.Packed`) -/
def lookupA (p : PackA.Packed) (s : PackX.Split) (nT : Nat) (err : Int) (q a : Nat) : Int :=
  let o := p.off.getD q 0 + a
  if o < 0 then err
  else if o.toNat ≥ p.check.length || p.check.getD o.toNat (-1) != q then
    if a > nT then s.gtdef.getD (a - nT - 1) 0 else s.actdef.getD q 0
  else p.act.getD o.toNat 0

/-- the per-cell condition:
    (1) a cell that holds 0 must have default 0 (0 is the "blank" marker of the packed arrays);
    (2) if the slot index `off[q]+a` is negative (the lookup then answers `err`),
        the default that is the true value there must be `err`. -/
def cellOK (p : PackA.Packed) (s : PackX.Split) (nT : Nat) (err : Int) (T : List (List Int))
    (q a : Nat) : Bool :=
  ((T.getD q []).getD a 0 != 0 || dflt s nT q a == 0) &&
  (decide (0 ≤ p.off.getD q 0 + (a : Int)) || dflt s nT q a == err)

/-- well-formedness of a dense table w.r.t. its computed split and packed arrays -/
def DenseWFWith (choose : List Int → Int) (T : List (List Int)) (nT nS : Nat) (err : Int) : Bool :=
  let s := trySplitWith choose T nT
  let p := PackA.packA s.tab
  (List.range T.length).all fun q => (List.range nS).all fun a => cellOK p s nT err T q a

def DenseWF (T : List (List Int)) (nT nS : Nat) (err : Int) : Bool :=
  DenseWFWith PackX.findMax T nT nS err

/-- a sufficient criterion on the dense table alone: no cell is 0, column 0 (the augmented start
    symbol, never a lookahead) is `err` in every state, and every state has a non-`err` action. -/
def DenseSimple (T : List (List Int)) (nT : Nat) (err : Int) : Bool :=
  T.all fun r => r.all (· != 0) && r.getD 0 0 == err && (r.take (nT + 1)).any (· != err)

end SplitA
