import Yv.Model.PackX
/-! The generated driver with the X harness's concrete semantic actions (two union fields `a`,`b`,
    linear actions modulo a prime, reduction log, tokens-requested counter, step limit, trace).
    It is run on the table literal *scraped from the generated file* — dense rows or the five
    packed arrays — and must reproduce what the compiled parser prints. -/
namespace XDrv

structure RuleD where
  lhs : Nat
  lhsTag : Nat               -- 0 = field a, 1 = field b
  n : Nat                    -- |rhs| (slice base and pop count as emitted)
  k : Int
  terms : List (Int × Nat)   -- per rhs symbol: coefficient, tag
deriving Inhabited

structure Entry where
  state : Int
  sym : Nat
  a : Int
  b : Int
deriving Inhabited

inductive Look
  | dense (rows : Array (Array Int))
  | packed (act off chk adef gdef : Array Int) (nT : Nat)

/-- `Action(a)` of the generated StateSym: `none` = index out of range (Go panic / TS TypeError) -/
def Look.get (l : Look) (errC : Int) (q : Int) (a : Nat) : Option Int :=
  if q < 0 then none else
  match l with
  | .dense rows => (rows[q.toNat]?).bind (·[a]?)
  | .packed act off chk adef gdef nT =>
    match off[q.toNat]? with
    | none => none
    | some o =>
      let i := o + a
      if i < 0 then some errC
      else if i.toNat ≥ chk.size || chk[i.toNat]! != q then
        if a > nT then gdef[a - nT - 1]? else adef[q.toNat]?
      else act[i.toNat]?

structure Tabs where
  look : Look
  errC : Int
  accC : Int
  rules : Array (Option RuleD)   -- index = rule number; none = no `case` emitted
  tok : Array Nat                -- letter index ↦ symbol id (translate ∘ code)
  startTag : Nat
  stepLimit : Nat

inductive Verdict | accept | reject | loop | crash (why : String)
deriving Repr

inductive Ev
  | shift (sym : Nat) (st : Int)
  | reduce (look : Nat) (rule : Nat) (st : Int)

structure Out where
  v : Verdict
  log : List Nat
  val : Int
  req : Nat
  trace : List Ev

def MOD : Int := 1000003

/-- our GetToken: letter index ↦ symbol id; past the end ↦ `$` (1); unknown letter ↦ 0 -/
def fetch (t : Tabs) (input : Array Nat) (pos : Nat) : Nat × Entry :=
  match input[pos]? with
  | none => (1, ⟨0, 0, 0, 0⟩)
  | some c => ((t.tok[c]?).getD 0, ⟨0, 0, pos + 1, 2 * pos + 1⟩)

def field (e : Entry) (tag : Nat) : Int := if tag == 0 then e.a else e.b

def run (t : Tabs) (input : Array Nat) : Nat → List Entry → Nat → Nat × Entry → Nat → List Nat → Nat → List Ev → Out
  | 0, _, _, _, req, log, _, tr => ⟨.crash "fuel", log.reverse, 0, req, tr.reverse⟩
  | fuel+1, stack, pos, (la, lv), req, log, steps, tr =>
    match stack with
    | [] => ⟨.crash "empty stack", log.reverse, 0, req, tr.reverse⟩
    | top :: _ =>
      match t.look.get t.errC top.state la with
      | none => ⟨.crash "index", log.reverse, 0, req, tr.reverse⟩
      | some act =>
        if act == t.errC then ⟨.reject, log.reverse, 0, req, tr.reverse⟩
        else if act == t.accC then ⟨.accept, log.reverse, field top t.startTag, req, tr.reverse⟩
        else if act > 0 then
          let e : Entry := { lv with state := act, sym := la }
          let pos' := if pos < input.size then pos + 1 else pos
          run t input fuel (e :: stack) pos' (fetch t input pos') (req + 1) log steps (.shift la act :: tr)
        else
          let r := (-act).toNat
          match (t.rules[r]?).join with
          | none => ⟨.crash "rule", log.reverse, 0, req, tr.reverse⟩
          | some rd =>
            if rd.n + 1 > stack.length then ⟨.crash "slice", log.reverse, 0, req, tr.reverse⟩
            else if steps + 1 > t.stepLimit then ⟨.loop, [], 0, req, tr.reverse⟩
            else
              let handle := (stack.take rd.n).reverse          -- Dollar[1..n]
              let v := ((handle.zip rd.terms).foldl (fun acc (e, (c, tg)) => acc + c * field e tg) rd.k) % MOD
              let rest := stack.drop rd.n
              match rest with
              | [] => ⟨.crash "pop", log.reverse, 0, req, tr.reverse⟩
              | under :: _ =>
                match t.look.get t.errC under.state rd.lhs with
                | none => ⟨.crash "index", (r :: log).reverse, 0, req, tr.reverse⟩
                | some g =>
                  let e : Entry := if rd.lhsTag == 0 then ⟨g, rd.lhs, v, 0⟩ else ⟨g, rd.lhs, 0, v⟩
                  run t input fuel (e :: rest) pos (la, lv) req (r :: log) (steps + 1)
                    (.shift rd.lhs g :: .reduce la r g :: tr)

def parse (t : Tabs) (input : Array Nat) : Out :=
  run t input ((t.stepLimit + 10) * (input.size + 2) + 100) [⟨0, 1, 0, 0⟩] 0 (fetch t input 0) 1 [] 0 []

end XDrv
