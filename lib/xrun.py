"""Mechanism X: generate all output variants of a grammar through the real generator, compile the Go
variants of all cases into ONE binary, run the TypeScript variant under Node >= 22 (type stripping),
scrape the table literal out of each generated file, run the Lean driver model on that literal, and
compare verdict / reduction log / value / tokens requested (/ trace)."""
import glob
import json
import os
import re
import shutil
import subprocess

import common
import gen

MOD = 1000003
STEP_LIMIT = 3000

VARIANTS = [
    ("go", False, False, "go-packed"),
    ("go", True, False, "go-u"),
    ("go", False, True, "go-o"),
    ("go", True, True, "go-o-u"),
    ("typescript", False, False, "ts"),
]


def find_node():
    cands = sorted(glob.glob("/root/.nvm/versions/node/v2[2-9]*/bin/node")) + sorted(glob.glob("/root/.nvm/versions/node/v[3-9][0-9]*/bin/node"))
    for c in reversed(cands):
        if os.access(c, os.X_OK):
            return c
    p = shutil.which("node")
    if p:
        try:
            v = subprocess.run([p, "--version"], stdout=subprocess.PIPE).stdout.decode().strip().lstrip("v").split(".")
            if int(v[0]) >= 22:
                return p
        except Exception:
            pass
    return None


def xspec(spec, rng):
    """add union tags, action coefficients and constants to a spec"""
    terms = spec["tokens"] + spec["lits"]
    tags = {}
    for i, t in enumerate(terms):
        tags[t] = "ab"[i % 2]
    for i, n in enumerate(spec["nts"]):
        tags[n] = "ba"[i % 2]
    xs = dict(spec)
    xs["tags"] = tags
    xs["terms"] = terms
    xs["late_tags"] = [t for t in terms if rng.random() < 0.2]
    # explicit numbers for some named tokens; for some of them the number arrives in a later, untagged `%token NAME number`
    # line that follows a differently tagged declaration
    if "nums" not in xs:
        xs["nums"] = {t: 300 + 7 * i for i, t in enumerate(spec["tokens"]) if rng.random() < 0.3}
    xs["late_nums"] = [t for t in xs["nums"] if t not in xs["late_tags"] and rng.random() < 0.6]
    xs["K"] = [rng.randrange(50) for _ in spec["rules"]]
    xs["coef"] = [[rng.randrange(1, 10) for _ in r["rhs"]] for r in spec["rules"]]
    xs["form"] = [rng.choice([0, 0, 1, 2, 3]) for _ in spec["rules"]]
    # some rules do not assign `$$` at all: the value slot of their left-hand side is then the fresh zero value
    xs["noassign"] = [len(spec["rules"]) > 1 and rng.random() < 0.12 for _ in spec["rules"]]
    for i, na in enumerate(xs["noassign"]):
        if na:
            xs["K"][i] = 0
            xs["coef"][i] = [0 for _ in spec["rules"][i]["rhs"]]
    return xs


def xspec_twin(spec, rng, p=0.6):
    """like xspec, but some rules get a TWIN: same left-hand side, same length, byte-identical action text,
    right-hand-side symbols with the OTHER union tag.  The action logs the rule through the reduce
    function's own parameter instead of a literal, so the texts really are identical (an emitter that
    reuses the rewritten text of one alternative for the other reads the wrong union field)."""
    xs = xspec(spec, rng)
    terms = xs["terms"]
    by_tag = {"a": [t for t in terms if xs["tags"][t] == "a"], "b": [t for t in terms if xs["tags"][t] == "b"]}
    rules, K, coef, form = [], [], [], []
    for i, r in enumerate(spec["rules"]):
        rules.append(r); K.append(xs["K"][i]); coef.append(xs["coef"][i]); form.append(xs["form"][i])
        if r["rhs"] and rng.random() < p:
            rhs = []
            for s in r["rhs"]:
                other = by_tag["b" if xs["tags"][s] == "a" else "a"]
                rhs.append(rng.choice(other) if (s in terms and other) else s)
            if rhs != r["rhs"]:
                rules.append({"lhs": r["lhs"], "rhs": rhs, "prec": r.get("prec")})
                K.append(xs["K"][i]); coef.append(xs["coef"][i]); form.append(xs["form"][i])
    xs["rules"], xs["K"], xs["coef"], xs["form"] = rules, K, coef, form
    xs["noassign"] = [False] * len(rules)
    xs["log_by_param"] = True
    return xs


def _expr(xs, i):
    e = str(xs["K"][i])
    for k, c in enumerate(xs["coef"][i]):
        e += " + %d*$%d" % (c, k + 1)
    return e


def _assign(xs, i):
    """the value assignment of rule i in one of several equivalent spellings that mention $$ once,
    twice or three times (an emitter that rewrites only some occurrences computes another value)"""
    if xs.get("noassign") and i < len(xs["noassign"]) and xs["noassign"][i]:
        # Go: nothing (zero value); TypeScript has no zero values: the slot is set to 0 explicitly
        return "$$ = 0" if xs.get("_target") == "typescript" else "_ = 0"
    e = "(%s) %% %d" % (_expr(xs, i), MOD)
    form = xs.get("form", [0] * len(xs["rules"]))[i]
    if form == 1:
        return "$$ = 0; $$ = %s" % e
    if form == 2:
        return "$$ = %s; if ($$ < 0) { $$ = 0 }" % e
    if form == 3:
        return "$$ = 1; $$ = $$ + %d; $$ = %s" % (0 if xs.get("log_by_param") else i, e)
    return "$$ = %s" % e


def render_x(xs, target, pkg, obj, trace):
    xs = dict(xs, _target=target)
    tags = xs["tags"]
    lines = []
    if target == "go":
        prologue = "package %s\nimport \"fmt\"\nimport \"strings\"\nvar _ = strings.ToUpper\nvar _ = fmt.Sprint" % pkg
        union = " a int\n b int"
        actions = ["Steps++; if Steps > %d { panic(\"STEPLIMIT\") }; Log = append(Log, %s); %s" %
                   (STEP_LIMIT, "reduceIndex" if xs.get("log_by_param") else str(i + 1), _assign(xs, i)) for i in range(len(xs["rules"]))]
        # some actions hold the two characters that end a block comment inside a string literal: the action text must
        # reach the compiler verbatim (the generator also shows it inside a comment, where it may not)
        actions = [a + ("; if \"*/\" != \"*\" + \"/\" { Log = append(Log, -7) }" if i % 4 == 1 else "") for i, a in enumerate(actions)]
        if trace:
            # a run whose input starts with `!` begins with tracing off; the first action executed switches it on
            actions = ["if LateTrace { IsTrace = true }; " + a for a in actions]
    else:
        prologue = "// generated for verification"
        union = " a :number;\n b :number;"
        actions = ["Steps++; if (Steps > %d) { throw new Error(\"STEPLIMIT\") }; Log.push(%s); %s" %
                   (STEP_LIMIT, "reduceIndex" if xs.get("log_by_param") else str(i + 1), _assign(xs, i)) for i in range(len(xs["rules"]))]
        actions = [a + ("; if (\"*/\" != \"*\" + \"/\") { Log.push(-7) }" if i % 4 == 1 else "") for i, a in enumerate(actions)]
    out = ["%{\n" + prologue + "\n%}\n", "%union {\n" + union + "\n}\n"]
    # some terms get their value tag in a LATER %token line of their own: a named token after `%token NAME [number]`,
    # a literal after the precedence line that first mentions it
    in_prec = set(x for _, syms in xs.get("prec", []) for x in syms)
    late = [t for t in xs.get("late_tags", []) if not t.startswith("'") or t in in_prec]
    for t in xs["terms"]:
        num = xs.get("nums", {}).get(t)
        if t in late:
            if not t.startswith("'"):
                out.append("%%token %s%s\n" % (t, (" %d" % num) if num else ""))
            continue
        if t in xs.get("late_nums", []):
            num = None
        out.append("%%token <%s> %s%s\n" % (tags[t], t, (" %d" % num) if num else ""))
    for n in xs["nts"]:
        out.append("%%type <%s> %s\n" % (tags[n], n))
    for t in xs.get("late_nums", []):
        out.append("%%token %s %d\n" % (t, xs["nums"][t]))
    for kind, syms in xs.get("prec", []):
        out.append("%%%s %s\n" % (kind, " ".join(syms)))
    for t in late:
        out.append("%%token <%s> %s\n" % (tags[t], t))
    out.append("%%start %s\n%%%%\n" % xs["start"])
    last = None
    for i, r in enumerate(xs["rules"]):
        if r["lhs"] != last:
            if last is not None:
                out.append(" ;\n")
            out.append("%s :" % r["lhs"])
            last = r["lhs"]
        else:
            out.append("\n  |")
        for s in r["rhs"]:
            out.append(" " + s)
        if r.get("prec"):
            out.append(" %%prec %s" % r["prec"])
        out.append(" { %s }" % actions[i])
    out.append(" ;\n%%\n")
    codes = ", ".join(xs["terms"])
    st = tags[xs["start"]]
    if target == "go":
        call = "\tc := MakeParserContext()\n\tv := c.Parser(input)\n" if obj else "\tParserInit()\n\tv := Parser(input)\n"
        out.append("""
var Log []int
var Req int
var Steps int
var codes = []int{%s}
var pend = -1    // a token read ahead by the lexer: delivered by the next call, when *pos is already at the end
var pendPos = 0
func codeOf(c int) int {
	if c < 0 || c >= len(codes) {
		// 'y' and 'x' are codes just above the largest token code (where the generator numbers its
		// nonterminals); every other unknown letter is 9999
		if (c == 24 || c == 23) && len(codes) > 0 { m := codes[0]; for _, v := range codes { if v > m { m = v } }; return m + 25 - c }
		if c == 22 { return 0 } // 'w': the code 0 that example lexers return for an unknown character
		if c == 21 { return -2 } // 'v': a negative code other than the end marker (e.g. a lexer's own error code)
		return 9999
	}
	return codes[c]
}
func GetToken(input string, valTy *ValType, pos *int) int {
	Req++
	if pend >= 0 {
		c := pend; pend = -1
		*valTy = ValType{a: pendPos + 1, b: 2*pendPos + 1}
		return codeOf(c)
	}
	if *pos >= len(input) { return -1 }
	c := int(input[*pos] - 'a')
	*valTy = ValType{a: *pos + 1, b: 2*(*pos) + 1}
	*pos++
	// inputs of even length: the lexer reads the LAST character together with the one before it and keeps it for the
	// next call (a lexer with its own buffer: the position is at the end of the input while a token is still to come)
	if len(input)%%2 == 0 && *pos == len(input)-1 { pend = int(input[*pos] - 'a'); pendPos = *pos; *pos++ }
	return codeOf(c)
}
var LateTrace = false
func Run(input string) (verdict string, log []int, val int, req int) {
	Log = nil; Req = 0; Steps = 0; pend = -1; IsTrace = %s; LateTrace = false
	if strings.HasPrefix(input, "!") { input = input[1:]; LateTrace = IsTrace; IsTrace = false }
	defer func() {
		if e := recover(); e != nil {
			s := fmt.Sprint(e)
			if strings.HasPrefix(s, "Grammar error") { verdict = "reject" } else if s == "STEPLIMIT" { verdict = "loop"; Log = nil } else { verdict = "CRASH:" + strings.ReplaceAll(strings.ReplaceAll(s, " ", "_"), "\\n", "_") }
			log = Log; req = Req
		}
	}()
%s	if v == nil { return "nil", Log, 0, Req }
	return "accept", Log, v.%s, Req
}
""" % (codes, "true" if trace else "false", call, st))
    else:
        tscodes = ", ".join(t if not t.startswith("'") else str(ord(t[1])) for t in xs["terms"])
        out.append("""
var Log :number[] = [];
var Req = 0;
var Steps = 0;
var Errs :string[] = [];
const codes = [%s];
var pend = -1;
var pendPos = 0;
function codeOf(c :number) :number {
	if (c < 0 || c >= codes.length) {
		if ((c == 24 || c == 23) && codes.length > 0) { return Math.max(...codes) + 25 - c }
		if (c == 22) { return 0 }
		if (c == 21) { return -2 }
		return 9999
	}
	return codes[c];
}
function GetToken(input :string, model:{ValType :ValType, pos :number}) :number {
	Req++;
	if (pend >= 0) {
		let c = pend; pend = -1;
		model.ValType = new ValType();
		model.ValType.a = pendPos + 1;
		model.ValType.b = 2*pendPos + 1;
		return codeOf(c);
	}
	if (model.pos >= input.length) { return -1 }
	let c = input.charCodeAt(model.pos) - 97;
	model.ValType = new ValType();
	model.ValType.a = model.pos + 1;
	model.ValType.b = 2*model.pos + 1;
	model.pos++;
	if (input.length %% 2 == 0 && model.pos == input.length - 1) { pend = input.charCodeAt(model.pos) - 97; pendPos = model.pos; model.pos++ }
	return codeOf(c);
}
function Run(input :string) {
	Log = []; Req = 0; Steps = 0; Errs = []; pend = -1;
	const olderr = console.error;
	console.error = (m :any) => { Errs.push(String(m)) };
	try {
		initialize();
		let v = Parser(input);
		if (v === null || v === undefined) {
			if (Errs.length == 1 && Errs[0].startsWith("Gramm")) { return ["reject", Log, 0, Req] }
			return ["nil", Log, 0, Req]
		}
		return ["accept", Log, v.%s, Req]
	} catch (e :any) {
		let s = String(e && e.message !== undefined ? e.message : e);
		if (s == "STEPLIMIT") { return ["loop", [], 0, Req] }
		return ["CRASH:" + s.replace(/\\s/g, "_"), Log, 0, Req]
	} finally { console.error = olderr }
}
declare var require :any;
declare var process :any;
{
	const fs = require("fs");
	const inputs :string[] = JSON.parse(fs.readFileSync(process.argv[2], "utf8"));
	const outl :string[] = [];
	for (const inp of inputs) {
		const r = Run(inp);
		outl.push("END ts " + JSON.stringify(inp) + " " + r[0] + " [" + (r[1] as number[]).join(" ") + "] " + r[2] + " " + r[3]);
	}
	console.log(outl.join("\\n"));
}
""" % (tscodes, st))
    return "".join(out)


# ---------------------------------------------------------------- scraping generated files

def _ints(s):
    return [int(x) for x in re.findall(r"-?\d+", s)]


def _top_level(txt):
    """the text with everything inside braces blanked out (strings, character literals and comments are skipped over)"""
    out, depth, i, n = [], 0, 0, len(txt)
    while i < n:
        ch = txt[i]
        if txt.startswith("//", i):
            j = txt.find("\n", i)
            j = n if j < 0 else j
            out.append(txt[i:j] if depth == 0 else "")
            i = j
            continue
        if txt.startswith("/*", i):
            j = txt.find("*/", i + 2)
            j = n if j < 0 else j + 2
            i = j
            continue
        if ch in "\"'`":
            j = i + 1
            while j < n and txt[j] != ch:
                j += 2 if (txt[j] == "\\" and ch != "`") else 1
            i = min(n, j + 1)
            continue
        if ch == "{":
            depth += 1
        elif ch == "}":
            depth = max(0, depth - 1)
        elif depth == 0 or ch == "\n":
            out.append(ch)
        i += 1
    return "".join(out)


def scrape(path, target):
    """reads constants, tables, per-rule data and the translate switch out of a generated file; white space, optional
    semicolons and type annotations may vary (a re-indented or re-commented template reads the same)"""
    txt = open(path, encoding="utf-8", errors="replace").read()
    d = {"text_len": len(txt)}
    cdecl = r"const\s+%s(?:\s+\w+|\s*:\s*\w+)?\s*=\s*(-?\d+)"
    m = re.search(cdecl % "ERROR_ACTION", txt)
    d["err"] = int(m.group(1)) if m else None
    m = re.search(cdecl % "ACCEPT_ACTION", txt)
    d["acc"] = int(m.group(1)) if m else None
    m = re.search(cdecl % "NTERMINALS", txt)
    d["nterminals"] = int(m.group(1)) if m else None
    # token constants are TOP-LEVEL declarations: a `const` inside a function body (a local of the driver) is not one
    d["consts"] = {a: int(b) for a, b in re.findall(r"^[ \t]*const\s+(\w+)(?:[ \t]+\w+|[ \t]*:[ \t]*\w+)?[ \t]*=[ \t]*(-?\d+)[ \t]*;?[ \t]*$", _top_level(txt), re.M)
                   if a not in ("ERROR_ACTION", "ACCEPT_ACTION", "NTERMINALS")}
    if re.search(r"var\s+StatePackAction\b", txt):
        d["packed"] = True
        for key, name in (("act", "StatePackAction"), ("off", "StatePackOffset"), ("chk", "StackPackCheck"),
                          ("adef", "StackPackActDef"), ("gdef", "StackPackGotoDef")):
            m = re.search(r"var\s+%s\s*=\s*\[\]int\s*\{([^}]*)\}" % name, txt)
            d[key] = _ints(m.group(1)) if m else None
    else:
        d["packed"] = False
        if target == "go":
            m = re.search(r"var\s+StateActionArray\s*=\s*\[\]\[\]int\s*\{(.*?)\n\}[ \t]*\n\s*func", txt, re.S)
            body = m.group(1) if m else ""
            d["rows"] = [_ints(r) for _, r in re.findall(r"/\*\s*(\d+)\s*\*/\s*\{([^}]*)\}\s*,", body)]
        else:
            m = re.search(r"var\s+StateActionArray\s*:\s*number\[\]\[\]\s*=\s*\[(.*?)\n\][ \t]*;?[ \t]*\n", txt, re.S)
            body = m.group(1) if m else ""
            d["rows"] = [_ints(r) for _, r in re.findall(r"/\*\s*(\d+)\s*\*/\s*\[([^\]]*)\]\s*,", body)]
    rules = {}
    if target == "go":
        for m in re.finditer(r"case\s+(\d+)\s*:\s*dollarDolar\.YySymIndex\s*=\s*(\d+)\s*Dollar\s*:=\s*[\w.]+\[\s*topIndex\s*-\s*(\d+)\s*:\s*[\w.]+\s*\]", txt):
            rules[int(m.group(1))] = {"lhs": int(m.group(2)), "base": int(m.group(3))}
        pops = re.findall(r"[ \t](?:c\.)?PopStateSym\((\d+)\)[ \t]*\n", txt)
    else:
        for m in re.finditer(r"case\s+(\d+)\s*:\s*\{\s*dollarDolar\.YySymIndex\s*=\s*(\d+)\s*;?\s*let\s+Dollar\s*=\s*StateSymStack\.slice\(\s*topIndex\s*-\s*(\d+)\s*,\s*StackPointer\s*\)", txt):
            rules[int(m.group(1))] = {"lhs": int(m.group(2)), "base": int(m.group(3))}
        pops = re.findall(r"[ \t]PopStateSym\((\d+)\)\s*;?\s*break\b", txt)
    for i, r in enumerate(sorted(rules)):
        rules[r]["pop"] = int(pops[i]) if i < len(pops) else None
    d["rules"] = rules
    tr = {}
    if target == "go":
        m = re.search(r"func\s+translate\(\s*\w+\s+int\s*\)\s*int\s*\{(.*?)\n\s*return\s+\w+", txt, re.S)
        body = m.group(1) if m else ""
        for a, b in re.findall(r"case\s+(-?\d+)\s*:\s*\w+\s*=\s*(\d+)", body):
            tr.setdefault(int(a), int(b))
    else:
        m = re.search(r"function\s+translate\(\s*\w+\s*:\s*number\s*\)\s*:\s*number\s*\{(.*?)\n\s*return\s+\w+", txt, re.S)
        body = m.group(1) if m else ""
        for a, b in re.findall(r"case\s+(-?\d+)\s*:\s*\w+\s*=\s*(\d+)\s*;?", body):
            tr.setdefault(int(a), int(b))
    d["translate"] = tr
    return d


def tok_map(xs, sc):
    """letter index -> symbol id, through the emitted constants and translate switch"""
    out = []
    codes = []
    for t in xs["terms"]:
        if t.startswith("'"):
            code = ord(t[1])
        else:
            code = sc["consts"].get(t)
        out.append(sc["translate"].get(code, 0) if code is not None else 0)
        codes.append(code)
    # letters 'x' (23) and 'y' (24): the codes just above the largest token code, through this file's own translate
    known = [c for c in codes if c is not None]
    if known and len(out) < 21 and len(known) == len(codes):
        out += [0] * (26 - len(out))
        out[24] = sc["translate"].get(max(known) + 1, 0)
        out[23] = sc["translate"].get(max(known) + 2, 0)
        out[22] = sc["translate"].get(0, 0)           # letter 'w' = code 0
        out[21] = sc["translate"].get(-2, 0)          # letter 'v' = code -2
    return out


def model_block(cid, xs, sc, inputs, trace):
    """lines of the XCASE block for ymodel"""
    L = ["XCASE " + cid]
    nT = sc["nterminals"] if sc["nterminals"] is not None else 0
    L.append("XCONST %d %d %d %d %d" % (sc["err"], sc["acc"], nT, STEP_LIMIT, 1 if trace else 0))
    if sc["packed"]:
        for k in ("act", "off", "chk", "adef", "gdef"):
            L.append("X%s %s" % (k.upper(), " ".join(map(str, sc[k]))))
    else:
        for r in sc["rows"]:
            L.append("XROW " + " ".join(map(str, r)))
    tagn = {"a": 0, "b": 1}
    for i, r in enumerate(xs["rules"]):
        sr = sc["rules"].get(i + 1)
        if sr is None:
            continue
        terms = " ".join("%d:%d" % (c, tagn[xs["tags"][s]]) for c, s in zip(xs["coef"][i], r["rhs"]))
        L.append("XRULE %d %d %d %d %d %s" % (i + 1, sr["lhs"], tagn[xs["tags"][r["lhs"]]], sr["base"], xs["K"][i], terms))
    L.append("XTOK " + " ".join(map(str, tok_map(xs, sc))))
    L.append("XSTART %d" % tagn[xs["tags"][xs["start"]]])
    for w in inputs:
        L.append("XINPUT " + (" ".join(str(ord(c) - 97) for c in w) if w else "-"))
    L.append("XEND")
    return L


# ---------------------------------------------------------------- the whole X run

class XResult:
    pass


def run_x(xcases, inputs_of, trace=False, variants=VARIANTS, timeout=900):
    """xcases: list of dict(id, xs). inputs_of(case) -> list of letter strings.
    Returns dict with per (case, variant): gen status, scraped data, runs (impl), model runs."""
    work = common.tmpdir("x")
    node = find_node()
    jobs = []
    meta = {}
    for ci, c in enumerate(xcases):
        for vi, (target, unpack, obj, vname) in enumerate(variants):
            pkg = "g%dv%d" % (ci, vi)
            if target == "go":
                d = os.path.join(work, "xp", pkg)
                os.makedirs(d, exist_ok=True)
                outp = os.path.join(d, "p.go")
            else:
                d = os.path.join(work, "ts")
                os.makedirs(d, exist_ok=True)
                outp = os.path.join(d, pkg + ".ts")
            src = render_x(c["xs"], target, pkg, obj, trace)
            jid = "%s|%s" % (c["id"], vname)
            job = {"id": jid, "src": src, "out": outp, "target": target, "unpack": unpack, "object": obj}
            if ci % 3 == 0:
                job["dotg"] = outp + ".dot"        # the -g option: the graph is drawn during the same run
            jobs.append(job)
            meta[jid] = {"case": c, "variant": vname, "pkg": pkg, "out": outp, "target": target, "src": src}
    inp = "".join(json.dumps(j) + "\n" for j in jobs).encode()
    p = common.sh([os.path.join(common.BIN, "yharness"), "xgen"], inp=inp, timeout=timeout)
    if p.returncode != 0:
        raise RuntimeError("xgen failed: " + p.stderr.decode(errors="replace")[-2000:])
    for line in p.stdout.decode(errors="replace").split("\n"):
        f = line.split()
        if len(f) >= 3 and f[0] == "XGEN":
            meta[f[1]]["gen"] = f[2:]
    # a case is usable if all its variants generated
    res = {"meta": meta, "node": node, "skipped_ts": 0, "build_error": None}
    usable = []
    for c in xcases:
        st = [meta["%s|%s" % (c["id"], v[3])].get("gen", ["missing"]) for v in variants]
        c["gen_status"] = st
        if all(s[0] == "ok" for s in st):
            usable.append(c)
        else:
            for v in variants:
                m = meta["%s|%s" % (c["id"], v[3])]
                if m["target"] == "go":
                    shutil.rmtree(os.path.dirname(m["out"]), ignore_errors=True)
    res["usable"] = usable
    # scrape
    for c in usable:
        c["inputs"] = inputs_of(c)
        for v in variants:
            m = meta["%s|%s" % (c["id"], v[3])]
            m["scrape"] = scrape(m["out"], m["target"])
    # build the runner
    go_variants = [v for v in variants if v[0] == "go"]
    imports, table = [], []
    for c in usable:
        for v in go_variants:
            m = meta["%s|%s" % (c["id"], v[3])]
            imports.append('\t%s "xp/xp/%s"' % (m["pkg"], m["pkg"]))
            table.append('\t"%s": %s.Run,' % (m["pkg"], m["pkg"]))
    os.makedirs(os.path.join(work, "runner"), exist_ok=True)
    open(os.path.join(work, "go.mod"), "w").write("module xp\n\ngo 1.18\n")
    open(os.path.join(work, "runner", "main.go"), "w").write("""package main
import (
	"bufio"
	"fmt"
	"os"
	"strings"
%s
)
var tab = map[string]func(string) (string, []int, int, int){
%s
}
func main() {
	sc := bufio.NewScanner(os.Stdin)
	sc.Buffer(make([]byte, 1<<20), 1<<24)
	for sc.Scan() {
		f := strings.SplitN(sc.Text(), " ", 2)
		in := ""
		if len(f) > 1 { in = f[1] }
		fmt.Printf("BEGIN %%s %%q\\n", f[0], in)
		v, l, val, req := tab[f[0]](in)
		fmt.Printf("END %%s %%q %%s %%v %%d %%d\\n", f[0], in, v, l, val, req)
	}
}
""" % ("\n".join(imports), "\n".join(table)))
    runs = {}
    if usable and go_variants:
        env = dict(common.GOENV)
        env["GOFLAGS"] = "-mod=mod"
        b = common.sh(["go", "build", "-o", os.path.join(work, "runner.bin"), "./runner"], cwd=work, env=env, timeout=timeout)
        if b.returncode != 0:
            res["build_error"] = b.stderr.decode(errors="replace")
        else:
            lines = []
            for c in usable:
                for v in go_variants:
                    m = meta["%s|%s" % (c["id"], v[3])]
                    for w in c["inputs"]:
                        lines.append("%s %s" % (m["pkg"], w))
                    if trace:
                        for w in [x for x in c["inputs"] if x][:12]:
                            lines.append("%s !%s" % (m["pkg"], w))
            r = common.sh(["bash", "-c", "ulimit -v 8000000; exec %s" % os.path.join(work, "runner.bin")],
                          inp=("\n".join(lines) + "\n").encode(), timeout=timeout)
            res["runner_rc"] = r.returncode
            cur_trace = []
            for line in r.stdout.decode(errors="replace").split("\n"):
                if line.startswith("BEGIN "):
                    cur_trace = []
                elif line.startswith("END "):
                    m2 = re.match(r'END (\w+) "([^"]*)" (\S+) \[([^\]]*)\] (-?\d+) (\d+)', line)
                    if m2:
                        runs[(m2.group(1), m2.group(2))] = {"verdict": m2.group(3), "log": _ints(m2.group(4)),
                                                            "val": int(m2.group(5)), "req": int(m2.group(6)), "trace": cur_trace}
                elif line:
                    cur_trace.append(line)
    # TypeScript
    ts_variants = [v for v in variants if v[0] == "typescript"]
    if ts_variants and node is None:
        res["skipped_ts"] = len(usable)
    elif ts_variants:
        procs = []
        for c in usable:
            m = meta["%s|ts" % c["id"]]
            inf = m["out"] + ".inputs.json"
            json.dump(c["inputs"], open(inf, "w"))
            procs.append((m, subprocess.Popen([node, "--experimental-strip-types", "--no-warnings", m["out"], inf],
                                              stdout=subprocess.PIPE, stderr=subprocess.PIPE)))
            if len(procs) >= 16:
                _collect_ts(procs, runs)
                procs = []
        _collect_ts(procs, runs)
    res["runs"] = runs
    # model
    blocks = []
    for c in usable:
        for v in variants:
            m = meta["%s|%s" % (c["id"], v[3])]
            blocks.extend(model_block("%s|%s" % (c["id"], v[3]), c["xs"], m["scrape"], c["inputs"], trace))
    mo = common.sh([common.YMODEL], inp=("\n".join(blocks) + "\n").encode(), timeout=timeout)
    mruns = {}
    cur = None
    for line in mo.stdout.decode(errors="replace").split("\n"):
        f = line.split()
        if not f:
            continue
        if f[0] == "XCASE":
            cur = f[1]
        elif f[0] == "XR":
            mruns[(cur, int(f[1]))] = {"verdict": f[2], "req": int(f[3]), "val": int(f[4]), "log": [int(x) for x in f[5:]]}
        elif f[0] == "XT":
            mruns[(cur, int(f[1]))]["trace"] = f[2:]
    res["mruns"] = mruns
    res["work"] = work
    return res


def _collect_ts(procs, runs):
    for m, p in procs:
        try:
            out, err = p.communicate(timeout=120)
        except subprocess.TimeoutExpired:
            p.kill()
            out, err = p.communicate()
        m["ts_rc"] = p.returncode
        m["ts_err"] = err.decode(errors="replace")[-2000:]
        for line in out.decode(errors="replace").split("\n"):
            m2 = re.match(r'END ts "([^"]*)" (\S+) \[([^\]]*)\] (\S+) (\d+)', line)
            if m2:
                # a value that is not an integer (NaN, undefined) is kept as text: it differs from every expected value
                val = int(m2.group(4)) if re.fullmatch(r"-?\d+", m2.group(4)) else m2.group(4)
                runs[(m["pkg"], m2.group(1))] = {"verdict": m2.group(2), "log": _ints(m2.group(3)),
                                                 "val": val, "req": int(m2.group(5)), "trace": []}


def impl_run(res, c, vname, w):
    m = res["meta"]["%s|%s" % (c["id"], vname)]
    return res["runs"].get((m["pkg"], w))


def model_run(res, c, vname, i):
    return res["mruns"].get(("%s|%s" % (c["id"], vname), i))


def norm_verdict(v):
    if v.startswith("CRASH") or v.startswith("crash"):
        return "crash"
    return v


# ---------------------------------------------------------------- C15: histories, reuse, concurrency

def render_conc(xs, pkg):
    """object-mode file whose epilogue keeps no global parse state (per-context logs), so that
    concurrent contexts can be run under the race detector"""
    tags = xs["tags"]
    out = ["%{\npackage " + pkg + "\nimport \"fmt\"\nimport \"strings\"\nimport \"sync\"\n%}\n", "%union {\n a int\n b int\n}\n"]
    for t in xs["terms"]:
        out.append("%%token <%s> %s\n" % (tags[t], t))
    for n in xs["nts"]:
        out.append("%%type <%s> %s\n" % (tags[n], n))
    for kind, syms in xs.get("prec", []):
        out.append("%%%s %s\n" % (kind, " ".join(syms)))
    out.append("%%start %s\n%%%%\n" % xs["start"])
    last = None
    for i, r in enumerate(xs["rules"]):
        if r["lhs"] != last:
            if last is not None:
                out.append(" ;\n")
            out.append("%s :" % r["lhs"])
            last = r["lhs"]
        else:
            out.append("\n  |")
        for s in r["rhs"]:
            out.append(" " + s)
        if r.get("prec"):
            out.append(" %%prec %s" % r["prec"])
        out.append(" { note(c, %d); %s }" % (i + 1, _assign(xs, i)))
    out.append(" ;\n%%\n")
    out.append("""
var mu sync.Mutex
var logs = map[*Context][]int{}
func note(c *Context, r int) {
	mu.Lock()
	logs[c] = append(logs[c], r)
	n := len(logs[c])
	mu.Unlock()
	if n > %d { panic("STEPLIMIT") }
}
func take(c *Context) []int { mu.Lock(); l := logs[c]; delete(logs, c); mu.Unlock(); return l }
var codes = []int{%s}
func GetToken(input string, valTy *ValType, pos *int) int {
	if *pos >= len(input) { return -1 }
	c := int(input[*pos] - 'a')
	*valTy = ValType{a: *pos + 1, b: 2*(*pos) + 1}
	*pos++
	if c < 0 || c >= len(codes) {
		// 'y' and 'x' are codes just above the largest token code (where the generator numbers its
		// nonterminals); every other unknown letter is 9999
		if (c == 24 || c == 23) && len(codes) > 0 { m := codes[0]; for _, v := range codes { if v > m { m = v } }; return m + 25 - c }
		if c == 22 { return 0 } // 'w': the code 0 that example lexers return for an unknown character
		if c == 21 { return -2 } // 'v': a negative code other than the end marker (e.g. a lexer's own error code)
		return 9999
	}
	return codes[c]
}
type Res struct { V string; Log []int; Val int }
func parseOn(c *Context, input string) (res Res) {
	defer func() {
		if e := recover(); e != nil {
			s := fmt.Sprint(e)
			if strings.HasPrefix(s, "Grammar error") { res.V = "reject" } else if s == "STEPLIMIT" { res.V = "loop" } else { res.V = "CRASH:" + strings.ReplaceAll(s, " ", "_") }
			res.Log = take(c)
			if res.V == "loop" { res.Log = nil }
		}
	}()
	v := c.Parser(input)
	if v == nil { return Res{"nil", take(c), 0} }
	val := v.%s
	return Res{"accept", take(c), val}
}
func Fresh(input string) Res { return parseOn(MakeParserContext(), input) }
func Reuse(inputs []string) []Res {
	c := MakeParserContext()
	var out []Res
	for _, in := range inputs { c.ParserInit(); out = append(out, parseOn(c, in)) }
	return out
}
func Conc(inputs []string, rounds int) [][]Res {
	out := make([][]Res, len(inputs))
	var wg sync.WaitGroup
	for i := range inputs {
		wg.Add(1)
		go func(i int) {
			defer wg.Done()
			c := MakeParserContext()
			for r := 0; r < rounds; r++ { c.ParserInit(); out[i] = append(out[i], parseOn(c, inputs[i])) }
		}(i)
	}
	wg.Wait()
	return out
}
""" % (STEP_LIMIT, ", ".join(xs["terms"]), tags[xs["start"]]))
    return "".join(out)


def run_c15(xcases, inputs_of, rng, timeout=900):
    work = common.tmpdir("c15")
    node = find_node()
    jobs, meta = [], {}
    for ci, c in enumerate(xcases):
        for kind, target, obj in (("h", "go", False), ("c", "go", True), ("ts", "typescript", False)):
            pkg = "g%d%s" % (ci, kind)
            if target == "go":
                d = os.path.join(work, "xp", pkg)
                os.makedirs(d, exist_ok=True)
                outp = os.path.join(d, "p.go")
            else:
                os.makedirs(os.path.join(work, "ts"), exist_ok=True)
                outp = os.path.join(work, "ts", pkg + ".ts")
            if kind == "c":
                src = render_conc(c["xs"], pkg)
            else:
                src = render_x(c["xs"], target, pkg, False, False)
            jid = "%s|%s" % (c["id"], kind)
            jobs.append({"id": jid, "src": src, "out": outp, "target": target, "unpack": False, "object": obj})
            meta[jid] = {"pkg": pkg, "out": outp, "src": src, "kind": kind, "target": target}
    p = common.sh([os.path.join(common.BIN, "yharness"), "xgen"], inp="".join(json.dumps(j) + "\n" for j in jobs).encode(), timeout=timeout)
    for line in p.stdout.decode(errors="replace").split("\n"):
        f = line.split()
        if len(f) >= 3 and f[0] == "XGEN":
            meta[f[1]]["gen"] = f[2:]
    usable = []
    for c in xcases:
        if all(meta["%s|%s" % (c["id"], k)].get("gen", ["?"])[0] == "ok" for k in ("h", "c", "ts")):
            usable.append(c)
        else:
            for k in ("h", "c"):
                shutil.rmtree(os.path.dirname(meta["%s|%s" % (c["id"], k)]["out"]), ignore_errors=True)
    res = {"usable": usable, "meta": meta, "node": node, "build_error": None, "race": None}
    imports, cases_go = [], []
    for c in usable:
        base = inputs_of(c)
        hist = list(base)
        rng.shuffle(hist)
        hist = hist + hist[: len(hist) // 2]
        c["base"] = base
        c["hist"] = hist
        h = meta["%s|h" % c["id"]]["pkg"]
        k = meta["%s|c" % c["id"]]["pkg"]
        imports.append('\t%s "xp/xp/%s"\n\t%s "xp/xp/%s"' % (h, h, k, k))
        cases_go.append('\t"%s": func(in []string) interface{} { var o []interface{}; for _, x := range in { v, l, val, _ := %s.Run(x); o = append(o, []interface{}{v, l, val}) }; return o },' % (h, h))
        cases_go.append('\t"%s:F": func(in []string) interface{} { var o []interface{}; for _, x := range in { o = append(o, %s.Fresh(x)) }; return o },' % (k, k))
        cases_go.append('\t"%s:R": func(in []string) interface{} { return %s.Reuse(in) },' % (k, k))
        cases_go.append('\t"%s:C": func(in []string) interface{} { return %s.Conc(in, 3) },' % (k, k))
    open(os.path.join(work, "go.mod"), "w").write("module xp\n\ngo 1.18\n")
    os.makedirs(os.path.join(work, "runner"), exist_ok=True)
    open(os.path.join(work, "runner", "main.go"), "w").write("""package main
import (
	"bufio"
	"encoding/json"
	"fmt"
	"os"
%s
)
var tab = map[string]func([]string) interface{}{
%s
}
type Req struct { Key string; In []string }
func main() {
	sc := bufio.NewScanner(os.Stdin)
	sc.Buffer(make([]byte, 1<<20), 1<<24)
	for sc.Scan() {
		var r Req
		json.Unmarshal(sc.Bytes(), &r)
		out, _ := json.Marshal(map[string]interface{}{"key": r.Key, "out": tab[r.Key](r.In)})
		fmt.Println(string(out))
	}
}
""" % ("\n".join(imports), "\n".join(cases_go)))
    out = {}
    if usable:
        b = common.sh(["go", "build", "-race", "-o", os.path.join(work, "runner.bin"), "./runner"], cwd=work, env=common.GOENV, timeout=timeout)
        res["race_build"] = True
        if b.returncode != 0:
            # the race detector may be unavailable: fall back to a plain build and say so
            res["race_build"] = False
            b = common.sh(["go", "build", "-o", os.path.join(work, "runner.bin"), "./runner"], cwd=work, env=common.GOENV, timeout=timeout)
        if b.returncode != 0:
            res["build_error"] = b.stderr.decode(errors="replace")
        else:
            lines = []
            for c in usable:
                h = meta["%s|h" % c["id"]]["pkg"]
                k = meta["%s|c" % c["id"]]["pkg"]
                nonloop = c["base"]
                lines.append(json.dumps({"Key": h, "In": c["hist"]}))
                lines.append(json.dumps({"Key": k + ":F", "In": c["base"]}))
                lines.append(json.dumps({"Key": k + ":R", "In": c["hist"]}))
                lines.append(json.dumps({"Key": k + ":C", "In": nonloop[:16]}))
            r = common.sh([os.path.join(work, "runner.bin")], inp=("\n".join(lines) + "\n").encode(), timeout=timeout)
            # solo reference: every base input alone in a FRESH PROCESS of the same binary (global form)
            from concurrent.futures import ThreadPoolExecutor
            solo_jobs = [(c, w) for c in usable for w in c["base"]]

            def solo(job):
                c, w = job
                h = meta["%s|h" % c["id"]]["pkg"]
                try:
                    pr = subprocess.run([os.path.join(work, "runner.bin")], input=(json.dumps({"Key": h, "In": [w]}) + "\n").encode(),
                                        stdout=subprocess.PIPE, stderr=subprocess.DEVNULL, timeout=60)
                    for line in pr.stdout.decode(errors="replace").split("\n"):
                        if line.startswith("{"):
                            return (c["id"], w, json.loads(line)["out"][0])
                except Exception:
                    pass
                return (c["id"], w, None)
            with ThreadPoolExecutor(max_workers=16) as ex:
                res["solo"] = {(cid, w): o for cid, w, o in ex.map(solo, solo_jobs)}
            err = r.stderr.decode(errors="replace")
            if "DATA RACE" in err:
                res["race"] = err[:3000]
            res["runner_rc"] = r.returncode
            for line in r.stdout.decode(errors="replace").split("\n"):
                if line.startswith("{"):
                    try:
                        d = json.loads(line)
                        out[d["key"]] = d["out"]
                    except Exception:
                        pass
    res["out"] = out
    # TypeScript: the history (shuffled, with repeats) in one process
    tsruns = {}
    if node:
        procs = []
        for c in usable:
            m = meta["%s|ts" % c["id"]]
            inf = m["out"] + ".inputs.json"
            json.dump(c["hist"], open(inf, "w"))
            p2 = subprocess.run([node, "--experimental-strip-types", "--no-warnings", m["out"], inf], stdout=subprocess.PIPE, stderr=subprocess.PIPE, timeout=300)
            rs = []
            for line in p2.stdout.decode(errors="replace").split("\n"):
                m2 = re.match(r'END ts "([^"]*)" (\S+) \[([^\]]*)\] (-?\d+) (\d+)', line)
                if m2:
                    rs.append((m2.group(1), m2.group(2), _ints(m2.group(3)), int(m2.group(4))))
            tsruns[c["id"]] = rs
        # solo reference for TypeScript: every base input alone in a fresh node process
        from concurrent.futures import ThreadPoolExecutor

        def tsolo(job):
            c, w, k = job
            m = meta["%s|ts" % c["id"]]
            inf = m["out"] + ".solo%d.json" % k
            json.dump([w], open(inf, "w"))
            try:
                p3 = subprocess.run([node, "--experimental-strip-types", "--no-warnings", m["out"], inf], stdout=subprocess.PIPE, stderr=subprocess.PIPE, timeout=120)
                for line in p3.stdout.decode(errors="replace").split("\n"):
                    m3 = re.match(r'END ts "([^"]*)" (\S+) \[([^\]]*)\] (-?\d+) (\d+)', line)
                    if m3:
                        return (c["id"], w, [m3.group(2), _ints(m3.group(3)), int(m3.group(4))])
            except Exception:
                pass
            return (c["id"], w, None)
        tj = [(c, w, k) for c in usable for k, w in enumerate(c["base"])]
        with ThreadPoolExecutor(max_workers=16) as ex:
            res["tssolo"] = {(cid, w): o for cid, w, o in ex.map(tsolo, tj)}
    res["tsruns"] = tsruns
    # the model: a pure function of the input (scraped table of the global variant)
    blocks = []
    for c in usable:
        m = meta["%s|h" % c["id"]]
        sc = scrape(m["out"], "go")
        blocks.extend(model_block(c["id"], c["xs"], sc, c["base"], False))
    mo = common.sh([common.YMODEL], inp=("\n".join(blocks) + "\n").encode(), timeout=timeout)
    mruns = {}
    cur = None
    for line in mo.stdout.decode(errors="replace").split("\n"):
        f = line.split()
        if not f:
            continue
        if f[0] == "XCASE":
            cur = f[1]
        elif f[0] == "XR":
            mruns[(cur, int(f[1]))] = (norm_verdict(f[2]), [int(x) for x in f[5:]], int(f[4]))
    res["mruns"] = mruns
    return res


# ---------------------------------------------------------------- C15: nested parses through the global template's context stack

NESTED_Y = r"""%{
package main
import "fmt"
import "bufio"
import "os"
%}
%union {
 val int
 str string
}
%token <val> NUM
%token <str> SUB
%token <str> TRY
%type <val> E Q
%left '+'
%left '*'
%start E
%%
E : E '+' E { $$ = $1 + $3 }
  | E '*' E { $$ = $1 * $3 }
  | NUM { $$ = $1 }
  | Q { $$ = $1 }
  | TRY { $$ = tryParse($1) }
  | Q NUM { $$ = $1 * 1000 + $2 }
  ;
Q : SUB { PushContex(); ParserInit(); v := Parser($1); PopContex(); $$ = v.val * 2 }
  | SUB '&' SUB { PushContex(); ParserInit(); l := Parser($1); PopContex(); PushContex(); ParserInit(); r := Parser($3); PopContex(); $$ = l.val * 100 + r.val }
  ;
%%
func GetToken(input string, valTy *ValType, pos *int) int {
	if *pos >= len(input) { return -1 }
	c := input[*pos]
	switch {
	case c >= '0' && c <= '9':
		n := 0
		for *pos < len(input) && input[*pos] >= '0' && input[*pos] <= '9' { n = n*10 + int(input[*pos]-'0'); *pos++ }
		valTy.val = n
		return NUM
	case c == '+':
		*pos++
		return '+'
	case c == '*':
		*pos++
		return '*'
	case c == '&':
		*pos++
		return '&'
	case c == '[':
		depth, i := 0, *pos
		for ; i < len(input); i++ {
			if input[i] == '[' { depth++ }
			if input[i] == ']' { depth--; if depth == 0 { break } }
		}
		if i >= len(input) { *pos = len(input); return 9999 }
		valTy.str = input[*pos+1 : i]
		*pos = i + 1
		return TRY
	case c == '{':
		depth, i := 0, *pos
		for ; i < len(input); i++ {
			if input[i] == '{' { depth++ }
			if input[i] == '}' { depth--; if depth == 0 { break } }
		}
		if i >= len(input) { *pos = len(input); return 9999 }
		valTy.str = input[*pos+1 : i]
		*pos = i + 1
		return SUB
	}
	*pos++
	return 9999
}
// tryParse: a nested parse whose failure is CAUGHT: the enclosing parse goes on with -1
func tryParse(s string) (r int) {
	PushContex()
	defer PopContex()
	defer func() { if e := recover(); e != nil { r = -1 } }()
	ParserInit()
	v := Parser(s)
	if v == nil { return -1 }
	return v.val
}
func run(in string) (out string) {
	defer func() { if e := recover(); e != nil { out = "reject" } }()
	ParserInit()
	v := Parser(in)
	if v == nil { return "nil" }
	return fmt.Sprint("accept ", v.val)
}
func main() {
	sc := bufio.NewScanner(os.Stdin)
	for sc.Scan() { fmt.Println("OUT " + run(sc.Text())) }
}
"""

NESTED_INPUTS = ["1+2", "{2}", "1+{2}", "100+{2+}", "1+{2}", "{1+{2}}", "7+{{3}+1}", "50+{{4+}+1}", "1+{2}", "{{1}+{2}}+3",
                 "9+", "1+{2}", "{", "3+{4}+{5+{6}}", "100+{+}", "{1}+{2}", "{1+2}5", "4+{3}7", "{{2}9}1+{6}8", "{10}7+1",
                 # the nested parse starts while the outer stack is LOWER than it has been before (after `2*3` was reduced)
                 "1+2*3+{4}", "2*3*4+{1+1}", "1+2*{3}", "5*6+{7*{8}}+1", "1+2*3+{4+}", "2*{1+2}3+1",
                 # two nested parses in one action: the result of the first is read after the second has run
                 "{1+2}&{3*4}", "5+{7}&{2}", "{{1}&{2}}&{9}", "{3}&{4+}", "{1}&{2}7",
                 # a nested parse that is rejected and CAUGHT: the enclosing parse continues where it was
                 "[1+2]+3", "[1+]+2", "[1+]+2+3", "[12[]+5", "2+[7+]", "[+]*5+1", "[{2+}]+4", "[1+[2+]]"]


def nested_expected(w):
    """what NESTED_Y's parser must answer for input w: sums and products of numbers (`*` binds tighter), `{…}` = twice
    the value of the sub-string parsed by a nested parse, `{…}N` = that times 1000 plus N; anything else is rejected"""
    def parse(s):
        pos = [0]

        def num():
            j = pos[0]
            while j < len(s) and s[j].isdigit():
                j += 1
            if j == pos[0]:
                return None
            v = int(s[pos[0]:j])
            pos[0] = j
            return v

        def atom():
            if pos[0] < len(s) and s[pos[0]].isdigit():
                return num()
            if pos[0] < len(s) and s[pos[0]] == "[":
                depth, j = 0, pos[0]
                while j < len(s):
                    if s[j] == "[":
                        depth += 1
                    if s[j] == "]":
                        depth -= 1
                        if depth == 0:
                            break
                    j += 1
                if j >= len(s):
                    return None
                v = parse(s[pos[0] + 1:j])
                pos[0] = j + 1
                return -1 if v is None else v      # a rejected nested parse is caught: the enclosing parse goes on with -1
            if pos[0] < len(s) and s[pos[0]] == "{":
                depth, j = 0, pos[0]
                while j < len(s):
                    if s[j] == "{":
                        depth += 1
                    if s[j] == "}":
                        depth -= 1
                        if depth == 0:
                            break
                    j += 1
                if j >= len(s):
                    return None
                v = parse(s[pos[0] + 1:j])
                if v is None:
                    return None
                pos[0] = j + 1
                if pos[0] + 1 < len(s) and s[pos[0]] == "&" and s[pos[0] + 1] == "{":
                    # `{…}&{…}`: two nested parses, the first result is still needed after the second
                    depth, k = 0, pos[0] + 1
                    while k < len(s):
                        if s[k] == "{":
                            depth += 1
                        if s[k] == "}":
                            depth -= 1
                            if depth == 0:
                                break
                        k += 1
                    if k >= len(s):
                        return None
                    v2 = parse(s[pos[0] + 2:k])
                    if v2 is None:
                        return None
                    pos[0] = k + 1
                    q = v * 100 + v2
                else:
                    q = 2 * v
                if pos[0] < len(s) and s[pos[0]].isdigit():      # directly followed by a number: Q NUM
                    return q * 1000 + num()
                return q
            return None

        def term():
            v = atom()
            while v is not None and pos[0] < len(s) and s[pos[0]] == "*":
                pos[0] += 1
                r = atom()
                v = None if r is None else v * r
            return v

        v = term()
        while v is not None and pos[0] < len(s) and s[pos[0]] == "+":
            pos[0] += 1
            r = term()
            v = None if r is None else v + r
        if v is None or pos[0] != len(s):
            return None
        return v
    v = parse(w)
    return "reject" if v is None else "accept %d" % v


def nested_variant(obj, counter):
    """NESTED_Y rewritten for the -o (context object) form and/or with a lexer that COUNTS tokens in the
    value cell it is handed (the cell is fresh and zero at the start of every parse)"""
    y = NESTED_Y
    if counter:
        y = y.replace(" val int\n str string\n", " val int\n str string\n cnt int\n")
        y = y.replace("\tif *pos >= len(input) { return -1 }\n\tc := input[*pos]\n",
                      "\tif *pos >= len(input) { return -1 }\n\tvalTy.cnt++\n\tc := input[*pos]\n")
        y = y.replace("\t\tvalTy.val = n\n", "\t\tvalTy.val = n + 1000*valTy.cnt\n")
    if obj:
        y = y.replace("PushContex(); ParserInit(); v := Parser($1); PopContex(); $$ = v.val * 2",
                      "sub := MakeParserContext(); v := sub.Parser($1); $$ = v.val * 2")
        y = y.replace("PushContex(); ParserInit(); l := Parser($1); PopContex(); PushContex(); ParserInit(); r := Parser($3); PopContex(); $$ = l.val * 100 + r.val",
                      "sub := MakeParserContext(); l := sub.Parser($1); sub.ParserInit(); r := sub.Parser($3); $$ = l.val * 100 + r.val")
        y = y.replace("\tPushContex()\n\tdefer PopContex()\n\tdefer func() { if e := recover(); e != nil { r = -1 } }()\n\tParserInit()\n\tv := Parser(s)\n",
                      "\tsub := MakeParserContext()\n\tdefer func() { if e := recover(); e != nil { r = -1 } }()\n\tv := sub.Parser(s)\n")
        y = y.replace("\tParserInit()\n\tv := Parser(in)\n", "\tTheCtx.ParserInit()\n\tv := TheCtx.Parser(in)\n")
        y = y.replace("func run(in string) (out string) {", "var TheCtx = MakeParserContext()\nfunc run(in string) (out string) {")
    return y


def run_c15_nested(rng, with_expected=False, solo_out=None):
    """Grammars whose action parses a sub-string with a nested parse: the package-global form through
    PushContex / ParserInit / Parser / PopContex, the -o form through a second context; also with a lexer
    that keeps a counter in the value cell.  A history of such parses, some failing inside the nested
    parse, each preceded by ParserInit(); every result must equal the result of the same input alone in
    a fresh process.  Returns (ties, violations, evaluations)."""
    scenarios = [("global", NESTED_Y, []), ("-o, nested parse on a second context", nested_variant(True, False), ["-o"])]
    if not with_expected:
        scenarios += [("global, counting lexer", nested_variant(False, True), []),
                      ("-o, counting lexer", nested_variant(True, True), ["-o"])]
    ties, viol, evals = [], [], 0
    wrong_all, solo_n = [], 0
    for label, ytext, flags in scenarios:
        work = common.tmpdir("c15n")
        open(os.path.join(work, "n.y"), "w").write(ytext)
        open(os.path.join(work, "go.mod"), "w").write("module nested\n\ngo 1.18\n")
        p = common.sh([os.path.join(common.BIN, "yaccgo"), "generate"] + flags + ["go", "n.y", "p.go"], cwd=work, timeout=60)
        if p.returncode != 0 or not os.path.exists(os.path.join(work, "p.go")):
            ties.append({"what": "nested-parse grammar is not generated (%s)" % label, "detail": (p.stdout + p.stderr).decode(errors="replace")[-800:]})
            continue
        b = common.sh(["go", "build", "-o", "n.bin", "."], cwd=work, env=common.GOENV, timeout=300)
        if b.returncode != 0:
            ties.append({"what": "nested-parse parser does not compile (%s)" % label, "detail": b.stderr.decode(errors="replace")[-1200:]})
            continue
        hist = list(NESTED_INPUTS)
        extra = list(NESTED_INPUTS)
        rng.shuffle(extra)
        hist += extra

        def go(lines, work=work):
            r = common.sh([os.path.join(work, "n.bin")], inp=("\n".join(lines) + "\n").encode(), timeout=60)
            return [l[4:] for l in r.stdout.decode(errors="replace").split("\n") if l.startswith("OUT ")]
        solo = {}
        for w in sorted(set(hist)):
            o = go([w])
            solo[w] = o[0] if o else None
        if solo_out is not None:
            solo_out[label] = dict(solo)
        got = go(hist)
        evals += len(hist)
        if len(got) != len(hist):
            ties.append({"what": "nested-parse history run incomplete (%s)" % label, "got": len(got), "want": len(hist)})
        for i, (w, g) in enumerate(zip(hist, got)):
            if solo.get(w) is None:
                ties.append({"what": "no solo reference run (nested, %s)" % label, "input": w})
            elif g != solo[w]:
                viol.append({"scenario": label, "input": w, "position_in_history": i, "history": hist[:i + 1], "got": g, "alone": solo[w], "grammar_file": ytext})
        if with_expected:
            # C07: the value of each input parsed alone against the independent evaluation
            wrong_all += [{"scenario": label, "input": w, "got": solo[w], "expected": nested_expected(w), "grammar_file": ytext}
                          for w in sorted(solo) if solo[w] is not None and solo[w] != nested_expected(w)]
            solo_n += len(solo)
    if with_expected:
        return ties, wrong_all, solo_n
    return ties, viol, evals
