import Yv.Proofs.DTrace
/-! # C17 — the parse trace tells the truth

The driver model records one `shift X p` event per push (token or goto) and one `reduce la r g` event
per reduction, in the order performed — exactly the lines `TraceShift` / `TraceReduce` print.
`C17_trace`: on every certified table, for every input and fuel, when the run ends (accept or syntax
error) the recorded events, replayed from the start configuration `([0], input)` against the LR(0)
automaton — every shift must follow an edge of the automaton and consume the next input token, every
reduce must name the current lookahead, pop its right-hand side and take the automaton's goto —
succeed and end in exactly the parser's final stack of states and remaining input; and the rule
numbers of the reduce events, in order, are exactly the reductions performed. -/
namespace Y.Props
open Y Y.D

theorem run_tinv {V : Type} {G : Grammar} {nS : Nat} {A : Auto} {T : Dense} {w : List Sym}
    (sem : Nat → List V → V) (eofVal : V)
    (hG : GOK G nS) (hA : AOK G A) (hT : TOK G nS A T) :
    ∀ (fuel : Nat) (c : D.Cfg V), D.Inv G A w c → D.TInv G A w c →
      (∀ v c', run (dparams G T A.n sem eofVal) fuel c = .accept v c' → D.TInv G A w c') ∧
      (∀ c', run (dparams G T A.n sem eofVal) fuel c = .syntaxError c' → D.TInv G A w c') := by
  intro fuel
  induction fuel with
  | zero => intro c _ _; exact ⟨fun v c' h => (by cases h), fun c' h => (by cases h)⟩
  | succ n ih =>
    intro c hi ht
    rcases step_cases sem eofVal hG hA hT hi with ⟨c1, hs, hi1⟩ | ⟨v1, hs, _, _⟩ | hs
    · have ht1 := step_tinv sem eofVal hG hA hT hi ht hs
      have := ih c1 hi1 ht1
      simpa [run, hs] using this
    · refine ⟨fun v c' h => ?_, fun c' h => ?_⟩
      · simp [run, hs] at h; rw [← h.2]; exact ht
      · simp [run, hs] at h
    · refine ⟨fun v c' h => ?_, fun c' h => ?_⟩
      · simp [run, hs] at h
      · simp [run, hs] at h; rw [← h]; exact ht

theorem C17_trace {V : Type} (G : Grammar) (nS : Nat) (A : Auto) (T : Dense)
    (sem : Nat → List V → V) (eofVal bv : V)
    (hG : gramWF G nS = true) (hA : certA G A = true) (hT : certT G nS A T = true)
    (w : List (Sym × V)) (hw : ∀ t ∈ w, t.1 ≤ G.nT ∧ t.1 ≠ 1) (fuel : Nat) (c' : D.Cfg V)
    (hend : (∃ v, run (dparams G T A.n sem eofVal) fuel (init bv w) = .accept v c') ∨
            run (dparams G T A.n sem eofVal) fuel (init bv w) = .syntaxError c') :
    replay G A c'.trace.reverse ([0], w.map Prod.fst) = some (c'.stack.map Entry.st, c'.rest.map Prod.fst) ∧
    c'.trace.reverse.filterMap ruleOf = c'.reds.reverse := by
  have h := run_tinv sem eofVal (gramWF_ok hG) (certA_ok hA) (certT_ok hT) fuel _
    (init_inv (G := G) (A := A) bv w hw) (tinv_init G A bv w)
  rcases hend with ⟨v, hv⟩ | he
  · exact ⟨(h.1 v c' hv).rep, (h.1 v c' hv).reds⟩
  · exact ⟨(h.2 c' he).rep, (h.2 c' he).reds⟩

end Y.Props
