package main

import (
	"bufio"
	"encoding/hex"
	"fmt"
	"os"
	"regexp"
	"strconv"
	"time"

	parser "github.com/acekingke/yaccgo/Parser"
)

var lexErrRe = regexp.MustCompile(`^at line \d+ , pos \d+:`)

func qm(s string) string {
	if lexErrRe.MatchString(s) {
		s = "<lexerror>"
	}
	return strconv.QuoteToASCII(s)
}

// withDeadline runs f in a goroutine; false = it did not finish in time (the goroutine is abandoned).
func withDeadline(d time.Duration, f func()) bool {
	done := make(chan struct{})
	go func() {
		defer func() { recover(); close(done) }()
		f()
	}()
	select {
	case <-done:
		return true
	case <-time.After(d):
		return false
	}
}

// cmdFront: lexer tokens, AST, and the grammar the front end builds (or its refusal), per text.
func cmdFront() {
	w := bufio.NewWriterSize(realStdout, 1<<20)
	defer w.Flush()
	null, _ := os.OpenFile(os.DevNull, os.O_WRONLY, 0)
	os.Stdout = null // the front end prints diagnostics with fmt.Println
	readCases(os.Stdin, func(c Case) {
		fmt.Fprintf(w, "FCASE %s\nSRC %s\n", c.ID, hex.EncodeToString([]byte(c.Src)))
		defer fmt.Fprintf(w, "FEND\n")
		// 1. tokens
		var toks []parser.Token
		trunc := false
		if !withDeadline(5*time.Second, func() { toks, trunc = parser.VerifTokensN(c.Src, len(c.Src)+16) }) || trunc {
			fmt.Fprintf(w, "LEXHANG\n")
			return
		}
		for _, t := range toks {
			v := t.Value
			if t.Kind == "Error" {
				v = "<lexerror>"
			}
			fmt.Fprintf(w, "TOK %s %s %d\n", t.Kind, strconv.QuoteToASCII(v), t.EndAt)
		}
		// 2. AST
		var tr *parser.RootNode
		var err error
		panicked := false
		if !withDeadline(5*time.Second, func() {
			defer func() {
				if e := recover(); e != nil {
					panicked = true
				}
			}()
			tr, err = parser.Parse(c.Src)
		}) {
			fmt.Fprintf(w, "PARSEHANG\n")
			return
		}
		if panicked {
			fmt.Fprintf(w, "AST PANIC\n")
			return
		}
		if err != nil {
			fmt.Fprintf(w, "AST ERR\n")
			return
		}
		d := tr.Declare.(*parser.DeclareNode)
		fmt.Fprintf(w, "AST code %s\nAST union %s\nAST start %s\n", qm(d.CodeList), qm(d.Union), qm(d.StartSym))
		for _, td := range d.TokenDefList {
			fmt.Fprintf(w, "AST tokdef\n")
			for _, id := range td.IdentifyList {
				fmt.Fprintf(w, "AST id %s %d %s %s\n", qm(id.Name), id.Value, qm(id.Tag), qm(id.Alias))
			}
		}
		for _, pl := range d.PrecDefList {
			fmt.Fprintf(w, "AST precline\n")
			for _, p := range pl {
				fmt.Fprintf(w, "AST prec %s %d\n", qm(p.IdName), int(p.AssocType))
			}
		}
		for _, ty := range d.TypeDefList {
			fmt.Fprintf(w, "AST type %s %s\n", qm(ty.IdName), qm(ty.Tag))
		}
		for _, r := range tr.Rules.(*parser.RuleDefNode).RuleDefList {
			fmt.Fprintf(w, "AST rule %s prec %s\n", qm(r.LeftPart), qm(r.PrecSym))
			for _, e := range r.RightPart {
				fmt.Fprintf(w, "AST el %d %s\n", int(e.ElemType), qm(e.Element))
			}
		}
		fmt.Fprintf(w, "AST rest %s\n", qm(parser.VerifRest(tr)))
		// 3. the grammar (or the refusal)
		os.Stdout = realStdout
		var wk *parser.Walker
		var cls, msg string
		if !withDeadline(20*time.Second, func() { wk, _, cls, msg = build(c.Src) }) {
			os.Stdout = null
			fmt.Fprintf(w, "BUILDHANG\n")
			return
		}
		os.Stdout = null
		if wk == nil {
			fmt.Fprintf(w, "REFUSE %s %s\n", cls, oneLine(msg))
			return
		}
		v := wk.VistorNode.(*parser.RootVistor)
		g := v.G
		fmt.Fprintf(w, "GRAMMAR %d %d\n", len(g.Symbols), len(g.VtSet))
		if g.LR0 != nil {
			fmt.Fprintf(w, "NSTATES %d\n", len(g.LR0.LR0Closure))
		}
		for _, s := range g.Symbols {
			nt, nl := 0, 0
			if s.IsNonTerminator {
				nt = 1
			}
			if s.IsEpsilonClosure {
				nl = 1
			}
			fmt.Fprintf(w, "SYM %d %d %d %d %d %d %s %s\n", s.ID, nt, s.Value, s.Prec, int(s.PrecType), nl, q(s.Name), q(s.Tag))
		}
		for i, ru := range g.ProductoinRules {
			var rhs []int
			for _, s := range ru.RighPart {
				rhs = append(rhs, int(s.ID))
			}
			ps := -1
			if ru.PrecSymbol != nil {
				ps = int(ru.PrecSymbol.ID)
			}
			fmt.Fprintf(w, "RULE %d %d %d %s\n", i, ru.LeftPart.ID, ps, ints(rhs))
		}
		for i, r := range v.VerifRules() {
			fmt.Fprintf(w, "ACTION %d %s\n", i+1, q(r.ActionCode))
		}
		fmt.Fprintf(w, "START %s\n", q(v.VerifStartSym()))
	})
}
