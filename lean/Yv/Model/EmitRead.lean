import Yv.Model.Emit
/-! Readers for the texts printed by `Yv/Model/Emit.lean`: total, executable functions that parse the
    emitted constant block, plain table, packed arrays and `switch` of `translate` back into data.
    Definitions only; the read-back theorems (`reader (emitter d) = some (data of d)`) are in
    `Yv/Props/C11b.lean`, the lemmas in `Yv/Proofs/EmitFacts.lean`.

    All readers work on `List Char`; the `String` entry points take `s.toList`.  Loops carry a fuel
    (`length of the text + 1`, never exhausted: every round consumes at least one character). -/
namespace Emit

/-! ## frame pieces (hoisted so that proofs never unfold long literals) -/

def kwRowOpen : List Char := "/* ".toList
def kwRowMid : List Char := " */ ".toList
def kwRowEnd : List Char := ",\n".toList
def kwSep : List Char := ",\t".toList
def kwConst : List Char := "const ".toList
def kwEq : List Char := " = ".toList
def kwVar : List Char := "var ".toList
def kwIntArr : List Char := " = []int {".toList
def kwCase : List Char := "\tcase ".toList
def kwConv : List Char := ":\n \tconv = ".toList
def kwEndGo : List Char := "\n".toList
def kwEndTs : List Char := ";\nbreak;\n".toList
def kwTsTransHead : List Char :=
  "\nfunction translate(c :number) :number {\n\tvar conv :number = 0\n\tswitch (c) {\n".toList
def kwTsTransTail : List Char := "\n\t}\n\treturn conv;\n}\n".toList
def kwTsDenseHead : List Char := "\nvar StateActionArray :number[][] =[\n\t".toList
def kwTsDenseTail : List Char := " \n]\n".toList

/-! ## elementary readers -/

/-- remove the prefix `p`, or fail -/
def strip : List Char → List Char → Option (List Char)
  | [], s => some s
  | _ :: _, [] => none
  | c :: p, d :: s => if c = d then strip p s else none

/-- value of a run of decimal digits -/
def digVal (ds : List Char) : Nat := ds.foldl (fun a c => a * 10 + (c.toNat - 48)) 0

/-- a non-empty maximal run of digits -/
def readNatL (s : List Char) : Option (Nat × List Char) :=
  if (s.takeWhile Char.isDigit).isEmpty then none
  else some (digVal (s.takeWhile Char.isDigit), s.dropWhile Char.isDigit)

/-- optional `-`, then a non-empty maximal run of digits -/
def readIntL (s : List Char) : Option (Int × List Char) :=
  match s with
  | [] => none
  | c :: r =>
    if c = '-' then (readNatL r).map fun p => (-(p.1 : Int), p.2)
    else (readNatL (c :: r)).map fun p => ((p.1 : Int), p.2)

/-- a character that can begin a number -/
def startsInt (c : Char) : Bool := c.isDigit || c == '-'

/-- `v,\tv,\t…`: numbers each followed by `,\t`, as long as the text begins with a digit or `-` -/
def readArrF : Nat → List Char → Option (List Int × List Char)
  | 0, _ => none
  | fuel + 1, s =>
    match s with
    | [] => some ([], [])
    | c :: r =>
      if startsInt c then
        (readIntL (c :: r)).bind fun p =>
        (strip kwSep p.2).bind fun r1 =>
        (readArrF fuel r1).bind fun q => some (p.1 :: q.1, q.2)
      else some ([], c :: r)

def readArrL (s : List Char) : Option (List Int × List Char) := readArrF (s.length + 1) s

/-- rows `/* i */ {v,\t…},\n` with `i` = `k`, `k+1`, … as long as the text begins with `/* ` -/
def readRowsF (op cl : Char) : Nat → Nat → List Char → Option (List (List Int) × List Char)
  | 0, _, _ => none
  | fuel + 1, k, s =>
    match strip kwRowOpen s with
    | none => some ([], s)
    | some r0 =>
      (readNatL r0).bind fun p =>
      if p.1 = k then
        (strip kwRowMid p.2).bind fun r1 =>
        (strip [op] r1).bind fun r2 =>
        (readArrL r2).bind fun a =>
        (strip [cl] a.2).bind fun r3 =>
        (strip kwRowEnd r3).bind fun r4 =>
        (readRowsF op cl fuel (k + 1) r4).bind fun q => some (a.1 :: q.1, q.2)
      else none

def readRowsL (op cl : Char) (s : List Char) : Option (List (List Int) × List Char) :=
  readRowsF op cl (s.length + 1) 0 s

/-- the text after the first `*/` -/
def skipCmt : List Char → Option (List Char)
  | [] => none
  | c :: s =>
    if c = '*' then
      match s with
      | [] => none
      | c' :: s' => if c' = '/' then some s' else skipCmt (c' :: s')
    else skipCmt s

/-- does the text contain `*/` ? -/
def hasCmtEnd : List Char → Bool
  | [] => false
  | c :: s =>
    if c = '*' then
      match s with
      | [] => false
      | c' :: s' => if c' = '/' then true else hasCmtEnd (c' :: s')
    else hasCmtEnd s

def isWs (c : Char) : Bool := c == ' ' || c == '\n' || c == '\t'

/-- a character allowed in a name of the constant block / of a `var` -/
def nameChar (c : Char) : Bool := !(c == ' ' || c == '=' || c == '\n')

/-- declarations `var Name = []int {` numbers `}` separated by white space -/
def readDeclsF : Nat → List Char → Option (List (String × List Int))
  | 0, _ => none
  | fuel + 1, s =>
    match s.dropWhile isWs with
    | [] => some []
    | c :: r =>
      (strip kwVar (c :: r)).bind fun r0 =>
      if (r0.takeWhile nameChar).isEmpty then none else
      (strip kwIntArr (r0.dropWhile nameChar)).bind fun r1 =>
      (readArrL (r1.dropWhile isWs)).bind fun a =>
      (strip ['}'] (a.2.dropWhile isWs)).bind fun r2 =>
      (readDeclsF fuel r2).bind fun q => some ((String.ofList (r0.takeWhile nameChar), a.1) :: q)

/-- `\tcase v:\n \tconv = id` + `term`, as long as the text begins with `\tcase ` -/
def readCasesF (term : List Char) : Nat → List Char → Option (List (Int × Int) × List Char)
  | 0, _ => none
  | fuel + 1, s =>
    match strip kwCase s with
    | none => some ([], s)
    | some r0 =>
      (readIntL r0).bind fun v =>
      (strip kwConv v.2).bind fun r1 =>
      (readIntL r1).bind fun i =>
      (strip term i.2).bind fun r2 =>
      (readCasesF term fuel r2).bind fun q => some ((v.1, i.1) :: q.1, q.2)

/-- lines `const Name = v` (blanks allowed before the newline) and `//` comment lines -/
def readConstsF : Nat → List Char → Option (List (String × Int))
  | 0, _ => none
  | fuel + 1, s =>
    match s with
    | [] => some []
    | c :: r =>
      match strip ['/', '/'] (c :: r) with
      | some r0 => readConstsF fuel ((r0.dropWhile (· != '\n')).drop 1)
      | none =>
        (strip kwConst (c :: r)).bind fun r0 =>
        if (r0.takeWhile nameChar).isEmpty then none else
        (strip kwEq (r0.dropWhile nameChar)).bind fun r1 =>
        (readIntL r1).bind fun v =>
        (strip ['\n'] (v.2.dropWhile (· == ' '))).bind fun r2 =>
        (readConstsF fuel r2).bind fun q => some ((String.ofList (r0.takeWhile nameChar), v.1) :: q)

/-! ## entry points on `String` -/

/-- the whole text is one number as printed by `%d` -/
def readInt (s : String) : Option Int :=
  (readIntL s.toList).bind fun p => if p.2.isEmpty then some p.1 else none

/-- the whole text is an array body `v,\tv,\t…` -/
def readArr (s : String) : Option (List Int) :=
  (readArrL s.toList).bind fun p => if p.2.isEmpty then some p.1 else none

/-- the whole text consists of table rows numbered 0, 1, 2, … -/
def readRows (op cl : Char) (s : String) : Option (List (List Int)) :=
  (readRowsL op cl s.toList).bind fun p => if p.2.isEmpty then some p.1 else none

/-- plain Go table: a `/* … */` comment, a newline, then the rows -/
def readDenseGo (s : String) : Option (List (List Int)) :=
  (strip ['/', '*'] s.toList).bind fun r0 =>
  (skipCmt r0).bind fun r1 =>
  (strip ['\n'] r1).bind fun r2 =>
  (readRowsL '{' '}' r2).bind fun p => if p.2.isEmpty then some p.1 else none

/-- TypeScript table: the frame of `StateActionArray`, the comment, the rows -/
def readDenseTs (s : String) : Option (List (List Int)) :=
  (strip kwTsDenseHead s.toList).bind fun r =>
  (strip ['/', '*'] r).bind fun r0 =>
  (skipCmt r0).bind fun r1 =>
  (strip ['\n'] r1).bind fun r2 =>
  (readRowsL '[' ']' r2).bind fun p => if p.2 = kwTsDenseTail then some p.1 else none

/-- all `var Name = []int { … }` declarations of a text, by name -/
def readDecls (s : String) : Option (List (String × List Int)) := readDeclsF (s.toList.length + 1) s.toList

/-- the five packed arrays, each found by its name -/
def readPacked (s : String) : Option (List Int × List Int × List Int × List Int × List Int) :=
  (readDecls s).bind fun ds =>
  (ds.lookup "StatePackAction").bind fun act =>
  (ds.lookup "StatePackOffset").bind fun off =>
  (ds.lookup "StackPackCheck").bind fun check =>
  (ds.lookup "StackPackActDef").bind fun actdef =>
  (ds.lookup "StackPackGotoDef").bind fun gotodef => some (act, off, check, actdef, gotodef)

/-- the `case`s of the Go `translate` switch: (external code, internal id) -/
def readTranslateGo (s : String) : Option (List (Int × Int)) :=
  (readCasesF kwEndGo (s.toList.length + 1) s.toList).bind fun p => if p.2.isEmpty then some p.1 else none

/-- the `case`s of the TypeScript `translate` function -/
def readTranslateTs (s : String) : Option (List (Int × Int)) :=
  (strip kwTsTransHead s.toList).bind fun r =>
  (readCasesF kwEndTs (r.length + 1) r).bind fun p => if p.2 = kwTsTransTail then some p.1 else none

/-- the constant block: (name, value) of every `const` line -/
def readConsts (s : String) : Option (List (String × Int)) := readConstsF (s.toList.length + 1) s.toList

end Emit
