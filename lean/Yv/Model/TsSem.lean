import Yv.Model.TsAst
import Yv.Model.Drive
/-! A small interpreter for the TypeScript subset of `Yv/Model/TsAst.lean`, over the machine state
    of a generated TypeScript parser.  JavaScript semantics where it matters for the driver:

    * OBJECTS ARE REFERENCES, and the heap is EXPLICIT: `heap` is the list of all objects ever
      allocated, a reference is an index into it, `new StateSym(a, b)` and `{ValType :…, pos :…}`
      append a cell and yield its address, `x.f = v` updates the cell in place.  The array
      `StateSymStack` holds references; `let state = StateSymStack[i]`, `sym`, `SymTy`,
      `dollarDolar` are references to the same cells.  (No single-ownership argument is used.)
    * numbers are `Int`: the driver text computes with stack indices, state numbers, symbol numbers
      and action codes only, all integers far below 2^53, where IEEE doubles are exact;
    * `==`, `<`, … are given a meaning on two numbers only (the text compares nothing else);
    * reading `a[i]` with `i` outside `0 ≤ i < a.length` yields `undefined`; a property read or a
      method call on `undefined` is a TypeError, i.e. the outcome `crash`;
    * `console.error(…)` is counted in `errs` (the text then does `break` and `return null`:
      that is the syntax-error outcome).

    The outside world is a parameter, exactly as in `GoSem`:
    * `state.Action(x)` is `P.L state.Yystate x`; `none`, a negative `Yystate` and a negative `x` are
      `crash` (in JavaScript only a ROW out of range throws at once; see the note in `C08c`);
    * `ERROR_ACTION`, `ACCEPT_ACTION` are `P.errC`, `P.accC`;
    * `GetToken(input, model)` takes the next token off `input` (the end marker `1` with value
      `P.eofVal` for ever once it is empty), stores its value in `model.ValType` (the cell of
      `model` is updated IN PLACE) and returns its code; `translate(code)` is its symbol number;
    * the `case`s that fill the hole of `ReduceFunc` (`caseBody`): for rule `r` with `(lhs, n)`:
      `dollarDolar.YySymIndex = lhs`, `Dollar = StateSymStack.slice(topIndex-n, StackPointer)`,
      the semantic action (`dollarDolar.ValType` becomes `P.sem r [Dollar[1].ValType, …]`),
      `PopStateSym(n)` — the TRANSLATED `PopStateSym` — and `break`; no matching `case`: nothing.

    What is NOT modelled, stated once: a `ValType` is an immutable value `V` (the lexer and the
    actions are assumed to produce fresh values, never to update a `ValType` object that a stack
    entry still refers to); `undefined` in a `ValType` field is the value `K.undefV`, the result
    of `new ValType()` is `K.emptyV`; the field `pos` of `model` is not stored (the driver never
    reads it); arrays are values except for the one variable `StateSymStack` (`push` and the
    indexed store are given a meaning on that variable only — the text has no other array
    reference); the declaration kinds `var`/`let`/`const` and all type annotations are ignored
    (the translator refuses `var` inside a nested block); storing a negative number in
    `Yystate`/`YySymIndex` by an ASSIGNMENT is reported as `crash` at that point (the constructor
    accepts it: `new StateSym(-1,-1)`); in an assignment the right-hand side is evaluated before
    the object/index of the left-hand side; the indexed store is in-range only.  Every construct
    without a meaning here is `crash`. -/
namespace TsSem
open Y Y.D Gen.Ts

inductive Val (V : Type)
  | num (i : Int)
  | bool (b : Bool)
  | str                        -- some string; content not modelled
  | tok (k : Sym)              -- result of `GetToken`: a token code that `translate` maps to `k`
  | val (x : V)                -- a `ValType`
  | ref (a : Nat)              -- reference to the heap cell `a`
  | arr (l : List Nat)         -- an array of references
  | console
  | undef
  | null

/-- a heap object -/
inductive Cell (V : Type)
  | sym (st : Int) (sy : Int) (val : V)     -- a `StateSym`: `Yystate`, `YySymIndex`, `ValType`
  | model (val : V)                          -- `{ValType :…, pos :…}`

/-- the two `ValType`s that are not produced by the lexer or an action -/
structure Consts (V : Type) where
  undefV : V                   -- `undefined` (the field `ValType` before it is assigned)
  emptyV : V                   -- `new ValType()`

structure M (V : Type) where
  heap : List (Cell V)
  arr : List Nat               -- `StateSymStack`
  sp : Int                     -- `StackPointer`
  env : List (Id × Val V)      -- innermost binding first
  input : List (Sym × V)       -- tokens not yet fetched
  req : Nat                    -- ghost: tokens requested
  reds : List Nat              -- ghost: rules reduced, most recent first
  errs : Nat                   -- number of `console.error` calls

/-- result of an expression -/
inductive ER (V : Type)
  | ok (v : Val V) (m : M V)
  | crash

/-- result of a statement (list) -/
inductive Res (V : Type)
  | norm (m : M V)
  | brk (m : M V)
  | ret (v : Val V) (m : M V)
  | crash                      -- TypeError, or a construct without meaning
  | outOfFuel

/-- the translated functions a body may call -/
structure Ext (V : Type) where
  push : M V → List (Val V) → Res V
  pop : M V → List (Val V) → Res V
  init : M V → List (Val V) → Res V
  fetch : M V → List (Val V) → Res V
  reduce : M V → List (Val V) → Res V

def lookup {V : Type} : List (Id × Val V) → Id → Option (Val V)
  | [], _ => none
  | (y, v) :: r, x => if y = x then some v else lookup r x

def setVar {V : Type} : List (Id × Val V) → Id → Val V → Option (List (Id × Val V))
  | [], _, _ => none
  | (y, w) :: r, x, v =>
    if y = x then some ((y, v) :: r)
    else match setVar r x v with
      | some r' => some ((y, w) :: r')
      | none => none

/-- a value stored in a `ValType` field -/
def toV {V : Type} (K : Consts V) : Val V → Option V
  | .val x => some x
  | .undef => some K.undefV
  | _ => none

def setField {V : Type} (K : Consts V) (c : Cell V) (f : Id) (v : Val V) : Option (Cell V) :=
  match c with
  | .sym st sy x => match f with
    | .Yystate => match v with
      | .num k => if 0 ≤ k then some (.sym k sy x) else none
      | _ => none
    | .YySymIndex => match v with
      | .num k => if 0 ≤ k then some (.sym st k x) else none
      | _ => none
    | .ValType => match toV K v with
      | some y => some (.sym st sy y)
      | none => none
    | _ => none
  | .model _ => match f with
    | .ValType => match toV K v with
      | some y => some (.model y)
      | none => none
    | _ => none

def getField {V : Type} (c : Cell V) (f : Id) : Option (Val V) :=
  match c with
  | .sym st sy x => match f with
    | .Yystate => some (.num st)
    | .YySymIndex => some (.num sy)
    | .ValType => some (.val x)
    | _ => none
  | .model x => match f with
    | .ValType => some (.val x)
    | _ => none

/-- `v.f` (a property of `undefined`: `none` = TypeError) -/
def selVal {V : Type} (m : M V) (v : Val V) (f : Id) : Option (Val V) :=
  match v with
  | .arr l => match f with
    | .length => some (.num l.length)
    | _ => none
  | .ref a => match m.heap[a]? with
    | some c => getField c f
    | none => none
  | _ => none

def idVal {V : Type} (P : Params V) (m : M V) (x : Id) : Option (Val V) :=
  match x with
  | .StackPointer => some (.num m.sp)
  | .StateSymStack => some (.arr m.arr)
  | .ERROR_ACTION => some (.num P.errC)
  | .ACCEPT_ACTION => some (.num P.accC)
  | .console => some .console
  | x => lookup m.env x

/-- the expression is the variable `StateSymStack` itself -/
def isStack : Expr → Bool
  | .id .StateSymStack => true
  | _ => false

def isPush : Id → Bool
  | .push => true
  | _ => false

def binVal {V : Type} (op : Gen.BinOp) (l r : Val V) : Option (Val V) :=
  match l with
  | .num a => match r with
    | .num b => match op with
      | .eq => some (.bool (decide (a = b)))
      | .ne => some (.bool (decide (a ≠ b)))
      | .lt => some (.bool (decide (a < b)))
      | .le => some (.bool (decide (a ≤ b)))
      | .gt => some (.bool (decide (a > b)))
      | .ge => some (.bool (decide (a ≥ b)))
      | .add => some (.num (a + b))
      | .sub => some (.num (a - b))
    | _ => none
  | _ => none

/-- the next token (the end marker for ever once the input is used up) -/
def headTok {V : Type} (eofVal : V) (input : List (Sym × V)) : Sym × V :=
  match input with
  | [] => (1, eofVal)
  | x :: _ => x

/-- the result of a call: a function that falls off its end returns `undefined` -/
def ofRes {V : Type} : Res V → ER V
  | .norm m => .ok .undef m
  | .ret v m => .ok v m
  | _ => .crash

/-- `a[k]` on an array value: `undefined` outside the bounds -/
def indexVal {V : Type} (l : List Nat) (k : Int) : Val V :=
  if 0 ≤ k then
    match l[k.toNat]? with
    | some a => .ref a
    | none => .undef
  else .undef

/-- the `ValType`s of the `StateSym` cells at the given addresses -/
def cellVals {V : Type} (h : List (Cell V)) : List Nat → Option (List V)
  | [] => some []
  | a :: r => match h[a]? with
    | some (.sym _ _ v) => match cellVals h r with
      | some l => some (v :: l)
      | none => none
    | _ => none

/-- the `case`s in the hole of `ReduceFunc` (the generated per-rule code, not template text),
    executed in the scope of the frame: `dollarDolar` and `topIndex` are its local variables.
    `Dollar` must have its `n+1` entries (`Dollar[i]` of a shorter slice is `undefined`). -/
def caseBody {V : Type} (P : Params V) (X : Ext V) (m : M V) (r : Int) : Res V :=
  if r < 0 then .norm m
  else
    match P.rule r.toNat with
    | none => .norm m
    | some (lhs, n) =>
      match lookup m.env .dollarDolar with
      | some (.ref d) => match lookup m.env .topIndex with
        | some (.num t) => match m.heap[d]? with
          | some (.sym st _ _) =>
            -- `Dollar = StateSymStack.slice(topIndex-n, StackPointer)`
            if 0 ≤ t - (n : Int) ∧ m.sp ≤ (m.arr.length : Int) ∧ (n : Int) + 1 ≤ m.sp - (t - (n : Int)) then
              match cellVals m.heap
                  ((((m.arr.drop (t - (n : Int)).toNat).take (m.sp - (t - (n : Int))).toNat).drop 1).take n) with
              | some vals =>
                match X.pop { m with heap := m.heap.set d (.sym st lhs (P.sem r.toNat vals)),
                                     reds := r.toNat :: m.reds } [.num n] with
                | .norm m' => .norm m'
                | _ => .crash
              | none => .crash
            else .crash
          | _ => .crash
        | _ => .crash
      | _ => .crash

/-- a call of the function or method `g` (receiver `recv` for a method call) with evaluated arguments -/
def callFn {V : Type} (P : Params V) (X : Ext V) (g : Id) (recv : Option (Val V)) (vs : List (Val V))
    (m : M V) : ER V :=
  match g with
  | .error => match recv with
    | some .console => .ok .undef { m with errs := m.errs + 1 }
    | _ => .crash
  | .GetToken => match recv, vs with
    | none, [.str, .ref μ] => match m.heap[μ]? with
      | some (.model _) =>
        .ok (.tok (headTok P.eofVal m.input).1)
          { m with heap := m.heap.set μ (.model (headTok P.eofVal m.input).2),
                   input := m.input.tail, req := m.req + 1 }
      | _ => .crash
    | _, _ => .crash
  | .translate => match recv, vs with
    | none, [.tok k] => .ok (.num k) m
    | _, _ => .crash
  | .Action => match recv, vs with
    | some (.ref a), [.num k] => match m.heap[a]? with
      | some (.sym st _ _) =>
        if 0 ≤ st ∧ 0 ≤ k then
          match P.L st.toNat k.toNat with
          | some x => .ok (.num x) m
          | none => .crash
        else .crash
      | _ => .crash
    | _, _ => .crash
  | .PushStateSym => match recv with
    | none => ofRes (X.push m vs)
    | _ => .crash
  | .PopStateSym => match recv with
    | none => ofRes (X.pop m vs)
    | _ => .crash
  | .initialize => match recv with
    | none => ofRes (X.init m vs)
    | _ => .crash
  | .fetchLookAhead => match recv with
    | none => ofRes (X.fetch m vs)
    | _ => .crash
  | .ReduceFunc => match recv with
    | none => ofRes (X.reduce m vs)
    | _ => .crash
  | _ => .crash

def selStep {V : Type} (f : Id) : ER V → ER V
  | .ok v m => match selVal m v f with
    | some w => .ok w m
    | none => .crash
  | r => r

def allRefs {V : Type} : List (Val V) → Option (List Nat)
  | [] => some []
  | .ref a :: r => match allRefs r with
    | some l => some (a :: l)
    | none => none
  | _ :: _ => none

/-- `new C(args)` -/
def newVal {V : Type} (K : Consts V) (cls : Id) (vs : List (Val V)) (m : M V) : ER V :=
  match cls with
  | .StateSym => match vs with
    | [.num a, .num b] => .ok (.ref m.heap.length) { m with heap := m.heap ++ [.sym a b K.undefV] }
    | _ => .crash
  | .ValType => match vs with
    | [] => .ok (.val K.emptyV) m
    | _ => .crash
  | _ => .crash

/-- `{ValType :v, pos :p}` -/
def objVal {V : Type} (K : Consts V) (ks : List Id) (vs : List (Val V)) (m : M V) : ER V :=
  match ks, vs with
  | [.ValType, .pos], [v, .num _] => match toV K v with
    | some x => .ok (.ref m.heap.length) { m with heap := m.heap ++ [.model x] }
    | none => .crash
  | _, _ => .crash

mutual
def eval {V : Type} (P : Params V) (K : Consts V) (X : Ext V) (m : M V) : Expr → ER V
  | .id x => match idVal P m x with
    | some v => .ok v m
    | none => .crash
  | .int n => .ok (.num n) m
  | .str _ => .ok .str m
  | .null => .ok .null m
  | .neg e => match eval P K X m e with
    | .ok (.num k) m1 => .ok (.num (-k)) m1
    | _ => .crash
  | .bin op l r => match eval P K X m l with
    | .ok a m1 => match eval P K X m1 r with
      | .ok b m2 => match binVal op a b with
        | some v => .ok v m2
        | none => .crash
      | .crash => .crash
    | .crash => .crash
  | .index a i => match eval P K X m a with
    | .ok (.arr l) m1 => match eval P K X m1 i with
      | .ok (.num k) m2 => .ok (indexVal l k) m2
      | _ => .crash
    | _ => .crash
  | .sel r f => selStep f (eval P K X m r)
  | .call f args => match f with
    | .id g => match evalArgs P K X m args with
      | some (vs, m1) => callFn P X g none vs m1
      | none => .crash
    | .sel r g =>
      if isStack r && isPush g then
        -- `StateSymStack.push(x)`: the array object is extended in place
        match evalArgs P K X m args with
        | some ([.ref a], m1) => .ok (.num (m1.arr.length + 1)) { m1 with arr := m1.arr ++ [a] }
        | _ => .crash
      else
        match eval P K X m r with
        | .ok rv m1 => match evalArgs P K X m1 args with
          | some (vs, m2) => callFn P X g (some rv) vs m2
          | none => .crash
        | .crash => .crash
    | _ => .crash
  | .new cls args => match evalArgs P K X m args with
    | some (vs, m1) => newVal K cls vs m1
    | none => .crash
  | .obj ks es => match evalArgs P K X m es with
    | some (vs, m1) => objVal K ks vs m1
    | none => .crash
  | .arr es => match evalArgs P K X m es with
    | some (vs, m1) => match allRefs vs with
      | some l => .ok (.arr l) m1
      | none => .crash
    | none => .crash
/-- arguments left to right -/
def evalArgs {V : Type} (P : Params V) (K : Consts V) (X : Ext V) (m : M V) : List Expr → Option (List (Val V) × M V)
  | [] => some ([], m)
  | e :: r => match eval P K X m e with
    | .ok v m1 => match evalArgs P K X m1 r with
      | some (vs, m2) => some (v :: vs, m2)
      | none => none
    | .crash => none
end

/-- `lhs = v` -/
def store {V : Type} (P : Params V) (K : Consts V) (X : Ext V) (m : M V) (lhs : Expr) (v : Val V) : Option (M V) :=
  match lhs with
  | .id x => match x with
    | .StackPointer => match v with
      | .num k => some { m with sp := k }
      | _ => none
    | .StateSymStack => match v with
      | .arr l => some { m with arr := l }
      | _ => none
    | x => match setVar m.env x v with
      | some env' => some { m with env := env' }
      | none => none
  | .sel (.id x) f => match idVal P m x with
    | some (.ref a) => match m.heap[a]? with
      | some c => match setField K c f v with
        | some c' => some { m with heap := m.heap.set a c' }
        | none => none
      | none => none
    | _ => none
  | .index a i =>
    if isStack a then
      match eval P K X m i with
      | .ok (.num k) m1 => match v with
        | .ref r => if 0 ≤ k ∧ k < (m1.arr.length : Int) then some { m1 with arr := m1.arr.set k.toNat r } else none
        | _ => none
      | _ => none
    else none
  | _ => none

def ofStore {V : Type} : Option (M V) → Res V
  | some m => .norm m
  | none => .crash

def popEnv {V : Type} (n : Nat) (m : M V) : M V := { m with env := m.env.drop (m.env.length - n) }

/-- leaving a block: the variables declared in it go out of scope -/
def leave {V : Type} (n : Nat) : Res V → Res V
  | .norm m => .norm (popEnv n m)
  | .brk m => .brk (popEnv n m)
  | .ret v m => .ret v (popEnv n m)
  | .crash => .crash
  | .outOfFuel => .outOfFuel

/-- `while (true) { body }` with a bound on the number of iterations -/
def iterate {V : Type} (iter : M V → Res V) : Nat → M V → Res V
  | 0, _ => .outOfFuel
  | fuel + 1, m =>
    match iter m with
    | .norm m' => iterate iter fuel m'
    | .brk m' => .norm m'
    | r => r

mutual
/-- `fuel` bounds the number of iterations of each `while` loop; nothing else uses it -/
def exec {V : Type} (P : Params V) (K : Consts V) (X : Ext V) (fuel : Nat) (m : M V) : Stmt → Res V
  | .expr e => match eval P K X m e with
    | .ok _ m1 => .norm m1
    | .crash => .crash
  | .decl _ x _ ini => match ini with
    | none => .norm { m with env := (x, .undef) :: m.env }
    | some e => match eval P K X m e with
      | .ok v m1 => .norm { m1 with env := (x, v) :: m1.env }
      | .crash => .crash
  | .assign lhs e => match eval P K X m e with
    | .ok v m1 => ofStore (store P K X m1 lhs v)
    | .crash => .crash
  | .subAssign lhs e => match eval P K X m lhs with
    | .ok (.num a) m1 => match eval P K X m1 e with
      | .ok (.num b) m2 => ofStore (store P K X m2 lhs (.num (a - b)))
      | _ => .crash
    | _ => .crash
  | .inc lhs => match eval P K X m lhs with
    | .ok (.num a) m1 => ofStore (store P K X m1 lhs (.num (a + 1)))
    | _ => .crash
  | .ite c t e => match eval P K X m c with
    | .ok (.bool b) m1 =>
      if b then leave m1.env.length (execs P K X fuel m1 t)
      else leave m1.env.length (execs P K X fuel m1 e)
    | _ => .crash
  | .loop body => iterate (fun m' => leave m'.env.length (execs P K X fuel m' body)) fuel m
  | .brk => .brk m
  | .ret e => match eval P K X m e with
    | .ok v m1 => .ret v m1
    | .crash => .crash
  | .switchHole e => match eval P K X m e with
    | .ok (.num r) m1 => caseBody P X m1 r
    | _ => .crash
def execs {V : Type} (P : Params V) (K : Consts V) (X : Ext V) (fuel : Nat) (m : M V) : List Stmt → Res V
  | [] => .norm m
  | s :: r => match exec P K X fuel m s with
    | .norm m1 => execs P K X fuel m1 r
    | r' => r'
end

/-- one iteration of `while (true) { body }` -/
def execIter {V : Type} (P : Params V) (K : Consts V) (X : Ext V) (fuel : Nat) (body : List Stmt) (m : M V) : Res V :=
  leave m.env.length (execs P K X fuel m body)

/-- a call: fresh variables for the parameters; the caller's variables are invisible and come back -/
def invoke {V : Type} (P : Params V) (K : Consts V) (X : Ext V) (fuel : Nat) (fn : Fn) (args : List (Val V))
    (m : M V) : Res V :=
  match execs P K X fuel { m with env := (fn.params.map Prod.fst).zip args } fn.body with
  | .norm m' => .norm { m' with env := m.env }
  | .ret v m' => .ret v { m' with env := m.env }
  | .brk _ => .crash
  | .crash => .crash
  | .outOfFuel => .outOfFuel

/-- no callable functions (for the bodies of `PushStateSym`, `PopStateSym`, `initialize`, `fetchLookAhead`) -/
def ext0 {V : Type} : Ext V :=
  { push := fun _ _ => .crash, pop := fun _ _ => .crash, init := fun _ _ => .crash,
    fetch := fun _ _ => .crash, reduce := fun _ _ => .crash }

/-- the `case`s in `ReduceFunc` call the translated `PopStateSym` -/
def extPop {V : Type} (P : Params V) (K : Consts V) (popFn : Fn) : Ext V :=
  { push := fun _ _ => .crash, pop := fun m vs => invoke P K ext0 0 popFn vs m, init := fun _ _ => .crash,
    fetch := fun _ _ => .crash, reduce := fun _ _ => .crash }

/-- `Parser` (and the module's top level) call the translated `PushStateSym`, `fetchLookAhead`,
    `ReduceFunc` frame (which calls `PopStateSym`) and `initialize` -/
def extOf {V : Type} (P : Params V) (K : Consts V) (pushFn popFn initFn fetchFn reduceFn : Fn) : Ext V :=
  { push := fun m vs => invoke P K ext0 0 pushFn vs m,
    pop := fun m vs => invoke P K ext0 0 popFn vs m,
    init := fun m vs => invoke P K ext0 0 initFn vs m,
    fetch := fun m vs => invoke P K ext0 0 fetchFn vs m,
    reduce := fun m vs => invoke P K (extPop P K popFn) 0 reduceFn vs m }

end TsSem
