module ytranslate

go 1.22.0

toolchain go1.23.5

require golang.org/x/tools v0.29.0

require (
	golang.org/x/mod v0.22.0 // indirect
	golang.org/x/sync v0.10.0 // indirect
)
