/-! Prototype: abstract core of the row-displacement argument.
    A *placement* assigns each placed row a displacement; slots are owned by the row whose
    non-zero column lands there.  First-fit picks a displacement that avoids all owned slots. -/
namespace PackP

abbrev Row := List Int

/-- columns with a non-zero entry -/
def nz (r : Row) : List Nat := (List.range r.length).filter (fun j => r.getD j 0 != 0)

theorem mem_nz {r : Row} {j : Nat} : j ∈ nz r ↔ j < r.length ∧ r.getD j 0 ≠ 0 := by
  simp [nz]

/-- placed rows: (row index, displacement) -/
abbrev Placed := List (Nat × Nat)

def owner (tab : List Row) (pl : Placed) (p : Nat) : Option (Nat × Nat) :=
  pl.find? (fun (i, d) => (nz (tab.getD i [])).any (fun j => d + j == p))

def occupied (tab : List Row) (pl : Placed) (p : Nat) : Bool := (owner tab pl p).isSome

def fits (tab : List Row) (pl : Placed) (i d : Nat) : Bool :=
  (nz (tab.getD i [])).all (fun j => !occupied tab pl (d + j))

def firstFit (tab : List Row) (pl : Placed) (i : Nat) : Nat → Nat → Nat
  | 0, d => d
  | fuel+1, d => if fits tab pl i d then d else firstFit tab pl i fuel (d+1)

/-- an upper bound beyond which nothing is occupied -/
def bound (tab : List Row) (pl : Placed) : Nat :=
  pl.foldl (fun b (x : Nat × Nat) => max b (x.2 + (tab.getD x.1 []).length)) 0

theorem occupied_lt_bound (tab : List Row) (pl : Placed) (p : Nat)
    (h : occupied tab pl p = true) : p < bound tab pl := by
  unfold occupied owner at h
  rw [Option.isSome_iff_exists] at h
  obtain ⟨⟨i, d⟩, hf⟩ := h
  have hm := List.mem_of_find?_eq_some hf
  have hp := List.find?_some hf
  simp only [List.any_eq_true, beq_iff_eq] at hp
  obtain ⟨j, hj, rfl⟩ := hp
  have hjl := (mem_nz.mp hj).1
  -- bound dominates every placed row's extent
  have key : ∀ (l : Placed) (b0 : Nat), (i, d) ∈ l →
      d + (tab.getD i []).length ≤ l.foldl (fun b (x : Nat × Nat) => max b (x.2 + (tab.getD x.1 []).length)) b0 := by
    intro l
    induction l with
    | nil => intro b0 h; cases h
    | cons x xs ih =>
      intro b0 h
      simp only [List.foldl_cons]
      rcases List.mem_cons.mp h with h | h
      · subst h
        have mono : ∀ (l : Placed) (b : Nat), b ≤ l.foldl (fun b (x : Nat × Nat) => max b (x.2 + (tab.getD x.1 []).length)) b := by
          intro l; induction l with
          | nil => intro b; simp
          | cons y ys ih2 => intro b; simp only [List.foldl_cons]; exact Nat.le_trans (Nat.le_max_left _ _) (ih2 _)
        exact Nat.le_trans (Nat.le_max_right _ _) (mono xs _)
      · exact ih _ h
  have := key pl 0 hm
  unfold bound
  omega

theorem fits_at_bound (tab : List Row) (pl : Placed) (i : Nat) (d : Nat) (hd : bound tab pl ≤ d) :
    fits tab pl i d = true := by
  unfold fits
  simp only [List.all_eq_true, Bool.not_eq_true']
  intro j _
  cases h : occupied tab pl (d + j) with
  | false => rfl
  | true => have := occupied_lt_bound tab pl _ h; omega

theorem firstFit_fits (tab : List Row) (pl : Placed) (i : Nat) :
    ∀ fuel d, bound tab pl ≤ d + fuel → fits tab pl i (firstFit tab pl i fuel d) = true := by
  intro fuel
  induction fuel with
  | zero => intro d h; simpa [firstFit] using fits_at_bound tab pl i d (by omega)
  | succ n ih =>
    intro d h
    unfold firstFit
    split
    · assumption
    · exact ih (d+1) (by omega)

end PackP

namespace PackP

/-- the invariant of the placement loop -/
structure Inv (tab : List Row) (pl : Placed) : Prop where
  nodup : (pl.map Prod.fst).Nodup
  disj  : ∀ i d i' d' j j', (i, d) ∈ pl → (i', d') ∈ pl →
            j ∈ nz (tab.getD i []) → j' ∈ nz (tab.getD i' []) → d + j = d' + j' → i = i'

theorem disp_unique {tab : List Row} {pl : Placed} (h : Inv tab pl) {i d d' : Nat}
    (h1 : (i, d) ∈ pl) (h2 : (i, d') ∈ pl) : d = d' := by
  have := h.nodup
  induction pl with
  | nil => cases h1
  | cons x xs ih =>
    simp only [List.map_cons, List.nodup_cons] at this
    rcases List.mem_cons.mp h1 with e1 | m1 <;> rcases List.mem_cons.mp h2 with e2 | m2
    · exact (Prod.mk.inj (e1.trans e2.symm)).2
    · exfalso; apply this.1
      have : x.1 = i := by rw [← e1]
      rw [this]; exact List.mem_map.mpr ⟨(i, d'), m2, rfl⟩
    · exfalso; apply this.1
      have : x.1 = i := by rw [← e2]
      rw [this]; exact List.mem_map.mpr ⟨(i, d), m1, rfl⟩
    · exact ih ⟨this.2, fun i d i' d' j j' a b => h.disj i d i' d' j j' (List.mem_cons_of_mem _ a) (List.mem_cons_of_mem _ b)⟩ m1 m2 this.2

/-- what the packed arrays store at slot p -/
def slotVal (tab : List Row) (pl : Placed) (p : Nat) : Int :=
  match owner tab pl p with
  | some (i, d) => (tab.getD i []).getD (p - d) 0
  | none => 0
def slotOwner (tab : List Row) (pl : Placed) (p : Nat) : Option Nat := (owner tab pl p).map Prod.fst

/-- the lookup the generated code performs (before trimming): check vector, then value or 0 -/
def lookup (tab : List Row) (pl : Placed) (i d j : Nat) : Int :=
  if slotOwner tab pl (d + j) = some i then slotVal tab pl (d + j) else 0

theorem owner_spec {tab : List Row} {pl : Placed} {p i d : Nat} (h : owner tab pl p = some (i, d)) :
    (i, d) ∈ pl ∧ ∃ j ∈ nz (tab.getD i []), d + j = p := by
  unfold owner at h
  refine ⟨List.mem_of_find?_eq_some h, ?_⟩
  have := List.find?_some h
  simpa using this

theorem owner_isSome_of {tab : List Row} {pl : Placed} {p i d j : Nat} (hm : (i, d) ∈ pl)
    (hj : j ∈ nz (tab.getD i [])) (hp : d + j = p) : ∃ x, owner tab pl p = some x := by
  unfold owner
  rw [← Option.isSome_iff_exists, List.find?_isSome]
  exact ⟨(i, d), hm, by simp; exact ⟨j, hj, hp⟩⟩

/-- C05 core: every cell of every placed row is recovered exactly -/
theorem lookup_correct (tab : List Row) (pl : Placed) (h : Inv tab pl) (i d j : Nat)
    (hm : (i, d) ∈ pl) (hj : j < (tab.getD i []).length) :
    lookup tab pl i d j = (tab.getD i []).getD j 0 := by
  unfold lookup slotOwner slotVal
  by_cases hz : (tab.getD i []).getD j 0 = 0
  · -- zero cell: either not owned by i (→ 0) or owned by i at column j (impossible)
    split
    · rename_i ho
      cases hown : owner tab pl (d + j) with
      | none => rw [hown] at ho; simp at ho
      | some x =>
        obtain ⟨i0, d0⟩ := x
        rw [hown] at ho; simp at ho; subst ho
        obtain ⟨hm0, j0, hj0, hp0⟩ := owner_spec hown
        have hd : d0 = d := disp_unique h hm0 hm
        subst hd
        have : j0 = j := by omega
        subst this
        exact absurd hz (mem_nz.mp hj0).2
    · exact hz.symm
  · -- non-zero cell: j ∈ nz, the slot is owned, necessarily by i at d
    have hjn : j ∈ nz (tab.getD i []) := mem_nz.mpr ⟨hj, hz⟩
    obtain ⟨⟨i0, d0⟩, hown⟩ := owner_isSome_of hm hjn rfl
    obtain ⟨hm0, j0, hj0, hp0⟩ := owner_spec hown
    have hi : i0 = i := h.disj i0 d0 i d j0 j hm0 hm hj0 hjn hp0
    subst hi
    have hd : d0 = d := disp_unique h hm0 hm
    subst hd
    simp [hown]

/-- placing a new row at a fitting displacement preserves the invariant -/
theorem inv_place (tab : List Row) (pl : Placed) (h : Inv tab pl) (i d : Nat)
    (hnew : i ∉ pl.map Prod.fst) (hfit : fits tab pl i d = true) : Inv tab (pl ++ [(i, d)]) := by
  have hfree : ∀ j ∈ nz (tab.getD i []), ∀ i' d' j', (i', d') ∈ pl → j' ∈ nz (tab.getD i' []) →
      d + j ≠ d' + j' := by
    intro j hj i' d' j' hm' hj' heq
    unfold fits at hfit
    have := (List.all_eq_true.mp hfit) j hj
    obtain ⟨x, hx⟩ := owner_isSome_of hm' hj' heq.symm
    simp [occupied, hx] at this
  constructor
  · rw [List.map_append, List.nodup_append]
    refine ⟨h.nodup, by simp, ?_⟩
    intro a ha b hb
    simp at hb; subst hb
    intro e; subst e; exact hnew ha
  · intro a da b db j j' ha hb hj hj' heq
    rcases List.mem_append.mp ha with ha1 | ha1 <;> rcases List.mem_append.mp hb with hb1 | hb1
    · exact h.disj a da b db j j' ha1 hb1 hj hj' heq
    · simp at hb1; obtain ⟨rfl, rfl⟩ := hb1
      exact absurd heq.symm (hfree j' hj' a da j ha1 hj)
    · simp at ha1; obtain ⟨rfl, rfl⟩ := ha1
      exact absurd heq (hfree j hj b db j' hb1 hj')
    · simp at ha1 hb1; obtain ⟨rfl, rfl⟩ := ha1; obtain ⟨rfl, rfl⟩ := hb1; rfl

end PackP
