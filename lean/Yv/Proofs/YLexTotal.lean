import Yv.Model.YLex
/-! Prototype for C13 (lexer half): the fuel `length + 2` always suffices. -/
namespace YLex

/-- `b` is obtained from `a` by consuming some characters -/
def Sfx (a b : St) : Prop := ∃ k, b.rest = a.rest.drop k

theorem Sfx.refl (a : St) : Sfx a a := ⟨0, by simp⟩
theorem Sfx.trans {a b c : St} (h1 : Sfx a b) (h2 : Sfx b c) : Sfx a c := by
  obtain ⟨k1, e1⟩ := h1; obtain ⟨k2, e2⟩ := h2
  exact ⟨k1 + k2, by rw [e2, e1, List.drop_drop]⟩
theorem Sfx.len {a b : St} (h : Sfx a b) : b.rest.length ≤ a.rest.length := by
  obtain ⟨k, e⟩ := h; rw [e]; simp

theorem adv_rest (st : St) (n : Nat) : (st.adv n).rest = st.rest.drop n := by
  induction n generalizing st with
  | zero => simp [St.adv]
  | succ n ih =>
    unfold St.adv
    cases h : st.rest with
    | nil => simp [h]
    | cons c cs => simp [ih]

theorem sfx_adv (st : St) (n : Nat) : Sfx st (st.adv n) := ⟨n, adv_rest st n⟩
theorem sfx_skip (p : Char → Bool) (st : St) : Sfx st (st.skipWhile p) := sfx_adv _ _
theorem sfx_ignore (st : St) : Sfx st st.ignore := ⟨0, by simp [St.ignore]⟩

theorem sfx_acceptAlpha {w : String} {st s : St} (h : acceptAlpha w st = some s) : Sfx st s := by
  unfold acceptAlpha at h
  simp only at h
  split at h
  · split at h
    · split at h
      · cases h
      · cases h; exact (sfx_skip _ _).trans (sfx_adv _ _)
    · cases h; exact (sfx_skip _ _).trans (sfx_adv _ _)
  · cases h

theorem sfx_acceptWord {w : String} {st s : St} (h : acceptWord w st = some s) : Sfx st s := by
  unfold acceptWord at h
  simp only at h
  split at h
  · split at h
    · split at h
      · cases h; exact (sfx_skip _ _).trans (sfx_adv _ _)
      · cases h
    · cases h; exact (sfx_skip _ _).trans (sfx_adv _ _)
  · cases h

theorem Sfx.ig {a b : St} (h : Sfx a b) : Sfx a b.ignore := h.trans (sfx_ignore _)
theorem Sfx.ad {a b : St} {n : Nat} (h : Sfx a b) : Sfx a (b.adv n) := h.trans (sfx_adv _ _)
theorem Sfx.sk {a b : St} {p : Char → Bool} (h : Sfx a b) : Sfx a (b.skipWhile p) := h.trans (sfx_skip _ _)

/-- closes goals `Sfx st (… built from adv/skipWhile/ignore over st …)`, matching syntactically -/
macro "sfx" : tactic => `(tactic| (
  simp only [cont, stop]
  repeat (first
    | (with_reducible exact Sfx.refl _)
    | (with_reducible apply Sfx.ig)
    | (with_reducible apply Sfx.ad)
    | (with_reducible apply Sfx.sk))))

theorem sfx_comment (st : St) : Sfx st (commentState st).st := by
  unfold commentState
  split
  · sfx
  · simp only; split <;> sfx

theorem sfx_actionQuote (st : St) : Sfx st (actionQuoteState st).st := by
  unfold actionQuoteState; split <;> sfx

theorem sfx_charater (st : St) : Sfx st (charaterState st).st := by
  unfold charaterState; split <;> sfx

theorem sfx_string (st : St) : Sfx st (stringKindState st).st := by
  unfold stringKindState; split <;> sfx

theorem sfx_identify (st : St) : Sfx st (identifyState st).st := by
  unfold identifyState; sfx

theorem sfx_number (st : St) : Sfx st (numberRest st).st := by
  unfold numberRest; sfx

theorem sfx_action (st : St) : Sfx st (actionState st).st := by
  unfold actionState
  split
  · sfx
  · split
    · sfx
    · simp only
      split
      · rename_i h; exact ((sfx_adv _ _).trans (sfx_acceptAlpha h)).trans (sfx_ignore _)
      · split
        · rename_i h; exact ((sfx_adv _ _).trans (sfx_acceptAlpha h)).trans (sfx_ignore _)
        · sfx
  · split
    · rename_i h; exact (sfx_acceptAlpha h).trans (sfx_ignore _)
    · split
      · rename_i h; exact (sfx_acceptAlpha h).trans (sfx_ignore _)
      · sfx

theorem sfx_codeQuote (st : St) : Sfx st (codeQuoteBegin st).st := by
  unfold codeQuoteBegin; split <;> sfx

theorem sfx_union (st : St) : Sfx st (directiveUnionState st).st := by
  unfold directiveUnionState
  simp only
  split
  · have hw := (sfx_skip isBlank3 st).trans (sfx_adv (st.skipWhile isBlank3) 1)
    split
    · exact (hw.trans (sfx_adv _ _)).trans (sfx_ignore _)
    · exact hw.trans (sfx_adv _ _)
  · sfx

theorem sfx_chain (ws : List (String × Kind)) (st : St) (acc : List Tok) :
    Sfx st (directiveChain ws st acc).2 := by
  induction ws generalizing st acc with
  | nil => exact Sfx.refl _
  | cons x xs ih =>
    obtain ⟨w, k⟩ := x
    unfold directiveChain
    split
    · rename_i h; exact ((sfx_acceptAlpha h).trans (sfx_ignore _)).trans (ih _ _)
    · exact ih _ _

theorem sfx_optWord (w : String) (k : Kind) (st : St) : Sfx st (optWord w k st).2 := by
  unfold optWord
  split
  · rename_i h; exact (sfx_acceptAlpha h).trans (sfx_ignore _)
  · exact Sfx.refl _

theorem sfx_directiveOther (st : St) : Sfx st (directiveOtherState st).st := by
  unfold directiveOtherState
  simp only
  have h12 := (sfx_optWord "type" .typeDir st).trans (sfx_optWord "token" .tokenDir _)
  split
  · rename_i h; exact (h12.trans (sfx_acceptAlpha h)).trans (sfx_union _)
  · exact h12.trans (sfx_chain _ _ _)

theorem sfx_directive (st : St) : Sfx st (directiveState st).st := by
  unfold directiveState
  split
  · sfx
  · exact (sfx_adv _ _).trans (sfx_codeQuote _)
  · exact sfx_directiveOther _

theorem sfx_ite {st : St} {c : Prop} [Decidable c] {a b : Res} (ha : Sfx st a.st) (hb : Sfx st b.st) :
    Sfx st (if c then a else b).st := by
  by_cases h : c
  · rw [if_pos h]; exact ha
  · rw [if_neg h]; exact hb

theorem sfx_dispatch (c : Char) (st1 : St) : Sfx st1 (dispatch c st1).st := by
  unfold dispatch
  repeat' (first
    | exact sfx_directive _
    | exact sfx_action _
    | exact sfx_charater _
    | exact sfx_string _
    | exact sfx_identify _
    | exact sfx_number _
    | exact sfx_actionQuote _
    | apply sfx_ite
    | sfx)

theorem hasPrefix_len {s : String} {l : List Char} (h : hasPrefix s l = true) : s.toList.length ≤ l.length := by
  unfold hasPrefix at h
  exact (List.isPrefixOf_iff_prefix.mp h).length_le

/-- a continuing root step consumes at least one character -/
theorem rootStep_progress (st : St) (h : (rootStep st).go = true) :
    (rootStep st).st.rest.length < st.rest.length := by
  unfold rootStep at h ⊢
  split
  · -- comment: the input starts with `//` or `/*`; both branches consume at least 1 character
    rename_i hc
    have h2 : 2 ≤ st.rest.length := by
      rcases Bool.or_eq_true _ _ |>.mp hc with h | h <;> exact hasPrefix_len h
    rw [if_pos hc] at h
    unfold commentState at h ⊢
    split
    · rename_i hp
      -- `//`: the first character is not a newline, so skipWhile consumes it
      obtain ⟨t, ht⟩ : ['/', '/'] <+: st.rest := by simpa [hasPrefix] using hp
      have hrest : st.rest = '/' :: '/' :: t := by rw [← ht]; rfl
      have hlt : (st.skipWhile (· != '\n')).rest.length < st.rest.length := by
        unfold St.skipWhile
        rw [adv_rest, hrest]
        simp [List.takeWhile]
        omega
      have : Sfx (st.skipWhile (· != '\n')) (cont [] ((st.skipWhile (· != '\n')).adv 1).ignore).st := by sfx
      exact Nat.lt_of_le_of_lt this.len hlt
    · rename_i hp
      rw [if_neg hp] at h
      simp only at h ⊢
      have hlt : (st.adv 2).rest.length < st.rest.length := by rw [adv_rest]; simp; omega
      split
      · have : Sfx (st.adv 2) (cont [] ((st.adv 2).adv ‹Nat›).ignore).st := by sfx
        exact Nat.lt_of_le_of_lt this.len hlt
      · rename_i hn; simp [hn, stop] at h
  · split
    · rename_i hr; rw [if_neg (by assumption)] at h; simp [hr, stop] at h
    · rename_i c cs hr
      have h1 : ((st.adv 1).rest.length) < st.rest.length := by
        rw [adv_rest, hr]; simp
      exact Nat.lt_of_le_of_lt (sfx_dispatch c (st.adv 1)).len h1

/-- C13, lexer half: with fuel `length + 2` the lexer always stops by itself -/
theorem lexRoot_fuel (n : Nat) (st : St) (acc : Array Tok) (h : st.rest.length < n) :
    (lexRoot n st acc).2 = true := by
  induction n generalizing st acc with
  | zero => omega
  | succ n ih =>
    unfold lexRoot
    simp only
    split
    · rename_i hgo
      exact ih _ _ (by have := rootStep_progress st hgo; omega)
    · rfl

theorem lexAll_total (s : String) : (lexAll s).2 = true := by
  unfold lexAll
  exact lexRoot_fuel _ _ _ (by simp)

end YLex
