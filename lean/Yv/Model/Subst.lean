/-! # Model of the action-text rewriting of the generator (the TEXT half of C07)

Source: `/repo/Builder/GoTemplBuilder.go` (`buildReduceFunc`, `actionCodeReplace`) and
`/repo/Builder/TsGenCode.go` (`buildReduceFunc`, `actionCodeReplaceTs`), `/repo/Parser/utils.go`
(`RemoveTempName`).

Everything works on `List Char` internally; the `String` functions convert at the boundary.
The texts Go works on are byte strings; every pattern the generator looks for (`$$`, `$[0-9]+`, `*/`,
`$operator`) is ASCII, and an ASCII byte never occurs inside the UTF-8 encoding of a non-ASCII character,
so scanning characters instead of bytes gives the same result on valid UTF-8.

`none` always means: the Go code PANICS (index out of range in `pr.RighPart[i-1]`). -/
namespace Subst

/-! ## `strings.ReplaceAll` for a two-character pattern -/

/-- `strings.ReplaceAll(s, [a,b], ins)`: leftmost, non-overlapping. -/
def replaceAll2 (a b : Char) (ins : List Char) : List Char → List Char
  | [] => []
  | [c] => [c]
  | c :: d :: rest =>
    if c = a ∧ d = b then ins ++ replaceAll2 a b ins rest
    else c :: replaceAll2 a b ins (d :: rest)

/-- `strings.ReplaceAll(code, "$$", ins)`. -/
def replaceDD (ins : List Char) : List Char → List Char := replaceAll2 '$' '$' ins

/-! ## The regexp pass `\$[0-9]+` -/

def cons? (c : Char) : Option (List Char) → Option (List Char)
  | some r => some (c :: r)
  | none => none

def app? : Option (List Char) → Option (List Char) → Option (List Char)
  | some a, some b => some (a ++ b)
  | _, _ => none

/-- `strconv.Atoi` on a string of ASCII digits, with unbounded result.  (Go's `Atoi` returns the clamped
    value `MaxInt64` and an ignored error when the digits overflow `int64`; the index `i-1` is then out of
    range of any right-hand side and the generator panics.  Here the unbounded value is `> n` and the model
    refuses as well — see `emitRef`.) -/
def atoi (ds : List Char) : Nat := ds.foldl (fun acc c => 10 * acc + (c.toNat - 48)) 0

/-- The replacement text for one match `$ds` of the regexp: `"Dollar[" ++ ds ++ mid ++ tag_k` with
    `k = Atoi(ds)`, where `mid` is `"]."` (Go) or `"].ValType."` (TypeScript).
    `none` = the Go expression `pr.RighPart[k-1]` is out of range (`k = 0` gives index `-1`; `k > n`;
    an overflowing `ds` has `k > n` too) and the generator panics. -/
def emitRef (mid : List Char) (tags : List (List Char)) (ds : List Char) : Option (List Char) :=
  if atoi ds = 0 then none
  else match tags[atoi ds - 1]? with
    | none => none
    | some t => some ("Dollar[".toList ++ ds ++ mid ++ t)

/-- What is emitted when the scanner leaves the state "`$` followed by the digits `ds`": with no digit
    there was no match and the `$` is copied; otherwise the match `$ds` is replaced. -/
def closeRef (emit : List Char → Option (List Char)) : List Char → Option (List Char)
  | [] => some ['$']
  | d :: ds => emit (d :: ds)

/-- `regexp.MustCompile("\\$[0-9]+").ReplaceAllStringFunc(s, emit)` as a left-to-right scanner (leftmost
    match, greedy digits, non-overlapping).  State `none`: outside a match.  State `some ds`: a `$` and then
    the digits `ds` (possibly none so far) have been read. -/
def scan (emit : List Char → Option (List Char)) : Option (List Char) → List Char → Option (List Char)
  | none, [] => some []
  | some ds, [] => closeRef emit ds
  | none, c :: rest =>
    if c = '$' then scan emit (some []) rest else cons? c (scan emit none rest)
  | some ds, c :: rest =>
    if c.isDigit then scan emit (some (ds ++ [c])) rest
    else if c = '$' then app? (closeRef emit ds) (scan emit (some []) rest)
    else app? (closeRef emit ds) (cons? c (scan emit none rest))

/-- The regexp pass on a whole text. -/
def refPass (mid : List Char) (tags : List (List Char)) (s : List Char) : Option (List Char) :=
  scan (emitRef mid tags) none s

/-! ## The two passes -/

def ddGo (lhsTag : List Char) : List Char := "dollarDolar.".toList ++ lhsTag
def ddTs (lhsTag : List Char) : List Char := "dollarDolar.ValType.".toList ++ lhsTag
def midGo : List Char := "].".toList
def midTs : List Char := "].ValType.".toList

/-- `$$`-pass then `$n`-pass, with the inserted texts as parameters. -/
def substL (ins mid : List Char) (rhsTags : List (List Char)) (code : List Char) : Option (List Char) :=
  refPass mid rhsTags (replaceDD ins code)

def substGoL (lhsTag : List Char) (rhsTags : List (List Char)) (code : List Char) : Option (List Char) :=
  substL (ddGo lhsTag) midGo rhsTags code

def substTsL (lhsTag : List Char) (rhsTags : List (List Char)) (code : List Char) : Option (List Char) :=
  substL (ddTs lhsTag) midTs rhsTags code

def substGo (lhsTag : String) (rhsTags : List String) (code : String) : Option String :=
  (substGoL lhsTag.toList (rhsTags.map String.toList) code.toList).map String.ofList

def substTs (lhsTag : String) (rhsTags : List String) (code : String) : Option String :=
  (substTsL lhsTag.toList (rhsTags.map String.toList) code.toList).map String.ofList

/-! ## The comment -/

/-- `parser.RemoveTempName`: `len(in) > 9 && in[0:9] == "$operator"`. -/
def removeTempNameL (name : List Char) : List Char :=
  if "$operator".toList.isPrefixOf name ∧ name.length > 9 then '\'' :: name.drop 9 ++ "' ".toList
  else name

def removeTempName (name : String) : String := String.ofList (removeTempNameL name.toList)

/-- `%d` / `fmt.Sprint` of a non-negative integer: its decimal numeral.  This is `(Nat.repr n).toList`
    (`Nat.toList_repr`), without the detour through `String` so that it evaluates quickly in proofs. -/
def natStr (n : Nat) : List Char := Nat.toDigits 10 n

/-- The text handed to `ReplaceAll(…, "*/", "* /")`:
    `Sprintf("%s -> %s\n %s\n", Sprint("\nLineNo:", lineNo, "\n") + RemoveTempName(lhs), rhs…, code)`.
    (`fmt.Sprint` puts a space between two operands only when neither is a string, so none here.) -/
def commentBodyL (lineNo : Nat) (lhsName : List Char) (rhsNames : List (List Char)) (code : List Char) :
    List Char :=
  "\nLineNo:".toList ++ natStr lineNo ++ "\n".toList ++ removeTempNameL lhsName ++ " -> ".toList ++
    (rhsNames.map (fun x => removeTempNameL x ++ " ".toList)).flatten ++ "\n ".toList ++ code ++ "\n".toList

/-- `Sprintf("\n/*\n%s*/\n", ReplaceAll(body, "*/", "* /"))`. -/
def commentL (lineNo : Nat) (lhsName : List Char) (rhsNames : List (List Char)) (code : List Char) :
    List Char :=
  "\n/*\n".toList ++ replaceAll2 '*' '/' "* /".toList (commentBodyL lineNo lhsName rhsNames code) ++
    "*/\n".toList

def commentOf (lineNo : Nat) (lhsName : String) (rhsNames : List String) (code : String) : String :=
  String.ofList (commentL lineNo lhsName.toList (rhsNames.map String.toList) code.toList)

/-! ## One `case`, and the whole `ReduceFunc` -/

structure RuleInfo where
  lhsId : Nat
  lhsName : String
  lhsTag : String
  /-- right-hand side: (name, tag) of every symbol -/
  rhs : List (String × String)
  lineNo : Nat
  code : String
  deriving Repr, Inhabited

/-- `utils.ObjectMode` of the Go generator (`-o`). -/
inductive GoMode | global | object
  deriving Repr, DecidableEq, Inhabited

def GoMode.stack : GoMode → String
  | .global => "StateSymStack"
  | .object => "c.StackSym"
def GoMode.sp : GoMode → String
  | .global => "StackPointer"
  | .object => "c.Stackpos"
def GoMode.pre : GoMode → String
  | .global => ""
  | .object => "c."

def RuleInfo.tags (r : RuleInfo) : List (List Char) := r.rhs.map (fun x => x.2.toList)
def RuleInfo.names (r : RuleInfo) : List (List Char) := r.rhs.map (fun x => x.1.toList)
def RuleInfo.commentL (r : RuleInfo) : List Char :=
  Subst.commentL r.lineNo r.lhsName.toList r.names r.code.toList

/-- `actionCodeReplace`: comment, rewritten action, newline. -/
def actionGoL (r : RuleInfo) : Option (List Char) :=
  (substGoL r.lhsTag.toList r.tags r.code.toList).map (fun s => r.commentL ++ s ++ ['\n'])

/-- `actionCodeReplaceTs`. -/
def actionTsL (r : RuleInfo) : Option (List Char) :=
  (substTsL r.lhsTag.toList r.tags r.code.toList).map (fun s => r.commentL ++ s ++ ['\n'])

/-- The text appended to `caseCode` for rule number `i` (Go generator). -/
def caseGoL (m : GoMode) (i : Nat) (r : RuleInfo) : Option (List Char) :=
  (actionGoL r).map fun act =>
    "case ".toList ++ natStr i ++ ": \n".toList ++
    "\tdollarDolar.YySymIndex = ".toList ++ natStr r.lhsId ++ "\n".toList ++
    "\tDollar := ".toList ++ m.stack.toList ++ "[topIndex-".toList ++ natStr r.rhs.length ++ " : ".toList ++
      m.sp.toList ++ "]\n\t_ = Dollar\n".toList ++
    act ++
    "\t".toList ++ m.pre.toList ++ "PopStateSym(".toList ++ natStr r.rhs.length ++ ")\n".toList

/-- The text appended to `caseCode` for rule number `i` (TypeScript generator). -/
def caseTsL (i : Nat) (r : RuleInfo) : Option (List Char) :=
  (actionTsL r).map fun act =>
    "case ".toList ++ natStr i ++ ": {\n".toList ++
    "\tdollarDolar.YySymIndex = ".toList ++ natStr r.lhsId ++ "\n".toList ++
    "\tlet Dollar = StateSymStack.slice(topIndex-".toList ++ natStr r.rhs.length ++
      " , StackPointer);\n".toList ++
    act ++
    "\tPopStateSym(".toList ++ natStr r.rhs.length ++ ");\n\tbreak;\n}\n".toList

def caseGo (m : GoMode) (i : Nat) (r : RuleInfo) : Option String := (caseGoL m i r).map String.ofList
def caseTs (i : Nat) (r : RuleInfo) : Option String := (caseTsL i r).map String.ofList

/-- Concatenate the cases of `rules`, the first one numbered `i`; refuses as soon as one case refuses
    (the Go loop panics at that rule). -/
def casesFrom (f : Nat → RuleInfo → Option (List Char)) : Nat → List RuleInfo → Option (List Char)
  | _, [] => some []
  | i, r :: rs => app? (f i r) (casesFrom f (i + 1) rs)

/-- `b.ReduceFunc` of the Go generator.  `rules` are the rules of the grammar file in order — rule `k` of
    this list (0-based) is production `k+1` of the augmented grammar; the augmented rule 0 has no case. -/
def reduceFuncGoL (m : GoMode) (rules : List RuleInfo) : Option (List Char) := casesFrom (caseGoL m) 1 rules

/-- `caseCode` of the TypeScript generator. -/
def caseCodeTsL (rules : List RuleInfo) : Option (List Char) := casesFrom caseTsL 1 rules

def tsFrameHead : String :=
  "\nfunction ReduceFunc(reduceIndex :number) :StateSym {\n\tlet dollarDolar = new StateSym(-1,-1)\n\tdollarDolar.ValType = new ValType()\n\tlet topIndex = StackPointer - 1\n\tswitch (reduceIndex) {\n"
def tsFrameTail : String :=
  "\n\t}\n\treturn dollarDolar;\n}\n" ++ "\ninitialize();\n"

/-- `fmt.Sprintf(str, caseCode) + "\ninitialize();\n"`. -/
def wrapTs (caseCode : String) : String := tsFrameHead ++ caseCode ++ tsFrameTail

def reduceFuncGo (m : GoMode) (rules : List RuleInfo) : Option String :=
  (reduceFuncGoL m rules).map String.ofList
def caseCodeTs (rules : List RuleInfo) : Option String := (caseCodeTsL rules).map String.ofList
/-- `b.ReduceFunc` of the TypeScript generator. -/
def reduceFuncTs (rules : List RuleInfo) : Option String := (caseCodeTs rules).map wrapTs

/-! ## Driver helper -/

inductive Target | goGlobal | goObject | ts
  deriving Repr, DecidableEq, Inhabited

/-- Entry point for the line-protocol driver.  `rules`: the rules of the grammar file in order (WITHOUT the
    augmented rule 0; the first one becomes `case 1`).  Result: the `ReduceFunc` text of the chosen
    generator, `none` = the generator panics (an out-of-range `$k`). -/
def driverReduceFunc (rules : Array RuleInfo) : Target → Option String
  | .goGlobal => reduceFuncGo .global rules.toList
  | .goObject => reduceFuncGo .object rules.toList
  | .ts => reduceFuncTs rules.toList

/-- Same, for a caller that holds the productions of the augmented grammar (rule 0 first): rule 0 is
    skipped, as the generator's loop starts at 1. -/
def driverReduceFuncAug (allRules : Array RuleInfo) (t : Target) : Option String :=
  driverReduceFunc (allRules.extract 1 allRules.size) t

end Subst
