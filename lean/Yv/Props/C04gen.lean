import Yv.Proofs.ResolveTie
import Yv.Props.C01gen
/-! The resolution function the verified table generator is instantiated with (`Core.pairWinner`) IS the
    Go text of `ResolveConflict` / `UseDefaultResolveConflict` as translated from LALR/Table.go on every
    run (`Yv/Gen/Resolve.lean`): so `genTableL Core.pairWinner` is the generator with the implementation's
    own conflict resolution.  Kept apart from `C01gen.lean` so that only these statements depend on the
    regenerated file. -/
namespace Y.Props
open Y Y.D Y.GT
open Core (Action)

/-- `Core.pairWinner` is the Go text: `ResolveConflict` — and `UseDefaultResolveConflict` when it
    returns an error — as translated mechanically from LALR/Table.go (`Yv/Gen/Resolve.lean`) -/
theorem C01_pairWinner_is_go (a b : Action) :
    Core.pairWinner a b = ofGen (goWinner (toGen a) (toGen b)) := pairWinner_eq_go a b

/-- hence the translated Go resolution is a selection too, and the generator instantiated with it
    is the generator instantiated with `Core.pairWinner` -/
theorem C01_goRes_sel : ResSel goRes := pairWinner_eq_goRes ▸ pairWinner_sel

theorem genTableL_goRes (G : Grammar) (nS : Nat) (P : PrecData) (A : Auto) (t : LATab) :
    genTableL goRes G nS P A t = genTableL Core.pairWinner G nS P A t := by
  rw [pairWinner_eq_goRes]


end Y.Props

#print axioms Y.Props.C01_pairWinner_is_go
#print axioms Y.Props.C01_goRes_sel
#print axioms Y.Props.genTableL_goRes
