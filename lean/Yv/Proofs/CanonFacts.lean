import Yv.Abs.Prefix
import Yv.Cert.Canon
import Yv.Proofs.CertFacts
/-! Prop-level facts extracted from `closureL` and `certCanon`. -/
namespace Y

/-! ## `rhsOf` / `lhsOf` versus `G.rules[r]?` -/

theorem rhsOf_get {G : Grammar} {r d : Nat} {X : Sym} :
    (G.rhsOf r)[d]? = some X ↔ ∃ rl, G.rules[r]? = some rl ∧ rl.rhs[d]? = some X := by
  unfold Grammar.rhsOf
  cases h : G.rules[r]? with
  | none => simp
  | some rl => simp

theorem lhsOf_of_get {G : Grammar} {r : Nat} {rl : Rule} (h : G.rules[r]? = some rl) :
    G.lhsOf r = rl.lhs := by
  unfold Grammar.lhsOf; rw [h]

theorem rule_lt {G : Grammar} {r : Nat} {rl : Rule} (h : G.rules[r]? = some rl) :
    r < G.rules.length := by
  rcases Nat.lt_or_ge r G.rules.length with h' | h'
  · exact h'
  · rw [List.getElem?_eq_none h'] at h; cases h

theorem rule_of_lt {G : Grammar} {r : Nat} (h : r < G.rules.length) :
    ∃ rl, G.rules[r]? = some rl := ⟨G.rules[r], List.getElem?_eq_getElem h⟩

/-! ## `Cl0` and `adv0` respect (extensional) inclusion / equality of kernels -/

theorem Cl0_mono {G : Grammar} {K K' : Item → Prop} (hK : ∀ it, K it → K' it) :
    ∀ it, Cl0 G K it → Cl0 G K' it := by
  intro it h
  induction h with
  | base it hk => exact .base it (hK it hk)
  | step r d r' rl rl' _ hr hr' hx ih => exact .step r d r' rl rl' ih hr hr' hx

theorem Cl0_congr {G : Grammar} {K K' : Item → Prop} (hK : ∀ it, K it ↔ K' it) (it : Item) :
    Cl0 G K it ↔ Cl0 G K' it :=
  ⟨Cl0_mono (fun it => (hK it).mp) it, Cl0_mono (fun it => (hK it).mpr) it⟩

theorem adv0_congr {G : Grammar} {X : Sym} {S S' : Item → Prop} (hS : ∀ it, S it ↔ S' it)
    (it : Item) : adv0 G X S it ↔ adv0 G X S' it := by
  unfold adv0
  constructor
  · rintro ⟨r, d, rl, h1, h2, h3, h4⟩; exact ⟨r, d, rl, h1, h2, h3, (hS _).mp h4⟩
  · rintro ⟨r, d, rl, h1, h2, h3, h4⟩; exact ⟨r, d, rl, h1, h2, h3, (hS _).mpr h4⟩

/-! ## the executable closure -/

theorem mem_closeStep {G : Grammar} {l : List Item} {it : Item} :
    it ∈ closeStep G l ↔ it ∈ l ∨ ∃ r', r' < G.rules.length ∧ it = ⟨r', 0⟩ ∧ (⟨r', 0⟩ : Item) ∉ l ∧
      ∃ jt ∈ l, afterDot G jt = some (G.lhsOf r') := by
  unfold closeStep
  simp only [List.mem_append, List.mem_map, List.mem_filter, List.mem_range, Bool.and_eq_true,
    Bool.not_eq_true', List.any_eq_true, beq_iff_eq, List.contains_eq_mem, decide_eq_false_iff_not]
  constructor
  · rintro (h | ⟨r', ⟨hr, hn, hj⟩, rfl⟩)
    · exact Or.inl h
    · exact Or.inr ⟨r', hr, rfl, hn, hj⟩
  · rintro (h | ⟨r', hr, rfl, hn, hj⟩)
    · exact Or.inl h
    · exact Or.inr ⟨r', ⟨hr, hn, hj⟩, rfl⟩

theorem closeStep_sound {G : Grammar} {K : Item → Prop} {l : List Item}
    (h : ∀ it ∈ l, Cl0 G K it) : ∀ it ∈ closeStep G l, Cl0 G K it := by
  intro it hit
  rcases mem_closeStep.mp hit with h' | ⟨r', hr, rfl, _, jt, hj, hx⟩
  · exact h it h'
  · obtain ⟨rl, hrl, hx'⟩ := rhsOf_get.mp hx
    obtain ⟨rl', hrl'⟩ := rule_of_lt hr
    rw [lhsOf_of_get hrl'] at hx'
    exact .step jt.r jt.d r' rl rl' (h jt hj) hrl hrl' hx'

theorem closeIter_sound {G : Grammar} {K : Item → Prop} (fuel : Nat) :
    ∀ l : List Item, (∀ it ∈ l, Cl0 G K it) → ∀ it ∈ closeIter G fuel l, Cl0 G K it := by
  induction fuel with
  | zero => intro l h; exact h
  | succ n ih =>
    intro l h
    unfold closeIter
    split
    · exact h
    · exact ih _ (closeStep_sound h)

theorem closeIter_sub {G : Grammar} (fuel : Nat) :
    ∀ l : List Item, ∀ it ∈ l, it ∈ closeIter G fuel l := by
  induction fuel with
  | zero => intro l it h; exact h
  | succ n ih =>
    intro l it h
    unfold closeIter
    split
    · exact h
    · exact ih _ it (mem_closeStep.mpr (Or.inl h))

theorem closedB_ok {G : Grammar} {l : List Item} (h : closedB G l = true) :
    ∀ it ∈ l, ∀ r', r' < G.rules.length → afterDot G it = some (G.lhsOf r') →
      (⟨r', 0⟩ : Item) ∈ l := by
  intro it hit r' hr hx
  unfold closedB at h
  have := all_range (List.all_eq_true.mp h it hit) r' hr
  simp only [Bool.or_eq_true, Bool.not_eq_true', beq_eq_false_iff_ne, ne_eq,
    List.contains_eq_mem, decide_eq_true_eq] at this
  rcases this with h' | h'
  · exact absurd hx h'
  · exact h'

theorem closed_complete {G : Grammar} {K : Item → Prop} {l : List Item}
    (hc : closedB G l = true) (hk : ∀ it, K it → it ∈ l) : ∀ it, Cl0 G K it → it ∈ l := by
  intro it h
  induction h with
  | base it hki => exact hk it hki
  | step r d r' rl rl' _ hr hr' hx ih =>
    refine closedB_ok hc ⟨r, d⟩ ih r' (rule_lt hr') ?_
    rw [lhsOf_of_get hr']
    exact rhsOf_get.mpr ⟨rl, hr, hx⟩

/-- the executable closure computes exactly the declarative LR(0) closure of its kernel -/
theorem closureL_spec {G : Grammar} {k l : List Item} (h : closureL G k = some l) :
    ∀ it, it ∈ l ↔ Cl0 G (fun x => x ∈ k) it := by
  unfold closureL at h
  split at h
  · rename_i hc
    cases h
    intro it
    constructor
    · exact closeIter_sound _ k (fun it hit => .base it hit) it
    · exact closed_complete hc (fun it hit => closeIter_sub _ k it hit) it
  · cases h

theorem sameElems_ok {a b : List Item} (h : sameElems a b = true) : ∀ it, it ∈ a ↔ it ∈ b := by
  unfold sameElems at h
  simp only [Bool.and_eq_true, List.all_eq_true, List.contains_eq_mem, decide_eq_true_eq] at h
  exact fun it => ⟨h.1 it, h.2 it⟩

theorem sameElems_of {a b : List Item} (h : ∀ it, it ∈ a ↔ it ∈ b) : sameElems a b = true := by
  unfold sameElems
  simp only [Bool.and_eq_true, List.all_eq_true, List.contains_eq_mem, decide_eq_true_eq]
  exact ⟨fun it => (h it).mp, fun it => (h it).mpr⟩

theorem isClosureOf_ok {G : Grammar} {its k : List Item} (h : isClosureOf G its k = true) :
    ∀ it, it ∈ its ↔ Cl0 G (fun x => x ∈ k) it := by
  unfold isClosureOf at h
  split at h
  · rename_i l hl
    intro it
    exact (sameElems_ok h it).trans (closureL_spec hl it)
  · cases h

theorem mem_advance {G : Grammar} {X : Sym} {its : List Item} {it : Item} :
    it ∈ advance G X its ↔ adv0 G X (fun x => x ∈ its) it := by
  unfold advance adv0
  simp only [List.mem_map, List.mem_filter, beq_iff_eq]
  constructor
  · rintro ⟨jt, ⟨hj, hx⟩, rfl⟩
    obtain ⟨rl, hr, hx'⟩ := rhsOf_get.mp hx
    exact ⟨jt.r, jt.d, rl, rfl, hr, hx', hj⟩
  · rintro ⟨r, d, rl, rfl, hr, hx, hm⟩
    exact ⟨⟨r, d⟩, ⟨hm, rhsOf_get.mpr ⟨rl, hr, hx⟩⟩, rfl⟩

theorem nodupB_ok {α : Type} [BEq α] [LawfulBEq α] : ∀ {l : List α}, nodupB l = true → l.Nodup
  | [], _ => List.nodup_nil
  | x :: xs, h => by
    unfold nodupB at h
    simp only [Bool.and_eq_true, Bool.not_eq_true', List.contains_eq_mem,
      decide_eq_false_iff_not] at h
    exact List.nodup_cons.mpr ⟨h.1, nodupB_ok h.2⟩

theorem Auto.goto_of_mem {A : Auto} {q : Nat} {X : Sym} (h : ∃ e ∈ A.gts q, e.1 = X) :
    ∃ p, A.goto q X = some p := by
  unfold Auto.goto
  cases hf : (A.gts q).find? (fun e => e.1 == X) with
  | some e => exact ⟨e.2, rfl⟩
  | none =>
    obtain ⟨e, he, hx⟩ := h
    have := List.find?_eq_none.mp hf e he
    simp [hx] at this

/-- what `certCanon` establishes, as propositions -/
structure CanonOK (G : Grammar) (A : Auto) : Prop where
  npos : 0 < A.n
  glen : A.gotos.length = A.n
  s0 : ∀ it, it ∈ A.its 0 ↔ Cl0 G (fun x => x = ⟨0, 0⟩) it
  gotoC : ∀ q, q < A.n → ∀ it ∈ A.its q, ∀ X, (G.rhsOf it.r)[it.d]? = some X →
      ∃ e ∈ A.gts q, e.1 = X
  entry : ∀ q, q < A.n → ∀ X p, (X, p) ∈ A.gts q →
      (∃ it ∈ A.its q, (G.rhsOf it.r)[it.d]? = some X) ∧ p < A.n ∧
      ∀ it, it ∈ A.its p ↔ Cl0 G (adv0 G X (fun x => x ∈ A.its q)) it
  symsNodup : ∀ q, q < A.n → ((A.gts q).map Prod.fst).Nodup
  distinct : ∀ q p, p < q → q < A.n → ¬ ∀ it, it ∈ A.its q ↔ it ∈ A.its p
  reach : ∀ p, p < A.n → p ≠ 0 → ∃ q, q < p ∧ ∃ X, (X, p) ∈ A.gts q
  itemsNodup : ∀ q, q < A.n → (A.its q).Nodup

theorem certCanon_ok {G : Grammar} {A : Auto} (h : certCanon G A = true) : CanonOK G A := by
  unfold certCanon at h
  simp only [Bool.and_eq_true] at h
  obtain ⟨⟨⟨⟨⟨⟨⟨⟨h1, h2⟩, h3⟩, h4⟩, h5⟩, h6⟩, h7⟩, h8⟩, h9⟩ := h
  refine ⟨of_decide_eq_true h1, of_decide_eq_true h2, ?_, ?_, ?_, ?_, ?_, ?_, ?_⟩
  · intro it
    refine (isClosureOf_ok h3 it).trans (Cl0_congr (fun x => ?_) it)
    simp
  · intro q hq it hit X hX
    have := List.all_eq_true.mp (all_range h4 q hq) it hit
    simp only [afterDot, hX, List.any_eq_true, beq_iff_eq] at this
    exact this
  · intro q hq X p hm
    have := List.all_eq_true.mp (all_range h5 q hq) (X, p) hm
    simp only [Bool.and_eq_true, List.any_eq_true, beq_iff_eq, decide_eq_true_eq] at this
    obtain ⟨⟨hx, hp⟩, hc⟩ := this
    refine ⟨hx, hp, fun it => ?_⟩
    exact (isClosureOf_ok hc it).trans (Cl0_congr (fun x => mem_advance) it)
  · intro q hq
    exact nodupB_ok (all_range h6 q hq)
  · intro q p hpq hq hsame
    have := all_range (all_range h7 q hq) p hpq
    rw [sameElems_of hsame] at this
    cases this
  · intro p hp hp0
    have := all_range h8 p hp
    simp only [Bool.or_eq_true, beq_iff_eq, List.any_eq_true, List.mem_range] at this
    rcases this with h | ⟨q, hq, e, he, hep⟩
    · exact absurd h hp0
    · obtain ⟨X, p'⟩ := e
      simp only at hep
      subst hep
      exact ⟨q, hq, X, he⟩
  · intro q hq
    exact nodupB_ok (all_range h9 q hq)

end Y
