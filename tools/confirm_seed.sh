#!/bin/bash
# usage: confirm_seed.sh <worktree> <seed-id> <property> [checks...]
# 1. confirms in the sub-agent's scratch worktree that the change compiles, passes the existing tests,
#    and that its demonstration fails with the change and passes without it;
# 2. stores it under /verif/seeded/<seed-id>/;
# 3. applies it to /repo, runs the given checks, and undoes it straight afterwards.
set -u
WT=$1; ID=$2; PROP=$3; shift 3
export GOFLAGS=-mod=mod GOPROXY=off GOSUMDB=off GOTOOLCHAIN=local
cd "$WT" || exit 2
git diff -- . ':!demo' ':!MUTATION.*' > /tmp/seed_$ID.diff
[ -s /tmp/seed_$ID.diff ] || cp MUTATION.diff /tmp/seed_$ID.diff
echo "--- build+tests with the change"
go build ./... && go test -vet=off -count=1 ./... 2>&1 | grep -v "no test files" | tail -12
echo "--- demo WITH change"; (timeout 300 bash demo/run.sh 2>&1 | tail -3)
git stash -q -- $(git diff --name-only -- . ':!demo' ':!MUTATION.*')
echo "--- demo WITHOUT change"; (timeout 300 bash demo/run.sh 2>&1 | tail -3)
git stash pop -q
D=/verif/seeded/$ID
mkdir -p $D
cp /tmp/seed_$ID.diff $D/patch.diff
rm -rf $D/demo; cp -r demo $D/demo 2>/dev/null; find $D/demo -type f \( -perm -u+x -size +1M \) -delete 2>/dev/null
cp MUTATION.md $D/ 2>/dev/null
cd /verif
if git -C /repo apply --check $D/patch.diff 2>/dev/null; then
  git -C /repo apply $D/patch.diff
  for c in "$@"; do echo "=== check $c on the seeded tree"; timeout 1500 bin/check $c 2>&1 | grep -v "^\[" | tail -4; done
  git -C /repo checkout -- .
  git -C /repo status --short | head -3
else
  echo "PATCH DOES NOT APPLY to /repo"
fi
