/-! Prototype: the generated LR driver as a pure function of (dense table, per-rule data, input),
    with a value stack of two union fields, tokens-requested counter, and the step limit that the
    X harness puts into its actions. Mirrors goCode.templ's Parser loop. -/
namespace Drv

structure RuleD where
  lhs : Nat
  lhsTag : Nat               -- 0 = field a, 1 = field b
  k : Int
  terms : List (Int × Nat)   -- per rhs symbol: coefficient, tag
deriving Inhabited

structure Entry where
  state : Nat
  sym : Nat
  a : Int
  b : Int
deriving Inhabited

structure Tabs where
  rows : Array (Array Int)
  rules : Array RuleD
  tok : Array Nat            -- letter index ↦ symbol id
  nStates : Nat

inductive Verdict | accept | reject | loop | crash (why : String)
deriving Repr

structure Out where
  v : Verdict
  log : List Nat
  val : Int
  req : Nat

def MOD : Int := 1000003

/-- our GetToken: letter index ↦ token ↦ symbol id; past the end ↦ `$` (1); unknown letter ↦ 0 -/
def fetch (t : Tabs) (input : Array Nat) (pos : Nat) : Nat × Entry :=
  match input[pos]? with
  | none => (1, ⟨0, 0, 0, 0⟩)
  | some c => ((t.tok[c]?).getD 0, ⟨0, 0, pos + 1, 2 * pos + 1⟩)

def field (e : Entry) (tag : Nat) : Int := if tag == 0 then e.a else e.b

def run (t : Tabs) (input : Array Nat) : Nat → List Entry → Nat → Nat × Entry → Nat → List Nat → Nat → Out
  | 0, _, _, _, req, log, _ => ⟨.crash "fuel", log.reverse, 0, req⟩
  | fuel+1, stack, pos, (la, lv), req, log, steps =>
    match stack with
    | [] => ⟨.crash "empty stack", log.reverse, 0, req⟩
    | top :: _ =>
      match (t.rows[top.state]?).bind (·[la]?) with
      | none => ⟨.crash "index", log.reverse, 0, req⟩
      | some act =>
        if act == t.nStates + 100 then ⟨.reject, log.reverse, 0, req⟩
        else if act == t.nStates + 200 then ⟨.accept, log.reverse, top.b, req⟩
        else if act > 0 then
          -- shift: push, then ask the lexer for the next token
          let e : Entry := { lv with state := act.toNat, sym := la }
          let pos' := if pos < input.size then pos + 1 else pos
          run t input fuel (e :: stack) pos' (fetch t input pos') (req + 1) log steps
        else
          let r := (-act).toNat
          match t.rules[r]? with
          | none => ⟨.crash "rule", log.reverse, 0, req⟩
          | some rd =>
            let n := rd.terms.length
            if steps + 1 > 3000 then ⟨.loop, [], 0, req⟩
            else if n + 1 > stack.length then ⟨.crash "pop", log.reverse, 0, req⟩
            else
              let handle := (stack.take n).reverse          -- Dollar[1..n]
              let v := ((handle.zip rd.terms).foldl (fun acc (e, (c, tg)) => acc + c * field e tg) rd.k) % MOD
              let rest := stack.drop n
              match rest with
              | [] => ⟨.crash "pop", log.reverse, 0, req⟩
              | under :: _ =>
                match (t.rows[under.state]?).bind (·[rd.lhs]?) with
                | none => ⟨.crash "index", log.reverse, 0, req⟩
                | some g =>
                  let e : Entry := if rd.lhsTag == 0 then ⟨g.toNat, rd.lhs, v, 0⟩ else ⟨g.toNat, rd.lhs, 0, v⟩
                  run t input fuel (e :: rest) pos (la, lv) req (r :: log) (steps + 1)

def parse (t : Tabs) (input : Array Nat) : Out :=
  run t input (4000 * (input.size + 2)) [⟨0, 1, 0, 0⟩] 0 (fetch t input 0) 1 [] 0

end Drv
