package main

import (
	"bufio"
	"encoding/hex"
	"fmt"
	"os"
	"sort"
	"strings"

	parser "github.com/acekingke/yaccgo/Parser"
	utils "github.com/acekingke/yaccgo/Utils"
)

// cmdViews: the DOT graph (as built by DrawGrammar) and the `yaccgo debug` listing, next to the
// automaton / table / lookaheads of the same run.
func cmdViews() {
	w := bufio.NewWriterSize(realStdout, 1<<20)
	defer w.Flush()
	readCases(os.Stdin, func(c Case) {
		fmt.Fprintf(w, "CASE %s\n", c.ID)
		defer fmt.Fprintf(w, "ENDCASE\n")
		utils.DebugFlags = true // what RunDebugCmd sets
		wk, out, cls, msg := build(c.Src)
		utils.DebugFlags = false
		if wk == nil {
			fmt.Fprintf(w, "REFUSE %s %s\n", cls, oneLine(msg))
			return
		}
		v := wk.VistorNode.(*parser.RootVistor)
		g := v.G
		fmt.Fprintf(w, "GRAMMAR %d %d\n", len(g.Symbols), len(g.VtSet))
		for _, s := range g.Symbols {
			nt := 0
			if s.IsNonTerminator {
				nt = 1
			}
			fmt.Fprintf(w, "SYM %d %d %d %d %d 0 %s %s\n", s.ID, nt, s.Value, s.Prec, int(s.PrecType), q(s.Name), q(s.Tag))
			// the spelling DrawGrammar uses for this symbol (the model's `names` function)
			fmt.Fprintf(w, "DNAME %d %s\n", s.ID, hex.EncodeToString([]byte(utils.EscapeDotGraph(utils.RemoveTempName(s.Name)))))
		}
		fmt.Fprintf(w, "WANTDOT\n")
		for _, s := range g.Symbols {
			// the spelling the debug listing uses (the listing model's `names` function)
			fmt.Fprintf(w, "RNAME %d %s\n", s.ID, hex.EncodeToString([]byte(s.Name)))
		}
		for i, ru := range g.ProductoinRules {
			var rhs []int
			for _, s := range ru.RighPart {
				rhs = append(rhs, int(s.ID))
			}
			fmt.Fprintf(w, "RULE %d %d -1 %s\n", i, ru.LeftPart.ID, ints(rhs))
		}
		for qi, st := range g.LR0.LR0Closure {
			fmt.Fprintf(w, "STATE %d %d", qi, st.Index)
			for _, x := range st.Items {
				fmt.Fprintf(w, " %d.%d", x.RuleIndex, x.Dot)
			}
			fmt.Fprintf(w, "\n")
			for _, gt := range st.GoTo {
				fmt.Fprintf(w, "GOTO %d %d %d\n", qi, gt.Sym.ID, gt.ItemCl)
			}
		}
		las := v.VerifLookaheads()
		for _, la := range las {
			x := append([]int{}, la.LA...)
			sort.Ints(x)
			fmt.Fprintf(w, "LA %d %d %s\n", la.State, la.Rule, ints(x))
			fmt.Fprintf(w, "LLA %d %d %s\n", la.State, la.Rule, ints(la.LA)) // the implementation's own order
		}
		for qi, row := range v.GTable {
			fmt.Fprintf(w, "ROW %d %s\n", qi, ints(row))
		}
		fmt.Fprintf(w, "CODES %d %d\n", v.GenErrorCode(), v.GenAcceptCode())
		// the DOT graph object
		var nodes, edges []string
		_, pv := capture(func() {
			gr := v.DrawGrammar(v.GTable)
			for _, n := range gr.Nodes.Nodes {
				filled := 0
				if n.Attrs["style"] == "filled" {
					filled = 1
				}
				nodes = append(nodes, fmt.Sprintf("DOTNODE %s %d %s", n.Name, filled, q(n.Attrs["label"])))
			}
			for _, e := range gr.Edges.Edges {
				edges = append(edges, fmt.Sprintf("DOTEDGE %s %s %s", e.Src, e.Dst, q(e.Attrs["label"])))
			}
			fmt.Fprintf(w, "DOTTEXT %s\n", q(gr.String()))
		})
		if pv != nil {
			fmt.Fprintf(w, "DOTPANIC %s\n", oneLine(fmt.Sprint(pv)))
		}
		// hex forms for the comparison with the Lean views model
		_, _ = capture(func() {
			gr := v.DrawGrammar(v.GTable)
			for _, n := range gr.Nodes.Nodes {
				filled := 0
				if n.Attrs["style"] == "filled" {
					filled = 1
				}
				nodes = append(nodes, fmt.Sprintf("HDOTNODE %s %d %s", n.Name, filled, hex.EncodeToString([]byte(n.Attrs["label"]))))
			}
			for _, e := range gr.Edges.Edges {
				edges = append(edges, fmt.Sprintf("HDOTEDGE %s %s %s", e.Src, e.Dst, hex.EncodeToString([]byte(e.Attrs["label"]))))
			}
		})
		for _, l := range nodes {
			fmt.Fprintln(w, l)
		}
		for _, l := range edges {
			fmt.Fprintln(w, l)
		}
		fmt.Fprintf(w, "LISTING %s\n", q(out))
		// the two sections of the listing the Lean listing model renders, line by line
		if i := strings.Index(out, "=========Show State Closure=========\n"); i >= 0 {
			sec := out[i+len("=========Show State Closure=========\n"):]
			if j := strings.Index(sec, "===========SHOW TRANS================\n"); j >= 0 {
				for _, l := range strings.Split(strings.TrimSuffix(sec[:j], "\n"), "\n") {
					fmt.Fprintf(w, "HLISTS %s\n", hex.EncodeToString([]byte(l)))
				}
			}
		}
		// the other sections (transitions, direct-read, read and follow sets): the entries as data (sets in the
		// stored order) and the printed lines
		trs := v.VerifTrans()
		byIdx := map[int]int{}
		for i, tr := range trs {
			byIdx[tr.Index] = i
			k := 0
			if tr.IsReduce {
				k = 1
			}
			fmt.Fprintf(w, "LTR %d %d %d\n", tr.Q, k, tr.SymOrRule)
		}
		for _, sec := range []struct {
			tag string
			m   map[int][]int
		}{{"LDR", v.DRSet}, {"LRD", v.ReadSet}, {"LFO", v.FollowSet}} {
			keys := []int{}
			for k := range sec.m {
				keys = append(keys, k)
			}
			sort.Ints(keys)
			for _, k := range keys {
				if i, ok := byIdx[k]; ok && !trs[i].IsReduce {
					fmt.Fprintf(w, "%s %d %d %s\n", sec.tag, trs[i].Q, trs[i].SymOrRule, ints(sec.m[k]))
				} else {
					fmt.Fprintf(w, "%s -1 -1 %d\n", sec.tag, k) // a key that is no shift/goto transition
				}
			}
		}
		heads := []string{"===========SHOW TRANS================\n", "==========Show Direct Read SET===============\n",
			"==========Show Reads SET===============\n", "==========Show FollowSet SET===============\n",
			"==========Show LookAhead SET===============\n"}
		for si, tag := range []string{"HLISTTR", "HLISTDR", "HLISTRD", "HLISTFO"} {
			i := strings.Index(out, heads[si])
			if i < 0 {
				fmt.Fprintf(w, "%s-MISSING\n", tag)
				continue
			}
			sec := out[i+len(heads[si]):]
			j := strings.Index(sec, heads[si+1])
			if j < 0 {
				fmt.Fprintf(w, "%s-MISSING\n", tag)
				continue
			}
			if sec[:j] == "" {
				continue
			}
			for _, l := range strings.Split(strings.TrimSuffix(sec[:j], "\n"), "\n") {
				fmt.Fprintf(w, "%s %s\n", tag, hex.EncodeToString([]byte(l)))
			}
		}
		if i := strings.Index(out, "==========Show LookAhead SET===============\n"); i >= 0 {
			sec := strings.Split(out[i+len("==========Show LookAhead SET===============\n"):], "\n")
			for k := 0; k < len(las) && k < len(sec); k++ {
				fmt.Fprintf(w, "HLISTLA %s\n", hex.EncodeToString([]byte(sec[k])))
			}
		}
	})
}
