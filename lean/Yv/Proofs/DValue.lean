import Yv.Proofs.DSound
/-! Value invariant of the concrete driver: the values on the stack are the bottom-up evaluation of
    the semantic actions over the parse forest of the consumed input, and the reductions performed
    (oldest first) are the bottom-up left-to-right rule sequence of that forest. -/
namespace Y

/-- `Vals G sem γ u vs rs`: the symbol sequence `γ` derives the token/value list `u`; the values of
    the `γ`-symbols are `vs` (a token's value is the one the lexer delivered, a nonterminal's value
    is `sem r` applied to the values of its children in order); `rs` is the sequence of rule numbers
    in the order a bottom-up left-to-right parser performs the reductions. -/
inductive Vals {V : Type} (G : Grammar) (sem : Nat → List V → V) :
    List Sym → List (Sym × V) → List V → List Nat → Prop
  | nil : Vals G sem [] [] [] []
  | tm (t : Sym) (v : V) (γ : List Sym) (u : List (Sym × V)) (vs : List V) (rs : List Nat) :
      G.isT t = true → Vals G sem γ u vs rs → Vals G sem (t :: γ) ((t, v) :: u) (v :: vs) rs
  | nt (r : Nat) (rl : Rule) (γ : List Sym) (u1 u2 : List (Sym × V)) (vs1 vs : List V)
      (rs1 rs2 : List Nat) :
      G.rules[r]? = some rl → Vals G sem rl.rhs u1 vs1 rs1 → Vals G sem γ u2 vs rs2 →
      Vals G sem (rl.lhs :: γ) (u1 ++ u2) (sem r vs1 :: vs) (rs1 ++ [r] ++ rs2)

namespace Vals
variable {V : Type} {G : Grammar} {sem : Nat → List V → V}

theorem length_eq {γ : List Sym} {u : List (Sym × V)} {vs : List V} {rs : List Nat}
    (h : Vals G sem γ u vs rs) : vs.length = γ.length := by
  induction h with
  | nil => rfl
  | tm t v γ u vs rs _ _ ih => simp only [List.length_cons, ih]
  | nt r rl γ u1 u2 vs1 vs rs1 rs2 _ _ _ _ ih => simp only [List.length_cons, ih]

theorem append {γ1 γ2 : List Sym} {u1 u2 : List (Sym × V)} {vs1 vs2 : List V} {rs1 rs2 : List Nat}
    (h1 : Vals G sem γ1 u1 vs1 rs1) (h2 : Vals G sem γ2 u2 vs2 rs2) :
    Vals G sem (γ1 ++ γ2) (u1 ++ u2) (vs1 ++ vs2) (rs1 ++ rs2) := by
  induction h1 with
  | nil => simpa only [List.nil_append] using h2
  | tm t v γ u vs rs ht _ ih =>
    simp only [List.cons_append]
    exact Vals.tm t v _ _ _ _ ht ih
  | nt r rl γ ua ub vsa vs rsa rsb hr ha _ _ ih =>
    have := Vals.nt r rl _ _ _ _ _ _ _ hr ha ih
    simp only [List.cons_append, List.append_assoc] at this ⊢
    exact this

/-- a forest for `γ1 ++ γ2` splits into a forest for `γ1` and one for `γ2` -/
theorem split : ∀ (γ1 γ2 : List Sym) (u : List (Sym × V)) (vs : List V) (rs : List Nat),
    Vals G sem (γ1 ++ γ2) u vs rs →
    ∃ u1 u2 vs1 vs2 rs1 rs2, u = u1 ++ u2 ∧ vs = vs1 ++ vs2 ∧ rs = rs1 ++ rs2 ∧
      Vals G sem γ1 u1 vs1 rs1 ∧ Vals G sem γ2 u2 vs2 rs2 := by
  intro γ1
  induction γ1 with
  | nil =>
    intro γ2 u vs rs h
    exact ⟨[], u, [], vs, [], rs, rfl, rfl, rfl, Vals.nil, by simpa only [List.nil_append] using h⟩
  | cons x γ1 ih =>
    intro γ2 u vs rs h
    rw [List.cons_append] at h
    cases h with
    | tm t v γ u' vs' rs' ht h' =>
      obtain ⟨u1, u2, vs1, vs2, rs1, rs2, rfl, rfl, rfl, ha, hb⟩ := ih γ2 _ _ _ h'
      exact ⟨(x, v) :: u1, u2, v :: vs1, vs2, rs1, rs2, rfl, rfl, rfl, Vals.tm x v _ _ _ _ ht ha, hb⟩
    | nt r rl γ ua ub vsa vs' rsa rsb hr ha h' =>
      obtain ⟨u1, u2, vs1, vs2, rs1, rs2, rfl, rfl, rfl, hc, hb⟩ := ih γ2 _ _ _ h'
      refine ⟨ua ++ u1, u2, sem r vsa :: vs1, vs2, rsa ++ [r] ++ rs1, rs2, ?_, rfl, ?_,
        Vals.nt r rl _ _ _ _ _ _ _ hr ha hc, hb⟩
      · simp only [List.append_assoc]
      · simp only [List.append_assoc]

/-- appending a shifted token on the right -/
theorem snoc_tm {γ : List Sym} {u : List (Sym × V)} {vs : List V} {rs : List Nat}
    (h : Vals G sem γ u vs rs) (x : Sym × V) (ht : G.isT x.1 = true) :
    Vals G sem (γ ++ [x.1]) (u ++ [x]) (vs ++ [x.2]) rs := by
  have := append h (Vals.tm x.1 x.2 [] [] [] [] ht Vals.nil)
  simpa only [List.append_nil] using this

/-- reducing a handle `rhs` on the right to its left-hand side -/
theorem snoc_nt {pre : List Sym} {u1 u2 : List (Sym × V)} {vs1 args : List V} {rs1 rs2 : List Nat}
    {r : Nat} {rl : Rule} (hr : G.rules[r]? = some rl)
    (h1 : Vals G sem pre u1 vs1 rs1) (h2 : Vals G sem rl.rhs u2 args rs2) :
    Vals G sem (pre ++ [rl.lhs]) (u1 ++ u2) (vs1 ++ [sem r args]) (rs1 ++ rs2 ++ [r]) := by
  have := append h1 (Vals.nt r rl [] u2 [] args [] rs2 [] hr h2 Vals.nil)
  simpa only [List.append_nil, List.append_assoc] using this

end Vals
end Y

namespace Y.D
open Y
variable {V : Type}

/-- the values on the stack, bottom entry excluded, left to right (mirror of `ssyms`) -/
def svals : List (Entry V) → List V
  | [] => []
  | [_] => []
  | e :: f :: st => svals (f :: st) ++ [e.val]

theorem svals_cons (e f : Entry V) (st : List (Entry V)) :
    svals (e :: f :: st) = svals (f :: st) ++ [e.val] := rfl

theorem svals_length : ∀ st : List (Entry V), (svals st).length = (ssyms st).length
  | [] => rfl
  | [_] => rfl
  | e :: f :: st => by
    rw [svals_cons, ssyms_cons, List.length_append, List.length_append, svals_length (f :: st)]
    rfl

/-- the values of the `n` topmost entries, oldest first, are the last `n` stack values -/
theorem svals_take_drop : ∀ (n : Nat) (st : List (Entry V)), n + 1 ≤ st.length →
    svals st = svals (st.drop n) ++ ((st.take n).reverse.map Entry.val) := by
  intro n
  induction n with
  | zero => intro st _; simp
  | succ n ih =>
    intro st hlen
    cases st with
    | nil => simp at hlen
    | cons e st' =>
      cases st' with
      | nil => simp at hlen
      | cons f st'' =>
        have hl : n + 1 ≤ (f :: st'').length := by
          simp only [List.length_cons] at hlen ⊢; omega
        rw [svals_cons, ih (f :: st'') hl]
        simp only [List.drop_succ_cons, List.take_succ_cons, List.reverse_cons, List.map_append,
          List.map_cons, List.map_nil, List.append_assoc]

/-- if the stack symbols are a single symbol, the stack values are the top entry's value -/
theorem svals_single {top : Entry V} {below : List (Entry V)} {x : Sym}
    (h : ssyms (top :: below) = [x]) : svals (top :: below) = [top.val] := by
  cases below with
  | nil => simp [ssyms] at h
  | cons f st =>
    rw [ssyms_cons] at h
    have hl : (ssyms (f :: st)).length = 0 := by
      have := congrArg List.length h
      simp only [List.length_append, List.length_cons, List.length_nil] at this
      omega
    have hz : svals (f :: st) = [] := List.eq_nil_of_length_eq_zero (by rw [svals_length, hl])
    rw [svals_cons, hz]; rfl

/-! ### shape of a step -/

theorem step_next_shape {P : Params V} {c c' : Cfg V} (h : step P c = .next c') :
    ∃ top below a, c.stack = top :: below ∧ P.L top.st (look P.eofVal c).1 = some a ∧
      a ≠ P.errC ∧ a ≠ P.accC ∧
      ((0 < a ∧
          c'.stack = ⟨a.toNat, (look P.eofVal c).1, (look P.eofVal c).2⟩ :: top :: below ∧
          c'.rest = c.rest.tail ∧ c'.reds = c.reds) ∨
       (¬ 0 < a ∧ ∃ lhs n under rest' g, P.rule (-a).toNat = some (lhs, n) ∧ n ≤ below.length ∧
          (top :: below).drop n = under :: rest' ∧ P.L under.st lhs = some g ∧
          c'.stack = ⟨g.toNat, lhs,
              P.sem (-a).toNat (((top :: below).take n).reverse.map Entry.val)⟩ :: under :: rest' ∧
          c'.rest = c.rest ∧ c'.reds = (-a).toNat :: c.reds)) := by
  unfold step at h
  split at h
  · cases h
  · rename_i top below hst
    split at h
    · cases h
    · rename_i a hL
      split at h
      · cases h
      · rename_i he
        split at h
        · cases h
        · rename_i hacc
          refine ⟨top, below, a, hst, hL, he, hacc, ?_⟩
          split at h
          · rename_i hpos
            cases h
            exact Or.inl ⟨hpos, rfl, rfl, rfl⟩
          · rename_i hpos
            split at h
            · cases h
            · rename_i lhs n hrule
              split at h
              · rename_i hn
                split at h
                · cases h
                · rename_i under rest' hdrop
                  split at h
                  · cases h
                  · rename_i g hg
                    split at h
                    · cases h
                    · cases h
                      exact Or.inr ⟨hpos, lhs, n, under, rest', g, hrule, hn, hdrop, hg, rfl, rfl, rfl⟩
              · cases h

theorem step_acc_shape {P : Params V} {c c' : Cfg V} {v : V} (h : step P c = .acc v c') :
    c' = c ∧ ∃ top below, c.stack = top :: below ∧ v = top.val := by
  unfold step at h
  split at h
  · cases h
  · rename_i top below hst
    split at h
    · cases h
    · split at h
      · cases h
      · split at h
        · cases h
          exact ⟨rfl, top, below, hst, rfl⟩
        · split at h
          · cases h
          · split at h
            · cases h
            · split at h
              · split at h
                · cases h
                · split at h
                  · cases h
                  · split at h
                    · cases h
                    · cases h
              · cases h

theorem drule_some {G : Grammar} {T : Dense} {n : Nat} {sem : Nat → List V → V} {ev : V}
    {r : Nat} {lhs k : Nat} (h : (dparams G T n sem ev).rule r = some (lhs, k)) :
    r ≠ 0 ∧ ∃ rl, G.rules[r]? = some rl ∧ lhs = rl.lhs ∧ k = rl.rhs.length := by
  have h' : (if r = 0 then none else (G.rules[r]?).map (fun rl => (rl.lhs, rl.rhs.length)))
      = some (lhs, k) := h
  by_cases hr0 : r = 0
  · rw [if_pos hr0] at h'; cases h'
  · rw [if_neg hr0] at h'
    refine ⟨hr0, ?_⟩
    cases hrl : G.rules[r]? with
    | none => rw [hrl] at h'; simp only [Option.map_none] at h'; cases h'
    | some rl =>
      rw [hrl] at h'
      simp only [Option.map_some, Option.some.injEq, Prod.mk.injEq] at h'
      exact ⟨rl, rfl, h'.1.symm, h'.2.symm⟩

/-! ### the value invariant -/

/-- `Inv` plus: the stack symbols derive the consumed prefix of the input, the stack values are the
    values of these subtrees, and the reductions so far (oldest first) are their rule sequence -/
structure InvV (G : Grammar) (A : Auto) (sem : Nat → List V → V) (w : List (Sym × V)) (c : Cfg V) :
    Prop where
  inv : Inv G A (w.map Prod.fst) c
  val : ∃ shifted, w = shifted ++ c.rest ∧
      Vals G sem (ssyms c.stack) shifted (svals c.stack) c.reds.reverse

theorem init_invV {G : Grammar} {A : Auto} (sem : Nat → List V → V) (bv : V) (w : List (Sym × V))
    (hw : ∀ t ∈ w, t.1 ≤ G.nT ∧ t.1 ≠ 1) : InvV G A sem w (init bv w) :=
  ⟨init_inv bv w hw, [], rfl, Vals.nil⟩

/-- Slots lemma (stack level): when the top state holds the complete item of rule `r`, the forest on
    the stack splits into the part below the handle and a forest for `rhs` whose values are exactly
    the values of the `|rhs|` topmost entries, oldest first. -/
theorem reduce_vals {G : Grammar} {A : Auto} (hA : AOK G A) {sem : Nat → List V → V}
    {st : List (Entry V)} {r : Nat} {rl : Rule} {shifted : List (Sym × V)} {rs : List Nat}
    (hp : PathOK A st) (hrl : G.rules[r]? = some rl)
    (hit : (⟨r, rl.rhs.length⟩ : Item) ∈ A.its (stTop st))
    (hv : Vals G sem (ssyms st) shifted (svals st) rs) :
    rl.rhs.length + 1 ≤ st.length ∧
    ssyms st = ssyms (st.drop rl.rhs.length) ++ rl.rhs ∧
    svals st = svals (st.drop rl.rhs.length) ++ ((st.take rl.rhs.length).reverse.map Entry.val) ∧
    ∃ u1 u2 rs1 rs2, shifted = u1 ++ u2 ∧ rs = rs1 ++ rs2 ∧
      Vals G sem (ssyms (st.drop rl.rhs.length)) u1 (svals (st.drop rl.rhs.length)) rs1 ∧
      Vals G sem rl.rhs u2 ((st.take rl.rhs.length).reverse.map Entry.val) rs2 := by
  obtain ⟨hlen, hsy, _, _⟩ := handle hA rl.rhs.length st r hp hit
  rw [rhsOf_eq hrl, List.take_length] at hsy
  have hsv := svals_take_drop rl.rhs.length st hlen
  refine ⟨hlen, hsy, hsv, ?_⟩
  rw [hsy] at hv
  obtain ⟨u1, u2, vs1, vs2, rs1, rs2, hu, hvs, hrs, h1, h2⟩ := Vals.split _ _ _ _ _ hv
  have hl2 : vs2.length = ((st.take rl.rhs.length).reverse.map Entry.val).length := by
    rw [h2.length_eq, List.length_map, List.length_reverse, List.length_take]
    omega
  rw [hsv] at hvs
  obtain ⟨e1, e2⟩ := List.append_inj' hvs hl2.symm
  rw [← e1] at h1
  rw [← e2] at h2
  exact ⟨u1, u2, rs1, rs2, hu, hrs, h1, h2⟩

/-- Shape of a `next` step from an invariant configuration on a certified table: a shift of the
    next input token (a terminal), or a reduction by a rule whose complete item is in the top state. -/
theorem step_shapeV {G : Grammar} {nS : Nat} {A : Auto} {T : Dense} {w : List Sym}
    (sem : Nat → List V → V) (eofVal : V)
    (hT : TOK G nS A T) {c c' : Cfg V} (h : Inv G A w c)
    (hs : step (dparams G T A.n sem eofVal) c = .next c') :
    ∃ top below, c.stack = top :: below ∧
      ((∃ x xs p, c.rest = x :: xs ∧ G.isT x.1 = true ∧
          c'.stack = ⟨p, x.1, x.2⟩ :: top :: below ∧ c'.rest = xs ∧ c'.reds = c.reds) ∨
       (∃ r rl p under rest', r ≠ 0 ∧ G.rules[r]? = some rl ∧
          (⟨r, rl.rhs.length⟩ : Item) ∈ A.its top.st ∧
          (top :: below).drop rl.rhs.length = under :: rest' ∧
          c'.stack = ⟨p, rl.lhs,
              sem r (((top :: below).take rl.rhs.length).reverse.map Entry.val)⟩ :: under :: rest' ∧
          c'.rest = c.rest ∧ c'.reds = r :: c.reds)) := by
  obtain ⟨top, below, a, hst, hL, he, hacc, hcase⟩ := step_next_shape hs
  refine ⟨top, below, hst, ?_⟩
  have hL' : cell T top.st (look eofVal c).1 = some a := hL
  have he' : a ≠ errCode A.n := he
  have hacc' : a ≠ accCode A.n := hacc
  rcases hcase with ⟨hpos, hstk, hrest, hreds⟩ |
    ⟨hneg, lhs, n, under, rest', g, hrule, hn, hdrop, hLg, hstk, hrest, hreds⟩
  · left
    have hlk : look (dparams G T A.n sem eofVal).eofVal c = look eofVal c := rfl
    rw [hlk] at hstk
    obtain ⟨ha1, _⟩ := hT.shift _ _ _ hL' he' hacc' hpos
    cases hr : c.rest with
    | nil => rw [look_nil hr] at ha1; exact absurd rfl ha1
    | cons x xs =>
      rw [look_cons hr] at hstk hL'
      have ha0 : x.1 ≠ 0 := by
        intro h0
        rw [h0] at hL'
        exact he' (hT.col0 _ _ hL')
      have hx := h.term x (by rw [hr]; exact List.mem_cons_self)
      refine ⟨x, xs, a.toNat, rfl, isT_of hx.1 ha0, hstk, ?_, hreds⟩
      rw [hrest, hr]; rfl
  · right
    obtain ⟨hr0, rl, hrl, rfl, rfl⟩ := drule_some hrule
    obtain ⟨_, _, _, hit⟩ := hT.red _ _ _ hL' he' hacc' hneg
    rw [rhsOf_eq hrl] at hit
    exact ⟨(-a).toNat, rl, g.toNat, under, rest', hr0, hrl, hit, hdrop, hstk, hrest, hreds⟩

/-- the value invariant is preserved by every `next` step -/
theorem step_invV {G : Grammar} {nS : Nat} {A : Auto} {T : Dense} {w : List (Sym × V)}
    (sem : Nat → List V → V) (eofVal : V)
    (hG : GOK G nS) (hA : AOK G A) (hT : TOK G nS A T) {c c' : Cfg V} (h : InvV G A sem w c)
    (hs : step (dparams G T A.n sem eofVal) c = .next c') : InvV G A sem w c' := by
  have hinv' : Inv G A (w.map Prod.fst) c' := by
    rcases step_cases sem eofVal hG hA hT h.inv with ⟨c2, h2, hi⟩ | ⟨v, h2, _⟩ | h2
    · rw [h2] at hs; cases hs; exact hi
    · rw [h2] at hs; cases hs
    · rw [h2] at hs; cases hs
  refine ⟨hinv', ?_⟩
  obtain ⟨shifted, hw, hv⟩ := h.val
  obtain ⟨top, below, hst, hcase⟩ := step_shapeV sem eofVal hT h.inv hs
  have hpath := h.inv.path
  rw [hst] at hpath hv
  rcases hcase with ⟨x, xs, p, hr, hxT, hstk, hrest, hreds⟩ |
    ⟨r, rl, p, under, rest', _, hrl, hit, hdrop, hstk, hrest, hreds⟩
  · refine ⟨shifted ++ [x], ?_, ?_⟩
    · rw [hrest, hw, hr, List.append_assoc]; rfl
    · rw [hstk, hreds, ssyms_cons, svals_cons]
      exact hv.snoc_tm x hxT
  · obtain ⟨_, _, _, u1, u2, rs1, rs2, hu, hrs, h1, h2⟩ :=
      reduce_vals hA (sem := sem) hpath hrl (by simpa only [stTop] using hit) hv
    rw [hdrop] at h1
    refine ⟨shifted, by rw [hrest]; exact hw, ?_⟩
    rw [hstk, hreds, ssyms_cons, svals_cons, List.reverse_cons, hrs, hu]
    exact Vals.snoc_nt hrl h1 h2

/-! ### runs and reachability -/

/-- configurations reachable by `next` steps -/
inductive Reach (P : Params V) : Cfg V → Cfg V → Prop
  | refl (c : Cfg V) : Reach P c c
  | tail (c c1 c2 : Cfg V) : Reach P c c1 → step P c1 = .next c2 → Reach P c c2

theorem Reach.head {P : Params V} {c c1 c2 : Cfg V} (hs : step P c = .next c1)
    (h : Reach P c1 c2) : Reach P c c2 := by
  induction h with
  | refl => exact Reach.tail _ _ _ (Reach.refl _) hs
  | tail c2 c3 _ hs' ih => exact Reach.tail _ _ _ ih hs'

theorem reach_invV {G : Grammar} {nS : Nat} {A : Auto} {T : Dense} {w : List (Sym × V)}
    (sem : Nat → List V → V) (eofVal : V)
    (hG : GOK G nS) (hA : AOK G A) (hT : TOK G nS A T) {c c' : Cfg V} (h : InvV G A sem w c)
    (hr : Reach (dparams G T A.n sem eofVal) c c') : InvV G A sem w c' := by
  induction hr with
  | refl => exact h
  | tail c1 c2 _ hs ih => exact step_invV sem eofVal hG hA hT ih hs

/-- an accepting run ends in an invariant configuration whose step is the accept -/
theorem run_accept_invV {G : Grammar} {nS : Nat} {A : Auto} {T : Dense} {w : List (Sym × V)}
    (sem : Nat → List V → V) (eofVal : V)
    (hG : GOK G nS) (hA : AOK G A) (hT : TOK G nS A T) {v : V} {c' : Cfg V} :
    ∀ (fuel : Nat) (c : Cfg V), InvV G A sem w c →
      run (dparams G T A.n sem eofVal) fuel c = .accept v c' →
      InvV G A sem w c' ∧ step (dparams G T A.n sem eofVal) c' = .acc v c' ∧
      Reach (dparams G T A.n sem eofVal) c c' := by
  intro fuel
  induction fuel with
  | zero => intro c _ hr; cases hr
  | succ n ih =>
    intro c h hr
    unfold run at hr
    cases hs : step (dparams G T A.n sem eofVal) c with
    | next c1 =>
      rw [hs] at hr
      obtain ⟨h1, h2, h3⟩ := ih c1 (step_invV sem eofVal hG hA hT h hs) hr
      exact ⟨h1, h2, Reach.head hs h3⟩
    | acc v1 c1 =>
      rw [hs] at hr
      cases hr
      obtain ⟨rfl, _⟩ := step_acc_shape hs
      exact ⟨h, hs, Reach.refl _⟩
    | err c1 => rw [hs] at hr; cases hr
    | crash => rw [hs] at hr; cases hr

end Y.D
