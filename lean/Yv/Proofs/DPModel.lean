import Yv.Proofs.DPFacts
import Yv.Proofs.DPSolve
/-! The executable DeRemer–Pennello model (`Yv/Model/DP.lean`) computes exactly the declarative
    relations and sets of `Yv/Abs/DPRel.lean`. -/
namespace Y.DP
open Y

/-! ## the transition list -/

theorem mem_gotoTrs {A : Auto} {t : Tr} :
    t ∈ gotoTrs A ↔ ∃ q, q < A.n ∧ ∃ e ∈ A.gts q, t = ⟨q, .sym e.1, e.2⟩ := by
  unfold gotoTrs
  simp only [List.mem_flatMap, List.mem_range, List.mem_map]
  constructor
  · rintro ⟨q, hq, e, he, rfl⟩; exact ⟨q, hq, e, he, rfl⟩
  · rintro ⟨q, hq, e, he, rfl⟩; exact ⟨q, hq, e, he, rfl⟩

theorem mem_redTrs {G : Grammar} {A : Auto} {t : Tr} :
    t ∈ redTrs G A ↔ ∃ q, q < A.n ∧ ∃ it ∈ A.its q, it.d = (G.rhsOf it.r).length ∧
      t = ⟨q, .rule it.r, maxInt⟩ := by
  unfold redTrs
  simp only [List.mem_flatMap, List.mem_range, List.mem_filterMap]
  constructor
  · rintro ⟨q, hq, it, hit, he⟩
    split at he
    · rename_i hd
      cases he
      exact ⟨q, hq, it, hit, by simpa using hd, rfl⟩
    · cases he
  · rintro ⟨q, hq, it, hit, hd, rfl⟩
    exact ⟨q, hq, it, hit, by simp [hd]⟩

theorem mem_trans {G : Grammar} {A : Auto} {t : Tr} :
    t ∈ trans G A ↔ t ∈ gotoTrs A ∨ t ∈ redTrs G A := by
  unfold trans
  rw [mem_sortQ, List.mem_append]

/-- same source state and same grammar symbol -/
def SameKey (t u : Tr) : Prop := t.q = u.q ∧ ∃ X, t.kind = .sym X ∧ u.kind = .sym X

theorem SameKey.symm {t u : Tr} (h : SameKey t u) : SameKey u t := by
  obtain ⟨hq, X, h1, h2⟩ := h
  exact ⟨hq.symm, X, h2, h1⟩

theorem idx_unique {l : List Tr} (hp : l.Pairwise (fun t u => ¬ SameKey t u)) {i j : Nat} {t u : Tr}
    (hi : l[i]? = some t) (hj : l[j]? = some u) (hk : SameKey t u) : i = j := by
  obtain ⟨hil, rfl⟩ := List.getElem?_eq_some_iff.mp hi
  obtain ⟨hjl, rfl⟩ := List.getElem?_eq_some_iff.mp hj
  have hp' := List.pairwise_iff_getElem.mp hp
  rcases Nat.lt_trichotomy i j with hlt | heq | hgt
  · exact absurd hk (hp' i j hil hjl hlt)
  · exact heq
  · exact absurd hk.symm (hp' j i hjl hil hgt)

section Model
variable {G : Grammar} {nS : Nat} {A : Auto}

theorem gotoTrs_pairwise (h : DPH G nS A) : (gotoTrs A).Pairwise (fun t u => ¬ SameKey t u) := by
  unfold gotoTrs
  refine List.pairwise_flatMap.mpr ⟨fun q hq => ?_, ?_⟩
  · have hn := h.cok.symsNodup q (List.mem_range.mp hq)
    refine List.pairwise_map.mpr ?_
    refine (List.pairwise_map.mp hn).imp ?_
    intro e1 e2 hne hk
    obtain ⟨_, X, h1, h2⟩ := hk
    simp only [Kind.sym.injEq] at h1 h2
    exact hne (h1.trans h2.symm)
  · refine List.pairwise_lt_range.imp ?_
    intro q1 q2 hlt x hx y hy hk
    obtain ⟨e1, _, rfl⟩ := List.mem_map.mp hx
    obtain ⟨e2, _, rfl⟩ := List.mem_map.mp hy
    have : q1 = q2 := hk.1
    omega

theorem trans_pairwise (h : DPH G nS A) : (trans G A).Pairwise (fun t u => ¬ SameKey t u) := by
  unfold trans
  refine pairwise_sortQ (fun a b hab hba => hab hba.symm) ?_
  refine List.pairwise_append.mpr ⟨gotoTrs_pairwise h, ?_, ?_⟩
  · refine List.pairwise_of_forall_mem_list ?_
    intro t ht u _ hk
    obtain ⟨q, _, it, _, _, rfl⟩ := mem_redTrs.mp ht
    obtain ⟨_, X, h1, _⟩ := hk
    cases h1
  · intro t _ u hu hk
    obtain ⟨q, _, it, _, _, rfl⟩ := mem_redTrs.mp hu
    obtain ⟨_, X, _, h2⟩ := hk
    cases h2

/-- a symbol transition of the list is an edge of the automaton -/
theorem trans_sym (h : DPH G nS A) {t : Tr} (ht : t ∈ trans G A) {X : Sym} (hk : t.kind = .sym X) :
    t.q < A.n ∧ A.goto t.q X = some t.to := by
  rcases mem_trans.mp ht with hg | hr
  · obtain ⟨q, hq, e, he, rfl⟩ := mem_gotoTrs.mp hg
    simp only [Kind.sym.injEq] at hk
    subst hk
    exact ⟨hq, h.goto_of_mem hq he⟩
  · obtain ⟨q, _, it, _, _, rfl⟩ := mem_redTrs.mp hr
    cases hk

/-- every edge of the automaton is in the list -/
theorem trans_of_goto (h : DPH G nS A) {q : Nat} {X : Sym} {p : Nat} (hg : A.goto q X = some p) :
    (⟨q, .sym X, p⟩ : Tr) ∈ trans G A :=
  mem_trans.mpr (Or.inl (mem_gotoTrs.mpr ⟨q, h.goto_n hg, (X, p), Auto.goto_mem hg, rfl⟩))

theorem trans_rule {t : Tr} (ht : t ∈ trans G A) {r : Nat} (hk : t.kind = .rule r) :
    t.q < A.n ∧ (⟨r, (G.rhsOf r).length⟩ : Item) ∈ A.its t.q := by
  rcases mem_trans.mp ht with hg | hr
  · obtain ⟨q, _, e, _, rfl⟩ := mem_gotoTrs.mp hg
    cases hk
  · obtain ⟨q, hq, it, hit, hd, rfl⟩ := mem_redTrs.mp hr
    simp only [Kind.rule.injEq] at hk
    subst hk
    refine ⟨hq, ?_⟩
    obtain ⟨r, d⟩ := it
    simp only at hd ⊢
    rw [← hd]; exact hit

theorem trans_of_item {q r : Nat} (hq : q < A.n)
    (hit : (⟨r, (G.rhsOf r).length⟩ : Item) ∈ A.its q) :
    (⟨q, .rule r, maxInt⟩ : Tr) ∈ trans G A :=
  mem_trans.mpr (Or.inr (mem_redTrs.mpr ⟨q, hq, _, hit, rfl, rfl⟩))

theorem Tr.eta_sym {t : Tr} {X : Sym} (hk : t.kind = .sym X) : t = ⟨t.q, .sym X, t.to⟩ := by
  obtain ⟨q, k, p⟩ := t
  simp only at hk
  subst hk; rfl

/-! ## the nullable list -/

/-- the nullable list is exact: every member derives the empty string, and the list is closed -/
structure NullOK (G : Grammar) (nl : List Sym) : Prop where
  sound : ∀ x ∈ nl, GenL G [x] []
  closed : nullClosed G nl = true

theorem nullSeqL_iff {nl : List Sym} {γ : List Sym} : nullSeqL nl γ = true ↔ ∀ x ∈ γ, x ∈ nl := by
  simp [nullSeqL, List.all_eq_true]

theorem NullOK.complete {nl : List Sym} (hN : NullOK G nl) : ∀ (γ w : List Sym), GenL G γ w →
    w = [] → ∀ x ∈ γ, x ∈ nl := by
  intro γ w hg
  induction hg with
  | nil => intro _ x hx; cases hx
  | tm t γ v _ _ _ => intro hw; cases hw
  | nt r rl γ u v hr _ _ ih1 ih2 =>
    intro hw x hx
    have hu : u = [] := (List.append_eq_nil_iff.mp hw).1
    have hv : v = [] := (List.append_eq_nil_iff.mp hw).2
    rcases List.mem_cons.mp hx with rfl | hx
    · have hc := hN.closed
      unfold nullClosed at hc
      have := List.all_eq_true.mp hc rl (List.mem_of_getElem? hr)
      simp only [Bool.or_eq_true, Bool.not_eq_true'] at this
      rcases this with h1 | h1
      · rw [nullSeqL_iff.mpr (ih1 hu)] at h1; cases h1
      · simpa using h1
    · exact ih2 hv x hx

theorem NullOK.mem_iff {nl : List Sym} (hN : NullOK G nl) (x : Sym) : x ∈ nl ↔ GenL G [x] [] :=
  ⟨hN.sound x, fun h => hN.complete _ _ h rfl x List.mem_cons_self⟩

theorem NullOK.seq_iff {nl : List Sym} (hN : NullOK G nl) (γ : List Sym) :
    nullSeqL nl γ = true ↔ GenL G γ [] :=
  ⟨fun h => gen_nil_of_all γ (fun x hx => hN.sound x (nullSeqL_iff.mp h x hx)),
   fun h => nullSeqL_iff.mpr (hN.complete _ _ h rfl)⟩

/-! ## classification -/

theorem isNT_iff {t : Tr} : isNT G t = true ↔ ∃ X, t.kind = .sym X ∧ G.isT X = false := by
  unfold isNT
  cases t.kind with
  | sym X => simp
  | rule r => simp

theorem isNullNT_iff {nl : List Sym} {t : Tr} :
    isNullNT G nl t = true ↔ ∃ X, t.kind = .sym X ∧ G.isT X = false ∧ X ∈ nl := by
  unfold isNullNT
  cases t.kind with
  | sym X => simp
  | rule r => simp

/-! ## `dr` -/

theorem mem_drOf {ts : List Tr} {t : Tr} {a : Sym} :
    a ∈ drOf G ts t ↔ isNT G t = true ∧ ∃ u ∈ ts, u.q = t.to ∧ u.kind = .sym a ∧ G.isT a = true := by
  unfold drOf
  split
  · rename_i hnt
    simp only [hnt, true_and, List.mem_filterMap]
    constructor
    · rintro ⟨u, hu, he⟩
      split at he
      · rename_i hc
        simp only [Bool.and_eq_true, beq_iff_eq] at hc
        unfold Tr.symOf at he
        unfold isTm at hc
        split at he
        · rename_i X hk
          cases he
          rw [hk] at hc
          exact ⟨u, hu, hc.1, hk, hc.2⟩
        · cases he
      · cases he
    · rintro ⟨u, hu, hq, hk, ha⟩
      refine ⟨u, hu, ?_⟩
      simp [hq, isTm, hk, ha, Tr.symOf]
  · rename_i hnt
    simp [hnt]

theorem mem_getD_map {α : Type} (f : α → List Sym) {a : Sym} : ∀ (l : List α) (i : Nat),
    a ∈ (l.map f).getD i [] ↔ ∃ t, l[i]? = some t ∧ a ∈ f t := by
  intro l i
  simp only [List.getD_eq_getElem?_getD, List.getElem?_map]
  cases l[i]? with
  | none => simp
  | some t => simp

theorem mem_addStart_map {α : Type} (f : α → List Sym) {a : Sym} (l : List α) (i : Nat) :
    a ∈ (addStart (l.map f)).getD i [] ↔
      (∃ t, l[i]? = some t ∧ a ∈ f t) ∨ (i = 0 ∧ l ≠ [] ∧ a = 1) := by
  cases l with
  | nil => simp [addStart]
  | cons t0 l' =>
    cases i with
    | zero => simp [addStart]
    | succ i =>
      simp only [List.map_cons, addStart, List.getD_cons_succ, List.getElem?_cons_succ]
      rw [mem_getD_map]
      simp

theorem mem_dr {ts : List Tr} {i : Nat} {a : Sym} :
    a ∈ (dr G ts).getD i [] ↔
      (∃ t, ts[i]? = some t ∧ a ∈ drOf G ts t) ∨ (i = 0 ∧ ts ≠ [] ∧ a = 1) :=
  mem_addStart_map (drOf G ts) ts i

/-! ## `readsRel` -/

theorem mem_readsRel {nl : List Sym} {ts : List Tr} {i j : Nat} :
    (i, j) ∈ readsRel G nl ts ↔ ∃ t u, ts[i]? = some t ∧ ts[j]? = some u ∧ isKey G i t = true ∧
      u.q = t.to ∧ isNullNT G nl u = true := by
  unfold readsRel
  simp only [List.mem_flatMap]
  constructor
  · rintro ⟨⟨t, i'⟩, hti, hm⟩
    have hti' : ts[i']? = some t := List.mem_zipIdx_iff_getElem?.mp hti
    simp only at hm
    split at hm
    · rename_i hkey
      obtain ⟨⟨u, j'⟩, huj, he⟩ := List.mem_filterMap.mp hm
      have huj' : ts[j']? = some u := List.mem_zipIdx_iff_getElem?.mp huj
      simp only at he
      split at he
      · rename_i hc
        simp only [Option.some.injEq, Prod.mk.injEq] at he
        obtain ⟨rfl, rfl⟩ := he
        simp only [Bool.and_eq_true, beq_iff_eq] at hc
        exact ⟨t, u, hti', huj', hkey, hc.1, hc.2⟩
      · cases he
    · cases hm
  · rintro ⟨t, u, hi, hj, hkey, hq, hn⟩
    refine ⟨(t, i), List.mem_zipIdx_iff_getElem?.mpr hi, ?_⟩
    simp only [hkey, if_true]
    refine List.mem_filterMap.mpr ⟨(u, j), List.mem_zipIdx_iff_getElem?.mpr hj, ?_⟩
    simp [hq, hn]

/-! ## `transIdx` -/

theorem transIdx_some {ts : List Tr} {q : Nat} {X : Sym} {j : Nat} (h : transIdx ts q X = some j) :
    ∃ u, ts[j]? = some u ∧ u.q = q ∧ u.kind = .sym X := by
  unfold transIdx at h
  obtain ⟨hj, hp, _⟩ := List.findIdx?_eq_some_iff_getElem.mp h
  simp only [Bool.and_eq_true, beq_iff_eq] at hp
  exact ⟨ts[j], List.getElem?_eq_getElem hj, hp.1, hp.2⟩

theorem transIdx_of {ts : List Tr} (hp : ts.Pairwise (fun t u => ¬ SameKey t u)) {q : Nat} {X : Sym}
    {j : Nat} {u : Tr} (hj : ts[j]? = some u) (hq : u.q = q) (hk : u.kind = .sym X) :
    transIdx ts q X = some j := by
  cases hf : transIdx ts q X with
  | none =>
    unfold transIdx at hf
    have := List.findIdx?_eq_none_iff.mp hf u (List.mem_of_getElem? hj)
    simp [hq, hk] at this
  | some j' =>
    obtain ⟨u', hj', hq', hk'⟩ := transIdx_some hf
    have : j' = j := idx_unique hp hj' hj ⟨hq'.trans hq.symm, X, hk', hk⟩
    rw [this]

/-! ## `includesRel`, `lookbackRel` -/

theorem mem_statesWith {r q : Nat} :
    q ∈ statesWith A r ↔ q < A.n ∧ ∃ it ∈ A.its q, it.r = r := by
  unfold statesWith
  simp [List.mem_filter, List.any_eq_true]

theorem mem_includesTo {nl : List Sym} {ts : List Tr} {p : Nat} {B : Sym} {j : Nat} :
    j ∈ includesTo G A nl ts p B ↔ ∃ r rl d q', G.rules[r]? = some rl ∧ rl.rhs[d]? = some B ∧
      nullSeqL nl (rl.rhs.drop (d + 1)) = true ∧ q' < A.n ∧ (∃ it ∈ A.its q', it.r = r) ∧
      walk A.goto q' (rl.rhs.take d) = some p ∧ transIdx ts q' rl.lhs = some j := by
  unfold includesTo
  simp only [List.mem_flatMap]
  constructor
  · rintro ⟨⟨rl, r⟩, hrr, ⟨x, d⟩, hxd, hm⟩
    have hr : G.rules[r]? = some rl := List.mem_zipIdx_iff_getElem?.mp hrr
    have hx : rl.rhs[d]? = some x := List.mem_zipIdx_iff_getElem?.mp hxd
    simp only at hm
    split at hm
    · rename_i hc
      simp only [Bool.and_eq_true, beq_iff_eq] at hc
      obtain ⟨q', hq', he⟩ := List.mem_filterMap.mp hm
      obtain ⟨hq'n, hq'it⟩ := mem_statesWith.mp hq'
      split at he
      · rename_i hw
        rw [← hc.1]
        exact ⟨r, rl, d, q', hr, hx, hc.2, hq'n, hq'it, by simpa using hw, he⟩
      · cases he
    · cases hm
  · rintro ⟨r, rl, d, q', hr, hx, hn, hq'n, hq'it, hw, hj⟩
    refine ⟨(rl, r), List.mem_zipIdx_iff_getElem?.mpr hr, (B, d),
      List.mem_zipIdx_iff_getElem?.mpr hx, ?_⟩
    simp only [beq_self_eq_true, hn, Bool.and_self, if_true]
    refine List.mem_filterMap.mpr ⟨q', mem_statesWith.mpr ⟨hq'n, hq'it⟩, ?_⟩
    simp [hw, hj]

theorem mem_includesRel {nl : List Sym} {ts : List Tr} {i j : Nat} :
    (i, j) ∈ includesRel G A nl ts ↔ ∃ t B, ts[i]? = some t ∧ isKey G i t = true ∧
      t.kind = .sym B ∧ j ∈ includesTo G A nl ts t.q B := by
  unfold includesRel
  simp only [List.mem_flatMap]
  constructor
  · rintro ⟨⟨t, i'⟩, hti, hm⟩
    have hti' : ts[i']? = some t := List.mem_zipIdx_iff_getElem?.mp hti
    simp only at hm
    split at hm
    · rename_i hkey
      obtain ⟨j', hj', he⟩ := List.mem_map.mp hm
      simp only [Prod.mk.injEq] at he
      obtain ⟨rfl, rfl⟩ := he
      unfold includesOf at hj'
      split at hj'
      · rename_i B hk
        exact ⟨t, B, hti', hkey, hk, hj'⟩
      · cases hj'
    · cases hm
  · rintro ⟨t, B, hi, hkey, hk, hj⟩
    refine ⟨(t, i), List.mem_zipIdx_iff_getElem?.mpr hi, ?_⟩
    simp only [hkey, if_true]
    refine List.mem_map.mpr ⟨j, ?_, rfl⟩
    unfold includesOf
    rw [hk]
    exact hj

theorem mem_lookbackTo {ts : List Tr} {q r y : Nat} :
    y ∈ lookbackTo G A ts q r ↔ ∃ u, ts[y]? = some u ∧ isKey G y u = true ∧
      u.kind = .sym (G.lhsOf r) ∧ walk A.goto u.q (G.rhsOf r) = some q := by
  unfold lookbackTo
  simp only [List.mem_filterMap]
  constructor
  · rintro ⟨⟨u, y'⟩, huy, he⟩
    have huy' : ts[y']? = some u := List.mem_zipIdx_iff_getElem?.mp huy
    simp only at he
    split at he
    · rename_i hc
      simp only [Option.some.injEq] at he
      subst he
      simp only [Bool.and_eq_true, beq_iff_eq] at hc
      exact ⟨u, huy', hc.1.1, hc.1.2, hc.2⟩
    · cases he
  · rintro ⟨u, hy, hkey, hk, hw⟩
    refine ⟨(u, y), List.mem_zipIdx_iff_getElem?.mpr hy, ?_⟩
    simp [hkey, hk, hw]

theorem mem_lookbackRel {ts : List Tr} {x y : Nat} :
    (x, y) ∈ lookbackRel G A ts ↔ ∃ t r, ts[x]? = some t ∧ t.kind = .rule r ∧
      y ∈ lookbackTo G A ts t.q r := by
  unfold lookbackRel
  simp only [List.mem_flatMap]
  constructor
  · rintro ⟨⟨t, x'⟩, htx, hm⟩
    have htx' : ts[x']? = some t := List.mem_zipIdx_iff_getElem?.mp htx
    obtain ⟨y', hy', he⟩ := List.mem_map.mp hm
    simp only [Prod.mk.injEq] at he
    obtain ⟨rfl, rfl⟩ := he
    unfold lookbackOf at hy'
    split at hy'
    · cases hy'
    · rename_i r hk
      exact ⟨t, r, htx', hk, hy'⟩
  · rintro ⟨t, r, hx, hk, hy⟩
    refine ⟨(t, x), List.mem_zipIdx_iff_getElem?.mpr hx, ?_⟩
    refine List.mem_map.mpr ⟨y, ?_, rfl⟩
    unfold lookbackOf
    rw [hk]
    exact hy

/-! ## index level = pair level -/

theorem dpStart_ok (h : dpStartOK G A = true) : ∃ t0 S, (trans G A)[0]? = some t0 ∧
    (G.rhsOf 0)[0]? = some S ∧ t0.q = 0 ∧ t0.kind = .sym S := by
  unfold dpStartOK at h
  split at h
  · rename_i t0 S h1 h2
    simp only [Bool.and_eq_true, beq_iff_eq] at h
    exact ⟨t0, S, h1, h2, h.1, h.2⟩
  · cases h

/-- the hypotheses of the bridge between the executable model and the declarative sets -/
structure MH (G : Grammar) (nS : Nat) (A : Auto) (nl : List Sym) : Prop where
  dph : DPH G nS A
  nul : NullOK G nl
  start : dpStartOK G A = true

variable {nl : List Sym}

theorem reach_inRead (h : MH G nS A nl) {i : Nat} {a : Sym}
    (hr : Reach (dr G (trans G A)) (readsRel G nl (trans G A)) i a) :
    ∀ (t : Tr) (B : Sym), (trans G A)[i]? = some t → t.kind = .sym B → InRead G A t.q B a := by
  induction hr with
  | base i a ha =>
    intro t B hi hk
    have hg := (trans_sym h.dph (List.mem_of_getElem? hi) hk).2
    rcases mem_dr.mp ha with ⟨t', hi', hd⟩ | ⟨rfl, _, rfl⟩
    · rw [hi] at hi'; cases hi'
      obtain ⟨hnt, u, hu, hq, hku, haT⟩ := mem_drOf.mp hd
      obtain ⟨X, hkX, hX⟩ := isNT_iff.mp hnt
      rw [hk] at hkX; cases hkX
      have hgu := (trans_sym h.dph hu hku).2
      rw [hq] at hgu
      exact .dr _ _ _ (.read t.q B t.to a u.to hX hg haT hgu)
    · obtain ⟨t0, S, h0, hS, hq0, hk0⟩ := dpStart_ok h.start
      rw [hi] at h0; cases h0
      rw [hk] at hk0; cases hk0
      rw [hq0]
      exact .dr _ _ _ (.start B hS)
  | step i j a hij _ ih =>
    intro t B hi hk
    have hg := (trans_sym h.dph (List.mem_of_getElem? hi) hk).2
    obtain ⟨t', u, hi', hj, _, hq, hn⟩ := mem_readsRel.mp hij
    rw [hi] at hi'; cases hi'
    obtain ⟨C, hkC, hC, hCn⟩ := isNullNT_iff.mp hn
    have hgu := (trans_sym h.dph (List.mem_of_getElem? hj) hkC).2
    have := ih u C hj hkC
    rw [hq] at this hgu
    exact .step t.q B t.to C a ⟨hg, hC, h.nul.sound C hCn, u.to, hgu⟩ this

theorem inRead_reach (h : MH G nS A nl) {p : Nat} {B a : Sym} (hr : InRead G A p B a) :
    ∀ (i : Nat) (t : Tr), (trans G A)[i]? = some t → t.q = p → t.kind = .sym B →
      isKey G i t = true → Reach (dr G (trans G A)) (readsRel G nl (trans G A)) i a := by
  induction hr with
  | dr p B a hdr =>
    intro i t hi hq hk hkey
    have hg := (trans_sym h.dph (List.mem_of_getElem? hi) hk).2
    match hdr with
    | .read _ _ p1 _ p2 hB hg1 ha hg2 =>
      rw [hq, hg1] at hg
      have hto : p1 = t.to := Option.some.inj hg
      refine .base i a (mem_dr.mpr (Or.inl ⟨t, hi, mem_drOf.mpr ⟨isNT_iff.mpr ⟨B, hk, hB⟩, ?_⟩⟩))
      exact ⟨⟨p1, .sym a, p2⟩, trans_of_goto h.dph hg2, hto, rfl, ha⟩
    | .start _ hS =>
      obtain ⟨t0, S, h0, hS0, hq0, hk0⟩ := dpStart_ok h.start
      rw [hS] at hS0; cases hS0
      have : i = 0 := idx_unique (trans_pairwise h.dph) hi h0 ⟨hq.trans hq0.symm, B, hk, hk0⟩
      subst this
      refine .base 0 1 (mem_dr.mpr (Or.inr ⟨rfl, ?_, rfl⟩))
      intro he; rw [he] at hi; cases hi
  | step p B p1 C a hreads _ ih =>
    intro i t hi hq hk hkey
    have hg := (trans_sym h.dph (List.mem_of_getElem? hi) hk).2
    obtain ⟨hg1, hC, hn, p2, hg2⟩ := hreads
    rw [hq, hg1] at hg
    have hto : p1 = t.to := Option.some.inj hg
    obtain ⟨j, hj⟩ := List.mem_iff_getElem?.mp (trans_of_goto h.dph hg2)
    have hnn : isNullNT G nl ⟨p1, .sym C, p2⟩ = true :=
      isNullNT_iff.mpr ⟨C, rfl, hC, (h.nul.mem_iff C).mpr hn⟩
    refine .step i j a (mem_readsRel.mpr ⟨t, _, hi, hj, hkey, hto, hnn⟩) ?_
    refine ih j _ hj rfl rfl ?_
    unfold isKey
    rw [isNT_iff.mpr ⟨C, rfl, hC⟩, Bool.or_true]

theorem isKey_nt {i : Nat} {t : Tr} {X : Sym} (hk : t.kind = .sym X) (hX : G.isT X = false) :
    isKey G i t = true := by
  unfold isKey
  rw [isNT_iff.mpr ⟨X, hk, hX⟩, Bool.or_true]

theorem reach_inFollow (h : MH G nS A nl) {rd : List (List Sym)}
    (hrd : ∀ i a, a ∈ rd.getD i [] ↔ Reach (dr G (trans G A)) (readsRel G nl (trans G A)) i a)
    {i : Nat} {a : Sym} (hr : Reach rd (includesRel G A nl (trans G A)) i a) :
    ∀ (t : Tr) (B : Sym), (trans G A)[i]? = some t → t.kind = .sym B → InFollow G A t.q B a := by
  induction hr with
  | base i a ha =>
    intro t B hi hk
    exact .rd _ _ _ (reach_inRead h ((hrd i a).mp ha) t B hi hk)
  | step i j a hij _ ih =>
    intro t B hi hk
    obtain ⟨t', B', hi', _, hk', hj⟩ := mem_includesRel.mp hij
    rw [hi] at hi'; cases hi'
    rw [hk] at hk'; cases hk'
    obtain ⟨r, rl, d, q', hr, hx, hn, hq'n, hq'it, hw, hidx⟩ := mem_includesTo.mp hj
    obtain ⟨u, hju, hqu, hku⟩ := transIdx_some hidx
    have hgu := (trans_sym h.dph (List.mem_of_getElem? hju) hku).2
    have := ih u rl.lhs hju hku
    rw [hqu] at this hgu
    exact .inc t.q B q' rl.lhs a
      ⟨r, rl, d, hr, rfl, hx, (h.nul.seq_iff _).mp hn, hq'n, hq'it, hw, u.to, hgu⟩ this

theorem inFollow_reach (h : MH G nS A nl) {rd : List (List Sym)}
    (hrd : ∀ i a, a ∈ rd.getD i [] ↔ Reach (dr G (trans G A)) (readsRel G nl (trans G A)) i a)
    {p : Nat} {B a : Sym} (hf : InFollow G A p B a) :
    ∀ (i : Nat) (t : Tr), (trans G A)[i]? = some t → t.q = p → t.kind = .sym B →
      isKey G i t = true → Reach rd (includesRel G A nl (trans G A)) i a := by
  induction hf with
  | rd p B a hr =>
    intro i t hi hq hk hkey
    exact .base i a ((hrd i a).mpr (inRead_reach h hr i t hi hq hk hkey))
  | inc p B p' C a hinc _ ih =>
    intro i t hi hq hk hkey
    obtain ⟨r, rl, d, hr, hl, hx, hnull, hp', hit, hw, p2, hg⟩ := hinc
    obtain ⟨j, hj⟩ := List.mem_iff_getElem?.mp (trans_of_goto h.dph hg)
    have hidx : transIdx (trans G A) p' C = some j :=
      transIdx_of (trans_pairwise h.dph) hj rfl rfl
    subst hl
    refine .step i j a (mem_includesRel.mpr ⟨t, B, hi, hkey, hk, mem_includesTo.mpr
      ⟨r, rl, d, p', hr, hx, (h.nul.seq_iff _).mpr hnull, hp', hit, by rw [hq]; exact hw, hidx⟩⟩) ?_
    exact ih j _ hj rfl rfl (isKey_nt rfl (h.dph.lhsNT hr))

theorem DPH.lhsOf_nt (h : DPH G nS A) (r : Nat) : G.isT (G.lhsOf r) = false := by
  unfold Grammar.lhsOf
  split
  · rename_i rl hr; exact h.lhsNT hr
  · simp [Grammar.isT]

theorem mem_laOf (h : MH G nS A nl) {rd fo : List (List Sym)}
    (hrd : ∀ i a, a ∈ rd.getD i [] ↔ Reach (dr G (trans G A)) (readsRel G nl (trans G A)) i a)
    (hfo : ∀ i a, a ∈ fo.getD i [] ↔ Reach rd (includesRel G A nl (trans G A)) i a)
    {x : Nat} {t : Tr} {r : Nat} (hx : (trans G A)[x]? = some t) (hk : t.kind = .rule r) (a : Sym) :
    a ∈ laOf (lookbackRel G A (trans G A)) fo x t ↔ InLA G A t.q r a := by
  unfold laOf
  rw [hk]
  simp only
  split
  · rename_i h0
    constructor
    · intro ha; exact Or.inl ⟨h0, by simpa using ha⟩
    · rintro (⟨_, rfl⟩ | ⟨hne, _⟩)
      · simp
      · exact absurd h0 hne
  · rename_i hne
    rw [mem_sortS, List.mem_flatMap]
    constructor
    · rintro ⟨⟨x', y⟩, he, ha⟩
      simp only at ha
      split at ha
      · rename_i hxx
        have : x' = x := by simpa using hxx
        subst this
        obtain ⟨t', r', hx', hk', hy⟩ := mem_lookbackRel.mp he
        rw [hx] at hx'; cases hx'
        rw [hk] at hk'; cases hk'
        obtain ⟨u, hyu, _, hku, hw⟩ := mem_lookbackTo.mp hy
        have hgu := (trans_sym h.dph (List.mem_of_getElem? hyu) hku).2
        exact Or.inr ⟨hne, u.q, ⟨hw, u.to, hgu⟩,
          reach_inFollow h hrd ((hfo y a).mp ha) u _ hyu hku⟩
      · cases ha
    · rintro (⟨h0, _⟩ | ⟨_, p, ⟨hw, p2, hg⟩, hfol⟩)
      · exact absurd h0 hne
      · obtain ⟨y, hy⟩ := List.mem_iff_getElem?.mp (trans_of_goto h.dph hg)
        have hkey : isKey G y ⟨p, .sym (G.lhsOf r), p2⟩ = true := isKey_nt rfl (h.dph.lhsOf_nt r)
        refine ⟨(x, y), mem_lookbackRel.mpr ⟨t, r, hx, hk, mem_lookbackTo.mpr
          ⟨_, hy, hkey, rfl, hw⟩⟩, ?_⟩
        simp only [beq_self_eq_true, if_true]
        exact (hfo y a).mpr (inFollow_reach h hrd hfol y _ hy rfl rfl hkey)

/-! ## the stages -/

theorem stagesWith_some {st : Stages} (h : stagesWith G A nl = some st) : ∃ rd fo,
    solve (dpFuel G (trans G A)) (dr G (trans G A)) (readsRel G nl (trans G A)) = some rd ∧
    solve (dpFuel G (trans G A)) rd (includesRel G A nl (trans G A)) = some fo ∧
    st = { trans := trans G A, dr := dr G (trans G A), reads := readsRel G nl (trans G A),
           read := rd, includes := includesRel G A nl (trans G A), follow := fo,
           lookback := lookbackRel G A (trans G A),
           la := (trans G A).zipIdx.map fun tx =>
                   laOf (lookbackRel G A (trans G A)) fo tx.2 tx.1 } := by
  unfold stagesWith at h
  split at h
  · cases h
  · rename_i rd hrd
    split at h
    · cases h
    · rename_i fo hfo
      cases h
      exact ⟨rd, fo, hrd, hfo, rfl⟩

theorem getElem?_map_zipIdx {α β : Type} (l : List α) (f : α × Nat → β) (x : Nat) :
    (l.zipIdx.map f)[x]? = (l[x]?).map (fun t => f (t, x)) := by
  simp only [List.getElem?_map, List.getElem?_zipIdx, Nat.zero_add]
  cases l[x]? <;> rfl

theorem redIdx_some {ts : List Tr} {q r x : Nat} (h : redIdx ts q r = some x) :
    ∃ u, ts[x]? = some u ∧ u.q = q ∧ u.kind = .rule r := by
  unfold redIdx at h
  obtain ⟨hx, hp, _⟩ := List.findIdx?_eq_some_iff_getElem.mp h
  simp only [Bool.and_eq_true, beq_iff_eq] at hp
  exact ⟨ts[x], List.getElem?_eq_getElem hx, hp.1, hp.2⟩

theorem redIdx_of_mem {ts : List Tr} {q r m : Nat} (h : (⟨q, .rule r, m⟩ : Tr) ∈ ts) :
    ∃ x, redIdx ts q r = some x := by
  cases hf : redIdx ts q r with
  | some x => exact ⟨x, rfl⟩
  | none =>
    unfold redIdx at hf
    have := List.findIdx?_eq_none_iff.mp hf _ h
    simp at this

theorem its_lt {q : Nat} {it : Item} (h : it ∈ A.its q) : q < A.n := by
  rcases Nat.lt_or_ge q A.items.length with hlt | hge
  · exact hlt
  · unfold Auto.its at h
    rw [List.getD_eq_getElem?_getD, List.getElem?_eq_none hge] at h
    cases h

/-- the lookahead list the model attaches to a reduction is its DeRemer–Pennello set -/
theorem laGet_iff (h : MH G nS A nl) {st : Stages} (hst : stagesWith G A nl = some st) {q r : Nat}
    (hit : (⟨r, (G.rhsOf r).length⟩ : Item) ∈ A.its q) (a : Sym) :
    a ∈ st.laGet q r ↔ InLA G A q r a := by
  obtain ⟨rd, fo, hrd, hfo, rfl⟩ := stagesWith_some hst
  obtain ⟨x, hx⟩ := redIdx_of_mem (trans_of_item (its_lt hit) hit)
  obtain ⟨u, hxu, hqu, hku⟩ := redIdx_some hx
  unfold Stages.laGet
  simp only [hx]
  rw [List.getD_eq_getElem?_getD, getElem?_map_zipIdx, hxu]
  simp only [Option.map_some, Option.getD_some]
  rw [← hqu]
  exact mem_laOf h (solve_spec hrd) (solve_spec hfo) hxu hku a

/-- the stage sets are the declarative sets (for the driver's per-stage comparison) -/
theorem stage_read_iff (h : MH G nS A nl) {st : Stages} (hst : stagesWith G A nl = some st)
    {i : Nat} {t : Tr} {B : Sym} (hi : st.trans[i]? = some t) (hk : t.kind = .sym B)
    (hkey : isKey G i t = true) (a : Sym) : a ∈ st.read.getD i [] ↔ InRead G A t.q B a := by
  obtain ⟨rd, fo, hrd, hfo, rfl⟩ := stagesWith_some hst
  simp only at hi ⊢
  rw [solve_spec hrd]
  exact ⟨fun hr => reach_inRead h hr t B hi hk, fun hr => inRead_reach h hr i t hi rfl hk hkey⟩

theorem stage_follow_iff (h : MH G nS A nl) {st : Stages} (hst : stagesWith G A nl = some st)
    {i : Nat} {t : Tr} {B : Sym} (hi : st.trans[i]? = some t) (hk : t.kind = .sym B)
    (hkey : isKey G i t = true) (a : Sym) : a ∈ st.follow.getD i [] ↔ InFollow G A t.q B a := by
  obtain ⟨rd, fo, hrd, hfo, rfl⟩ := stagesWith_some hst
  simp only at hi ⊢
  rw [solve_spec hfo]
  exact ⟨fun hr => reach_inFollow h (solve_spec hrd) hr t B hi hk,
    fun hr => inFollow_reach h (solve_spec hrd) hr i t hi rfl hk hkey⟩

theorem stages_some {st : Stages} (h : stages G nS A = some st) :
    NullOK G (nullableL G nS) ∧ stagesWith G A (nullableL G nS) = some st := by
  unfold stages at h
  split at h
  · rename_i hc
    exact ⟨⟨fun x hx => nullableL_sound x hx, hc⟩, h⟩
  · cases h

theorem nullExactB_ok (h : nullExactB G nS nl = true) : NullOK G nl := by
  unfold nullExactB at h
  simp only [Bool.and_eq_true, List.all_eq_true, List.contains_eq_mem, decide_eq_true_eq] at h
  exact ⟨fun x hx => nullableL_sound x (h.1 x hx), h.2⟩

theorem flatMap_congr' {α β : Type} {l : List α} {f g : α → List β} (h : ∀ a ∈ l, f a = g a) :
    l.flatMap f = l.flatMap g := by
  rw [List.flatMap_def, List.flatMap_def, List.map_congr_left h]

theorem filterMap_congr' {α β : Type} {f g : α → Option β} : ∀ {l : List α},
    (∀ a ∈ l, f a = g a) → l.filterMap f = l.filterMap g := by
  intro l
  induction l with
  | nil => intro _; rfl
  | cons x xs ih =>
    intro h
    simp only [List.filterMap_cons, h x List.mem_cons_self,
      ih (fun a ha => h a (List.mem_cons_of_mem _ ha))]

end Model

end Y.DP
