import Yv.Model.DP
import Yv.Proofs.LAOracleFacts
/-! Generic facts for the DeRemer–Pennello model: the least-solution solver `solve`, the stable sort
    `sortQ`, canonical sorted lists (`sortS`). -/
namespace Y.DP
open Y

/-! ## `solve` computes the least solution -/

/-- the least solution of `F x = init x ∪ ⋃ {F y | (x, y) ∈ rel}`, declaratively -/
inductive Reach (init : List (List Sym)) (rel : List (Nat × Nat)) : Nat → Sym → Prop
  | base (i : Nat) (a : Sym) : a ∈ init.getD i [] → Reach init rel i a
  | step (i j : Nat) (a : Sym) : (i, j) ∈ rel → Reach init rel j a → Reach init rel i a

theorem mem_getD_map_sortS {init : List (List Sym)} {i : Nat} {a : Sym} :
    a ∈ (init.map sortS).getD i [] ↔ a ∈ init.getD i [] := by
  simp only [List.getD_eq_getElem?_getD, List.getElem?_map]
  cases init[i]? with
  | none => simp
  | some l => simp [mem_sortS]

theorem relStep_inv {init : List (List Sym)} {rel : List (Nat × Nat)} (F : List (List Sym))
    (h : ∀ i a, a ∈ F.getD i [] → Reach init rel i a) :
    ∀ i a, a ∈ (relStep rel F).getD i [] → Reach init rel i a := by
  unfold relStep
  refine foldl_inv (fun F => ∀ i a, a ∈ F.getD i [] → Reach init rel i a) _ rel ?_ F h
  intro s e he hs i a ha
  rcases getD_modAt (unionS (s.getD e.2 [])) [] s e.1 i with h1 | ⟨h1, h2⟩
  · rw [h1] at ha; exact hs i a ha
  · rw [h2] at ha
    subst h1
    rcases mem_unionS.mp ha with ha | ha
    · exact .step e.1 e.2 a he (hs e.2 a ha)
    · exact hs _ a ha

theorem solveIter_sound {fuel : Nat} {init : List (List Sym)} {rel : List (Nat × Nat)} :
    ∀ i a, a ∈ (solveIter fuel init rel).getD i [] → Reach init rel i a := by
  unfold solveIter
  refine iterStop_inv (fun F => ∀ i a, a ∈ F.getD i [] → Reach init rel i a) _ _
    (fun F hF => relStep_inv F hF) _ _ ?_
  intro i a ha
  exact .base i a (mem_getD_map_sortS.mp ha)

theorem relClosed_ok {init F : List (List Sym)} {rel : List (Nat × Nat)}
    (h : relClosed init F rel = true) :
    (∀ i a, a ∈ init.getD i [] → a ∈ F.getD i []) ∧
    (∀ i j, (i, j) ∈ rel → ∀ a, a ∈ F.getD j [] → a ∈ F.getD i []) := by
  unfold relClosed at h
  simp only [Bool.and_eq_true, List.all_eq_true, List.contains_eq_mem, decide_eq_true_eq] at h
  refine ⟨fun i a ha => ?_, fun i j hij a ha => h.2 (i, j) hij a ha⟩
  rw [List.getD_eq_getElem?_getD] at ha
  cases hi : init[i]? with
  | none => rw [hi] at ha; cases ha
  | some l =>
    rw [hi] at ha
    exact h.1 (l, i) (List.mem_zipIdx_iff_getElem?.mpr hi) a ha

theorem solve_spec {fuel : Nat} {init : List (List Sym)} {rel : List (Nat × Nat)}
    {F : List (List Sym)} (h : solve fuel init rel = some F) (i : Nat) (a : Sym) :
    a ∈ F.getD i [] ↔ Reach init rel i a := by
  unfold solve at h
  split at h
  · rename_i hc
    cases h
    obtain ⟨h1, h2⟩ := relClosed_ok hc
    refine ⟨solveIter_sound i a, fun hr => ?_⟩
    induction hr with
    | base i a ha => exact h1 i a ha
    | step i j a hij _ ih => exact h2 i j hij a ih
  · cases h

/-! ## `sortQ` -/

theorem mem_insQ {x y : Tr} : ∀ {l : List Tr}, y ∈ insQ x l ↔ y = x ∨ y ∈ l := by
  intro l
  induction l with
  | nil => simp [insQ]
  | cons z zs ih =>
    unfold insQ
    split
    · simp
    · simp only [List.mem_cons, ih]
      constructor
      · rintro (h | h | h)
        · exact Or.inr (Or.inl h)
        · exact Or.inl h
        · exact Or.inr (Or.inr h)
      · rintro (h | h | h)
        · exact Or.inr (Or.inl h)
        · exact Or.inl h
        · exact Or.inr (Or.inr h)

theorem mem_sortQ {y : Tr} : ∀ {l : List Tr}, y ∈ sortQ l ↔ y ∈ l := by
  intro l
  unfold sortQ
  induction l with
  | nil => simp
  | cons x xs ih => simp only [List.foldr_cons, mem_insQ, ih, List.mem_cons]

theorem pairwise_insQ {R : Tr → Tr → Prop} (hs : ∀ a b, R a b → R b a) {x : Tr} :
    ∀ {l : List Tr}, (∀ y ∈ l, R x y) → l.Pairwise R → (insQ x l).Pairwise R := by
  intro l
  induction l with
  | nil => intro _ _; simp [insQ]
  | cons z zs ih =>
    intro hx hp
    unfold insQ
    split
    · exact List.pairwise_cons.mpr ⟨hx, hp⟩
    · obtain ⟨hz, hp'⟩ := List.pairwise_cons.mp hp
      refine List.pairwise_cons.mpr ⟨fun y hy => ?_, ih (fun y hy => hx y (List.mem_cons_of_mem _ hy)) hp'⟩
      rcases mem_insQ.mp hy with rfl | hy
      · exact hs _ _ (hx z List.mem_cons_self)
      · exact hz y hy

theorem pairwise_sortQ {R : Tr → Tr → Prop} (hs : ∀ a b, R a b → R b a) :
    ∀ {l : List Tr}, l.Pairwise R → (sortQ l).Pairwise R := by
  intro l
  induction l with
  | nil => intro _; exact List.Pairwise.nil
  | cons x xs ih =>
    intro hp
    obtain ⟨hx, hp'⟩ := List.pairwise_cons.mp hp
    have : sortQ (x :: xs) = insQ x (sortQ xs) := rfl
    rw [this]
    exact pairwise_insQ hs (fun y hy => hx y (mem_sortQ.mp hy)) (ih hp')

/-! ## strictly increasing lists are determined by their elements -/

def SInc : List Sym → Prop
  | [] => True
  | x :: xs => (∀ y ∈ xs, x < y) ∧ SInc xs

theorem sinc_insS {x : Sym} : ∀ {l : List Sym}, SInc l → SInc (insS x l) := by
  intro l
  induction l with
  | nil => intro _; exact ⟨fun y hy => (by cases hy), trivial⟩
  | cons y ys ih =>
    intro h
    obtain ⟨hy, hys⟩ := h
    unfold insS
    split
    · rename_i hlt
      refine ⟨fun z hz => ?_, hy, hys⟩
      rcases List.mem_cons.mp hz with rfl | hz
      · exact hlt
      · exact Nat.lt_trans hlt (hy z hz)
    · split
      · exact ⟨hy, hys⟩
      · rename_i h1 h2
        refine ⟨fun z hz => ?_, ih hys⟩
        rcases mem_insS.mp hz with rfl | hz
        · exact Nat.lt_of_le_of_ne (Nat.le_of_not_lt h1) (fun e => h2 e.symm)
        · exact hy z hz

theorem sinc_sortS : ∀ (l : List Sym), SInc (sortS l) := by
  intro l
  unfold sortS
  induction l with
  | nil => trivial
  | cons x xs ih => exact sinc_insS ih

theorem sinc_ext : ∀ {l1 l2 : List Sym}, SInc l1 → SInc l2 → (∀ a, a ∈ l1 ↔ a ∈ l2) → l1 = l2 := by
  intro l1
  induction l1 with
  | nil =>
    intro l2 _ _ h
    cases l2 with
    | nil => rfl
    | cons y ys => exact absurd ((h y).mpr List.mem_cons_self) (by simp)
  | cons x xs ih =>
    intro l2 h1 h2 h
    cases l2 with
    | nil => exact absurd ((h x).mp List.mem_cons_self) (by simp)
    | cons y ys =>
      obtain ⟨hx, hxs⟩ := h1
      obtain ⟨hy, hys⟩ := h2
      have hxy : x = y := by
        rcases List.mem_cons.mp ((h x).mp List.mem_cons_self) with e | e
        · exact e
        · rcases List.mem_cons.mp ((h y).mpr List.mem_cons_self) with e' | e'
          · exact e'.symm
          · exact absurd (Nat.lt_trans (hx y e') (hy x e)) (Nat.lt_irrefl _)
      subst hxy
      congr 1
      refine ih hxs hys (fun a => ⟨fun ha => ?_, fun ha => ?_⟩)
      · rcases List.mem_cons.mp ((h a).mp (List.mem_cons_of_mem _ ha)) with e | e
        · exact absurd (e ▸ hx a ha) (Nat.lt_irrefl _)
        · exact e
      · rcases List.mem_cons.mp ((h a).mpr (List.mem_cons_of_mem _ ha)) with e | e
        · exact absurd (e ▸ hy a ha) (Nat.lt_irrefl _)
        · exact e

/-- two lists with the same elements have the same `sortS` -/
theorem sortS_congr {l1 l2 : List Sym} (h : ∀ a, a ∈ l1 ↔ a ∈ l2) : sortS l1 = sortS l2 :=
  sinc_ext (sinc_sortS l1) (sinc_sortS l2) (fun a => by rw [mem_sortS, mem_sortS]; exact h a)

end Y.DP
