package main

import (
	"fmt"
	"go/ast"
	"go/parser"
	"go/token"
	"os"
	"regexp"
	"strings"
)

// genDriver dumps the text of the LR driver of both Go templates (PushStateSym, PopStateSym,
// ParserInit, Parser) as values of the hand-written Lean syntax tree `Gen.Stmt` / `Gen.Expr`
// (Yv/Model/GoAst.lean).  Nothing is interpreted here: the meaning is given in Lean
// (Yv/Model/GoSem.lean) and the equality with the hand model is proved in Yv/Props/C08b.lean.
// Every construct and every identifier outside the listed subset panics (fails closed).

var driverIds = map[string]bool{}

func init() {
	for _, n := range strings.Fields(`StateSymStack StackPointer c StackSym Stackpos
		state num input currentPos val lookAhead s a reduceIndex SymTy gotoState
		StateSym Yystate YySymIndex ValType int ERROR_ACTION ACCEPT_ACTION nil
		PushStateSym PopStateSym ReduceFunc Action fetchLookAhead
		TraceShift TraceReduce TraceTranslate panic len append fmt Sprintf`) {
		driverIds[n] = true
	}
}

// the local names of the driver functions in order of declaration (receiver of the object template first); a consistent
// renaming of locals in the template text is undone by canonLocals
var driverRecv = map[string][]string{"Global": {}, "Object": {"c"}}
var driverLocals = map[string][]string{
	"PushStateSym": {"state"}, "PopStateSym": {"num"}, "ParserInit": {},
	"Parser": {"input", "currentPos", "val", "lookAhead", "s", "a", "reduceIndex", "SymTy", "s", "gotoState"},
}

func dId(n string) string {
	if !driverIds[n] {
		panic("identifier outside the driver vocabulary: " + n)
	}
	return "." + n
}

var httpBlock = regexp.MustCompile(`(?s)\{\{ *if \.HttpParser *\}\}(.*?)\{\{ *end *\}\}`)

func genDriver(repo, outdir string) {
	var sb strings.Builder
	sb.WriteString("-- GENERATED from Builder/GoCodeTemplate.go and Builder/GoObjectTemplate.go; do not edit\nimport Yv.Model.GoAst\nnamespace Gen\n\n")
	for _, t := range [][2]string{{"Global", "Builder/GoCodeTemplate.go"}, {"Object", "Builder/GoObjectTemplate.go"}} {
		src, err := os.ReadFile(repo + "/" + t[1])
		if err != nil {
			panic(err)
		}
		recv := ""
		if t[0] == "Object" {
			recv = `\(c \*Context\) ?`
		}
		var dropped []string
		for _, fn := range [][2]string{{"PushStateSym", "push"}, {"PopStateSym", "pop"}, {"ParserInit", "parserInit"}, {"Parser", "parser"}} {
			re := regexp.MustCompile(`(?s)\nfunc ` + recv + fn[0] + `\(.*?\n\}\n`)
			ms := re.FindAllString(string(src), -1)
			if len(ms) != 1 {
				panic(fmt.Sprintf("%s: expected exactly one %s, found %d", t[1], fn[0], len(ms)))
			}
			text := httpBlock.ReplaceAllStringFunc(ms[0], func(b string) string {
				dropped = append(dropped, strings.TrimSpace(httpBlock.FindStringSubmatch(b)[1]))
				return ""
			})
			if strings.Contains(text, "{{") || strings.Contains(text, "}}") {
				panic(fmt.Sprintf("%s: template directive inside %s", t[1], fn[0]))
			}
			fset := token.NewFileSet()
			f, err := parser.ParseFile(fset, "driver.go", "package p\n"+text, 0)
			if err != nil {
				panic(err)
			}
			if len(f.Decls) != 1 {
				panic("expected one declaration")
			}
			fd := f.Decls[0].(*ast.FuncDecl)
			canonLocals(fd, append(append([]string{}, driverRecv[t[0]]...), driverLocals[fn[0]]...))
			var ps []string
			for _, p := range fd.Type.Params.List {
				for _, n := range p.Names {
					ps = append(ps, dId(n.Name))
				}
			}
			fmt.Fprintf(&sb, "/-- `%s` of the %s template -/\ndef %s%s : Fn :=\n  { params := [%s],\n    body :=\n%s }\n\n",
				fn[0], strings.ToLower(t[0]), fn[1], t[0], strings.Join(ps, ", "), dBlock(fd.Body.List, "      "))
		}
		fmt.Fprintf(&sb, "/-- text of `{{ if .HttpParser }} … {{ end }}` blocks inside the functions above, NOT translated -/\ndef dropped%s : List String := [%s]\n\n", t[0], quoteAll(dropped))
	}
	sb.WriteString("end Gen\n")
	writeIfChanged(outdir+"/Driver.lean", sb.String())
}

func quoteAll(l []string) string {
	var q []string
	for _, s := range l {
		q = append(q, fmt.Sprintf("%q", s))
	}
	return strings.Join(q, ", ")
}

func dBlock(list []ast.Stmt, ind string) string {
	if len(list) == 0 {
		return ind + "[]"
	}
	var out []string
	for _, s := range list {
		out = append(out, dStmt(s, ind+"  "))
	}
	return ind + "[\n" + strings.Join(out, ",\n") + " ]"
}

func dStmt(s ast.Stmt, ind string) string {
	switch x := s.(type) {
	case *ast.ExprStmt:
		if _, ok := x.X.(*ast.CallExpr); !ok {
			panic("expression statement that is not a call")
		}
		return ind + ".expr " + dExpr(x.X)
	case *ast.AssignStmt:
		if len(x.Lhs) != 1 || len(x.Rhs) != 1 {
			panic("multiple assignment")
		}
		switch x.Tok {
		case token.DEFINE:
			return ind + ".define " + dId(x.Lhs[0].(*ast.Ident).Name) + " " + dExpr(x.Rhs[0])
		case token.ASSIGN:
			return ind + ".assign " + dExpr(x.Lhs[0]) + " " + dExpr(x.Rhs[0])
		case token.SUB_ASSIGN:
			return ind + ".subAssign " + dExpr(x.Lhs[0]) + " " + dExpr(x.Rhs[0])
		}
		panic("unsupported assignment operator " + x.Tok.String())
	case *ast.IncDecStmt:
		if x.Tok != token.INC {
			panic("unsupported " + x.Tok.String())
		}
		return ind + ".inc " + dExpr(x.X)
	case *ast.DeclStmt:
		gd := x.Decl.(*ast.GenDecl)
		if gd.Tok != token.VAR || len(gd.Specs) != 1 {
			panic("unsupported declaration")
		}
		vs := gd.Specs[0].(*ast.ValueSpec)
		if len(vs.Names) != 1 || len(vs.Values) > 1 {
			panic("unsupported var declaration")
		}
		ini := "none"
		if len(vs.Values) == 1 {
			ini = "(some " + dExpr(vs.Values[0]) + ")"
		}
		return ind + ".varDecl " + dId(vs.Names[0].Name) + " " + dId(vs.Type.(*ast.Ident).Name) + " " + ini
	case *ast.IfStmt:
		if x.Init != nil {
			panic("if with init statement")
		}
		els := ind + "  []"
		switch e := x.Else.(type) {
		case nil:
		case *ast.BlockStmt:
			els = dBlock(e.List, ind+"  ")
		case *ast.IfStmt:
			els = dBlock([]ast.Stmt{e}, ind+"  ")
		default:
			panic("unsupported else")
		}
		return ind + ".ite " + dExpr(x.Cond) + "\n" + dBlock(x.Body.List, ind+"  ") + "\n" + els
	case *ast.ForStmt:
		if x.Init != nil || x.Cond != nil || x.Post != nil {
			panic("only `for { }` is supported")
		}
		return ind + ".loop\n" + dBlock(x.Body.List, ind+"  ")
	case *ast.BranchStmt:
		if x.Tok != token.BREAK || x.Label != nil {
			panic("unsupported branch statement")
		}
		return ind + ".brk"
	case *ast.ReturnStmt:
		if len(x.Results) != 1 {
			panic("return must have one result")
		}
		return ind + ".ret " + dExpr(x.Results[0])
	}
	panic(fmt.Sprintf("unsupported statement %T", s))
}

var dOps = map[token.Token]string{token.EQL: "eq", token.NEQ: "ne", token.LSS: "lt", token.LEQ: "le", token.GTR: "gt",
	token.GEQ: "ge", token.ADD: "add", token.SUB: "sub"}

func dExprs(l []ast.Expr) string {
	var out []string
	for _, e := range l {
		out = append(out, dExpr(e))
	}
	return "[" + strings.Join(out, ", ") + "]"
}

func dFields(ty string, elts []ast.Expr) string {
	var ks, vs []string
	for _, el := range elts {
		kv, ok := el.(*ast.KeyValueExpr)
		if !ok {
			panic("struct literal without field names")
		}
		ks = append(ks, dId(kv.Key.(*ast.Ident).Name))
		vs = append(vs, dExpr(kv.Value))
	}
	return "(.lit " + ty + " [" + strings.Join(ks, ", ") + "] [" + strings.Join(vs, ", ") + "])"
}

func dExpr(e ast.Expr) string {
	switch x := e.(type) {
	case *ast.Ident:
		return "(.id " + dId(x.Name) + ")"
	case *ast.BasicLit:
		switch x.Kind {
		case token.INT:
			return "(.int " + x.Value + ")"
		case token.STRING:
			return "(.str " + fmt.Sprintf("%q", strings.Trim(x.Value, "\"`")) + ")"
		}
		panic("unsupported literal " + x.Value)
	case *ast.ParenExpr:
		return dExpr(x.X)
	case *ast.UnaryExpr:
		switch x.Op {
		case token.SUB:
			return "(.neg " + dExpr(x.X) + ")"
		case token.AND:
			return "(.addr " + dExpr(x.X) + ")"
		}
		panic("unsupported unary operator " + x.Op.String())
	case *ast.StarExpr:
		return "(.deref " + dExpr(x.X) + ")"
	case *ast.BinaryExpr:
		op, ok := dOps[x.Op]
		if !ok {
			panic("unsupported operator " + x.Op.String())
		}
		return "(.bin ." + op + " " + dExpr(x.X) + " " + dExpr(x.Y) + ")"
	case *ast.IndexExpr:
		return "(.index " + dExpr(x.X) + " " + dExpr(x.Index) + ")"
	case *ast.SelectorExpr:
		return "(.sel " + dExpr(x.X) + " " + dId(x.Sel.Name) + ")"
	case *ast.CallExpr:
		if x.Ellipsis != token.NoPos {
			panic("variadic call")
		}
		return "(.call " + dExpr(x.Fun) + " " + dExprs(x.Args) + ")"
	case *ast.CompositeLit:
		switch ty := x.Type.(type) {
		case *ast.Ident:
			return dFields(dId(ty.Name), x.Elts)
		case *ast.ArrayType:
			if ty.Len != nil {
				panic("array literal")
			}
			elt := dId(ty.Elt.(*ast.Ident).Name)
			var es []string
			for _, el := range x.Elts {
				if cl, ok := el.(*ast.CompositeLit); ok && cl.Type == nil {
					es = append(es, dFields(elt, cl.Elts))
				} else {
					es = append(es, dExpr(el))
				}
			}
			return "(.sliceLit " + elt + " [" + strings.Join(es, ", ") + "])"
		}
		panic("unsupported composite literal")
	}
	panic(fmt.Sprintf("unsupported expression %T", e))
}
