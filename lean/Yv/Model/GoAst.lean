/-! A small abstract syntax for the Go subset in which the LR driver of the two Go templates
    (`PushStateSym`, `PopStateSym`, `ParserInit`, `Parser`) is written.  HAND-WRITTEN: only the
    program VALUES (`Yv/Gen/Driver.lean`) are regenerated from the template text by the
    translator (`translator/driver.go`), which fails closed on every construct and on every
    identifier that is not listed here. -/
namespace Gen

/-- every identifier the driver text may mention (anything else stops the translator) -/
inductive Id
  -- the stack, global template / object template
  | StateSymStack | StackPointer | c | StackSym | Stackpos
  -- parameters and locals
  | state | num | input | currentPos | val | lookAhead | s | a | reduceIndex | SymTy | gotoState
  -- types and fields
  | StateSym | Yystate | YySymIndex | ValType | int
  -- constants
  | ERROR_ACTION | ACCEPT_ACTION | nil
  -- functions and methods
  | PushStateSym | PopStateSym | ReduceFunc | Action | fetchLookAhead
  | TraceShift | TraceReduce | TraceTranslate | panic | len | append | fmt | Sprintf
deriving DecidableEq, Repr

inductive BinOp
  | eq | ne | lt | le | gt | ge | add | sub
deriving DecidableEq, Repr

inductive Expr
  | id (x : Id)
  | int (n : Int)                                  -- integer literal
  | str (s : String)                               -- string literal (only inside `panic(...)`)
  | neg (e : Expr)                                 -- `-e`
  | deref (e : Expr)                               -- `*e`
  | addr (e : Expr)                                -- `&e`
  | bin (op : BinOp) (l r : Expr)
  | index (e i : Expr)                             -- `e[i]`
  | sel (e : Expr) (f : Id)                        -- `e.f`
  | call (f : Expr) (args : List Expr)             -- `f(args)`, `recv.m(args)`
  | lit (ty : Id) (keys : List Id) (vals : List Expr)  -- `T{K: v, …}` (also the elided `{K: v, …}`): field names, values
  | sliceLit (ty : Id) (elts : List Expr)          -- `[]T{e, …}`

inductive Stmt
  | expr (e : Expr)                                -- call statement
  | define (x : Id) (e : Expr)                     -- `x := e`
  | assign (lhs : Expr) (e : Expr)                 -- `lhs = e`
  | subAssign (lhs : Expr) (e : Expr)              -- `lhs -= e`
  | inc (lhs : Expr)                               -- `lhs++`
  | varDecl (x : Id) (ty : Id) (init : Option Expr) -- `var x T [= e]`
  | ite (cond : Expr) (thn : List Stmt) (els : List Stmt)   -- `else if` = `els` is one `ite`
  | loop (body : List Stmt)                        -- `for { … }`
  | brk
  | ret (e : Expr)

/-- a function or method: parameter names and body -/
structure Fn where
  params : List Id
  body : List Stmt

end Gen
