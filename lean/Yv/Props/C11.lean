import Yv.Model.Visitor
/-! # C11 — token codes are unique

Facts about the token numbering of `Visitor.processDecl`:
explicit numbers and literal codes are kept, the identifiers left at 0 are numbered by `numberRest`
with codes above everything present before, and — on declarations satisfying the decidable
precondition `WF` — all codes of the resulting table are positive and pairwise distinct. -/
namespace Visitor
open YParse

/-! ## generic helpers -/

private theorem foldl_inv {α β : Type} (P : β → Prop) (f : β → α → β) (l : List α) (b0 : β) (h0 : P b0)
    (hs : ∀ b a, a ∈ l → P b → P (f b a)) : P (l.foldl f b0) := by
  induction l generalizing b0 with
  | nil => exact h0
  | cons a l ih =>
    exact ih _ (hs _ _ List.mem_cons_self h0) (fun b a' h => hs b a' (List.mem_cons_of_mem _ h))

theorem pairwise_mem {α : Type} {R : α → α → Prop} {l : List α} (h : l.Pairwise R) {a b : α}
    (ha : a ∈ l) (hb : b ∈ l) : a = b ∨ R a b ∨ R b a := by
  induction h with
  | nil => cases ha
  | cons hx _ ih =>
    rcases List.mem_cons.1 ha with ha' | ha' <;> rcases List.mem_cons.1 hb with hb' | hb'
    · left; rw [ha', hb']
    · right; left; rw [ha']; exact hx _ hb'
    · right; right; rw [hb']; exact hx _ ha'
    · exact ih ha' hb'

theorem find_some {t : Tab} {n : String} {cur : Id} (h : t.find n = some cur) :
    cur ∈ t ∧ cur.name = n := by
  unfold Tab.find at h
  exact ⟨List.mem_of_find?_eq_some h, by simpa using List.find?_some h⟩

theorem find_none {t : Tab} {n : String} (h : t.find n = none) : ∀ e ∈ t, e.name ≠ n := by
  unfold Tab.find at h
  simpa using h

theorem has_iff {t : Tab} {n : String} : t.has n = true ↔ ∃ e ∈ t, e.name = n := by
  unfold Tab.has; simp

theorem has_false {t : Tab} {n : String} (h : ¬ t.has n = true) : ∀ e ∈ t, e.name ≠ n := by
  intro e he hn; exact h (has_iff.2 ⟨e, he, hn⟩)

/-! ## the invariant of the identifier table -/

/-- two entries have different names, and equal codes only when both are still unnumbered -/
def Rel (a b : Id) : Prop := a.name ≠ b.name ∧ (a.value = b.value → a.value = 0)

/-- names pairwise distinct, non-zero codes pairwise distinct, all codes in `0 … idMax`, `idMax ≥ 2` -/
structure Inv (st : Tab × Int) : Prop where
  pw : st.1.Pairwise Rel
  le : ∀ e ∈ st.1, e.value ≤ st.2
  nn : ∀ e ∈ st.1, 0 ≤ e.value
  two : 2 ≤ st.2

theorem Inv.uniq {st : Tab × Int} (h : Inv st) {a b : Id} (ha : a ∈ st.1) (hb : b ∈ st.1)
    (hn : a.name = b.name) : a = b := by
  rcases pairwise_mem h.pw ha hb with h | h | h
  · exact h
  · exact absurd hn h.1
  · exact absurd hn.symm h.1

/-! ## `numberRest` -/

/-- the body of the loop of `numberRest` -/
def nrStep (st : Tab × Int) (i : Id) : Tab × Int :=
  match st.1.find i.name with
  | some cur =>
    if cur.value == 0 then (st.1.upd i.name fun j => { j with value := st.2 + 1 }, st.2 + 1) else st
  | none => st

theorem numberRest_eq (tab : Tab) (m : Int) : numberRest tab m = tab.sorted.foldl nrStep (tab, m) := rfl

def setVal (n : String) (v : Int) (j : Id) : Id := if j.name == n then { j with value := v } else j

theorem setVal_name (n : String) (v : Int) (j : Id) : (setVal n v j).name = j.name := by
  unfold setVal; split <;> rfl

theorem setVal_value (n : String) (v : Int) (j : Id) :
    (setVal n v j).value = if j.name = n then v else j.value := by
  unfold setVal; by_cases h : j.name = n <;> simp [h]

theorem setVal_other (n : String) (v : Int) (j : Id) (h : j.name ≠ n) : setVal n v j = j := by
  unfold setVal; simp [h]

theorem setVal_hit (n : String) (v : Int) (j : Id) (h : j.name = n) :
    setVal n v j = { j with value := v } := by
  unfold setVal; simp [h]

theorem nrStep_cases (st : Tab × Int) (i : Id) :
    (nrStep st i = st ∧
      (st.1.find i.name = none ∨ ∃ cur, st.1.find i.name = some cur ∧ cur.value ≠ 0)) ∨
    (∃ cur, st.1.find i.name = some cur ∧ cur.value = 0 ∧
      nrStep st i = (st.1.map (setVal i.name (st.2 + 1)), st.2 + 1)) := by
  unfold nrStep
  split
  · rename_i cur hc
    by_cases hz : cur.value = 0
    · right
      refine ⟨cur, hc, hz, ?_⟩
      simp only [hz, beq_self_eq_true, if_true]
      rfl
    · left
      refine ⟨?_, Or.inr ⟨cur, hc, hz⟩⟩
      have : (cur.value == 0) = false := by simpa using hz
      simp [this]
  · rename_i hn
    left; exact ⟨rfl, Or.inl hn⟩

theorem inv_setVal (st : Tab × Int) (n : String) (h : Inv st) :
    Inv (st.1.map (setVal n (st.2 + 1)), st.2 + 1) := by
  have h2 := h.two
  constructor
  · refine List.pairwise_map.2 (h.pw.imp_of_mem fun {a b} ha hb hab => ?_)
    refine ⟨by rw [setVal_name, setVal_name]; exact hab.1, ?_⟩
    intro heq
    rw [setVal_value, setVal_value] at heq
    rw [setVal_value]
    have la := h.le a ha
    have lb := h.le b hb
    by_cases h1 : a.name = n <;> by_cases h2 : b.name = n
    · exact absurd (h1.trans h2.symm) hab.1
    · simp [h1, h2] at heq; omega
    · simp [h1, h2] at heq; omega
    · simp [h1, h2] at heq ⊢; exact hab.2 heq
  · intro e' he'
    obtain ⟨e, he, rfl⟩ := List.mem_map.1 he'
    have := h.le e he
    rw [setVal_value]; dsimp only
    split <;> omega
  · intro e' he'
    obtain ⟨e, he, rfl⟩ := List.mem_map.1 he'
    have := h.nn e he
    rw [setVal_value]
    split <;> omega
  · dsimp only; omega

/-- how a later table extends an earlier one: numbered entries are kept, every entry is either an
    old one or an unnumbered old one that received a code above the old `idMax` -/
structure Ext (st st' : Tab × Int) : Prop where
  kept : ∀ e ∈ st.1, e.value ≠ 0 → e ∈ st'.1
  orig : ∀ e' ∈ st'.1, e' ∈ st.1 ∨
    ∃ e ∈ st.1, e.value = 0 ∧ e' = { e with value := e'.value } ∧ st.2 < e'.value
  mono : st.2 ≤ st'.2

theorem Ext.refl (st : Tab × Int) : Ext st st :=
  ⟨fun _ h _ => h, fun _ h => Or.inl h, Int.le_refl _⟩

theorem Ext.trans {a b c : Tab × Int} (h1 : Ext a b) (h2 : Ext b c) : Ext a c := by
  constructor
  · intro e he hz; exact h2.kept e (h1.kept e he hz) hz
  · intro e'' he''
    rcases h2.orig e'' he'' with hb | ⟨e', he', hz', heq', hlt'⟩
    · exact h1.orig e'' hb
    · rcases h1.orig e' he' with ha | ⟨e, he, hz, heq, _⟩
      · exact Or.inr ⟨e', ha, hz', heq', Int.lt_of_le_of_lt h1.mono hlt'⟩
      · refine Or.inr ⟨e, he, hz, ?_, Int.lt_of_le_of_lt h1.mono hlt'⟩
        rw [heq'] ; rw [heq]
  · exact Int.le_trans h1.mono h2.mono

theorem nrStep_spec (st : Tab × Int) (i : Id) (h : Inv st) :
    Inv (nrStep st i) ∧ Ext st (nrStep st i) ∧
    ∀ e' ∈ (nrStep st i).1, e'.name = i.name → e'.value ≠ 0 := by
  rcases nrStep_cases st i with ⟨he, hc⟩ | ⟨cur, hf, hz, he⟩
  · rw [he]
    refine ⟨h, Ext.refl _, ?_⟩
    intro e' he' hn
    rcases hc with hc | ⟨cur, hf, hnz⟩
    · exact absurd hn (find_none hc e' he')
    · obtain ⟨hm, hcn⟩ := find_some hf
      have : e' = cur := h.uniq he' hm (hn.trans hcn.symm)
      rw [this]; exact hnz
  · rw [he]
    obtain ⟨hm, hcn⟩ := find_some hf
    have h2 := h.two
    refine ⟨inv_setVal st i.name h, ?_, ?_⟩
    · constructor
      · intro e hem hnz
        refine List.mem_map.2 ⟨e, hem, setVal_other _ _ _ ?_⟩
        intro hn
        have : e = cur := h.uniq hem hm (hn.trans hcn.symm)
        exact hnz (this ▸ hz)
      · intro e' he'
        obtain ⟨e, hem, rfl⟩ := List.mem_map.1 he'
        by_cases hn : e.name = i.name
        · right
          have : e = cur := h.uniq hem hm (hn.trans hcn.symm)
          refine ⟨e, hem, this ▸ hz, ?_, ?_⟩
          · rw [setVal_hit _ _ _ hn]
          · rw [setVal_hit _ _ _ hn]; dsimp only; omega
        · left; rw [setVal_other _ _ _ hn]; exact hem
      · dsimp only; omega
    · intro e' he' _
      obtain ⟨e, hem, rfl⟩ := List.mem_map.1 he'
      by_cases hn : e.name = i.name
      · rw [setVal_hit _ _ _ hn]; dsimp only; omega
      · rw [setVal_name] at *; contradiction

theorem nrFold_spec (l : List Id) (st : Tab × Int) (h : Inv st) :
    Inv (l.foldl nrStep st) ∧ Ext st (l.foldl nrStep st) ∧
    ∀ e' ∈ (l.foldl nrStep st).1, (∃ i ∈ l, e'.name = i.name) → e'.value ≠ 0 := by
  induction l generalizing st with
  | nil => exact ⟨h, Ext.refl _, fun _ _ ⟨_, hi, _⟩ => by cases hi⟩
  | cons i l ih =>
    rw [List.foldl_cons]
    obtain ⟨hi1, he1, hz1⟩ := nrStep_spec st i h
    obtain ⟨hi2, he2, hz2⟩ := ih (nrStep st i) hi1
    refine ⟨hi2, he1.trans he2, ?_⟩
    intro e' he' ⟨j, hj, hn⟩
    rcases List.mem_cons.1 hj with rfl | hj
    · rcases he2.orig e' he' with hm | ⟨e, _, _, _, hlt⟩
      · exact hz1 e' hm hn
      · have := hi1.two; omega
    · exact hz2 e' he' ⟨j, hj, hn⟩

theorem mem_sorted (t : Tab) (e : Id) : e ∈ t.sorted ↔ e ∈ t := by
  unfold Tab.sorted
  exact (List.mergeSort_perm t _).mem_iff

/-- everything about `numberRest` on a table satisfying the invariant -/
theorem numberRest_spec (t : Tab) (m : Int) (h : Inv (t, m)) :
    Inv (numberRest t m) ∧ Ext (t, m) (numberRest t m) ∧ ∀ e' ∈ (numberRest t m).1, e'.value ≠ 0 := by
  rw [numberRest_eq]
  obtain ⟨h1, h2, h3⟩ := nrFold_spec t.sorted (t, m) h
  refine ⟨h1, h2, fun e' he' => h3 e' he' ?_⟩
  rcases h2.orig e' he' with hm | ⟨e, hm, _, heq, _⟩
  · exact ⟨e', (mem_sorted t e').2 hm, rfl⟩
  · exact ⟨e, (mem_sorted t e).2 hm, by rw [heq]⟩

/-- **(i)** `numberRest` keeps every identifier whose code is not 0 -/
theorem numberRest_kept (t : Tab) (m : Int) (h : Inv (t, m)) :
    ∀ e ∈ t, e.value ≠ 0 → e ∈ (numberRest t m).1 :=
  (numberRest_spec t m h).2.1.kept

/-- **(ii)** every identifier `numberRest` numbers gets a code above `idMax`, hence above every code
    present before; nothing else changes -/
theorem numberRest_fresh (t : Tab) (m : Int) (h : Inv (t, m)) :
    ∀ e' ∈ (numberRest t m).1, (e' ∈ t ∧ e'.value ≠ 0) ∨
      ∃ e ∈ t, e.value = 0 ∧ e' = { e with value := e'.value } ∧ m < e'.value ∧
        ∀ x ∈ t, x.value < e'.value := by
  obtain ⟨_, h2, h3⟩ := numberRest_spec t m h
  intro e' he'
  rcases h2.orig e' he' with hm | ⟨e, hm, hz, heq, hlt⟩
  · exact Or.inl ⟨hm, h3 e' he'⟩
  · refine Or.inr ⟨e, hm, hz, heq, hlt, fun x hx => ?_⟩
    have := h.le x hx
    exact Int.lt_of_le_of_lt this hlt

/-- **(ii, iii)** after `numberRest` names are pairwise distinct, codes are pairwise distinct, and every
    code is positive (in particular neither 0 nor -1) and at most the new `idMax` -/
theorem numberRest_distinct (t : Tab) (m : Int) (h : Inv (t, m)) :
    (numberRest t m).1.Pairwise (fun a b => a.name ≠ b.name ∧ a.value ≠ b.value) ∧
    ∀ e' ∈ (numberRest t m).1, 0 < e'.value ∧ e'.value ≤ (numberRest t m).2 := by
  obtain ⟨h1, _, h3⟩ := numberRest_spec t m h
  constructor
  · refine h1.pw.imp_of_mem fun {a b} ha _ hab => ⟨hab.1, fun heq => ?_⟩
    exact h3 a ha (hab.2 heq)
  · intro e' he'
    have := h1.nn e' he'
    have := h3 e' he'
    exact ⟨by omega, h1.le e' he'⟩

/-! ## the declared identifiers and the precondition -/

/-- all token definitions of the declaration part, in source order -/
def idents (d : Decl) : List Ident := d.tokDefs.flatten

/-- no negative explicit number -/
def WFnn (all : List Ident) : Prop := ∀ a ∈ all, 0 ≤ a.value
/-- an explicit number (or literal code) is given to one name only -/
def WFdist (all : List Ident) : Prop :=
  ∀ a ∈ all, ∀ b ∈ all, a.value ≠ 0 → a.value = b.value → a.name = b.name
/-- a name is declared with at most one non-zero number -/
def WFone (all : List Ident) : Prop :=
  ∀ a ∈ all, ∀ b ∈ all, a.value ≠ 0 → b.value ≠ 0 → a.name = b.name → a.value = b.value

/-- the precondition of C11 -/
def WF (d : Decl) : Prop := WFnn (idents d) ∧ WFdist (idents d) ∧ WFone (idents d)

instance (d : Decl) : Decidable (WF d) := by
  unfold WF WFnn WFdist WFone; infer_instance

/-! ## `addTokens` -/

def mxOf (st : Tab × Int) (id : Ident) : Int := if id.value > st.2 then id.value else st.2

def merge (id : Ident) (i : Id) : Id :=
  if i.name == id.name then
    { i with alias := if id.alias != "" then id.alias else i.alias,
             tag := if id.tag != "" then id.tag else i.tag,
             value := (if id.value != 0 then id.value else i.value : Int) }
  else i

/-- the body of the loop of `addTokens` -/
def atStep (st : Tab × Int) (id : Ident) : Tab × Int :=
  if st.1.has id.name then (st.1.map (merge id), mxOf st id)
  else (st.1 ++ [⟨id.name, true, id.value, id.tag, id.alias⟩], mxOf st id)

theorem addTokens_eq (tab : Tab) (mx : Int) (ids : List Ident) :
    addTokens tab mx ids = ids.foldl atStep (tab, mx) := rfl

def tokFold (d : Decl) : Tab × Int :=
  d.tokDefs.foldl (fun (st : Tab × Int) td => addTokens st.1 st.2 td) (([] : Tab), (2 : Int))

theorem tokFold_eq (d : Decl) : tokFold d = (idents d).foldl atStep (([] : Tab), (2 : Int)) := by
  unfold idents
  rw [List.foldl_flatten]
  rfl

theorem mxOf_ge (st : Tab × Int) (id : Ident) : st.2 ≤ mxOf st id ∧ id.value ≤ mxOf st id := by
  unfold mxOf; split <;> omega

theorem merge_name (id : Ident) (i : Id) : (merge id i).name = i.name := by
  unfold merge; split <;> rfl

theorem merge_value (id : Ident) (i : Id) :
    (merge id i).value = if i.name = id.name ∧ id.value ≠ 0 then id.value else i.value := by
  unfold merge
  by_cases h : i.name = id.name <;> by_cases hv : id.value = 0 <;> simp [h, hv]

/-- invariant of the token phase: the table invariant, and every non-zero code comes from a declaration -/
structure TInv (all : List Ident) (st : Tab × Int) : Prop where
  inv : Inv st
  src : ∀ e ∈ st.1, e.value ≠ 0 → ∃ i ∈ all, i.name = e.name ∧ i.value = e.value

/-- what has been achieved for the declarations processed so far -/
structure Done (pre : List Ident) (st : Tab × Int) : Prop where
  mx : ∀ i ∈ pre, i.value ≤ st.2
  ent : ∀ i ∈ pre, i.value ≠ 0 → ∃ e ∈ st.1, e.name = i.name ∧ e.value = i.value

theorem tinv_merge (all : List Ident) (hnn : WFnn all) (hd : WFdist all) (st : Tab × Int) (id : Ident)
    (hid : id ∈ all) (h : TInv all st) : TInv all (st.1.map (merge id), mxOf st id) := by
  obtain ⟨hm1, hm2⟩ := mxOf_ge st id
  have h2 := h.inv.two
  refine ⟨⟨?_, ?_, ?_, ?_⟩, ?_⟩
  · refine List.pairwise_map.2 (h.inv.pw.imp_of_mem fun {a b} ha hb hab => ?_)
    refine ⟨by rw [merge_name, merge_name]; exact hab.1, ?_⟩
    intro heq
    rw [merge_value, merge_value] at heq
    rw [merge_value]
    by_cases hv : id.value = 0
    · simp [hv] at heq ⊢; exact hab.2 heq
    · by_cases h1 : a.name = id.name <;> by_cases h2 : b.name = id.name
      · exact absurd (h1.trans h2.symm) hab.1
      · simp [h1, h2, hv] at heq
        exfalso
        have hbz : b.value ≠ 0 := by omega
        obtain ⟨j, hj, hjn, hjv⟩ := h.src b hb hbz
        have := hd id hid j hj hv (by omega)
        exact h2 (hjn.symm.trans this.symm)
      · simp [h1, h2, hv] at heq
        exfalso
        have haz : a.value ≠ 0 := by omega
        obtain ⟨j, hj, hjn, hjv⟩ := h.src a ha haz
        have := hd id hid j hj hv (by omega)
        exact h1 (hjn.symm.trans this.symm)
      · simp [h1, h2] at heq ⊢; exact hab.2 heq
  · intro e' he'
    obtain ⟨e, he, rfl⟩ := List.mem_map.1 he'
    have := h.inv.le e he
    rw [merge_value]; dsimp only
    split <;> omega
  · intro e' he'
    obtain ⟨e, he, rfl⟩ := List.mem_map.1 he'
    have := h.inv.nn e he
    have := hnn id hid
    rw [merge_value]
    split <;> omega
  · dsimp only; omega
  · intro e' he' hnz
    obtain ⟨e, he, rfl⟩ := List.mem_map.1 he'
    rw [merge_value] at hnz ⊢
    rw [merge_name]
    by_cases hc : e.name = id.name ∧ id.value ≠ 0
    · rw [if_pos hc]; exact ⟨id, hid, hc.1.symm, rfl⟩
    · rw [if_neg hc] at hnz ⊢; exact h.src e he hnz

theorem tinv_snoc (all : List Ident) (hnn : WFnn all) (hd : WFdist all) (st : Tab × Int) (id : Ident)
    (hid : id ∈ all) (hno : ∀ e ∈ st.1, e.name ≠ id.name) (h : TInv all st) :
    TInv all (st.1 ++ [⟨id.name, true, id.value, id.tag, id.alias⟩], mxOf st id) := by
  obtain ⟨hm1, hm2⟩ := mxOf_ge st id
  have h2 := h.inv.two
  refine ⟨⟨?_, ?_, ?_, ?_⟩, ?_⟩
  · refine List.pairwise_append.2 ⟨h.inv.pw, List.pairwise_singleton _ _, ?_⟩
    intro a ha x hx
    rw [List.mem_singleton] at hx
    subst hx
    refine ⟨hno a ha, fun heq => ?_⟩
    dsimp only at heq
    apply Classical.byContradiction
    intro haz
    obtain ⟨j, hj, hjn, hjv⟩ := h.src a ha haz
    have := hd j hj id hid (by omega) (by omega)
    exact hno a ha (hjn.symm.trans this)
  · intro e he
    rcases List.mem_append.1 he with he | he
    · have := h.inv.le e he; dsimp only; omega
    · rw [List.mem_singleton] at he; subst he; exact hm2
  · intro e he
    rcases List.mem_append.1 he with he | he
    · exact h.inv.nn e he
    · rw [List.mem_singleton] at he; subst he; exact hnn id hid
  · dsimp only; omega
  · intro e he hnz
    rcases List.mem_append.1 he with he | he
    · exact h.src e he hnz
    · rw [List.mem_singleton] at he; subst he; exact ⟨id, hid, rfl, rfl⟩

theorem tinv_atStep (all : List Ident) (hnn : WFnn all) (hd : WFdist all) (st : Tab × Int) (id : Ident)
    (hid : id ∈ all) (h : TInv all st) : TInv all (atStep st id) := by
  unfold atStep
  split
  · exact tinv_merge all hnn hd st id hid h
  · rename_i hh
    exact tinv_snoc all hnn hd st id hid (has_false hh) h

theorem done_atStep (all : List Ident) (ho : WFone all) (pre : List Ident) (st : Tab × Int) (id : Ident)
    (hpre : ∀ i ∈ pre, i ∈ all) (hid : id ∈ all) (h : Done pre st) :
    Done (pre ++ [id]) (atStep st id) := by
  obtain ⟨hm1, hm2⟩ := mxOf_ge st id
  unfold atStep
  split
  · rename_i hh
    constructor
    · intro i hi
      rcases List.mem_append.1 hi with hi | hi
      · have := h.mx i hi; dsimp only; omega
      · rw [List.mem_singleton] at hi; subst hi; exact hm2
    · intro i hi hnz
      rcases List.mem_append.1 hi with hi | hi
      · obtain ⟨e, he, hen, hev⟩ := h.ent i hi hnz
        refine ⟨merge id e, List.mem_map.2 ⟨e, he, rfl⟩, by rw [merge_name]; exact hen, ?_⟩
        rw [merge_value]
        by_cases hc : e.name = id.name ∧ id.value ≠ 0
        · rw [if_pos hc]
          exact (ho i (hpre i hi) id hid hnz hc.2 (hen.symm.trans hc.1)).symm
        · rw [if_neg hc]; exact hev
      · rw [List.mem_singleton] at hi; subst hi
        obtain ⟨e, he, hen⟩ := has_iff.1 hh
        refine ⟨merge i e, List.mem_map.2 ⟨e, he, rfl⟩, by rw [merge_name]; exact hen, ?_⟩
        rw [merge_value, if_pos ⟨hen, hnz⟩]
  · constructor
    · intro i hi
      rcases List.mem_append.1 hi with hi | hi
      · have := h.mx i hi; dsimp only; omega
      · rw [List.mem_singleton] at hi; subst hi; exact hm2
    · intro i hi hnz
      rcases List.mem_append.1 hi with hi | hi
      · obtain ⟨e, he, hen, hev⟩ := h.ent i hi hnz
        exact ⟨e, List.mem_append_left _ he, hen, hev⟩
      · rw [List.mem_singleton] at hi; subst hi
        exact ⟨_, List.mem_append_right _ (List.mem_singleton.2 rfl), rfl, rfl⟩

theorem atFold_spec (all : List Ident) (hnn : WFnn all) (hd : WFdist all) (ho : WFone all)
    (l : List Ident) : ∀ (pre : List Ident) (st : Tab × Int), (∀ i ∈ pre, i ∈ all) → (∀ i ∈ l, i ∈ all) →
      TInv all st → Done pre st →
      TInv all (l.foldl atStep st) ∧ Done (pre ++ l) (l.foldl atStep st) := by
  induction l with
  | nil => intro pre st _ _ h1 h2; rw [List.append_nil]; exact ⟨h1, h2⟩
  | cons i l ih =>
    intro pre st hpre hl h1 h2
    rw [List.foldl_cons]
    have hi : i ∈ all := hl i List.mem_cons_self
    have := ih (pre ++ [i]) (atStep st i)
      (fun j hj => by
        rcases List.mem_append.1 hj with hj | hj
        · exact hpre j hj
        · rw [List.mem_singleton] at hj; subst hj; exact hi)
      (fun j hj => hl j (List.mem_cons_of_mem _ hj))
      (tinv_atStep all hnn hd st i hi h1) (done_atStep all ho pre st i hpre hi h2)
    rw [List.append_assoc] at this
    exact this

theorem tokFold_spec (d : Decl) (hwf : WF d) :
    TInv (idents d) (tokFold d) ∧ Done (idents d) (tokFold d) := by
  obtain ⟨hnn, hd, ho⟩ := hwf
  rw [tokFold_eq]
  have hemp : ∀ (P : Id → Prop), ∀ e ∈ ([] : Tab), P e := by intro P e h; cases h
  have hemp' : ∀ (P : Ident → Prop), ∀ e ∈ ([] : List Ident), P e := by intro P e h; cases h
  have t0 : TInv (idents d) (([] : Tab), (2 : Int)) :=
    { inv := { pw := List.Pairwise.nil, le := hemp _, nn := hemp _, two := Int.le_refl _ },
      src := hemp _ }
  have d0 : Done [] (([] : Tab), (2 : Int)) := { mx := hemp' _, ent := hemp' _ }
  have := atFold_spec (idents d) hnn hd ho (idents d) [] (([] : Tab), (2 : Int))
    (hemp' _) (fun _ h => h) t0 d0
  rw [List.nil_append] at this
  exact this

/-! ## `addTypes` and the start symbol: entries keep their name and code, new entries have code 0 -/

def Good (all pre : List Ident) (m : Int) (t : Tab) : Prop := TInv all (t, m) ∧ Done pre (t, m)

theorem good_map (all pre : List Ident) (m : Int) (t : Tab) (g : Id → Id)
    (hg : ∀ e, (g e).name = e.name ∧ (g e).value = e.value) (h : Good all pre m t) :
    Good all pre m (t.map g) := by
  obtain ⟨⟨hi, hs⟩, hd⟩ := h
  refine ⟨⟨⟨?_, ?_, ?_, hi.two⟩, ?_⟩, ⟨hd.mx, ?_⟩⟩
  · refine List.pairwise_map.2 (hi.pw.imp_of_mem fun {a b} _ _ hab => ?_)
    unfold Rel
    rw [(hg a).1, (hg b).1, (hg a).2, (hg b).2]; exact hab
  · intro e' he'
    obtain ⟨e, he, rfl⟩ := List.mem_map.1 he'
    rw [(hg e).2]; exact hi.le e he
  · intro e' he'
    obtain ⟨e, he, rfl⟩ := List.mem_map.1 he'
    rw [(hg e).2]; exact hi.nn e he
  · intro e' he' hnz
    obtain ⟨e, he, rfl⟩ := List.mem_map.1 he'
    rw [(hg e).2] at hnz ⊢; rw [(hg e).1]; exact hs e he hnz
  · intro i hi' hnz
    obtain ⟨e, he, hen, hev⟩ := hd.ent i hi' hnz
    exact ⟨g e, List.mem_map.2 ⟨e, he, rfl⟩, by rw [(hg e).1]; exact hen, by rw [(hg e).2]; exact hev⟩

theorem good_snoc (all pre : List Ident) (m : Int) (t : Tab) (x : Id) (hx0 : x.value = 0)
    (hxn : ∀ e ∈ t, e.name ≠ x.name) (h : Good all pre m t) : Good all pre m (t ++ [x]) := by
  obtain ⟨⟨hi, hs⟩, hd⟩ := h
  have h2 := hi.two
  refine ⟨⟨⟨?_, ?_, ?_, hi.two⟩, ?_⟩, ⟨hd.mx, ?_⟩⟩
  · refine List.pairwise_append.2 ⟨hi.pw, List.pairwise_singleton _ _, ?_⟩
    intro a ha y hy
    rw [List.mem_singleton] at hy; subst hy
    exact ⟨hxn a ha, fun heq => heq.trans hx0⟩
  · intro e he
    rcases List.mem_append.1 he with he | he
    · exact hi.le e he
    · rw [List.mem_singleton] at he; subst he; dsimp only at h2 ⊢; omega
  · intro e he
    rcases List.mem_append.1 he with he | he
    · exact hi.nn e he
    · rw [List.mem_singleton] at he; subst he; omega
  · intro e he hnz
    rcases List.mem_append.1 he with he | he
    · exact hs e he hnz
    · rw [List.mem_singleton] at he; subst he; exact absurd hx0 hnz
  · intro i hi' hnz
    obtain ⟨e, he, hen, hev⟩ := hd.ent i hi' hnz
    exact ⟨e, List.mem_append_left _ he, hen, hev⟩

def tyStep (tab : Tab) (ty : TypeDef) : Tab :=
  if tab.has ty.name then tab.map (fun i => if i.name == ty.name then { i with tag := ty.tag } else i)
  else tab ++ [⟨ty.name, false, 0, ty.tag, ""⟩]

theorem addTypes_eq (tab : Tab) (tys : List TypeDef) : addTypes tab tys = tys.foldl tyStep tab := rfl

theorem good_addTypes (all pre : List Ident) (m : Int) (t : Tab) (tys : List TypeDef)
    (h : Good all pre m t) : Good all pre m (addTypes t tys) := by
  rw [addTypes_eq]
  refine foldl_inv (Good all pre m) tyStep tys t h ?_
  intro tab ty _ hg
  unfold tyStep
  split
  · refine good_map all pre m tab _ ?_ hg
    intro e; split <;> exact ⟨rfl, rfl⟩
  · rename_i hh
    exact good_snoc all pre m tab _ rfl (has_false hh) hg

def withStart (d : Decl) (tab : Tab) : Tab :=
  if d.start != "" && !tab.has d.start then tab ++ [⟨d.start, false, 0, "", ""⟩] else tab

theorem good_withStart (all pre : List Ident) (m : Int) (t : Tab) (d : Decl)
    (h : Good all pre m t) : Good all pre m (withStart d t) := by
  unfold withStart
  split
  · rename_i hc
    have hh : ¬ t.has d.start = true := by
      intro hh; simp [hh] at hc
    exact good_snoc all pre m t _ rfl (has_false hh) h
  · exact h

/-- the table handed to `numberRest` -/
def declTab (d : Decl) : Tab := withStart d (addTypes (tokFold d).1 d.typeDefs)

theorem processDecl_eq (d : Decl) : processDecl d =
    match addPrecs (addTypes (tokFold d).1 d.typeDefs) d.precDefs with
    | none => .error .precsym
    | some pre => .ok { tab := (numberRest (declTab d) (tokFold d).2).1,
                        idMax := (numberRest (declTab d) (tokFold d).2).2,
                        preIds := pre, start := d.start } := rfl

theorem processDecl_ok (d : Decl) (ds : Decls) (h : processDecl d = .ok ds) :
    ds.tab = (numberRest (declTab d) (tokFold d).2).1 ∧
    ds.idMax = (numberRest (declTab d) (tokFold d).2).2 := by
  rw [processDecl_eq] at h
  split at h
  · cases h
  · cases h; exact ⟨rfl, rfl⟩

theorem declTab_good (d : Decl) (hwf : WF d) : Good (idents d) (idents d) (tokFold d).2 (declTab d) := by
  unfold declTab
  exact good_withStart _ _ _ _ d (good_addTypes _ _ _ _ _ (tokFold_spec d hwf))

/-! ## the theorems -/

theorem find_of_mem {t : Tab} (h : t.Pairwise (fun a b => a.name ≠ b.name)) {e : Id} (he : e ∈ t) :
    t.find e.name = some e := by
  unfold Tab.find
  induction t with
  | nil => cases he
  | cons x t ih =>
    rw [List.pairwise_cons] at h
    rw [List.find?_cons]
    rcases List.mem_cons.1 he with he' | he'
    · rw [he']; simp
    · have hb : (x.name == e.name) = false := by simpa using h.1 e he'
      rw [hb]
      exact ih h.2 he'

/-- **C11 (all codes distinct).** On a well-formed declaration part, the table `processDecl` returns
    has pairwise distinct names and pairwise distinct codes, and every code is positive (so neither
    0 = unnumbered nor -1 = skipped) and at most `idMax`. -/
theorem C11_codes_distinct (d : Decl) (ds : Decls) (hwf : WF d) (h : processDecl d = .ok ds) :
    ds.tab.Pairwise (fun a b => a.name ≠ b.name ∧ a.value ≠ b.value) ∧
    ∀ e ∈ ds.tab, 0 < e.value ∧ e.value ≤ ds.idMax := by
  obtain ⟨ht, hm⟩ := processDecl_ok d ds h
  rw [ht, hm]
  exact numberRest_distinct _ _ (declTab_good d hwf).1.inv

/-- **C11 (explicit codes are kept).** Every token declared with an explicit number or a literal code
    is in the final table with exactly that code, and looking its name up finds that entry. -/
theorem C11_codes_kept (d : Decl) (ds : Decls) (hwf : WF d) (h : processDecl d = .ok ds) :
    ∀ i ∈ idents d, i.value ≠ 0 →
      ∃ e ∈ ds.tab, e.name = i.name ∧ e.value = i.value ∧ ds.tab.find i.name = some e := by
  intro i hi hnz
  obtain ⟨hg, hd⟩ := declTab_good d hwf
  obtain ⟨e, he, hen, hev⟩ := hd.ent i hi hnz
  have hk := numberRest_kept _ _ hg.inv e he (by rw [hev]; exact hnz)
  obtain ⟨ht, _⟩ := processDecl_ok d ds h
  have hpw := (C11_codes_distinct d ds hwf h).1
  rw [← ht] at hk
  refine ⟨e, hk, hen, hev, ?_⟩
  rw [← hen]
  exact find_of_mem (hpw.imp fun hab => hab.1) hk

/-- **C11 (assigned codes are fresh).** Every entry of the final table either carries the explicit
    code of one of its declarations, or was unnumbered (code 0) before `numberRest` and received a
    code greater than 2, greater than every explicit code and greater than every code present in
    the table before `numberRest`; nothing but its code was changed. -/
theorem C11_codes_fresh (d : Decl) (ds : Decls) (hwf : WF d) (h : processDecl d = .ok ds) :
    ∀ e ∈ ds.tab,
      (∃ i ∈ idents d, i.name = e.name ∧ i.value = e.value ∧ i.value ≠ 0) ∨
      (2 < e.value ∧ (∀ i ∈ idents d, i.value < e.value) ∧ (∀ x ∈ declTab d, x.value < e.value) ∧
        ∃ e0 ∈ declTab d, e0.value = 0 ∧ e = { e0 with value := e.value }) := by
  intro e he
  obtain ⟨hg, hd⟩ := declTab_good d hwf
  obtain ⟨ht, _⟩ := processDecl_ok d ds h
  rw [ht] at he
  rcases numberRest_fresh _ _ hg.inv e he with ⟨hm, hnz⟩ | ⟨e0, hm, hz, heq, hlt, hall⟩
  · left
    obtain ⟨i, hi, hin, hiv⟩ := hg.src e hm hnz
    exact ⟨i, hi, hin, hiv, by rw [hiv]; exact hnz⟩
  · right
    have h2 := hg.inv.two
    refine ⟨by dsimp only at h2; omega, fun i hi => ?_, hall, e0, hm, hz, heq⟩
    have := hd.mx i hi
    dsimp only at this; omega

/-! ## the rule part: left-hand sides become nonterminals with fresh codes -/

def lhsStep (st : Tab × Int) (r : RuleDef) : Tab × Int :=
  if st.1.has r.lhs then st else (st.1 ++ [⟨r.lhs, false, st.2 + 1, "", ""⟩], st.2 + 1)

def lhsFold (ds : Decls) (rules : List RuleDef) : Tab × Int := rules.foldl lhsStep (ds.tab, ds.idMax)

theorem processRules_ok (ds ds' : Decls) (rules : List RuleDef) (vs : List VRule)
    (h : processRules ds rules = .ok (ds', vs)) :
    ds' = { ds with tab := (lhsFold ds rules).1, idMax := (lhsFold ds rules).2 } := by
  unfold processRules at h
  generalize hq : List.foldl _ (ds.tab, ds.idMax) rules = p at h
  have hp : lhsFold ds rules = p := hq
  rw [hp]
  obtain ⟨tab, mx⟩ := p
  dsimp only at h
  split at h
  · cases h
  · cases h
    rfl

/-- names pairwise distinct, codes pairwise distinct, every code in `1 … idMax`, `idMax ≥ 2` -/
def Distinct (st : Tab × Int) : Prop :=
  st.1.Pairwise (fun a b => a.name ≠ b.name ∧ a.value ≠ b.value) ∧
  (∀ e ∈ st.1, 0 < e.value ∧ e.value ≤ st.2) ∧ 2 ≤ st.2

theorem lhsStep_distinct (st : Tab × Int) (r : RuleDef) (h : Distinct st) :
    Distinct (lhsStep st r) ∧ ∀ e ∈ st.1, e ∈ (lhsStep st r).1 := by
  unfold lhsStep
  split
  · exact ⟨h, fun _ he => he⟩
  · rename_i hh
    obtain ⟨hp, hv, h2⟩ := h
    refine ⟨⟨?_, ?_, by dsimp only; omega⟩, fun e he => List.mem_append_left _ he⟩
    · refine List.pairwise_append.2 ⟨hp, List.pairwise_singleton _ _, ?_⟩
      intro a ha x hx
      rw [List.mem_singleton] at hx; subst hx
      have := (hv a ha).2
      exact ⟨has_false hh a ha, by dsimp only; omega⟩
    · intro e he
      rcases List.mem_append.1 he with he | he
      · have := hv e he; dsimp only; omega
      · rw [List.mem_singleton] at he; subst he
        dsimp only; omega

theorem lhsFold_distinct (rules : List RuleDef) (st : Tab × Int) (h : Distinct st) :
    Distinct (rules.foldl lhsStep st) ∧ ∀ e ∈ st.1, e ∈ (rules.foldl lhsStep st).1 := by
  induction rules generalizing st with
  | nil => exact ⟨h, fun _ he => he⟩
  | cons r rules ih =>
    rw [List.foldl_cons]
    obtain ⟨h1, k1⟩ := lhsStep_distinct st r h
    obtain ⟨h2, k2⟩ := ih _ h1
    exact ⟨h2, fun e he => k2 e (k1 e he)⟩

theorem processDecl_distinct (d : Decl) (ds : Decls) (hwf : WF d) (h : processDecl d = .ok ds) :
    Distinct (ds.tab, ds.idMax) := by
  obtain ⟨ht, hm⟩ := processDecl_ok d ds h
  obtain ⟨h1, h2⟩ := C11_codes_distinct d ds hwf h
  refine ⟨h1, h2, ?_⟩
  rw [hm]
  exact (numberRest_spec _ _ (declTab_good d hwf).1.inv).1.two

/-- **C11 (after the rule part).** The table handed to the grammar construction — the declared
    identifiers plus the left-hand sides numbered by `processRules` — still has pairwise distinct
    names and pairwise distinct positive codes, and every entry of the declaration table is kept. -/
theorem C11_codes_distinct_rules (d : Decl) (ds ds' : Decls) (rules : List RuleDef) (vs : List VRule)
    (hwf : WF d) (h1 : processDecl d = .ok ds) (h2 : processRules ds rules = .ok (ds', vs)) :
    ds'.tab.Pairwise (fun a b => a.name ≠ b.name ∧ a.value ≠ b.value) ∧
    (∀ e ∈ ds'.tab, 0 < e.value ∧ e.value ≤ ds'.idMax) ∧
    ∀ e ∈ ds.tab, e ∈ ds'.tab := by
  have hd := processDecl_distinct d ds hwf h1
  obtain ⟨⟨ha, hb, _⟩, hk⟩ := lhsFold_distinct rules (ds.tab, ds.idMax) hd
  rw [processRules_ok ds ds' rules vs h2]
  exact ⟨ha, hb, hk⟩

/-! ## the symbol table of the grammar: all `value`s distinct -/

/-- the identifiers that become symbols 2, 3, … of `buildSyms` -/
def symIds (ds : Decls) : List Id :=
  ((ds.tab.sorted.filter (·.isTerm)) ++ (ds.tab.sorted.filter (!·.isTerm))).filter (·.value != -1)

theorem buildSyms_values (ds : Decls) :
    (buildSyms ds).map (·.value) = [0, -1] ++ (symIds ds).map (·.value) := by
  unfold buildSyms symIds
  simp only [List.map_append, List.map_cons, List.map_nil]
  congr 1
  apply List.ext_getElem
  · simp
  · intro k h1 h2
    simp only [List.getElem_map, List.getElem_mapIdx]
    split
    · split <;> rfl
    · rfl

theorem symIds_perm_sub (ds : Decls) : ∃ l, (symIds ds).Sublist l ∧ l.Perm ds.tab := by
  refine ⟨_, List.filter_sublist, ?_⟩
  exact (List.filter_append_perm _ _).trans (List.mergeSort_perm _ _)

/-- **C11 (symbol values).** In the symbol table built from a well-formed declaration part and
    any rule part, the `value`s (0 for `start`, -1 for `$`, the token code otherwise) are pairwise
    distinct. -/
theorem C11_sym_values_distinct (d : Decl) (ds ds' : Decls) (rules : List RuleDef) (vs : List VRule)
    (hwf : WF d) (h1 : processDecl d = .ok ds) (h2 : processRules ds rules = .ok (ds', vs)) :
    ((buildSyms ds').map (·.value)).Nodup := by
  obtain ⟨ha, hb, _⟩ := C11_codes_distinct_rules d ds ds' rules vs hwf h1 h2
  obtain ⟨l, hsub, hperm⟩ := symIds_perm_sub ds'
  have hnd : (ds'.tab.map (·.value)).Nodup :=
    List.pairwise_map.2 (ha.imp fun hab => hab.2)
  have hnd2 : ((symIds ds').map (·.value)).Nodup :=
    ((hperm.map _).nodup_iff.2 hnd).sublist (hsub.map _)
  have hpos : ∀ v ∈ (symIds ds').map (·.value), 0 < v := by
    intro v hv
    obtain ⟨e, he, rfl⟩ := List.mem_map.1 hv
    exact (hb e (hperm.mem_iff.1 (hsub.subset he))).1
  rw [buildSyms_values, List.nodup_append]
  refine ⟨by decide, hnd2, ?_⟩
  intro a ha' b hb' hab
  have := hpos b hb'
  simp at ha'
  omega

/-! ## non-vacuity -/

/-- `%token NUM PLUS 43 ID 300` (NUM twice), `%type <val> expr`, `%start expr` -/
def exDecl : Decl :=
  { tokDefs := [[⟨"NUM", 0, "", ""⟩, ⟨"$operator+", 43, "", "+"⟩], [⟨"ID", 300, "", ""⟩, ⟨"NUM", 0, "", ""⟩]],
    typeDefs := [⟨"expr", "val"⟩], start := "expr" }

example : WF exDecl := by decide

example : ∃ ds, processDecl exDecl = .ok ds := ⟨_, by rw [processDecl_eq]; rfl⟩

/-- the theorems apply to it -/
example (ds : Decls) (h : processDecl exDecl = .ok ds) :
    ∃ e, ds.tab.find "ID" = some e ∧ e.value = 300 := by
  obtain ⟨e, _, _, hv, hf⟩ := C11_codes_kept exDecl ds (by decide) h ⟨"ID", 300, "", ""⟩
    (by simp [idents, exDecl]) (by decide)
  exact ⟨e, hf, hv⟩

/-- the precondition is not vacuous the other way either: two names with the same explicit number,
    or an explicit number equal to a literal's code, are excluded -/
example : ¬ WF { tokDefs := [[⟨"A", 5, "", ""⟩, ⟨"B", 5, "", ""⟩]] } := by decide
example : ¬ WF { tokDefs := [[⟨"A", 43, "", ""⟩, ⟨"$operator+", 43, "", "+"⟩]] } := by decide
example : ¬ WF { tokDefs := [[⟨"A", 5, "", ""⟩], [⟨"A", 6, "", ""⟩]] } := by decide

/-- one step of `numberRest` on a concrete table: the unnumbered `A` gets 6, `B` keeps 5 -/
example : ((nrStep ([⟨"A", true, 0, "", ""⟩, ⟨"B", true, 5, "", ""⟩], 5) ⟨"A", true, 0, "", ""⟩).1.map
    fun (i : Id) => (i.name, i.value)) = [("A", 6), ("B", 5)] := by decide

end Visitor
