import Yv.Proofs.ArrRefine
/-! # C08 — the three emitted drivers (Go global state, Go context object, TypeScript) agree

The three templates are copies of one loop over "growable array + stack pointer".  They differ in
`ParserInit`: the Go global template and the TypeScript template assign a fresh one-element array
(`initGlobal`), the Go context template appends the bottom entry to the context's array and resets
the pointer (`initCtx`), which on a new context (`emptyStack`) gives the same array.

`C08_equiv`: for all driver parameters (table lookup, action constants, rule data, semantic
actions), every token sequence, every fuel and every bottom value, the run from `initGlobal` and
the run from `initCtx emptyStack` are the same, and both are — under the abstraction `absCfg`
(live part of the array, top first) — the run of the list driver `Y.D.run` from `Y.D.init`: same
verdict, same value, same reductions, same number of tokens requested, same trace, same remaining
input.  The `return nil` exit of the loop (`sp == 0`, `sp > len`) is never taken. -/
namespace Y.Props
open Y Y.D Y.AD

theorem good_initGlobal {V : Type} (bv : V) (w : List (Sym × V)) : Good (ainit (initGlobal bv) w) :=
  ⟨inv_initGlobal bv, Nat.le_refl 1⟩

theorem good_initCtx {V : Type} (σ : AStack V) (bv : V) (w : List (Sym × V)) :
    Good (ainit (initCtx σ bv) w) :=
  ⟨inv_initCtx σ bv, Nat.le_refl 1⟩

theorem absCfg_initGlobal {V : Type} (bv : V) (w : List (Sym × V)) :
    absCfg (ainit (initGlobal bv) w) = D.init bv w := rfl

/-- the run from `ParserInit` of the global / TypeScript template is the list driver's run -/
theorem C08_global {V : Type} (P : Params V) (w : List (Sym × V)) (fuel : Nat) (bv : V) :
    absOutcome (arun P fuel (ainit (initGlobal bv) w)) = some (D.run P fuel (D.init bv w)) :=
  arun_refines P fuel _ (good_initGlobal bv w)

theorem C08_equiv {V : Type} (P : Params V) (w : List (Sym × V)) (fuel : Nat) (bv : V) :
    -- Go global form = TypeScript form  vs.  Go context form on a new context: identical runs
    arun P fuel (ainit (initGlobal bv) w) = arun P fuel (ainit (initCtx emptyStack bv) w) ∧
    -- and both are the list driver's run
    absOutcome (arun P fuel (ainit (initGlobal bv) w)) = some (D.run P fuel (D.init bv w)) ∧
    absOutcome (arun P fuel (ainit (initCtx emptyStack bv) w)) = some (D.run P fuel (D.init bv w)) ∧
    -- the `return nil` exit is dead
    arun P fuel (ainit (initGlobal bv) w) ≠ .nil :=
  ⟨rfl, C08_global P w fuel bv, C08_global P w fuel bv, arun_ne_nil P fuel _ (good_initGlobal bv w)⟩

/-! ### non-vacuity: a tiny table

Grammar `S → a` (rule 1: lhs 2, |rhs| = 1), end marker 1, token `a` = 3.
State 0: shift `a` to 1, goto `S` 2.  State 1: reduce 1 on `$`.  State 2: accept on `$`. -/

def tinyL : Nat → Nat → Option Int
  | 0, 3 => some 1
  | 0, 2 => some 2
  | 0, 1 => some 1000
  | 1, 1 => some (-1)
  | 1, 3 => some 1000
  | 2, 1 => some 2000
  | 2, 3 => some 1000
  | _, _ => none

def tinyP : Params Nat :=
  { L := tinyL, errC := 1000, accC := 2000,
    rule := fun r => if r = 1 then some (2, 1) else none,
    sem := fun _ vs => vs.foldl (· + ·) 100, eofVal := 0 }

def verdict {V : Type} : AOutcome V → Nat × Option V × List Nat × Nat × List Ev
  | .accept v c => (0, some v, c.reds, c.req, c.trace)
  | .syntaxError c => (1, none, c.reds, c.req, c.trace)
  | .crash => (2, none, [], 0, [])
  | .outOfFuel => (3, none, [], 0, [])
  | .nil => (4, none, [], 0, [])

/-- accepted: value 100 + 7, one reduction by rule 1, two tokens requested -/
example : verdict (arun tinyP 10 (ainit (initGlobal 0) [(3, 7)])) =
    (0, some 107, [1], 2, [.shift 2 2, .reduce 1 1 2, .shift 3 1]) := by decide

example : verdict (arun tinyP 10 (ainit (initCtx emptyStack 0) [(3, 7)])) =
    (0, some 107, [1], 2, [.shift 2 2, .reduce 1 1 2, .shift 3 1]) := by decide

/-- a syntax error (`a a`): reported after the second token was requested -/
example : verdict (arun tinyP 10 (ainit (initGlobal 0) [(3, 7), (3, 8)])) =
    (1, none, [], 2, [.shift 3 1]) := by decide

/-- the guards are not vacuous in the model: an uninitialised context leaves by `nil` -/
example : verdict (arun tinyP 10 (ainit (emptyStack) [(3, 7)])) = (4, none, [], 0, []) := by decide

/-- a crash (symbol 5 has no table column) -/
example : verdict (arun tinyP 10 (ainit (initGlobal 0) [(5, 7)])) = (2, none, [], 0, []) := by decide

end Y.Props
