import Yv.Abs.CertSets
import Yv.Cert.Canon
import Yv.Cert.Complete
/-! Executable, list-based oracle for C03: nullable / FIRST / productive sets of a grammar and the
    LALR(1) lookahead table of an LR(0) automaton given as data.

    Everything is computed by fuelled iteration (with an early exit when a round adds nothing)
    followed by a final Bool closedness check (`setsClosed`, `laClosed`), in the style of
    `closureL`.  `Yv/Proofs/LAOracleFacts.lean` proves that whatever is computed is *justified*
    (soundness, by an invariant over the iteration) and that a result that passes the final check
    *contains* every declarative fact (completeness, via `firstOf_sets` / `LA_in_table`). -/
namespace Y

/-! ## generic helpers -/

/-- iterate `f` at most `fuel` times; stop as soon as `done x (f x)` -/
def iterStop {α : Type} (f : α → α) (done : α → α → Bool) : Nat → α → α
  | 0, x => x
  | n + 1, x => if done x (f x) then f x else iterStop f done n (f x)

/-- apply `f` to the `i`-th element (nothing happens when `i` is out of range) -/
def modAt {α : Type} (f : α → α) : Nat → List α → List α
  | _, [] => []
  | 0, x :: xs => f x :: xs
  | i + 1, x :: xs => x :: modAt f i xs

/-- insertion into a strictly increasing list -/
def insS (x : Sym) : List Sym → List Sym
  | [] => [x]
  | y :: ys => if x < y then x :: y :: ys else if x = y then y :: ys else y :: insS x ys

/-- union: insert the elements of `xs` into `ys` -/
def unionS (xs ys : List Sym) : List Sym := xs.foldl (fun acc x => insS x acc) ys

/-- sort and remove duplicates -/
def sortS (l : List Sym) : List Sym := l.foldr insS []

def sameLen (a b : List Sym) : Bool := a.length == b.length

def sizeLL (t : List (List Sym)) : Nat := t.foldl (fun n l => n + l.length) 0

def sameSizeLL (a b : List (List Sym)) : Bool := sizeLL a == sizeLL b

/-! ## nullable, productive, FIRST -/

/-- one round of "if every right-hand-side symbol is in the set then so is the left-hand side" -/
def derivStep (G : Grammar) (l : List Sym) : List Sym :=
  G.rules.foldl (fun l rl =>
    if !l.contains rl.lhs && rl.rhs.all (fun x => l.contains x) then rl.lhs :: l else l) l

/-- the nullable symbols -/
def nullableL (G : Grammar) (nS : Nat) : List Sym := iterStop (derivStep G) sameLen (nS + 2) []

def terminals (G : Grammar) : List Sym := (List.range (G.nT + 1)).filter G.isT

/-- the productive symbols (those deriving some terminal string) -/
def prodL (G : Grammar) (nS : Nat) : List Sym :=
  iterStop (derivStep G) sameLen (nS + 2) (terminals G)

def prodCovers (G : Grammar) (pl : List Sym) : Bool :=
  G.rules.all fun rl => pl.contains rl.lhs && rl.rhs.all (fun x => pl.contains x)

/-- the end marker `1` is a terminal, and every left-hand side and every symbol occurring in a
    right-hand side is in the computed productive set -/
def prodOK (G : Grammar) (nS : Nat) : Bool := G.isT 1 && prodCovers G (prodL G nS)

/-- candidate sets from a nullable list and a FIRST table indexed by symbol -/
def mkSets (nl : List Sym) (ft : List (List Sym)) : Sets :=
  { nullable := fun x => nl.contains x, first := fun x => ft.getD x [] }

def firstStep (G : Grammar) (nl : List Sym) (ft : List (List Sym)) : List (List Sym) :=
  G.rules.foldl (fun ft rl => modAt (unionS (firstSeq (mkSets nl ft) rl.rhs)) rl.lhs ft) ft

def firstInit (G : Grammar) (nS : Nat) : List (List Sym) :=
  (List.range nS).map fun x => if G.isT x then [x] else []

def firstTabOf (G : Grammar) (nS : Nat) (nl : List Sym) : List (List Sym) :=
  iterStop (firstStep G nl) sameSizeLL (nS * nS + 2) (firstInit G nS)

/-- the FIRST table: entry `x` lists the terminals that can begin a string derived from `x` -/
def firstTab (G : Grammar) (nS : Nat) : List (List Sym) := firstTabOf G nS (nullableL G nS)

def firstL (G : Grammar) (nS : Nat) : Sym → List Sym := fun x => (firstTab G nS).getD x []

def setsOf (G : Grammar) (nS : Nat) : Sets :=
  let nl := nullableL G nS
  mkSets nl (firstTabOf G nS nl)

/-- the computed sets, provided they pass the closedness check -/
def setsL (G : Grammar) (nS : Nat) : Option Sets :=
  let S := setsOf G nS
  if setsClosed G S then some S else none

/-! ## LALR(1) lookaheads -/

abbrev Row := List (Item × List Sym)
abbrev LTab := List Row

/-- the lookahead list of an item in a row (the same expression as in `LATab.get`) -/
def rowGet (row : Row) (it : Item) : List Sym :=
  match row.find? (fun p => p.1 == it) with
  | some p => p.2
  | none => []

/-- add `xs` to the lookaheads of every item of the row that satisfies `c` -/
def rowAddIf (c : Item → Bool) (xs : List Sym) (row : Row) : Row :=
  row.map fun p => if c p.1 then (p.1, unionS xs p.2) else p

/-- rule `r` exists and has left-hand side `B` -/
def isRuleOf (G : Grammar) (B : Sym) (r : Nat) : Bool :=
  match G.rules[r]? with
  | some rl => rl.lhs == B
  | none => false

/-- `⋃ b ∈ la, firstSeq S (β ++ [b])`, computed with one pass over `β` -/
def fsOf (S : Sets) (β la : List Sym) : List Sym :=
  if la.isEmpty then []
  else firstSeq S β ++ (if nullableSeq S β then la.flatMap S.first else [])

/-- closure propagation out of one item, inside its state's row -/
def closItem (G : Grammar) (S : Sets) (row : Row) (it : Item) : Row :=
  match afterDot G it with
  | none => row
  | some B =>
    if G.isT B then row
    else rowAddIf (fun jt => jt.d == 0 && isRuleOf G B jt.r)
           (fsOf S ((G.rhsOf it.r).drop (it.d + 1)) (rowGet row it)) row

/-- goto propagation out of one item of the state whose (already closed) row is `row` -/
def gotoItem (G : Grammar) (gts : List (Sym × Nat)) (row : Row) (t : LTab) (it : Item) : LTab :=
  match afterDot G it with
  | none => t
  | some X =>
    match (gts.find? (fun e => e.1 == X)).map Prod.snd with
    | none => t
    | some p => modAt (rowAddIf (fun jt => jt == ⟨it.r, it.d + 1⟩) (rowGet row it)) p t

/-- write the closed row back, then propagate over the goto edges of the state -/
def gotoRow (G : Grammar) (gts : List (Sym × Nat)) (its : List Item) (q : Nat) (row : Row)
    (t : LTab) : LTab :=
  its.foldl (gotoItem G gts row) (modAt (fun _ => row) q t)

/-- one state: closure propagation inside the row, then goto propagation to the successors -/
def stateStep (G : Grammar) (S : Sets) (A : Auto) (t : LTab) (q : Nat) : LTab :=
  gotoRow G (A.gts q) (A.its q) q ((A.its q).foldl (closItem G S) (t.getD q [])) t

/-- one round over all states, in place -/
def laStep (G : Grammar) (S : Sets) (A : Auto) (t : LTab) : LTab :=
  (List.range A.n).foldl (stateStep G S A) t

/-- all lookahead sets empty, except `$` on the start item of state 0 -/
def laInit (A : Auto) : LTab :=
  modAt (rowAddIf (fun jt => jt == ⟨0, 0⟩) [1]) 0
    (A.items.map fun its => its.map fun it => (it, []))

def tabSize (t : LTab) : Nat :=
  t.foldl (fun n row => row.foldl (fun n p => n + p.2.length) n) 0

def sameTabSize (a b : LTab) : Bool := tabSize a == tabSize b

/-- every round but the last adds a fact, and there are at most `#items * nT` facts -/
def laFuel (G : Grammar) (A : Auto) : Nat :=
  (A.items.foldl (fun n its => n + its.length) 0) * (G.nT + 1) + 2

def laTab (G : Grammar) (S : Sets) (A : Auto) : LTab :=
  iterStop (laStep G S A) sameTabSize (laFuel G A) (laInit A)

/-- the automaton together with a lookahead table, in the shape checked by `laClosed` -/
def toLAData (A : Auto) (t : LATab) : LAData :=
  { n := A.n, items := A.its, goto := A.goto, la := t.get }

def checkedLA (G : Grammar) (S : Sets) (A : Auto) (t : LATab) : Option LATab :=
  if laClosed G S (toLAData A t) then some t else none

/-- the LALR(1) lookahead table of all items of all states, provided the computed sets and the
    computed table pass the closedness checks -/
def laL (G : Grammar) (nS : Nat) (A : Auto) : Option LATab :=
  match setsL G nS with
  | none => none
  | some S => checkedLA G S A ⟨laTab G S A⟩

/-- for every complete item `⟨r, |rhs r|⟩` of every state `q`: `(q, r, sorted lookaheads)` -/
def laLines (G : Grammar) (A : Auto) (t : LATab) : List (Nat × Nat × List Sym) :=
  (List.range A.n).flatMap fun q =>
    (A.its q).filterMap fun it =>
      if it.d == (G.rhsOf it.r).length then some (q, it.r, sortS (t.get q it)) else none

end Y
