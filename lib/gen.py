"""Grammar generators and renderers shared by all checks.

A *spec* is an abstract grammar: named tokens, character literals, precedence lines, nonterminals,
start symbol and rules (each rule: lhs, rhs symbol names, optional %prec symbol).  `render` turns a
spec into the text of a .y file; the X renderer in xrun.py adds prologue/union/actions/epilogue.
Every random choice comes from the `random.Random` passed in (derived from VERIF_SEED)."""
import itertools
import random


def lit_char(l):
    """the character a literal token denotes: yaccgo spells the quote character as '\\' (three characters)"""
    return "'" if l == "'\\'" else l[1]


def sym_text(s):
    """rhs symbol as written in the file: names as is, literals quoted"""
    return s


def num_text(spec, t):
    """the numeral of token t's explicit number as written in the file: decimal, possibly zero-padded (`007`, `0300`)"""
    n = spec["nums"][t]
    return "0" * spec.get("num_pad", {}).get(t, 0) + str(n)


def render(spec, prologue="", epilogue="", union=None, actions=None, tags=None):
    out = []
    if prologue:
        out.append("%{\n" + prologue + "\n%}\n")
    if union is not None:
        if spec.get("union_inline"):
            out.append("%union {" + union + "}\n")      # the closing brace on the line of the last field (or of a // comment)
        else:
            out.append("%union {\n" + union + "\n}\n")
    tags = tags or {}
    # terms whose value tag arrives in a LATER %token line of its own (after the number, after the precedence line that
    # first mentions it): `%token NUM 300 … %token <val> NUM`, `%left '+' … %token <op> '+'`
    late = [t for t in spec.get("late_tags", []) if t in tags and not spec.get("token_groups")]
    if spec.get("token_groups"):
        # several tokens on one %token line (they share the line's tag); a number belongs to the token before it
        for grp in spec["token_groups"]:
            tg = "<%s> " % tags[grp[0]] if grp[0] in tags else ""
            out.append("%%token %s%s\n" % (tg, " ".join(t + ((" " + num_text(spec, t)) if spec.get("nums", {}).get(t) else "") for t in grp)))
    else:
        for t in spec["tokens"]:
            num = spec.get("nums", {}).get(t)
            tg = "<%s> " % tags[t] if (t in tags and t not in late) else ""
            out.append("%%token %s%s%s\n" % (tg, t, (" " + num_text(spec, t)) if num else ""))
    if spec.get("eof_token"):
        out.append("%token EOF -1\n")        # the documented alias of the end marker (examples/e.y); not a grammar symbol
    for t, num in spec.get("redecl", []):
        # a later declaration that adds the number (and possibly a tag)
        out.append("%%token %s%s %d\n" % ("<%s> " % spec["redecl_tag"] if spec.get("redecl_tag") else "", t, num))
    for lit in spec["lits"]:
        if lit in tags and lit not in late:
            out.append("%%token <%s> %s\n" % (tags[lit], lit))
    for nt in spec["nts"]:
        if nt in tags:
            out.append("%%type <%s> %s\n" % (tags[nt], nt))
    for kind, syms in spec.get("prec", []):
        out.append("%%%s %s\n" % (kind, " ".join(syms)))
    for t in late:
        out.append("%%token <%s> %s\n" % (tags[t], t))
    out.append("%%start %s\n%%%%\n" % spec["start"])
    last = None
    for i, r in enumerate(spec["rules"]):
        if r["lhs"] != last:
            if last is not None:
                out.append(" ;\n")
            out.append("%s :" % r["lhs"])
            last = r["lhs"]
        else:
            out.append("\n  |")
        for s in r["rhs"]:
            out.append(" " + s)
        if r.get("prec"):
            out.append(" %%prec %s" % r["prec"])
        if actions is not None and actions[i] is not None:
            out.append(" { %s }" % actions[i])
    out.append(" ;\n%%\n")
    out.append(epilogue)
    return "".join(out)


def glue_comments(src, rng, p=0.15, before="_{'"):
    """the same file with some block comments written DIRECTLY in front of a token of the rules section (no blank
    between `*/` and an identifier, a literal or the `{` of an action): layout only, nothing may change"""
    a = src.find("%%")
    b = src.rfind("%%")
    if a < 0 or b <= a:
        return src
    mid = src[a + 2:b]
    out = []
    depth = 0          # inside an action `{ … }` nothing is touched (its text is the user's program)
    quote = False      # nor inside a character literal
    for i, ch in enumerate(mid):
        if depth == 0 and not quote and i > 0 and mid[i - 1] in " \t\n" and ((ch.isalpha() and "_" in before) or ch in before) and rng.random() < p:
            out.append("/*c*/" if rng.random() < 0.7 else "/* a b */")
        out.append(ch)
        if quote:
            if ch == "'" and not (i >= 2 and mid[i - 1] == "\\" and mid[i - 2] == "'"):
                quote = False
        elif depth == 0 and ch == "'":
            quote = True
        elif ch == "{":
            depth += 1
        elif ch == "}":
            depth = max(0, depth - 1)
    return src[:a + 2] + "".join(out) + src[b:]


def group_rules(rules):
    """yaccgo needs all alternatives of a nonterminal to be contiguous only for `|`; we always write
    one `lhs :` header per run of equal lhs, so any order is fine."""
    return rules


def rand_grammar(rng, max_t=5, max_n=5, max_alt=3, max_len=4, p_prec=0.5, p_lit=0.2,
                 p_nullable=None, p_rule_prec=0.15, big=False, p_chain=0.25, p_split=0.2, p_case=0.1):
    nT = rng.randint(1, max_t)
    nN = rng.randint(1, max_n)
    if big:
        nT = rng.randint(6, 14)
        nN = rng.randint(6, 14)
    tokens = []
    lits = []
    litchars = list("+-*/()=<>!&^~,.#@%\"aetoz$")   # incl. the letters of yaccgo's internal literal prefix `$operator`
    rng.shuffle(litchars)
    for i in range(nT):
        if rng.random() < p_lit and len(lits) < len(litchars):
            c = litchars[len(lits)]
            lits.append("'%s'" % c)
        else:
            tokens.append("T%d" % i)
    terms = tokens + lits
    nts = ["N%d" % i for i in range(nN)]
    rules = []
    for i, nt in enumerate(nts):
        na = rng.randint(1, max_alt)
        for a in range(na):
            ln = rng.randint(0, max_len - 1)
            rhs = []
            for k in range(ln):
                # first alternative of every nonterminal but N0 is terminal-only: keeps most grammars productive
                if (a == 0 and i != 0) or rng.random() < 0.5:
                    rhs.append(rng.choice(terms))
                else:
                    rhs.append(rng.choice(nts))
            pr = None
            if ln > 0 and rng.random() < p_rule_prec:
                pr = rng.choice(terms)
            rules.append({"lhs": nt, "rhs": rhs, "prec": pr})
    # indirect nullability written top-down: X : Y ; Y : Z ; Z : | t  (the nullable fixpoint needs one pass per link)
    if rng.random() < p_chain:
        k = rng.randint(2, 4)
        chain = ["Q%d" % i for i in range(k)]
        host = rng.choice(rules)
        host["rhs"].insert(rng.randint(0, len(host["rhs"])), chain[0])
        for i in range(k - 1):
            body = [chain[i + 1]] * rng.randint(1, 2)
            rules.append({"lhs": chain[i], "rhs": body, "prec": None})
        rules.append({"lhs": chain[-1], "rhs": [], "prec": None})
        if rng.random() < 0.7:
            rules.append({"lhs": chain[-1], "rhs": [rng.choice(terms)], "prec": None})
        nts = nts + chain
    prec = []
    if rng.random() < p_prec:
        pool = [t for t in terms if rng.random() < 0.6]
        rng.shuffle(pool)
        while pool:
            k = rng.randint(1, min(2, len(pool)))
            line, pool = pool[:k], pool[k:]
            prec.append((rng.choice(["left", "right", "nonassoc", "precedence"]), line))
    # a rule-level %prec symbol must have a precedence declaration or yaccgo dereferences nil
    # a token may be listed in two precedence lines: the LAST declaration counts (as in yacc)
    if len(prec) >= 2 and rng.random() < 0.25:
        again = rng.choice(prec[0][1])
        kind = rng.choice(["left", "right", "nonassoc"])
        prec.append((kind, [again]))
    # `%prec X` where X carries no precedence is legal: the rule then has NO precedence (its tokens' levels
    # do not count); X must be a symbol of the grammar, so a literal is only used when it occurs in some rule
    declared = {s for _, ss in prec for s in ss}
    used_syms = {x for r in rules for x in r["rhs"]}
    for r in rules:
        if r["prec"] is not None and r["prec"] not in declared:
            if rng.random() < 0.5 or (r["prec"].startswith("'") and r["prec"] not in used_syms):
                r["prec"] = None
    # the alternatives of one nonterminal need not be adjacent in the file (`y : B ; x : y ; y : C y ;`)
    if len(rules) > 2 and rng.random() < p_split:
        for _ in range(rng.randint(1, 2)):
            r = rules.pop(rng.randrange(len(rules)))
            rules.insert(rng.randint(0, len(rules)), r)
    # names that differ only in letter case (a nonterminal `t1` next to the token `T1`)
    if tokens and len(nts) > 1 and rng.random() < p_case:
        old_nt = rng.choice(nts[1:])
        new_nt = rng.choice(tokens).lower()
        if new_nt not in nts:
            nts = [new_nt if n == old_nt else n for n in nts]
            for r in rules:
                if r["lhs"] == old_nt:
                    r["lhs"] = new_nt
                r["rhs"] = [new_nt if x == old_nt else x for x in r["rhs"]]
    return {"tokens": tokens, "lits": lits, "prec": prec, "nts": nts, "start": "N0", "rules": rules}


def nullable_web(rng):
    """heavily nullable, mutually recursive nonterminals used in several contexts: cycles of nullable
    nonterminal transitions (cycles in the `reads` relation; such grammars are not LR(k), but the
    lookahead sets are still defined) — the family on which result sets shared inside a component matter"""
    nt, nn = rng.randint(3, 6), rng.randint(3, 6)
    T = ["T%d" % i for i in range(nt)]
    N = ["N%d" % i for i in range(nn)]
    rules = []
    for _ in range(rng.randint(2, 4)):
        rhs = []
        if rng.random() < 0.7:
            rhs.append(rng.choice(T))
        rhs.append(rng.choice(N))
        if rng.random() < 0.8:
            rhs.append(rng.choice(T))
        rules.append({"lhs": "S", "rhs": rhs, "prec": None})
    for n in N:
        for a in range(rng.randint(1, 3)):
            ln = rng.choice([0, 0, 1, 2, 2, 3])
            rules.append({"lhs": n, "rhs": [rng.choice(N) if rng.random() < 0.75 else rng.choice(T) for _ in range(ln)], "prec": None})
        if rng.random() < 0.6:
            rules.append({"lhs": n, "rhs": [], "prec": None})
    return {"tokens": T, "lits": [], "prec": [], "nts": ["S"] + N, "start": "S", "rules": rules}


def expr_grammar(rng):
    """operator-table grammar: E : E op E | unary E | '(' E ')' | T0, random levels/assoc"""
    ops = list("+-*/^<=&")
    rng.shuffle(ops)
    nops = rng.randint(1, 5)
    ops = ops[:nops]
    levels = []
    pool = ops[:]
    while pool:
        k = rng.randint(1, min(2, len(pool)))
        levels.append((rng.choice(["left", "right", "nonassoc"]), ["'%s'" % c for c in pool[:k]]))
        pool = pool[k:]
    rules = [{"lhs": "E", "rhs": ["T0"], "prec": None}]
    for c in ops:
        rules.append({"lhs": "E", "rhs": ["E", "'%s'" % c, "E"], "prec": None})
    # optionally the operands sit below a chain of unit productions with a postfix operator
    # (includes-relation cycles among the E transitions + deeper nodes that read other terminals)
    layered = rng.random() < 0.5
    if layered:
        rules[0] = {"lhs": "E", "rhs": ["P"], "prec": None}
        depth = rng.randint(1, 3)
        chain = ["P"] + ["P%d" % i for i in range(1, depth)]
        for i, n in enumerate(chain):
            nxt = chain[i + 1] if i + 1 < len(chain) else "Q"
            rules.append({"lhs": n, "rhs": [nxt], "prec": None})
            if rng.random() < 0.7:
                rules.append({"lhs": n, "rhs": [nxt, "'!'"], "prec": None})
        rules.append({"lhs": "Q", "rhs": ["T0"], "prec": None})
        rules.append({"lhs": "Q", "rhs": ["'('", "E", "')'"], "prec": None})
    unary = rng.random() < 0.5
    prec = list(levels)
    if unary:
        prec.append(("right", ["UMINUS"]))
        rules.append({"lhs": "E", "rhs": ["'%s'" % ops[0], "E"], "prec": "UMINUS"})
    if rng.random() < 0.5 and not layered:
        rules.append({"lhs": "E", "rhs": ["'('", "E", "')'"], "prec": None})
    toks = ["T0"] + (["UMINUS"] if unary else [])
    lits = []
    for r in rules:
        for x in r["rhs"]:
            if x.startswith("'") and x not in lits:
                lits.append(x)
    nts = []
    for r in rules:
        if r["lhs"] not in nts:
            nts.append(r["lhs"])
    rules.sort(key=lambda r: nts.index(r["lhs"]))
    return {"tokens": toks, "lits": lits, "prec": prec, "nts": nts, "start": "E", "rules": rules, "layered": layered}


CORPUS = {
    # LALR(1), not SLR(1) (F2/F3)
    "lalr_not_slr": "%token A B C D E\n%start S\n%%\nS : A Y E | A X D | B Y D ;\nX : C ;\nY : C ;\n%%\n",
    # classic LALR-not-SLR: S -> L = R | R ; L -> * R | id ; R -> L
    "dragon_lr": "%token ID\n%start S\n%%\nS : L '=' R | R ;\nL : '*' R | ID ;\nR : L ;\n%%\n",
    # LR(1) but not LALR(1): reduce/reduce after merging
    "lr1_not_lalr": "%token A B C D E\n%start S\n%%\nS : A X D | A Y E | B X E | B Y D ;\nX : C ;\nY : C ;\n%%\n",
    # SLR(1)
    "slr_expr": "%token ID\n%start E\n%%\nE : E '+' T | T ;\nT : T '*' F | F ;\nF : '(' E ')' | ID ;\n%%\n",
    # LR(0)
    "lr0": "%token A B\n%start S\n%%\nS : A S B | A B ;\n%%\n",
    # ambiguous with precedence
    "ambig_prec": "%token ID\n%left '+' '-'\n%left '*' '/'\n%right '^'\n%nonassoc '<'\n%right UM\n%start E\n%%\nE : E '+' E | E '-' E | E '*' E | E '/' E | E '^' E | E '<' E | '-' E %prec UM | '(' E ')' | ID ;\n%%\n",
    # dangling else (default shift)
    "dangling_else": "%token IF THEN ELSE X\n%start S\n%%\nS : IF X THEN S | IF X THEN S ELSE S | X ;\n%%\n",
    # nullable-heavy
    "nullable": "%token A B\n%start S\n%%\nS : X Y Z ;\nX : | A ;\nY : | B ;\nZ : | A B ;\n%%\n",
    # nullable chain needing reads relation
    "reads": "%token A B C\n%start S\n%%\nS : A X Y Z C | B ;\nX : | A ;\nY : | B ;\nZ : ;\n%%\n",
    # left and right recursion, two paths to one state
    "lists": "%token A B\n%start S\n%%\nS : L R ;\nL : | L A ;\nR : | B R ;\n%%\n",
    # cyclic unit rules (ambiguous)
    "cyclic": "%token A\n%start S\n%%\nS : S | X ;\nX : S | A ;\n%%\n",
    # reduce/reduce without precedence
    "rr": "%token A\n%start S\n%%\nS : X | Y ;\nX : A ;\nY : A ;\n%%\n",
    # epsilon start
    "eps_start": "%token A\n%start S\n%%\nS : ;\n%%\n",
    # repo example shapes
    "example_e": "%token 'n'\n%start L\n%%\nL : | E L ;\nE : 'n' ;\n%%\n",
    # includes relation through nullable tail
    "includes": "%token A B C\n%start S\n%%\nS : A T ;\nT : U V ;\nU : B ;\nV : | C ;\n%%\n",
    # nullable only indirectly, helper rules listed after their use (fixpoint needs several passes)
    "nullable_chain": "%token A C D\n%start S\n%%\nS : H X C ;\nH : A ;\nX : Y ;\nY : | D ;\n%%\n",
    "nullable_chain3": "%token A C D\n%start S\n%%\nS : H X C | H W D C ;\nH : A ;\nX : Y Y ;\nY : Z ;\nZ : V ;\nV : | D ;\nW : X X ;\n%%\n",
    # ambiguous operators over a chain of unit productions with a postfix operator
    "layered_expr": "%token NUM\n%left '+' '-'\n%left '*' '/'\n%start E\n%%\nE : E '+' E | E '-' E | E '*' E | E '/' E | P ;\nP : Q | Q '!' ;\nQ : NUM | '(' E ')' ;\n%%\n",
    # mutual right recursion: a cycle of length 3 in the includes relation with different outside contexts
    "includes_ring": "%token X Y Z C M P Q T U V\n%start S\n%%\nS : U A P | V B Q | T C0 T ;\nA : X B | X ;\nB : Y C0 | Y C M ;\nC0 : Z A | C ;\n%%\n",
    # one state's item list is a proper prefix of another's (A -> a.  vs  A -> a. , B -> a.b), both creation orders
    "prefix_small_first": "%token X Y A B C D\n%start S\n%%\nS : X P | Y Q ;\nQ : P C | R D ;\nP : A ;\nR : A B ;\n%%\n",
    "prefix_large_first": "%token X Y A B C D\n%start S\n%%\nS : Y Q | X P ;\nQ : P C | R D ;\nP : A ;\nR : A B ;\n%%\n",
    # the alternatives of a nonterminal are not adjacent in the file
    "split_alternatives": "%token A B C\n%start S\n%%\nS : X A ;\nY : B ;\nX : Y ;\nY : C Y ;\n%%\n",
    # mutual right recursion (an includes-cycle of two transitions) re-entered from later contexts
    "mutual_right_recursion": "%token A B X Y Z W K M\n%start S\n%%\nP : A Q | X ;\nQ : B P | Y ;\nS : P | Z Z P K | W W Q M ;\n%%\n",
    # a cycle of nullable nonterminal transitions (cycle in `reads`): the members of the component share one
    # Read set; their Follow sets must still be computed separately (finding F20)
    "reads_cycle": "%token T0 T1 T2 T3 T4\n%start S\n%%\nS : T0 N2 T0 | T2 N1 | T3 N0 T1 ;\nN0 : N1 N1 |  ;\nN1 :  | N2 T4 N2 | N0 |  ;\nN2 : T3 N2 N2 | N2 N0 T2 |  ;\n%%\n",
    # reduce/reduce conflict between two rules of EQUAL precedence and %left: the winner depends on the order
    # in which the candidates are met (the order must not come from a map)
    "rr_equal_prec": "%token ID NUM\n%left NAME\n%start prog\n%%\nprog : | prog stmt ;\nstmt : tn ';' | tn vn ';' | vn ';' | vn '=' NUM ';' ;\ntn : ID %prec NAME ;\nvn : ID %prec NAME ;\n%%\n",
    # a user nonterminal called `start` (the documented default start symbol; also the name of the internal
    # augmented symbol), nested and right-recursive
    "start_named": "%token A B C\n%start start\n%%\nstart : A start B | C | A item ;\nitem : C start ;\n%%\n",
    # a non-nullable nonterminal whose rule ENDS in a nullable one (`P : A Q ; Q : | B`), in a context where a
    # wrongly nullable P adds a lookahead that collides (reduce/reduce, and shift/reduce under precedence)
    "nullable_tail_rr": "%token X T A B\n%start S\n%%\nS : C P T | D T ;\nC : X ;\nD : X ;\nP : A Q ;\nQ : | B ;\n%%\n",
    "nullable_tail_prec": "%token X T A B\n%left T\n%left X\n%start S\n%%\nS : C P T | X T B ;\nC : X ;\nP : A Q ;\nQ : | B ;\n%%\n",
    # a rule with 257 right-hand-side symbols (dot positions beyond 255)
    "long_rule_257": "%token T X Y Z\n%start S\n%%\nS : Z | " + "T " * 256 + "B ;\nB : X | Y ;\n%%\n",
    "long_rule_257b": "%token T X Y\n%start S\n%%\nS : " + "T " * 256 + "B ;\nB : X | Y ;\n%%\n",
    # the same sub-phrase after a short and after a longer prefix: the later, higher-numbered state of the longer prefix has a
    # nonterminal transition that leads BACK to a lower-numbered state; with a nullable head the reduction happens there
    "suffix_after_two_prefixes": "%token A B C X\n%start S\n%%\nS : A T | B B T ;\nT : O C ;\nO : | X ;\n%%\n",
    "suffix_after_three_prefixes": "%token A B C D X Y\n%start S\n%%\nS : A T | B B T D | B A B T ;\nT : O P C ;\nO : | X ;\nP : | Y ;\n%%\n",
    # one state holds BOTH a conflict precedence cannot decide ('?' has none) and conflicts where precedence must choose the
    # reduction: the order in which the lookaheads of a state are visited must not matter
    "mixed_conflicts": "%token NUM\n%left '+' '-'\n%left '*'\n%start e\n%%\ne : e '?' e | e '+' e | e '-' e | e '*' e | NUM ;\n%%\n",
    # an item set that is a proper PREFIX of an earlier, longer state's sorted item list, where the extra item's rule
    # starts further back on the stack (a wrong merge accepts `v a b c`)
    "prefix_of_earlier_longer": "%token A B C U V\n%start S\n%%\nX : A B ;\nW : U A B C | U X ;\nS : W | V X ;\n%%\n",
    # NQLALR-separating family (Bermudez/Logothetis style)
    "nqlalr": "%token A B C D G\n%start S\n%%\nS : A X C | A Y D | B X D | B Y C | G X G ;\nX : Z ;\nY : Z ;\nZ : ;\n%%\n",
}


def enum_tiny(max_rules=3, max_len=2):
    """exhaustive enumeration of tiny grammars: 2 terminals, 2 nonterminals"""
    syms = ["T0", "T1", "N0", "N1"]
    rhss = [[]]
    for ln in range(1, max_len + 1):
        rhss += [list(p) for p in itertools.product(syms, repeat=ln)]
    alts = [(lhs, rhs) for lhs in ["N0", "N1"] for rhs in rhss]
    for k in range(1, max_rules + 1):
        for combo in itertools.combinations(range(len(alts)), k):
            rules = [{"lhs": alts[i][0], "rhs": alts[i][1], "prec": None} for i in combo]
            if not any(r["lhs"] == "N0" for r in rules):
                continue
            rules.sort(key=lambda r: r["lhs"])
            yield {"tokens": ["T0", "T1"], "lits": [], "prec": [], "nts": ["N0", "N1"], "start": "N0", "rules": rules}


def spec_key(spec):
    return (tuple(spec["tokens"]), tuple(spec["lits"]), tuple((k, tuple(s)) for k, s in spec["prec"]),
            tuple((r["lhs"], tuple(r["rhs"]), r.get("prec")) for r in spec["rules"]))


class SpecG:
    """name-level view of a spec for sentence sampling (used to build letter inputs for X)"""

    def __init__(self, spec):
        self.spec = spec
        self.terms = spec["tokens"] + spec["lits"]
        self.tidx = {t: i for i, t in enumerate(self.terms)}
        self.by = {}
        for i, r in enumerate(spec["rules"]):
            self.by.setdefault(r["lhs"], []).append(i)
        INF = 10 ** 9
        self.ml = {}
        self.best = {}
        for t in self.terms:
            self.ml[t] = 1
        for n in spec["nts"]:
            self.ml[n] = INF
        ch = True
        while ch:
            ch = False
            for i, r in enumerate(spec["rules"]):
                s = sum(self.ml.get(x, INF) for x in r["rhs"])
                if s < self.ml.get(r["lhs"], INF):
                    self.ml[r["lhs"]] = s
                    self.best[r["lhs"]] = i
                    ch = True

    def sample(self, rng, max_len=12, budget=40):
        start = self.spec["start"]
        if self.ml.get(start, 10 ** 9) > max_len:
            return None
        out = []
        stack = [start]
        steps = 0
        while stack:
            x = stack.pop()
            if x in self.tidx:
                out.append(x)
                if len(out) > max_len:
                    return None
                continue
            alts = self.by.get(x)
            if not alts:
                return None
            steps += 1
            if steps > budget * 20:
                return None
            if steps > budget:
                r = self.best.get(x, alts[0])
            else:
                ok = [a for a in alts if all(self.ml.get(y, 10 ** 9) < 10 ** 9 for y in self.spec["rules"][a]["rhs"])]
                r = rng.choice(ok or alts)
            for y in reversed(self.spec["rules"][r]["rhs"]):
                stack.append(y)
        return "".join(chr(97 + self.tidx[t]) for t in out)


def x_inputs(spec, rng, max_len=3, n_sent=10, cap=250):
    """letter strings: all strings up to a bound over the terminals plus an unknown letter, sampled
    sentences and mutated sentences"""
    n = len(spec["tokens"]) + len(spec["lits"])
    letters = [chr(97 + i) for i in range(n)] + ["z"]
    out = []
    k = max_len
    while k > 0 and sum(len(letters) ** j for j in range(k + 1)) > cap:
        k -= 1
    for j in range(k + 1):
        for t in itertools.product(letters, repeat=j):
            out.append("".join(t))
    sg = SpecG(spec)
    seen = set(out)
    for _ in range(n_sent):
        s = sg.sample(rng)
        if s is None:
            continue
        # mutations may also insert 'y' / 'x': codes just above the largest token code
        cands = [s, _mutate(s, letters + (["y", "x", "w", "v"] if n < 21 else []), rng)]
        if n < 21:
            # an unknown code directly after a complete sentence (where taking it for the end marker would accept),
            # and after a proper prefix of it
            u = rng.choice("vwxyz")
            cands += [s + u, s[:rng.randrange(len(s) + 1)] + u]
        for cand in cands:
            if cand not in seen:
                seen.add(cand)
                out.append(cand)
    return out


def _mutate(s, letters, rng):
    if not s:
        return rng.choice(letters)
    m = list(s)
    i = rng.randrange(len(m))
    op = rng.randrange(3)
    if op == 0:
        del m[i]
    elif op == 1:
        m.insert(i, rng.choice(letters))
    else:
        m[i] = rng.choice(letters)
    return "".join(m)


# ---------------------------------------------------------------- full file specs and layouts (C10-C13)

def file_spec(rng, small=False):
    """an abstract grammar *file*: everything C10 says must be read faithfully"""
    sp = rand_grammar(rng, max_t=4, max_n=3 if small else 4, max_alt=3, max_len=4, p_prec=0.6, p_lit=0.3, p_rule_prec=0.25)
    terms = sp["tokens"] + sp["lits"]
    fs = dict(sp)
    fields = ["val", "str"]
    fs["tags"] = {s: rng.choice(fields) for s in terms + sp["nts"] if rng.random() < 0.5}
    fs["nums"] = {}
    used = set(ord(l[1]) for l in sp["lits"])
    for t in sp["tokens"]:
        if rng.random() < 0.3:
            n = rng.choice([300, 301, 257, 1000, 65, 66, 5, 400 + len(fs["nums"])])
            if n not in used:
                used.add(n)
                fs["nums"][t] = n
    # tokens that are declared ONLY by a precedence line (no %token line): untagged, un-numbered ones
    fs["only_prec"] = [t for t in sp["tokens"] if t not in fs["tags"] and t not in fs["nums"]
                       and any(t in ss for _, ss in sp["prec"]) and rng.random() < 0.5]
    fs["group_tokens"] = rng.random() < 0.5
    fs["num_pad"] = {t: rng.randint(1, 2) for t in fs["nums"] if rng.random() < 0.3}      # zero-padded numerals: 0300, 005
    fs["late_tags"] = [t for t in terms if t in fs["tags"] and rng.random() < 0.3]
    fs["prologue"] = rng.choice(["package p\nimport \"fmt\"\n", "package p\n// c\nimport \"fmt\"\nvar x = 1 % 2\n", "\n package   q \n"])
    fs["union"] = rng.choice([" val int\n str string\n", "val int; str string", "\n\tval int\n\tstr struct{ a int }\n"])
    fs["epilogue"] = rng.choice(["", "\n", "\nfunc GetToken() {}\n", "func f() { /* %% */ }\n// tail"])
    acts = []
    for r in sp["rules"]:
        c = rng.random()
        if c < 0.4:
            acts.append(None)
        elif c < 0.7:
            acts.append("{ $$ = %d }" % rng.randrange(100))
        else:
            acts.append(rng.choice(["{ x := map[int]int{}; _ = x }", "{\n\t// note\n\t$$ = $$\n}", "{ if true { $$ = $$ } }", "{ /* c */ }",
                                    "{ u := \"http://example.org/\" ; _ = u }", "{ if len(\"a//b\") > 0 { $$ = $$ } }"]))
    fs["actions"] = acts
    return fs


GAPS_MIN = [" "]
GAPS = [" ", "\n", "\t", "  \n ", " // c\n", " /* c */ ", "/**/", " /* x **/ ", "\n\n", " /* a\n b */\n"]


def file_tokens(fs):
    """the lexical tokens of the file as (text, glue) where glue=True means the next token may follow
    without separator"""
    toks = []

    def add(t, glue_after=False):
        toks.append((t, glue_after))
    add("%{" + fs["prologue"] + "%}", True)
    add("%union")
    add("{" + fs["union"] + "}", True)
    # a directive word may be followed directly by anything that is not a letter (`%left'+'`, `%token<val>`);
    # render_file/needs_sep keep a separator where the next token starts with a word character
    declared = [t for t in fs["tokens"] if t not in fs.get("only_prec", [])]
    if fs.get("group_tokens"):
        # several names on one %token line (same tag), explicit numbers anywhere among them: `%token <val> A 300 B C 5`
        groups = []
        for t in declared:
            if groups and fs["tags"].get(groups[-1][0]) == fs["tags"].get(t):
                groups[-1].append(t)
            else:
                groups.append([t])
    else:
        groups = [[t] for t in declared]
    late = [t for t in fs.get("late_tags", []) if t in fs["tags"] and not fs.get("group_tokens")]
    for grp in groups:
        add("%token", True)
        if grp[0] in fs["tags"] and grp[0] not in late:
            add("<", True); add(fs["tags"][grp[0]], True); add(">", True)
        for t in grp:
            add(t)
            if t in fs["nums"]:
                add(num_text(fs, t))
    for l in fs["lits"]:
        if l in fs["tags"] and l not in late:
            add("%token", True); add("<", True); add(fs["tags"][l], True); add(">", True); add(l, True)
    for n in fs["nts"]:
        if n in fs["tags"]:
            add("%type", True); add("<", True); add(fs["tags"][n], True); add(">", True); add(n)
    for kind, syms in fs["prec"]:
        add("%" + kind, True)
        for s in syms:
            add(s, s.startswith("'"))
    for t in late:
        add("%token", True); add("<", True); add(fs["tags"][t], True); add(">", True); add(t, t.startswith("'"))
    add("%start"); add(fs["start"])
    add("%%", True)
    last = None
    for i, r in enumerate(fs["rules"]):
        if r["lhs"] != last:
            if last is not None:
                add(";", True)
            add(r["lhs"]); add(":", True)
            last = r["lhs"]
        else:
            add("|", True)
        for s in r["rhs"]:
            add(s, s.startswith("'"))
        if r.get("prec"):
            add("%prec", True); add(r["prec"], r["prec"].startswith("'"))
        if fs["actions"][i] is not None:
            add(fs["actions"][i], True)
    add(";", True)
    add("%%", True)
    return toks


def needs_sep(a, b):
    """two adjacent tokens fuse (or change meaning) without a separator"""
    wa = a[-1].isalnum() or a[-1] == "_"
    wb = b[0].isalnum() or b[0] == "_"
    if wa and wb:
        return True
    if a in ("%token", "%type", "%left", "%right", "%nonassoc", "%precedence", "%prec", "%start", "%union") and wb:
        return True
    if a[-1] == "/" and b[0] in "/*":
        return True
    if a == "%" or (a.endswith("%") and b.startswith("%")):
        return True
    if a[-1] == "-" and b[0].isdigit():
        return True
    return False


def render_file(fs, rng=None, minimal=False, drop_semi=False, drop_last_section=False):
    toks = file_tokens(fs)
    if drop_last_section and fs["epilogue"] == "":
        toks = toks[:-1]      # the second %% is optional when there is no epilogue
    out = []
    for i, (t, glue) in enumerate(toks):
        if drop_semi and t == ";" and rng is not None and rng.random() < 0.5:
            # `;` is optional: but only where the next token starts a new rule (identifier ':') or ends the section
            nxt = toks[i + 1][0] if i + 1 < len(toks) else ""
            nxt2 = toks[i + 2][0] if i + 2 < len(toks) else ""
            if nxt == "%%" or nxt2 == ":":
                continue
        out.append(t)
        if i + 1 < len(toks):
            nxt = toks[i + 1][0]
            if minimal or rng is None:
                gap = " " if (not glue or needs_sep(t, nxt)) else ""
                if t.startswith("%") and not glue:
                    gap = " "
                if t == "%%" or nxt == "%%" or t.endswith("%}"):
                    gap = "\n"
            elif t == "%union":
                # the header `%union {` is one lexical unit for yaccgo: only blanks between the two (DESIGN §4)
                gap = rng.choice(["", " ", "\n", "\t", " \n "])
            else:
                if glue and not needs_sep(t, nxt) and rng.random() < 0.3:
                    gap = ""
                else:
                    gap = "".join(rng.choice(GAPS) for _ in range(rng.randint(1, 2)))
                    if needs_sep(t, nxt) and gap == "/**/":
                        gap = " "
            out.append(gap)
    return "".join(out) + fs["epilogue"]


def blowup_grammar(n):
    """conflict-free grammar whose LR(0) automaton has about n*2^n states (each state remembers which
    tokens were seen): s : x1 | … | xn ; xi : Ti | Tj xi (j != i).  Far above the 2000-state limit for
    n >= 9: yaccgo must stop with its "too many states" diagnostic."""
    out = "%token " + " ".join("T%d" % i for i in range(1, n + 1)) + "\n%start s\n%%\n"
    out += "s : " + " | ".join("x%d" % i for i in range(1, n + 1)) + " ;\n"
    for i in range(1, n + 1):
        out += "x%d : T%d" % (i, i) + "".join(" | T%d x%d" % (j, i) for j in range(1, n + 1) if j != i) + " ;\n"
    return out + "%%\n"


def keyword_grammar(rng, nwords=48, wlen=5, nletters=6):
    """a grammar with several hundred LR(0) states: prog : stmt | prog stmt ; stmt : <word> 'z'"""
    letters = ["T%d" % i for i in range(nletters)]
    words = set()
    while len(words) < nwords:
        words.add(tuple(rng.choice(letters) for _ in range(wlen)))
    rules = [{"lhs": "N0", "rhs": ["N1"], "prec": None}, {"lhs": "N0", "rhs": ["N0", "N1"], "prec": None}]
    for w in sorted(words):
        rules.append({"lhs": "N1", "rhs": list(w) + ["TZ"], "prec": None})
    return {"tokens": letters + ["TZ"], "lits": [], "prec": [], "nts": ["N0", "N1"], "start": "N0", "rules": rules,
            "words": sorted(words)}
