import Yv.Proofs.DSound
/-! # C01 — every accepted input has a valid derivation (soundness)

For **every** table that passes the decidable certificates (`gramWF`, `certA`, `certT`) — in
particular tables whose conflicts were resolved by precedence or by the default rules, and tables
built from wrong lookahead sets — for every input and every fuel: if the driver accepts, the
reductions it performed, most recent first, are a rightmost derivation of exactly the input from the
start rule's body `[S]`, every token was consumed, and exactly `|w|+1` tokens were requested. -/
namespace Y.Props
open Y Y.D

theorem C01_sound {V : Type} (G : Grammar) (nS : Nat) (A : Auto) (T : Dense)
    (sem : Nat → List V → V) (eofVal bv : V)
    (hG : gramWF G nS = true) (hA : certA G A = true) (hT : certT G nS A T = true)
    (w : List (Sym × V)) (hw : ∀ t ∈ w, t.1 ≤ G.nT ∧ t.1 ≠ 1)
    (fuel : Nat) (v : V) (c' : D.Cfg V)
    (hrun : run (dparams G T A.n sem eofVal) fuel (init bv w) = .accept v c') :
    ∃ rl0, G.rules[0]? = some rl0 ∧ rl0.lhs = 0 ∧
      RmDer G rl0.rhs c'.reds (w.map Prod.fst) ∧ c'.rest = [] ∧ c'.req = w.length + 1 := by
  have hG' := gramWF_ok hG
  rcases run_cases sem eofVal hG' (certA_ok hA) (certT_ok hT) fuel _ (init_inv (G := G) (A := A) bv w hw) with
    ⟨v2, c2, h2, hi, hr, rl0, hrl0, hsy⟩ | ⟨c2, h2, _⟩ | h2
  · rw [h2] at hrun
    cases hrun
    obtain ⟨rl0', hrl0', hl0, _⟩ := hG'.r0
    have : rl0' = rl0 := by rw [hrl0] at hrl0'; cases hrl0'; rfl
    subst this
    refine ⟨rl0', hrl0, hl0, ?_, hr, ?_⟩
    · have := hi.der (by intro t ht; rw [hr] at ht; cases ht)
      rw [hsy, hr] at this
      simpa using this
    · have := hi.cnt
      rw [hr] at this
      simpa using this
  · rw [h2] at hrun; cases hrun
  · rw [h2] at hrun; cases hrun

/-! ## Non-vacuity: a concrete grammar, automaton and table pass the certificates, and the driver
    accepts a sentence on them.  `S' → S ; S → a S | b` with terminals `$`=1, `a`=2, `b`=3, `S`=4. -/

def exG : Grammar := { nT := 3, rules := [⟨0, [4]⟩, ⟨4, [2, 4]⟩, ⟨4, [3]⟩] }
def exA : Auto :=
  { items := [[⟨0,0⟩, ⟨1,0⟩, ⟨2,0⟩], [⟨0,1⟩], [⟨1,0⟩, ⟨1,1⟩, ⟨2,0⟩], [⟨2,1⟩], [⟨1,2⟩]],
    gotos := [[(4,1), (2,2), (3,3)], [], [(2,2), (4,4), (3,3)], [], []] }
def exT : Dense :=
  [[105, 105, 2, 3, 1], [105, 205, 105, 105, 105], [105, 105, 2, 3, 4], [105, -2, 105, 105, 105],
   [105, -1, 105, 105, 105]]

example : gramWF exG 5 = true ∧ certA exG exA = true ∧ certT exG 5 exA exT = true := by decide

example : ∃ v c', run (dparams (V := Unit) exG exT exA.n (fun _ _ => ()) ()) 20 (init () [(2, ()), (2, ()), (3, ())])
    = .accept v c' ∧ c'.reds = [1, 1, 2] := ⟨(), _, rfl, rfl⟩

end Y.Props
