import Yv.Model.DP
/-! # Executable model of yaccgo's `Digraph` / `Traverse` (`LALR/Digraph.go`)

The routine of DeRemer and Pennello: an SCC-based depth-first traversal that computes, for the nodes
`x` of `X`, `F x = F' x ∪ ⋃ {F y | x R y}`.

* Go maps (`N`, `*F`, `FP`) are total functions with a zero value: `N` and `*F` are association lists
  read with a default (`getA 0`, `getA []`) and written with `setA` (in-place replacement, new keys
  appended), `FP` is a function `Nat → List Nat` (an absent key reads `nil = []`).  A node that is
  not a member of `X` is traversed as soon as it is the target of a pair whose source is traversed
  (its `N` entry reads `0`), exactly as in the Go code, where the maps auto-extend.
* `N[x] = MaxInt` is `inf`.
* the stack is a list with the TOP at the head; `d = len(S)` after the push is `S.length + 1`.
* `Union(a, b)` = `b` followed by the elements of `a` that do not occur in `b` (`union`).
* the relation `R` is scanned in its list order for every node, `X` is processed in its list order,
  so that with identically ordered inputs even the element order of the result lists is the
  implementation's.
* slices are VALUES here (no aliasing of backing arrays).
* recursion depth is bounded by fuel; `none` only if the fuel runs out, and `digraph` supplies
  `X.length + R.length + 1`, which is always enough (`Y.Props.digraph_total`).
* popping the empty stack (a Go panic) cannot happen (`x` is on the stack when the pop loop starts);
  the model's loop simply stops there.

Entry points: `digraph X R Fp : Option (Nat → List Nat)`, `digraphL` (the association list `*F`, keys
in first-write order), `digraphSt` (the final state), and `stagesDG G A nl` — the stages of
`Y.DP.stagesWith` with the three closures computed by `digraph` as `CalcReadSet`, `CalcFollowSet`,
`CalcLookAheadSet` do (it returns a `Y.DP.Stages`, so `Stages.lines`, `keyRows`, `laRows` apply). -/
namespace Y.DG

/-- `MaxInt` -/
def inf : Nat := 9223372036854775807

/-- read a Go map (association list) with the zero value `d` for an absent key -/
def getA {α : Type} (d : α) : List (Nat × α) → Nat → α
  | [], _ => d
  | e :: m, k => if e.1 = k then e.2 else getA d m k

/-- write a Go map: replace the entry of an existing key, append a new key -/
def setA {α : Type} : List (Nat × α) → Nat → α → List (Nat × α)
  | [], k, v => [(k, v)]
  | e :: m, k, v => if e.1 = k then (k, v) :: m else e :: setA m k v

/-- `Union(a, b)`: `b`, then the elements of `a` not found in `b` -/
def union (a b : List Nat) : List Nat := b ++ a.filter fun v => !b.contains v

/-- the variables of `Digraph`: `N`, the stack `S` (top first), `*F` -/
structure St where
  N : List (Nat × Nat)
  S : List Nat
  F : List (Nat × List Nat)

def St.n (st : St) (u : Nat) : Nat := getA 0 st.N u
def St.f (st : St) (u : Nat) : List Nat := getA [] st.F u

/-- `S.Push(x); d := len(S); N[x] = d; F[x] = FP[x]` -/
def enter (Fp : Nat → List Nat) (x : Nat) (st : St) : St :=
  { N := setA st.N x (st.S.length + 1), S := x :: st.S, F := setA st.F x (Fp x) }

/-- `N[x] = min(N[x], N[y]); F[x] = Union(F[y], F[x])` -/
def relax (x y : Nat) (st : St) : St :=
  { N := setA st.N x (min (st.n x) (st.n y)), S := st.S,
    F := setA st.F x (union (st.f y) (st.f x)) }

/-- `for { top := S.Pop(); N[top] = MaxInt; F[top] = F[x]; if top == x { break } }` -/
def popLoop (x : Nat) : List Nat → List (Nat × Nat) → List (Nat × List Nat) → St
  | [], N, F => { N := N, S := [], F := F }
  | top :: s, N, F =>
    if top = x then { N := setA N top inf, S := s, F := setA F top (getA [] F x) }
    else popLoop x s (setA N top inf) (setA F top (getA [] F x))

/-- `if N[x] == d { N[x] = MaxInt; for {…} }` -/
def finish (x d : Nat) (st : St) : St :=
  if st.n x = d then popLoop x st.S (setA st.N x inf) st.F else st

/-- `for _, r := range R { if r.x == x { y := r.y; if N[y] == 0 { Traverse(y) }; … } }`, with the
    recursive call passed in -/
def scan (trav : Nat → St → Option St) (x : Nat) : List (Nat × Nat) → St → Option St
  | [], st => some st
  | e :: rs, st =>
    if e.1 = x then
      match (if st.n e.2 = 0 then trav e.2 st else some st) with
      | none => none
      | some st' => scan trav x rs (relax x e.2 st')
    else scan trav x rs st

/-- `Traverse(x, R, FP, F, N, S)`; the first argument bounds the recursion depth -/
def traverse (R : List (Nat × Nat)) (Fp : Nat → List Nat) : Nat → Nat → St → Option St
  | 0, _, _ => none
  | fuel + 1, x, st =>
    match scan (traverse R Fp fuel) x R (enter Fp x st) with
    | none => none
    | some st' => some (finish x (st.S.length + 1) st')

/-- `for _, x := range X { if N[x] == 0 { Traverse(x, …) } }` -/
def roots (R : List (Nat × Nat)) (Fp : Nat → List Nat) (fuel : Nat) : List Nat → St → Option St
  | [], st => some st
  | x :: xs, st =>
    if st.n x = 0 then
      match traverse R Fp fuel x st with
      | none => none
      | some st' => roots R Fp fuel xs st'
    else roots R Fp fuel xs st

/-- `Digraph(X, R, Fp, &F)`: the final state -/
def digraphSt (X : List Nat) (R : List (Nat × Nat)) (Fp : Nat → List Nat) : Option St :=
  roots R Fp (X.length + R.length + 1) X { N := [], S := [], F := [] }

/-- `Digraph(X, R, Fp, &F)`: the resulting map `F` (an absent key reads `[]`) -/
def digraph (X : List Nat) (R : List (Nat × Nat)) (Fp : Nat → List Nat) : Option (Nat → List Nat) :=
  (digraphSt X R Fp).map fun st => st.f

/-- the resulting map as an association list `(key, F key)`, keys in first-write order -/
def digraphL (X : List Nat) (R : List (Nat × Nat)) (Fp : Nat → List Nat) :
    Option (List (Nat × List Nat)) :=
  (digraphSt X R Fp).map fun st => st.F

/-- the pairs of `R` are transitively closed: `Reach R x y` iff `y` is reachable from `x` -/
inductive Reach (R : List (Nat × Nat)) : Nat → Nat → Prop
  | refl (x : Nat) : Reach R x x
  | head (x y z : Nat) : (x, y) ∈ R → Reach R y z → Reach R x z

/-! ## the three call sites (`CalcReadSet`, `CalcFollowSet`, `CalcLookAheadSet`) -/
open Y Y.DP

/-- the keys of `DRSet` (= of `ReadSet`, `FollowSet`), in increasing index order (the implementation
    ranges over a Go map, i.e. in an unspecified order) -/
def keysOf (G : Grammar) (ts : List Tr) : List Nat :=
  ts.zipIdx.filterMap fun ti => if isKey G ti.2 ti.1 then some ti.2 else none

/-- the indices of the reduce transitions (`fetchReduceTransistor`), in increasing order -/
def redsOf (ts : List Tr) : List Nat :=
  ts.zipIdx.filterMap fun ti =>
    match ti.1.kind with
    | .sym _ => none
    | .rule _ => some ti.2

/-- `CalcLookAheadSet` for one transition, from the map `Set` that `Digraph` filled -/
def laOfDG (F : Nat → List Sym) (x : Nat) (t : Tr) : List Sym :=
  match t.kind with
  | .sym _ => []
  | .rule r => if r = 0 then [1] else F x

/-- a Go map on transition indices as a list -/
def tabulate (n : Nat) (F : Nat → List Sym) : List (List Sym) := (List.range n).map F

/-- `Y.DP.stagesWith` with the closures computed by `Digraph`:
    `Digraph(keys, reads, DRSet, &ReadSet)`, `Digraph(keys, includes, ReadSet, &FollowSet)`,
    `Digraph(reduce transitions, lookback, FollowSet, &Set)` -/
def stagesDG (G : Grammar) (A : Auto) (nl : List Sym) : Option Stages :=
  match digraph (keysOf G (trans G A)) (readsRel G nl (trans G A))
      (fun i => (dr G (trans G A)).getD i []) with
  | none => none
  | some rd =>
    match digraph (keysOf G (trans G A)) (includesRel G A nl (trans G A)) rd with
    | none => none
    | some fo =>
      match digraph (redsOf (trans G A)) (lookbackRel G A (trans G A)) fo with
      | none => none
      | some la =>
        some { trans := trans G A, dr := dr G (trans G A), reads := readsRel G nl (trans G A),
               read := tabulate (trans G A).length rd,
               includes := includesRel G A nl (trans G A),
               follow := tabulate (trans G A).length fo,
               lookback := lookbackRel G A (trans G A),
               la := (trans G A).zipIdx.map fun tx => laOfDG la tx.2 tx.1 }

/-- the numbers of roots and pairs stay below `MaxInt` (the stack depth `d` must not reach the value
    that marks a finished node) -/
def dgSizeOK (G : Grammar) (A : Auto) (nl : List Sym) : Bool :=
  decide ((keysOf G (trans G A)).length + (readsRel G nl (trans G A)).length < inf) &&
  decide ((keysOf G (trans G A)).length + (includesRel G A nl (trans G A)).length < inf) &&
  decide ((redsOf (trans G A)).length + (lookbackRel G A (trans G A)).length < inf)

/-- the same lines as `Y.DP.laLinesDPWith`, through `Digraph` -/
def laLinesDG (G : Grammar) (A : Auto) (nl : List Sym) : Option (List (Nat × Nat × List Sym)) :=
  (stagesDG G A nl).map (Stages.lines G A)

end Y.DG
