import Yv.Proofs.LR0LFacts
import Yv.Props.C09
/-! # C09 for all grammars (on the model)

`buildL` (Yv/Model/LR0L.lean) is the list-based model of the implementation's LR(0) worklist, with
the implementation's state numbering and goto order.  Whenever it returns an automaton — i.e.
unless a closure computation fails its closedness check or the 2000-state cap is hit — that
automaton passes the certificate `certCanon`, hence (by `C09_canonical`) it *is* the canonical
LR(0) collection.  No hypothesis on the grammar is needed. -/
namespace Y.Props
open Y

/-- equal item sets give equal item lists (so looking a closure up by list equality is looking it
    up as a set) -/
theorem C09_gen_closureS_canonical {l₁ l₂ : List Item} (h : sameElems l₁ l₂ = true)
    (h1 : SortedI l₁) (h2 : SortedI l₂) : l₁ = l₂ := closureS_canonical h h1 h2

/-- the sorted closure is strictly sorted and has exactly the elements of the LR(0) closure -/
theorem C09_gen_closureS (G : Grammar) (k cl : List Item) (h : closureS G k = some cl) :
    SortedI cl ∧ ∀ it, it ∈ cl ↔ Cl0 G (fun x => x ∈ k) it :=
  ⟨closureS_sorted h, closureS_spec h⟩

/-- **C09, generator side.** The automaton built by the worklist always passes the
    canonical-collection certificate. -/
theorem C09_gen (G : Grammar) (A : Auto) (h : buildL G = some A) : certCanon G A = true :=
  let ⟨inv, hd⟩ := buildL_inv h
  certCanon_of_inv inv hd

/-- the same, as propositions -/
theorem C09_gen_ok (G : Grammar) (A : Auto) (h : buildL G = some A) : CanonOK G A :=
  certCanon_ok (C09_gen G A h)

/-- **C09 for all grammars.** The automaton built by the worklist is the canonical LR(0)
    collection: the six conjuncts of `C09_canonical`. -/
theorem C09_gen_canonical (G : Grammar) (A : Auto) (h : buildL G = some A) :
    -- every state is a canonical set
    (∀ q, q < A.n → ∃ S, Canon G S ∧ ∀ it, it ∈ A.its q ↔ S it) ∧
    -- every canonical set is a state
    (∀ S, Canon G S → ∃ q, q < A.n ∧ ∀ it, it ∈ A.its q ↔ S it) ∧
    -- no duplicates
    (∀ q p, q < A.n → p < A.n → (∀ it, it ∈ A.its q ↔ it ∈ A.its p) → q = p) ∧
    -- state 0 is the start state
    (∀ it, it ∈ A.its 0 ↔ Cl0 G (fun x => x = ⟨0, 0⟩) it) ∧
    -- transitions: exactly on the symbols after a dot, to the closure of the advanced items
    (∀ q X, q < A.n →
      ((∃ it ∈ A.its q, (G.rhsOf it.r)[it.d]? = some X) ↔ ∃ p, A.goto q X = some p)) ∧
    (∀ q X p, q < A.n → A.goto q X = some p →
      p < A.n ∧ ∀ it, it ∈ A.its p ↔ Cl0 G (adv0 G X (fun x => x ∈ A.its q)) it) :=
  C09_canonical G A (C09_gen G A h)

/-- the hygiene facts of `C09_hygiene` for the built automaton -/
theorem C09_gen_hygiene (G : Grammar) (A : Auto) (h : buildL G = some A) :
    A.gotos.length = A.n ∧
    (∀ q, q < A.n → ((A.gts q).map Prod.fst).Nodup) ∧
    (∀ q X p, q < A.n → ((X, p) ∈ A.gts q ↔ A.goto q X = some p)) ∧
    (∀ q, q < A.n → (A.its q).Nodup) ∧
    (∀ p, p < A.n → p ≠ 0 → ∃ q X, q < p ∧ A.goto q X = some p) :=
  C09_hygiene G A (C09_gen G A h)

/-- Layout facts beyond the certificate (they pin down the *lists*, not only the sets): every
    state's item list is strictly sorted by (rule, dot); two states never have the same item list;
    the goto list of a state mentions the symbols after its dots in order of first occurrence;
    fewer than 2000 states. -/
theorem C09_gen_layout (G : Grammar) (A : Auto) (h : buildL G = some A) :
    (∀ q, q < A.n → SortedI (A.its q)) ∧
    (∀ p q, p < q → q < A.n → A.its p ≠ A.its q) ∧
    (∀ q, q < A.n → (A.gts q).map Prod.fst = symsOf G (A.its q)) := by
  obtain ⟨inv, hd⟩ := buildL_inv h
  have hlen : A.gotos.length = A.items.length := Nat.le_antisymm inv.le hd
  exact ⟨inv.ok.sorted, inv.ok.distinct, fun q hq => inv.syms q (hlen ▸ hq)⟩

/-- The fuel of `buildL` (cap + 1 rounds) is never what makes it return `none`: any larger fuel
    gives the same result.  So `buildL G = none` only when a closure computation fails its
    closedness check or the implementation's cap of 2000 states is reached. -/
theorem C09_gen_fuel (G : Grammar) (s0 : List Item) (n : Nat) :
    loopL G (stateCap + 1 + n) [s0] [] = loopL G (stateCap + 1) [s0] [] := buildL_fuel G s0 n

/-! ## Non-vacuity: on the example grammar of C01 the worklist returns exactly the automaton
    `exA` (same numbering, same goto order). -/

example : (buildL exG).map (fun A => (A.items, A.gotos)) = some (exA.items, exA.gotos) := by decide

example : closureS exG [⟨1, 1⟩] = some [⟨1, 0⟩, ⟨1, 1⟩, ⟨2, 0⟩] := by decide

example : kernels exG [⟨1, 0⟩, ⟨1, 1⟩, ⟨2, 0⟩] = [(2, [⟨1, 1⟩]), (4, [⟨1, 2⟩]), (3, [⟨2, 1⟩])] := by
  decide

end Y.Props

#print axioms Y.Props.C09_gen
#print axioms Y.Props.C09_gen_canonical
#print axioms Y.Props.C09_gen_layout
