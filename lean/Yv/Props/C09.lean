import Yv.Proofs.CanonFacts
import Yv.Props.C01
/-! # C09 — the automaton is the canonical LR(0) collection

The canonical collection is described declaratively (`Canon`): the closure of the augmented start
item, and the closure of every non-empty successor kernel of a canonical set.  For **every**
automaton (given as data) that passes the decidable certificate `certCanon`: its states are exactly
the canonical sets (each one once), state 0 is the start set, and there is a transition on `X` from
a state exactly when some item of it has `X` after the dot, leading to the state whose items are
the closure of the advanced items. -/
namespace Y.Props
open Y

/-- the canonical collection of LR(0) item sets (as predicates on items) -/
inductive Canon (G : Grammar) : (Item → Prop) → Prop
  | start : Canon G (Cl0 G (fun it => it = ⟨0, 0⟩))
  | step (S : Item → Prop) (X : Sym) : Canon G S → (∃ it, adv0 G X S it) →
      Canon G (Cl0 G (adv0 G X S))

/-- `Canon` only depends on the extension of the set -/
theorem Canon.ext_state {G : Grammar} {A : Auto} {S : Item → Prop} {q : Nat} {X : Sym}
    (hS : ∀ it, it ∈ A.its q ↔ S it) (it : Item) :
    Cl0 G (adv0 G X (fun x => x ∈ A.its q)) it ↔ Cl0 G (adv0 G X S) it :=
  Cl0_congr (fun x => adv0_congr hS x) it

/-- the executable closure agrees with the declarative one (re-exported for reference) -/
theorem C09_closure (G : Grammar) (k l : List Item) (h : closureL G k = some l) :
    ∀ it, it ∈ l ↔ Cl0 G (fun x => x ∈ k) it := closureL_spec h

theorem C09_states_canonical {G : Grammar} {A : Auto} (ok : CanonOK G A) :
    ∀ q, q < A.n → ∃ S, Canon G S ∧ ∀ it, it ∈ A.its q ↔ S it := by
  intro q
  induction q using Nat.strongRecOn with
  | _ q ih =>
    intro hq
    by_cases h0 : q = 0
    · subst h0
      exact ⟨_, Canon.start, ok.s0⟩
    · obtain ⟨q', hlt, X, hm⟩ := ok.reach q hq h0
      have hq' : q' < A.n := Nat.lt_trans hlt hq
      obtain ⟨S, hS, hiff⟩ := ih q' hlt hq'
      obtain ⟨⟨jt, hj, hx⟩, _, hcl⟩ := ok.entry q' hq' X q hm
      obtain ⟨rl, hr, hx'⟩ := rhsOf_get.mp hx
      refine ⟨_, Canon.step S X hS ⟨⟨jt.r, jt.d + 1⟩, jt.r, jt.d, rl, rfl, hr, hx', (hiff _).mp hj⟩, ?_⟩
      intro it
      exact (hcl it).trans (Canon.ext_state hiff it)

theorem C09_canonical_states {G : Grammar} {A : Auto} (ok : CanonOK G A) :
    ∀ S, Canon G S → ∃ q, q < A.n ∧ ∀ it, it ∈ A.its q ↔ S it := by
  intro S h
  induction h with
  | start => exact ⟨0, ok.npos, ok.s0⟩
  | step S X _ hne ih =>
    obtain ⟨q, hq, hiff⟩ := ih
    obtain ⟨_, r, d, rl, _, hr, hx, hs⟩ := hne
    have hmem : (⟨r, d⟩ : Item) ∈ A.its q := (hiff _).mpr hs
    obtain ⟨⟨X', p⟩, he, hX⟩ := ok.gotoC q hq ⟨r, d⟩ hmem X (rhsOf_get.mpr ⟨rl, hr, hx⟩)
    simp only at hX
    subst hX
    obtain ⟨_, hp, hcl⟩ := ok.entry q hq X' p he
    exact ⟨p, hp, fun it => (hcl it).trans (Canon.ext_state hiff it)⟩

/-- **C09.** An automaton that passes `certCanon` is the canonical LR(0) collection. -/
theorem C09_canonical (G : Grammar) (A : Auto) (h : certCanon G A = true) :
    -- every state is a canonical set
    (∀ q, q < A.n → ∃ S, Canon G S ∧ ∀ it, it ∈ A.its q ↔ S it) ∧
    -- every canonical set is a state
    (∀ S, Canon G S → ∃ q, q < A.n ∧ ∀ it, it ∈ A.its q ↔ S it) ∧
    -- no duplicates
    (∀ q p, q < A.n → p < A.n → (∀ it, it ∈ A.its q ↔ it ∈ A.its p) → q = p) ∧
    -- state 0 is the start state
    (∀ it, it ∈ A.its 0 ↔ Cl0 G (fun x => x = ⟨0, 0⟩) it) ∧
    -- transitions: exactly on the symbols after a dot, to the closure of the advanced items
    (∀ q X, q < A.n →
      ((∃ it ∈ A.its q, (G.rhsOf it.r)[it.d]? = some X) ↔ ∃ p, A.goto q X = some p)) ∧
    (∀ q X p, q < A.n → A.goto q X = some p →
      p < A.n ∧ ∀ it, it ∈ A.its p ↔ Cl0 G (adv0 G X (fun x => x ∈ A.its q)) it) := by
  have ok := certCanon_ok h
  refine ⟨C09_states_canonical ok, C09_canonical_states ok, ?_, ok.s0, ?_, ?_⟩
  · intro q p hq hp hsame
    rcases Nat.lt_trichotomy q p with hlt | heq | hgt
    · exact absurd (fun it => (hsame it).symm) (ok.distinct p q hlt hp)
    · exact heq
    · exact absurd hsame (ok.distinct q p hgt hq)
  · intro q X hq
    constructor
    · rintro ⟨it, hit, hx⟩
      exact Auto.goto_of_mem (ok.gotoC q hq it hit X hx)
    · rintro ⟨p, hg⟩
      exact (ok.entry q hq X p (Auto.goto_mem hg)).1
  · intro q X p hq hg
    exact (ok.entry q hq X p (Auto.goto_mem hg)).2

/-- Data-level hygiene also established by the certificate: the goto list of a state mentions each
    symbol once (so `A.goto` loses no entry), every entry is a genuine transition, item lists are
    duplicate-free, and every state other than 0 is entered from an earlier state. -/
theorem C09_hygiene (G : Grammar) (A : Auto) (h : certCanon G A = true) :
    A.gotos.length = A.n ∧
    (∀ q, q < A.n → ((A.gts q).map Prod.fst).Nodup) ∧
    (∀ q X p, q < A.n → ((X, p) ∈ A.gts q ↔ A.goto q X = some p)) ∧
    (∀ q, q < A.n → (A.its q).Nodup) ∧
    (∀ p, p < A.n → p ≠ 0 → ∃ q X, q < p ∧ A.goto q X = some p) := by
  have ok := certCanon_ok h
  have hent : ∀ q X p, q < A.n → ((X, p) ∈ A.gts q ↔ A.goto q X = some p) := by
    intro q X p hq
    constructor
    · intro hm
      obtain ⟨p', hg⟩ := Auto.goto_of_mem (A := A) (q := q) (X := X) ⟨(X, p), hm, rfl⟩
      have hm' := Auto.goto_mem hg
      have hnd := ok.symsNodup q hq
      -- two entries with the same symbol in a list with distinct symbols coincide
      have : ∀ (l : List (Sym × Nat)), (l.map Prod.fst).Nodup → (X, p) ∈ l → (X, p') ∈ l → p = p' := by
        intro l
        induction l with
        | nil => intro _ h1; cases h1
        | cons e l ih =>
          intro hnd h1 h2
          simp only [List.map_cons, List.nodup_cons, List.mem_map, not_exists, not_and] at hnd
          rcases List.mem_cons.mp h1 with e1 | m1 <;> rcases List.mem_cons.mp h2 with e2 | m2
          · rw [← e1] at e2; cases e2; rfl
          · exact absurd (by rw [← e1]) (hnd.1 (X, p') m2)
          · exact absurd (by rw [← e2]) (hnd.1 (X, p) m1)
          · exact ih hnd.2 m1 m2
      rw [this _ hnd hm hm']; exact hg
    · exact Auto.goto_mem
  refine ⟨ok.glen, ok.symsNodup, hent, ok.itemsNodup, ?_⟩
  intro p hp hp0
  obtain ⟨q, hlt, X, hm⟩ := ok.reach p hp hp0
  exact ⟨q, X, hlt, (hent q X p (Nat.lt_trans hlt hp)).mp hm⟩

/-! ## Non-vacuity: the automaton of `S' → S ; S → a S | b` (from C01) passes the certificate;
    an automaton with a missing state, a duplicated state, or a wrong closure does not. -/

example : certCanon exG exA = true := by decide

example : closureL exG [⟨0, 0⟩] = some [⟨0, 0⟩, ⟨1, 0⟩, ⟨2, 0⟩] := by decide

/-- dropping the closure item `⟨2,0⟩` from state 2 is detected -/
example : certCanon exG { exA with items := exA.items.set 2 [⟨1, 0⟩, ⟨1, 1⟩] } = false := by decide

/-- an extra (unreachable, duplicate) copy of state 3 is detected -/
example : certCanon exG { items := exA.items ++ [[⟨2, 1⟩]], gotos := exA.gotos ++ [[]] } = false := by
  decide

/-- a missing transition is detected -/
example : certCanon exG { exA with gotos := exA.gotos.set 2 [(2, 2), (4, 4)] } = false := by decide

end Y.Props
