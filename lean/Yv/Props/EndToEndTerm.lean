import Yv.Props.EndToEnd
import Yv.Props.C06c
/-! # End to end, termination: the TEXT of the generated Go parser halts on the packed arrays

`EndToEnd.lean` says what the interpreted `Parser` text can NOT end in (`crash`, `return nil`) and
what a returned value means — for every bound `fuel` on the number of loop iterations; the
interpreter answers `Res.outOfFuel` when that bound is used up, and nothing there excludes that
answer.  `C06c.lean` proves that the list driver halts on every table passing the decidable
certificate `Y.Term.certTerm`.  Here the two are composed.

**How the fuels are related.**  `fuel` of `goParserGlobal … fuel` (`GoSem.invoke`) bounds the number
of iterations of the `for` loop of `Parser` (the bodies of `Push`/`Pop`/`Action` are loop-free); one
iteration is one `astep` (`step_global_eq`), one `astep` is one `step` of the list driver
(`astep_refines`).  So `parser_global_eq`/`C08_global` relate the interpreter and `run` at the SAME
fuel, `toOutcome … .outOfFuel = Res.outOfFuel`, and the fuel bound `termBound F |w|` of
`C06_terminates_bound` is, unchanged, a bound on the loop iterations of the generated text.

* `arun_alast_mono`, `goParserGlobal_mono`, `goParserObject_mono`: once the interpreted `Parser`
  has ended with anything but `outOfFuel`, a larger iteration bound gives the same result (for all
  parameters and all start stacks).
* `C06_end_to_end_terminates_global/object`: for every valid input there is a bound
  `fuel ≤ termBound F |w|` with which the `Parser` text on the packed arrays does not run out of
  fuel, does not crash, does not `return nil`, and ends by `return &v` or by the grammar-error panic
  at the offending token; every larger bound gives the same result.
* `…_go`: the same with the lookup performed by the translated `Action` text.
* `C06_end_to_end_decides_global/object` (+ `_go`): for LALR(1) grammars that bound makes the text a
  decision procedure: for every `fuel' ≥ fuel`, a value is returned iff the input is a sentence
  (`GenL G [S₀] w`, the predicate of `C02_end_to_end_*`), then with a rightmost derivation, and
  otherwise the grammar error is reported with `req + |rest| = |w| + 1`.
* Non-vacuity: `exG`/`exT` (`ex_terminates`, `ex_decides`). -/
namespace Y.Props
open Y Y.D Y.GT Y.AD GoSem C08b Y.Term
open Core (Action)

theorem termBound_eq (F len : Nat) : termBound F len = (len + 1) * (1 + len * F) * F := rfl

/-! ## 0. a halted `Parser` is stable under more loop fuel -/

/-- the array driver: once halted, more fuel changes neither the outcome nor the last loop head -/
theorem arun_alast_mono {V : Type} (P : Params V) : ∀ (fuel : Nat) (c : ACfg V),
    arun P fuel c ≠ .outOfFuel → ∀ fuel', fuel ≤ fuel' →
      arun P fuel' c = arun P fuel c ∧ alast P fuel' c = alast P fuel c
  | 0, _, h, _, _ => absurd rfl h
  | k + 1, c, h, k', hk => by
    obtain ⟨j, rfl⟩ : ∃ j, k' = j + 1 := ⟨k' - 1, by omega⟩
    simp only [arun, alast] at h ⊢
    cases hs : astep P c with
    | next c' =>
      simp only [hs] at h ⊢
      exact arun_alast_mono P k c' h j (by omega)
    | acc v c' => exact ⟨rfl, rfl⟩
    | err c' => exact ⟨rfl, rfl⟩
    | crash => exact ⟨rfl, rfl⟩
    | nil => exact ⟨rfl, rfl⟩

theorem toOutcome_outOfFuel {V : Type} {eofVal : V} {env : List (Gen.Id × Val V)} {cl : ACfg V}
    {o : AOutcome V} (h : toOutcome eofVal env cl o ≠ .outOfFuel) : o ≠ .outOfFuel := by
  intro e; rw [e] at h; exact h rfl

/-- the translated `Parser` of the global template (any parameters, any start stack): an answer
    other than `outOfFuel` is the answer for every larger bound on the loop iterations -/
theorem goParserGlobal_mono {V : Type} (P : Params V) (zeroV : V) (fuel : Nat) (s : AStack V)
    (w : List (Sym × V)) (env : List (Gen.Id × Val V))
    (h : goParserGlobal P zeroV fuel s w env ≠ .outOfFuel) (fuel' : Nat) (hf : fuel ≤ fuel') :
    goParserGlobal P zeroV fuel' s w env = goParserGlobal P zeroV fuel s w env := by
  unfold goParserGlobal at h ⊢
  rw [parser_global_eq] at h
  rw [parser_global_eq, parser_global_eq]
  obtain ⟨h1, h2⟩ := arun_alast_mono P fuel _ (toOutcome_outOfFuel h) fuel' hf
  rw [h1, h2]

theorem goParserObject_mono {V : Type} (P : Params V) (zeroV : V) (fuel : Nat) (s : AStack V)
    (w : List (Sym × V)) (env : List (Gen.Id × Val V))
    (h : goParserObject P zeroV fuel s w env ≠ .outOfFuel) (fuel' : Nat) (hf : fuel ≤ fuel') :
    goParserObject P zeroV fuel' s w env = goParserObject P zeroV fuel s w env := by
  unfold goParserObject at h ⊢
  rw [parser_object_eq] at h
  rw [parser_object_eq, parser_object_eq]
  obtain ⟨h1, h2⟩ := arun_alast_mono P fuel _ (toOutcome_outOfFuel h) fuel' hf
  rw [h1, h2]

section pipeline
variable {V : Type} (res : Action → Action → Action) (hR : ResSel res)
  (G : Grammar) (nS : Nat) (P : PrecData) (A : Auto) (t : LATab)
  (sem : Nat → List V → V) (eofVal bv zeroV : V)
  (hG : gramWF G nS = true) (hB : buildL G = some A) (hLa : laL G nS A = some t)
include hR hG hB hLa

/-! ## 1. from the composition statement to termination -/

/-- from the composition statement (`parser_packed_*`) and the termination certificate: within
    `termBound F |w|` loop iterations the call ends, by `return &v` or by the grammar-error panic -/
theorem term_of_outcome (F : Nat)
    (hF : certTerm G (genTableL res G nS P A t) A.n F = true)
    (w : List (Sym × V)) (hw : ∀ x ∈ w, x.1 ≤ G.nT ∧ x.1 ≠ 1)
    (env : List (Gen.Id × Val V)) (r : Nat → Res V)
    (hr : ∀ fuel, ∃ o cl, r fuel = toOutcome eofVal env cl o ∧
      absOutcome o = some (run (dparams G (genTableL res G nS P A t) A.n sem eofVal) fuel (init bv w))) :
    ∃ fuel, fuel ≤ termBound F w.length ∧
      ((∃ v m, r fuel = .ret (.val v) m) ∨
       ∃ c, r fuel = .err (withEnv env (toM eofVal c)) ∧ c.req + c.rest.length = w.length + 1) := by
  obtain ⟨fuel, hle, hfuel⟩ := C06_terminates_bound G (genTableL res G nS P A t) A.n sem eofVal bv F hF w
  obtain ⟨o, cl, ho, habs⟩ := hr fuel
  obtain ⟨hnc, herr⟩ := C06_pipeline res hR G nS P A t sem eofVal bv hG hB hLa w hw fuel
  refine ⟨fuel, hle, ?_⟩
  cases o with
  | accept v c => exact .inl ⟨v, _, ho⟩
  | syntaxError c =>
    simp only [absOutcome, Option.some.injEq] at habs
    exact .inr ⟨c, ho, herr (absCfg c) habs.symm⟩
  | crash =>
    simp only [absOutcome, Option.some.injEq] at habs
    exact absurd habs.symm hnc
  | outOfFuel =>
    simp only [absOutcome, Option.some.injEq] at habs
    exact absurd habs.symm hfuel
  | nil => simp [absOutcome] at habs

/-- the shape of the conclusions below, for a family `r fuel` of results that is stable once
    halted: the halting bound, what the result is not, what it is, and stability -/
theorem terminates_of_outcome (F : Nat)
    (hF : certTerm G (genTableL res G nS P A t) A.n F = true)
    (w : List (Sym × V)) (hw : ∀ x ∈ w, x.1 ≤ G.nT ∧ x.1 ≠ 1)
    (env : List (Gen.Id × Val V)) (r : Nat → Res V)
    (hr : ∀ fuel, ∃ o cl, r fuel = toOutcome eofVal env cl o ∧
      absOutcome o = some (run (dparams G (genTableL res G nS P A t) A.n sem eofVal) fuel (init bv w)))
    (hmono : ∀ fuel, r fuel ≠ .outOfFuel → ∀ fuel', fuel ≤ fuel' → r fuel' = r fuel) :
    ∃ fuel, fuel ≤ termBound F w.length ∧
      r fuel ≠ .outOfFuel ∧ r fuel ≠ .crash ∧ (∀ m, r fuel ≠ .ret .nil m) ∧
      ((∃ v m, r fuel = .ret (.val v) m) ∨
       ∃ c, r fuel = .err (withEnv env (toM eofVal c)) ∧ c.req + c.rest.length = w.length + 1) ∧
      ∀ fuel', fuel ≤ fuel' → r fuel' = r fuel := by
  obtain ⟨fuel, hle, hd⟩ :=
    term_of_outcome res hR G nS P A t sem eofVal bv hG hB hLa F hF w hw env r hr
  have hne : r fuel ≠ .outOfFuel ∧ r fuel ≠ .crash ∧ ∀ m, r fuel ≠ .ret .nil m := by
    rcases hd with ⟨v, m, h⟩ | ⟨c, h, -⟩ <;> rw [h] <;> simp
  exact ⟨fuel, hle, hne.1, hne.2.1, hne.2.2, hd, hmono fuel hne.1⟩

/-- … and with the LALR(1) hypothesis: the stable result is a value exactly for the sentences -/
theorem decides_of_outcome
    (hM : maxCandsL G nS P A t ≤ 1) (S₀ : Sym) (h0 : G.rules[0]? = some ⟨0, [S₀]⟩) (F : Nat)
    (hF : certTerm G (genTableL res G nS P A t) A.n F = true)
    (w : List (Sym × V)) (hwT : ∀ x ∈ w, G.isT x.1 = true ∧ x.1 ≠ 1)
    (env : List (Gen.Id × Val V)) (r : Nat → Res V)
    (hr : ∀ fuel, ∃ o cl, r fuel = toOutcome eofVal env cl o ∧
      absOutcome o = some (run (dparams G (genTableL res G nS P A t) A.n sem eofVal) fuel (init bv w)))
    (hmono : ∀ fuel, r fuel ≠ .outOfFuel → ∀ fuel', fuel ≤ fuel' → r fuel' = r fuel) :
    ∃ fuel, fuel ≤ termBound F w.length ∧ ∀ fuel', fuel ≤ fuel' →
      ((∃ v m, r fuel' = .ret (.val v) m) ↔ GenL G [S₀] (w.map Prod.fst)) ∧
      (GenL G [S₀] (w.map Prod.fst) → ∃ v m, r fuel' = .ret (.val v) m ∧
        RmDer G [S₀] m.reds (w.map Prod.fst) ∧ m.input = [] ∧ m.req = w.length + 1) ∧
      (¬ GenL G [S₀] (w.map Prod.fst) → ∃ c, r fuel' = .err (withEnv env (toM eofVal c)) ∧
        c.req + c.rest.length = w.length + 1) := by
  have hw : ∀ x ∈ w, x.1 ≤ G.nT ∧ x.1 ≠ 1 := fun x hx => ⟨(isT_pos (hwT x hx).1).2, (hwT x hx).2⟩
  have h02 := C02_of_outcome res hR G nS P A t sem eofVal bv hG hB hLa hM S₀ h0 w hwT env r hr
  obtain ⟨fuel, hle, hd⟩ :=
    term_of_outcome res hR G nS P A t sem eofVal bv hG hB hLa F hF w hw env r hr
  refine ⟨fuel, hle, ?_⟩
  intro fuel' hf
  rcases hd with ⟨v, m, h⟩ | ⟨c, h, hc⟩
  · -- a value: the input is a sentence
    have hst : r fuel' = .ret (.val v) m := by
      rw [hmono fuel (by rw [h]; simp) fuel' hf, h]
    have hgen : GenL G [S₀] (w.map Prod.fst) := h02.mp ⟨fuel, v, m, h⟩
    refine ⟨⟨fun _ => hgen, fun _ => ⟨v, m, hst⟩⟩, fun _ => ?_, fun hn => absurd hgen hn⟩
    obtain ⟨rl0, hr0, -, hder, hin, hreq⟩ :=
      C01_of_outcome res hR G nS P A t sem eofVal bv hG hB hLa w hw fuel' env (r fuel') (hr fuel') v m hst
    rw [h0] at hr0
    cases hr0
    exact ⟨v, m, hst, hder, hin, hreq⟩
  · -- the grammar error: the input is not a sentence
    have hst : r fuel' = .err (withEnv env (toM eofVal c)) := by
      rw [hmono fuel (by rw [h]; simp) fuel' hf, h]
    have hngen : ¬ GenL G [S₀] (w.map Prod.fst) := by
      intro hgen
      obtain ⟨f2, v, m, h2⟩ := h02.mpr hgen
      have e1 := hmono fuel (by rw [h]; simp) (max fuel f2) (Nat.le_max_left _ _)
      have e2 := hmono f2 (by rw [h2]; simp) (max fuel f2) (Nat.le_max_right _ _)
      rw [e1, h, h2] at e2
      cases e2
    refine ⟨⟨fun ⟨v, m, hv⟩ => ?_, fun hgen => absurd hgen hngen⟩, fun hgen => absurd hgen hngen,
      fun _ => ⟨c, hst, hc⟩⟩
    rw [hst] at hv
    cases hv

variable (hW : SplitA.DenseWF (genTableL res G nS P A t) G.nT nS (errCode A.n) = true)
include hW

/-! ## 2. C06: the generated text halts -/

/-- **C06, end to end, termination (global template).**  For every well-formed grammar for which
    the verified generators return, whose table meets `DenseWF` and passes the termination
    certificate with `F` moves: for every valid input `w` there is a bound
    `fuel ≤ termBound F |w| = (|w|+1)·(1+|w|·F)·F` on the loop iterations with which the translated
    `Parser`, run on the packed arrays, is NOT out of fuel; it did not panic at run time and did not
    `return nil`; it ended by `return &v` or by `panic("Grammar error …")`, the latter exactly at
    the offending token; and every larger bound gives the same result. -/
theorem C06_end_to_end_terminates_global (F : Nat)
    (hF : certTerm G (genTableL res G nS P A t) A.n F = true)
    (w : List (Sym × V)) (hw : ∀ x ∈ w, x.1 ≤ G.nT ∧ x.1 ≠ 1)
    (env : List (Gen.Id × Val V)) :
    ∃ fuel, fuel ≤ termBound F w.length ∧
      goParserGlobal (pparams G (genTableL res G nS P A t) A.n sem eofVal) zeroV fuel (initGlobal bv) w env
        ≠ .outOfFuel ∧
      goParserGlobal (pparams G (genTableL res G nS P A t) A.n sem eofVal) zeroV fuel (initGlobal bv) w env
        ≠ .crash ∧
      (∀ m, goParserGlobal (pparams G (genTableL res G nS P A t) A.n sem eofVal) zeroV fuel (initGlobal bv) w env
        ≠ .ret .nil m) ∧
      ((∃ v m, goParserGlobal (pparams G (genTableL res G nS P A t) A.n sem eofVal) zeroV fuel (initGlobal bv) w env
          = .ret (.val v) m) ∨
       ∃ c, goParserGlobal (pparams G (genTableL res G nS P A t) A.n sem eofVal) zeroV fuel (initGlobal bv) w env
          = .err (withEnv env (toM eofVal c)) ∧ c.req + c.rest.length = w.length + 1) ∧
      ∀ fuel', fuel ≤ fuel' →
        goParserGlobal (pparams G (genTableL res G nS P A t) A.n sem eofVal) zeroV fuel' (initGlobal bv) w env
          = goParserGlobal (pparams G (genTableL res G nS P A t) A.n sem eofVal) zeroV fuel (initGlobal bv) w env :=
  terminates_of_outcome res hR G nS P A t sem eofVal bv hG hB hLa F hF w hw env _
    (fun fuel => parser_packed_global res hR G nS P A t sem eofVal bv zeroV hG hB hLa hW w hw fuel env)
    (fun fuel h fuel' hf => goParserGlobal_mono _ zeroV fuel _ w env h fuel' hf)

/-- **C06, end to end, termination (object template, new context).** -/
theorem C06_end_to_end_terminates_object (F : Nat)
    (hF : certTerm G (genTableL res G nS P A t) A.n F = true)
    (w : List (Sym × V)) (hw : ∀ x ∈ w, x.1 ≤ G.nT ∧ x.1 ≠ 1)
    (env : List (Gen.Id × Val V)) :
    ∃ fuel, fuel ≤ termBound F w.length ∧
      goParserObject (pparams G (genTableL res G nS P A t) A.n sem eofVal) zeroV fuel (initCtx emptyStack bv) w env
        ≠ .outOfFuel ∧
      goParserObject (pparams G (genTableL res G nS P A t) A.n sem eofVal) zeroV fuel (initCtx emptyStack bv) w env
        ≠ .crash ∧
      (∀ m, goParserObject (pparams G (genTableL res G nS P A t) A.n sem eofVal) zeroV fuel (initCtx emptyStack bv) w env
        ≠ .ret .nil m) ∧
      ((∃ v m, goParserObject (pparams G (genTableL res G nS P A t) A.n sem eofVal) zeroV fuel (initCtx emptyStack bv) w env
          = .ret (.val v) m) ∨
       ∃ c, goParserObject (pparams G (genTableL res G nS P A t) A.n sem eofVal) zeroV fuel (initCtx emptyStack bv) w env
          = .err (withEnv env (toM eofVal c)) ∧ c.req + c.rest.length = w.length + 1) ∧
      ∀ fuel', fuel ≤ fuel' →
        goParserObject (pparams G (genTableL res G nS P A t) A.n sem eofVal) zeroV fuel' (initCtx emptyStack bv) w env
          = goParserObject (pparams G (genTableL res G nS P A t) A.n sem eofVal) zeroV fuel (initCtx emptyStack bv) w env :=
  terminates_of_outcome res hR G nS P A t sem eofVal bv hG hB hLa F hF w hw env _
    (fun fuel => parser_packed_object res hR G nS P A t sem eofVal bv zeroV hG hB hLa hW w hw fuel env)
    (fun fuel h fuel' hf => goParserObject_mono _ zeroV fuel _ w env h fuel' hf)

/-- **termination for the generated text, `Parser` AND `Action` (global template)** -/
theorem C06_end_to_end_terminates_global_go (F : Nat)
    (hF : certTerm G (genTableL res G nS P A t) A.n F = true)
    (w : List (Sym × V)) (hw : ∀ x ∈ w, x.1 ≤ G.nT ∧ x.1 ≠ 1)
    (env : List (Gen.Id × Val V)) :
    ∃ fuel, fuel ≤ termBound F w.length ∧
      goParserGlobal (pparamsGo G (genTableL res G nS P A t) A.n sem eofVal) zeroV fuel (initGlobal bv) w env
        ≠ .outOfFuel ∧
      goParserGlobal (pparamsGo G (genTableL res G nS P A t) A.n sem eofVal) zeroV fuel (initGlobal bv) w env
        ≠ .crash ∧
      (∀ m, goParserGlobal (pparamsGo G (genTableL res G nS P A t) A.n sem eofVal) zeroV fuel (initGlobal bv) w env
        ≠ .ret .nil m) ∧
      ((∃ v m, goParserGlobal (pparamsGo G (genTableL res G nS P A t) A.n sem eofVal) zeroV fuel (initGlobal bv) w env
          = .ret (.val v) m) ∨
       ∃ c, goParserGlobal (pparamsGo G (genTableL res G nS P A t) A.n sem eofVal) zeroV fuel (initGlobal bv) w env
          = .err (withEnv env (toM eofVal c)) ∧ c.req + c.rest.length = w.length + 1) ∧
      ∀ fuel', fuel ≤ fuel' →
        goParserGlobal (pparamsGo G (genTableL res G nS P A t) A.n sem eofVal) zeroV fuel' (initGlobal bv) w env
          = goParserGlobal (pparamsGo G (genTableL res G nS P A t) A.n sem eofVal) zeroV fuel (initGlobal bv) w env := by
  rw [pparamsGo_eq]
  exact C06_end_to_end_terminates_global res hR G nS P A t sem eofVal bv zeroV hG hB hLa hW F hF w hw env

/-- **termination for the generated text, `Parser` AND `Action` (object template)** -/
theorem C06_end_to_end_terminates_object_go (F : Nat)
    (hF : certTerm G (genTableL res G nS P A t) A.n F = true)
    (w : List (Sym × V)) (hw : ∀ x ∈ w, x.1 ≤ G.nT ∧ x.1 ≠ 1)
    (env : List (Gen.Id × Val V)) :
    ∃ fuel, fuel ≤ termBound F w.length ∧
      goParserObject (pparamsGoObj G (genTableL res G nS P A t) A.n sem eofVal) zeroV fuel (initCtx emptyStack bv) w env
        ≠ .outOfFuel ∧
      goParserObject (pparamsGoObj G (genTableL res G nS P A t) A.n sem eofVal) zeroV fuel (initCtx emptyStack bv) w env
        ≠ .crash ∧
      (∀ m, goParserObject (pparamsGoObj G (genTableL res G nS P A t) A.n sem eofVal) zeroV fuel (initCtx emptyStack bv) w env
        ≠ .ret .nil m) ∧
      ((∃ v m, goParserObject (pparamsGoObj G (genTableL res G nS P A t) A.n sem eofVal) zeroV fuel (initCtx emptyStack bv) w env
          = .ret (.val v) m) ∨
       ∃ c, goParserObject (pparamsGoObj G (genTableL res G nS P A t) A.n sem eofVal) zeroV fuel (initCtx emptyStack bv) w env
          = .err (withEnv env (toM eofVal c)) ∧ c.req + c.rest.length = w.length + 1) ∧
      ∀ fuel', fuel ≤ fuel' →
        goParserObject (pparamsGoObj G (genTableL res G nS P A t) A.n sem eofVal) zeroV fuel' (initCtx emptyStack bv) w env
          = goParserObject (pparamsGoObj G (genTableL res G nS P A t) A.n sem eofVal) zeroV fuel (initCtx emptyStack bv) w env := by
  rw [pparamsGoObj_eq]
  exact C06_end_to_end_terminates_object res hR G nS P A t sem eofVal bv zeroV hG hB hLa hW F hF w hw env

/-! ## 3. C01 + C02 + C06: for LALR(1) grammars the generated text DECIDES the language -/

/-- **The generated text is a decision procedure (global template).**  For every LALR(1) grammar
    (no table cell with two candidates) whose table meets `DenseWF` and passes the termination
    certificate, and every string `w` of terminals other than `$`: there is a bound
    `fuel ≤ termBound F |w|` such that for EVERY bound `fuel' ≥ fuel` on the loop iterations the
    translated `Parser` on the packed arrays returns a value iff `w` is a sentence — then after
    reductions that are a rightmost derivation of `w`, with all input consumed — and otherwise
    reports the grammar error with `req + |rest| = |w| + 1` (nothing requested from the lexer after
    the offending token). -/
theorem C06_end_to_end_decides_global
    (hM : maxCandsL G nS P A t ≤ 1) (S₀ : Sym) (h0 : G.rules[0]? = some ⟨0, [S₀]⟩) (F : Nat)
    (hF : certTerm G (genTableL res G nS P A t) A.n F = true)
    (w : List (Sym × V)) (hwT : ∀ x ∈ w, G.isT x.1 = true ∧ x.1 ≠ 1)
    (env : List (Gen.Id × Val V)) :
    ∃ fuel, fuel ≤ termBound F w.length ∧ ∀ fuel', fuel ≤ fuel' →
      ((∃ v m, goParserGlobal (pparams G (genTableL res G nS P A t) A.n sem eofVal) zeroV fuel'
          (initGlobal bv) w env = .ret (.val v) m) ↔ GenL G [S₀] (w.map Prod.fst)) ∧
      (GenL G [S₀] (w.map Prod.fst) →
        ∃ v m, goParserGlobal (pparams G (genTableL res G nS P A t) A.n sem eofVal) zeroV fuel'
          (initGlobal bv) w env = .ret (.val v) m ∧
        RmDer G [S₀] m.reds (w.map Prod.fst) ∧ m.input = [] ∧ m.req = w.length + 1) ∧
      (¬ GenL G [S₀] (w.map Prod.fst) →
        ∃ c, goParserGlobal (pparams G (genTableL res G nS P A t) A.n sem eofVal) zeroV fuel'
          (initGlobal bv) w env = .err (withEnv env (toM eofVal c)) ∧
        c.req + c.rest.length = w.length + 1) :=
  have hw : ∀ x ∈ w, x.1 ≤ G.nT ∧ x.1 ≠ 1 := fun x hx => ⟨(isT_pos (hwT x hx).1).2, (hwT x hx).2⟩
  decides_of_outcome res hR G nS P A t sem eofVal bv hG hB hLa hM S₀ h0 F hF w hwT env _
    (fun fuel => parser_packed_global res hR G nS P A t sem eofVal bv zeroV hG hB hLa hW w hw fuel env)
    (fun fuel h fuel' hf => goParserGlobal_mono _ zeroV fuel _ w env h fuel' hf)

/-- **The generated text is a decision procedure (object template, new context).** -/
theorem C06_end_to_end_decides_object
    (hM : maxCandsL G nS P A t ≤ 1) (S₀ : Sym) (h0 : G.rules[0]? = some ⟨0, [S₀]⟩) (F : Nat)
    (hF : certTerm G (genTableL res G nS P A t) A.n F = true)
    (w : List (Sym × V)) (hwT : ∀ x ∈ w, G.isT x.1 = true ∧ x.1 ≠ 1)
    (env : List (Gen.Id × Val V)) :
    ∃ fuel, fuel ≤ termBound F w.length ∧ ∀ fuel', fuel ≤ fuel' →
      ((∃ v m, goParserObject (pparams G (genTableL res G nS P A t) A.n sem eofVal) zeroV fuel'
          (initCtx emptyStack bv) w env = .ret (.val v) m) ↔ GenL G [S₀] (w.map Prod.fst)) ∧
      (GenL G [S₀] (w.map Prod.fst) →
        ∃ v m, goParserObject (pparams G (genTableL res G nS P A t) A.n sem eofVal) zeroV fuel'
          (initCtx emptyStack bv) w env = .ret (.val v) m ∧
        RmDer G [S₀] m.reds (w.map Prod.fst) ∧ m.input = [] ∧ m.req = w.length + 1) ∧
      (¬ GenL G [S₀] (w.map Prod.fst) →
        ∃ c, goParserObject (pparams G (genTableL res G nS P A t) A.n sem eofVal) zeroV fuel'
          (initCtx emptyStack bv) w env = .err (withEnv env (toM eofVal c)) ∧
        c.req + c.rest.length = w.length + 1) :=
  have hw : ∀ x ∈ w, x.1 ≤ G.nT ∧ x.1 ≠ 1 := fun x hx => ⟨(isT_pos (hwT x hx).1).2, (hwT x hx).2⟩
  decides_of_outcome res hR G nS P A t sem eofVal bv hG hB hLa hM S₀ h0 F hF w hwT env _
    (fun fuel => parser_packed_object res hR G nS P A t sem eofVal bv zeroV hG hB hLa hW w hw fuel env)
    (fun fuel h fuel' hf => goParserObject_mono _ zeroV fuel _ w env h fuel' hf)

/-- **decision procedure, `Parser` AND `Action` text (global template)** -/
theorem C06_end_to_end_decides_global_go
    (hM : maxCandsL G nS P A t ≤ 1) (S₀ : Sym) (h0 : G.rules[0]? = some ⟨0, [S₀]⟩) (F : Nat)
    (hF : certTerm G (genTableL res G nS P A t) A.n F = true)
    (w : List (Sym × V)) (hwT : ∀ x ∈ w, G.isT x.1 = true ∧ x.1 ≠ 1)
    (env : List (Gen.Id × Val V)) :
    ∃ fuel, fuel ≤ termBound F w.length ∧ ∀ fuel', fuel ≤ fuel' →
      ((∃ v m, goParserGlobal (pparamsGo G (genTableL res G nS P A t) A.n sem eofVal) zeroV fuel'
          (initGlobal bv) w env = .ret (.val v) m) ↔ GenL G [S₀] (w.map Prod.fst)) ∧
      (GenL G [S₀] (w.map Prod.fst) →
        ∃ v m, goParserGlobal (pparamsGo G (genTableL res G nS P A t) A.n sem eofVal) zeroV fuel'
          (initGlobal bv) w env = .ret (.val v) m ∧
        RmDer G [S₀] m.reds (w.map Prod.fst) ∧ m.input = [] ∧ m.req = w.length + 1) ∧
      (¬ GenL G [S₀] (w.map Prod.fst) →
        ∃ c, goParserGlobal (pparamsGo G (genTableL res G nS P A t) A.n sem eofVal) zeroV fuel'
          (initGlobal bv) w env = .err (withEnv env (toM eofVal c)) ∧
        c.req + c.rest.length = w.length + 1) := by
  rw [pparamsGo_eq]
  exact C06_end_to_end_decides_global res hR G nS P A t sem eofVal bv zeroV hG hB hLa hW hM S₀ h0 F hF w hwT env

/-- **decision procedure, `Parser` AND `Action` text (object template)** -/
theorem C06_end_to_end_decides_object_go
    (hM : maxCandsL G nS P A t ≤ 1) (S₀ : Sym) (h0 : G.rules[0]? = some ⟨0, [S₀]⟩) (F : Nat)
    (hF : certTerm G (genTableL res G nS P A t) A.n F = true)
    (w : List (Sym × V)) (hwT : ∀ x ∈ w, G.isT x.1 = true ∧ x.1 ≠ 1)
    (env : List (Gen.Id × Val V)) :
    ∃ fuel, fuel ≤ termBound F w.length ∧ ∀ fuel', fuel ≤ fuel' →
      ((∃ v m, goParserObject (pparamsGoObj G (genTableL res G nS P A t) A.n sem eofVal) zeroV fuel'
          (initCtx emptyStack bv) w env = .ret (.val v) m) ↔ GenL G [S₀] (w.map Prod.fst)) ∧
      (GenL G [S₀] (w.map Prod.fst) →
        ∃ v m, goParserObject (pparamsGoObj G (genTableL res G nS P A t) A.n sem eofVal) zeroV fuel'
          (initCtx emptyStack bv) w env = .ret (.val v) m ∧
        RmDer G [S₀] m.reds (w.map Prod.fst) ∧ m.input = [] ∧ m.req = w.length + 1) ∧
      (¬ GenL G [S₀] (w.map Prod.fst) →
        ∃ c, goParserObject (pparamsGoObj G (genTableL res G nS P A t) A.n sem eofVal) zeroV fuel'
          (initCtx emptyStack bv) w env = .err (withEnv env (toM eofVal c)) ∧
        c.req + c.rest.length = w.length + 1) := by
  rw [pparamsGoObj_eq]
  exact C06_end_to_end_decides_object res hR G nS P A t sem eofVal bv zeroV hG hB hLa hW hM S₀ h0 F hF w hwT env

end pipeline

/-! ## 4. Non-vacuity: `S' → S ; S → a S | b` (`exG`, table `exT`, 5 states, `F = 3`) -/

/-- the termination certificate of the pipeline's table for `exG` -/
theorem ex_certTerm : certTerm exG exT 5 3 = true := by decide

/-- **instance of `C06_end_to_end_terminates_global_go`**: on every input over the codes
    `0, 2, 3` (unknown, `a`, `b`) the generated text (`Parser` and `Action` of the global
    template) on the packed arrays of `exT` halts within `(|w|+1)·(1+3|w|)·3` loop iterations, by
    `return &v` or by the grammar-error panic -/
theorem ex_terminates (w : List (Sym × Unit)) (hw : ∀ x ∈ w, x.1 ≤ 3 ∧ x.1 ≠ 1)
    (env : List (Gen.Id × Val Unit)) :
    ∃ fuel, fuel ≤ (w.length + 1) * (1 + w.length * 3) * 3 ∧
      goParserGlobal (pparamsGo exG exT 5 (fun _ _ => ()) ()) () fuel (initGlobal ()) w env ≠ .outOfFuel ∧
      goParserGlobal (pparamsGo exG exT 5 (fun _ _ => ()) ()) () fuel (initGlobal ()) w env ≠ .crash ∧
      (∀ m, goParserGlobal (pparamsGo exG exT 5 (fun _ _ => ()) ()) () fuel (initGlobal ()) w env
        ≠ .ret .nil m) ∧
      ((∃ v m, goParserGlobal (pparamsGo exG exT 5 (fun _ _ => ()) ()) () fuel (initGlobal ()) w env
          = .ret (.val v) m) ∨
       ∃ c, goParserGlobal (pparamsGo exG exT 5 (fun _ _ => ()) ()) () fuel (initGlobal ()) w env
          = .err (withEnv env (toM () c)) ∧ c.req + c.rest.length = w.length + 1) ∧
      ∀ fuel', fuel ≤ fuel' →
        goParserGlobal (pparamsGo exG exT 5 (fun _ _ => ()) ()) () fuel' (initGlobal ()) w env
          = goParserGlobal (pparamsGo exG exT 5 (fun _ _ => ()) ()) () fuel (initGlobal ()) w env := by
  obtain ⟨A, t, hB, hL, hT, hM, hn⟩ := ex_pipeline
  have hW : SplitA.DenseWF (genTableL Core.pairWinner exG 5 noPrec A t) exG.nT 5 (errCode A.n) = true := by
    rw [hT, hn]; exact ex_denseWF
  have hF : certTerm exG (genTableL Core.pairWinner exG 5 noPrec A t) A.n 3 = true := by
    rw [hT, hn]; exact ex_certTerm
  have := C06_end_to_end_terminates_global_go Core.pairWinner C01_pairWinner_sel exG 5 noPrec A t
    (fun _ _ => ()) () () () (by decide) hB hL hW 3 hF w hw env
  rw [hT, hn] at this
  exact this

/-- **instance of `C06_end_to_end_decides_global_go`**: for every string over `a` (2) and `b` (3)
    the generated text decides membership in the language of `exG` within the same bound -/
theorem ex_decides (w : List (Sym × Unit)) (hw : ∀ x ∈ w, x.1 = 2 ∨ x.1 = 3)
    (env : List (Gen.Id × Val Unit)) :
    ∃ fuel, fuel ≤ (w.length + 1) * (1 + w.length * 3) * 3 ∧ ∀ fuel', fuel ≤ fuel' →
      ((∃ v m, goParserGlobal (pparamsGo exG exT 5 (fun _ _ => ()) ()) () fuel'
          (initGlobal ()) w env = .ret (.val v) m) ↔ GenL exG [4] (w.map Prod.fst)) ∧
      (GenL exG [4] (w.map Prod.fst) →
        ∃ v m, goParserGlobal (pparamsGo exG exT 5 (fun _ _ => ()) ()) () fuel'
          (initGlobal ()) w env = .ret (.val v) m ∧
        RmDer exG [4] m.reds (w.map Prod.fst) ∧ m.input = [] ∧ m.req = w.length + 1) ∧
      (¬ GenL exG [4] (w.map Prod.fst) →
        ∃ c, goParserGlobal (pparamsGo exG exT 5 (fun _ _ => ()) ()) () fuel'
          (initGlobal ()) w env = .err (withEnv env (toM () c)) ∧
        c.req + c.rest.length = w.length + 1) := by
  obtain ⟨A, t, hB, hL, hT, hM, hn⟩ := ex_pipeline
  have hW : SplitA.DenseWF (genTableL Core.pairWinner exG 5 noPrec A t) exG.nT 5 (errCode A.n) = true := by
    rw [hT, hn]; exact ex_denseWF
  have hF : certTerm exG (genTableL Core.pairWinner exG 5 noPrec A t) A.n 3 = true := by
    rw [hT, hn]; exact ex_certTerm
  have hwT : ∀ x ∈ w, exG.isT x.1 = true ∧ x.1 ≠ 1 := by
    intro x hx
    rcases hw x hx with h | h <;> rw [h] <;> decide
  have := C06_end_to_end_decides_global_go Core.pairWinner C01_pairWinner_sel exG 5 noPrec A t
    (fun _ _ => ()) () () () (by decide) hB hL hW (by omega) 4 rfl 3 hF w hwT env
  rw [hT, hn] at this
  exact this

/-- the two outcomes occur: `a a b` is a sentence, `a a` is not, so by `ex_decides` the text returns
    a value on the first and reports the grammar error on the second, for every large enough bound;
    here the bound 20 is checked by direct evaluation (`exGo_eq`) -/
example : rview (goParserGlobal (pparamsGo exG exT 5 (fun _ _ => ()) ()) () 20
    (initGlobal ()) [(2, ()), (2, ()), (3, ())] []) = (0, [1, 1, 2], 4, 0) ∧
    rview (goParserGlobal (pparamsGo exG exT 5 (fun _ _ => ()) ()) () 20
    (initGlobal ()) [(2, ()), (2, ())] []) = (2, [], 3, 0) := by
  rw [exGo_eq]; exact ⟨by decide +kernel, by decide +kernel⟩

end Y.Props

#print axioms Y.Props.arun_alast_mono
#print axioms Y.Props.goParserGlobal_mono
#print axioms Y.Props.goParserObject_mono
#print axioms Y.Props.C06_end_to_end_terminates_global
#print axioms Y.Props.C06_end_to_end_terminates_object
#print axioms Y.Props.C06_end_to_end_terminates_global_go
#print axioms Y.Props.C06_end_to_end_terminates_object_go
#print axioms Y.Props.C06_end_to_end_decides_global
#print axioms Y.Props.C06_end_to_end_decides_object
#print axioms Y.Props.C06_end_to_end_decides_global_go
#print axioms Y.Props.C06_end_to_end_decides_object_go
#print axioms Y.Props.ex_certTerm
#print axioms Y.Props.ex_terminates
#print axioms Y.Props.ex_decides
