import Yv.Cert.Auto
/-! Model of the DOT view of the automaton (`LALR/LALRDraw.go: DrawGrammar`,
    `Grammar/drawItem.go: ItemToStr, StateGraphNode`, `Graph/Graph.go`).

    The graph is kept structured (`Dot`): per node its state number, the list of item strings (the
    cells of the record label), the list of reduce annotations (the second record of the label, added
    when non-empty) and whether the accept decoration (`style=filled` …) was added; per edge its two
    end points and the label.  `render` prints the label / DOT syntax.

    `names` is the spelling of a symbol as it appears in the graph
    (`EscapeDotGraph (RemoveTempName Symbols[i].Name)` in the implementation). -/
namespace Y

structure DotNode where
  state : Nat
  items : List String
  reduces : List String
  filled : Bool
deriving Repr, DecidableEq

structure DotEdge where
  src : Nat
  dst : Nat
  label : String
deriving Repr, DecidableEq

structure Dot where
  nodes : List DotNode
  edges : List DotEdge
deriving Repr, DecidableEq

/-! ## `ItemToStr` -/

/-- the loop of `ItemToStr` over the right-hand side, `i` = current index:
    `if index == It.Dot { res += "•" } ; res += " " + name` -/
def rhsStr (names : Nat → String) (d : Nat) : Nat → List Sym → String
  | _, [] => ""
  | i, x :: xs => (if i = d then "•" else "") ++ " " ++ names x ++ rhsStr names d (i + 1) xs

/-- `ItemToStr`: `lhs + "-\\>"`, then `ε` for an empty right-hand side, otherwise the symbols each
    preceded by a blank, with `•` in front of the blank of the symbol after the dot, or at the very
    end when the dot is at the right end -/
def itemStr (names : Nat → String) (G : Grammar) (it : Item) : String :=
  names (G.lhsOf it.r) ++ "-\\>" ++
    (if (G.rhsOf it.r).length = 0 then "ε"
     else rhsStr names it.d 0 (G.rhsOf it.r) ++ (if (G.rhsOf it.r).length = it.d then "•" else ""))

/-! ## the loop of `DrawGrammar` over the dense table -/

/-- what `DrawGrammar` does with one table cell (its if-chain, in its order) -/
inductive CellView where
  | edge (p : Nat)      -- `AddEdge(from = state, to = d)`
  | accept              -- the accept decoration of the node
  | reduce (r : Nat)    -- an annotation `name: reduce rule at -d`
  | blank
deriving Repr, DecidableEq

def classify (n : Nat) (d : Int) : CellView :=
  if d ≠ errCode n ∧ d ≠ accCode n ∧ 0 ≤ d then .edge d.toNat
  else if d = accCode n then .accept
  else if d < 0 then .reduce (-d).toNat
  else .blank

def CellView.edge? : CellView → Option Nat
  | .edge p => some p
  | _ => none
def CellView.reduce? : CellView → Option Nat
  | .reduce r => some r
  | _ => none
def CellView.accept? : CellView → Bool
  | .accept => true
  | _ => false

/-- the annotation string `fmt.Sprintf("%s: reduce rule at %d", name, -d)` -/
def redStr (names : Nat → String) (e : Sym × Nat) : String :=
  names e.1 ++ ": reduce rule at " ++ toString e.2

/-- edges contributed by row `q` (`for SymNum, d := range r`), in column order -/
def rowEdges (names : Nat → String) (n q : Nat) (row : List Int) : List DotEdge :=
  row.zipIdx.filterMap fun e => ((classify n e.1).edge?).map fun p => ⟨q, p, names e.2⟩

/-- the reduce cells of a row as (symbol, rule) pairs, in column order (`look`, before rendering) -/
def rowReducePairs (n : Nat) (row : List Int) : List (Sym × Nat) :=
  row.zipIdx.filterMap fun e => ((classify n e.1).reduce?).map fun r => (e.2, r)

/-- `look` -/
def rowReduces (names : Nat → String) (n : Nat) (row : List Int) : List String :=
  (rowReducePairs n row).map (redStr names)

def rowFilled (n : Nat) (row : List Int) : Bool :=
  row.any fun d => (classify n d).accept?

/-- `DrawGrammar`: one node per state of the automaton (`StateGraphNode` on each item collection, in
    order, named by its index), then for each row of the table the edges, the accept decoration and
    the reduce annotations of the node with that row's number -/
def dotView (names : Nat → String) (G : Grammar) (A : Auto) (T : Dense) : Dot :=
  { nodes := (List.range A.n).map fun q =>
      { state := q,
        items := (A.its q).map (itemStr names G),
        reduces := rowReduces names A.n (T.getD q []),
        filled := rowFilled A.n (T.getD q []) },
    edges := T.zipIdx.flatMap fun e => rowEdges names A.n e.2 e.1 }

/-! ## printing -/

/-- the `label` attribute of a node:
    `"\"<f0> state i|{it1|it2|…}\""`, and with reduce annotations `…}|{look1|look2|…}\"` -/
def nodeLabel (nd : DotNode) : String :=
  "\"<f0> state " ++ toString nd.state ++ "|{" ++ "|".intercalate nd.items ++ "}" ++
    (if nd.reduces.length = 0 then "" else "|{" ++ "|".intercalate nd.reduces ++ "}") ++ "\""

def renderNode (nd : DotNode) : String :=
  "state_" ++ toString nd.state ++ " [ label=" ++ nodeLabel nd ++
    (if nd.filled then ", style=filled, fillcolor=\"yellow:green\", gradientangle=315" else "") ++ " ];"

def renderEdge (e : DotEdge) : String :=
  "state_" ++ toString e.src ++ "->state_" ++ toString e.dst ++ " [ label=" ++ "\"" ++ e.label ++ "\"" ++ " ];"

def render (d : Dot) : String :=
  "digraph G {\n" ++ "\n".intercalate (d.nodes.map renderNode ++ d.edges.map renderEdge) ++ "\n}\n"

end Y
