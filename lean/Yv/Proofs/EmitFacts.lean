import Yv.Model.EmitRead
/-! Lemmas for the read-back theorems of `Yv/Props/C11b.lean`: the `List Char` form of every emitted
    text, and what each elementary reader does on it. -/
namespace Emit

/-! ## `cat`, `digits`, `dec` -/

theorem toList_foldl_append (l : List String) (acc : String) :
    (l.foldl (· ++ ·) acc).toList = acc.toList ++ (l.map String.toList).flatten := by
  induction l generalizing acc with
  | nil => simp
  | cons a l ih => simp [ih, List.append_assoc]

theorem toList_cat (l : List String) : (cat l).toList = (l.map String.toList).flatten := by
  simp [cat, toList_foldl_append]

theorem digit_facts : ∀ k, k < 10 →
    (Char.ofNat (48 + k)).isDigit = true ∧ (Char.ofNat (48 + k)).toNat - 48 = k := by decide

theorem digits_isDigit (n : Nat) : ∀ c ∈ digits n, c.isDigit = true := by
  induction n using Nat.strongRecOn with
  | _ n ih =>
    rw [digits]
    split
    · intro c hc
      simp at hc
      rw [hc]; exact (digit_facts n (by assumption)).1
    · intro c hc
      rcases List.mem_append.1 hc with h | h
      · exact ih (n / 10) (by omega) c h
      · simp at h
        rw [h]; exact (digit_facts (n % 10) (by omega)).1

theorem digits_ne_nil (n : Nat) : digits n ≠ [] := by
  rw [digits]; split <;> simp

theorem digVal_append (a : List Char) (c : Char) : digVal (a ++ [c]) = digVal a * 10 + (c.toNat - 48) := by
  simp [digVal, List.foldl_append]

theorem digVal_digits (n : Nat) : digVal (digits n) = n := by
  induction n using Nat.strongRecOn with
  | _ n ih =>
    rw [digits]
    split
    · have := (digit_facts n (by assumption)).2
      simp [digVal, this]
    · rw [digVal_append, ih (n / 10) (by omega), (digit_facts (n % 10) (by omega)).2]
      omega

/-- `%d` as a list of characters -/
def decL (i : Int) : List Char :=
  match i with
  | .ofNat n => digits n
  | .negSucc n => '-' :: digits (n + 1)

theorem toList_dec (i : Int) : (dec i).toList = decL i := by
  cases i <;> simp [dec, decL]

theorem toList_dec_nat (n : Nat) : (dec (n : Int)).toList = digits n := toList_dec (Int.ofNat n)

/-! ## "the text does not begin with a character satisfying `p`" -/

def NoHead (p : Char → Bool) : List Char → Prop
  | [] => True
  | c :: _ => p c = false

@[simp] theorem NoHead_nil (p : Char → Bool) : NoHead p [] := trivial
@[simp] theorem NoHead_cons (p : Char → Bool) (c : Char) (l : List Char) :
    NoHead p (c :: l) ↔ p c = false := Iff.rfl

theorem takeWhile_append_noHead {p : Char → Bool} {a rest : List Char}
    (ha : ∀ c ∈ a, p c = true) (hr : NoHead p rest) : (a ++ rest).takeWhile p = a := by
  induction a with
  | nil => cases rest with
    | nil => rfl
    | cons c l => simp [NoHead] at hr; simp [hr]
  | cons x a ih =>
    have hx := ha x List.mem_cons_self
    simp [hx, ih (fun c hc => ha c (List.mem_cons_of_mem _ hc))]

theorem dropWhile_append_noHead {p : Char → Bool} {a rest : List Char}
    (ha : ∀ c ∈ a, p c = true) (hr : NoHead p rest) : (a ++ rest).dropWhile p = rest := by
  induction a with
  | nil => cases rest with
    | nil => rfl
    | cons c l => simp [NoHead] at hr; simp [hr]
  | cons x a ih =>
    have hx := ha x List.mem_cons_self
    simp [hx, ih (fun c hc => ha c (List.mem_cons_of_mem _ hc))]

/-! ## elementary readers -/

@[simp] theorem strip_append (p r : List Char) : strip p (p ++ r) = some r := by
  induction p with
  | nil => cases r <;> rfl
  | cons c p ih => simp [strip, ih]

theorem readNatL_digits (n : Nat) (rest : List Char) (hr : NoHead Char.isDigit rest) :
    readNatL (digits n ++ rest) = some (n, rest) := by
  unfold readNatL
  rw [takeWhile_append_noHead (digits_isDigit n) hr, dropWhile_append_noHead (digits_isDigit n) hr,
    digVal_digits]
  have := digits_ne_nil n
  cases h : digits n with
  | nil => exact absurd h this
  | cons c l => simp

theorem readIntL_dec (i : Int) (rest : List Char) (hr : NoHead Char.isDigit rest) :
    readIntL (decL i ++ rest) = some (i, rest) := by
  cases i with
  | ofNat n =>
    have hne := digits_ne_nil n
    have hd := digits_isDigit n
    have hn := readNatL_digits n rest hr
    simp only [decL]
    cases h : digits n with
    | nil => exact absurd h hne
    | cons c l =>
      rw [h] at hn hd
      have hc : c ≠ '-' := by
        intro e
        have := hd c List.mem_cons_self
        rw [e] at this
        exact absurd this (by decide)
      simp only [List.cons_append, readIntL, hc, if_false]
      rw [← List.cons_append, hn]
      rfl
  | negSucc n =>
    simp only [decL, List.cons_append, readIntL, if_true]
    rw [readNatL_digits (n + 1) rest hr]
    simp [Int.negSucc_eq]

theorem dropWhile_noHead {p : Char → Bool} {l : List Char} (h : NoHead p l) : l.dropWhile p = l := by
  cases l with
  | nil => rfl
  | cons c l => simp [NoHead] at h; simp [h]

@[simp] theorem strip_cons_self (c : Char) (x : List Char) : strip [c] (c :: x) = some x := by
  simp [strip]

theorem length_le_flatten_map {α : Type} (f : α → List Char) (l : List α)
    (h : ∀ x ∈ l, 1 ≤ (f x).length) : l.length ≤ ((l.map f).flatten).length := by
  induction l with
  | nil => simp
  | cons a l ih =>
    have h1 := h a List.mem_cons_self
    have h2 := ih (fun x hx => h x (List.mem_cons_of_mem _ hx))
    simp only [List.map_cons, List.flatten_cons, List.length_append, List.length_cons]
    omega

/-! ## array bodies -/

def arrL (xs : List Int) : List Char := (xs.map fun v => decL v ++ kwSep).flatten

theorem toList_arr (xs : List Int) : (arr xs).toList = arrL xs := by
  simp [arr, arrL, toList_cat, toList_dec, kwSep, Function.comp_def]

@[simp] theorem arrL_nil : arrL [] = [] := rfl
theorem arrL_cons (v : Int) (xs : List Int) : arrL (v :: xs) = decL v ++ (kwSep ++ arrL xs) := by
  simp [arrL]

theorem length_arrL (xs : List Int) : xs.length ≤ (arrL xs).length := by
  apply length_le_flatten_map
  intro x _
  simp [kwSep]

theorem decL_head (i : Int) : ∃ c t, decL i = c :: t ∧ startsInt c = true := by
  cases i with
  | ofNat n =>
    have hne := digits_ne_nil n
    have hd := digits_isDigit n
    simp only [decL]
    cases h : digits n with
    | nil => exact absurd h hne
    | cons c l =>
      rw [h] at hd
      exact ⟨c, l, rfl, by simp [startsInt, hd c List.mem_cons_self]⟩
  | negSucc n => exact ⟨'-', _, rfl, by decide⟩

theorem noHead_isDigit_kwSep (x : List Char) : NoHead Char.isDigit (kwSep ++ x) := by
  simp [kwSep]

theorem readArrF_arr (xs : List Int) (rest : List Char) (hr : NoHead startsInt rest) :
    ∀ fuel, xs.length < fuel → readArrF fuel (arrL xs ++ rest) = some (xs, rest) := by
  induction xs with
  | nil =>
    intro fuel hf
    obtain ⟨f, rfl⟩ : ∃ f, fuel = f + 1 := ⟨fuel - 1, by omega⟩
    cases rest with
    | nil => simp [readArrF]
    | cons c r => simp [NoHead] at hr; simp [readArrF, hr]
  | cons v xs ih =>
    intro fuel hf
    simp only [List.length_cons] at hf
    obtain ⟨f, rfl⟩ : ∃ f, fuel = f + 1 := ⟨fuel - 1, by omega⟩
    obtain ⟨c, t, hct, hc⟩ := decL_head v
    have e : arrL (v :: xs) ++ rest = c :: (t ++ (kwSep ++ (arrL xs ++ rest))) := by
      rw [arrL_cons, hct]; simp
    have e2 : c :: (t ++ (kwSep ++ (arrL xs ++ rest))) = decL v ++ (kwSep ++ (arrL xs ++ rest)) := by
      rw [hct]; simp
    rw [e, readArrF]
    simp only [hc, if_true]
    rw [e2, readIntL_dec _ _ (noHead_isDigit_kwSep _)]
    simp only [Option.bind_some, strip_append]
    rw [ih f (by omega)]
    rfl

theorem readArrL_arr (xs : List Int) (rest : List Char) (hr : NoHead startsInt rest) :
    readArrL (arrL xs ++ rest) = some (xs, rest) := by
  unfold readArrL
  apply readArrF_arr xs rest hr
  have := length_arrL xs
  simp only [List.length_append]
  omega

/-! ## table rows -/

def rowL (op cl : List Char) (i : Nat) (r : List Int) : List Char :=
  kwRowOpen ++ (digits i ++ (kwRowMid ++ (op ++ (arrL r ++ (cl ++ kwRowEnd)))))

def rowsL (op cl : List Char) : Nat → List (List Int) → List Char
  | _, [] => []
  | k, r :: rs => rowL op cl k r ++ rowsL op cl (k + 1) rs

theorem toList_rows_aux (op cl : String) (rows : List (List Int)) (k : Nat) :
    (((rows.zipIdx k).map fun (r, i) => "/* " ++ dec i ++ " */ " ++ op ++ arr r ++ cl ++ ",\n").map
      String.toList).flatten = rowsL op.toList cl.toList k rows := by
  induction rows generalizing k with
  | nil => simp [rowsL]
  | cons r rs ih =>
    simp only [List.zipIdx_cons, List.map_cons, List.flatten_cons, ih, rowsL, rowL,
      String.toList_append, toList_dec_nat, toList_arr, List.append_assoc]
    rfl

theorem toList_rowsTxt (op cl : String) (rows : List (List Int)) :
    (rowsTxt op cl rows).toList = rowsL op.toList cl.toList 0 rows := by
  rw [rowsTxt, toList_cat]
  exact toList_rows_aux op cl rows 0

theorem length_rowsL (op cl : List Char) (rows : List (List Int)) (k : Nat) :
    rows.length ≤ (rowsL op cl k rows).length := by
  induction rows generalizing k with
  | nil => simp
  | cons r rs ih =>
    have := ih (k + 1)
    simp only [rowsL, rowL, kwRowOpen, List.length_append, List.length_cons]
    simp
    omega

theorem noHead_isDigit_kwRowMid (x : List Char) : NoHead Char.isDigit (kwRowMid ++ x) := by
  simp [kwRowMid]

theorem readRowsF_rows (op cl : Char) (hcl : startsInt cl = false) (rows : List (List Int))
    (rest : List Char) (hrest : strip kwRowOpen rest = none) :
    ∀ k fuel, rows.length < fuel →
      readRowsF op cl fuel k (rowsL [op] [cl] k rows ++ rest) = some (rows, rest) := by
  induction rows with
  | nil =>
    intro k fuel hf
    obtain ⟨f, rfl⟩ : ∃ f, fuel = f + 1 := ⟨fuel - 1, by omega⟩
    simp [rowsL, readRowsF, hrest]
  | cons r rs ih =>
    intro k fuel hf
    simp only [List.length_cons] at hf
    obtain ⟨f, rfl⟩ : ∃ f, fuel = f + 1 := ⟨fuel - 1, by omega⟩
    have e : rowsL [op] [cl] k (r :: rs) ++ rest = kwRowOpen ++ (digits k ++ (kwRowMid ++ (op ::
        (arrL r ++ (cl :: (kwRowEnd ++ (rowsL [op] [cl] (k + 1) rs ++ rest))))))) := by
      simp [rowsL, rowL]
    rw [e, readRowsF]
    simp only [strip_append]
    rw [readNatL_digits _ _ (noHead_isDigit_kwRowMid _)]
    simp only [Option.bind_some, if_true, strip_append, strip_cons_self]
    rw [readArrL_arr _ _ (by simpa using hcl)]
    simp only [Option.bind_some, strip_append, strip_cons_self]
    rw [ih (k + 1) f (by omega)]
    rfl

theorem readRowsL_rows (op cl : Char) (hcl : startsInt cl = false) (rows : List (List Int))
    (rest : List Char) (hrest : strip kwRowOpen rest = none) :
    readRowsL op cl (rowsL [op] [cl] 0 rows ++ rest) = some (rows, rest) := by
  unfold readRowsL
  apply readRowsF_rows op cl hcl rows rest hrest
  have := length_rowsL [op] [cl] rows 0
  simp only [List.length_append]
  omega

/-! ## the header comment -/

def headerL (names : List String) : List Char :=
  '/' :: '*' :: ("     ".toList ++ ((names.map fun n => n.toList ++ ['\t']).flatten ++ ['*', '/', '\n']))

theorem toList_header (d : Data) : (header d).toList = headerL (d.syms.map (·.name)) := by
  simp [header, headerL, toList_cat, Function.comp_def]

theorem skipCmt_cons_ne (c : Char) (s : List Char) (h : c ≠ '*') : skipCmt (c :: s) = skipCmt s := by
  rw [skipCmt.eq_def]; simp [h]
theorem skipCmt_star_slash (s : List Char) : skipCmt ('*' :: '/' :: s) = some s := by
  rw [skipCmt.eq_def]; simp
theorem skipCmt_star_ne (c : Char) (s : List Char) (h : c ≠ '/') :
    skipCmt ('*' :: c :: s) = skipCmt (c :: s) := by
  rw [skipCmt.eq_def]; simp [h]

theorem skipCmt_skip (a t : List Char) (h : hasCmtEnd a = false) :
    skipCmt (a ++ '\t' :: t) = skipCmt t := by
  fun_induction hasCmtEnd a with
  | case1 => exact skipCmt_cons_ne _ _ (by decide)
  | case2 =>
    simp only [List.cons_append, List.nil_append]
    rw [skipCmt_star_ne _ _ (by decide), skipCmt_cons_ne _ _ (by decide)]
  | case3 => simp at h
  | case4 c' s' hc' ih =>
    have := ih h
    simp only [List.cons_append] at this ⊢
    rw [skipCmt_star_ne _ _ hc', this]
  | case5 c s hc ih =>
    have := ih h
    simp only [List.cons_append]
    rw [skipCmt_cons_ne _ _ hc, this]

theorem skipCmt_names (names : List String) (rest : List Char)
    (h : ∀ n ∈ names, hasCmtEnd n.toList = false) :
    skipCmt ((names.map fun n => n.toList ++ ['\t']).flatten ++ '*' :: '/' :: rest) = some rest := by
  induction names with
  | nil => exact skipCmt_star_slash rest
  | cons n ns ih =>
    simp only [List.map_cons, List.flatten_cons, List.append_assoc, List.cons_append, List.nil_append]
    rw [skipCmt_skip _ _ (h n List.mem_cons_self)]
    exact ih (fun m hm => h m (List.mem_cons_of_mem _ hm))

theorem skipCmt_header (names : List String) (rest : List Char)
    (h : ∀ n ∈ names, hasCmtEnd n.toList = false) :
    ∃ r0, strip ['/', '*'] (headerL names ++ rest) = some r0 ∧ skipCmt r0 = some ('\n' :: rest) := by
  refine ⟨"     ".toList ++ ((names.map fun n => n.toList ++ ['\t']).flatten ++ '*' :: '/' :: '\n' :: rest), ?_, ?_⟩
  · simp [headerL, strip]
  · have := skipCmt_names names ('\n' :: rest) h
    show skipCmt (' ' :: ' ' :: ' ' :: ' ' :: ' ' :: _) = _
    simp only [skipCmt_cons_ne _ _ (show ' ' ≠ '*' by decide)]
    exact this

/-! ## `case` lines of `translate` -/

def caseL (term : List Char) (v i : Int) : List Char :=
  kwCase ++ (decL v ++ (kwConv ++ (decL i ++ term)))

def casesL (term : List Char) (ps : List (Int × Int)) : List Char :=
  (ps.map fun p => caseL term p.1 p.2).flatten

theorem length_casesL (term : List Char) (ps : List (Int × Int)) :
    ps.length ≤ (casesL term ps).length := by
  apply length_le_flatten_map
  intro x _
  simp [caseL, kwCase]

theorem noHead_isDigit_kwConv (x : List Char) : NoHead Char.isDigit (kwConv ++ x) := by
  have e : kwConv ++ x = ':' :: ("\n \tconv = ".toList ++ x) := rfl
  rw [e]; exact (by decide : Char.isDigit ':' = false)

theorem readCasesF_cases (term : List Char) (hterm : ∀ x, NoHead Char.isDigit (term ++ x))
    (ps : List (Int × Int)) (rest : List Char) (hrest : strip kwCase rest = none) :
    ∀ fuel, ps.length < fuel → readCasesF term fuel (casesL term ps ++ rest) = some (ps, rest) := by
  induction ps with
  | nil =>
    intro fuel hf
    obtain ⟨f, rfl⟩ : ∃ f, fuel = f + 1 := ⟨fuel - 1, by omega⟩
    simp [casesL, readCasesF, hrest]
  | cons p ps ih =>
    intro fuel hf
    simp only [List.length_cons] at hf
    obtain ⟨f, rfl⟩ : ∃ f, fuel = f + 1 := ⟨fuel - 1, by omega⟩
    have e : casesL term (p :: ps) ++ rest = kwCase ++ (decL p.1 ++ (kwConv ++ (decL p.2 ++ (term ++
        (casesL term ps ++ rest))))) := by
      simp [casesL, caseL]
    rw [e, readCasesF]
    simp only [strip_append]
    rw [readIntL_dec _ _ (noHead_isDigit_kwConv _)]
    simp only [Option.bind_some, strip_append]
    rw [readIntL_dec _ _ (hterm _)]
    simp only [Option.bind_some, strip_append]
    rw [ih f (by omega)]
    rfl

/-! ## names -/

/-- a name the constant block can carry: non-empty, without blank, `=` and newline -/
def GoodName (n : String) : Prop := n.toList ≠ [] ∧ ∀ c ∈ n.toList, c ≠ ' ' ∧ c ≠ '=' ∧ c ≠ '\n'

theorem GoodName.nameChar {n : String} (h : GoodName n) : ∀ c ∈ n.toList, nameChar c = true := by
  intro c hc
  have := h.2 c hc
  simp [Emit.nameChar, this]

theorem takeWhile_name {n : String} (h : GoodName n) (x : List Char) (hx : NoHead nameChar x) :
    (n.toList ++ x).takeWhile nameChar = n.toList ∧ (n.toList ++ x).dropWhile nameChar = x ∧
      ((n.toList ++ x).takeWhile nameChar).isEmpty = false := by
  have h1 := takeWhile_append_noHead h.nameChar hx
  refine ⟨h1, dropWhile_append_noHead h.nameChar hx, ?_⟩
  rw [h1]
  cases e : n.toList with
  | nil => exact absurd e h.1
  | cons c l => rfl

/-! ## the constant block -/

def clineL (name : String) (v : Int) (pad : List Char) : List Char :=
  kwConst ++ (name.toList ++ (kwEq ++ (decL v ++ (pad ++ ['\n']))))

def clinesL (ts : List (String × Int × List Char)) : List Char :=
  (ts.map fun t => clineL t.1 t.2.1 t.2.2).flatten

theorem length_clinesL (ts : List (String × Int × List Char)) : ts.length ≤ (clinesL ts).length := by
  apply length_le_flatten_map
  intro x _
  simp [clineL, kwConst]

theorem readConstsF_const (fuel : Nat) (x : List Char) :
    readConstsF (fuel + 1) (kwConst ++ x) =
      if (x.takeWhile nameChar).isEmpty then none else
      (strip kwEq (x.dropWhile nameChar)).bind fun r1 =>
      (readIntL r1).bind fun v =>
      (strip ['\n'] (v.2.dropWhile (· == ' '))).bind fun r2 =>
      (readConstsF fuel r2).bind fun q => some ((String.ofList (x.takeWhile nameChar), v.1) :: q) := by
  have e : kwConst ++ x = 'c' :: ("onst ".toList ++ x) := rfl
  have e2 : strip kwConst ('c' :: ("onst ".toList ++ x)) = some x := by rw [← e]; exact strip_append _ _
  rw [e, readConstsF]
  have e3 : strip ['/', '/'] ('c' :: ("onst ".toList ++ x)) = none := by simp [strip]
  simp only [e3, e2, Option.bind_some]

theorem noHead_nameChar_kwEq (x : List Char) : NoHead nameChar (kwEq ++ x) := by
  simp [kwEq, nameChar]

theorem blank_pad {pad : List Char} (hpad : ∀ c ∈ pad, c = ' ') (x : List Char) :
    NoHead Char.isDigit (pad ++ '\n' :: x) ∧ (pad ++ '\n' :: x).dropWhile (· == ' ') = '\n' :: x := by
  constructor
  · cases pad with
    | nil => simp
    | cons c l => rw [hpad c List.mem_cons_self]; simp
  · apply dropWhile_append_noHead
    · intro c hc; simp [hpad c hc]
    · simp

theorem readConstsF_lines (ts : List (String × Int × List Char))
    (hn : ∀ t ∈ ts, GoodName t.1) (hp : ∀ t ∈ ts, ∀ c ∈ t.2.2, c = ' ') :
    ∀ fuel, ts.length < fuel → readConstsF fuel (clinesL ts) = some (ts.map fun t => (t.1, t.2.1)) := by
  induction ts with
  | nil =>
    intro fuel hf
    obtain ⟨f, rfl⟩ : ∃ f, fuel = f + 1 := ⟨fuel - 1, by omega⟩
    simp [clinesL, readConstsF]
  | cons t ts ih =>
    intro fuel hf
    simp only [List.length_cons] at hf
    obtain ⟨f, rfl⟩ : ∃ f, fuel = f + 1 := ⟨fuel - 1, by omega⟩
    have e : clinesL (t :: ts) = kwConst ++ (t.1.toList ++ (kwEq ++ (decL t.2.1 ++ (t.2.2 ++
        '\n' :: clinesL ts)))) := by
      simp [clinesL, clineL]
    obtain ⟨h1, h2, h3⟩ := takeWhile_name (hn t List.mem_cons_self) _ (noHead_nameChar_kwEq
      (decL t.2.1 ++ (t.2.2 ++ '\n' :: clinesL ts)))
    obtain ⟨h4, h5⟩ := blank_pad (hp t List.mem_cons_self) (clinesL ts)
    rw [e, readConstsF_const, h3, h1, h2]
    simp only [Bool.false_eq_true, if_false, strip_append]
    rw [Option.bind_some, readIntL_dec _ _ h4]
    simp only [Option.bind_some, h5, strip_cons_self]
    rw [ih (fun t ht => hn t (List.mem_cons_of_mem _ ht)) (fun t ht => hp t (List.mem_cons_of_mem _ ht))
      f (by omega)]
    simp

/-! ## `var Name = []int { … }` declarations -/

def blockL (name : String) (pad : List Char) (xs : List Int) : List Char :=
  '\n' :: (kwVar ++ (name.toList ++ (kwIntArr ++ ('\n' :: '\t' :: (arrL xs ++ (pad ++ ['\n', '}']))))))

def blocksL (bs : List (String × List Char × List Int)) : List Char :=
  (bs.map fun b => blockL b.1 b.2.1 b.2.2).flatten

theorem length_blocksL (bs : List (String × List Char × List Int)) : bs.length ≤ (blocksL bs).length := by
  apply length_le_flatten_map
  intro x _
  simp [blockL]

theorem isWs_not_startsInt {c : Char} (h : isWs c = true) : startsInt c = false := by
  simp only [isWs, Bool.or_eq_true, beq_iff_eq] at h
  rcases h with (h | h) | h <;> rw [h] <;> decide

theorem readDeclsF_step (fuel : Nat) (s t : List Char) (h : s.dropWhile isWs = kwVar ++ t) :
    readDeclsF (fuel + 1) s =
      if (t.takeWhile nameChar).isEmpty then none else
      (strip kwIntArr (t.dropWhile nameChar)).bind fun r1 =>
      (readArrL (r1.dropWhile isWs)).bind fun a =>
      (strip ['}'] (a.2.dropWhile isWs)).bind fun r2 =>
      (readDeclsF fuel r2).bind fun q => some ((String.ofList (t.takeWhile nameChar), a.1) :: q) := by
  have e : kwVar ++ t = 'v' :: ("ar ".toList ++ t) := rfl
  have e2 : strip kwVar ('v' :: ("ar ".toList ++ t)) = some t := by rw [← e]; exact strip_append _ _
  rw [readDeclsF, h, e]
  simp only [e2, Option.bind_some]

theorem readDeclsF_end (fuel : Nat) (s : List Char) (h : ∀ c ∈ s, isWs c = true) :
    readDeclsF (fuel + 1) s = some [] := by
  have : s.dropWhile isWs = [] := by
    have := dropWhile_append_noHead (rest := []) h (NoHead_nil _)
    simpa using this
  rw [readDeclsF, this]

theorem declBody (xs : List Int) (pad rest : List Char) (hpad : ∀ c ∈ pad, isWs c = true) :
    ∃ a, readArrL (('\n' :: '\t' :: (arrL xs ++ (pad ++ '\n' :: '}' :: rest))).dropWhile isWs) = some a ∧
      a.1 = xs ∧ a.2.dropWhile isWs = '}' :: rest := by
  have hws : (pad ++ '\n' :: '}' :: rest).dropWhile isWs = '}' :: rest := by
    have := dropWhile_append_noHead (p := isWs) (a := pad ++ ['\n']) (rest := '}' :: rest)
      (by
        intro c hc
        rcases List.mem_append.1 hc with h | h
        · exact hpad c h
        · simp at h; rw [h]; decide)
      (by simp only [NoHead_cons]; decide)
    simpa using this
  have hni : NoHead startsInt (pad ++ '\n' :: '}' :: rest) := by
    cases pad with
    | nil => simp only [List.nil_append, NoHead_cons]; decide
    | cons c l => exact isWs_not_startsInt (hpad c List.mem_cons_self)
  have e0 : ('\n' :: '\t' :: (arrL xs ++ (pad ++ '\n' :: '}' :: rest))).dropWhile isWs =
      (arrL xs ++ (pad ++ '\n' :: '}' :: rest)).dropWhile isWs := by
    rw [List.dropWhile_cons_of_pos (by decide), List.dropWhile_cons_of_pos (by decide)]
  rw [e0]
  cases xs with
  | nil =>
    refine ⟨([], '}' :: rest), ?_, rfl, ?_⟩
    · rw [arrL_nil, List.nil_append, hws]
      have := readArrL_arr [] ('}' :: rest) (by simp only [NoHead_cons]; decide)
      simpa using this
    · exact dropWhile_noHead (by simp only [NoHead_cons]; decide)
  | cons v xs =>
    refine ⟨(v :: xs, pad ++ '\n' :: '}' :: rest), ?_, rfl, hws⟩
    obtain ⟨c, t, hct, hc⟩ := decL_head v
    have hnw : NoHead isWs (arrL (v :: xs) ++ (pad ++ '\n' :: '}' :: rest)) := by
      rw [arrL_cons, hct]
      simp only [List.cons_append, NoHead_cons]
      cases hw : isWs c with
      | false => rfl
      | true => rw [isWs_not_startsInt hw] at hc; cases hc
    rw [dropWhile_noHead hnw]
    exact readArrL_arr _ _ hni

theorem noHead_isWs_kwVar (x : List Char) : NoHead isWs (kwVar ++ x) := by
  have e : kwVar ++ x = 'v' :: ("ar ".toList ++ x) := rfl
  rw [e]; exact (by decide : isWs 'v' = false)

theorem noHead_nameChar_kwIntArr (x : List Char) : NoHead nameChar (kwIntArr ++ x) := by
  have e : kwIntArr ++ x = ' ' :: ("= []int {".toList ++ x) := rfl
  rw [e]; exact (by decide : nameChar ' ' = false)

theorem readDeclsF_blocks (bs : List (String × List Char × List Int)) (tail : List Char)
    (hn : ∀ b ∈ bs, GoodName b.1) (hp : ∀ b ∈ bs, ∀ c ∈ b.2.1, isWs c = true)
    (ht : ∀ c ∈ tail, isWs c = true) :
    ∀ fuel, bs.length < fuel →
      readDeclsF fuel (blocksL bs ++ tail) = some (bs.map fun b => (b.1, b.2.2)) := by
  induction bs with
  | nil =>
    intro fuel hf
    obtain ⟨f, rfl⟩ : ∃ f, fuel = f + 1 := ⟨fuel - 1, by omega⟩
    simpa [blocksL] using readDeclsF_end f tail ht
  | cons b bs ih =>
    intro fuel hf
    simp only [List.length_cons] at hf
    obtain ⟨f, rfl⟩ : ∃ f, fuel = f + 1 := ⟨fuel - 1, by omega⟩
    have e : blocksL (b :: bs) ++ tail = '\n' :: (kwVar ++ (b.1.toList ++ (kwIntArr ++ ('\n' :: '\t' ::
        (arrL b.2.2 ++ (b.2.1 ++ '\n' :: '}' :: (blocksL bs ++ tail))))))) := by
      simp [blocksL, blockL]
    have hd : (blocksL (b :: bs) ++ tail).dropWhile isWs = kwVar ++ (b.1.toList ++ (kwIntArr ++ ('\n' :: '\t' ::
        (arrL b.2.2 ++ (b.2.1 ++ '\n' :: '}' :: (blocksL bs ++ tail)))))) := by
      rw [e, List.dropWhile_cons_of_pos (by decide)]
      exact dropWhile_noHead (noHead_isWs_kwVar _)
    obtain ⟨h1, h2, h3⟩ := takeWhile_name (hn b List.mem_cons_self) _ (noHead_nameChar_kwIntArr
      ('\n' :: '\t' :: (arrL b.2.2 ++ (b.2.1 ++ '\n' :: '}' :: (blocksL bs ++ tail)))))
    obtain ⟨a, ha, ha1, ha2⟩ := declBody b.2.2 b.2.1 (blocksL bs ++ tail) (hp b List.mem_cons_self)
    rw [readDeclsF_step f _ _ hd, h3, h1, h2]
    simp only [Bool.false_eq_true, if_false, strip_append]
    rw [Option.bind_some, ha]
    simp only [Option.bind_some, ha2, strip_cons_self]
    rw [ih (fun t ht => hn t (List.mem_cons_of_mem _ ht)) (fun t ht => hp t (List.mem_cons_of_mem _ ht))
      f (by omega)]
    simp [ha1]

end Emit
