import Yv.Cert.Auto
/-! Decidable certificate for C09: the automaton (as data) *is* the canonical LR(0) collection.

    `closureL` computes the LR(0) closure of a kernel by fuelled iteration followed by a Bool
    closedness check; `certCanon` recomputes, for every state and every goto entry, the closure of
    the advanced items and compares it (as a set) with the target state's item list, and checks
    that states are pairwise different, reachable from state 0, and duplicate-free. -/
namespace Y

/-- the symbol after the dot of an item (none when the dot is at the right end / bad rule index) -/
abbrev afterDot (G : Grammar) (it : Item) : Option Sym := (G.rhsOf it.r)[it.d]?

/-- one closure round: append `⟨r',0⟩` for every rule `r'` not yet present whose left-hand side
    stands after the dot of some item of `l` -/
def closeStep (G : Grammar) (l : List Item) : List Item :=
  l ++ ((List.range G.rules.length).filter (fun r' =>
          !l.contains ⟨r', 0⟩ && l.any (fun it => afterDot G it == some (G.lhsOf r')))).map
        (fun r' => (⟨r', 0⟩ : Item))

/-- iterate `closeStep`, stopping early when a round adds nothing -/
def closeIter (G : Grammar) : Nat → List Item → List Item
  | 0, l => l
  | fuel + 1, l =>
    if (closeStep G l).length == l.length then l else closeIter G fuel (closeStep G l)

/-- closedness: every item with `B` after its dot has every rule of `B` at dot 0 in the list -/
def closedB (G : Grammar) (l : List Item) : Bool :=
  l.all fun it => (List.range G.rules.length).all fun r' =>
    !(afterDot G it == some (G.lhsOf r')) || l.contains ⟨r', 0⟩

/-- executable LR(0) closure: fuelled iteration + final closedness check -/
def closureL (G : Grammar) (kernel : List Item) : Option (List Item) :=
  if closedB G (closeIter G (G.rules.length + kernel.length + 2) kernel) then
    some (closeIter G (G.rules.length + kernel.length + 2) kernel)
  else none

/-- same elements (mutual inclusion) -/
def sameElems (a b : List Item) : Bool :=
  a.all (fun x => b.contains x) && b.all (fun x => a.contains x)

/-- kernel of the successor over `X`: advance the dot of every item with `X` after it -/
def advance (G : Grammar) (X : Sym) (its : List Item) : List Item :=
  (its.filter (fun it => afterDot G it == some X)).map (fun it => (⟨it.r, it.d + 1⟩ : Item))

/-- `its` has the same elements as the closure of `kernel` -/
def isClosureOf (G : Grammar) (its kernel : List Item) : Bool :=
  match closureL G kernel with
  | some l => sameElems its l
  | none => false

def nodupB {α : Type} [BEq α] : List α → Bool
  | [] => true
  | x :: xs => !xs.contains x && nodupB xs

/-- the canonical-collection certificate -/
def certCanon (G : Grammar) (A : Auto) : Bool :=
  decide (0 < A.n) && decide (A.gotos.length = A.n) &&
  -- state 0 is the closure of the augmented start item
  isClosureOf G (A.its 0) [⟨0, 0⟩] &&
  -- every symbol after a dot has a goto entry
  ((List.range A.n).all fun q => (A.its q).all fun it =>
      match afterDot G it with
      | none => true
      | some X => (A.gts q).any fun e => e.1 == X) &&
  -- every goto entry (X,p) of q: X stands after a dot in q, p is a state, and p's items are the
  -- closure of q's items advanced over X
  ((List.range A.n).all fun q => (A.gts q).all fun e =>
      ((A.its q).any fun it => afterDot G it == some e.1) &&
      decide (e.2 < A.n) &&
      isClosureOf G (A.its e.2) (advance G e.1 (A.its q))) &&
  -- the symbols of a goto list are pairwise distinct
  ((List.range A.n).all fun q => nodupB ((A.gts q).map Prod.fst)) &&
  -- no two different states have the same elements
  ((List.range A.n).all fun q => (List.range q).all fun p => !sameElems (A.its q) (A.its p)) &&
  -- every state other than 0 is the target of an entry of an earlier state
  ((List.range A.n).all fun p => p == 0 ||
      (List.range p).any fun q => (A.gts q).any fun e => e.2 == p) &&
  -- item lists are duplicate-free
  ((List.range A.n).all fun q => nodupB (A.its q))

end Y
