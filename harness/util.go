package main

import (
	"bufio"
	"encoding/json"
	"fmt"
	"io"
	"os"
	"strconv"
	"strings"
	"sync"
)

// Case is one input of the line protocol: an id and a grammar-file text (or other payload).
type Case struct {
	ID   string          `json:"id"`
	Src  string          `json:"src"`
	Opts map[string]bool `json:"opts,omitempty"`
	Aux  json.RawMessage `json:"aux,omitempty"`
}

func readCases(r io.Reader, f func(c Case)) {
	sc := bufio.NewScanner(r)
	sc.Buffer(make([]byte, 1<<20), 1<<26)
	for sc.Scan() {
		line := strings.TrimSpace(sc.Text())
		if line == "" {
			continue
		}
		var c Case
		if err := json.Unmarshal([]byte(line), &c); err != nil {
			fmt.Fprintln(os.Stderr, "bad case line:", err)
			os.Exit(2)
		}
		f(c)
	}
}

var realStdout = os.Stdout
var capMu sync.Mutex

// capture runs f with os.Stdout redirected into a buffer and panics recovered.
// It returns what was printed and the panic value (nil if none).
func capture(f func()) (out string, pv interface{}) {
	capMu.Lock()
	defer capMu.Unlock()
	r, w, err := os.Pipe()
	if err != nil {
		panic(err)
	}
	old := os.Stdout
	os.Stdout = w
	done := make(chan string)
	go func() {
		b, _ := io.ReadAll(r)
		done <- string(b)
	}()
	func() {
		defer func() {
			if e := recover(); e != nil {
				pv = e
			}
		}()
		f()
	}()
	os.Stdout = old
	w.Close()
	out = <-done
	r.Close()
	return
}

func ints(xs []int) string {
	s := make([]string, len(xs))
	for i, x := range xs {
		s[i] = strconv.Itoa(x)
	}
	return strings.Join(s, " ")
}

// q quotes a string so that it is one whitespace-free token of the line protocol.
func q(s string) string {
	return strconv.QuoteToASCII(s)
}

// oneLine maps a message to a whitespace-free token.
func oneLine(s string) string {
	s = strings.ReplaceAll(s, "\n", "\\n")
	return strings.ReplaceAll(s, " ", "_")
}
