import Yv.Model.GoAst
import Yv.Model.Drive
/-! A small interpreter for the Go subset of `Yv/Model/GoAst.lean`, over the machine state of a
    generated parser: the stack array, the stack pointer (a Go `int`, so `Int` here), the local
    variables, and — as ghost state — what the hand model `Y.AD.ACfg` records about the outside
    world (tokens not yet fetched, number of tokens requested, rules reduced, trace lines).

    The outside world is a parameter, exactly as in `Y.AD.astep`:
    * `s.Action(x)` is `P.L s.Yystate x` (`none` = index out of range = crash);
    * `ERROR_ACTION`, `ACCEPT_ACTION` are `P.errC`, `P.accC`;
    * `fetchLookAhead(input, &val, &currentPos)` takes the next token off `input` (the end marker
      `1` with value `P.eofVal` for ever once it is empty), stores its value through the second
      argument and returns its symbol;
    * `ReduceFunc(r)` is the per-grammar code (NOT template text): rule data `P.rule r`, the slice
      bound check of `Dollar := Stack[topIndex-n : sp]`, the semantic action `P.sem`, then
      `PopStateSym(n)` — the TRANSLATED `PopStateSym` — and a fresh `StateSym` with the lhs symbol;
    * `TraceShift`, `TraceReduce` record an event (whether or not `IsTrace` prints it).

    What is NOT modelled, stated once: slices are values (no capacity, no sharing of backing
    arrays); a pointer to a `StateSym` outside the array (`&StateSym{…}`, the result of
    `ReduceFunc`) is its value (one owner); `Entry.st`/`Entry.sym` are `Nat`, so storing a
    negative `int` in `Yystate`/`YySymIndex`, or calling `Action` with a negative symbol, is
    reported as `crash` at that point; in an assignment the right-hand side is evaluated before
    the index expression of the left-hand side.  Every construct without a meaning here is `crash`. -/
namespace GoSem
open Y Y.D Gen

inductive Val (V : Type)
  | int (i : Int)
  | bool (b : Bool)
  | str                        -- some string (the input text, a message); content not modelled
  | name (k : Int)             -- `TraceTranslate(k)`: the printable name of symbol `k`
  | val (x : V)                -- a `ValType`
  | ent (e : Entry V)          -- a `StateSym` (struct value)
  | obj (e : Entry V)          -- pointer to a `StateSym` outside the stack array
  | slot (i : Nat)             -- `&Stack[i]`
  | ref (x : Id)               -- `&x`, `x` a local variable
  | slice (l : List (Entry V))
  | ctx                        -- the receiver `c`
  | pkg                        -- a package name (`fmt`)
  | zero                       -- the zero value of `var x T`
  | nil
  | unit

structure M (V : Type) where
  arr : List (Entry V)
  sp : Int
  env : List (Id × Val V)      -- innermost binding first
  input : List (Sym × V)       -- tokens not yet fetched
  req : Nat
  reds : List Nat
  trace : List Ev

/-- result of an expression -/
inductive ER (V : Type)
  | ok (v : Val V) (m : M V)
  | panic (m : M V)            -- `panic(msg)`
  | crash

/-- result of a statement (list) -/
inductive Res (V : Type)
  | norm (m : M V)
  | brk (m : M V)
  | ret (v : Val V) (m : M V)
  | err (m : M V)              -- `panic(msg)`
  | crash                      -- run-time panic (index out of range, …) or a construct without meaning
  | outOfFuel

/-- the translated functions a body may call -/
structure Ext (V : Type) where
  push : M V → Val V → Res V
  pop : M V → Val V → Res V

def lookup {V : Type} : List (Id × Val V) → Id → Option (Val V)
  | [], _ => none
  | (y, v) :: r, x => if y = x then some v else lookup r x

def setVar {V : Type} : List (Id × Val V) → Id → Val V → Option (List (Id × Val V))
  | [], _, _ => none
  | (y, w) :: r, x, v =>
    if y = x then some ((y, v) :: r)
    else match setVar r x v with
      | some r' => some ((y, w) :: r')
      | none => none

def setField {V : Type} (e : Entry V) (f : Id) (v : Val V) : Option (Entry V) :=
  match f with
  | .Yystate => match v with
    | .int k => if 0 ≤ k then some ⟨k.toNat, e.sym, e.val⟩ else none
    | _ => none
  | .YySymIndex => match v with
    | .int k => if 0 ≤ k then some ⟨e.st, k.toNat, e.val⟩ else none
    | _ => none
  | .ValType => match v with
    | .val x => some ⟨e.st, e.sym, x⟩
    | _ => none
  | _ => none

def getField {V : Type} (e : Entry V) (f : Id) : Option (Val V) :=
  match f with
  | .Yystate => some (.int e.st)
  | .YySymIndex => some (.int e.sym)
  | .ValType => some (.val e.val)
  | _ => none

def mkEntry {V : Type} (e : Entry V) : List Id → List (Val V) → Option (Entry V)
  | [], [] => some e
  | k :: ks, v :: vs =>
    match setField e k v with
    | some e' => mkEntry e' ks vs
    | none => none
  | _, _ => none

def allEnts {V : Type} : List (Val V) → Option (List (Entry V))
  | [] => some []
  | .ent e :: r => match allEnts r with
    | some l => some (e :: l)
    | none => none
  | _ :: _ => none

/-- `*p` -/
def load {V : Type} (m : M V) (p : Val V) : Option (Entry V) :=
  match p with
  | .obj e => some e
  | .slot i => m.arr[i]?
  | _ => none

/-- `v.f` -/
def selVal {V : Type} (m : M V) (v : Val V) (f : Id) : Option (Val V) :=
  match v with
  | .ctx => match f with
    | .Stackpos => some (.int m.sp)
    | .StackSym => some (.slice m.arr)
    | _ => none
  | .ent e => getField e f
  | .obj e => getField e f
  | .slot i => match m.arr[i]? with
    | some e => getField e f
    | none => none
  | _ => none

def idVal {V : Type} (P : Params V) (m : M V) (x : Id) : Option (Val V) :=
  match x with
  | .StackPointer => some (.int m.sp)
  | .StateSymStack => some (.slice m.arr)
  | .ERROR_ACTION => some (.int P.errC)
  | .ACCEPT_ACTION => some (.int P.accC)
  | .nil => some .nil
  | .c => some .ctx
  | .fmt => some .pkg
  | x => lookup m.env x

/-- the expression denotes the stack array itself (needed where Go needs the variable, not a copy) -/
def isStack : Expr → Bool
  | .id .StateSymStack => true
  | .sel (.id .c) .StackSym => true
  | _ => false

def binVal {V : Type} (op : BinOp) (l r : Val V) : Option (Val V) :=
  match l with
  | .int a => match r with
    | .int b => match op with
      | .eq => some (.bool (decide (a = b)))
      | .ne => some (.bool (decide (a ≠ b)))
      | .lt => some (.bool (decide (a < b)))
      | .le => some (.bool (decide (a ≤ b)))
      | .gt => some (.bool (decide (a > b)))
      | .ge => some (.bool (decide (a ≥ b)))
      | .add => some (.int (a + b))
      | .sub => some (.int (a - b))
    | _ => none
  | .str => match op with
    | .add => match r with
      | .str => some .str
      | .name _ => some .str
      | _ => none
    | _ => none
  | _ => none

/-- the next token (the end marker for ever once the input is used up) -/
def headTok {V : Type} (eofVal : V) (input : List (Sym × V)) : Sym × V :=
  match input with
  | [] => (1, eofVal)
  | x :: _ => x

def ofRes {V : Type} : Res V → ER V
  | .norm m => .ok .unit m
  | .err m => .panic m
  | _ => .crash

/-- `ReduceFunc(r)`: the generated per-rule code (not template text) -/
def reduceFunc {V : Type} (P : Params V) (X : Ext V) (m : M V) (r : Int) : ER V :=
  if r < 0 then .crash
  else
    match P.rule r.toNat with
    | none => .crash
    | some (lhs, n) =>
      -- `Dollar := Stack[topIndex-n : sp]`, `topIndex = sp-1`
      if 0 ≤ m.sp - 1 - (n : Int) ∧ m.sp ≤ (m.arr.length : Int) then
        match X.pop m (.int n) with
        | .norm m' =>
          .ok (.obj ⟨0, lhs, P.sem r.toNat
                ((((m.arr.drop (m.sp - 1 - (n : Int)).toNat).take (n + 1)).drop 1).map Entry.val)⟩)
              { m' with reds := r.toNat :: m'.reds }
        | _ => .crash
      else .crash

/-- a call of the function or method `g` (receiver `recv` for a method call) with evaluated arguments -/
def callFn {V : Type} (P : Params V) (X : Ext V) (g : Id) (recv : Option (Val V)) (vs : List (Val V))
    (m : M V) : ER V :=
  match g with
  | .len => match recv, vs with
    | none, [.slice l] => .ok (.int l.length) m
    | _, _ => .crash
  | .append => match recv, vs with
    | none, [.slice l, .ent e] => .ok (.slice (l ++ [e])) m
    | _, _ => .crash
  | .TraceTranslate => match recv, vs with
    | none, [.int k] => .ok (.name k) m
    | _, _ => .crash
  | .Sprintf => match recv with
    | some .pkg => .ok .str m
    | _ => .crash
  | .panic => match recv, vs with
    | none, [.str] => .panic m
    | _, _ => .crash
  | .TraceShift => match recv, vs with
    | none, [p] => match load m p with
      | some e => .ok .unit { m with trace := .shift e.sym e.st :: m.trace }
      | none => .crash
    | _, _ => .crash
  | .TraceReduce => match recv, vs with
    | none, [.int r, .int g, .name la] =>
      if 0 ≤ r ∧ 0 ≤ g ∧ 0 ≤ la then
        .ok .unit { m with trace := .reduce la.toNat r.toNat g.toNat :: m.trace }
      else .crash
    | _, _ => .crash
  | .fetchLookAhead => match recv, vs with
    | none, [.str, .ref x, .ref _] =>
      match setVar m.env x (.val (headTok P.eofVal m.input).2) with
      | some env' => .ok (.int (headTok P.eofVal m.input).1)
          { m with env := env', input := m.input.tail, req := m.req + 1 }
      | none => .crash
    | _, _ => .crash
  | .Action => match recv, vs with
    | some p, [.int k] => match load m p with
      | some e =>
        if 0 ≤ k then
          match P.L e.st k.toNat with
          | some a => .ok (.int a) m
          | none => .crash
        else .crash
      | none => .crash
    | _, _ => .crash
  | .PushStateSym => match recv, vs with
    | none, [v] => ofRes (X.push m v)
    | some .ctx, [v] => ofRes (X.push m v)
    | _, _ => .crash
  | .PopStateSym => match recv, vs with
    | none, [v] => ofRes (X.pop m v)
    | some .ctx, [v] => ofRes (X.pop m v)
    | _, _ => .crash
  | .ReduceFunc => match recv, vs with
    | none, [.int r] => reduceFunc P X m r
    | some .ctx, [.int r] => reduceFunc P X m r
    | _, _ => .crash
  | _ => .crash

def selStep {V : Type} (f : Id) : ER V → ER V
  | .ok v m => match selVal m v f with
    | some w => .ok w m
    | none => .crash
  | r => r

mutual
def eval {V : Type} (P : Params V) (zeroV : V) (X : Ext V) (m : M V) : Expr → ER V
  | .id x => match idVal P m x with
    | some v => .ok v m
    | none => .crash
  | .int n => .ok (.int n) m
  | .str _ => .ok .str m
  | .neg e => match eval P zeroV X m e with
    | .ok (.int k) m1 => .ok (.int (-k)) m1
    | .ok _ _ => .crash
    | r => r
  | .deref e => match eval P zeroV X m e with
    | .ok p m1 => match load m1 p with
      | some x => .ok (.ent x) m1
      | none => .crash
    | r => r
  | .addr e => match e with
    | .id x => match lookup m.env x with
      | some _ => .ok (.ref x) m
      | none => .crash
    | .index a i =>
      if isStack a then
        match eval P zeroV X m i with
        | .ok (.int k) m1 =>
          if 0 ≤ k ∧ k < (m1.arr.length : Int) then .ok (.slot k.toNat) m1 else .crash
        | .ok _ _ => .crash
        | r => r
      else .crash
    | .lit _ ks vs => match evalArgs P zeroV X m vs with
      | some (ws, m1) => match mkEntry ⟨0, 0, zeroV⟩ ks ws with
        | some x => .ok (.obj x) m1
        | none => .crash
      | none => .crash
    | .sel r f => selStep f (eval P zeroV X m r)       -- pointer to a field: its value
    | _ => .crash
  | .bin op l r => match eval P zeroV X m l with
    | .ok a m1 => match eval P zeroV X m1 r with
      | .ok b m2 => match binVal op a b with
        | some v => .ok v m2
        | none => .crash
      | r' => r'
    | r' => r'
  | .index _ _ => .crash
  | .sel r f => selStep f (eval P zeroV X m r)
  | .call f args => match f with
    | .id g => match evalArgs P zeroV X m args with
      | some (vs, m1) => callFn P X g none vs m1
      | none => .crash
    | .sel r g => match eval P zeroV X m r with
      | .ok rv m1 => match evalArgs P zeroV X m1 args with
        | some (vs, m2) => callFn P X g (some rv) vs m2
        | none => .crash
      | r' => r'
    | _ => .crash
  | .lit _ ks vs => match evalArgs P zeroV X m vs with
    | some (ws, m1) => match mkEntry ⟨0, 0, zeroV⟩ ks ws with
      | some x => .ok (.ent x) m1
      | none => .crash
    | none => .crash
  | .sliceLit _ es => match evalArgs P zeroV X m es with
    | some (ws, m1) => match allEnts ws with
      | some l => .ok (.slice l) m1
      | none => .crash
    | none => .crash
/-- arguments left to right; a panic inside an argument is reported as `none` (crash) -/
def evalArgs {V : Type} (P : Params V) (zeroV : V) (X : Ext V) (m : M V) : List Expr → Option (List (Val V) × M V)
  | [] => some ([], m)
  | e :: r => match eval P zeroV X m e with
    | .ok v m1 => match evalArgs P zeroV X m1 r with
      | some (vs, m2) => some (v :: vs, m2)
      | none => none
    | _ => none
end

/-- `lhs = v` -/
def store {V : Type} (P : Params V) (zeroV : V) (X : Ext V) (m : M V) (lhs : Expr) (v : Val V) : Option (M V) :=
  match lhs with
  | .id x => match x with
    | .StackPointer => match v with
      | .int k => some { m with sp := k }
      | _ => none
    | .StateSymStack => match v with
      | .slice l => some { m with arr := l }
      | _ => none
    | x => match setVar m.env x v with
      | some env' => some { m with env := env' }
      | none => none
  | .sel (.id x) f => match idVal P m x with
    | some .ctx => match f with
      | .Stackpos => match v with
        | .int k => some { m with sp := k }
        | _ => none
      | .StackSym => match v with
        | .slice l => some { m with arr := l }
        | _ => none
      | _ => none
    | some (.obj e) => match setField e f v with
      | some e' => match setVar m.env x (.obj e') with
        | some env' => some { m with env := env' }
        | none => none
      | none => none
    | _ => none
  | .index a i =>
    if isStack a then
      match eval P zeroV X m i with
      | .ok (.int k) m1 => match v with
        | .ent e => if 0 ≤ k ∧ k < (m1.arr.length : Int) then some { m1 with arr := m1.arr.set k.toNat e } else none
        | _ => none
      | _ => none
    else none
  | _ => none

def ofStore {V : Type} : Option (M V) → Res V
  | some m => .norm m
  | none => .crash

def popEnv {V : Type} (n : Nat) (m : M V) : M V := { m with env := m.env.drop (m.env.length - n) }

/-- leaving a block: the variables declared in it go out of scope -/
def leave {V : Type} (n : Nat) : Res V → Res V
  | .norm m => .norm (popEnv n m)
  | .brk m => .brk (popEnv n m)
  | .ret v m => .ret v (popEnv n m)
  | .err m => .err (popEnv n m)
  | .crash => .crash
  | .outOfFuel => .outOfFuel

/-- `for { body }` with a bound on the number of iterations -/
def iterate {V : Type} (iter : M V → Res V) : Nat → M V → Res V
  | 0, _ => .outOfFuel
  | fuel + 1, m =>
    match iter m with
    | .norm m' => iterate iter fuel m'
    | .brk m' => .norm m'
    | r => r

mutual
/-- `fuel` bounds the number of iterations of each `for` loop; nothing else uses it -/
def exec {V : Type} (P : Params V) (zeroV : V) (X : Ext V) (fuel : Nat) (m : M V) : Stmt → Res V
  | .expr e => match eval P zeroV X m e with
    | .ok _ m1 => .norm m1
    | .panic m1 => .err m1
    | .crash => .crash
  | .define x e => match eval P zeroV X m e with
    | .ok v m1 => .norm { m1 with env := (x, v) :: m1.env }
    | .panic m1 => .err m1
    | .crash => .crash
  | .assign lhs e => match eval P zeroV X m e with
    | .ok v m1 => ofStore (store P zeroV X m1 lhs v)
    | .panic m1 => .err m1
    | .crash => .crash
  | .subAssign lhs e => match eval P zeroV X m lhs with
    | .ok (.int a) m1 => match eval P zeroV X m1 e with
      | .ok (.int b) m2 => ofStore (store P zeroV X m2 lhs (.int (a - b)))
      | _ => .crash
    | _ => .crash
  | .inc lhs => match eval P zeroV X m lhs with
    | .ok (.int a) m1 => ofStore (store P zeroV X m1 lhs (.int (a + 1)))
    | _ => .crash
  | .varDecl x _ ini => match ini with
    | none => .norm { m with env := (x, .zero) :: m.env }
    | some e => match eval P zeroV X m e with
      | .ok v m1 => .norm { m1 with env := (x, v) :: m1.env }
      | .panic m1 => .err m1
      | .crash => .crash
  | .ite c t e => match eval P zeroV X m c with
    | .ok (.bool b) m1 =>
      if b then leave m1.env.length (execs P zeroV X fuel m1 t)
      else leave m1.env.length (execs P zeroV X fuel m1 e)
    | .panic m1 => .err m1
    | _ => .crash
  | .loop body => iterate (fun m' => leave m'.env.length (execs P zeroV X fuel m' body)) fuel m
  | .brk => .brk m
  | .ret e => match eval P zeroV X m e with
    | .ok v m1 => .ret v m1
    | .panic m1 => .err m1
    | .crash => .crash
def execs {V : Type} (P : Params V) (zeroV : V) (X : Ext V) (fuel : Nat) (m : M V) : List Stmt → Res V
  | [] => .norm m
  | s :: r => match exec P zeroV X fuel m s with
    | .norm m1 => execs P zeroV X fuel m1 r
    | r' => r'
end

/-- one iteration of `for { body }` -/
def execIter {V : Type} (P : Params V) (zeroV : V) (X : Ext V) (fuel : Nat) (body : List Stmt) (m : M V) : Res V :=
  leave m.env.length (execs P zeroV X fuel m body)

/-- a call: fresh variables for the parameters; the caller's variables are invisible and come back -/
def invoke {V : Type} (P : Params V) (zeroV : V) (X : Ext V) (fuel : Nat) (fn : Fn) (args : List (Val V))
    (m : M V) : Res V :=
  match execs P zeroV X fuel { m with env := fn.params.zip args } fn.body with
  | .norm m' => .norm { m' with env := m.env }
  | .ret v m' => .ret v { m' with env := m.env }
  | .err m' => .err { m' with env := m.env }
  | .brk _ => .crash
  | .crash => .crash
  | .outOfFuel => .outOfFuel

/-- no callable functions (for the bodies of `PushStateSym`, `PopStateSym`, `ParserInit`) -/
def ext0 {V : Type} : Ext V := { push := fun _ _ => .crash, pop := fun _ _ => .crash }

/-- `Parser` calls the translated `PushStateSym` and (through `ReduceFunc`) `PopStateSym` -/
def extOf {V : Type} (P : Params V) (zeroV : V) (pushFn popFn : Fn) : Ext V :=
  { push := fun m v => invoke P zeroV ext0 0 pushFn [v] m,
    pop := fun m v => invoke P zeroV ext0 0 popFn [v] m }

end GoSem
