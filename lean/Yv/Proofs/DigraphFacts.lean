import Yv.Model.Digraph
import Yv.Proofs.DPModel
/-! Facts about the model of `Digraph`/`Traverse` (`Yv/Model/Digraph.lean`):

* totality with the fuel `digraph` supplies (`roots_total`),
* the traversal invariant (`Inv`) and the Hoare-style specification of `traverse` (`traverse_spec`),
* the result: on every node reachable from `X` the final `F` is the least solution, and `F` is sound
  everywhere (`digraphSt_spec`). -/
namespace Y.DG

/-! ## association lists -/

theorem getA_setA {α : Type} (d : α) (k : Nat) (v : α) (j : Nat) :
    ∀ (m : List (Nat × α)), getA d (setA m k v) j = if j = k then v else getA d m j := by
  intro m
  induction m with
  | nil =>
    simp only [setA, getA]
    by_cases h : j = k
    · simp [h]
    · have : ¬ k = j := fun e => h e.symm
      simp [h, this]
  | cons e m ih =>
    simp only [setA]
    by_cases he : e.1 = k
    · simp only [he, if_true, getA]
      by_cases h : j = k
      · simp [h]
      · have : ¬ k = j := fun e => h e.symm
        simp [h, this]
    · simp only [he, if_false, getA, ih]
      by_cases h : j = k
      · subst h; simp [he]
      · simp [h]

/-! ## the state after the elementary steps -/

theorem enter_n (Fp : Nat → List Nat) (x : Nat) (st : St) (u : Nat) :
    (enter Fp x st).n u = if u = x then st.S.length + 1 else st.n u := by
  simp only [St.n, enter, getA_setA]

theorem enter_f (Fp : Nat → List Nat) (x : Nat) (st : St) (u : Nat) :
    (enter Fp x st).f u = if u = x then Fp x else st.f u := by
  simp only [St.f, enter, getA_setA]

theorem enter_S (Fp : Nat → List Nat) (x : Nat) (st : St) : (enter Fp x st).S = x :: st.S := rfl

theorem relax_n (x y : Nat) (st : St) (u : Nat) :
    (relax x y st).n u = if u = x then min (st.n x) (st.n y) else st.n u := by
  simp only [St.n, relax, getA_setA]

theorem relax_f (x y : Nat) (st : St) (u : Nat) :
    (relax x y st).f u = if u = x then union (st.f y) (st.f x) else st.f u := by
  simp only [St.f, relax, getA_setA]

theorem relax_S (x y : Nat) (st : St) : (relax x y st).S = st.S := rfl

theorem mem_union {a : Nat} {xs ys : List Nat} : a ∈ union xs ys ↔ a ∈ xs ∨ a ∈ ys := by
  unfold union
  simp only [List.mem_append, List.mem_filter, List.contains_eq_mem, Bool.not_eq_true',
    decide_eq_false_iff_not]
  constructor
  · rintro (h | ⟨h, _⟩)
    · exact Or.inr h
    · exact Or.inl h
  · rintro (h | h)
    · by_cases hy : a ∈ ys
      · exact Or.inl hy
      · exact Or.inr ⟨h, hy⟩
    · exact Or.inl h

/-- the pop loop on a stack `A ++ x :: B` with `x ∉ A`: the nodes of `A` and `x` are finished with
    `F x`, the stack is `B` -/
theorem popLoop_spec (x : Nat) (B : List Nat) : ∀ (A : List Nat) (N : List (Nat × Nat))
    (F : List (Nat × List Nat)), x ∉ A →
    (popLoop x (A ++ x :: B) N F).S = B ∧
    (∀ u, (popLoop x (A ++ x :: B) N F).n u = if u ∈ A ∨ u = x then inf else getA 0 N u) ∧
    (∀ u, (popLoop x (A ++ x :: B) N F).f u =
      if u ∈ A ∨ u = x then getA [] F x else getA [] F u) := by
  intro A
  induction A with
  | nil =>
    intro N F _
    simp only [List.nil_append, popLoop, if_true, St.n, St.f, getA_setA, List.not_mem_nil, false_or]
    exact ⟨trivial, fun _ => trivial, fun _ => trivial⟩
  | cons t A ih =>
    intro N F hx
    have htx : ¬ t = x := fun e => hx (e ▸ List.mem_cons_self)
    have hxA : x ∉ A := fun h => hx (List.mem_cons_of_mem _ h)
    simp only [List.cons_append, popLoop, htx, if_false]
    obtain ⟨h1, h2, h3⟩ := ih (setA N t inf) (setA F t (getA [] F x)) hxA
    refine ⟨h1, fun u => ?_, fun u => ?_⟩
    · rw [h2 u, getA_setA]
      by_cases hu : u = t
      · subst hu; simp
      · simp [hu]
    · rw [h3 u, getA_setA, getA_setA]
      have hxt : ¬ x = t := fun e => htx e.symm
      simp only [hxt, if_false]
      by_cases hu : u = t
      · subst hu; simp
      · simp [hu]

/-! ## `Reach` -/

theorem Reach.trans {R : List (Nat × Nat)} {x y z : Nat} (h1 : Reach R x y) (h2 : Reach R y z) :
    Reach R x z := by
  induction h1 with
  | refl _ => exact h2
  | head x y _ hxy _ ih => exact .head x y z hxy (ih h2)

theorem Reach.single {R : List (Nat × Nat)} {x y : Nat} (h : (x, y) ∈ R) : Reach R x y :=
  .head x y y h (.refl y)

/-! ## the rank of a node on the stack (1 = bottom), 0 for the nodes not on the stack -/

def rank : List Nat → Nat → Nat
  | [], _ => 0
  | t :: s, w => if t = w then s.length + 1 else rank s w

theorem rank_le_length (w : Nat) : ∀ (S : List Nat), rank S w ≤ S.length := by
  intro S
  induction S with
  | nil => exact Nat.le_refl _
  | cons t s ih =>
    simp only [rank, List.length_cons]
    split
    · exact Nat.le_refl _
    · exact Nat.le_succ_of_le ih

theorem rank_pos_iff (w : Nat) : ∀ (S : List Nat), 0 < rank S w ↔ w ∈ S := by
  intro S
  induction S with
  | nil => simp [rank]
  | cons t s ih =>
    simp only [rank, List.mem_cons]
    by_cases h : t = w
    · simp [h]
    · have : ¬ w = t := fun e => h e.symm
      simp [h, this, ih]

theorem rank_append_of_not_mem (w : Nat) (B : List Nat) : ∀ (A : List Nat), w ∉ A →
    rank (A ++ B) w = rank B w := by
  intro A
  induction A with
  | nil => intro _; rfl
  | cons t A ih =>
    intro h
    have htw : ¬ t = w := fun e => h (e ▸ List.mem_cons_self)
    simp only [List.cons_append, rank, htw, if_false]
    exact ih (fun hm => h (List.mem_cons_of_mem _ hm))

theorem rank_append_of_mem (w : Nat) (B : List Nat) : ∀ (A : List Nat), w ∈ A →
    B.length < rank (A ++ B) w := by
  intro A
  induction A with
  | nil => intro h; cases h
  | cons t A ih =>
    intro h
    simp only [List.cons_append, rank]
    by_cases htw : t = w
    · simp only [htw, if_true, List.length_append]; omega
    · simp only [htw, if_false]
      rcases List.mem_cons.mp h with e | e
      · exact absurd e.symm htw
      · exact ih e

theorem mem_of_rank_gt {w : Nat} {A B : List Nat} (h : B.length < rank (A ++ B) w) : w ∈ A := by
  by_cases hm : w ∈ A
  · exact hm
  · rw [rank_append_of_not_mem w B A hm] at h
    exact absurd (rank_le_length w B) (Nat.not_le_of_gt h)

/-! ## totality: every call of `traverse` marks an unmarked node of the universe `U` -/

/-- marked nodes stay marked -/
def Mono (st st' : St) : Prop := ∀ u, st.n u ≠ 0 → st'.n u ≠ 0

theorem Mono.refl (st : St) : Mono st st := fun _ h => h

theorem Mono.trans {a b c : St} (h1 : Mono a b) (h2 : Mono b c) : Mono a c :=
  fun u h => h2 u (h1 u h)

/-- the number of unmarked nodes of `U` (with multiplicity) -/
def whites (U : List Nat) (st : St) : Nat := (U.filter fun u => st.n u == 0).length

theorem whites_le_length (U : List Nat) (st : St) : whites U st ≤ U.length :=
  List.length_filter_le _ _

theorem filter_len_le {p q : Nat → Bool} (h : ∀ u, q u = true → p u = true) :
    ∀ (U : List Nat), (U.filter q).length ≤ (U.filter p).length := by
  intro U
  induction U with
  | nil => exact Nat.le_refl _
  | cons u U ih =>
    simp only [List.filter_cons]
    cases hq : q u
    · cases hp : p u
      · simpa using ih
      · simp only [Bool.false_eq_true, if_false, if_true, List.length_cons]; omega
    · simp only [h u hq, if_true, List.length_cons]; omega

theorem filter_len_lt {p q : Nat → Bool} (h : ∀ u, q u = true → p u = true) {x : Nat}
    (hp : p x = true) (hq : q x = false) :
    ∀ (U : List Nat), x ∈ U → (U.filter q).length < (U.filter p).length := by
  intro U
  induction U with
  | nil => intro hx; cases hx
  | cons u U ih =>
    intro hx
    have hle := filter_len_le h U
    simp only [List.filter_cons]
    rcases List.mem_cons.mp hx with e | e
    · subst e
      simp only [hp, hq, Bool.false_eq_true, if_false, if_true, List.length_cons]; omega
    · have := ih e
      cases hq' : q u
      · cases hp' : p u
        · simpa using this
        · simp only [Bool.false_eq_true, if_false, if_true, List.length_cons]; omega
      · simp only [h u hq', if_true, List.length_cons]; omega

theorem mono_bool {st st' : St} (h : Mono st st') (u : Nat) :
    (st'.n u == 0) = true → (st.n u == 0) = true := by
  intro h'
  have h0 : st'.n u = 0 := by simpa using h'
  have : st.n u = 0 := Classical.byContradiction fun hne => h u hne h0
  simpa using this

theorem whites_mono {st st' : St} (h : Mono st st') (U : List Nat) : whites U st' ≤ whites U st :=
  filter_len_le (mono_bool h) U

theorem whites_lt {st st' : St} (h : Mono st st') {x : Nat} (h0 : st.n x = 0) (h1 : st'.n x ≠ 0)
    (U : List Nat) (hx : x ∈ U) : whites U st' < whites U st :=
  filter_len_lt (mono_bool h) (by simpa using h0) (by simpa using h1) U hx

theorem inf_ne_zero : inf ≠ 0 := by decide

theorem enter_mono (Fp : Nat → List Nat) (x : Nat) (st : St) : Mono st (enter Fp x st) := by
  intro u h
  rw [enter_n]
  split
  · exact Nat.succ_ne_zero _
  · exact h

theorem enter_n_self (Fp : Nat → List Nat) (x : Nat) (st : St) : (enter Fp x st).n x ≠ 0 := by
  rw [enter_n]; simp

theorem relax_mono (x y : Nat) (st : St) (hy : st.n y ≠ 0) : Mono st (relax x y st) := by
  intro u h
  rw [relax_n]
  split
  · rename_i hux
    subst hux
    rw [Nat.min_def]
    split
    · exact h
    · exact hy
  · exact h

theorem popLoop_mono (x : Nat) : ∀ (s : List Nat) (N : List (Nat × Nat)) (F : List (Nat × List Nat))
    (u : Nat), getA 0 N u ≠ 0 → (popLoop x s N F).n u ≠ 0 := by
  intro s
  induction s with
  | nil => intro N F u h; exact h
  | cons t s ih =>
    intro N F u h
    have h' : getA 0 (setA N t inf) u ≠ 0 := by
      rw [getA_setA]
      split
      · exact inf_ne_zero
      · exact h
    simp only [popLoop]
    split
    · exact h'
    · exact ih _ _ u h'

theorem finish_mono (x d : Nat) (st : St) : Mono st (finish x d st) := by
  intro u h
  unfold finish
  split
  · refine popLoop_mono x st.S _ _ u ?_
    rw [getA_setA]
    split
    · exact inf_ne_zero
    · exact h
  · exact h

section total
variable {R : List (Nat × Nat)} {Fp : Nat → List Nat} {U : List Nat}

theorem scan_total {fuel : Nat} {trav : Nat → St → Option St} {x : Nat}
    (htrav : ∀ y st, whites U st < fuel → y ∈ U → st.n y = 0 →
      ∃ st', trav y st = some st' ∧ Mono st st' ∧ st'.n y ≠ 0) :
    ∀ (rs : List (Nat × Nat)) (st : St), (∀ e ∈ rs, e.2 ∈ U) → whites U st < fuel →
      ∃ st', scan trav x rs st = some st' ∧ Mono st st' := by
  intro rs
  induction rs with
  | nil => intro st _ _; exact ⟨st, rfl, Mono.refl st⟩
  | cons e rs ih =>
    intro st hU hw
    have hrs : ∀ e' ∈ rs, e'.2 ∈ U := fun e' he' => hU e' (List.mem_cons_of_mem _ he')
    simp only [scan]
    by_cases hex : e.1 = x
    · simp only [hex, if_true]
      by_cases hy : st.n e.2 = 0
      · simp only [hy, if_true]
        obtain ⟨st1, h1, hm1, hn1⟩ := htrav e.2 st hw (hU e List.mem_cons_self) hy
        simp only [h1]
        have hm2 := relax_mono x e.2 st1 hn1
        have hm := hm1.trans hm2
        obtain ⟨st2, h2, hm3⟩ := ih (relax x e.2 st1) hrs
          (Nat.lt_of_le_of_lt (whites_mono hm U) hw)
        exact ⟨st2, h2, hm.trans hm3⟩
      · simp only [hy, if_false]
        have hm := relax_mono x e.2 st hy
        obtain ⟨st2, h2, hm3⟩ := ih (relax x e.2 st) hrs
          (Nat.lt_of_le_of_lt (whites_mono hm U) hw)
        exact ⟨st2, h2, hm.trans hm3⟩
    · simp only [hex, if_false]
      exact ih st hrs hw

theorem traverse_total (hR : ∀ e ∈ R, e.2 ∈ U) : ∀ (fuel x : Nat) (st : St),
    whites U st < fuel → x ∈ U → st.n x = 0 →
    ∃ st', traverse R Fp fuel x st = some st' ∧ Mono st st' ∧ st'.n x ≠ 0 := by
  intro fuel
  induction fuel with
  | zero => intro x st h; exact absurd h (Nat.not_lt_zero _)
  | succ fuel ih =>
    intro x st hw hx h0
    have hme := enter_mono Fp x st
    have hne := enter_n_self Fp x st
    have hw1 : whites U (enter Fp x st) < fuel :=
      Nat.lt_of_lt_of_le (whites_lt hme h0 hne U hx) (Nat.le_of_lt_succ hw)
    obtain ⟨st2, h2, hm2⟩ := scan_total (x := x) (fun y st => ih y st) R (enter Fp x st) hR hw1
    simp only [traverse, h2]
    have hm := (hme.trans hm2).trans (finish_mono x (st.S.length + 1) st2)
    exact ⟨_, rfl, hm, (hm2.trans (finish_mono x (st.S.length + 1) st2)) x hne⟩

theorem roots_total (hR : ∀ e ∈ R, e.2 ∈ U) (fuel : Nat) : ∀ (xs : List Nat) (st : St),
    (∀ x ∈ xs, x ∈ U) → whites U st < fuel → ∃ st', roots R Fp fuel xs st = some st' := by
  intro xs
  induction xs with
  | nil => intro st _ _; exact ⟨st, rfl⟩
  | cons x xs ih =>
    intro st hU hw
    have hxs : ∀ x' ∈ xs, x' ∈ U := fun x' h => hU x' (List.mem_cons_of_mem _ h)
    simp only [roots]
    by_cases h0 : st.n x = 0
    · simp only [h0, if_true]
      obtain ⟨st1, h1, hm1, _⟩ := traverse_total (Fp := Fp) hR fuel x st hw (hU x List.mem_cons_self) h0
      simp only [h1]
      exact ih st1 hxs (Nat.lt_of_le_of_lt (whites_mono hm1 U) hw)
    · simp only [h0, if_false]
      exact ih st hxs hw

end total

/-- the universe of `digraph X R Fp`: the roots and the targets of the pairs -/
def univ (X : List Nat) (R : List (Nat × Nat)) : List Nat := X ++ R.map fun e => e.2

theorem univ_length (X : List Nat) (R : List (Nat × Nat)) : (univ X R).length = X.length + R.length := by
  simp [univ]

theorem mem_univ_left {X : List Nat} {R : List (Nat × Nat)} {x : Nat} (h : x ∈ X) : x ∈ univ X R :=
  List.mem_append_left _ h

theorem mem_univ_right {X : List Nat} {R : List (Nat × Nat)} : ∀ e ∈ R, e.2 ∈ univ X R :=
  fun e h => List.mem_append_right _ (List.mem_map.mpr ⟨e, h, rfl⟩)

theorem digraphSt_total (X : List Nat) (R : List (Nat × Nat)) (Fp : Nat → List Nat) :
    ∃ st, digraphSt X R Fp = some st := by
  unfold digraphSt
  refine roots_total (U := univ X R) mem_univ_right _ X _ (fun x h => mem_univ_left h) ?_
  have := whites_le_length (univ X R) { N := [], S := [], F := [] }
  rw [univ_length] at this
  exact Nat.lt_succ_of_le this

/-! ## the traversal invariant -/

theorem rank_cons_self (x : Nat) (S : List Nat) : rank (x :: S) x = S.length + 1 := by
  simp [rank]

theorem rank_cons_ne {x u : Nat} (h : u ≠ x) (S : List Nat) : rank (x :: S) u = rank S u := by
  have : ¬ x = u := fun e => h e.symm
  simp [rank, this]

section inv
variable (R : List (Nat × Nat)) (Fp : Nat → List Nat) (U : List Nat)

/-- `a` belongs to the least solution at `u` -/
def Sol (u a : Nat) : Prop := ∃ v, Reach R u v ∧ a ∈ Fp v

theorem Sol.step {R : List (Nat × Nat)} {Fp : Nat → List Nat} {u w a : Nat} (h : Reach R u w)
    (hs : Sol R Fp w a) : Sol R Fp u a := by
  obtain ⟨v, hv, ha⟩ := hs
  exact ⟨v, h.trans hv, ha⟩

/-- the state invariant of the traversal (between any two elementary steps) -/
structure Inv (st : St) : Prop where
  nodup : st.S.Nodup
  inU : ∀ u ∈ st.S, u ∈ U
  gray : ∀ u, u ∈ st.S ↔ (st.n u ≠ 0 ∧ st.n u ≠ inf)
  rankle : ∀ u ∈ st.S, st.n u ≤ rank st.S u
  chain : st.S.Pairwise (fun a b => Reach R b a)
  low : ∀ u ∈ st.S, ∃ z, 0 < rank st.S z ∧ rank st.S z ≤ st.n u ∧ Reach R u z
  sound : ∀ u a, a ∈ st.f u → Sol R Fp u a
  fp : ∀ u ∈ st.S, ∀ a ∈ Fp u, a ∈ st.f u
  black : ∀ u, st.n u = inf →
    (∀ a, Sol R Fp u a → a ∈ st.f u) ∧ (∀ w, (u, w) ∈ R → st.n w = inf)

/-- the pair `(u, w)` has been accounted for: `w` is finished and `F w ⊆ F u`, or `w` is on the
    stack at a rank that `N u` does not exceed -/
def EdgeOK (st : St) (u w : Nat) : Prop :=
  (st.n w = inf ∧ ∀ a ∈ st.f w, a ∈ st.f u) ∨ st.n u ≤ rank st.S w

def EdgesOK (st : St) (u : Nat) : Prop := ∀ w, (u, w) ∈ R → EdgeOK st u w

/-- the nodes that were marked in `st` are untouched in `st'` -/
def Frame (st st' : St) : Prop := ∀ u, st.n u ≠ 0 → st'.n u = st.n u ∧ st'.f u = st.f u

/-- the stack segment `new` above (and possibly including) `x`: nodes of the component of `x` whose
    scan is complete and whose `N`, `F` have been propagated to `x` -/
def Seg (st : St) (x : Nat) (new : List Nat) : Prop :=
  ∀ u ∈ new, Reach R u x ∧ Reach R x u ∧ st.n x ≤ st.n u ∧ (∀ a ∈ st.f u, a ∈ st.f x) ∧
    EdgesOK R st u

def Pre (st : St) (x : Nat) : Prop :=
  Inv R Fp U st ∧ st.n x = 0 ∧ x ∈ U ∧ ∀ b ∈ st.S, Reach R b x

def Post (st : St) (x : Nat) (st' : St) : Prop :=
  Inv R Fp U st' ∧ Frame st st' ∧ ∃ new, st'.S = new ++ st.S ∧ Seg R st' x new ∧
    ((new = [] ∧ st'.n x = inf) ∨ (x ∈ new ∧ st'.n x ≤ st.S.length))

/-- the loop invariant of the scan of `x` (entered from `st0`); `P w`: the pair `(x, w)` is done -/
def ScanI (st0 : St) (x : Nat) (P : Nat → Prop) (st : St) : Prop :=
  Inv R Fp U st ∧ Frame st0 st ∧ ∃ new, st.S = new ++ x :: st0.S ∧ Seg R st x new ∧
    ∀ w, P w → EdgeOK st x w

variable {R Fp U}

theorem Inv.len_le {st : St} (h : Inv R Fp U st) : st.S.length ≤ U.length :=
  h.nodup.length_le_of_subset (fun u hu => h.inU u hu)

theorem Inv.n_le_len {st : St} (h : Inv R Fp U st) {u : Nat} (hu : u ∈ st.S) :
    st.n u ≤ st.S.length :=
  Nat.le_trans (h.rankle u hu) (rank_le_length u st.S)

theorem Inv.n_ne_zero {st : St} (h : Inv R Fp U st) {u : Nat} (hu : u ∈ st.S) : st.n u ≠ 0 :=
  ((h.gray u).mp hu).1

variable (hU : U.length < inf)
include hU

theorem enter_spec {st0 : St} {x : Nat} (hpre : Pre R Fp U st0 x) :
    ScanI R Fp U st0 x (fun _ => False) (enter Fp x st0) := by
  obtain ⟨hI, hx0, hxU, hb⟩ := hpre
  have hxS : x ∉ st0.S := fun h => hI.n_ne_zero h hx0
  have hnd : (x :: st0.S).Nodup := List.nodup_cons.mpr ⟨hxS, hI.nodup⟩
  have hsub : ∀ u ∈ x :: st0.S, u ∈ U := by
    intro u hu
    rcases List.mem_cons.mp hu with e | e
    · exact e ▸ hxU
    · exact hI.inU u e
  have hlen : st0.S.length + 1 ≤ U.length := hnd.length_le_of_subset (fun u hu => hsub u hu)
  have hne : ∀ u ∈ st0.S, u ≠ x := fun u hu e => hxS (e ▸ hu)
  refine ⟨⟨hnd, hsub, ?_, ?_, ?_, ?_, ?_, ?_, ?_⟩, ?_, [], rfl, ?_, ?_⟩
  · intro u
    rw [enter_S, enter_n]
    by_cases hux : u = x
    · subst hux
      simp only [List.mem_cons, true_or, if_true, true_iff]
      exact ⟨Nat.succ_ne_zero _, fun e => by omega⟩
    · simp only [List.mem_cons, hux, false_or, if_false]
      exact hI.gray u
  · intro u hu
    rw [enter_S, enter_n]
    by_cases hux : u = x
    · subst hux
      simp only [if_true, rank_cons_self]; exact Nat.le_refl _
    · simp only [hux, if_false, rank_cons_ne hux]
      rcases List.mem_cons.mp hu with e | e
      · exact absurd e hux
      · exact hI.rankle u e
  · exact List.pairwise_cons.mpr ⟨hb, hI.chain⟩
  · intro u hu
    rw [enter_S, enter_n]
    by_cases hux : u = x
    · subst hux
      refine ⟨u, ?_, ?_, .refl u⟩
      · rw [rank_cons_self]; exact Nat.succ_pos _
      · simp only [if_true, rank_cons_self]; exact Nat.le_refl _
    · simp only [hux, if_false]
      rcases List.mem_cons.mp hu with e | e
      · exact absurd e hux
      · obtain ⟨z, hz1, hz2, hz3⟩ := hI.low u e
        have hzx : z ≠ x := hne z ((rank_pos_iff z st0.S).mp hz1)
        exact ⟨z, by rw [rank_cons_ne hzx]; exact hz1, by rw [rank_cons_ne hzx]; exact hz2, hz3⟩
  · intro u a
    rw [enter_f]
    by_cases hux : u = x
    · subst hux
      simp only [if_true]
      exact fun ha => ⟨u, .refl u, ha⟩
    · simp only [hux, if_false]
      exact hI.sound u a
  · intro u hu a ha
    rw [enter_f]
    by_cases hux : u = x
    · subst hux; simpa using ha
    · simp only [hux, if_false]
      rcases List.mem_cons.mp hu with e | e
      · exact absurd e hux
      · exact hI.fp u e a ha
  · intro u
    rw [enter_n]
    by_cases hux : u = x
    · subst hux
      simp only [if_true]
      intro e; omega
    · simp only [hux, if_false]
      intro hinf
      obtain ⟨h1, h2⟩ := hI.black u hinf
      refine ⟨fun a ha => ?_, fun w hw => ?_⟩
      · rw [enter_f]; simp only [hux, if_false]; exact h1 a ha
      · have hwx : w ≠ x := fun e => by
          have := h2 w hw
          rw [e, hx0] at this
          exact inf_ne_zero this.symm
        rw [enter_n]; simp only [hwx, if_false]; exact h2 w hw
  · intro u hu
    have hux : u ≠ x := fun e => hu (e ▸ hx0)
    rw [enter_n, enter_f]
    simp only [hux, if_false, and_self]
  · intro u hu; cases hu
  · intro w hw; cases hw

/-- the state after the (possible) recursive call for the pair `(x, y)`, before
    `N[x] = min(N[x], N[y]); F[x] = Union(F[y], F[x])` -/
def Mid (R : List (Nat × Nat)) (Fp : Nat → List Nat) (U : List Nat) (st0 : St) (x y : Nat)
    (P : Nat → Prop) (st : St) : Prop :=
  Inv R Fp U st ∧ Frame st0 st ∧ st.n y ≠ 0 ∧ ∃ new, st.S = new ++ x :: st0.S ∧
    (∀ u ∈ new, Reach R u x ∧ Reach R x u ∧ EdgesOK R st u ∧
      ((st.n x ≤ st.n u ∧ ∀ a ∈ st.f u, a ∈ st.f x) ∨
       (st.n y ≤ st.n u ∧ ∀ a ∈ st.f u, a ∈ st.f y))) ∧
    ∀ w, P w → EdgeOK st x w

omit hU in
theorem edgeOK_relax_other {st : St} {x y u w : Nat} (hux : u ≠ x) (hxinf : st.n x ≠ inf)
    (h : EdgeOK st u w) : EdgeOK (relax x y st) u w := by
  rcases h with ⟨h1, h2⟩ | h
  · have hwx : w ≠ x := fun e => hxinf (e ▸ h1)
    refine Or.inl ⟨?_, ?_⟩
    · rw [relax_n]; simp only [hwx, if_false]; exact h1
    · rw [relax_f, relax_f]; simp only [hwx, hux, if_false]; exact h2
  · refine Or.inr ?_
    rw [relax_n]; simp only [hux, if_false]; exact h

theorem relax_spec {st0 st : St} {x y : Nat} {P : Nat → Prop} (hxy : (x, y) ∈ R)
    (hx0 : st0.n x = 0) (hm : Mid R Fp U st0 x y P st) :
    ScanI R Fp U st0 x (fun w => P w ∨ w = y) (relax x y st) := by
  obtain ⟨hI, hF, hy0, new, hS, hseg, hP⟩ := hm
  have hxS : x ∈ st.S := by rw [hS]; exact List.mem_append_right _ List.mem_cons_self
  have hnd := hI.nodup
  rw [hS] at hnd
  have hxnew : x ∉ new := fun h =>
    (List.nodup_append.mp hnd).2.2 x h x List.mem_cons_self rfl
  have hxg := (hI.gray x).mp hxS
  have hxlen := hI.n_le_len hxS
  have hlen := hI.len_le
  have hmx : min (st.n x) (st.n y) ≤ st.n x := Nat.min_le_left _ _
  have hmy : min (st.n x) (st.n y) ≤ st.n y := Nat.min_le_right _ _
  have hm0 : min (st.n x) (st.n y) ≠ 0 := by
    rw [Nat.min_def]; split
    · exact hxg.1
    · exact hy0
  have hminf : min (st.n x) (st.n y) ≠ inf := fun e => by omega
  have hmcase : min (st.n x) (st.n y) = st.n x ∨
      (min (st.n x) (st.n y) = st.n y ∧ st.n y < st.n x) := by
    rw [Nat.min_def]; split
    · exact Or.inl rfl
    · exact Or.inr ⟨rfl, by omega⟩
  refine ⟨⟨hI.nodup, hI.inU, ?_, ?_, hI.chain, ?_, ?_, ?_, ?_⟩, ?_, new, hS, ?_, ?_⟩
  · intro u
    rw [relax_S, relax_n]
    by_cases hux : u = x
    · subst hux
      simp only [if_true]
      exact ⟨fun _ => ⟨hm0, hminf⟩, fun _ => hxS⟩
    · simp only [hux, if_false]; exact hI.gray u
  · intro u hu
    rw [relax_S, relax_n]
    by_cases hux : u = x
    · subst hux
      simp only [if_true]
      exact Nat.le_trans hmx (hI.rankle u hxS)
    · simp only [hux, if_false]; exact hI.rankle u hu
  · intro u hu
    rw [relax_S, relax_n]
    by_cases hux : u = x
    · subst hux
      simp only [if_true]
      rcases hmcase with e | ⟨e, hlt⟩
      · rw [e]; exact hI.low u hxS
      · rw [e]
        have hyS : y ∈ st.S := (hI.gray y).mpr ⟨hy0, fun e' => by omega⟩
        obtain ⟨z, hz1, hz2, hz3⟩ := hI.low y hyS
        exact ⟨z, hz1, hz2, .head u y z hxy hz3⟩
    · simp only [hux, if_false]; exact hI.low u hu
  · intro u a
    rw [relax_f]
    by_cases hux : u = x
    · subst hux
      simp only [if_true]
      intro ha
      rcases mem_union.mp ha with ha | ha
      · exact Sol.step (Reach.single hxy) (hI.sound y a ha)
      · exact hI.sound u a ha
    · simp only [hux, if_false]; exact hI.sound u a
  · intro u hu a ha
    rw [relax_f]
    by_cases hux : u = x
    · subst hux
      simp only [if_true]
      exact mem_union.mpr (Or.inr (hI.fp u hxS a ha))
    · simp only [hux, if_false]; exact hI.fp u hu a ha
  · intro u
    rw [relax_n]
    by_cases hux : u = x
    · subst hux
      simp only [if_true]
      intro e; exact absurd e hminf
    · simp only [hux, if_false]
      intro hinf
      obtain ⟨h1, h2⟩ := hI.black u hinf
      refine ⟨fun a ha => ?_, fun w hw => ?_⟩
      · rw [relax_f]; simp only [hux, if_false]; exact h1 a ha
      · have hwx : w ≠ x := fun e => hxg.2 (e ▸ h2 w hw)
        rw [relax_n]; simp only [hwx, if_false]; exact h2 w hw
  · intro u hu
    have hux : u ≠ x := fun e => hu (e ▸ hx0)
    rw [relax_n, relax_f]
    simp only [hux, if_false]
    exact hF u hu
  · intro u hu
    have hux : u ≠ x := fun e => hxnew (e ▸ hu)
    obtain ⟨h1, h2, h3, h4⟩ := hseg u hu
    refine ⟨h1, h2, ?_, ?_, fun w hw => edgeOK_relax_other hux hxg.2 (h3 w hw)⟩
    · rw [relax_n, relax_n]
      simp only [hux, if_true, if_false]
      rcases h4 with ⟨h, _⟩ | ⟨h, _⟩
      · exact Nat.le_trans hmx h
      · exact Nat.le_trans hmy h
    · intro a
      rw [relax_f, relax_f]
      simp only [hux, if_true, if_false]
      intro ha
      rcases h4 with ⟨_, h⟩ | ⟨_, h⟩
      · exact mem_union.mpr (Or.inr (h a ha))
      · exact mem_union.mpr (Or.inl (h a ha))
  · intro w hw
    rcases hw with hw | hw
    · rcases hP w hw with ⟨h1, h2⟩ | h
      · have hwx : w ≠ x := fun e => hxg.2 (e ▸ h1)
        refine Or.inl ⟨?_, fun a ha => ?_⟩
        · rw [relax_n]; simp only [hwx, if_false]; exact h1
        · rw [relax_f] at ha ⊢
          simp only [hwx, if_false] at ha
          simp only [if_true]
          exact mem_union.mpr (Or.inr (h2 a ha))
      · refine Or.inr ?_
        rw [relax_n]; simp only [if_true]
        exact Nat.le_trans hmx h
    · subst hw
      by_cases hyinf : st.n w = inf
      · have hwx : w ≠ x := fun e => hxg.2 (e ▸ hyinf)
        refine Or.inl ⟨?_, fun a ha => ?_⟩
        · rw [relax_n]; simp only [hwx, if_false]; exact hyinf
        · rw [relax_f] at ha ⊢
          simp only [hwx, if_false] at ha
          simp only [if_true]
          exact mem_union.mpr (Or.inl ha)
      · have hyS : w ∈ st.S := (hI.gray w).mpr ⟨hy0, hyinf⟩
        refine Or.inr ?_
        rw [relax_n]; simp only [if_true]
        exact Nat.le_trans hmy (hI.rankle w hyS)

omit hU in
theorem mid_of_nocall {st0 st : St} {x y : Nat} {P : Nat → Prop} (hs : ScanI R Fp U st0 x P st)
    (hy : st.n y ≠ 0) : Mid R Fp U st0 x y P st := by
  obtain ⟨hI, hF, new, hS, hseg, hP⟩ := hs
  refine ⟨hI, hF, hy, new, hS, fun u hu => ?_, hP⟩
  obtain ⟨h1, h2, h3, h4, h5⟩ := hseg u hu
  exact ⟨h1, h2, h5, Or.inl ⟨h3, h4⟩⟩

omit hU in
/-- a pair that is accounted for stays so when more nodes are pushed above the stack -/
theorem edgeOK_frame {st st' : St} {A : List Nat} {u w : Nat} (hF : Frame st st')
    (hS : st'.S = A ++ st.S) (hnd : st'.S.Nodup) (hu : st.n u ≠ 0) (h : EdgeOK st u w) :
    EdgeOK st' u w := by
  rcases h with ⟨h1, h2⟩ | h
  · have hw0 : st.n w ≠ 0 := fun e => inf_ne_zero (h1 ▸ e)
    refine Or.inl ⟨(hF w hw0).1.trans h1, ?_⟩
    rw [(hF w hw0).2, (hF u hu).2]; exact h2
  · refine Or.inr ?_
    rw [(hF u hu).1, hS]
    have hpos : 0 < rank st.S w := by omega
    have hwS : w ∈ st.S := (rank_pos_iff w st.S).mp hpos
    rw [hS] at hnd
    have hwA : w ∉ A := fun hA => (List.nodup_append.mp hnd).2.2 w hA w hwS rfl
    rw [rank_append_of_not_mem w st.S A hwA]; exact h

omit hU in
theorem mid_of_call {st0 st st' : St} {x y : Nat} {P : Nat → Prop}
    (hs : ScanI R Fp U st0 x P st) (hpost : Post R Fp U st y st')
    (hb : ∀ b ∈ st0.S, Reach R b x) (hxy : (x, y) ∈ R) : Mid R Fp U st0 x y P st' := by
  obtain ⟨hI, hF, new, hS, hseg, hP⟩ := hs
  obtain ⟨hI', hF', newy, hS', hsegy, hcase⟩ := hpost
  have hxS : x ∈ st.S := by rw [hS]; exact List.mem_append_right _ List.mem_cons_self
  have hx0 : st.n x ≠ 0 := hI.n_ne_zero hxS
  have hallx : ∀ z ∈ st.S, Reach R z x := by
    intro z hz
    rw [hS] at hz
    rcases List.mem_append.mp hz with h | h
    · exact (hseg z h).1
    · rcases List.mem_cons.mp h with e | e
      · rw [e]; exact .refl x
      · exact hb z e
  have hy0 : st'.n y ≠ 0 := by
    rcases hcase with ⟨_, e⟩ | ⟨hy, _⟩
    · exact e ▸ inf_ne_zero
    · exact hI'.n_ne_zero (by rw [hS']; exact List.mem_append_left _ hy)
  refine ⟨hI', fun u hu => ?_, hy0, newy ++ new, by rw [hS', hS, List.append_assoc], ?_, ?_⟩
  · have h1 := hF u hu
    have h2 := hF' u (h1.1 ▸ hu)
    exact ⟨h2.1.trans h1.1, h2.2.trans h1.2⟩
  · intro u hu
    rcases List.mem_append.mp hu with hu | hu
    · obtain ⟨h1, h2, h3, h4, h5⟩ := hsegy u hu
      have hyx : Reach R y x := by
        rcases hcase with ⟨e, _⟩ | ⟨hy, hle⟩
        · rw [e] at hu; cases hu
        · have hyS' : y ∈ st'.S := by rw [hS']; exact List.mem_append_left _ hy
          obtain ⟨z, hz1, hz2, hz3⟩ := hI'.low y hyS'
          rw [hS'] at hz1 hz2
          have hzn : z ∉ newy := fun hz => by
            have := rank_append_of_mem z st.S newy hz
            omega
          rw [rank_append_of_not_mem z st.S newy hzn] at hz1
          exact hz3.trans (hallx z ((rank_pos_iff z st.S).mp hz1))
      exact ⟨h1.trans hyx, .head x y u hxy h2, h5, Or.inr ⟨h3, h4⟩⟩
    · obtain ⟨h1, h2, h3, h4, h5⟩ := hseg u hu
      have huS : u ∈ st.S := by rw [hS]; exact List.mem_append_left _ hu
      have hu0 : st.n u ≠ 0 := hI.n_ne_zero huS
      refine ⟨h1, h2, fun w hw => edgeOK_frame hF' hS' hI'.nodup hu0 (h5 w hw), Or.inl ⟨?_, ?_⟩⟩
      · rw [(hF' u hu0).1, (hF' x hx0).1]; exact h3
      · rw [(hF' u hu0).2, (hF' x hx0).2]; exact h4
  · intro w hw
    exact edgeOK_frame hF' hS' hI'.nodup hx0 (hP w hw)

omit hU in
theorem ScanI.imp {st0 st : St} {x : Nat} {P Q : Nat → Prop} (h : ∀ w, Q w → P w)
    (hs : ScanI R Fp U st0 x P st) : ScanI R Fp U st0 x Q st := by
  obtain ⟨hI, hF, new, hS, hseg, hP⟩ := hs
  exact ⟨hI, hF, new, hS, hseg, fun w hw => hP w (h w hw)⟩

omit hU in
theorem ScanI.reach {st0 st : St} {x : Nat} {P : Nat → Prop} (hs : ScanI R Fp U st0 x P st)
    (hb : ∀ b ∈ st0.S, Reach R b x) : ∀ z ∈ st.S, Reach R z x := by
  obtain ⟨hI, hF, new, hS, hseg, hP⟩ := hs
  intro z hz
  rw [hS] at hz
  rcases List.mem_append.mp hz with h | h
  · exact (hseg z h).1
  · rcases List.mem_cons.mp h with e | e
    · rw [e]; exact .refl x
    · exact hb z e

theorem scan_spec {trav : Nat → St → Option St} {st0 : St} {x : Nat}
    (htrav : ∀ y st st', trav y st = some st' → Pre R Fp U st y → Post R Fp U st y st')
    (hx0 : st0.n x = 0) (hb : ∀ b ∈ st0.S, Reach R b x) (hRU : ∀ e ∈ R, e.2 ∈ U) :
    ∀ (rs : List (Nat × Nat)) (st st' : St) (P : Nat → Prop), (∀ e ∈ rs, e ∈ R) →
      ScanI R Fp U st0 x P st → scan trav x rs st = some st' →
      ScanI R Fp U st0 x (fun w => P w ∨ (x, w) ∈ rs) st' := by
  intro rs
  induction rs with
  | nil =>
    intro st st' P _ hs h
    simp only [scan, Option.some.injEq] at h
    subst h
    exact hs.imp (fun w hw => hw.elim id (fun h => by cases h))
  | cons e rs ih =>
    intro st st' P hsub hs h
    have hrs : ∀ e' ∈ rs, e' ∈ R := fun e' he' => hsub e' (List.mem_cons_of_mem _ he')
    simp only [scan] at h
    by_cases hex : e.1 = x
    · have heR : (x, e.2) ∈ R := by
        have := hsub e List.mem_cons_self
        rw [← hex]; exact this
      simp only [hex, if_true] at h
      have hfin : ∀ st1, Mid R Fp U st0 x e.2 P st1 → scan trav x rs (relax x e.2 st1) = some st' →
          ScanI R Fp U st0 x (fun w => P w ∨ (x, w) ∈ e :: rs) st' := by
        intro st1 hm h1
        refine (ih _ st' _ hrs (relax_spec hU heR hx0 hm) h1).imp ?_
        intro w hw
        rcases hw with hw | hw
        · exact Or.inl (Or.inl hw)
        · rcases List.mem_cons.mp hw with e' | e'
          · exact Or.inl (Or.inr (by rw [← e']))
          · exact Or.inr e'
      by_cases hy : st.n e.2 = 0
      · simp only [hy, if_true] at h
        cases ht : trav e.2 st with
        | none => rw [ht] at h; cases h
        | some st1 =>
          rw [ht] at h
          have hpre : Pre R Fp U st e.2 :=
            ⟨hs.1, hy, hRU (x, e.2) heR, fun b hb' => (hs.reach hb b hb').trans (Reach.single heR)⟩
          exact hfin st1 (mid_of_call hs (htrav _ _ _ ht hpre) hb heR) h
      · simp only [hy, if_false] at h
        exact hfin st (mid_of_nocall hs hy) h
    · simp only [hex, if_false] at h
      refine (ih st st' P hrs hs h).imp ?_
      intro w hw
      rcases hw with hw | hw
      · exact Or.inl hw
      · rcases List.mem_cons.mp hw with e' | e'
        · exact absurd (by rw [← e']) hex
        · exact Or.inr e'

omit hU in
theorem finish_spec {st0 st : St} {x : Nat} {P : Nat → Prop} (hpre : Pre R Fp U st0 x)
    (hs : ScanI R Fp U st0 x P st) (hall : ∀ w, (x, w) ∈ R → P w) :
    Post R Fp U st0 x (finish x (st0.S.length + 1) st) := by
  obtain ⟨hI0, hx0, _, _⟩ := hpre
  obtain ⟨hI, hF, new, hS, hseg, hP⟩ := hs
  -- the segment to be popped (or kept): `A = new ++ [x]`
  have hSA : st.S = (new ++ [x]) ++ st0.S := by rw [hS]; simp
  have hnd := hI.nodup
  rw [hSA] at hnd
  obtain ⟨_, hnd0, hdisj⟩ := List.nodup_append.mp hnd
  have hxA : x ∈ new ++ [x] := List.mem_append_right _ List.mem_cons_self
  have hAS : ∀ u ∈ new ++ [x], u ∈ st.S := fun u hu => by rw [hSA]; exact List.mem_append_left _ hu
  have hA0 : ∀ u ∈ new ++ [x], u ∉ st0.S := fun u hu h0 => hdisj u hu u h0 rfl
  have hsegA : Seg R st x (new ++ [x]) := by
    intro u hu
    rcases List.mem_append.mp hu with h | h
    · exact hseg u h
    · have : u = x := by simpa using h
      subst this
      exact ⟨.refl u, .refl u, Nat.le_refl _, fun a ha => ha, fun w hw => hP w (hall w hw)⟩
  have hnd2 := hI.nodup
  rw [hS] at hnd2
  have hxnew : x ∉ new := fun h => (List.nodup_append.mp hnd2).2.2 x h x List.mem_cons_self rfl
  have hrx : rank st.S x = st0.S.length + 1 := by
    rw [hS, rank_append_of_not_mem x _ new hxnew, rank_cons_self]
  unfold finish
  by_cases hd : st.n x = st0.S.length + 1
  · simp only [hd, if_true]
    obtain ⟨hS', hn0, hf0⟩ := popLoop_spec x st0.S new (setA st.N x inf) st.F hxnew
    rw [← hS] at hS' hn0 hf0
    generalize popLoop x st.S (setA st.N x inf) st.F = st' at hS' hn0 hf0
    have hn' : ∀ u, st'.n u = if u ∈ new ++ [x] then inf else st.n u := by
      intro u
      rw [hn0 u, getA_setA]
      by_cases hux : u = x
      · simp [hux]
      · simp [hux, St.n]
    have hf' : ∀ u, st'.f u = if u ∈ new ++ [x] then st.f x else st.f u := by
      intro u
      rw [hf0 u]
      by_cases hux : u = x
      · simp [hux, St.f]
      · simp [hux, St.f]
    have hn_in : ∀ u ∈ new ++ [x], st'.n u = inf := fun u hu => by rw [hn' u]; simp only [hu, if_true]
    have hn_out : ∀ u, u ∉ new ++ [x] → st'.n u = st.n u := fun u hu => by
      rw [hn' u]; simp only [hu, if_false]
    have hf_in : ∀ u ∈ new ++ [x], st'.f u = st.f x := fun u hu => by rw [hf' u]; simp only [hu, if_true]
    have hf_out : ∀ u, u ∉ new ++ [x] → st'.f u = st.f u := fun u hu => by
      rw [hf' u]; simp only [hu, if_false]
    have hinf : ∀ w, st.n w = inf → st'.n w = inf := fun w hw => by
      by_cases hwA : w ∈ new ++ [x]
      · exact hn_in w hwA
      · exact (hn_out w hwA).trans hw
    have hS0 : ∀ u ∈ st0.S, u ∉ new ++ [x] ∧ u ∈ st.S := fun u hu =>
      ⟨fun hA => hA0 u hA hu, by rw [hSA]; exact List.mem_append_right _ hu⟩
    have hrank0 : ∀ u, u ∉ new ++ [x] → rank st.S u = rank st0.S u := fun u hu => by
      rw [hSA]; exact rank_append_of_not_mem u st0.S _ hu
    have hbig : ∀ u ∈ new ++ [x], st0.S.length + 1 ≤ st.n u := fun u hu => hd ▸ (hsegA u hu).2.2.1
    -- everything reachable from the segment has been absorbed by `F x`
    have hclos : ∀ u v, Reach R u v → u ∈ new ++ [x] → ∀ a ∈ Fp v, a ∈ st.f x := by
      intro u v huv
      induction huv with
      | refl u => intro hu a ha; exact (hsegA u hu).2.2.2.1 a (hI.fp u (hAS u hu) a ha)
      | head u w v huw hwv ih =>
        intro hu a ha
        rcases (hsegA u hu).2.2.2.2 w huw with ⟨h1, h2⟩ | h
        · exact (hsegA u hu).2.2.2.1 a (h2 a ((hI.black w h1).1 a ⟨v, hwv, ha⟩))
        · have := hbig u hu
          refine ih (mem_of_rank_gt (B := st0.S) ?_) a ha
          rw [← hSA]; omega
    refine ⟨⟨hS' ▸ hnd0, ?_, ?_, ?_, ?_, ?_, ?_, ?_, ?_⟩, ?_, [], by rw [hS']; rfl,
      fun u hu => (by cases hu), Or.inl ⟨rfl, hn_in x hxA⟩⟩
    · intro u hu; rw [hS'] at hu; exact hI.inU u (hS0 u hu).2
    · intro u
      rw [hS']
      by_cases hu : u ∈ new ++ [x]
      · rw [hn_in u hu]
        exact ⟨fun h0 => absurd h0 (hA0 u hu), fun h => absurd rfl h.2⟩
      · rw [hn_out u hu, ← hI.gray u]
        refine ⟨fun h => (hS0 u h).2, fun h => ?_⟩
        rw [hSA] at h
        rcases List.mem_append.mp h with h | h
        · exact absurd h hu
        · exact h
    · intro u hu
      rw [hS'] at hu ⊢
      obtain ⟨h1, h2⟩ := hS0 u hu
      rw [hn_out u h1, ← hrank0 u h1]; exact hI.rankle u h2
    · rw [hS']
      have := hI.chain
      rw [hSA] at this
      exact (List.pairwise_append.mp this).2.1
    · intro u hu
      rw [hS'] at hu ⊢
      obtain ⟨h1, h2⟩ := hS0 u hu
      obtain ⟨z, hz1, hz2, hz3⟩ := hI.low u h2
      have hzA : z ∉ new ++ [x] := fun hz => by
        have h3 := rank_append_of_mem z st0.S _ hz
        rw [← hSA] at h3
        have h4 := hI.rankle u h2
        rw [hrank0 u h1] at h4
        have h5 := rank_le_length u st0.S
        omega
      rw [hn_out u h1]
      rw [hrank0 z hzA] at hz1 hz2
      exact ⟨z, hz1, hz2, hz3⟩
    · intro u a ha
      by_cases hu : u ∈ new ++ [x]
      · rw [hf_in u hu] at ha
        exact Sol.step (hsegA u hu).1 (hI.sound x a ha)
      · rw [hf_out u hu] at ha
        exact hI.sound u a ha
    · intro u hu a ha
      rw [hS'] at hu
      obtain ⟨h1, h2⟩ := hS0 u hu
      rw [hf_out u h1]; exact hI.fp u h2 a ha
    · intro u hinf'
      by_cases hu : u ∈ new ++ [x]
      · refine ⟨fun a ha => ?_, fun w hw => ?_⟩
        · obtain ⟨v, hv, hav⟩ := ha
          rw [hf_in u hu]; exact hclos u v hv hu a hav
        · rcases (hsegA u hu).2.2.2.2 w hw with ⟨h1, _⟩ | h
          · exact hinf w h1
          · have := hbig u hu
            refine hn_in w (mem_of_rank_gt (B := st0.S) ?_)
            rw [← hSA]; omega
      · rw [hn_out u hu] at hinf'
        obtain ⟨h1, h2⟩ := hI.black u hinf'
        refine ⟨fun a ha => ?_, fun w hw => hinf w (h2 w hw)⟩
        rw [hf_out u hu]; exact h1 a ha
    · intro u hu
      have huA : u ∉ new ++ [x] := fun hA => by
        have h1 := hF u hu
        have h2 := (hI.gray u).mp (hAS u hA)
        rw [h1.1] at h2
        exact hA0 u hA ((hI0.gray u).mpr h2)
      rw [hn_out u huA, hf_out u huA]; exact hF u hu
  · simp only [hd, if_false]
    refine ⟨hI, hF, new ++ [x], hSA, hsegA, Or.inr ⟨hxA, ?_⟩⟩
    have := hI.rankle x (hAS x hxA)
    rw [hrx] at this
    omega

/-- the specification of `Traverse` -/
theorem traverse_spec (hRU : ∀ e ∈ R, e.2 ∈ U) : ∀ (fuel x : Nat) (st st' : St),
    traverse R Fp fuel x st = some st' → Pre R Fp U st x → Post R Fp U st x st' := by
  intro fuel
  induction fuel with
  | zero => intro x st st' h; simp only [traverse] at h; cases h
  | succ fuel ih =>
    intro x st st' h hpre
    simp only [traverse] at h
    cases hsc : scan (traverse R Fp fuel) x R (enter Fp x st) with
    | none => rw [hsc] at h; cases h
    | some st2 =>
      rw [hsc] at h
      simp only [Option.some.injEq] at h
      subst h
      have h1 := scan_spec hU (fun y st st' => ih y st st') hpre.2.1 hpre.2.2.2 hRU R _ st2 _
        (fun e he => he) (enter_spec hU hpre) hsc
      exact finish_spec hpre h1 (fun w hw => Or.inr hw)

omit hU in
theorem Frame.mono {st st' : St} (h : Frame st st') : Mono st st' :=
  fun u hu => (h u hu).1 ▸ hu

theorem roots_spec (hRU : ∀ e ∈ R, e.2 ∈ U) (fuel : Nat) : ∀ (xs : List Nat) (st st' : St),
    roots R Fp fuel xs st = some st' → Inv R Fp U st → st.S = [] → (∀ x ∈ xs, x ∈ U) →
    Inv R Fp U st' ∧ st'.S = [] ∧ Mono st st' ∧ ∀ x ∈ xs, st'.n x ≠ 0 := by
  intro xs
  induction xs with
  | nil =>
    intro st st' h hI hS _
    simp only [roots, Option.some.injEq] at h
    subst h
    exact ⟨hI, hS, Mono.refl st, fun x hx => by cases hx⟩
  | cons x xs ih =>
    intro st st' h hI hS hXU
    have hxs : ∀ x' ∈ xs, x' ∈ U := fun x' h => hXU x' (List.mem_cons_of_mem _ h)
    simp only [roots] at h
    by_cases h0 : st.n x = 0
    · simp only [h0, if_true] at h
      cases ht : traverse R Fp fuel x st with
      | none => rw [ht] at h; cases h
      | some st1 =>
        rw [ht] at h
        have hpre : Pre R Fp U st x :=
          ⟨hI, h0, hXU x List.mem_cons_self, fun b hb => by rw [hS] at hb; cases hb⟩
        obtain ⟨hI1, hF1, new, hS1, _, hcase⟩ := traverse_spec hU hRU fuel x st st1 ht hpre
        have hnew : new = [] ∧ st1.n x = inf := by
          rcases hcase with hc | ⟨hx, hle⟩
          · exact hc
          · have hxS1 : x ∈ st1.S := by rw [hS1]; exact List.mem_append_left _ hx
            have := hI1.n_ne_zero hxS1
            rw [hS] at hle
            exact absurd (Nat.le_zero.mp hle) this
        have hS1' : st1.S = [] := by rw [hS1, hnew.1, hS]; rfl
        obtain ⟨hI', hS', hm, hall⟩ := ih st1 st' h hI1 hS1' hxs
        refine ⟨hI', hS', hF1.mono.trans hm, fun x' hx' => ?_⟩
        rcases List.mem_cons.mp hx' with e | e
        · rw [e]; exact hm x (hnew.2 ▸ inf_ne_zero)
        · exact hall x' e
    · simp only [h0, if_false] at h
      obtain ⟨hI', hS', hm, hall⟩ := ih st st' h hI hS hxs
      refine ⟨hI', hS', hm, fun x' hx' => ?_⟩
      rcases List.mem_cons.mp hx' with e | e
      · rw [e]; exact hm x h0
      · exact hall x' e

omit hU in
theorem inv_init : Inv R Fp U { N := [], S := [], F := [] } := by
  refine ⟨List.nodup_nil, fun u hu => (by cases hu), fun u => ?_, fun u hu => (by cases hu),
    List.Pairwise.nil, fun u hu => (by cases hu), fun u a ha => (by cases ha),
    fun u hu => (by cases hu), fun u hu => absurd hu.symm inf_ne_zero⟩
  exact ⟨fun hu => (by cases hu), fun h => absurd rfl h.1⟩

end inv

/-- the result of `Digraph`: `F` is sound everywhere, and on every node reachable from a node of
    `X` it contains the least solution -/
theorem digraphSt_spec {X : List Nat} {R : List (Nat × Nat)} {Fp : Nat → List Nat} {st : St}
    (hlen : X.length + R.length < inf) (h : digraphSt X R Fp = some st) :
    (∀ u a, a ∈ st.f u → Sol R Fp u a) ∧
    (∀ x ∈ X, ∀ u, Reach R x u → ∀ a, Sol R Fp u a → a ∈ st.f u) := by
  unfold digraphSt at h
  have hU : (univ X R).length < inf := by rw [univ_length]; exact hlen
  obtain ⟨hI, hS, _, hall⟩ := roots_spec hU mem_univ_right _ X _ st h inv_init rfl
    (fun x hx => mem_univ_left hx)
  have hblack : ∀ u, st.n u ≠ 0 → st.n u = inf := by
    intro u hu
    refine Classical.byContradiction fun hne => ?_
    have := (hI.gray u).mpr ⟨hu, hne⟩
    rw [hS] at this; cases this
  have hreach : ∀ x u, Reach R x u → st.n x = inf → st.n u = inf := by
    intro x u hxu
    induction hxu with
    | refl _ => exact id
    | head x y z hxy _ ih => exact fun hx' => ih ((hI.black x hx').2 y hxy)
  exact ⟨hI.sound, fun x hx u hxu => (hI.black u (hreach x u hxu (hblack x (hall x hx)))).1⟩

/-! ## the function-valued result `digraph` -/

theorem digraph_total (X : List Nat) (R : List (Nat × Nat)) (Fp : Nat → List Nat) :
    ∃ F, digraph X R Fp = some F := by
  obtain ⟨st, hst⟩ := digraphSt_total X R Fp
  exact ⟨st.f, by unfold digraph; rw [hst]; rfl⟩

theorem digraph_some {X : List Nat} {R : List (Nat × Nat)} {Fp F : Nat → List Nat}
    (h : digraph X R Fp = some F) : ∃ st, digraphSt X R Fp = some st ∧ F = st.f := by
  unfold digraph at h
  cases hst : digraphSt X R Fp with
  | none => rw [hst] at h; cases h
  | some st =>
    rw [hst] at h
    simp only [Option.map_some, Option.some.injEq] at h
    exact ⟨st, rfl, h.symm⟩

theorem digraph_sound {X : List Nat} {R : List (Nat × Nat)} {Fp F : Nat → List Nat}
    (hlen : X.length + R.length < inf) (h : digraph X R Fp = some F) (u a : Nat)
    (ha : a ∈ F u) : ∃ y, Reach R u y ∧ a ∈ Fp y := by
  obtain ⟨st, hst, rfl⟩ := digraph_some h
  exact (digraphSt_spec hlen hst).1 u a ha

theorem digraph_least_reach {X : List Nat} {R : List (Nat × Nat)} {Fp F : Nat → List Nat}
    (hlen : X.length + R.length < inf) (h : digraph X R Fp = some F)
    {x : Nat} (hx : x ∈ X) {u : Nat} (hu : Reach R x u) (a : Nat) :
    a ∈ F u ↔ ∃ y, Reach R u y ∧ a ∈ Fp y := by
  obtain ⟨st, hst, rfl⟩ := digraph_some h
  exact ⟨(digraphSt_spec hlen hst).1 u a, (digraphSt_spec hlen hst).2 x hx u hu a⟩

theorem digraph_least {X : List Nat} {R : List (Nat × Nat)} {Fp F : Nat → List Nat}
    (hlen : X.length + R.length < inf) (h : digraph X R Fp = some F)
    {x : Nat} (hx : x ∈ X) (a : Nat) : a ∈ F x ↔ ∃ y, Reach R x y ∧ a ∈ Fp y :=
  digraph_least_reach hlen h hx (.refl x) a

end Y.DG

/-! ## `Digraph` at the three call sites of `LALR.go`, against the least solutions of `Y.DP` -/
namespace Y.DGP
open Y Y.DP

theorem dpReach_iff {init : List (List Sym)} {rel : List (Nat × Nat)} {i : Nat} {a : Sym} :
    DP.Reach init rel i a ↔ ∃ y, DG.Reach rel i y ∧ a ∈ init.getD y [] := by
  constructor
  · intro h
    induction h with
    | base i a ha => exact ⟨i, .refl i, ha⟩
    | step i j a hij _ ih =>
      obtain ⟨y, hy, ha⟩ := ih
      exact ⟨y, .head i j y hij hy, ha⟩
  · rintro ⟨y, hy, ha⟩
    induction hy with
    | refl i => exact .base i a ha
    | head i j y hij _ ih => exact .step i j a hij (ih ha)

/-! ## the three call sites -/
section sites
variable {G : Grammar} {A : Auto} {nl : List Sym} {ts : List Tr}

theorem mem_keysOf {i : Nat} : i ∈ DG.keysOf G ts ↔ ∃ t, ts[i]? = some t ∧ isKey G i t = true := by
  unfold DG.keysOf
  simp only [List.mem_filterMap]
  constructor
  · rintro ⟨⟨t, i'⟩, hti, he⟩
    have hti' : ts[i']? = some t := List.mem_zipIdx_iff_getElem?.mp hti
    simp only at he
    split at he
    · rename_i hk
      simp only [Option.some.injEq] at he
      subst he
      exact ⟨t, hti', hk⟩
    · cases he
  · rintro ⟨t, hi, hk⟩
    exact ⟨(t, i), List.mem_zipIdx_iff_getElem?.mpr hi, by simp [hk]⟩

theorem mem_redsOf {x : Nat} : x ∈ DG.redsOf ts ↔ ∃ t r, ts[x]? = some t ∧ t.kind = .rule r := by
  unfold DG.redsOf
  simp only [List.mem_filterMap]
  constructor
  · rintro ⟨⟨t, x'⟩, htx, he⟩
    have htx' : ts[x']? = some t := List.mem_zipIdx_iff_getElem?.mp htx
    simp only at he
    split at he
    · cases he
    · rename_i r hk
      simp only [Option.some.injEq] at he
      subst he
      exact ⟨t, r, htx', hk⟩
  · rintro ⟨t, r, hx, hk⟩
    refine ⟨(t, x), List.mem_zipIdx_iff_getElem?.mpr hx, ?_⟩
    simp only [hk]

theorem mem_getD_tabulate {n : Nat} {F : Nat → List Sym} {i : Nat} {a : Sym} :
    a ∈ (DG.tabulate n F).getD i [] ↔ i < n ∧ a ∈ F i := by
  unfold DG.tabulate
  rw [List.getD_eq_getElem?_getD, List.getElem?_map]
  by_cases h : i < n
  · rw [List.getElem?_range h]; simp [h]
  · rw [List.getElem?_eq_none (by simpa using h)]; simp [h]

theorem getElem?_lt {α : Type} {l : List α} {i : Nat} {t : α} (h : l[i]? = some t) : i < l.length := by
  rcases Nat.lt_or_ge i l.length with hlt | hge
  · exact hlt
  · rw [List.getElem?_eq_none hge] at h; cases h

/-- only keys have a non-empty `Read` set in the least solution -/
theorem reach_reads_key {i : Nat} {a : Sym} (h : DP.Reach (dr G ts) (readsRel G nl ts) i a) :
    ∃ t, ts[i]? = some t ∧ isKey G i t = true := by
  cases h with
  | base _ _ ha =>
    rcases mem_dr.mp ha with ⟨t, hi, hd⟩ | ⟨rfl, hne, _⟩
    · refine ⟨t, hi, ?_⟩
      unfold drOf at hd
      split at hd
      · rename_i hnt; simp [isKey, hnt]
      · cases hd
    · cases ts with
      | nil => exact absurd rfl hne
      | cons t _ => exact ⟨t, rfl, by simp [isKey]⟩
  | step _ j _ hij _ =>
    obtain ⟨t, _, hi, _, hk, _⟩ := mem_readsRel.mp hij
    exact ⟨t, hi, hk⟩

/-- stage 1 (`CalcReadSet`) -/
theorem dg_read_iff {rd : Nat → List Sym}
    (hsz : (DG.keysOf G ts).length + (readsRel G nl ts).length < DG.inf)
    (hd : DG.digraph (DG.keysOf G ts) (readsRel G nl ts) (fun i => (dr G ts).getD i []) = some rd)
    (i : Nat) (a : Sym) : a ∈ rd i ↔ DP.Reach (dr G ts) (readsRel G nl ts) i a := by
  constructor
  · intro ha
    exact dpReach_iff.mpr (DG.digraph_sound hsz hd i a ha)
  · intro h
    exact (DG.digraph_least hsz hd (mem_keysOf.mpr (reach_reads_key h)) a).mpr
      (dpReach_iff.mp h)

/-- stage 2 (`CalcFollowSet`), for any list `rdL` that tabulates the map `rd` of stage 1 -/
theorem dg_follow_iff {rd fo : Nat → List Sym} {rdL : List (List Sym)}
    (hsz1 : (DG.keysOf G ts).length + (readsRel G nl ts).length < DG.inf)
    (hd1 : DG.digraph (DG.keysOf G ts) (readsRel G nl ts) (fun i => (dr G ts).getD i []) = some rd)
    (hsz : (DG.keysOf G ts).length + (includesRel G A nl ts).length < DG.inf)
    (hd : DG.digraph (DG.keysOf G ts) (includesRel G A nl ts) rd = some fo)
    (hrdL : ∀ i a, a ∈ rdL.getD i [] ↔ a ∈ rd i)
    (i : Nat) (a : Sym) : a ∈ fo i ↔ DP.Reach rdL (includesRel G A nl ts) i a := by
  constructor
  · intro ha
    obtain ⟨y, hy, hay⟩ := DG.digraph_sound hsz hd i a ha
    exact dpReach_iff.mpr ⟨y, hy, (hrdL y a).mpr hay⟩
  · intro h
    have hkey : ∃ t, ts[i]? = some t ∧ isKey G i t = true := by
      cases h with
      | base _ _ ha => exact reach_reads_key ((dg_read_iff hsz1 hd1 i a).mp ((hrdL i a).mp ha))
      | step _ j _ hij _ =>
        obtain ⟨t, _, hi, hk, _⟩ := mem_includesRel.mp hij
        exact ⟨t, hi, hk⟩
    obtain ⟨y, hy, hay⟩ := dpReach_iff.mp h
    exact (DG.digraph_least hsz hd (mem_keysOf.mpr hkey) a).mpr ⟨y, hy, (hrdL y a).mp hay⟩

/-- stage 3 (`CalcLookAheadSet`): a reduce transition `x` whose own entry in `FollowSet` is empty
    gets the union of the `Follow` sets it looks back to -/
theorem dg_la_iff {fo la : Nat → List Sym}
    (hsz : (DG.redsOf ts).length + (lookbackRel G A ts).length < DG.inf)
    (hd : DG.digraph (DG.redsOf ts) (lookbackRel G A ts) fo = some la)
    {x : Nat} {t : Tr} {r : Nat} (hx : ts[x]? = some t) (hk : t.kind = .rule r)
    (hempty : ∀ a, a ∉ fo x) (a : Sym) :
    a ∈ la x ↔ ∃ y, (x, y) ∈ lookbackRel G A ts ∧ a ∈ fo y := by
  rw [DG.digraph_least hsz hd (mem_redsOf.mpr ⟨t, r, hx, hk⟩) a]
  constructor
  · rintro ⟨y, hy, ha⟩
    cases hy with
    | refl _ => exact absurd ha (hempty a)
    | head _ y1 _ h1 h2 =>
      cases h2 with
      | refl _ => exact ⟨_, h1, ha⟩
      | head _ z _ h3 _ =>
        obtain ⟨_, _, _, _, hy1⟩ := mem_lookbackRel.mp h1
        obtain ⟨u, hu, _, hku, _⟩ := mem_lookbackTo.mp hy1
        obtain ⟨t', r', hu', hk', _⟩ := mem_lookbackRel.mp h3
        rw [hu] at hu'; cases hu'
        rw [hku] at hk'; cases hk'
  · rintro ⟨y, hy, ha⟩
    exact ⟨y, DG.Reach.single hy, ha⟩

theorem mem_laOf_raw {lb : List (Nat × Nat)} {fol : List (List Sym)} {x : Nat} {t : Tr} {r : Nat}
    (hk : t.kind = .rule r) (hr : r ≠ 0) (a : Sym) :
    a ∈ laOf lb fol x t ↔ ∃ y, (x, y) ∈ lb ∧ a ∈ fol.getD y [] := by
  unfold laOf
  rw [hk]
  simp only [hr, if_false, mem_sortS, List.mem_flatMap]
  constructor
  · rintro ⟨⟨x', y⟩, he, ha⟩
    simp only at ha
    split at ha
    · rename_i hxx
      have : x' = x := by simpa using hxx
      subst this
      exact ⟨y, he, ha⟩
    · cases ha
  · rintro ⟨y, he, ha⟩
    exact ⟨(x, y), he, by simpa using ha⟩

theorem dpReach_congr {l1 l2 : List (List Sym)} {rel : List (Nat × Nat)}
    (h : ∀ i a, a ∈ l1.getD i [] ↔ a ∈ l2.getD i []) (i : Nat) (a : Sym) :
    DP.Reach l1 rel i a ↔ DP.Reach l2 rel i a := by
  rw [dpReach_iff, dpReach_iff]
  exact ⟨fun ⟨y, hy, ha⟩ => ⟨y, hy, (h y a).mp ha⟩, fun ⟨y, hy, ha⟩ => ⟨y, hy, (h y a).mpr ha⟩⟩

theorem laOf_congr {lb : List (Nat × Nat)} {f1 f2 : List (List Sym)}
    (h : ∀ i a, a ∈ f1.getD i [] ↔ a ∈ f2.getD i []) (x : Nat) (t : Tr) (a : Sym) :
    a ∈ laOf lb f1 x t ↔ a ∈ laOf lb f2 x t := by
  cases hk : t.kind with
  | sym X => unfold laOf; rw [hk]
  | rule r =>
    by_cases hr : r = 0
    · unfold laOf; rw [hk]; simp only [hr, if_true]
    · rw [mem_laOf_raw hk hr, mem_laOf_raw hk hr]
      exact ⟨fun ⟨y, hy, ha⟩ => ⟨y, hy, (h y a).mp ha⟩, fun ⟨y, hy, ha⟩ => ⟨y, hy, (h y a).mpr ha⟩⟩

theorem stagesDG_some {sd : Stages} (h : DG.stagesDG G A nl = some sd) : ∃ rd fo la,
    DG.digraph (DG.keysOf G (trans G A)) (readsRel G nl (trans G A))
      (fun i => (dr G (trans G A)).getD i []) = some rd ∧
    DG.digraph (DG.keysOf G (trans G A)) (includesRel G A nl (trans G A)) rd = some fo ∧
    DG.digraph (DG.redsOf (trans G A)) (lookbackRel G A (trans G A)) fo = some la ∧
    sd = { trans := trans G A, dr := dr G (trans G A), reads := readsRel G nl (trans G A),
           read := DG.tabulate (trans G A).length rd,
           includes := includesRel G A nl (trans G A),
           follow := DG.tabulate (trans G A).length fo,
           lookback := lookbackRel G A (trans G A),
           la := (trans G A).zipIdx.map fun tx => DG.laOfDG la tx.2 tx.1 } := by
  unfold DG.stagesDG at h
  split at h
  · cases h
  · rename_i rd hrd
    split at h
    · cases h
    · rename_i fo hfo
      split at h
      · cases h
      · rename_i la hla
        cases h
        exact ⟨rd, fo, la, hrd, hfo, hla, rfl⟩

theorem dgSizeOK_ok (h : DG.dgSizeOK G A nl = true) :
    (DG.keysOf G (trans G A)).length + (readsRel G nl (trans G A)).length < DG.inf ∧
    (DG.keysOf G (trans G A)).length + (includesRel G A nl (trans G A)).length < DG.inf ∧
    (DG.redsOf (trans G A)).length + (lookbackRel G A (trans G A)).length < DG.inf := by
  unfold DG.dgSizeOK at h
  simp only [Bool.and_eq_true, decide_eq_true_eq] at h
  exact ⟨h.1.1, h.1.2, h.2⟩

/-- with `dpStartOK`, a reduce transition is not a key -/
theorem reduce_not_key (hS : dpStartOK G A = true) {x : Nat} {t : Tr} {r : Nat}
    (hx : (trans G A)[x]? = some t) (hk : t.kind = .rule r) : isKey G x t = false := by
  obtain ⟨t0, S, h0, _, _, hk0⟩ := dpStart_ok hS
  cases hkey : isKey G x t with
  | false => rfl
  | true =>
    have hnt : isNT G t = false := by unfold isNT; rw [hk]
    simp only [isKey, hnt, Bool.or_false, beq_iff_eq] at hkey
    subst hkey
    rw [h0] at hx; cases hx
    rw [hk0] at hk; cases hk

/-- the stage sets of `stagesDG` are the least solutions (and its lookahead lists have the elements
    of `laOf` on its `Follow` lists) -/
theorem stagesDG_sets {sd : Stages} (hsz : DG.dgSizeOK G A nl = true) (hS : dpStartOK G A = true)
    (hsd : DG.stagesDG G A nl = some sd) :
    (∀ i a, a ∈ sd.read.getD i [] ↔
      DP.Reach (dr G (trans G A)) (readsRel G nl (trans G A)) i a) ∧
    (∀ i a, a ∈ sd.follow.getD i [] ↔ DP.Reach sd.read (includesRel G A nl (trans G A)) i a) ∧
    (∀ x t, (trans G A)[x]? = some t → ∀ a, a ∈ sd.la.getD x [] ↔
      a ∈ laOf (lookbackRel G A (trans G A)) sd.follow x t) := by
  obtain ⟨rd, fo, la, hrd, hfo, hla, rfl⟩ := stagesDG_some hsd
  obtain ⟨hz1, hz2, hz3⟩ := dgSizeOK_ok hsz
  simp only
  have h1 := dg_read_iff hz1 hrd
  have hrdL : ∀ i a, a ∈ (DG.tabulate (trans G A).length rd).getD i [] ↔ a ∈ rd i := by
    intro i a
    rw [mem_getD_tabulate]
    refine ⟨fun h => h.2, fun h => ⟨?_, h⟩⟩
    obtain ⟨t, ht, _⟩ := reach_reads_key ((h1 i a).mp h)
    exact getElem?_lt ht
  have h2 := dg_follow_iff hz1 hrd hz2 hfo hrdL
  have hfokey : ∀ i a, a ∈ fo i → ∃ t, (trans G A)[i]? = some t ∧ isKey G i t = true := by
    intro i a ha
    cases (h2 i a).mp ha with
    | base _ _ hb => exact reach_reads_key ((h1 i a).mp ((hrdL i a).mp hb))
    | step _ j _ hij _ =>
      obtain ⟨t, _, hi, hk, _⟩ := mem_includesRel.mp hij
      exact ⟨t, hi, hk⟩
  have hfoL : ∀ i a, a ∈ (DG.tabulate (trans G A).length fo).getD i [] ↔ a ∈ fo i := by
    intro i a
    rw [mem_getD_tabulate]
    refine ⟨fun h => h.2, fun h => ⟨?_, h⟩⟩
    obtain ⟨t, ht, _⟩ := hfokey i a h
    exact getElem?_lt ht
  refine ⟨fun i a => (hrdL i a).trans (h1 i a), fun i a => (hfoL i a).trans (h2 i a), ?_⟩
  intro x t hx a
  rw [List.getD_eq_getElem?_getD, getElem?_map_zipIdx, hx]
  simp only [Option.map_some, Option.getD_some]
  cases hk : t.kind with
  | sym X => unfold DG.laOfDG laOf; rw [hk]
  | rule r =>
    by_cases hr : r = 0
    · unfold DG.laOfDG laOf; rw [hk]; simp only [hr, if_true]
    · have hempty : ∀ a, a ∉ fo x := by
        intro a ha
        obtain ⟨t', ht', hkey⟩ := hfokey x a ha
        rw [hx] at ht'; cases ht'
        rw [reduce_not_key hS hx hk] at hkey; cases hkey
      have : DG.laOfDG la x t = la x := by unfold DG.laOfDG; rw [hk]; simp only [hr, if_false]
      rw [this, dg_la_iff hz3 hla hx hk hempty a, mem_laOf_raw hk hr]
      exact ⟨fun ⟨y, hy, ha⟩ => ⟨y, hy, (hfoL y a).mpr ha⟩,
        fun ⟨y, hy, ha⟩ => ⟨y, hy, (hfoL y a).mp ha⟩⟩

end sites

end Y.DGP
