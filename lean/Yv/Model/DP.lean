import Yv.Cert.LAOracle
/-! # Executable model of yaccgo's DeRemer–Pennello lookahead computation (`LALR/LALR.go`)

The data are the grammar `G`, the LR(0) automaton `A` (items per state, ordered goto list per
state) and the nullable list `nl` (`nullableL G nS` in the top-level entry points).  The stages mirror

* `BuildTrans`      — `trans`: goto transitions of all states (state order, stored goto order), then the
                      reduce transitions, then a STABLE sort by state; index = position;
* `CalcDR`/`fetchOneDr` — `dr`: per nonterminal transition the terminals that label a transition out
                      of its target; `DRSet[0]` gets `$` (= 1) appended;
* `calcReadsRelation`   — `readsRel`: `(i, j)` when `j` is a transition on a NULLABLE NONTERMINAL out
                      of the target of the key `i`  (keys = indices in `DRSet` = nonterminal
                      transitions and index 0);
* `CaclIncludeRelation` — `includesRel` (rule `C → β B γ`, `γ` nullable, a state `q'` holding an item
                      of that rule, `walk q' β` = source of the key, first transition `(q', C)`);
* `CalcLookbacks`       — `lookbackRel` (reduce transition `(q, C → ω)`, key `(p, C)`, `walk p ω = q`);
* `CalcReadSet` / `CalcFollowSet` / `CalcLookAheadSet` — `readSet`, `followSet`, `laSet`.

The relations are mirrored AS SETS (not in the implementation's iteration order, which ranges over
Go maps).  The implementation's SCC-based `Digraph`/`Traverse` is NOT re-implemented: `readSet` and
`followSet` are the LEAST solutions of `F x = F' x ∪ ⋃ {F y | x R y}`, computed by a fuelled in-place
iteration followed by a final Bool closedness check (`solve`, in the style of `laL`), and `laSet x`
is `⋃ {Follow y | x lookback y}` (`[1]` for rule 0, as in `CalcLookAheadSet`).  The implementation's
`Digraph` is then validated per run by comparing its ReadSet / FollowSet / lookahead sets with these
least solutions.  `Yv/Props/C03b.lean` proves that the least solutions are exactly the LALR(1)
lookahead sets (`C03_dp_exact`), under `gramWF`, `certA`, `certCanon`, `prodOK` and `dpStartOK`.

Entry points: `stages G nS A` (nullable list = the model's `nullableL G nS`, which must pass
`nullClosed`), `stagesWith G A nl` (nullable list given, e.g. the implementation's flags; the theorem
then also needs `nullExactB G nS nl`), `laLinesDP` / `laLinesDPWith` (same format as `Y.laLines`), and
the printable views `Stages.transRows`, `Stages.keyRows`, `Stages.laRows`, `Stages.readsSorted`,
`Stages.includesSorted`, `Stages.lookbackSorted`. -/
namespace Y.DP
open Y

/-- what a transition is labelled with: a grammar symbol, or (reduce transition) a rule -/
inductive Kind where
  | sym (X : Sym) : Kind
  | rule (r : Nat) : Kind
deriving DecidableEq, Repr

/-- `Transistor` of `LALR.go` (`Index` is the position in the list) -/
structure Tr where
  q : Nat
  kind : Kind
  to : Nat
deriving DecidableEq, Repr

/-- the `to` field of a reduce transition -/
def maxInt : Nat := 9223372036854775807

/-- `walk`: follow the goto transitions from a state along a symbol sequence -/
def walk (goto : Nat → Sym → Option Nat) : Nat → List Sym → Option Nat
  | q, [] => some q
  | q, X :: γ =>
    match goto q X with
    | none => none
    | some p => walk goto p γ

/-! ## `BuildTrans` -/

def gotoTrs (A : Auto) : List Tr :=
  (List.range A.n).flatMap fun q => (A.gts q).map fun e => (⟨q, .sym e.1, e.2⟩ : Tr)

def redTrs (G : Grammar) (A : Auto) : List Tr :=
  (List.range A.n).flatMap fun q => (A.its q).filterMap fun it =>
    if it.d == (G.rhsOf it.r).length then some (⟨q, .rule it.r, maxInt⟩ : Tr) else none

/-- stable insertion: before the first element whose state is not smaller -/
def insQ (x : Tr) : List Tr → List Tr
  | [] => [x]
  | y :: ys => if x.q ≤ y.q then x :: y :: ys else y :: insQ x ys

/-- stable sort by state (`sort.SliceStable` with `less = q_i < q_j`) -/
def sortQ (l : List Tr) : List Tr := l.foldr insQ []

def trans (G : Grammar) (A : Auto) : List Tr := sortQ (gotoTrs A ++ redTrs G A)

/-! ## classification of transitions -/

def Tr.symOf (t : Tr) : Option Sym :=
  match t.kind with
  | .sym X => some X
  | .rule _ => none

/-- `isNonSymIndex` -/
def isNT (G : Grammar) (t : Tr) : Bool :=
  match t.kind with
  | .sym X => !G.isT X
  | .rule _ => false

/-- `isTermSymIndex` -/
def isTm (G : Grammar) (t : Tr) : Bool :=
  match t.kind with
  | .sym X => G.isT X
  | .rule _ => false

/-- `isNonAndEpsilonSymIndex` -/
def isNullNT (G : Grammar) (nl : List Sym) (t : Tr) : Bool :=
  match t.kind with
  | .sym X => !G.isT X && nl.contains X
  | .rule _ => false

/-- the keys of `DRSet`: the nonterminal transitions, and index 0 -/
def isKey (G : Grammar) (i : Nat) (t : Tr) : Bool := i == 0 || isNT G t

/-- `seqenceCanEpsilon` -/
def nullSeqL (nl : List Sym) (γ : List Sym) : Bool := γ.all fun x => nl.contains x

/-! ## `CalcDR` -/

/-- `fetchOneDr` (empty for the transitions that are not nonterminal transitions) -/
def drOf (G : Grammar) (ts : List Tr) (t : Tr) : List Sym :=
  if isNT G t then ts.filterMap (fun u => if u.q == t.to && isTm G u then u.symOf else none) else []

/-- `lalr.DRSet[0] = append(lalr.DRSet[0], 1)` -/
def addStart : List (List Sym) → List (List Sym)
  | [] => []
  | x :: xs => (x ++ [1]) :: xs

def dr (G : Grammar) (ts : List Tr) : List (List Sym) := addStart (ts.map (drOf G ts))

/-! ## the three relations -/

def readsRel (G : Grammar) (nl : List Sym) (ts : List Tr) : List (Nat × Nat) :=
  ts.zipIdx.flatMap fun ti =>
    if isKey G ti.2 ti.1 then
      ts.zipIdx.filterMap fun uj =>
        if uj.1.q == ti.1.to && isNullNT G nl uj.1 then some (ti.2, uj.2) else none
    else []

/-- `fechStateNumber` (as a set) -/
def statesWith (A : Auto) (r : Nat) : List Nat :=
  (List.range A.n).filter fun q => (A.its q).any fun it => it.r == r

/-- `fetchTransIndex` -/
def transIdx (ts : List Tr) (q : Nat) (X : Sym) : Option Nat :=
  ts.findIdx? fun u => u.q == q && u.kind == Kind.sym X

/-- the targets of `CaclIncludeRelation` for a transition from state `p` on `B` -/
def includesTo (G : Grammar) (A : Auto) (nl : List Sym) (ts : List Tr) (p : Nat) (B : Sym) : List Nat :=
  G.rules.zipIdx.flatMap fun rr =>
    rr.1.rhs.zipIdx.flatMap fun xd =>
      if xd.1 == B && nullSeqL nl (rr.1.rhs.drop (xd.2 + 1)) then
        (statesWith A rr.2).filterMap fun q' =>
          if walk A.goto q' (rr.1.rhs.take xd.2) == some p then transIdx ts q' rr.1.lhs else none
      else []

def includesOf (G : Grammar) (A : Auto) (nl : List Sym) (ts : List Tr) (t : Tr) : List Nat :=
  match t.kind with
  | .sym B => includesTo G A nl ts t.q B
  | .rule _ => []

def includesRel (G : Grammar) (A : Auto) (nl : List Sym) (ts : List Tr) : List (Nat × Nat) :=
  ts.zipIdx.flatMap fun ti =>
    if isKey G ti.2 ti.1 then (includesOf G A nl ts ti.1).map fun j => (ti.2, j) else []

/-- the keys a reduce transition of rule `r` in state `q` looks back to -/
def lookbackTo (G : Grammar) (A : Auto) (ts : List Tr) (q r : Nat) : List Nat :=
  ts.zipIdx.filterMap fun uy =>
    if isKey G uy.2 uy.1 && uy.1.kind == Kind.sym (G.lhsOf r) &&
        walk A.goto uy.1.q (G.rhsOf r) == some q then some uy.2 else none

def lookbackOf (G : Grammar) (A : Auto) (ts : List Tr) (t : Tr) : List Nat :=
  match t.kind with
  | .sym _ => []
  | .rule r => lookbackTo G A ts t.q r

def lookbackRel (G : Grammar) (A : Auto) (ts : List Tr) : List (Nat × Nat) :=
  ts.zipIdx.flatMap fun tx => (lookbackOf G A ts tx.1).map fun y => (tx.2, y)

/-! ## least solutions -/

/-- one in-place round: `F x := F x ∪ F y` for every pair `(x, y)` of the relation -/
def relStep (rel : List (Nat × Nat)) (F : List (List Sym)) : List (List Sym) :=
  rel.foldl (fun F e => modAt (unionS (F.getD e.2 [])) e.1 F) F

/-- `F` contains `init` pointwise and `F y ⊆ F x` for every pair `(x, y)` -/
def relClosed (init F : List (List Sym)) (rel : List (Nat × Nat)) : Bool :=
  (init.zipIdx.all fun xi => xi.1.all fun a => (F.getD xi.2 []).contains a) &&
  rel.all fun e => (F.getD e.2 []).all fun a => (F.getD e.1 []).contains a

def solveIter (fuel : Nat) (init : List (List Sym)) (rel : List (Nat × Nat)) : List (List Sym) :=
  iterStop (relStep rel) sameSizeLL fuel (init.map sortS)

/-- the least `F` with `F x = init x ∪ ⋃ {F y | (x, y) ∈ rel}` (as sorted lists), provided the
    iteration result passes the closedness check -/
def solve (fuel : Nat) (init : List (List Sym)) (rel : List (Nat × Nat)) : Option (List (List Sym)) :=
  if relClosed init (solveIter fuel init rel) rel then some (solveIter fuel init rel) else none

/-- every round but the last adds an element, and there are at most `#transitions * #terminals` -/
def dpFuel (G : Grammar) (ts : List Tr) : Nat := ts.length * (G.nT + 1) + 2

/-- `CalcLookAheadSet` for one transition -/
def laOf (lb : List (Nat × Nat)) (fol : List (List Sym)) (x : Nat) (t : Tr) : List Sym :=
  match t.kind with
  | .sym _ => []
  | .rule r =>
    if r = 0 then [1]
    else sortS (lb.flatMap fun e => if e.1 == x then fol.getD e.2 [] else [])

/-! ## all stages -/

structure Stages where
  trans : List Tr
  dr : List (List Sym)
  reads : List (Nat × Nat)
  read : List (List Sym)
  includes : List (Nat × Nat)
  follow : List (List Sym)
  lookback : List (Nat × Nat)
  la : List (List Sym)

/-- the nullable list is closed under the rules -/
def nullClosed (G : Grammar) (nl : List Sym) : Bool :=
  G.rules.all fun rl => !(nullSeqL nl rl.rhs) || nl.contains rl.lhs

/-- the stages for a given nullable list (`none` when a least solution failed its check) -/
def stagesWith (G : Grammar) (A : Auto) (nl : List Sym) : Option Stages :=
  match solve (dpFuel G (trans G A)) (dr G (trans G A)) (readsRel G nl (trans G A)) with
  | none => none
  | some rd =>
    match solve (dpFuel G (trans G A)) rd (includesRel G A nl (trans G A)) with
    | none => none
    | some fo =>
      some { trans := trans G A, dr := dr G (trans G A), reads := readsRel G nl (trans G A),
             read := rd, includes := includesRel G A nl (trans G A), follow := fo,
             lookback := lookbackRel G A (trans G A),
             la := (trans G A).zipIdx.map fun tx =>
                     laOf (lookbackRel G A (trans G A)) fo tx.2 tx.1 }

/-- the stages with the model's own nullable list, which must pass its closedness check -/
def stages (G : Grammar) (nS : Nat) (A : Auto) : Option Stages :=
  if nullClosed G (nullableL G nS) then stagesWith G A (nullableL G nS) else none

/-- index of the reduce transition of rule `r` in state `q` -/
def redIdx (ts : List Tr) (q r : Nat) : Option Nat :=
  ts.findIdx? fun u => u.q == q && u.kind == Kind.rule r

/-- the lookahead list of the reduce transition of rule `r` in state `q` -/
def Stages.laGet (st : Stages) (q r : Nat) : List Sym :=
  match redIdx st.trans q r with
  | some x => st.la.getD x []
  | none => []

/-- the same lines as `Y.laLines`, from the DeRemer–Pennello stages -/
def Stages.lines (G : Grammar) (A : Auto) (st : Stages) : List (Nat × Nat × List Sym) :=
  (List.range A.n).flatMap fun q =>
    (A.its q).filterMap fun it =>
      if it.d == (G.rhsOf it.r).length then some (q, it.r, sortS (st.laGet q it.r)) else none

/-- for every complete item `⟨r, |rhs r|⟩` of every state `q`: `(q, r, sorted lookaheads)`, computed by
    the DeRemer–Pennello method -/
def laLinesDP (G : Grammar) (nS : Nat) (A : Auto) : Option (List (Nat × Nat × List Sym)) :=
  (stages G nS A).map (Stages.lines G A)

/-- the same with the nullable list given (e.g. the implementation's own flags) -/
def laLinesDPWith (G : Grammar) (A : Auto) (nl : List Sym) : Option (List (Nat × Nat × List Sym)) :=
  (stagesWith G A nl).map (Stages.lines G A)

/-! ## decidable side conditions of the correctness theorem -/

/-- transition 0 is the transition of state 0 on the start symbol (the comment of `CalcDR`:
    "0 index transistor is I0--S'-->") -/
def dpStartOK (G : Grammar) (A : Auto) : Bool :=
  match (trans G A)[0]?, (G.rhsOf 0)[0]? with
  | some t, some S => t.q == 0 && t.kind == Kind.sym S
  | _, _ => false

/-- a nullable list given from outside (e.g. the implementation's flags) is exact: it is contained in
    the model's own list (whose members all derive the empty string) and closed under the rules -/
def nullExactB (G : Grammar) (nS : Nat) (nl : List Sym) : Bool :=
  nl.all (fun x => (nullableL G nS).contains x) && nullClosed G nl

/-! ## driver helpers (printable stage data) -/

/-- insertion into a strictly increasing (lexicographic) list of pairs -/
def insP (x : Nat × Nat) : List (Nat × Nat) → List (Nat × Nat)
  | [] => [x]
  | y :: ys =>
    if x.1 < y.1 || (x.1 == y.1 && x.2 < y.2) then x :: y :: ys
    else if x == y then y :: ys else y :: insP x ys

/-- sort and remove duplicates -/
def sortP (l : List (Nat × Nat)) : List (Nat × Nat) := l.foldr insP []

/-- per transition index: `(q, isRule, symbol or rule, to)` -/
def Stages.transRows (st : Stages) : List (Nat × Bool × Nat × Nat) :=
  st.trans.map fun t =>
    match t.kind with
    | .sym X => (t.q, false, X, t.to)
    | .rule r => (t.q, true, r, t.to)

/-- per key (index in `DRSet`): `(index, state, symbol, DR, Read, Follow)` with sorted sets -/
def Stages.keyRows (G : Grammar) (st : Stages) : List (Nat × Nat × Sym × List Sym × List Sym × List Sym) :=
  st.trans.zipIdx.filterMap fun ti =>
    if isKey G ti.2 ti.1 then
      some (ti.2, ti.1.q, (ti.1.symOf).getD 0, sortS (st.dr.getD ti.2 []), sortS (st.read.getD ti.2 []),
            sortS (st.follow.getD ti.2 []))
    else none

/-- per reduce transition: `(index, state, rule, sorted lookaheads)` -/
def Stages.laRows (st : Stages) : List (Nat × Nat × Nat × List Sym) :=
  st.trans.zipIdx.filterMap fun tx =>
    match tx.1.kind with
    | .sym _ => none
    | .rule r => some (tx.2, tx.1.q, r, sortS (st.la.getD tx.2 []))

def Stages.readsSorted (st : Stages) : List (Nat × Nat) := sortP st.reads
def Stages.includesSorted (st : Stages) : List (Nat × Nat) := sortP st.includes
def Stages.lookbackSorted (st : Stages) : List (Nat × Nat) := sortP st.lookback

end Y.DP
