package main

import (
	"fmt"
	"go/ast"
	"go/token"
	"go/types"
	"os"
	"sort"
	"strings"

	"golang.org/x/tools/go/packages"
)

// genFacts extracts source facts as Lean data (Gen/Facts.lean):
//   - every `range` over a map-typed expression in non-test code, with its enclosing function and
//     whether the loop only feeds order-insensitive consumers is NOT judged here: the expectation
//     (which sites exist and why each is harmless) lives in Props/C14.lean and is compared by `decide`;
//   - the ordered calls of TemplateGenFromString / TsGenFromString (C19);
//   - package-level variables assigned inside functions of the object-mode template (C15).
func genFacts(repo, outdir string) {
	cfg := &packages.Config{Mode: packages.NeedName | packages.NeedFiles | packages.NeedSyntax | packages.NeedTypes | packages.NeedTypesInfo | packages.NeedImports | packages.NeedDeps, Dir: repo, Tests: false}
	pkgs, err := packages.Load(cfg, "./...")
	if err != nil {
		panic(err)
	}
	type site struct{ pkg, fn, expr string }
	var sites []site
	var genCalls = map[string][]string{}
	for _, p := range pkgs {
		if len(p.Errors) > 0 {
			panic(fmt.Sprint("package errors: ", p.Errors))
		}
		for _, f := range p.Syntax {
			fname := p.Fset.Position(f.Pos()).Filename
			if strings.HasSuffix(fname, "_test.go") || strings.HasSuffix(fname, "verif_hook.go") {
				continue
			}
			for _, d := range f.Decls {
				fd, ok := d.(*ast.FuncDecl)
				if !ok || fd.Body == nil {
					continue
				}
				name := fd.Name.Name
				if fd.Recv != nil && len(fd.Recv.List) > 0 {
					name = types.ExprString(fd.Recv.List[0].Type) + "." + name
				}
				ast.Inspect(fd.Body, func(n ast.Node) bool {
					if rs, ok := n.(*ast.RangeStmt); ok {
						if t := p.TypesInfo.TypeOf(rs.X); t != nil {
							if _, isMap := t.Underlying().(*types.Map); isMap {
								sites = append(sites, site{p.Name, name, types.ExprString(rs.X)})
							}
						}
					}
					return true
				})
				if fd.Name.Name == "TemplateGenFromString" || fd.Name.Name == "TsGenFromString" || name == "*TemplateBuilder.WriteFile" {
					var calls []string
					ast.Inspect(fd.Body, func(n ast.Node) bool {
						if ce, ok := n.(*ast.CallExpr); ok {
							calls = append(calls, types.ExprString(ce))
						}
						return true
					})
					genCalls[fd.Name.Name] = calls
				}
			}
		}
	}
	sort.Slice(sites, func(i, j int) bool {
		a, b := sites[i], sites[j]
		if a.pkg != b.pkg {
			return a.pkg < b.pkg
		}
		if a.fn != b.fn {
			return a.fn < b.fn
		}
		return a.expr < b.expr
	})
	var sb strings.Builder
	sb.WriteString("-- GENERATED from /repo by the translator (go/packages); do not edit\nimport Yv.Spec.GenOps\nnamespace Gen\nopen GenOps\n\n")
	sb.WriteString("/-- every `range` over a map in non-test code: (package, function, ranged expression) -/\n")
	sb.WriteString("def mapRangeSites : List (String × String × String) := [\n")
	for i, s := range sites {
		sep := ","
		if i == len(sites)-1 {
			sep = ""
		}
		fmt.Fprintf(&sb, "  (%q, %q, %q)%s\n", s.pkg, s.fn, s.expr, sep)
	}
	sb.WriteString("]\n\n")
	for _, fn := range []string{"TemplateGenFromString", "TsGenFromString", "WriteFile"} {
		fmt.Fprintf(&sb, "/-- calls made by %s, in source order -/\ndef calls_%s : List String := [", fn, fn)
		for i, c := range genCalls[fn] {
			if i > 0 {
				sb.WriteString(", ")
			}
			fmt.Fprintf(&sb, "%q", c)
		}
		sb.WriteString("]\n\n")
		if fn == "WriteFile" {
			continue
		}
		// the same sequence classified in the vocabulary of Yv/Spec/GenOps.lean (unknown calls are fallible: fail closed)
		fmt.Fprintf(&sb, "def ops_%s : List Op := [", fn)
		// `b.WriteFile(f)` is not opaque: its own calls are spliced in at the call site
		var seq []string
		for _, c := range genCalls[fn] {
			if strings.HasPrefix(c, "b.WriteFile(") {
				if len(genCalls["WriteFile"]) == 0 {
					panic("(*TemplateBuilder).WriteFile not found")
				}
				for _, w := range genCalls["WriteFile"] {
					seq = append(seq, "WriteFile:"+w)
				}
			} else {
				seq = append(seq, c)
			}
		}
		for i, c := range seq {
			if i > 0 {
				sb.WriteString(", ")
			}
			switch {
			case strings.HasPrefix(c, "os.Create("):
				sb.WriteString(".create")
			case strings.HasPrefix(c, "f.WriteString("):
				fmt.Fprintf(&sb, ".write %v", c == "f.WriteString(b.CodeLast)")
			case c == "WriteFile:templ.Execute(f, b)":
				sb.WriteString(".write true") // the template; that it ends with the epilogue slot is a separate fact below
			case c == "WriteFile:template.New(\"gotemplate\").Parse(chooseTemplate)", c == "WriteFile:template.New(\"gotemplate\")",
				c == "WriteFile:panic(err)", c == "WriteFile:f.Close()":
				sb.WriteString(".other") // parsing a compiled-in template does not depend on the input
			case strings.HasPrefix(c, "fmt.Errorf("), strings.HasPrefix(c, "f.Close("):
				sb.WriteString(".other")
			default:
				sb.WriteString(".fallible")
			}
		}
		sb.WriteString("]\n\n")
	}
	// template facts: the compiled-in Go strings equal the .templ files, and both end with the epilogue slot
	for _, t := range [][3]string{{"goCode", "Builder/goCode.templ", "Builder/GoCodeTemplate.go"}, {"goObject", "Builder/goObject.templ", "Builder/GoObjectTemplate.go"}} {
		templ, err1 := os.ReadFile(repo + "/" + t[1])
		gosrc, err2 := os.ReadFile(repo + "/" + t[2])
		if err1 != nil || err2 != nil {
			panic("template files missing")
		}
		// the Go file is `package builder\n\nconst xxx = ` + "`" + text with "`" spliced as ` + "`" + ` + "`"
		g := string(gosrc)
		i := strings.Index(g, "`")
		j := strings.LastIndex(g, "`")
		body := ""
		if i >= 0 && j > i {
			body = g[i+1 : j] // the .templ files spell an embedded backquote the way the Go string does
		}
		fmt.Fprintf(&sb, "def templ_%s_same_as_go_string : Bool := %v\n", t[0], strings.TrimPrefix(body, "\n") == string(templ))
		fmt.Fprintf(&sb, "def templ_%s_ends_with_epilogue : Bool := %v\n\n", t[0], strings.HasSuffix(strings.TrimRight(body, "\n"), "{{.CodeLast}}"))
	}
	sb.WriteString("end Gen\n")
	writeIfChanged(outdir+"/Facts.lean", sb.String())
	_ = token.NoPos
	_ = os.Stdout
}
