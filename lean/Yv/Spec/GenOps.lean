/-! Operation alphabet of a generator run (C19); the translator emits the call sequences of
    `TemplateGenFromString` / `TsGenFromString` in this vocabulary (Gen/Facts.lean). -/
namespace GenOps

inductive Op
  | fallible            -- a step that can fail for a reason attributable to the input
  | create              -- os.Create: truncates and opens the output file
  | write (epilogue : Bool)   -- appends to the opened file; `true` = the user's epilogue (CodeLast / a template ending in it)
  | other               -- cannot fail for an input reason, does not touch the file (error formatting, Close)
deriving DecidableEq, Repr

end GenOps
