import Yv.Proofs.YLexTotal
/-! C10 (lexer half): layout between tokens does not change the token kinds and values.

    * `runRoot`   : iterate `rootStep`, accumulating tokens (list version of `lexRoot`), `lexRoot_eq_run`
    * `Gap`       : concatenations of blanks, tabs, newlines, `//…\n` and `/*…*/`
    * `skip_gap`  : from a root state at a token boundary a gap is consumed without emitting a token
    * `StEq/ResEq`: states / results equal up to offsets; every state function respects them
    * `BoundaryAt`, `Boundary`, `layout_at`, `layout_lexAll`
    * `action_verbatim`, `prologue_verbatim`, `union_verbatim` -/
namespace YLex

/-! ## explicit forms of `adv` / `skipWhile` -/

theorem adv_append (a r pd : List Char) (p : Nat) :
    St.adv ⟨a ++ r, pd, p⟩ a.length = ⟨r, a.reverse ++ pd, p + a.length⟩ := by
  induction a generalizing pd p with
  | nil => simp [St.adv]
  | cons c cs ih =>
    simp only [List.cons_append, List.length_cons, St.adv]
    rw [ih]; simp; omega

theorem takeWhile_append_stop (q : Char → Bool) (a : List Char) (c : Char) (r : List Char)
    (ha : ∀ x ∈ a, q x = true) (hc : q c = false) : (a ++ c :: r).takeWhile q = a := by
  induction a with
  | nil => simp [hc]
  | cons x xs ih =>
    have hx : q x = true := ha x (by simp)
    simp only [List.cons_append, List.takeWhile, hx]
    rw [ih (fun y hy => ha y (by simp [hy]))]

theorem skipWhile_append (q : Char → Bool) (a : List Char) (c : Char) (r pd : List Char) (p : Nat)
    (ha : ∀ x ∈ a, q x = true) (hc : q c = false) :
    St.skipWhile q ⟨a ++ c :: r, pd, p⟩ = ⟨c :: r, a.reverse ++ pd, p + a.length⟩ := by
  unfold St.skipWhile
  simp only [takeWhile_append_stop q a c r ha hc]
  exact adv_append _ _ _ _

/-! ## iterating `rootStep` -/

/-- run at most `n` root steps, concatenating the emitted tokens; stops when a step stops -/
def runRoot : Nat → St → Res
  | 0, st => cont [] st
  | n+1, st =>
    if (rootStep st).go then
      ⟨(rootStep st).toks ++ (runRoot n (rootStep st).st).toks, (runRoot n (rootStep st).st).st,
        (runRoot n (rootStep st).st).go⟩
    else rootStep st

theorem foldl_push (l : List Tok) (acc : Array Tok) : l.foldl (·.push ·) acc = acc ++ l.toArray := by
  induction l generalizing acc with
  | nil => simp
  | cons t ts ih => simp [ih]

/-- `lexRoot` is `runRoot` with an array accumulator; the flag is "stopped by itself" -/
theorem lexRoot_eq_run (n : Nat) (st : St) (acc : Array Tok) :
    lexRoot n st acc = (acc ++ (runRoot n st).toks.toArray, !(runRoot n st).go) := by
  induction n generalizing st acc with
  | zero => simp [lexRoot, runRoot, cont]
  | succ n ih =>
    unfold lexRoot runRoot
    simp only [foldl_push]
    by_cases hgo : (rootStep st).go = true
    · simp only [hgo, if_true]
      rw [ih]; simp
    · simp only [hgo]
      simp at hgo
      simp [hgo]

theorem runRoot_succ_go {n : Nat} {st : St} (h : (rootStep st).go = true) :
    runRoot (n + 1) st =
      ⟨(rootStep st).toks ++ (runRoot n (rootStep st).st).toks, (runRoot n (rootStep st).st).st,
        (runRoot n (rootStep st).st).go⟩ := by
  rw [runRoot, if_pos h]

theorem runRoot_succ_stop {n : Nat} {st : St} (h : (rootStep st).go = false) :
    runRoot (n + 1) st = rootStep st := by
  rw [runRoot, if_neg (by simp [h])]

theorem runRoot_add (n m : Nat) (st : St) (h : (runRoot n st).go = true) :
    runRoot (n + m) st =
      ⟨(runRoot n st).toks ++ (runRoot m (runRoot n st).st).toks, (runRoot m (runRoot n st).st).st,
        (runRoot m (runRoot n st).st).go⟩ := by
  induction n generalizing st with
  | zero => simp [runRoot, cont]
  | succ n ih =>
    rw [Nat.add_right_comm]
    by_cases hgo : (rootStep st).go = true
    · simp only [runRoot_succ_go hgo] at h ⊢
      rw [ih _ h]; simp
    · simp at hgo
      rw [runRoot_succ_stop hgo] at h
      rw [hgo] at h; cases h

/-- once the lexer has stopped, more fuel changes nothing -/
theorem runRoot_stable (n k : Nat) (st : St) (h : (runRoot n st).go = false) :
    runRoot (n + k) st = runRoot n st := by
  induction n generalizing st with
  | zero => simp [runRoot, cont] at h
  | succ n ih =>
    rw [Nat.add_right_comm]
    by_cases hgo : (rootStep st).go = true
    · simp only [runRoot_succ_go hgo] at h ⊢
      rw [ih _ h]
    · simp at hgo
      rw [runRoot_succ_stop hgo, runRoot_succ_stop hgo]

theorem runRoot_stops (n : Nat) (st : St) (h : st.rest.length < n) : (runRoot n st).go = false := by
  have := lexRoot_fuel n st #[] h
  rw [lexRoot_eq_run] at this
  simpa using this

/-- with enough fuel the result does not depend on the fuel -/
theorem runRoot_fuel (n m : Nat) (st : St) (hn : st.rest.length < n) (hm : st.rest.length < m) :
    runRoot n st = runRoot m st := by
  rw [← runRoot_stable n m st (runRoot_stops n st hn), Nat.add_comm,
    runRoot_stable m n st (runRoot_stops m st hm)]

/-! ## gaps -/

/-- no adjacent pair `x y` in the list -/
def NoPair (x y : Char) : List Char → Prop
  | a :: b :: t => ¬ (a = x ∧ b = y) ∧ NoPair x y (b :: t)
  | _ => True

/-- layout: blanks, tabs, newlines, `//…\n` comments and `/*…*/` comments -/
inductive Gap : List Char → Prop
  | nil : Gap []
  | blank (c : Char) (g : List Char) : isBlank3 c = true → Gap g → Gap (c :: g)
  | line (body g : List Char) : (∀ x ∈ body, x ≠ '\n') → Gap g → Gap ('/' :: '/' :: body ++ '\n' :: g)
  | block (body g : List Char) : NoPair '*' '/' body → Gap g → Gap ('/' :: '*' :: body ++ '*' :: '/' :: g)

theorem Gap.append {g h : List Char} (hg : Gap g) (hh : Gap h) : Gap (g ++ h) := by
  induction hg with
  | nil => simpa
  | blank c g hc _ ih => exact Gap.blank c _ hc ih
  | line body g hb _ ih =>
    have := Gap.line body _ hb ih
    simpa using this
  | block body g hb _ ih =>
    have := Gap.block body _ hb ih
    simpa using this

theorem blockCommentLen_cons (a : Char) (l : List Char) (n : Nat)
    (h : ¬ (a = '*' ∧ l.head? = some '/')) : blockCommentLen (a :: l) n = blockCommentLen l (n + 1) := by
  rw [blockCommentLen.eq_def]
  split
  · rename_i heq
    simp only [List.cons.injEq] at heq
    exact absurd ⟨heq.1, by rw [heq.2]; rfl⟩ h
  · rename_i heq
    simp only [List.cons.injEq] at heq
    rw [heq.2]
  · rename_i heq; cases heq

theorem blockCommentLen_body (body t : List Char) (n : Nat) (h : NoPair '*' '/' body) :
    blockCommentLen (body ++ '*' :: '/' :: t) n = some (n + body.length + 2) := by
  induction body generalizing n with
  | nil => simp [blockCommentLen]
  | cons a as ih =>
    cases as with
    | nil =>
      rw [List.cons_append, List.nil_append, blockCommentLen_cons _ _ _ (by simp)]
      simp [blockCommentLen]
    | cons b t' =>
      obtain ⟨h1, h2⟩ := h
      rw [List.cons_append, blockCommentLen_cons _ _ _ (by simpa using h1), ih _ h2]
      simp; omega

/-! ## one root step over a layout piece -/

theorem runRoot_step {st st' : St} {toks : List Tok} (h : rootStep st = cont toks st') (n : Nat) :
    runRoot (n + 1) st = ⟨toks ++ (runRoot n st').toks, (runRoot n st').st, (runRoot n st').go⟩ := by
  rw [runRoot_succ_go (by rw [h]; rfl), h]; rfl

theorem rootStep_blank (c : Char) (r : List Char) (p : Nat) (hc : isBlank3 c = true) :
    rootStep ⟨c :: r, [], p⟩ = cont [] ⟨r, [], p + 1⟩ := by
  simp only [isBlank3, Bool.or_eq_true, beq_iff_eq] at hc
  rcases hc with (rfl | rfl) | rfl <;> rfl

theorem rootStep_line (body r : List Char) (p : Nat) (hb : ∀ x ∈ body, x ≠ '\n') :
    rootStep ⟨'/' :: '/' :: body ++ '\n' :: r, [], p⟩ = cont [] ⟨r, [], p + (body.length + 3)⟩ := by
  have hp : hasPrefix "//" ('/' :: '/' :: body ++ '\n' :: r) = true := rfl
  unfold rootStep
  simp only [hp, Bool.true_or, if_true]
  unfold commentState
  simp only [hp, if_true]
  rw [skipWhile_append _ _ _ _ _ _ (by
    intro x hx
    simp only [List.mem_cons] at hx
    rcases hx with rfl | rfl | hx
    · decide
    · decide
    · simpa using hb x hx) (by decide)]
  simp [St.adv, St.ignore, cont]; omega

theorem rootStep_block (body r : List Char) (p : Nat) (hb : NoPair '*' '/' body) :
    rootStep ⟨'/' :: '*' :: body ++ '*' :: '/' :: r, [], p⟩ = cont [] ⟨r, [], p + (body.length + 4)⟩ := by
  have hp : hasPrefix "//" ('/' :: '*' :: body ++ '*' :: '/' :: r) = false := rfl
  have hq : hasPrefix "/*" ('/' :: '*' :: body ++ '*' :: '/' :: r) = true := rfl
  unfold rootStep
  simp only [hp, hq, Bool.or_true, if_true]
  unfold commentState
  simp only [hp]
  have h2 : St.adv ⟨'/' :: '*' :: body ++ '*' :: '/' :: r, [], p⟩ 2 = ⟨body ++ '*' :: '/' :: r, ['*', '/'], p + 2⟩ := by
    simp [St.adv]
  rw [h2]
  simp only [blockCommentLen_body body r 0 hb]
  have h3 := adv_append (body ++ ['*', '/']) r ['*', '/'] (p + 2)
  simp only [List.append_assoc, List.cons_append, List.nil_append, List.length_append, List.length_cons,
    List.length_nil] at h3
  simp only [Nat.zero_add]
  simp [h3, St.ignore, cont]; omega


/-- **skip_gap**: at a token boundary (root state, nothing pending) a gap is consumed by at most
    `g.length` root steps, emits no token, and leaves the root state on `rest`, nothing pending,
    offset advanced by `g.length`. -/
theorem skip_gap {g : List Char} (hg : Gap g) (rest : List Char) (p : Nat) :
    ∃ n, n ≤ g.length ∧ runRoot n ⟨g ++ rest, [], p⟩ = cont [] ⟨rest, [], p + g.length⟩ := by
  induction hg generalizing p with
  | nil => exact ⟨0, Nat.le_refl _, rfl⟩
  | blank c g hc _ ih =>
    obtain ⟨n, hn, e⟩ := ih (p + 1)
    refine ⟨n + 1, by simp; omega, ?_⟩
    rw [List.cons_append, runRoot_step (rootStep_blank c _ p hc), e]
    simp [cont]; omega
  | line body g hb _ ih =>
    obtain ⟨n, hn, e⟩ := ih (p + (body.length + 3))
    refine ⟨n + 1, by simp; omega, ?_⟩
    have h := runRoot_step (rootStep_line body (g ++ rest) p hb) n
    simp only [List.cons_append, List.append_assoc] at h ⊢
    rw [h, e]
    simp [cont]; omega
  | block body g hb _ ih =>
    obtain ⟨n, hn, e⟩ := ih (p + (body.length + 4))
    refine ⟨n + 1, by simp; omega, ?_⟩
    have h := runRoot_step (rootStep_block body (g ++ rest) p hb) n
    simp only [List.cons_append, List.append_assoc] at h ⊢
    rw [h, e]
    simp [cont]; omega


/-! ## offsets do not influence kinds and values -/

/-- a token without its end offset -/
def eraseEnd (t : Tok) : Kind × String := (t.kind, t.value)

/-- same unread input and same pending characters (offsets may differ) -/
def StEq (a b : St) : Prop := a.rest = b.rest ∧ a.pend = b.pend

/-- same kinds/values, `StEq` states, same continue flag -/
structure ResEq (r r' : Res) : Prop where
  toks : r.toks.map eraseEnd = r'.toks.map eraseEnd
  st : StEq r.st r'.st
  go : r.go = r'.go

theorem StEq.refl (a : St) : StEq a a := ⟨rfl, rfl⟩
theorem StEq.mk' (r pd : List Char) (p p' : Nat) : StEq ⟨r, pd, p⟩ ⟨r, pd, p'⟩ := ⟨rfl, rfl⟩
theorem StEq.ig {a b : St} (h : StEq a b) : StEq a.ignore b.ignore := ⟨h.1, rfl⟩
theorem StEq.ad {a b : St} {n : Nat} (h : StEq a b) : StEq (a.adv n) (b.adv n) := by
  induction n generalizing a b with
  | zero => exact h
  | succ n ih =>
    obtain ⟨ar, apd, ap⟩ := a; obtain ⟨br, bpd, bp⟩ := b; obtain ⟨h1, h2⟩ := h
    simp only at h1 h2; subst h1 h2
    unfold St.adv
    cases ar with
    | nil => exact ⟨rfl, rfl⟩
    | cons c cs => exact ih ⟨rfl, rfl⟩
theorem StEq.sk {a b : St} {q : Char → Bool} (h : StEq a b) : StEq (a.skipWhile q) (b.skipWhile q) := by
  unfold St.skipWhile; rw [h.1]; exact h.ad

theorem tok_eq {a b : St} (k : Kind) (h : StEq a b) : eraseEnd (a.tok k) = eraseEnd (b.tok k) := by
  simp [eraseEnd, St.tok, St.word, h.2]

theorem tokV_eq (a b : St) (k : Kind) (v : String) : eraseEnd (a.tokV k v) = eraseEnd (b.tokV k v) := rfl

theorem ResEq.cont1 {t t' : Tok} {s s' : St} (ht : eraseEnd t = eraseEnd t') (hs : StEq s s') :
    ResEq (cont [t] s) (cont [t'] s') := ⟨by simp [cont, ht], hs, rfl⟩
theorem ResEq.cont0 {s s' : St} (hs : StEq s s') : ResEq (cont [] s) (cont [] s') := ⟨rfl, hs, rfl⟩
theorem ResEq.stop1 {t t' : Tok} {s s' : St} (ht : eraseEnd t = eraseEnd t') (hs : StEq s s') :
    ResEq (stop [t] s) (stop [t'] s') := ⟨by simp [stop, ht], hs, rfl⟩

/-- closes `StEq (… a …) (… b …)` built from adv/skipWhile/ignore over a hypothesis `StEq a b` -/
macro "steq" : tactic => `(tactic| (
  repeat (first
    | assumption
    | (with_reducible exact StEq.mk' _ _ _ _)
    | (with_reducible apply StEq.ig)
    | (with_reducible apply StEq.ad)
    | (with_reducible apply StEq.sk))))

macro "reseq" : tactic => `(tactic| (
  first
    | (with_reducible apply ResEq.cont0; steq)
    | (with_reducible apply ResEq.cont1 (tok_eq _ (by steq)); steq)
    | (with_reducible apply ResEq.cont1 (tokV_eq _ _ _ _); steq)
    | (with_reducible apply ResEq.cont1 (t := errTok) (t' := errTok) rfl; steq)
    | (with_reducible apply ResEq.stop1 (t := errTok) (t' := errTok) rfl; steq)))

theorem skip_rest (q : Char → Bool) (st : St) :
    (st.skipWhile q).rest = st.rest.drop (st.rest.takeWhile q).length := adv_rest _ _

theorem resEq_comment {a b : St} (h : StEq a b) : ResEq (commentState a) (commentState b) := by
  unfold commentState
  simp only [adv_rest, h.1]
  split
  · reseq
  · split <;> reseq

theorem resEq_actionQuote {a b : St} (h : StEq a b) : ResEq (actionQuoteState a) (actionQuoteState b) := by
  unfold actionQuoteState
  simp only [h.1]
  split <;> reseq


theorem resEq_charater {a b : St} (h : StEq a b) : ResEq (charaterState a) (charaterState b) := by
  unfold charaterState
  simp only [h.1]
  split <;> reseq

theorem resEq_string {a b : St} (h : StEq a b) : ResEq (stringKindState a) (stringKindState b) := by
  unfold stringKindState
  simp only [h.1]
  split <;> reseq

theorem resEq_identify {a b : St} (h : StEq a b) : ResEq (identifyState a) (identifyState b) := by
  unfold identifyState; reseq

theorem resEq_number {a b : St} (h : StEq a b) : ResEq (numberRest a) (numberRest b) := by
  unfold numberRest; reseq

inductive OptEq : Option St → Option St → Prop
  | none : OptEq none none
  | some {a b : St} : StEq a b → OptEq (some a) (some b)

theorem acceptAlpha_eq (w : String) {a b : St} (h : StEq a b) :
    OptEq (acceptAlpha w a) (acceptAlpha w b) := by
  have h1 : StEq (a.skipWhile (· == ' ')) (b.skipWhile (· == ' ')) := h.sk
  have h2 := h1.ad (n := w.length)
  unfold acceptAlpha
  simp only [h1.1, h2.1]
  split
  · split
    · split
      · exact .none
      · exact .some h2
    · exact .some h2
  · exact .none

/-- case split on `acceptAlpha w sa` / `acceptAlpha w sb` for `StEq sa sb` -/
macro "acc_cases " w:term " , " sa:term " , " sb:term " , " hs:term : tactic => `(tactic| (
  have e := acceptAlpha_eq $w (a := $sa) (b := $sb) $hs
  revert e
  generalize acceptAlpha $w $sa = x
  generalize acceptAlpha $w $sb = y
  intro e
  cases e))

theorem resEq_action {a b : St} (h : StEq a b) : ResEq (actionState a) (actionState b) := by
  unfold actionState
  simp only [h.1]
  split
  · reseq
  · split
    · reseq
    · acc_cases "accept", (a.adv 1), (b.adv 1), h.ad
      · acc_cases "end", (a.adv 1), (b.adv 1), h.ad
        · reseq
        · reseq
      · reseq
  · acc_cases "accept", a, b, h
    · acc_cases "end", a, b, h
      · reseq
      · reseq
    · reseq

theorem resEq_codeQuote {a b : St} (h : StEq a b) : ResEq (codeQuoteBegin a) (codeQuoteBegin b) := by
  unfold codeQuoteBegin
  simp only [h.1]
  split <;> reseq

theorem resEq_union {a b : St} (h : StEq a b) : ResEq (directiveUnionState a) (directiveUnionState b) := by
  have h1 : StEq (a.skipWhile isBlank3) (b.skipWhile isBlank3) := h.sk
  have h2 := h1.ad (n := 1)
  unfold directiveUnionState
  simp only [h1.1, h2.1]
  split
  · split <;> reseq
  · reseq


theorem optWord_eq (w : String) (k : Kind) {a b : St} (h : StEq a b) :
    (optWord w k a).1.map eraseEnd = (optWord w k b).1.map eraseEnd ∧ StEq (optWord w k a).2 (optWord w k b).2 := by
  unfold optWord
  acc_cases w, a, b, h
  · exact ⟨rfl, h⟩
  · rename_i hs
    exact ⟨by simp [tok_eq k hs], hs.ig⟩

theorem chain_eq (ws : List (String × Kind)) {a b : St} (h : StEq a b) (acc acc' : List Tok)
    (hacc : acc.map eraseEnd = acc'.map eraseEnd) :
    (directiveChain ws a acc).1.map eraseEnd = (directiveChain ws b acc').1.map eraseEnd ∧
      StEq (directiveChain ws a acc).2 (directiveChain ws b acc').2 := by
  induction ws generalizing a b acc acc' with
  | nil => exact ⟨by simp only [directiveChain]; rw [List.map_reverse, List.map_reverse, hacc], h⟩
  | cons x xs ih =>
    obtain ⟨w, k⟩ := x
    unfold directiveChain
    acc_cases w, a, b, h
    · exact ih h _ _ hacc
    · rename_i hs
      exact ih hs.ig _ _ (by simp [tok_eq k hs, hacc])

theorem resEq_directiveOther {a b : St} (h : StEq a b) :
    ResEq (directiveOtherState a) (directiveOtherState b) := by
  unfold directiveOtherState
  simp only
  have h1 := optWord_eq "type" .typeDir h
  have h2 := optWord_eq "token" .tokenDir h1.2
  acc_cases "union", (optWord "token" .tokenDir (optWord "type" .typeDir a).2).2,
    (optWord "token" .tokenDir (optWord "type" .typeDir b).2).2, h2.2
  · have h3 := chain_eq directiveWords h2.2 [] [] rfl
    simp only [cont]
    constructor
    · simp only [List.map_append, h1.1, h2.1, h3.1]
    · with_reducible exact h3.2
    · with_reducible rfl
  · rename_i hs
    have h3 := resEq_union hs
    constructor
    · simp only [List.map_append, h1.1, h2.1, h3.toks]
    · with_reducible exact h3.st
    · with_reducible exact h3.go

theorem resEq_directive {a b : St} (h : StEq a b) : ResEq (directiveState a) (directiveState b) := by
  unfold directiveState
  simp only [h.1]
  split
  · reseq
  · exact resEq_codeQuote h.ad
  · exact resEq_directiveOther h

theorem resEq_ite {c : Prop} [Decidable c] {x x' y y' : Res} (hx : ResEq x x') (hy : ResEq y y') :
    ResEq (if c then x else y) (if c then x' else y') := by
  by_cases hc : c
  · rw [if_pos hc, if_pos hc]; exact hx
  · rw [if_neg hc, if_neg hc]; exact hy

theorem resEq_dispatch (c : Char) {a b : St} (h : StEq a b) : ResEq (dispatch c a) (dispatch c b) := by
  unfold dispatch
  repeat' (first
    | (with_reducible exact resEq_directive h)
    | (with_reducible exact resEq_action h)
    | (with_reducible exact resEq_charater h)
    | (with_reducible exact resEq_string h)
    | (with_reducible exact resEq_identify h)
    | (with_reducible exact resEq_number h)
    | (with_reducible exact resEq_actionQuote h)
    | (with_reducible apply resEq_ite)
    | reseq)

theorem resEq_rootStep {a b : St} (h : StEq a b) : ResEq (rootStep a) (rootStep b) := by
  unfold rootStep
  simp only [h.1]
  split
  · exact resEq_comment h
  · split
    · exact ⟨rfl, h, rfl⟩
    · exact resEq_dispatch _ h.ad

/-- **offset independence**: running the root loop from two states that differ only in their
    offset yields the same kinds and values, `StEq` final states and the same flag -/
theorem resEq_runRoot (n : Nat) {a b : St} (h : StEq a b) : ResEq (runRoot n a) (runRoot n b) := by
  induction n generalizing a b with
  | zero => exact ⟨rfl, h, rfl⟩
  | succ n ih =>
    have hs := resEq_rootStep h
    by_cases hgo : (rootStep a).go = true
    · have hgo' : (rootStep b).go = true := by rw [← hs.go]; exact hgo
      rw [runRoot_succ_go hgo, runRoot_succ_go hgo']
      have hr := ih hs.st
      exact ⟨by simp [hs.toks, hr.toks], hr.st, hr.go⟩
    · simp at hgo
      have hgo' : (rootStep b).go = false := by rw [← hs.go]; exact hgo
      rw [runRoot_succ_stop hgo, runRoot_succ_stop hgo']
      exact hs


/-! ## token boundaries and the layout theorem -/

/-- kinds and values produced by lexing `cs` from the root with the fuel used by `lexAll` -/
def lexKV (cs : List Char) : List (Kind × String) :=
  (runRoot (cs.length + 2) ⟨cs, [], 0⟩).toks.map eraseEnd

theorem lexAll_kv (s : String) : (lexAll s).1.toList.map eraseEnd = lexKV s.toList := by
  unfold lexAll lexKV
  simp only [lexRoot_eq_run]
  simp

/-- `pre` ends at a token boundary when followed by `s`: lexing `pre ++ s` from the root emits tokens with
    kinds/values `ks` and is then back in the root state on `s` with nothing pending -/
def BoundaryAt (pre : List Char) (ks : List (Kind × String)) (s : List Char) : Prop :=
  ∃ n toks q, runRoot n ⟨pre ++ s, [], 0⟩ = cont toks ⟨s, [], q⟩ ∧ toks.map eraseEnd = ks

/-- `pre` ends at a token boundary whatever follows -/
def Boundary (pre : List Char) (ks : List (Kind × String)) : Prop := ∀ s, BoundaryAt pre ks s

/-- the starting offset is irrelevant -/
theorem BoundaryAt.from {pre : List Char} {ks : List (Kind × String)} {s : List Char}
    (h : BoundaryAt pre ks s) (p : Nat) :
    ∃ n toks q, runRoot n ⟨pre ++ s, [], p⟩ = cont toks ⟨s, [], q⟩ ∧ toks.map eraseEnd = ks := by
  obtain ⟨n, toks, q, e, hk⟩ := h
  have hr := resEq_runRoot n (StEq.mk' (pre ++ s) [] 0 p)
  rw [e] at hr
  obtain ⟨h1, ⟨h2, h3⟩, h4⟩ := hr
  refine ⟨n, (runRoot n ⟨pre ++ s, [], p⟩).toks, (runRoot n ⟨pre ++ s, [], p⟩).st.pos, ?_, ?_⟩
  · revert h2 h3 h4
    generalize runRoot n ⟨pre ++ s, [], p⟩ = r
    obtain ⟨rt, ⟨rr, rp, rq⟩, rg⟩ := r
    simp only [cont]
    intro h2 h3 h4
    subst h2 h3 h4; rfl
  · rw [← h1]; exact hk

theorem BoundaryAt.nil (s : List Char) : BoundaryAt [] [] s := ⟨0, [], 0, rfl, rfl⟩

theorem BoundaryAt.append {a b s : List Char} {ks ks' : List (Kind × String)}
    (ha : BoundaryAt a ks (b ++ s)) (hb : BoundaryAt b ks' s) : BoundaryAt (a ++ b) (ks ++ ks') s := by
  obtain ⟨n1, t1, q1, e1, k1⟩ := ha
  obtain ⟨n2, t2, q2, e2, k2⟩ := hb.from q1
  refine ⟨n1 + n2, t1 ++ t2, q2, ?_, by simp [k1, k2]⟩
  rw [List.append_assoc, runRoot_add n1 n2 _ (by rw [e1]; rfl), e1]
  simp only [cont]
  rw [e2]; rfl

theorem Boundary.append {a b : List Char} {ks ks' : List (Kind × String)}
    (ha : Boundary a ks) (hb : Boundary b ks') : Boundary (a ++ b) (ks ++ ks') :=
  fun s => (ha (b ++ s)).append (hb s)

/-- a gap is a boundary that emits nothing -/
theorem Gap.boundary {g : List Char} (hg : Gap g) : Boundary g [] := by
  intro s
  obtain ⟨n, _, e⟩ := skip_gap hg s 0
  exact ⟨n, [], _, e, rfl⟩

/-- **compositional form of C10**: a gap after a token boundary is again a token boundary with the same tokens -/
theorem Boundary.gap {pre g : List Char} {ks : List (Kind × String)} (hb : Boundary pre ks) (hg : Gap g) :
    Boundary (pre ++ g) ks := by
  have := hb.append hg.boundary
  simpa using this

theorem BoundaryAt.gap {pre g s : List Char} {ks : List (Kind × String)} (hb : BoundaryAt pre ks (g ++ s))
    (hg : Gap g) : BoundaryAt (pre ++ g) ks s := by
  have := hb.append (hg.boundary s)
  simpa using this

/-- lexing splits at a boundary -/
theorem lexKV_split {pre s : List Char} {ks : List (Kind × String)} (h : BoundaryAt pre ks s) :
    lexKV (pre ++ s) = ks ++ lexKV s := by
  obtain ⟨n, toks, q, e, hk⟩ := h
  have hstop : (runRoot ((pre ++ s).length + 2) ⟨pre ++ s, [], 0⟩).go = false :=
    runRoot_stops _ _ (by simp)
  have e1 : runRoot ((pre ++ s).length + 2) ⟨pre ++ s, [], 0⟩ =
      runRoot (n + ((pre ++ s).length + 2)) ⟨pre ++ s, [], 0⟩ := by
    rw [Nat.add_comm n, runRoot_stable _ n _ hstop]
  have e2 := runRoot_add n ((pre ++ s).length + 2) ⟨pre ++ s, [], 0⟩ (by rw [e]; rfl)
  rw [e] at e2
  simp only [cont] at e2
  have e3 : runRoot ((pre ++ s).length + 2) ⟨s, [], q⟩ = runRoot (s.length + 2) ⟨s, [], q⟩ :=
    runRoot_fuel _ _ _ (by simp; omega) (by simp)
  have e4 := (resEq_runRoot (s.length + 2) (StEq.mk' s [] q 0)).toks
  unfold lexKV
  rw [e1, e2, e3]
  simp only [List.map_append, hk, e4]

/-- **layout theorem (list level)**: inserting a gap at a token boundary does not change kinds and values -/
theorem layout_at {pre g rest : List Char} {ks : List (Kind × String)}
    (h1 : BoundaryAt pre ks (g ++ rest)) (h2 : BoundaryAt pre ks rest) (hg : Gap g) :
    lexKV (pre ++ g ++ rest) = lexKV (pre ++ rest) := by
  rw [lexKV_split (h1.gap hg), lexKV_split h2]

theorem layout_boundary {pre g rest : List Char} {ks : List (Kind × String)}
    (hb : Boundary pre ks) (hg : Gap g) : lexKV (pre ++ g ++ rest) = lexKV (pre ++ rest) :=
  layout_at (hb _) (hb _) hg

theorem lexKV_nil : lexKV [] = [(.eof, "")] := by decide

/-- whole-file form: a file made of token chunks `c₁ … cₙ` (each a universal boundary) separated by arbitrary
    gaps lexes to the concatenation of the chunks' tokens followed by EOF — independent of the gaps -/
theorem layout_chunks (cs : List (List Char × List (Kind × String) × List Char))
    (h : ∀ x ∈ cs, Boundary x.1 x.2.1 ∧ Gap x.2.2) (g0 : List Char) (hg0 : Gap g0) :
    lexKV (g0 ++ (cs.map (fun x => x.1 ++ x.2.2)).flatten) =
      (cs.map (fun x => x.2.1)).flatten ++ [(.eof, "")] := by
  have hb : Boundary ((cs.map (fun x => x.1 ++ x.2.2)).flatten) ((cs.map (fun x => x.2.1)).flatten) := by
    induction cs with
    | nil => exact BoundaryAt.nil
    | cons x xs ih =>
      simp only [List.map_cons, List.flatten_cons]
      have hx := h x (by simp)
      exact (hx.1.gap hx.2).append (ih (fun y hy => h y (by simp [hy])))
  have := lexKV_split ((hg0.boundary.append hb) [])
  simpa [lexKV_nil] using this


/-! ## opaque bodies are carried verbatim -/

/-- brace-balanced text -/
inductive Balanced : List Char → Prop
  | nil : Balanced []
  | char (c : Char) (b : List Char) : c ≠ '{' → c ≠ '}' → Balanced b → Balanced (c :: b)
  | nest (a b : List Char) : Balanced a → Balanced b → Balanced ('{' :: a ++ '}' :: b)

theorem braceLen_open (cs : List Char) (d n : Nat) : braceLen ('{' :: cs) d n = braceLen cs (d + 1) (n + 1) := by
  rw [braceLen]; simp

theorem braceLen_close (cs : List Char) (d n : Nat) :
    braceLen ('}' :: cs) (d + 2) n = braceLen cs (d + 1) (n + 1) := by
  rw [braceLen]; simp

theorem braceLen_last (cs : List Char) (n : Nat) : braceLen ('}' :: cs) 1 n = some (n + 1) := by
  rw [braceLen]; simp

theorem braceLen_other (c : Char) (cs : List Char) (d n : Nat) (h1 : c ≠ '{') (h2 : c ≠ '}') :
    braceLen (c :: cs) (d + 1) n = braceLen cs (d + 1) (n + 1) := by
  rw [braceLen]; simp [h1, h2]

theorem braceLen_balanced {b : List Char} (hb : Balanced b) (t : List Char) (d n : Nat) :
    braceLen (b ++ t) (d + 1) n = braceLen t (d + 1) (n + b.length) := by
  induction hb generalizing t d n with
  | nil => rfl
  | char c b h1 h2 _ ih =>
    rw [List.cons_append, braceLen_other c _ d n h1 h2, ih]
    congr 1; simp only [List.length_cons]; omega
  | nest a b _ _ iha ihb =>
    simp only [List.cons_append, List.append_assoc]
    rw [braceLen_open, iha, braceLen_close, ihb]
    congr 1; simp only [List.length_cons, List.length_append]; omega

/-- **C10_action_verbatim** (state level): a brace-balanced `{body}` is one `actionQuote` token whose value
    is the text itself, and the lexer continues on `rest` -/
theorem action_verbatim (body rest : List Char) (p : Nat) (hb : Balanced body) :
    rootStep ⟨'{' :: body ++ '}' :: rest, [], p⟩ =
      cont [⟨.actionQuote, String.ofList ('{' :: body ++ ['}']), p + (body.length + 2)⟩]
        ⟨rest, [], p + (body.length + 2)⟩ := by
  have h0 : rootStep ⟨'{' :: body ++ '}' :: rest, [], p⟩ =
      actionQuoteState ⟨body ++ '}' :: rest, ['{'], p + 1⟩ := rfl
  have h1 : braceLen (body ++ '}' :: rest) 1 0 = some (body.length + 1) := by
    have := braceLen_balanced hb ('}' :: rest) 0 0
    rw [braceLen_last] at this
    simpa using this
  have h3 := adv_append (body ++ ['}']) rest ['{'] (p + 1)
  simp only [List.append_assoc, List.cons_append, List.nil_append, List.length_append, List.length_cons,
    List.length_nil] at h3
  rw [h0]
  unfold actionQuoteState
  simp only [h1, h3]
  simp [cont, St.tok, St.word, St.ignore]; omega


theorem codeQuoteBody_cons (a : Char) (l acc : List Char) (n : Nat)
    (h : ¬ (a = '%' ∧ l.head? = some '}')) :
    codeQuoteBody (a :: l) acc n = codeQuoteBody l (a :: acc) (n + 1) := by
  rw [codeQuoteBody.eq_def]
  split
  · rename_i heq
    simp only [List.cons.injEq] at heq
    exact absurd ⟨heq.1, by rw [heq.2]; rfl⟩ h
  · rename_i heq
    simp only [List.cons.injEq] at heq
    rw [heq.1, heq.2]
  · rename_i heq; cases heq

theorem codeQuoteBody_body (body t acc : List Char) (n : Nat) (h : NoPair '%' '}' body) :
    codeQuoteBody (body ++ '%' :: '}' :: t) acc n = some (acc.reverse ++ body, n + body.length + 2) := by
  induction body generalizing acc n with
  | nil => simp [codeQuoteBody]
  | cons a as ih =>
    cases as with
    | nil =>
      rw [List.cons_append, List.nil_append, codeQuoteBody_cons _ _ _ _ (by simp)]
      simp [codeQuoteBody]
    | cons b t' =>
      obtain ⟨h1, h2⟩ := h
      rw [List.cons_append, codeQuoteBody_cons _ _ _ _ (by simpa using h1), ih _ _ h2]
      simp; omega

/-- the prologue `%{ body %}` (body without `%}`) is one `codeQuote` token whose value is exactly `body` -/
theorem prologue_verbatim (body rest : List Char) (p : Nat) (hb : NoPair '%' '}' body) :
    rootStep ⟨'%' :: '{' :: body ++ '%' :: '}' :: rest, [], p⟩ =
      cont [⟨.codeQuote, String.ofList body, p + (body.length + 4)⟩] ⟨rest, [], p + (body.length + 4)⟩ := by
  have h0 : rootStep ⟨'%' :: '{' :: body ++ '%' :: '}' :: rest, [], p⟩ =
      codeQuoteBegin ⟨body ++ '%' :: '}' :: rest, ['{', '%'], p + 1 + 1⟩ := rfl
  have h3 := adv_append (body ++ ['%', '}']) rest ['{', '%'] (p + 1 + 1)
  simp only [List.append_assoc, List.cons_append, List.nil_append, List.length_append, List.length_cons,
    List.length_nil] at h3
  rw [h0]
  unfold codeQuoteBegin
  simp only [codeQuoteBody_body body rest [] 0 hb, Nat.zero_add, h3]
  simp [cont, St.tokV, St.ignore]; omega

theorem unionBody_open (cs acc : List Char) (d n : Nat) :
    unionBody ('{' :: cs) d acc n = unionBody cs (d + 1) ('{' :: acc) (n + 1) := by
  rw [unionBody]; simp

theorem unionBody_close (cs acc : List Char) (d n : Nat) :
    unionBody ('}' :: cs) (d + 2) acc n = unionBody cs (d + 1) ('}' :: acc) (n + 1) := by
  rw [unionBody]; simp

theorem unionBody_last (cs acc : List Char) (n : Nat) :
    unionBody ('}' :: cs) 1 acc n = some (acc.reverse, n + 1) := by
  rw [unionBody]; simp

theorem unionBody_other (c : Char) (cs acc : List Char) (d n : Nat) (h1 : c ≠ '{') (h2 : c ≠ '}') :
    unionBody (c :: cs) d acc n = unionBody cs d (c :: acc) (n + 1) := by
  rw [unionBody]; simp [h1, h2]

theorem unionBody_balanced {b : List Char} (hb : Balanced b) (t acc : List Char) (d n : Nat) :
    unionBody (b ++ t) (d + 1) acc n = unionBody t (d + 1) (b.reverse ++ acc) (n + b.length) := by
  induction hb generalizing t acc d n with
  | nil => rfl
  | char c b h1 h2 _ ih =>
    rw [List.cons_append, unionBody_other c _ _ _ n h1 h2, ih]
    congr 1
    · simp
    · simp only [List.length_cons]; omega
  | nest a b _ _ iha ihb =>
    simp only [List.cons_append, List.append_assoc]
    rw [unionBody_open, iha, unionBody_close, ihb]
    congr 1
    · simp
    · simp only [List.length_cons, List.length_append]; omega


theorem acceptAlpha_union (X pd : List Char) (q : Nat) (hX : ∀ c t, X = c :: t → isLetter c = false) :
    acceptAlpha "union" ⟨'u' :: 'n' :: 'i' :: 'o' :: 'n' :: X, pd, q⟩ =
      some ⟨X, 'n' :: 'o' :: 'i' :: 'n' :: 'u' :: pd, q + 1 + 1 + 1 + 1 + 1⟩ := by
  cases X with
  | nil => rfl
  | cons c t =>
    have hc := hX c t rfl
    have h0 : acceptAlpha "union" ⟨'u' :: 'n' :: 'i' :: 'o' :: 'n' :: c :: t, pd, q⟩ =
        (if isLetter c then none
          else some ⟨c :: t, 'n' :: 'o' :: 'i' :: 'n' :: 'u' :: pd, q + 1 + 1 + 1 + 1 + 1⟩) := rfl
    rw [h0, hc]; rfl

theorem directiveUnion_body (ws body rest pd : List Char) (q : Nat) (hws : ∀ x ∈ ws, isBlank3 x = true)
    (hb : Balanced body) :
    directiveUnionState ⟨ws ++ '{' :: body ++ '}' :: rest, pd, q⟩ =
      cont [⟨.unionDir, String.ofList body, q + (ws.length + body.length + 2)⟩]
        ⟨rest, [], q + (ws.length + body.length + 2)⟩ := by
  have h1 := skipWhile_append isBlank3 ws '{' (body ++ '}' :: rest) pd q hws (by decide)
  have h2 : unionBody (body ++ '}' :: rest) 1 [] 0 = some (body, body.length + 1) := by
    have := unionBody_balanced hb ('}' :: rest) [] 0 0
    rw [unionBody_last] at this
    simpa using this
  have h3 := adv_append (body ++ ['}']) rest ('{' :: (ws.reverse ++ pd)) (q + ws.length + 1)
  simp only [List.append_assoc, List.cons_append, List.nil_append, List.length_append, List.length_cons,
    List.length_nil] at h3
  have h1' : St.adv ⟨'{' :: (body ++ '}' :: rest), ws.reverse ++ pd, q + ws.length⟩ 1 =
      ⟨body ++ '}' :: rest, '{' :: (ws.reverse ++ pd), q + ws.length + 1⟩ := rfl
  unfold directiveUnionState
  simp only [List.append_assoc, List.cons_append, h1, h1', h2, h3]
  simp [cont, St.tokV, St.ignore]; omega

/-- `%union {body}` with brace-balanced body (blanks/newlines `ws` allowed before the brace) is one `unionDir`
    token whose value is exactly `body` -/
theorem union_verbatim (ws body rest : List Char) (p : Nat) (hws : ∀ x ∈ ws, isBlank3 x = true)
    (hb : Balanced body) :
    rootStep ⟨'%' :: 'u' :: 'n' :: 'i' :: 'o' :: 'n' :: ws ++ '{' :: body ++ '}' :: rest, [], p⟩ =
      cont [⟨.unionDir, String.ofList body, p + (ws.length + body.length + 8)⟩]
        ⟨rest, [], p + (ws.length + body.length + 8)⟩ := by
  have hX : ∀ c t, ws ++ '{' :: body ++ '}' :: rest = c :: t → isLetter c = false := by
    intro c t e
    cases ws with
    | nil => simp at e; rw [← e.1]; decide
    | cons w ws' =>
      simp at e
      have := hws w (by simp)
      rw [e.1] at this
      simp only [isBlank3, Bool.or_eq_true, beq_iff_eq] at this
      rcases this with (rfl | rfl) | rfl <;> decide
  have h0 : rootStep ⟨'%' :: 'u' :: 'n' :: 'i' :: 'o' :: 'n' :: ws ++ '{' :: body ++ '}' :: rest, [], p⟩ =
      directiveOtherState ⟨'u' :: 'n' :: 'i' :: 'o' :: 'n' :: (ws ++ '{' :: body ++ '}' :: rest), ['%'], p + 1⟩ := rfl
  rw [h0]
  unfold directiveOtherState
  have o1 : optWord "type" .typeDir
      ⟨'u' :: 'n' :: 'i' :: 'o' :: 'n' :: (ws ++ '{' :: body ++ '}' :: rest), ['%'], p + 1⟩ =
      ([], ⟨'u' :: 'n' :: 'i' :: 'o' :: 'n' :: (ws ++ '{' :: body ++ '}' :: rest), ['%'], p + 1⟩) := rfl
  have o2 : optWord "token" .tokenDir
      ⟨'u' :: 'n' :: 'i' :: 'o' :: 'n' :: (ws ++ '{' :: body ++ '}' :: rest), ['%'], p + 1⟩ =
      ([], ⟨'u' :: 'n' :: 'i' :: 'o' :: 'n' :: (ws ++ '{' :: body ++ '}' :: rest), ['%'], p + 1⟩) := rfl
  simp only [o1, o2, acceptAlpha_union _ _ _ hX, directiveUnion_body ws body rest _ _ hws hb]
  simp [cont]; omega


/-! ## instances of `Boundary` -/

/-- one continuing root step that consumes exactly `pre` and leaves nothing pending is a boundary -/
theorem boundary_of_step {pre : List Char} {ks : List (Kind × String)}
    (h : ∀ s, ∃ toks q, rootStep ⟨pre ++ s, [], 0⟩ = cont toks ⟨s, [], q⟩ ∧ toks.map eraseEnd = ks) :
    Boundary pre ks := by
  intro s
  obtain ⟨toks, q, e, hk⟩ := h s
  refine ⟨1, toks, q, ?_, hk⟩
  rw [runRoot_step e 0]; simp [runRoot, cont]

theorem boundary_ruleEnd : Boundary [';'] [(.ruleEnd, ";")] :=
  boundary_of_step fun _ => ⟨_, _, rfl, rfl⟩
theorem boundary_ruleOr : Boundary ['|'] [(.ruleOr, "|")] :=
  boundary_of_step fun _ => ⟨_, _, rfl, rfl⟩
theorem boundary_ruleDefine : Boundary [':'] [(.ruleDefine, ":")] :=
  boundary_of_step fun _ => ⟨_, _, rfl, rfl⟩
theorem boundary_langle : Boundary ['<'] [(.langle, "<")] :=
  boundary_of_step fun _ => ⟨_, _, rfl, rfl⟩
theorem boundary_rangle : Boundary ['>'] [(.rangle, ">")] :=
  boundary_of_step fun _ => ⟨_, _, rfl, rfl⟩
theorem boundary_section : Boundary ['%', '%'] [(.section, "%%")] :=
  boundary_of_step fun _ => ⟨_, _, rfl, rfl⟩

theorem boundary_action {body : List Char} (hb : Balanced body) :
    Boundary ('{' :: body ++ ['}']) [(.actionQuote, String.ofList ('{' :: body ++ ['}']))] :=
  boundary_of_step fun s =>
    ⟨[⟨.actionQuote, String.ofList ('{' :: body ++ ['}']), 0 + (body.length + 2)⟩], 0 + (body.length + 2), by
      simpa only [List.append_assoc, List.cons_append, List.nil_append] using action_verbatim body s 0 hb, rfl⟩

theorem boundary_prologue {body : List Char} (hb : NoPair '%' '}' body) :
    Boundary ('%' :: '{' :: body ++ ['%', '}']) [(.codeQuote, String.ofList body)] :=
  boundary_of_step fun s =>
    ⟨[⟨.codeQuote, String.ofList body, 0 + (body.length + 4)⟩], 0 + (body.length + 4), by
      simpa only [List.append_assoc, List.cons_append, List.nil_append] using prologue_verbatim body s 0 hb, rfl⟩


theorem token_A_step1 (s : List Char) :
    rootStep ⟨'%' :: 't' :: 'o' :: 'k' :: 'e' :: 'n' :: ' ' :: 'A' :: ' ' :: s, [], 0⟩ =
      cont [⟨.tokenDir, "%token", 6⟩] ⟨' ' :: 'A' :: ' ' :: s, [], 6⟩ := by
  have h0 : rootStep ⟨'%' :: 't' :: 'o' :: 'k' :: 'e' :: 'n' :: ' ' :: 'A' :: ' ' :: s, [], 0⟩ =
      directiveOtherState ⟨'t' :: 'o' :: 'k' :: 'e' :: 'n' :: ' ' :: 'A' :: ' ' :: s, ['%'], 1⟩ := rfl
  have o1 : optWord "type" .typeDir ⟨'t' :: 'o' :: 'k' :: 'e' :: 'n' :: ' ' :: 'A' :: ' ' :: s, ['%'], 1⟩ =
      ([], ⟨'t' :: 'o' :: 'k' :: 'e' :: 'n' :: ' ' :: 'A' :: ' ' :: s, ['%'], 1⟩) := rfl
  have o2 : optWord "token" .tokenDir ⟨'t' :: 'o' :: 'k' :: 'e' :: 'n' :: ' ' :: 'A' :: ' ' :: s, ['%'], 1⟩ =
      ([⟨.tokenDir, "%token", 6⟩], ⟨' ' :: 'A' :: ' ' :: s, [], 6⟩) := rfl
  have o3 : acceptAlpha "union" ⟨' ' :: 'A' :: ' ' :: s, [], 6⟩ = none := rfl
  have o4 : directiveChain directiveWords ⟨' ' :: 'A' :: ' ' :: s, [], 6⟩ [] =
      ([], ⟨' ' :: 'A' :: ' ' :: s, [], 6⟩) := rfl
  rw [h0]
  unfold directiveOtherState
  simp only [o1, o2, o3, o4]
  rfl

/-- `%token A ` (with the trailing blank) is a boundary whatever follows -/
theorem boundary_token_A :
    Boundary "%token A ".toList [(.tokenDir, "%token"), (.identifier, "A")] := by
  intro s
  have e1 := token_A_step1 s
  have e2 : rootStep ⟨' ' :: 'A' :: ' ' :: s, [], 6⟩ = cont [] ⟨'A' :: ' ' :: s, [], 7⟩ := rfl
  have e3 : rootStep ⟨'A' :: ' ' :: s, [], 7⟩ = cont [⟨.identifier, "A", 8⟩] ⟨' ' :: s, [], 8⟩ := rfl
  have e4 : rootStep ⟨' ' :: s, [], 8⟩ = cont [] ⟨s, [], 9⟩ := rfl
  refine ⟨4, [⟨.tokenDir, "%token", 6⟩, ⟨.identifier, "A", 8⟩], 9, ?_, rfl⟩
  have hl : "%token A ".toList ++ s = '%' :: 't' :: 'o' :: 'k' :: 'e' :: 'n' :: ' ' :: 'A' :: ' ' :: s := rfl
  rw [hl, runRoot_step e1, runRoot_step e2, runRoot_step e3, runRoot_step e4]
  rfl

def isIdStart (c : Char) : Bool := isLetter c || c == '_'
def isIdChar (c : Char) : Bool := isLetter c || isDigit c || c == '_'

theorem dispatch_ident (c : Char) (st : St) (hc : isIdStart c = true) : dispatch c st = identifyState st := by
  have hne : ∀ d, isIdStart d = false → (c == d) = false := by
    intro d hd
    cases h : c == d with
    | false => rfl
    | true => rw [eq_of_beq h] at hc; rw [hc] at hd; cases hd
  have hb : isBlank3 c = false := by
    simp only [isBlank3, hne ' ' (by decide), hne '\t' (by decide), hne '\n' (by decide), Bool.or_self]
  unfold dispatch
  unfold isIdStart at hc
  simp only [hne '%' (by decide), hne '$' (by decide), hne '|' (by decide), hne ':' (by decide),
    hne ';' (by decide), hne '\'' (by decide), hne '"' (by decide), hb, hc, if_true, Bool.false_eq_true, if_false]

/-- an identifier followed by a character that cannot continue it is one `identifier` token -/
theorem ident_step (c : Char) (cs : List Char) (b : Char) (s : List Char) (p : Nat)
    (hc : isIdStart c = true) (hcs : ∀ x ∈ cs, isIdChar x = true) (hb : isIdChar b = false) :
    rootStep ⟨c :: cs ++ b :: s, [], p⟩ =
      cont [⟨.identifier, String.ofList (c :: cs), p + (cs.length + 1)⟩] ⟨b :: s, [], p + (cs.length + 1)⟩ := by
  have hslash : c ≠ '/' := by
    intro h; rw [h] at hc; cases hc
  have hp1 : hasPrefix "//" (c :: (cs ++ b :: s)) = false := by
    have : "//".toList = ['/', '/'] := rfl
    unfold hasPrefix; rw [this]; simp [List.isPrefixOf, Ne.symm hslash]
  have hp2 : hasPrefix "/*" (c :: (cs ++ b :: s)) = false := by
    have : "/*".toList = ['/', '*'] := rfl
    unfold hasPrefix; rw [this]; simp [List.isPrefixOf, Ne.symm hslash]
  have h1 : St.adv ⟨c :: (cs ++ b :: s), [], p⟩ 1 = ⟨cs ++ b :: s, [c], p + 1⟩ := rfl
  have h2 := skipWhile_append (fun c => isLetter c || isDigit c || c == '_') cs b s [c] (p + 1) hcs hb
  unfold rootStep
  simp only [List.cons_append, hp1, hp2, Bool.or_self, Bool.false_eq_true, if_false, h1]
  rw [dispatch_ident c _ hc]
  unfold identifyState
  simp only [h2]
  simp [cont, St.tok, St.word, St.ignore]; omega

/-- identifier followed by one blank/tab/newline: a boundary whatever follows -/
theorem boundary_ident (c : Char) (cs : List Char) (b : Char)
    (hc : isIdStart c = true) (hcs : ∀ x ∈ cs, isIdChar x = true) (hb : isBlank3 b = true) :
    Boundary (c :: cs ++ [b]) [(.identifier, String.ofList (c :: cs))] := by
  intro s
  have hb' : isIdChar b = false := by
    simp only [isBlank3, Bool.or_eq_true, beq_iff_eq] at hb
    rcases hb with (rfl | rfl) | rfl <;> decide
  have e1 := ident_step c cs b s 0 hc hcs hb'
  have e2 := rootStep_blank b s (0 + (cs.length + 1)) hb
  refine ⟨2, [⟨.identifier, String.ofList (c :: cs), 0 + (cs.length + 1)⟩], 0 + (cs.length + 1) + 1, ?_, ?_⟩
  · simp only [List.append_assoc, List.cons_append, List.nil_append] at e1 ⊢
    rw [runRoot_step e1, runRoot_step e2]
    rfl
  · rfl


theorem boundary_union {ws body : List Char} (hws : ∀ x ∈ ws, isBlank3 x = true) (hb : Balanced body) :
    Boundary ('%' :: 'u' :: 'n' :: 'i' :: 'o' :: 'n' :: ws ++ '{' :: body ++ ['}'])
      [(.unionDir, String.ofList body)] :=
  boundary_of_step fun s =>
    ⟨[⟨.unionDir, String.ofList body, 0 + (ws.length + body.length + 8)⟩], 0 + (ws.length + body.length + 8), by
      simpa only [List.append_assoc, List.cons_append, List.nil_append] using union_verbatim ws body s 0 hws hb,
      rfl⟩

/-! ## `lexRoot` / `lexAll` forms -/

theorem lexRoot_kv (n : Nat) (cs : List Char) (h : cs.length < n) :
    (lexRoot n ⟨cs, [], 0⟩ #[]).1.toList.map eraseEnd = lexKV cs := by
  unfold lexKV
  rw [lexRoot_eq_run, runRoot_fuel n (cs.length + 2) _ h (by simp)]
  simp

theorem lexAll_kv_array (s : String) : (lexAll s).1.map eraseEnd = (lexKV s.toList).toArray := by
  apply Array.ext'
  rw [Array.toList_map, lexAll_kv]

end YLex
