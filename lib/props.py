"""Per-property checks.  Each function returns the process exit code (0 / 1) after printing the
VIOLATION / KNOWN-FINDING lines and writing evidence (common.conclude)."""
import random

import cfg
import common
import sweep

TRUSTED = [
    "Lean 4.33.0 kernel (thorough tier: re-checked by leanchecker); axioms of each theorem as listed under theorem_axioms (subset of propext, Classical.choice, Quot.sound)",
    "compiled ymodel executable computes what the Lean definitions denote (Lean compiler/runtime)",
    "Go harness (dumps the implementation's artefacts in-process under build tag verif) and the Python orchestrator/oracles (cfg.py)",
]


def prebuild():
    ok, msg = common.build_harness()
    if not ok:
        return False, msg
    ok, msg = common.run_translator()
    if not ok:
        return False, msg
    ok, msg = common.build_ymodel()
    return ok, msg


def build_failure(pid, tier, msg):
    """the harness/model cannot even be built against the current tree: nothing is shown"""
    proof = {"ok": False, "obligations": 1, "discharged": 0, "detail": msg[:2000]}
    return common.conclude(pid, tier, "proof", proof, [{"what": "build", "detail": msg[:2000]}], [],
                           {"evaluations": 0, "distinct_nontrivial": 0, "rule": "build failed", "samples": []}, [])


def cert_ties(results, names):
    """certificates that must pass on every accepted grammar for the theorems to apply"""
    ties = []
    for r in results:
        if r.refused is not None:
            continue
        for nm in names:
            v = r.V.get(nm)
            if v is None or v[0] != "ok":
                ties.append({"what": "certificate %s fails on the implementation's artefacts" % nm,
                             "case": r.id, "detail": v, "src": r.case["src"]})
    return ties


def mirror_ties(results, prefixes, what):
    ties = []
    for r in results:
        if r.refused is not None:
            continue
        d = common.stage_diff(r.impl, r.M, prefixes)
        if d is not None:
            ties.append({"what": "mirror stage differs: " + what, "case": r.id, "detail": d, "src": r.case["src"]})
    return ties


# ------------------------------------------------------------------------------------------- C01

def check_C01(tier):
    pid = "C01"
    rng = random.Random(common.seed() * 1000003 + 1)
    ok, msg = prebuild()
    if not ok:
        return build_failure(pid, tier, msg)
    proof = common.prove(["Y.Props.C01_sound"], ["Yv.Props.C01"])
    results = sweep.run(tier, rng)
    ties = cert_ties(results, ["gramWF", "certA", "certT"])
    ties += mirror_ties(results, ("STATE", "GOTO"), "LR(0) automaton")
    ties += mirror_ties(results, ("ROW",), "dense table")
    violations = []
    runs = 0
    accepted = 0
    samples = []
    for r in results:
        if r.refused is not None:
            continue
        for f in r.runs:
            i = int(f[1])
            w = r.inputs[i]
            runs += 1
            if f[2] == "accept":
                accepted += 1
                reds = [int(x) for x in f[4:]]
                good = r.g.check_rm_derivation(reds, w) and int(f[3]) == len(w) + 1
                if len(samples) < 3 and len(w) >= 2:
                    samples.append({"case": r.id, "input": w, "reductions": reds, "valid_rightmost_derivation": good})
                if not good:
                    violations.append({
                        "key": common.finding_key({"src": r.case["src"], "input": w}),
                        "what": "accepted input whose reductions are not a rightmost derivation of it",
                        "replay": {"property": pid, "grammar": r.case["src"], "input_symbol_ids": w,
                                   "reductions": reds, "tokens_requested": int(f[3]),
                                   "how": "driver model run on the implementation's GTable (ymodel R line); replay: bin/check C01 --replay <this file>"}})
    dist = sweep.distribution(results)
    cov = {"evaluations": runs, "distinct_nontrivial": dist["distinct_rule_sets"],
           "rule": "corpus + sampled exhaustive tiny grammars + random structured grammars (+precedence, literals) + operator grammars; "
                   "distinct = distinct rule sets among accepted grammars; per grammar all strings up to a length bound over its terminals plus an unknown token, sampled sentences and mutated sentences are run through the driver model on the implementation's GTable",
           "samples": samples, "accepted_runs": accepted, "distribution": dist,
           "certificates_evaluated": sum(1 for r in results if r.refused is None) * 3,
           "trusted_base": TRUSTED,
           "partial": ["execution of the compiled generated parsers (mechanism X) is covered by the C08 check, which compares them with this driver model"]}
    return common.conclude(pid, tier, "proof", proof, ties, violations, cov,
                           ["inputs are token sequences before the first end marker; symbols outside 0..nT cannot be produced by translate()"])
