import Yv.Proofs.DValue
import Yv.Props.C01
/-! # C07 — the returned value is the bottom-up evaluation of the semantic actions

`Vals G sem γ u vs rs` (in `Yv/Proofs/DValue.lean`): the symbol sequence `γ` derives the token/value
list `u`, the values of the `γ`-symbols are `vs` — a token's value is the one the lexer delivered, a
nonterminal's value is `sem r` applied to the values of its children in order (what `$1..$n` / `$$`
mean) — and `rs` is the rule sequence of a bottom-up left-to-right parse.

`C07_value`: on **every** table passing the certificates, if the driver accepts input `w` with
value `v`, then `v` is the value of the start symbol over a parse tree of exactly `w` whose
reductions, in order, are the ones the driver performed.

`C07_slots`: in every reduce step of a run, the list handed to `sem r` is the list of the values of
the subtrees for the right-hand-side symbols of this reduction (oldest first), and the new top entry
carries `sem r` of that list. -/
namespace Y.Props
open Y Y.D

theorem C07_value {V : Type} (G : Grammar) (nS : Nat) (A : Auto) (T : Dense)
    (sem : Nat → List V → V) (eofVal bv : V)
    (hG : gramWF G nS = true) (hA : certA G A = true) (hT : certT G nS A T = true)
    (w : List (Sym × V)) (hw : ∀ t ∈ w, t.1 ≤ G.nT ∧ t.1 ≠ 1)
    (fuel : Nat) (v : V) (c' : D.Cfg V)
    (hrun : run (dparams G T A.n sem eofVal) fuel (init bv w) = .accept v c') :
    ∃ rl0, G.rules[0]? = some rl0 ∧ Vals G sem rl0.rhs w [v] c'.reds.reverse := by
  have hG' := gramWF_ok hG
  have hA' := certA_ok hA
  have hT' := certT_ok hT
  obtain ⟨hi, hacc, _⟩ := run_accept_invV sem eofVal hG' hA' hT' fuel _
    (init_invV (G := G) (A := A) sem bv w hw) hrun
  obtain ⟨_, top, below, hst, hv⟩ := step_acc_shape hacc
  obtain ⟨shifted, hsh, hvals⟩ := hi.val
  rcases step_cases sem eofVal hG' hA' hT' hi.inv with ⟨c2, h2, _⟩ | ⟨v2, _, hrest, rl0, hrl0, hsy⟩ | h2
  · rw [h2] at hacc; cases hacc
  · refine ⟨rl0, hrl0, ?_⟩
    obtain ⟨rl0', hrl0', _, hlen⟩ := hG'.r0
    have : rl0' = rl0 := by rw [hrl0] at hrl0'; cases hrl0'; rfl
    subst this
    cases hrr : rl0'.rhs with
    | nil => rw [hrr] at hlen; cases hlen
    | cons x xs =>
      cases xs with
      | cons y ys => rw [hrr] at hlen; simp at hlen
      | nil =>
        rw [hrr] at hsy
        rw [hrest, List.append_nil] at hsh
        rw [hst] at hsy
        have hsv := svals_single hsy
        rw [← hst] at hsy hsv
        rw [hsy, hsv, ← hsh, ← hv] at hvals
        exact hvals
  · rw [h2] at hacc; cases hacc

/-- In every reduce step of a run (a `next` step that records a reduction `r`), the old stack splits
    at `|rhs|` entries from the top: the forest of the consumed input splits into a forest for the
    symbols below the handle and a forest for `rhs` whose root values are exactly the list handed to
    `sem r` — the values of the `|rhs|` topmost entries, oldest first; the pushed entry has symbol
    `lhs` and value `sem r` of that list. -/
theorem C07_slots {V : Type} (G : Grammar) (nS : Nat) (A : Auto) (T : Dense)
    (sem : Nat → List V → V) (eofVal bv : V)
    (hG : gramWF G nS = true) (hA : certA G A = true) (hT : certT G nS A T = true)
    (w : List (Sym × V)) (hw : ∀ t ∈ w, t.1 ≤ G.nT ∧ t.1 ≠ 1)
    (c c' : D.Cfg V) (hreach : Reach (dparams G T A.n sem eofVal) (init bv w) c)
    (hs : D.step (dparams G T A.n sem eofVal) c = .next c')
    (r : Nat) (hr : c'.reds = r :: c.reds) :
    ∃ rl e', G.rules[r]? = some rl ∧
      c'.stack = e' :: c.stack.drop rl.rhs.length ∧ e'.sym = rl.lhs ∧
      e'.val = sem r ((c.stack.take rl.rhs.length).reverse.map Entry.val) ∧
      ssyms c.stack = ssyms (c.stack.drop rl.rhs.length) ++ rl.rhs ∧
      svals c.stack = svals (c.stack.drop rl.rhs.length) ++
        ((c.stack.take rl.rhs.length).reverse.map Entry.val) ∧
      ∃ u1 u2 rs1 rs2, w = u1 ++ u2 ++ c.rest ∧ c.reds.reverse = rs1 ++ rs2 ∧
        Vals G sem (ssyms (c.stack.drop rl.rhs.length)) u1 (svals (c.stack.drop rl.rhs.length)) rs1 ∧
        Vals G sem rl.rhs u2 ((c.stack.take rl.rhs.length).reverse.map Entry.val) rs2 := by
  have hG' := gramWF_ok hG
  have hA' := certA_ok hA
  have hT' := certT_ok hT
  have hi : InvV G A sem w c :=
    reach_invV sem eofVal hG' hA' hT' (init_invV (G := G) (A := A) sem bv w hw) hreach
  obtain ⟨shifted, hsh, hv⟩ := hi.val
  obtain ⟨top, below, hst, hcase⟩ := step_shapeV sem eofVal hT' hi.inv hs
  have hpath := hi.inv.path
  rcases hcase with ⟨x, xs, p, _, _, _, _, hreds⟩ |
    ⟨r', rl, p, under, rest', _, hrl, hit, hdrop, hstk, _, hreds⟩
  · rw [hreds] at hr
    exact absurd hr.symm (List.cons_ne_self _ _)
  · rw [hreds] at hr
    have hrr : r' = r := List.head_eq_of_cons_eq hr
    subst hrr
    have hit' : (⟨r', rl.rhs.length⟩ : Item) ∈ A.its (stTop c.stack) := by
      rw [hst]; simpa only [stTop] using hit
    rw [← hst] at hdrop hstk
    obtain ⟨_, hsy, hsv, u1, u2, rs1, rs2, hu, hrs, h1, h2⟩ :=
      reduce_vals hA' (sem := sem) hpath hrl hit' hv
    refine ⟨rl, ⟨p, rl.lhs, sem r' ((c.stack.take rl.rhs.length).reverse.map Entry.val)⟩, hrl, ?_,
      rfl, rfl, hsy, hsv, u1, u2, rs1, rs2, ?_, hrs, h1, h2⟩
    · rw [hstk, hdrop]
    · rw [hsh, hu]

/-! ## Non-vacuity: the grammar/automaton/table of `C01` with `V := Nat`; token values are numbers
    and `sem r vs = (sum of vs) + r`.  Input `a(10) a(20) b(5)`: `S→b` gives `5+2 = 7`,
    `S→aS` gives `20+7+1 = 28`, `S→aS` gives `10+28+1 = 39`. -/

def exSem : Nat → List Nat → Nat := fun r vs => vs.sum + r

example : ∃ c', run (dparams exG exT exA.n exSem 0) 20 (init 0 [(2, 10), (2, 20), (3, 5)])
    = .accept 39 c' ∧ c'.reds.reverse = [2, 1, 1] := ⟨_, rfl, rfl⟩

/-- the theorem applied to this run: 39 is the value of the parse tree with rule sequence 2,1,1 -/
example : ∃ rl0, exG.rules[0]? = some rl0 ∧
    Vals exG exSem rl0.rhs [(2, 10), (2, 20), (3, 5)] [39] [2, 1, 1] := by
  have h := C07_value exG 5 exA exT exSem 0 0 (by decide) (by decide) (by decide)
    [(2, 10), (2, 20), (3, 5)] (by decide) 20 39 _ rfl
  exact h

end Y.Props
