namespace Y

abbrev Sym := Nat
structure Rule where
  lhs : Sym
  rhs : List Sym
deriving Repr, DecidableEq

structure Grammar where
  nT : Nat               -- terminals are 1..nT (1 = end marker)
  rules : List Rule      -- rule 0 = start' -> S
deriving Repr

def Grammar.isT (G : Grammar) (x : Sym) : Bool := 1 ≤ x && x ≤ G.nT

/-- rightmost derivation run: from sentential form `a`, applying rules `rs` in order, reaching `b`.
    each step rewrites a nonterminal whose right context is all terminals. -/
inductive RmDer (G : Grammar) : List Sym → List Nat → List Sym → Prop
  | nil (a) : RmDer G a [] a
  | step (pre : List Sym) (r : Nat) (rl : Rule) (z : List Sym) (rs b) :
      G.rules[r]? = some rl → (∀ t ∈ z, G.isT t = true) →
      RmDer G (pre ++ rl.rhs ++ z) rs b →
      RmDer G (pre ++ [rl.lhs] ++ z) (r :: rs) b

/-- abstract LR configuration: stack of (state, symbol) above the bottom state, remaining input, reductions so far -/
structure Cfg where
  stack : List (Nat × Sym)   -- top is head
  rest  : List Sym
  reds  : List Nat           -- most recent first
deriving Repr

def syms (st : List (Nat × Sym)) : List Sym := (st.map Prod.snd).reverse

inductive Act | shift (p : Nat) | reduce (r : Nat) | accept | error
deriving Repr, DecidableEq

structure Tab where
  act  : Nat → Sym → Act
  goto : Nat → Sym → Option Nat

def topOf (st : List (Nat × Sym)) : Nat := match st with | [] => 0 | (q,_)::_ => q
def top (c : Cfg) : Nat := topOf c.stack

inductive StepR | next (c : Cfg) | acc (c : Cfg) | err | crash

def step (G : Grammar) (T : Tab) (c : Cfg) : StepR :=
  match c.rest with
  | [] => .crash
  | a :: v =>
    match T.act (top c) a with
    | .error => .err
    | .accept => .acc c
    | .shift p => .next { c with stack := (p, a) :: c.stack, rest := v }
    | .reduce r =>
      match G.rules[r]? with
      | none => .crash
      | some rl =>
        if rl.rhs.length ≤ c.stack.length then
          let st' := c.stack.drop rl.rhs.length
          let q := topOf st'
          match T.goto q rl.lhs with
          | none => .crash
          | some p => .next { c with stack := (p, rl.lhs) :: st', reds := r :: c.reds }
        else .crash

/-- the semantic invariant carried by the certificate: whenever the table says reduce r on top state,
    the top |rhs| stack symbols spell rhs.  (In the real development this is *derived* from the
    decidable LR(0) certificate; here it is the interface lemma.) -/
def HandleOK (G : Grammar) (T : Tab) (c : Cfg) : Prop :=
  ∀ a r rl, T.act (top c) a = .reduce r → G.rules[r]? = some rl →
    rl.rhs.length ≤ c.stack.length ∧ syms (c.stack.take rl.rhs.length) = rl.rhs

/-- derivation invariant -/
def Inv (G : Grammar) (w : List Sym) (c : Cfg) : Prop :=
  (∀ t ∈ c.rest, G.isT t = true) ∧ RmDer G (syms c.stack ++ c.rest) c.reds w

theorem syms_cons (p : Nat) (a : Sym) (st) : syms ((p,a)::st) = syms st ++ [a] := by
  simp [syms]

theorem syms_take_drop (st : List (Nat × Sym)) (n : Nat) :
    syms st = syms (st.drop n) ++ syms (st.take n) := by
  simp [syms, ← List.reverse_append]

theorem step_inv (G : Grammar) (T : Tab) (w : List Sym) (c c' : Cfg)
    (h : Inv G w c) (hh : HandleOK G T c) (hs : step G T c = .next c') : Inv G w c' := by
  obtain ⟨hT, hD⟩ := h
  unfold step at hs
  split at hs
  · cases hs
  · rename_i a v hrest
    split at hs
    · cases hs
    · cases hs
    · rename_i p hact
      cases hs
      refine ⟨?_, ?_⟩
      · intro t ht; exact hT t (by simp [hrest, ht])
      · simpa [syms_cons, hrest] using hD
    · rename_i r hact
      split at hs
      · cases hs
      · rename_i rl hrl
        split at hs
        · rename_i hlen
          dsimp only at hs
          split at hs
          · cases hs
          · rename_i p hg
            cases hs
            obtain ⟨_, hsp⟩ := hh a r rl hact hrl
            refine ⟨hT, ?_⟩
            have e := syms_take_drop c.stack rl.rhs.length
            simp only [syms_cons]
            have hD' : RmDer G (syms (c.stack.drop rl.rhs.length) ++ rl.rhs ++ c.rest) c.reds w := by
              rw [e, hsp] at hD; exact hD
            have := RmDer.step (G := G) (syms (c.stack.drop rl.rhs.length)) r rl c.rest c.reds w hrl hT hD'
            simpa using this
        · cases hs
end Y
