#!/usr/bin/env python3
"""Runs every quick check against every seeded change, in a scratch worktree of /repo (never /repo
itself), and writes seeded/MATRIX.json + seeded/MATRIX.md.  usage: seed_matrix.py [seed-id ...]"""
import json, os, subprocess, sys, time, shutil
VERIF = os.environ.get("VERIF_DIR", "/verif")   # a copy of /verif may be used so that /verif itself stays usable meanwhile
WT = os.environ.get("VERIF_WT", "/tmp/seedwt")
SD = os.environ.get("VERIF_SEEDDIR", "seeded")   # "harmless" = the behaviour-preserving rewrites (every V there is a false alarm)
CHECKS = os.environ.get("VERIF_CHECKS", "").split() or ["C%02d" % i for i in range(1, 20)]   # a subset may be given
seeds = sys.argv[1:] or sorted(d for d in os.listdir(VERIF + "/" + SD) if os.path.isfile(VERIF + "/" + SD + "/%s/patch.diff" % d))
subprocess.run(["git", "-C", "/repo", "worktree", "remove", "--force", WT], stderr=subprocess.DEVNULL)
subprocess.run(["git", "-C", "/repo", "worktree", "add", "-q", "--detach", WT, "HEAD"], check=True)
env = dict(os.environ, VERIF_REPO=WT)
res = {}
try:
    # sanity: the unchanged worktree passes everything
    base = {}
    for c in CHECKS:
        p = subprocess.run([VERIF + "/bin/check", c], cwd=VERIF, env=env, stdout=subprocess.PIPE, stderr=subprocess.DEVNULL)
        base[c] = p.returncode
    res["(unchanged)"] = base
    print("unchanged:", base, flush=True)
    for s in seeds:
        a = subprocess.run(["git", "-C", WT, "apply", VERIF + "/" + SD + "/%s/patch.diff" % s])
        if a.returncode != 0:
            res[s] = {"error": "patch does not apply"}
            continue
        row = {}
        t = time.time()
        for c in CHECKS:
            p = subprocess.run([VERIF + "/bin/check", c], cwd=VERIF, env=env, stdout=subprocess.PIPE, stderr=subprocess.DEVNULL)
            out = p.stdout.decode(errors="replace")
            if "VIOLATION" in out:
                row[c] = "no-input" if "no-failing-input-found" in out else "VIOLATION"
            else:
                row[c] = "-" if p.returncode == 0 else "rc%d" % p.returncode
        subprocess.run(["git", "-C", WT, "checkout", "--", "."])
        res[s] = row
        print(s, {k: v for k, v in row.items() if v != "-"}, "%.0fs" % (time.time() - t), flush=True)
        json.dump(res, open(VERIF + "/" + SD + "/MATRIX.json", "w"), indent=1)
finally:
    subprocess.run(["git", "-C", "/repo", "worktree", "remove", "--force", WT], stderr=subprocess.DEVNULL)
    # restore the harness module's replace directive
    subprocess.run(["git", "-C", VERIF, "checkout", "--", "harness/go.mod"], stderr=subprocess.DEVNULL)
json.dump(res, open(VERIF + "/" + SD + "/MATRIX.json", "w"), indent=1)
with open(VERIF + "/" + SD + "/MATRIX.md", "w") as f:
    f.write("# Seeded changes x quick checks\n\nV = VIOLATION with a concrete replay, n = VIOLATION … no-failing-input-found (broken proof/correspondence only), - = check passes.\n\n")
    f.write("| seed | breaks | " + " | ".join(c[1:] for c in CHECKS) + " |\n|---|---|" + "---|" * len(CHECKS) + "\n")
    for s in ["(unchanged)"] + seeds:
        row = res.get(s, {})
        try:
            br = json.load(open(VERIF + "/" + SD + "/%s/meta.json" % s)).get("breaks", "")
        except Exception:
            br = ""
        f.write("| %s | %s | " % (s, br) + " | ".join({"VIOLATION": "V", "no-input": "n", "-": "-", 0: "-"}.get(row.get(c), str(row.get(c))) for c in CHECKS) + " |\n")
print("done")
