package main

import (
	"go/ast"
	"go/token"
)

// canonLocals renames the LOCAL names of a function (receiver, parameters, names introduced by `:=` or `var`) to the
// canonical names `canon` by ORDER of declaration, so that a consistent renaming of locals in the source text yields the
// same translation.  Nothing is renamed unless the number of declarations matches and the renaming is one-to-one; fields
// (`x.f`), keys of struct literals and every name not declared locally are left alone.  A text whose locals cannot be
// matched is translated as it stands (and then fails closed on the first unknown identifier).
func canonLocals(fd *ast.FuncDecl, canon []string) {
	var decls []*ast.Ident
	if fd.Recv != nil {
		for _, f := range fd.Recv.List {
			decls = append(decls, f.Names...)
		}
	}
	for _, f := range fd.Type.Params.List {
		decls = append(decls, f.Names...)
	}
	ast.Inspect(fd.Body, func(n ast.Node) bool {
		switch x := n.(type) {
		case *ast.AssignStmt:
			if x.Tok == token.DEFINE {
				for _, l := range x.Lhs {
					if id, ok := l.(*ast.Ident); ok {
						decls = append(decls, id)
					}
				}
			}
		case *ast.DeclStmt:
			if gd, ok := x.Decl.(*ast.GenDecl); ok && gd.Tok == token.VAR {
				for _, sp := range gd.Specs {
					if vs, ok := sp.(*ast.ValueSpec); ok {
						decls = append(decls, vs.Names...)
					}
				}
			}
		}
		return true
	})
	if len(decls) != len(canon) {
		return
	}
	fwd, back := map[string]string{}, map[string]string{}
	for i, id := range decls {
		if c, ok := fwd[id.Name]; ok && c != canon[i] {
			return // one source name for two canonical ones
		}
		if a, ok := back[canon[i]]; ok && a != id.Name {
			// two source names for one canonical one (the canonical text re-declares the name, shadowing the earlier
			// one): faithful only if the earlier name is not used any more inside the block of the later declaration
			if usedAfter(fd, id, a) {
				return
			}
		}
		fwd[id.Name], back[canon[i]] = canon[i], id.Name
	}
	same := true
	for a, c := range fwd {
		if a != c {
			same = false
		}
	}
	if same {
		return
	}
	// a canonical name that is also used as a NON-local name in the text would be captured: refuse
	skip := map[*ast.Ident]bool{}
	ast.Inspect(fd, func(n ast.Node) bool {
		switch x := n.(type) {
		case *ast.SelectorExpr:
			skip[x.Sel] = true
		case *ast.KeyValueExpr:
			if k, ok := x.Key.(*ast.Ident); ok {
				skip[k] = true
			}
		}
		return true
	})
	captured := false
	ast.Inspect(fd, func(n ast.Node) bool {
		if id, ok := n.(*ast.Ident); ok && !skip[id] {
			if _, isLocal := fwd[id.Name]; !isLocal {
				if _, clash := back[id.Name]; clash {
					captured = true
				}
			}
		}
		return true
	})
	if captured {
		return
	}
	ast.Inspect(fd, func(n ast.Node) bool {
		if id, ok := n.(*ast.Ident); ok && !skip[id] {
			if c, ok := fwd[id.Name]; ok {
				id.Name = c
			}
		}
		return true
	})
}

// usedAfter: is the name `earlier` mentioned after the declaration `decl`, inside the innermost block holding `decl`?
func usedAfter(fd *ast.FuncDecl, decl *ast.Ident, earlier string) bool {
	var inner *ast.BlockStmt
	ast.Inspect(fd.Body, func(n ast.Node) bool {
		if b, ok := n.(*ast.BlockStmt); ok && b.Pos() <= decl.Pos() && decl.End() <= b.End() {
			inner = b // blocks are visited outside-in: the last one that contains the declaration is the innermost
		}
		return true
	})
	if inner == nil {
		return true
	}
	used := false
	ast.Inspect(inner, func(n ast.Node) bool {
		if id, ok := n.(*ast.Ident); ok && id.Name == earlier && id.Pos() > decl.Pos() {
			used = true
		}
		return true
	})
	return used
}
