import Yv.Cert.Auto
/-! Prop-level facts extracted from the Bool certificates `certA` / `certT`. -/
namespace Y

theorem all_range {n : Nat} {p : Nat → Bool} (h : (List.range n).all p = true) :
    ∀ i, i < n → p i = true := by
  intro i hi
  exact (List.all_eq_true.mp h) i (List.mem_range.mpr hi)

theorem Auto.goto_mem {A : Auto} {q : Nat} {X : Sym} {p : Nat} (h : A.goto q X = some p) :
    (X, p) ∈ A.gts q := by
  unfold Auto.goto at h
  cases hf : (A.gts q).find? (fun e => e.1 == X) with
  | none => simp [hf] at h
  | some e =>
    simp [hf] at h
    have hm := List.mem_of_find?_eq_some hf
    have hp := List.find?_some hf
    simp at hp
    obtain ⟨a, b⟩ := e
    simp at hp h
    subst hp; subst h
    exact hm

structure AOK (G : Grammar) (A : Auto) : Prop where
  npos : 0 < A.n
  glen : A.gotos.length = A.n
  item_ok : ∀ q, q < A.n → ∀ it ∈ A.its q, it.r < G.rules.length ∧ it.d ≤ (G.rhsOf it.r).length
  s0_dot : ∀ it ∈ A.its 0, it.d = 0
  s0_start : (⟨0, 0⟩ : Item) ∈ A.its 0
  start_only0 : ∀ q, q < A.n → (⟨0, 0⟩ : Item) ∈ A.its q → q = 0
  edge : ∀ q, q < A.n → ∀ X p, A.goto q X = some p → p < A.n ∧ p ≠ 0 ∧
      ∀ it ∈ A.its p, it.d = 0 ∨ ((G.rhsOf it.r)[it.d - 1]? = some X ∧ (⟨it.r, it.d - 1⟩ : Item) ∈ A.its q)
  gotoC : ∀ q, q < A.n → ∀ it ∈ A.its q, ∀ X, (G.rhsOf it.r)[it.d]? = some X →
      ∃ p, A.goto q X = some p ∧ (⟨it.r, it.d + 1⟩ : Item) ∈ A.its p
  just : ∀ q, q < A.n → ∀ it ∈ A.its q, it.d = 0 → it.r ≠ 0 →
      ∃ jt ∈ A.its q, (G.rhsOf jt.r)[jt.d]? = some (G.lhsOf it.r)

theorem certA_ok {G : Grammar} {A : Auto} (h : certA G A = true) : AOK G A := by
  unfold certA at h
  simp only [Bool.and_eq_true] at h
  obtain ⟨⟨⟨⟨⟨⟨⟨⟨h1, h2⟩, h3⟩, h4⟩, h5⟩, h6⟩, h7⟩, h8⟩, h9⟩ := h
  refine ⟨of_decide_eq_true h1, of_decide_eq_true h2, ?_, ?_, ?_, ?_, ?_, ?_, ?_⟩
  · intro q hq it hit
    have := List.all_eq_true.mp (all_range h3 q hq) it hit
    simp only [Bool.and_eq_true, decide_eq_true_eq] at this
    exact this
  · intro it hit
    have := List.all_eq_true.mp h4 it hit
    simpa using this
  · simpa using h5
  · intro q hq hm
    have := all_range h6 q hq
    simp only [Bool.or_eq_true, beq_iff_eq, Bool.not_eq_true'] at this
    rcases this with h | h
    · exact h
    · have : (A.its q).contains (⟨0, 0⟩ : Item) = true := by simpa using hm
      rw [this] at h; cases h
  · intro q hq X p hg
    have hm := Auto.goto_mem hg
    have := List.all_eq_true.mp (all_range h7 q hq) (X, p) hm
    simp only [Bool.and_eq_true, decide_eq_true_eq, List.all_eq_true, Bool.or_eq_true, beq_iff_eq] at this
    refine ⟨this.1.1, this.1.2, fun it hit => ?_⟩
    rcases this.2 it hit with h | h
    · exact Or.inl h
    · exact Or.inr ⟨h.1, by simpa using h.2⟩
  · intro q hq it hit X hX
    have := List.all_eq_true.mp (all_range h8 q hq) it hit
    simp only [hX] at this
    cases hg : A.goto q X with
    | none => simp [hg] at this
    | some p =>
      simp only [hg] at this
      exact ⟨p, rfl, by simpa using this⟩
  · intro q hq it hit hd hr
    have := List.all_eq_true.mp (all_range h9 q hq) it hit
    simp only [Bool.or_eq_true, bne_iff_ne, ne_eq, beq_iff_eq, List.any_eq_true] at this
    rcases this with (h | h) | h
    · exact absurd hd h
    · exact absurd h hr
    · obtain ⟨jt, hj, hx⟩ := h
      exact ⟨jt, hj, hx⟩

end Y

namespace Y

theorem cell_some {T : Dense} {q a : Nat} {v : Int} (h : cell T q a = some v) :
    ∃ row, T[q]? = some row ∧ row[a]? = some v := by
  unfold cell at h
  cases hq : T[q]? with
  | none => simp [hq] at h
  | some row => simp [hq] at h; exact ⟨row, rfl, h⟩

structure TOK (G : Grammar) (nS : Nat) (A : Auto) (T : Dense) : Prop where
  range : ∀ q a v, cell T q a = some v → q < A.n ∧ a < nS
  total : ∀ q a, q < A.n → a < nS → ∃ v, cell T q a = some v
  col0 : ∀ q v, cell T q 0 = some v → v = errCode A.n
  acc : ∀ q a, cell T q a = some (accCode A.n) → a = 1 ∧ (⟨0, 1⟩ : Item) ∈ A.its q
  shift : ∀ q a v, cell T q a = some v → v ≠ errCode A.n → v ≠ accCode A.n → 0 < v →
      a ≠ 1 ∧ A.goto q a = some v.toNat
  red : ∀ q a v, cell T q a = some v → v ≠ errCode A.n → v ≠ accCode A.n → ¬ 0 < v →
      1 ≤ (-v).toNat ∧ (-v).toNat < G.rules.length ∧ G.isT a = true ∧
      (⟨(-v).toNat, (G.rhsOf (-v).toNat).length⟩ : Item) ∈ A.its q
  ntEdge : ∀ q, q < A.n → ∀ X p, A.goto q X = some p → G.isT X = false → cell T q X = some (p : Int)

theorem certT_ok {G : Grammar} {nS : Nat} {A : Auto} {T : Dense} (h : certT G nS A T = true) :
    TOK G nS A T := by
  unfold certT at h
  simp only [Bool.and_eq_true] at h
  obtain ⟨⟨⟨h1, h2⟩, h3⟩, h4⟩ := h
  have hlen : T.length = A.n := of_decide_eq_true h1
  have hrow : ∀ row ∈ T, row.length = nS := by
    intro row hr
    have := List.all_eq_true.mp h2 row hr
    exact of_decide_eq_true this
  have hrange : ∀ q a v, cell T q a = some v → q < A.n ∧ a < nS := by
    intro q a v hc
    obtain ⟨row, hq, ha⟩ := cell_some hc
    have hq' : q < T.length := by
      rcases Nat.lt_or_ge q T.length with h | h
      · exact h
      · simp [List.getElem?_eq_none h] at hq
    have hmem : row ∈ T := List.mem_of_getElem? hq
    have ha' : a < row.length := by
      rcases Nat.lt_or_ge a row.length with h | h
      · exact h
      · simp [List.getElem?_eq_none h] at ha
    exact ⟨hlen ▸ hq', hrow row hmem ▸ ha'⟩
  have hcell : ∀ q a v, cell T q a = some v →
      (if v = errCode A.n then true
        else if a = 0 then false
        else if v = accCode A.n then a == 1 && (A.its q).contains ⟨0, 1⟩
        else if 0 < v then a != 1 && A.goto q a == some v.toNat
        else
          decide (1 ≤ (-v).toNat) && decide ((-v).toNat < G.rules.length) && G.isT a &&
            (A.its q).contains ⟨(-v).toNat, (G.rhsOf (-v).toNat).length⟩) = true := by
    intro q a v hc
    obtain ⟨hq, ha⟩ := hrange q a v hc
    have := all_range (all_range h3 q hq) a ha
    simp only [hc] at this
    exact this
  refine ⟨hrange, ?_, ?_, ?_, ?_, ?_, ?_⟩
  · intro q a hq ha
    have := all_range (all_range h3 q hq) a ha
    cases hc : cell T q a with
    | none => simp [hc] at this
    | some v => exact ⟨v, rfl⟩
  · intro q v hc
    have := hcell q 0 v hc
    by_cases he : v = errCode A.n
    · exact he
    · simp [he] at this
  · intro q a hc
    have := hcell q a _ hc
    have hne : accCode A.n ≠ errCode A.n := by unfold accCode errCode; omega
    simp only [hne, if_false, if_true] at this
    by_cases ha : a = 0
    · simp [ha] at this
    · simp only [ha, if_false, Bool.and_eq_true, beq_iff_eq] at this
      exact ⟨this.1, by simpa using this.2⟩
  · intro q a v hc he hacc hpos
    have := hcell q a v hc
    simp only [he, hacc, hpos, if_false, if_true] at this
    by_cases ha : a = 0
    · simp [ha] at this
    · simp only [ha, if_false, Bool.and_eq_true, bne_iff_ne, ne_eq, beq_iff_eq] at this
      exact this
  · intro q a v hc he hacc hpos
    have := hcell q a v hc
    simp only [he, hacc, hpos, if_false] at this
    by_cases ha : a = 0
    · simp [ha] at this
    · simp only [ha, if_false, Bool.and_eq_true, decide_eq_true_eq] at this
      exact ⟨this.1.1.1, this.1.1.2, this.1.2, by simpa using this.2⟩
  · intro q hq X p hg hT
    have hm := Auto.goto_mem hg
    have := List.all_eq_true.mp (all_range h4 q hq) (X, p) hm
    simp only [hT, Bool.false_or, beq_iff_eq] at this
    exact this

end Y

namespace Y

structure GOK (G : Grammar) (nS : Nat) : Prop where
  nT1 : 1 ≤ G.nT
  nTS : G.nT < nS
  r0 : ∃ rl, G.rules[0]? = some rl ∧ rl.lhs = 0 ∧ rl.rhs.length = 1
  lhsNT : ∀ (r : Nat) (rl : Rule), G.rules[r]? = some rl → 1 ≤ r → G.isT rl.lhs = false
  lhs_lt : ∀ (r : Nat) (rl : Rule), G.rules[r]? = some rl → rl.lhs < nS
  rhs_ok : ∀ (r : Nat) (rl : Rule), G.rules[r]? = some rl → ∀ x ∈ rl.rhs, 2 ≤ x ∧ x < nS

theorem gramWF_ok {G : Grammar} {nS : Nat} (h : gramWF G nS = true) : GOK G nS := by
  unfold gramWF at h
  simp only [Bool.and_eq_true] at h
  obtain ⟨⟨⟨⟨h0, h0'⟩, h1⟩, h2⟩, h3⟩ := h
  refine ⟨of_decide_eq_true h0, of_decide_eq_true h0', ?_, ?_, ?_, ?_⟩
  · cases hr : G.rules[0]? with
    | none => simp [hr] at h1
    | some rl =>
      simp only [hr, Bool.and_eq_true, beq_iff_eq] at h1
      exact ⟨rl, rfl, h1.1, h1.2⟩
  · intro r rl hr h1r
    have hlt : r < G.rules.length := by
      rcases Nat.lt_or_ge r G.rules.length with h | h
      · exact h
      · simp [List.getElem?_eq_none h] at hr
    have hm : rl ∈ G.rules.drop 1 := by
      have : (G.rules.drop 1)[r - 1]? = some rl := by
        rw [List.getElem?_drop]
        have : 1 + (r - 1) = r := by omega
        rw [this]; exact hr
      exact List.mem_of_getElem? this
    have := List.all_eq_true.mp h3 rl hm
    have hgt : G.nT < rl.lhs := of_decide_eq_true this
    unfold Grammar.isT
    simp only [Bool.and_eq_false_iff, decide_eq_false_iff_not]
    right; exact Nat.not_le.mpr hgt
  · intro r rl hr
    have hm : rl ∈ G.rules := List.mem_of_getElem? hr
    have := List.all_eq_true.mp h2 rl hm
    simp only [Bool.and_eq_true, decide_eq_true_eq] at this
    exact this.1.2
  · intro r rl hr x hx
    have hm : rl ∈ G.rules := List.mem_of_getElem? hr
    have := List.all_eq_true.mp h2 rl hm
    simp only [Bool.and_eq_true, decide_eq_true_eq, List.all_eq_true] at this
    exact this.2 x hx

end Y
