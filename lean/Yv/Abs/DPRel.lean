import Yv.Model.DP
/-! Declarative description of the DeRemer–Pennello relations and sets over an LR(0) automaton given
    as data (`A.goto`, `A.its`).  A nonterminal transition is named by its source state and its
    symbol `(p, B)`; a reduce transition by its state and its rule `(q, r)`.

    * `InDR p B a`     — `a` is directly readable after the transition `(p, B)`: a terminal labelling
                         a transition out of `goto p B`; plus the end marker for the start transition
                         `(0, S₀)` (`rules[0] = start' → S₀`);
    * `Reads`          — `(p, B) reads (p₁, C)`: `p₁ = goto p B`, `C` a nullable nonterminal with a
                         transition out of `p₁`;
    * `InRead`         — least solution of `Read = DR ∪ ⋃ {Read y | x reads y}`;
    * `Includes`       — `(p, B) includes (p', C)`: a rule `C → β B γ` with `γ` nullable, an item of that
                         rule in `p'`, `walk p' β = p`, and a transition `(p', C)`;
    * `InFollow`       — least solution of `Follow = Read ∪ ⋃ {Follow y | x includes y}`;
    * `Lookback`       — `(q, C → ω) lookback (p, C)`: `walk p ω = q` and a transition `(p, C)`;
    * `InLA q r a`     — `a = $` for rule 0; otherwise `a ∈ Follow (p, C)` for some `(p, C)` looked back to.

    "Nullable" is the declarative `GenL G [x] []` (derives the empty string). -/
namespace Y.DP
open Y

inductive InDR (G : Grammar) (A : Auto) : Nat → Sym → Sym → Prop
  | read (p : Nat) (B : Sym) (p1 : Nat) (a : Sym) (p2 : Nat) : G.isT B = false →
      A.goto p B = some p1 → G.isT a = true → A.goto p1 a = some p2 → InDR G A p B a
  | start (S : Sym) : (G.rhsOf 0)[0]? = some S → InDR G A 0 S 1

def Reads (G : Grammar) (A : Auto) (p : Nat) (B : Sym) (p1 : Nat) (C : Sym) : Prop :=
  A.goto p B = some p1 ∧ G.isT C = false ∧ GenL G [C] [] ∧ ∃ p2, A.goto p1 C = some p2

inductive InRead (G : Grammar) (A : Auto) : Nat → Sym → Sym → Prop
  | dr (p : Nat) (B a : Sym) : InDR G A p B a → InRead G A p B a
  | step (p : Nat) (B : Sym) (p1 : Nat) (C a : Sym) : Reads G A p B p1 C → InRead G A p1 C a →
      InRead G A p B a

def Includes (G : Grammar) (A : Auto) (p : Nat) (B : Sym) (p' : Nat) (C : Sym) : Prop :=
  ∃ r rl d, G.rules[r]? = some rl ∧ rl.lhs = C ∧ rl.rhs[d]? = some B ∧
    GenL G (rl.rhs.drop (d + 1)) [] ∧ p' < A.n ∧ (∃ it ∈ A.its p', it.r = r) ∧
    walk A.goto p' (rl.rhs.take d) = some p ∧ ∃ p2, A.goto p' C = some p2

inductive InFollow (G : Grammar) (A : Auto) : Nat → Sym → Sym → Prop
  | rd (p : Nat) (B a : Sym) : InRead G A p B a → InFollow G A p B a
  | inc (p : Nat) (B : Sym) (p' : Nat) (C a : Sym) : Includes G A p B p' C → InFollow G A p' C a →
      InFollow G A p B a

def Lookback (G : Grammar) (A : Auto) (q r p : Nat) : Prop :=
  walk A.goto p (G.rhsOf r) = some q ∧ ∃ p2, A.goto p (G.lhsOf r) = some p2

def InLA (G : Grammar) (A : Auto) (q r : Nat) (a : Sym) : Prop :=
  (r = 0 ∧ a = 1) ∨ (r ≠ 0 ∧ ∃ p, Lookback G A q r p ∧ InFollow G A p (G.lhsOf r) a)

end Y.DP
