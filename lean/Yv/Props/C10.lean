import Yv.Proofs.YLexLayout
/-! # C10 — layout does not matter (lexer model)

"Whitespace, line breaks, `//` and `/* */` comments between tokens never change the result."

The statement is about the lexer model `YLex` (`rootStep`, `lexRoot`, `lexAll`), which is tied to the Go lexer by
differential testing.  Vocabulary (all defined in `Yv/Proofs/YLexLayout.lean`):

* `Gap g` — `g` is a concatenation of layout pieces: a blank, a tab, a newline, a line comment `//…\n`
  (body without newline, closed by a newline), a block comment `/*…*/` whose body has no `*/`.
* `runRoot n st` — `n` iterations of `rootStep` with the emitted tokens concatenated (`lexRoot` is `runRoot` with
  an array accumulator: `lexRoot_eq_run`).
* `eraseEnd t = (t.kind, t.value)` — a token without its end offset; `lexKV cs` — the kinds/values of `lexAll`.
* `BoundaryAt pre ks s` — lexing `pre ++ s` from the root state (nothing pending) emits tokens with kinds/values
  `ks` and is then *again in the root state on exactly `s` with nothing pending* (a token boundary at the end of
  `pre`, for this continuation).  `Boundary pre ks` — the same for every continuation `s`.

The boundary hypothesis is essential and not an artefact: a gap glued into the middle of a token obviously changes
it, and — a fact about this lexer — after a `%`-directive word the lexer keeps looking (over blanks) for further
directive words, so `%token left` and `%token /**/ left` lex differently (`C10_directive_chain_caveat`); the end of
`%token ` is therefore a boundary only for continuations that do not start such a word (`BoundaryAt`), whereas
e.g. `%token A `, `ident `, `;`, `|`, `:`, `{…}`, `%{…%}`, `%union{…}` are boundaries for every continuation. -/
namespace Y.Props
open YLex

/-- **skip_gap.** From the root state at a token boundary (nothing pending) on `g ++ rest` with `Gap g`, at most
    `g.length` root steps consume exactly `g`, emit no token, and arrive in the root state on `rest`, nothing
    pending, offset advanced by `g.length`. -/
theorem C10_skip_gap {g : List Char} (hg : Gap g) (rest : List Char) (p : Nat) :
    ∃ n, n ≤ g.length ∧ runRoot n ⟨g ++ rest, [], p⟩ = cont [] ⟨rest, [], p + g.length⟩ :=
  skip_gap hg rest p

/-- **Offset independence.** Running the root loop from two states that differ only in their offset gives the
    same token kinds and values and the same "stopped by itself" flag. -/
theorem C10_offset_independent (n : Nat) (rest pend : List Char) (p p' : Nat) (acc acc' : Array Tok)
    (hacc : acc.map eraseEnd = acc'.map eraseEnd) :
    (lexRoot n ⟨rest, pend, p⟩ acc).1.map eraseEnd = (lexRoot n ⟨rest, pend, p'⟩ acc').1.map eraseEnd ∧
      (lexRoot n ⟨rest, pend, p⟩ acc).2 = (lexRoot n ⟨rest, pend, p'⟩ acc').2 := by
  have h := resEq_runRoot n (StEq.mk' rest pend p p')
  simp only [lexRoot_eq_run, Array.map_append, List.map_toArray, hacc, h.toks, h.go, and_self]

/-- **Compositional form.** A gap after a token boundary is again a token boundary, with the same tokens. -/
theorem C10_boundary_gap {pre g : List Char} {ks : List (Kind × String)} (hb : Boundary pre ks) (hg : Gap g) :
    Boundary (pre ++ g) ks := hb.gap hg

/-- The same for one particular continuation `s`. -/
theorem C10_boundaryAt_gap {pre g s : List Char} {ks : List (Kind × String)}
    (hb : BoundaryAt pre ks (g ++ s)) (hg : Gap g) : BoundaryAt (pre ++ g) ks s := hb.gap hg

/-- **Layout theorem at the `lexRoot` level**, any sufficient fuels. -/
theorem C10_lexRoot_layout {pre g rest : List Char} {ks : List (Kind × String)} (n m : Nat)
    (h1 : BoundaryAt pre ks (g ++ rest)) (h2 : BoundaryAt pre ks rest) (hg : Gap g)
    (hn : (pre ++ g ++ rest).length < n) (hm : (pre ++ rest).length < m) :
    (lexRoot n ⟨pre ++ g ++ rest, [], 0⟩ #[]).1.toList.map eraseEnd =
      (lexRoot m ⟨pre ++ rest, [], 0⟩ #[]).1.toList.map eraseEnd := by
  rw [lexRoot_kv n _ hn, lexRoot_kv m _ hm, layout_at h1 h2 hg]

/-- **Layout theorem for `lexAll`, per-continuation boundary.** -/
theorem C10_lex_layout_at (pre g rest : String) (ks : List (Kind × String))
    (h1 : BoundaryAt pre.toList ks (g.toList ++ rest.toList)) (h2 : BoundaryAt pre.toList ks rest.toList)
    (hg : Gap g.toList) :
    (lexAll (pre ++ g ++ rest)).1.map eraseEnd = (lexAll (pre ++ rest)).1.map eraseEnd ∧
      (lexAll (pre ++ g ++ rest)).2 = (lexAll (pre ++ rest)).2 := by
  refine ⟨?_, by rw [lexAll_total, lexAll_total]⟩
  rw [lexAll_kv_array, lexAll_kv_array]
  simp only [String.toList_append]
  rw [layout_at h1 h2 hg]

/-- **C10 (lexer): layout theorem for `lexAll`.** If the end of `pre` is a token boundary, inserting a gap there
    changes neither the kinds nor the values of the tokens (only their offsets), nor the success flag. -/
theorem C10_lex_layout (pre g rest : String) (ks : List (Kind × String))
    (hb : Boundary pre.toList ks) (hg : Gap g.toList) :
    (lexAll (pre ++ g ++ rest)).1.map eraseEnd = (lexAll (pre ++ rest)).1.map eraseEnd ∧
      (lexAll (pre ++ g ++ rest)).2 = (lexAll (pre ++ rest)).2 :=
  C10_lex_layout_at pre g rest ks (hb _) (hb _) hg

/-- **Whole-file form.** A text made of chunks `c₁ … cₙ`, each ending at a token boundary with tokens `ksᵢ`, with
    arbitrary gaps `g₀ c₁ g₁ … cₙ gₙ` in between, lexes to `ks₁ ++ … ++ ksₙ ++ [EOF]` — whatever the gaps are. -/
theorem C10_layout_chunks (cs : List (List Char × List (Kind × String) × List Char))
    (h : ∀ x ∈ cs, Boundary x.1 x.2.1 ∧ Gap x.2.2) (g0 : List Char) (hg0 : Gap g0) :
    lexKV (g0 ++ (cs.map (fun x => x.1 ++ x.2.2)).flatten) =
      (cs.map (fun x => x.2.1)).flatten ++ [(.eof, "")] :=
  layout_chunks cs h g0 hg0

/-- **Opaque bodies are carried verbatim: `{action}`.** From the root state on `{body}rest` with brace-balanced
    `body`, one root step emits exactly one `actionQuote` token whose value is `{body}` and continues on `rest`. -/
theorem C10_action_verbatim (body rest : List Char) (p : Nat) (hb : Balanced body) :
    rootStep ⟨'{' :: body ++ '}' :: rest, [], p⟩ =
      cont [⟨.actionQuote, String.ofList ('{' :: body ++ ['}']), p + (body.length + 2)⟩]
        ⟨rest, [], p + (body.length + 2)⟩ :=
  action_verbatim body rest p hb

/-- `%{body%}` with no `%}` inside `body`: one `codeQuote` token whose value is exactly `body`. -/
theorem C10_prologue_verbatim (body rest : List Char) (p : Nat) (hb : NoPair '%' '}' body) :
    rootStep ⟨'%' :: '{' :: body ++ '%' :: '}' :: rest, [], p⟩ =
      cont [⟨.codeQuote, String.ofList body, p + (body.length + 4)⟩] ⟨rest, [], p + (body.length + 4)⟩ :=
  prologue_verbatim body rest p hb

/-- `%union ws {body}` (`ws` blanks/tabs/newlines, `body` brace-balanced): one `unionDir` token with value `body`. -/
theorem C10_union_verbatim (ws body rest : List Char) (p : Nat) (hws : ∀ x ∈ ws, isBlank3 x = true)
    (hb : Balanced body) :
    rootStep ⟨'%' :: 'u' :: 'n' :: 'i' :: 'o' :: 'n' :: ws ++ '{' :: body ++ '}' :: rest, [], p⟩ =
      cont [⟨.unionDir, String.ofList body, p + (ws.length + body.length + 8)⟩]
        ⟨rest, [], p + (ws.length + body.length + 8)⟩ :=
  union_verbatim ws body rest p hws hb

/-! ## non-vacuity -/

example : (lexAll "%token A B").1.toList.map eraseEnd =
    (lexAll "%token /* c */ A // x\n\tB").1.toList.map eraseEnd := by decide

example : (lexAll "%token A B").1.toList.map eraseEnd =
    [(.tokenDir, "%token"), (.identifier, "A"), (.identifier, "B"), (.eof, "")] := by decide

/-- a gap -/
theorem gap_example : Gap " /* c */ // x\n\t".toList :=
  Gap.blank ' ' _ rfl (Gap.block [' ', 'c', ' '] _ (by simp [NoPair]) (Gap.blank ' ' _ rfl
    (Gap.line [' ', 'x'] _ (by decide) (Gap.blank '\t' _ rfl Gap.nil))))

/-- boundaries: `%token A ` for every continuation (also `boundary_ident`, `boundary_ruleEnd`, `boundary_action`, …) -/
example : Boundary "%token A ".toList [(.tokenDir, "%token"), (.identifier, "A")] := boundary_token_A
example : Boundary "expr\n".toList [(.identifier, "expr")] :=
  boundary_ident 'e' ['x', 'p', 'r'] '\n' (by decide) (by decide) (by decide)
local macro "bal_char" : tactic => `(tactic| refine Balanced.char _ _ (by decide) (by decide) ?_)
example : Boundary ('{' :: [' ', '$', '$', ' ', '=', ' ', '{', '1', '}', ';', ' '] ++ ['}'])
    [(.actionQuote, "{ $$ = {1}; }")] :=
  boundary_action (by
    bal_char; bal_char; bal_char; bal_char; bal_char; bal_char
    exact Balanced.nest ['1'] [';', ' '] (by bal_char; exact .nil) (by bal_char; bal_char; exact .nil))

/-- the theorem instantiated: a gap after `%token A ` -/
example (rest : String) :
    (lexAll ("%token A " ++ " /* c */ // x\n\t" ++ rest)).1.map eraseEnd =
      (lexAll ("%token A " ++ rest)).1.map eraseEnd :=
  (C10_lex_layout "%token A " " /* c */ // x\n\t" rest _ boundary_token_A gap_example).1

/-- The boundary hypothesis cannot be dropped: inside a directive chain a comment changes the tokens. -/
theorem C10_directive_chain_caveat :
    lexKV "%token left".toList = [(.tokenDir, "%token"), (.leftAssoc, " left"), (.eof, "")] ∧
    lexKV "%token /**/ left".toList = [(.tokenDir, "%token"), (.identifier, "left"), (.eof, "")] := by
  decide

end Y.Props
