import Yv.Model.PackA
/-! C05: `UnPackTable (PackTable tab) = tab` for every rectangular matrix, for the executable
    placement view `PackA.packA` (order, first fit, arrays, trim of leading empty slots). -/
namespace PackA
open PackP

/-! ### 1. the placement loop keeps the invariant and places every row exactly once -/

theorem order_perm (tab : List Row) : (order tab).Perm (List.range tab.length) := by
  unfold order
  exact List.mergeSort_perm _ _

theorem order_nodup (tab : List Row) : (order tab).Nodup :=
  (order_perm tab).nodup_iff.mpr List.nodup_range

theorem inv_nil (tab : List Row) : Inv tab [] :=
  ⟨by simp, by intro _ _ _ _ _ _ h; cases h⟩

theorem step_inv (tab : List Row) (pl : Placed) (i : Nat) (h : Inv tab pl)
    (hnew : i ∉ pl.map Prod.fst) : Inv tab (step tab pl i) :=
  inv_place tab pl h i _ hnew (firstFit_fits tab pl i _ 0 (by omega))

theorem step_fst (tab : List Row) (pl : Placed) (i : Nat) :
    (step tab pl i).map Prod.fst = pl.map Prod.fst ++ [i] := by
  simp [step]

theorem foldl_step (tab : List Row) : ∀ (l : List Nat) (pl : Placed), Inv tab pl →
    (pl.map Prod.fst ++ l).Nodup →
    Inv tab (l.foldl (step tab) pl) ∧ (l.foldl (step tab) pl).map Prod.fst = pl.map Prod.fst ++ l := by
  intro l
  induction l with
  | nil => intro pl h _; exact ⟨h, by simp⟩
  | cons i is ih =>
    intro pl h nd
    have hnew : i ∉ pl.map Prod.fst := by
      rw [List.nodup_append] at nd
      intro hm
      exact nd.2.2 i hm i (List.mem_cons_self ..) rfl
    have hs := step_fst tab pl i
    have := ih (step tab pl i) (step_inv tab pl i h hnew)
      (by rw [hs, List.append_assoc]; exact nd)
    rw [hs, List.append_assoc] at this
    exact this

/-- the rows of the final placement, in placement order, are exactly `order tab` -/
theorem place_fst (tab : List Row) : (place tab).map Prod.fst = order tab := by
  have := (foldl_step tab (order tab) [] (inv_nil tab) (by simpa using order_nodup tab)).2
  simpa [place] using this

/-- the invariant (distinct rows, pairwise disjoint slots) holds for the final placement -/
theorem place_inv (tab : List Row) : Inv tab (place tab) :=
  (foldl_step tab (order tab) [] (inv_nil tab) (by simpa using order_nodup tab)).1

/-- the placed rows are a permutation of `0 .. tab.length-1` -/
theorem place_rows_perm (tab : List Row) :
    ((place tab).map Prod.fst).Perm (List.range tab.length) := by
  rw [place_fst]; exact order_perm tab

theorem place_mem (tab : List Row) (i : Nat) (hi : i < tab.length) : ∃ d, (i, d) ∈ place tab := by
  have : i ∈ (place tab).map Prod.fst :=
    (place_rows_perm tab).mem_iff.mpr (List.mem_range.mpr hi)
  obtain ⟨⟨i', d⟩, hm, rfl⟩ := List.mem_map.mp this
  exact ⟨d, hm⟩

/-- every row index `< tab.length` occurs exactly once in the placement (and no other index occurs) -/
theorem place_count (tab : List Row) (i : Nat) :
    ((place tab).map Prod.fst).count i = if i < tab.length then 1 else 0 := by
  rw [(place_rows_perm tab).count_eq]
  have h1 := (List.nodup_iff_count (l := List.range tab.length)).mp List.nodup_range i
  have h2 := List.count_pos_iff (a := i) (l := List.range tab.length)
  rw [List.mem_range] at h2
  split <;> omega

/-! ### 2. the arrays -/

theorem le_foldl_max (l : List Nat) : ∀ b, b ≤ l.foldl max b := by
  induction l with
  | nil => intro b; exact Nat.le_refl _
  | cons y ys ih => intro b; exact Nat.le_trans (Nat.le_max_left _ _) (ih _)

theorem mem_le_foldl_max (l : List Nat) : ∀ b x, x ∈ l → x ≤ l.foldl max b := by
  induction l with
  | nil => intro b x h; cases h
  | cons y ys ih =>
    intro b x h
    rcases List.mem_cons.mp h with h | h
    · subst h; exact Nat.le_trans (Nat.le_max_right _ _) (le_foldl_max ys _)
    · exact ih _ x h

theorem occupied_le_maxIndex {tab : List Row} {pl : Placed} {p : Nat} {x : Nat × Nat}
    (h : owner tab pl p = some x) : p ≤ maxIndex tab pl := by
  obtain ⟨i, d⟩ := x
  obtain ⟨hm, j, hj, hp⟩ := owner_spec h
  apply mem_le_foldl_max
  unfold slots
  exact List.mem_flatMap.mpr ⟨(i, d), hm, List.mem_map.mpr ⟨j, hj, hp⟩⟩

/-- an occupied slot holds a non-zero value -/
theorem slotVal_ne_zero {tab : List Row} {pl : Placed} {p : Nat} {x : Nat × Nat}
    (h : owner tab pl p = some x) : slotVal tab pl p ≠ 0 := by
  obtain ⟨i, d⟩ := x
  obtain ⟨_, j, hj, hp⟩ := owner_spec h
  unfold slotVal
  rw [h]
  have : p - d = j := by omega
  simp only [this]
  exact (mem_nz.mp hj).2

theorem getD_map_range {α : Type} (f : Nat → α) (n p : Nat) (dflt : α) :
    ((List.range n).map f).getD p dflt = if p < n then f p else dflt := by
  rw [List.getD_eq_getElem?_getD]
  split
  · rename_i h; simp [h]
  · rename_i h; simp [h]

theorem getD_drop {α : Type} (l : List α) (k n : Nat) (dflt : α) :
    (l.drop k).getD n dflt = l.getD (k + n) dflt := by
  simp [List.getD_eq_getElem?_getD]

theorem takeWhile_zero (l : List Int) : ∀ p, p < (l.takeWhile (· == 0)).length → l.getD p 0 = 0 := by
  induction l with
  | nil => intro p h; simp at h
  | cons x xs ih =>
    intro p h
    rw [List.takeWhile_cons] at h
    split at h
    · rename_i hx
      cases p with
      | zero => simpa using hx
      | succ q =>
        simp only [List.length_cons] at h
        simpa using ih q (by omega)
    · simp at h

/-- a slot below the trim count is unoccupied -/
theorem lt_trimK_free {tab : List Row} {pl : Placed} {p : Nat} (h : p < trimK tab pl) :
    owner tab pl p = none := by
  have hz := takeWhile_zero (retU tab pl) p h
  cases hown : owner tab pl p with
  | none => rfl
  | some x =>
    exfalso
    have hle := occupied_le_maxIndex hown
    unfold retU at hz
    rw [getD_map_range, if_pos (by omega)] at hz
    exact slotVal_ne_zero hown hz

theorem dispOf_eq {tab : List Row} {pl : Placed} (h : Inv tab pl) {i d : Nat} (hm : (i, d) ∈ pl) :
    dispOf pl i = d := by
  unfold dispOf
  split
  · rename_i x hx
    have h1 := List.mem_of_find?_eq_some hx
    have h2 := List.find?_some hx
    obtain ⟨i', d'⟩ := x
    simp only [beq_iff_eq] at h2
    subst h2
    exact disp_unique h h1 hm
  · rename_i hx
    have := List.find?_eq_none.mp hx (i, d) hm
    simp at this

theorem off_getD (tab : List Row) (pl : Placed) (i : Nat) (hi : i < tab.length) :
    (packOf tab pl).off.getD i 0 = (dispOf pl i : Int) - (trimK tab pl : Int) := by
  unfold packOf
  simp only [getD_map_range, if_pos hi]

theorem check_length (tab : List Row) (pl : Placed) :
    (packOf tab pl).check.length = maxIndex tab pl + 1 - trimK tab pl := by
  simp [packOf, chkU]

theorem check_getD (tab : List Row) (pl : Placed) (n : Nat)
    (hn : trimK tab pl + n ≤ maxIndex tab pl) :
    (packOf tab pl).check.getD n (-1) = chkVal tab pl (trimK tab pl + n) := by
  simp only [packOf, chkU, getD_drop, getD_map_range]
  rw [if_pos (by omega)]

theorem act_getD (tab : List Row) (pl : Placed) (n : Nat)
    (hn : trimK tab pl + n ≤ maxIndex tab pl) :
    (packOf tab pl).act.getD n 0 = slotVal tab pl (trimK tab pl + n) := by
  simp only [packOf, retU, getD_drop, getD_map_range]
  rw [if_pos (by omega)]

theorem chkVal_eq_iff (tab : List Row) (pl : Placed) (p i : Nat) :
    chkVal tab pl p = (i : Int) ↔ slotOwner tab pl p = some i := by
  unfold chkVal
  split
  · rename_i i' h; rw [h]; simp only [Option.some.injEq]; omega
  · rename_i h; rw [h]; simp

/-! ### 3. round trip for an arbitrary invariant-satisfying placement, trim included -/

/-- the trimmed lookup computes the untrimmed abstract `lookup` -/
theorem unpackLookup_eq_lookup (tab : List Row) (pl : Placed) (h : Inv tab pl) (i d j : Nat)
    (hm : (i, d) ∈ pl) (hi : i < tab.length) :
    unpackLookup (packOf tab pl) i j = lookup tab pl i d j := by
  unfold unpackLookup lookup
  rw [off_getD tab pl i hi, dispOf_eq h hm, check_length]
  by_cases ho : slotOwner tab pl (d + j) = some i
  · -- the slot is owned by row i: it is occupied, so it survives the trim and is in range
    rw [if_pos ho]
    have hsome : ∃ x, owner tab pl (d + j) = some x := by
      unfold slotOwner at ho
      cases hx : owner tab pl (d + j) with
      | none => rw [hx] at ho; simp at ho
      | some x => exact ⟨x, rfl⟩
    obtain ⟨x, hx⟩ := hsome
    have hle := occupied_le_maxIndex hx
    have hge : trimK tab pl ≤ d + j := by
      apply Nat.le_of_not_lt
      intro hlt
      rw [lt_trimK_free hlt] at hx
      cases hx
    have hnat : ((d : Int) - (trimK tab pl : Int) + (j : Int)).toNat = d + j - trimK tab pl := by omega
    have hp : trimK tab pl + (d + j - trimK tab pl) = d + j := by omega
    rw [hnat, check_getD tab pl _ (by omega), act_getD tab pl _ (by omega), hp]
    rw [if_neg]
    intro hc
    rcases hc with hc | hc | hc
    · omega
    · omega
    · exact hc ((chkVal_eq_iff tab pl (d + j) i).mpr ho)
  · -- not owned by row i: the rule answers 0
    rw [if_neg ho]
    apply if_pos
    by_cases h1 : (d : Int) - (trimK tab pl : Int) + (j : Int) < 0
    · exact Or.inl h1
    by_cases h2 : ((maxIndex tab pl + 1 - trimK tab pl : Nat) : Int) ≤
        (d : Int) - (trimK tab pl : Int) + (j : Int)
    · exact Or.inr (Or.inl h2)
    refine Or.inr (Or.inr ?_)
    have hnat : ((d : Int) - (trimK tab pl : Int) + (j : Int)).toNat = d + j - trimK tab pl := by omega
    have hp : trimK tab pl + (d + j - trimK tab pl) = d + j := by omega
    rw [hnat, check_getD tab pl _ (by omega), hp]
    intro hc
    exact ho ((chkVal_eq_iff tab pl (d + j) i).mp hc)

theorem packOf_roundtrip (tab : List Row) (pl : Placed) (h : Inv tab pl) (i d j : Nat)
    (hm : (i, d) ∈ pl) (hi : i < tab.length) (hj : j < (tab.getD i []).length) :
    unpackLookup (packOf tab pl) i j = (tab.getD i []).getD j 0 := by
  rw [unpackLookup_eq_lookup tab pl h i d j hm hi]
  exact lookup_correct tab pl h i d j hm hj

/-! ### 4. C05 -/

/-- C05: unpacking the packed table (first-fit placement in sorted row order, arrays, trim of
    leading empty slots) returns every cell of the original rectangular matrix. -/
theorem C05_pack_roundtrip {ncols : Nat} (tab : List (List Int)) (hrect : ∀ r ∈ tab, r.length = ncols)
    (i j : Nat) (hi : i < tab.length) (hj : j < ncols) :
    unpackLookup (packA tab) i j = (tab.getD i []).getD j 0 := by
  obtain ⟨d, hm⟩ := place_mem tab i hi
  have hrow : (tab.getD i []).length = ncols := by
    apply hrect
    rw [List.getD_eq_getElem?_getD, List.getElem?_eq_getElem hi]
    exact List.getElem_mem hi
  exact packOf_roundtrip tab (place tab) (place_inv tab) i d j hm hi (by omega)

/-- the same, as an equality of whole matrices -/
theorem C05_unpack_pack {ncols : Nat} (tab : List (List Int)) (hrect : ∀ r ∈ tab, r.length = ncols) :
    unpack tab.length ncols (packA tab) = tab := by
  apply List.ext_getElem
  · simp [unpack]
  · intro i h1 h2
    have hi : i < tab.length := h2
    have hlen : tab[i].length = ncols := hrect _ (List.getElem_mem hi)
    have hrow : tab.getD i [] = tab[i] := by
      rw [List.getD_eq_getElem?_getD, List.getElem?_eq_getElem hi]; rfl
    apply List.ext_getElem
    · simp [unpack, hlen]
    · intro j h3 h4
      have hj : j < ncols := by omega
      have := C05_pack_roundtrip tab hrect i j hi hj
      rw [hrow, List.getD_eq_getElem?_getD, List.getElem?_eq_getElem h4] at this
      simpa [unpack] using this

/-! ### 5. non-vacuity
    `List.mergeSort` is defined by well-founded recursion, so `decide` cannot evaluate `order`;
    the order of each sample is computed by `simp` first, the rest is closed by `decide`. -/

/-- one row, first slot empty (trimmed away, displacement becomes -1), third slot empty -/
theorem order_ex1 : order [[0, 5, 0, 7]] = [0] := by
  simp [order, List.range, List.range.loop]

example : packA [[0, 5, 0, 7]] = { act := [5, 0, 7], off := [-1], check := [0, -1, 0] } := by
  unfold packA place; rw [order_ex1]; decide

example : unpack 1 4 (packA [[0, 5, 0, 7]]) = [[0, 5, 0, 7]] := by
  unfold packA place; rw [order_ex1]; decide

/-- 3×3, rows 0 and 2 identical, every first column empty: interleaving plus trim -/
theorem order_ex2 : order [[0, 0, 1], [0, 1, 0], [0, 0, 1]] = [0, 1, 2] := by
  unfold order
  exact List.mergeSort_of_pairwise (by decide)

example : packA [[0, 0, 1], [0, 1, 0], [0, 0, 1]] =
    { act := [1, 1, 1], off := [-1, -1, 0], check := [1, 0, 2] } := by
  unfold packA place; rw [order_ex2]; decide

example : unpack 3 3 (packA [[0, 0, 1], [0, 1, 0], [0, 0, 1]]) =
    [[0, 0, 1], [0, 1, 0], [0, 0, 1]] := by
  unfold packA place; rw [order_ex2]; decide

/-- 3×3 where the sort really reorders (row 1 has two non-zero cells) and first fit skips -/
theorem order_ex3 : order [[0, 0, 1], [2, 3, 0], [0, 4, 0]] = [1, 0, 2] := by
  have c0 : cnt [[0, 0, 1], [2, 3, 0], [0, 4, 0]] 0 = 1 := by decide
  have c1 : cnt [[0, 0, 1], [2, 3, 0], [0, 4, 0]] 1 = 2 := by decide
  have c2 : cnt [[0, 0, 1], [2, 3, 0], [0, 4, 0]] 2 = 1 := by decide
  simp [order, List.mergeSort, List.range, List.range.loop, List.MergeSort.Internal.splitInTwo,
    c0, c1, c2]

example : packA [[0, 0, 1], [2, 3, 0], [0, 4, 0]] =
    { act := [2, 3, 1, 4], off := [0, 0, 2], check := [1, 1, 0, 2] } := by
  unfold packA place; rw [order_ex3]; decide

example : unpack 3 3 (packA [[0, 0, 1], [2, 3, 0], [0, 4, 0]]) =
    [[0, 0, 1], [2, 3, 0], [0, 4, 0]] := by
  unfold packA place; rw [order_ex3]; decide

/-- the general theorem instantiated (cell (0,3) of the first sample) -/
example : unpackLookup (packA [[0, 5, 0, 7]]) 0 3 = 7 :=
  C05_pack_roundtrip (ncols := 4) [[0, 5, 0, 7]] (by decide) 0 3 (by decide) (by decide)

end PackA
