import Yv.Model.GenTab
import Yv.Gen.Resolve
/-! The pairwise resolution `Core.pairWinner` used to instantiate the table generator IS the Go text:
    `ResolveConflict`, and `UseDefaultResolveConflict` when it fails, as translated mechanically from
    LALR/Table.go into `Yv/Gen/Resolve.lean` (the loop body of `CheckAndResolveConflict`). -/
namespace Y.GT
open Core (Action)

def toGen (a : Action) : Gen.Action := ⟨a.ty, a.idx, a.precTy, a.prec⟩
def ofGen (a : Gen.Action) : Action := ⟨a.actionType, a.actionIndex, a.precType, a.prec⟩

/-- the body of `CheckAndResolveConflict`'s loop, on the functions translated from Table.go -/
def goWinner (a b : Gen.Action) : Gen.Action :=
  match Gen.resolveConflict a b with
  | .ok x => x
  | .error _ => Gen.useDefaultResolveConflict a b

def exOpt (e : Except Unit Gen.Action) : Option Action :=
  match e with
  | .ok x => some (ofGen x)
  | .error _ => none

def chain (f s : Action) : Option Action :=
  if f.prec == -1 || s.prec == -1 then none
  else if f.prec > s.prec then some f
  else if f.prec == s.prec then
    if f.precTy == 2 || s.precTy == 2 then some ⟨2, 0, 2, f.prec⟩
    else if f.precTy == 0 then some f
    else if f.precTy == 1 then some s
    else none
  else some s

def gchain (f s : Gen.Action) : Except Unit Gen.Action :=
  if ((f.prec = (-1)) ∨ (s.prec = (-1))) then .error ()
  else if (f.prec > s.prec) then .ok f
  else if (f.prec = s.prec) then
    if ((f.precType = 2) ∨ (s.precType = 2)) then
      .ok { actionType := 2, actionIndex := 0, precType := 2, prec := f.prec : Gen.Action }
    else if (f.precType = 0) then .ok f
    else if (f.precType = 1) then .ok s
    else .error ()
  else .ok s

theorem core_rc (a b : Action) :
    Core.resolveConflict a b = if (b.ty == 1 && a.ty == 0) = true then chain b a else chain a b := by
  unfold Core.resolveConflict
  by_cases hc : (b.ty == 1 && a.ty == 0) = true
  · simp only [hc, if_true]; rfl
  · simp only [hc]; rfl

theorem gen_rc (a b : Gen.Action) :
    Gen.resolveConflict a b = if (b.actionType = 1 ∧ a.actionType = 0) then gchain b a else gchain a b := by
  rfl

theorem chain_eq (f s : Action) : chain f s = exOpt (gchain (toGen f) (toGen s)) := by
  unfold chain gchain toGen
  simp only [Bool.or_eq_true, beq_iff_eq]
  repeat' split
  all_goals rfl

theorem rc_eq_go (a b : Action) :
    Core.resolveConflict a b = exOpt (Gen.resolveConflict (toGen a) (toGen b)) := by
  rw [core_rc, gen_rc]
  have e : ((b.ty == 1 && a.ty == 0) = true) ↔ ((toGen b).actionType = 1 ∧ (toGen a).actionType = 0) := by
    simp [toGen]
  by_cases hc : (b.ty == 1 && a.ty == 0) = true
  · rw [if_pos hc, if_pos (e.mp hc)]; exact chain_eq b a
  · rw [if_neg hc, if_neg (fun h => hc (e.mpr h))]; exact chain_eq a b

theorem ud_eq_go (a b : Action) :
    Core.useDefault a b = ofGen (Gen.useDefaultResolveConflict (toGen a) (toGen b)) := by
  unfold Core.useDefault Gen.useDefaultResolveConflict toGen
  simp only [beq_iff_eq]
  repeat' split
  all_goals rfl

/-- the resolution used by the model is the translated Go text -/
theorem pairWinner_eq_go (a b : Action) :
    Core.pairWinner a b = ofGen (goWinner (toGen a) (toGen b)) := by
  unfold Core.pairWinner goWinner
  rw [rc_eq_go, ud_eq_go]
  cases Gen.resolveConflict (toGen a) (toGen b) <;> rfl

/-- the translated Go resolution, on the model's action type -/
def goRes (a b : Action) : Action := ofGen (goWinner (toGen a) (toGen b))

theorem pairWinner_eq_goRes : Core.pairWinner = goRes := by
  funext a b; exact pairWinner_eq_go a b

end Y.GT
