import Yv.Proofs.GenTabFacts
/-! The list-based table generator `Y.GT.genRowL` and the array model `Core.genRow` compute the same
    rows (same candidates in the same order, same fold, same cell values), for all inputs. -/
namespace Y.GT
open Core (Action)

theorem getBang_eq {α : Type} [Inhabited α] (xs : Array α) (i : Nat) :
    xs[i]! = xs.toList.getD i default := by
  rw [getElem!_def]
  simp only [List.getD_eq_getElem?_getD, Array.getElem?_toList]
  cases xs[i]? <;> rfl

theorem getD_map_nil {α β : Type} (f : α → β) (l : List (List α)) (i : Nat) :
    (l.map (fun x => x.map f)).getD i [] = (l.getD i []).map f := by
  simp only [List.getD_eq_getElem?_getD, List.getElem?_map]
  cases l[i]? <;> rfl

theorem foldl_append_flatMap {α β : Type} (f : α → List β) : ∀ (l : List α) (init : List β),
    l.foldl (fun acc x => acc ++ f x) init = init ++ l.flatMap f := by
  intro l
  induction l with
  | nil => intro init; simp
  | cons x xs ih => intro init; simp [ih, List.append_assoc]

theorem resolveCell_eq (l : List Action) : Core.resolveCell l = foldCell Core.pairWinner l := by
  cases l <;> rfl

theorem genRow_unfold (g : Core.Gram) (a : Core.Auto) (t : Core.LATab) (q : Nat) :
    Core.genRow g a t q = (Array.range g.nSyms).map (fun s =>
      decode a.states.size (Core.resolveCell (((Core.cands g a t q).filter (·.1 == s)).map (·.2)))) := by
  rfl

theorem itemOfCore_beq (x y : Core.Item) : (itemOfCore x == itemOfCore y) = (x == y) := by
  rw [Bool.eq_iff_iff]
  simp [itemOfCore, Prod.ext_iff]

theorem laGet_eq (t : Core.LATab) (q : Nat) (it : Core.Item) :
    (laOfCore t).get q (itemOfCore it) = Core.laGet t q it := by
  unfold LATab.get Core.laGet laOfCore
  simp only
  rw [getD_map_nil, List.find?_map, getBang_eq]
  have : ((fun p : Item × List Sym => p.1 == itemOfCore it) ∘ fun p : Core.Item × List Nat => (itemOfCore p.1, p.2)) =
      fun p : Core.Item × List Nat => p.1 == it := by
    funext p; exact itemOfCore_beq p.1 it
  rw [this]
  change _ = match List.find? (fun x => x.1 == it) (t.toList.getD q []) with | some (_, l) => l | none => []
  cases List.find? (fun x : Core.Item × List Nat => x.1 == it) (t.toList.getD q []) with
  | none => rfl
  | some p => rfl

/-- the reductions contributed by one item, in the array model's types -/
def redsC (g : Core.Gram) (t : Core.LATab) (q : Nat) (it : Core.Item) : List (Nat × Action) :=
  match g.rules[it.1]? with
  | some r =>
    if it.2 == r.rhs.size then (Core.laGet t q it).map fun s => (s, (precOfCore g).redAct it.1)
    else []
  | none => []

theorem redAct_core {g : Core.Gram} {i : Nat} {r : Core.Rule} (h : g.rules[i]? = some r) :
    (precOfCore g).redAct i =
      if r.precSym < 0 then ⟨1, -(i : Int), 2, -1⟩
      else ⟨1, -(i : Int), g.assoc[r.precSym.toNat]!, g.prec[r.precSym.toNat]!⟩ := by
  have e : (g.rules.toList.map (·.precSym)).getD i (-1) = r.precSym := by
    simp [List.getD_eq_getElem?_getD, h]
  unfold PrecData.redAct precOfCore
  simp only [e]
  rw [getBang_eq, getBang_eq]
  rfl

theorem cands_unfold (g : Core.Gram) (a : Core.Auto) (t : Core.LATab) (q : Nat) :
    Core.cands g a t q =
      ((a.gotos[q]!).map fun e => (e.1, (⟨0, (e.2 : Int), g.assoc[e.1]!, g.prec[e.1]!⟩ : Action))) ++
      (a.states[q]!).flatMap (redsC g t q) := by
  unfold Core.cands
  simp only []
  congr 1
  rw [← List.nil_append ((a.states[q]!).flatMap (redsC g t q)), ← foldl_append_flatMap]
  congr 1
  funext l it
  unfold redsC
  cases h : g.rules[it.1]? with
  | none => simp
  | some r =>
    simp only []
    by_cases hd : (it.2 == r.rhs.size) = true
    · simp only [hd, if_true]
      rw [redAct_core h]
      by_cases hps : r.precSym < 0
      · simp only [hps, if_true]
      · simp only [hps, if_false]
    · simp [hd]

theorem redsOf_core (g : Core.Gram) (t : Core.LATab) (q : Nat) (it : Core.Item) :
    redsOf (gramOfCore g) (precOfCore g) (laOfCore t) q (itemOfCore it) = redsC g t q it := by
  unfold redsOf redsC
  rw [laGet_eq]
  have e : (gramOfCore g).rules[(itemOfCore it).r]? =
      (g.rules[it.1]?).map fun r => (⟨r.lhs, r.rhs.toList⟩ : Rule) := by
    simp [gramOfCore, itemOfCore]
  rw [e]
  cases g.rules[it.1]? with
  | none => rfl
  | some r => simp [itemOfCore]

theorem cands_eq_core (g : Core.Gram) (a : Core.Auto) (t : Core.LATab) (q : Nat) :
    candsL (gramOfCore g) (precOfCore g) (autoOfCore a) (laOfCore t) q = Core.cands g a t q := by
  rw [cands_unfold]
  unfold candsL shiftsL reducesL
  congr 1
  · have e : (autoOfCore a).gts q = a.gotos[q]! := by
      rw [getBang_eq]; rfl
    rw [e]
    apply List.map_congr_left
    intro e _
    simp only [PrecData.shiftAct, precOfCore, getBang_eq]
    rfl
  · have e : (autoOfCore a).its q = (a.states[q]!).map itemOfCore := by
      rw [getBang_eq]
      exact getD_map_nil itemOfCore a.states.toList q
    rw [e, List.flatMap_map]
    congr 1
    funext it
    exact redsOf_core g t q it

/-- the list-based generator returns the same row as the array model `Core.genRow`, for all inputs -/
theorem genRowL_eq_core (g : Core.Gram) (a : Core.Auto) (t : Core.LATab) (q : Nat) :
    genRowCore g a t q = (Core.genRow g a t q).toList := by
  rw [genRow_unfold]
  unfold genRowCore genRowL cellOf candsOn
  rw [cands_eq_core]
  have hn : (autoOfCore a).n = a.states.size := by simp [Auto.n, autoOfCore]
  simp only [Array.toList_map, Array.toList_range, resolveCell_eq, hn]

theorem genTableCore_eq (g : Core.Gram) (a : Core.Auto) (t : Core.LATab) :
    genTableCore g a t = (List.range a.states.size).map fun q => (Core.genRow g a t q).toList := by
  have hn : (autoOfCore a).n = a.states.size := by simp [Auto.n, autoOfCore]
  unfold genTableCore genTableL
  rw [hn]
  apply List.map_congr_left
  intro q _
  exact genRowL_eq_core g a t q

/-- … and the same LALR(1) test as `Core.maxCands` -/
theorem maxCandsL_eq_core (g : Core.Gram) (a : Core.Auto) (t : Core.LATab) :
    maxCandsL (gramOfCore g) g.nSyms (precOfCore g) (autoOfCore a) (laOfCore t) =
      Core.maxCands g a t := by
  have hn : (autoOfCore a).n = a.states.size := by simp [Auto.n, autoOfCore]
  unfold maxCandsL Core.maxCands candsOn
  simp only [cands_eq_core, hn, List.length_map]

end Y.GT
