import Yv.Proofs.EndToEndFacts
import Yv.Props.C08
import Yv.Props.C08b
import Yv.Props.C05c
/-! # End to end: the TEXT of the generated Go parser, run on the PACKED arrays of the model pipeline

The stage theorems composed:

    grammar ──buildL──▶ LR(0) automaton ──laL──▶ lookaheads ──genTableL──▶ dense table T
            (C09_gen)                   (C03)                 (C01gen: certT / certC)
    T ──trySplit──▶ defaults + blanked table ──packA──▶ act / off / check        (C05, C05b)
    `Action` text of the Go templates on those arrays  =  `lookupA`               (C05c)
    `Parser` text of the Go templates (interpreter `GoSem`) = `arun` = list driver `run`  (C08b, C08)

* `pparams G T n sem eofVal` (`Yv/Proofs/EndToEndFacts.lean`): the parameters of the packed parser;
  `L q a = some (lookupA (packA (trySplit T nT).tab) (trySplit T nT) nT (errCode n) q a)` — TOTAL,
  no index range is built in (the translated `Action` text, whose `idx` answers 0 out of range, is
  total as well).  `pparamsGo` / `pparamsGoObj`: the same with the lookup performed by the
  translated `Action` text of the global / object template; `pparamsGo_eq`, `pparamsGoObj_eq`:
  they ARE `pparams`.  `pparamsP`: the lookup with Go's slice-index checks (`lookupGo`: `none`
  where `off[q]`, `gdef[a-nT-1]`, `adef[q]` or `act[o]` would be out of range).
* `packed_run_eq` (and `packedP_run_eq`): on a certified table meeting `DenseWF`, the list driver
  with the packed lookup and the list driver with the dense table have the same run from `init`
  (every fuel, every input whose symbols are `≤ nT` and not `$`; symbol 0 — what `translate`
  answers for an unknown code — is allowed).  Every lookup of such a run has `q < n` and `a < nS`
  (`Inv`/`PathOK` of `DSound`); these are the ranges on which C05 is used, and on them no index
  of the packed `Action` is out of range (`lookupGo_eq`).
* `parser_list_global` / `parser_list_object`: C08b ∘ C08 for an arbitrary parameter set.
* `parser_packed_global` / `parser_packed_object`: the translated `Parser` of either template, run
  by the interpreter with `pparams`, ends as the dense list driver does.
* `C01_end_to_end_*`: if the translated `Parser` on the packed arrays returns a value, its
  reductions, most recent first, are a rightmost derivation of exactly the input.
* `C06_end_to_end_*`: it never panics at run time (`crash`), never leaves by `return nil`;
  `C06_end_to_end_*_checked`: also with Go's index checks on the packed arrays.
* `C02_end_to_end_*`: for LALR(1) grammars it returns a value for EXACTLY the sentences.
* `*_go`: the same theorems with the lookup done by the translated `Action` text.
* Non-vacuity: `exG` (5 states) and the LALR(1)-not-SLR(1) grammar `laG` (10 states) meet every
  hypothesis; the theorems instantiated (`ex_end_to_end`, `la_end_to_end`); direct kernel
  evaluation of the interpreter on the concrete packed arrays of `exT`.

Hypothesis beyond the pipeline's own: `DenseWF T nT nS (errCode n) = true` (decidable; the
computed well-formedness predicate of C05b: a negative slot index `off[q]+a` only where the true
value is the error code).  `denseWF_pipeline`: for a pipeline table it follows from `rowsLive`
(every state has an action cell that is not the error code), a condition on the dense table alone.
`nT < nS`, rectangularity and `T.length = n` are NOT hypotheses: they follow from `gramWF` and
`certT` (`certT_shape`).  Nothing about nonterminal columns is assumed: the goto lookup
`L under.st lhs` has `lhs < nS` by `gramWF` and `under.st < n` by `PathOK`. -/
namespace Y.Props
open Y Y.D Y.GT Y.AD GoSem C08b
open Core (Action)

/-! ## 2. the packed run is the dense run -/

theorem packed_run_eq {V : Type} (G : Grammar) (nS : Nat) (A : Auto) (T : Dense)
    (sem : Nat → List V → V) (eofVal bv : V)
    (hG : gramWF G nS = true) (hA : certA G A = true) (hT : certT G nS A T = true)
    (hW : SplitA.DenseWF T G.nT nS (errCode A.n) = true)
    (w : List (Sym × V)) (hw : ∀ x ∈ w, x.1 ≤ G.nT ∧ x.1 ≠ 1) (fuel : Nat) :
    run (pparams G T A.n sem eofVal) fuel (init bv w) =
      run (dparams G T A.n sem eofVal) fuel (init bv w) :=
  packed_run_inv sem eofVal hG hA hT hW fuel _ (init_inv bv w hw)

/-- the statement on the shape hypotheses alone, pointwise: where the dense table has a cell, the
    packed lookup returns it -/
theorem packed_lookup_eq {V : Type} (G : Grammar) (T : Dense) (n nS : Nat)
    (sem : Nat → List V → V) (eofVal : V)
    (hlen : T.length = n) (hrect : ∀ r ∈ T, r.length = nS) (hnT : G.nT < nS)
    (hW : SplitA.DenseWF T G.nT nS (errCode n) = true) (q a : Nat) (hq : q < n) (ha : a < nS) :
    (pparams G T n sem eofVal).L q a = (dparams G T n sem eofVal).L q a :=
  packedL_eq_cell T G.nT nS (errCode n) hrect hnT hW q a (by omega) ha

/-- the same with Go's index checks in the lookup (`pparamsP`, `lookupGo`: `none` = an index of the
    packed `Action` out of range): the run is the dense run, so no lookup of a run panics -/
theorem packedP_run_eq {V : Type} (G : Grammar) (nS : Nat) (A : Auto) (T : Dense)
    (sem : Nat → List V → V) (eofVal bv : V)
    (hG : gramWF G nS = true) (hA : certA G A = true) (hT : certT G nS A T = true)
    (hW : SplitA.DenseWF T G.nT nS (errCode A.n) = true)
    (w : List (Sym × V)) (hw : ∀ x ∈ w, x.1 ≤ G.nT ∧ x.1 ≠ 1) (fuel : Nat) :
    run (pparamsP G T A.n sem eofVal) fuel (init bv w) =
      run (dparams G T A.n sem eofVal) fuel (init bv w) :=
  packedP_run_inv sem eofVal hG hA hT hW fuel _ (init_inv bv w hw)

/-! ## the translated `Parser` of the two templates -/

/-- the translated `Parser` of the global template, called with stack `s` and input `w` -/
def goParserGlobal {V : Type} (P : Params V) (zeroV : V) (fuel : Nat) (s : AStack V)
    (w : List (Sym × V)) (env : List (Gen.Id × Val V)) : Res V :=
  invoke P zeroV (extOf P zeroV Gen.pushGlobal Gen.popGlobal) fuel Gen.parserGlobal [.str]
    (callState s w env)

/-- the translated `Parser` of the object template -/
def goParserObject {V : Type} (P : Params V) (zeroV : V) (fuel : Nat) (s : AStack V)
    (w : List (Sym × V)) (env : List (Gen.Id × Val V)) : Res V :=
  invoke P zeroV (extOf P zeroV Gen.pushObject Gen.popObject) fuel Gen.parserObject [.str]
    (callState s w env)

/-- `Parser` returned `&ValType` holding `v` -/
theorem toOutcome_ret {V : Type} {eofVal : V} {env : List (Gen.Id × Val V)} {cl : ACfg V}
    {o : AOutcome V} {v : V} {m : M V} (h : toOutcome eofVal env cl o = .ret (.val v) m) :
    ∃ c, o = .accept v c ∧ m = withEnv env (toM eofVal c) := by
  cases o with
  | accept v2 c =>
    simp only [toOutcome, Res.ret.injEq, Val.val.injEq] at h
    exact ⟨c, by rw [h.1], h.2.symm⟩
  | syntaxError c => simp [toOutcome] at h
  | crash => simp [toOutcome] at h
  | outOfFuel => simp [toOutcome] at h
  | nil => simp [toOutcome] at h

/-- C08b ∘ C08 for an arbitrary parameter set: the translated `Parser` of the global template ends
    as the list driver does (`toOutcome`: `accept v` ↦ `return &v`, `syntaxError` ↦ `panic(msg)`,
    `crash` ↦ run-time panic, `nil` ↦ `return nil` — which `absOutcome` excludes) -/
theorem parser_list_global {V : Type} (P : Params V) (zeroV bv : V) (fuel : Nat)
    (w : List (Sym × V)) (env : List (Gen.Id × Val V)) :
    ∃ o cl, goParserGlobal P zeroV fuel (initGlobal bv) w env = toOutcome P.eofVal env cl o ∧
      absOutcome o = some (run P fuel (init bv w)) :=
  ⟨_, _, parser_global_eq P zeroV fuel (initGlobal bv) w env, C08_global P w fuel bv⟩

/-- the same for the object template, on a new context (`&Context{}` then `ParserInit`) -/
theorem parser_list_object {V : Type} (P : Params V) (zeroV bv : V) (fuel : Nat)
    (w : List (Sym × V)) (env : List (Gen.Id × Val V)) :
    ∃ o cl, goParserObject P zeroV fuel (initCtx emptyStack bv) w env = toOutcome P.eofVal env cl o ∧
      absOutcome o = some (run P fuel (init bv w)) :=
  ⟨_, _, parser_object_eq P zeroV fuel (initCtx emptyStack bv) w env, (C08_equiv P w fuel bv).2.2.1⟩

/-- where the stack the theorems start from comes from: the translated `ParserInit` of the global
    template, whatever the global array and pointer held before (`σ`), … -/
theorem parserInit_global {V : Type} (P : Params V) (bv : V) (fuel : Nat) (σ : AStack V)
    (w : List (Sym × V)) (env : List (Gen.Id × Val V)) :
    invoke P bv ext0 fuel Gen.parserInitGlobal [] (callState σ w env)
      = .norm (callState (initGlobal bv) w env) :=
  init_global_eq P bv fuel (callState σ w env) σ

/-- … and the translated `ParserInit` of the object template on a new context (`&Context{}`) -/
theorem parserInit_object {V : Type} (P : Params V) (bv : V) (fuel : Nat)
    (w : List (Sym × V)) (env : List (Gen.Id × Val V)) :
    invoke P bv ext0 fuel Gen.parserInitObject [] (callState emptyStack w env)
      = .norm (callState (initCtx emptyStack bv) w env) :=
  init_object_eq P bv fuel (callState emptyStack w env) emptyStack

section pipeline
variable {V : Type} (res : Action → Action → Action) (hR : ResSel res)
  (G : Grammar) (nS : Nat) (P : PrecData) (A : Auto) (t : LATab)
  (sem : Nat → List V → V) (eofVal bv zeroV : V)
  (hG : gramWF G nS = true) (hB : buildL G = some A) (hLa : laL G nS A = some t)
include hR hG hB hLa

/-- `DenseWF` of a pipeline table from a condition on the dense table alone -/
theorem denseWF_pipeline
    (hlive : rowsLive (genTableL res G nS P A t) G.nT (errCode A.n) = true) :
    SplitA.DenseWF (genTableL res G nS P A t) G.nT nS (errCode A.n) = true :=
  denseWF_of_certT hG (pipeline_certT res hR G nS P A t hG hB hLa).2 hlive

/-! ### from the composition statement to the conclusions of the pipeline theorems -/

/-- from the composition to the conclusion of `C01_pipeline` -/
theorem C01_of_outcome
    (w : List (Sym × V)) (hw : ∀ x ∈ w, x.1 ≤ G.nT ∧ x.1 ≠ 1) (fuel : Nat)
    (env : List (Gen.Id × Val V)) (r : Res V)
    (hr : ∃ o cl, r = toOutcome eofVal env cl o ∧
      absOutcome o = some (run (dparams G (genTableL res G nS P A t) A.n sem eofVal) fuel (init bv w)))
    (v : V) (m : M V) (hrun : r = .ret (.val v) m) :
    ∃ rl0, G.rules[0]? = some rl0 ∧ rl0.lhs = 0 ∧
      RmDer G rl0.rhs m.reds (w.map Prod.fst) ∧ m.input = [] ∧ m.req = w.length + 1 := by
  obtain ⟨o, cl, ho, habs⟩ := hr
  rw [ho] at hrun
  obtain ⟨c, rfl, rfl⟩ := toOutcome_ret hrun
  have hd : run (dparams G (genTableL res G nS P A t) A.n sem eofVal) fuel (init bv w)
      = .accept v (absCfg c) := by
    simp only [absOutcome, Option.some.injEq] at habs
    exact habs.symm
  obtain ⟨rl0, h0, hl, hder, hrest, hreq⟩ :=
    C01_pipeline res hR G nS P A t sem eofVal bv hG hB hLa w hw fuel v (absCfg c) hd
  refine ⟨rl0, h0, hl, hder, ?_, hreq⟩
  show c.rest.tail = []
  have : c.rest = [] := hrest
  rw [this]; rfl

theorem C06_of_outcome
    (w : List (Sym × V)) (hw : ∀ x ∈ w, x.1 ≤ G.nT ∧ x.1 ≠ 1) (fuel : Nat)
    (env : List (Gen.Id × Val V)) (r : Res V)
    (hr : ∃ o cl, r = toOutcome eofVal env cl o ∧
      absOutcome o = some (run (dparams G (genTableL res G nS P A t) A.n sem eofVal) fuel (init bv w))) :
    r ≠ .crash ∧ (∀ m, r ≠ .ret .nil m) ∧
    ∀ m, r = .err m → ∃ c, m = withEnv env (toM eofVal c) ∧ c.req + c.rest.length = w.length + 1 := by
  obtain ⟨o, cl, rfl, habs⟩ := hr
  obtain ⟨hnc, herr⟩ := C06_pipeline res hR G nS P A t sem eofVal bv hG hB hLa w hw fuel
  cases o with
  | accept v c => simp [toOutcome]
  | syntaxError c =>
    refine ⟨by simp [toOutcome], by simp [toOutcome], ?_⟩
    intro m hm
    simp only [toOutcome, Res.err.injEq] at hm
    simp only [absOutcome, Option.some.injEq] at habs
    exact ⟨c, hm.symm, herr (absCfg c) habs.symm⟩
  | crash =>
    simp only [absOutcome, Option.some.injEq] at habs
    exact absurd habs.symm hnc
  | outOfFuel => simp [toOutcome]
  | nil => simp [absOutcome] at habs

theorem C02_of_outcome
    (hM : maxCandsL G nS P A t ≤ 1) (S₀ : Sym) (h0 : G.rules[0]? = some ⟨0, [S₀]⟩)
    (w : List (Sym × V)) (hwT : ∀ x ∈ w, G.isT x.1 = true ∧ x.1 ≠ 1)
    (env : List (Gen.Id × Val V)) (r : Nat → Res V)
    (hr : ∀ fuel, ∃ o cl, r fuel = toOutcome eofVal env cl o ∧
      absOutcome o = some (run (dparams G (genTableL res G nS P A t) A.n sem eofVal) fuel (init bv w))) :
    (∃ fuel v m, r fuel = .ret (.val v) m) ↔ GenL G [S₀] (w.map Prod.fst) := by
  rw [← C02_pipeline res hR G nS P A t sem eofVal bv hG hB hLa hM S₀ h0 w hwT]
  constructor
  · rintro ⟨fuel, v, m, hrun⟩
    obtain ⟨o, cl, ho, habs⟩ := hr fuel
    rw [ho] at hrun
    obtain ⟨c, rfl, _⟩ := toOutcome_ret hrun
    simp only [absOutcome, Option.some.injEq] at habs
    exact ⟨fuel, v, absCfg c, habs.symm⟩
  · rintro ⟨fuel, v, c', hrun⟩
    obtain ⟨o, cl, ho, habs⟩ := hr fuel
    rw [hrun] at habs
    obtain ⟨c, rfl, _⟩ := absOutcome_accept habs
    exact ⟨fuel, v, _, ho⟩

variable (hW : SplitA.DenseWF (genTableL res G nS P A t) G.nT nS (errCode A.n) = true)
include hW

/-- **Composition.** The translated `Parser` of the global template on the packed arrays ends as
    the list driver on the dense table does (`toOutcome`: `accept v` ↦ `return &v`, `syntaxError`
    ↦ `panic(msg)`, `crash` ↦ run-time panic, `nil` ↦ `return nil` — which `absOutcome` excludes). -/
theorem parser_packed_global
    (w : List (Sym × V)) (hw : ∀ x ∈ w, x.1 ≤ G.nT ∧ x.1 ≠ 1) (fuel : Nat)
    (env : List (Gen.Id × Val V)) :
    ∃ o cl,
      goParserGlobal (pparams G (genTableL res G nS P A t) A.n sem eofVal) zeroV fuel (initGlobal bv) w env
        = toOutcome eofVal env cl o ∧
      absOutcome o = some (run (dparams G (genTableL res G nS P A t) A.n sem eofVal) fuel (init bv w)) := by
  obtain ⟨hA, hT⟩ := pipeline_certT res hR G nS P A t hG hB hLa
  rw [← packed_run_eq G nS A _ sem eofVal bv hG hA hT hW w hw fuel]
  exact parser_list_global _ zeroV bv fuel w env

/-- the same for the object template, on a new context (`&Context{}` then `ParserInit`) -/
theorem parser_packed_object
    (w : List (Sym × V)) (hw : ∀ x ∈ w, x.1 ≤ G.nT ∧ x.1 ≠ 1) (fuel : Nat)
    (env : List (Gen.Id × Val V)) :
    ∃ o cl,
      goParserObject (pparams G (genTableL res G nS P A t) A.n sem eofVal) zeroV fuel
          (initCtx emptyStack bv) w env
        = toOutcome eofVal env cl o ∧
      absOutcome o = some (run (dparams G (genTableL res G nS P A t) A.n sem eofVal) fuel (init bv w)) := by
  obtain ⟨hA, hT⟩ := pipeline_certT res hR G nS P A t hG hB hLa
  rw [← packed_run_eq G nS A _ sem eofVal bv hG hA hT hW w hw fuel]
  exact parser_list_object _ zeroV bv fuel w env

/-- … and with Go's index checks in the lookup (`pparamsP`) -/
theorem parser_packedP_global
    (w : List (Sym × V)) (hw : ∀ x ∈ w, x.1 ≤ G.nT ∧ x.1 ≠ 1) (fuel : Nat)
    (env : List (Gen.Id × Val V)) :
    ∃ o cl,
      goParserGlobal (pparamsP G (genTableL res G nS P A t) A.n sem eofVal) zeroV fuel (initGlobal bv) w env
        = toOutcome eofVal env cl o ∧
      absOutcome o = some (run (dparams G (genTableL res G nS P A t) A.n sem eofVal) fuel (init bv w)) := by
  obtain ⟨hA, hT⟩ := pipeline_certT res hR G nS P A t hG hB hLa
  rw [← packedP_run_eq G nS A _ sem eofVal bv hG hA hT hW w hw fuel]
  exact parser_list_global _ zeroV bv fuel w env

theorem parser_packedP_object
    (w : List (Sym × V)) (hw : ∀ x ∈ w, x.1 ≤ G.nT ∧ x.1 ≠ 1) (fuel : Nat)
    (env : List (Gen.Id × Val V)) :
    ∃ o cl,
      goParserObject (pparamsP G (genTableL res G nS P A t) A.n sem eofVal) zeroV fuel
          (initCtx emptyStack bv) w env
        = toOutcome eofVal env cl o ∧
      absOutcome o = some (run (dparams G (genTableL res G nS P A t) A.n sem eofVal) fuel (init bv w)) := by
  obtain ⟨hA, hT⟩ := pipeline_certT res hR G nS P A t hG hB hLa
  rw [← packedP_run_eq G nS A _ sem eofVal bv hG hA hT hW w hw fuel]
  exact parser_list_object _ zeroV bv fuel w env

/-! ## 3. C01: soundness of the generated text on the packed arrays -/

/-- **C01, end to end (global template).** For every well-formed grammar for which the verified
    generators return and whose table meets `DenseWF`: if the translated `Parser`, run on the packed
    arrays, returns a value, then the reductions it performed (most recent first) are a rightmost
    derivation of exactly the input from the start rule's body; all input was consumed and
    `|w|+1` tokens were requested. -/
theorem C01_end_to_end_global
    (w : List (Sym × V)) (hw : ∀ x ∈ w, x.1 ≤ G.nT ∧ x.1 ≠ 1) (fuel : Nat)
    (env : List (Gen.Id × Val V)) (v : V) (m : M V)
    (hrun : goParserGlobal (pparams G (genTableL res G nS P A t) A.n sem eofVal) zeroV fuel
        (initGlobal bv) w env = .ret (.val v) m) :
    ∃ rl0, G.rules[0]? = some rl0 ∧ rl0.lhs = 0 ∧
      RmDer G rl0.rhs m.reds (w.map Prod.fst) ∧ m.input = [] ∧ m.req = w.length + 1 :=
  C01_of_outcome res hR G nS P A t sem eofVal bv hG hB hLa w hw fuel env _
    (parser_packed_global res hR G nS P A t sem eofVal bv zeroV hG hB hLa hW w hw fuel env) v m hrun

/-- **C01, end to end (object template, new context).** -/
theorem C01_end_to_end_object
    (w : List (Sym × V)) (hw : ∀ x ∈ w, x.1 ≤ G.nT ∧ x.1 ≠ 1) (fuel : Nat)
    (env : List (Gen.Id × Val V)) (v : V) (m : M V)
    (hrun : goParserObject (pparams G (genTableL res G nS P A t) A.n sem eofVal) zeroV fuel
        (initCtx emptyStack bv) w env = .ret (.val v) m) :
    ∃ rl0, G.rules[0]? = some rl0 ∧ rl0.lhs = 0 ∧
      RmDer G rl0.rhs m.reds (w.map Prod.fst) ∧ m.input = [] ∧ m.req = w.length + 1 :=
  C01_of_outcome res hR G nS P A t sem eofVal bv hG hB hLa w hw fuel env _
    (parser_packed_object res hR G nS P A t sem eofVal bv zeroV hG hB hLa hW w hw fuel env) v m hrun

/-! ## C06: no run-time panic, no `return nil` -/

/-- **C06, end to end (global template)**: the translated `Parser` on the packed arrays never
    panics at run time (no index out of range in the stack array; every table lookup it makes is
    inside the ranges `q < n`, `a < nS`), never leaves by `return nil`, and a grammar-error panic
    happens exactly at the offending token. -/
theorem C06_end_to_end_global
    (w : List (Sym × V)) (hw : ∀ x ∈ w, x.1 ≤ G.nT ∧ x.1 ≠ 1) (fuel : Nat)
    (env : List (Gen.Id × Val V)) :
    goParserGlobal (pparams G (genTableL res G nS P A t) A.n sem eofVal) zeroV fuel (initGlobal bv) w env
      ≠ .crash ∧
    (∀ m, goParserGlobal (pparams G (genTableL res G nS P A t) A.n sem eofVal) zeroV fuel (initGlobal bv) w env
      ≠ .ret .nil m) ∧
    ∀ m, goParserGlobal (pparams G (genTableL res G nS P A t) A.n sem eofVal) zeroV fuel (initGlobal bv) w env
      = .err m → ∃ c, m = withEnv env (toM eofVal c) ∧ c.req + c.rest.length = w.length + 1 :=
  C06_of_outcome res hR G nS P A t sem eofVal bv hG hB hLa w hw fuel env _
    (parser_packed_global res hR G nS P A t sem eofVal bv zeroV hG hB hLa hW w hw fuel env)

theorem C06_end_to_end_object
    (w : List (Sym × V)) (hw : ∀ x ∈ w, x.1 ≤ G.nT ∧ x.1 ≠ 1) (fuel : Nat)
    (env : List (Gen.Id × Val V)) :
    goParserObject (pparams G (genTableL res G nS P A t) A.n sem eofVal) zeroV fuel (initCtx emptyStack bv) w env
      ≠ .crash ∧
    (∀ m, goParserObject (pparams G (genTableL res G nS P A t) A.n sem eofVal) zeroV fuel (initCtx emptyStack bv) w env
      ≠ .ret .nil m) ∧
    ∀ m, goParserObject (pparams G (genTableL res G nS P A t) A.n sem eofVal) zeroV fuel (initCtx emptyStack bv) w env
      = .err m → ∃ c, m = withEnv env (toM eofVal c) ∧ c.req + c.rest.length = w.length + 1 :=
  C06_of_outcome res hR G nS P A t sem eofVal bv hG hB hLa w hw fuel env _
    (parser_packed_object res hR G nS P A t sem eofVal bv zeroV hG hB hLa hW w hw fuel env)

/-- **no index out of range, stack array AND packed arrays**: with Go's index checks in the lookup
    (`lookupGo`: `off[q]`, `gdef[a-nT-1]`, `adef[q]`, `act[o]` answer `none` out of range, and the
    driver then crashes) the translated `Parser` still never ends in a run-time panic, and it
    returns a value exactly when — and after the same reductions as — the dense list driver accepts
    (`parser_packedP_global` with `C01_of_outcome` / `C02_of_outcome`) -/
theorem C06_end_to_end_global_checked
    (w : List (Sym × V)) (hw : ∀ x ∈ w, x.1 ≤ G.nT ∧ x.1 ≠ 1) (fuel : Nat)
    (env : List (Gen.Id × Val V)) :
    goParserGlobal (pparamsP G (genTableL res G nS P A t) A.n sem eofVal) zeroV fuel (initGlobal bv) w env
      ≠ .crash ∧
    ∀ m, goParserGlobal (pparamsP G (genTableL res G nS P A t) A.n sem eofVal) zeroV fuel (initGlobal bv) w env
      ≠ .ret .nil m :=
  have h := C06_of_outcome res hR G nS P A t sem eofVal bv hG hB hLa w hw fuel env _
    (parser_packedP_global res hR G nS P A t sem eofVal bv zeroV hG hB hLa hW w hw fuel env)
  ⟨h.1, h.2.1⟩

theorem C06_end_to_end_object_checked
    (w : List (Sym × V)) (hw : ∀ x ∈ w, x.1 ≤ G.nT ∧ x.1 ≠ 1) (fuel : Nat)
    (env : List (Gen.Id × Val V)) :
    goParserObject (pparamsP G (genTableL res G nS P A t) A.n sem eofVal) zeroV fuel (initCtx emptyStack bv) w env
      ≠ .crash ∧
    ∀ m, goParserObject (pparamsP G (genTableL res G nS P A t) A.n sem eofVal) zeroV fuel (initCtx emptyStack bv) w env
      ≠ .ret .nil m :=
  have h := C06_of_outcome res hR G nS P A t sem eofVal bv hG hB hLa w hw fuel env _
    (parser_packedP_object res hR G nS P A t sem eofVal bv zeroV hG hB hLa hW w hw fuel env)
  ⟨h.1, h.2.1⟩

/-- with the checked lookup, too, a returned value comes with a rightmost derivation of the input -/
theorem C01_end_to_end_global_checked
    (w : List (Sym × V)) (hw : ∀ x ∈ w, x.1 ≤ G.nT ∧ x.1 ≠ 1) (fuel : Nat)
    (env : List (Gen.Id × Val V)) (v : V) (m : M V)
    (hrun : goParserGlobal (pparamsP G (genTableL res G nS P A t) A.n sem eofVal) zeroV fuel
        (initGlobal bv) w env = .ret (.val v) m) :
    ∃ rl0, G.rules[0]? = some rl0 ∧ rl0.lhs = 0 ∧
      RmDer G rl0.rhs m.reds (w.map Prod.fst) ∧ m.input = [] ∧ m.req = w.length + 1 :=
  C01_of_outcome res hR G nS P A t sem eofVal bv hG hB hLa w hw fuel env _
    (parser_packedP_global res hR G nS P A t sem eofVal bv zeroV hG hB hLa hW w hw fuel env) v m hrun

/-! ## 4. C02: LALR(1) grammars — the generated text accepts exactly the language -/

/-- **C02, end to end (global template).** For every LALR(1) grammar (no table cell with two
    candidates) and every string of terminals other than `$`: the translated `Parser` on the packed
    arrays returns a value (for some bound on the number of loop iterations) iff the string is a
    sentence of the grammar. -/
theorem C02_end_to_end_global
    (hM : maxCandsL G nS P A t ≤ 1) (S₀ : Sym) (h0 : G.rules[0]? = some ⟨0, [S₀]⟩)
    (w : List (Sym × V)) (hwT : ∀ x ∈ w, G.isT x.1 = true ∧ x.1 ≠ 1)
    (env : List (Gen.Id × Val V)) :
    (∃ fuel v m, goParserGlobal (pparams G (genTableL res G nS P A t) A.n sem eofVal) zeroV fuel
        (initGlobal bv) w env = .ret (.val v) m) ↔ GenL G [S₀] (w.map Prod.fst) :=
  have hw : ∀ x ∈ w, x.1 ≤ G.nT ∧ x.1 ≠ 1 := fun x hx => ⟨(isT_pos (hwT x hx).1).2, (hwT x hx).2⟩
  C02_of_outcome res hR G nS P A t sem eofVal bv hG hB hLa hM S₀ h0 w hwT env _
    (fun fuel => parser_packed_global res hR G nS P A t sem eofVal bv zeroV hG hB hLa hW w hw fuel env)

/-- **C02, end to end (object template, new context).** -/
theorem C02_end_to_end_object
    (hM : maxCandsL G nS P A t ≤ 1) (S₀ : Sym) (h0 : G.rules[0]? = some ⟨0, [S₀]⟩)
    (w : List (Sym × V)) (hwT : ∀ x ∈ w, G.isT x.1 = true ∧ x.1 ≠ 1)
    (env : List (Gen.Id × Val V)) :
    (∃ fuel v m, goParserObject (pparams G (genTableL res G nS P A t) A.n sem eofVal) zeroV fuel
        (initCtx emptyStack bv) w env = .ret (.val v) m) ↔ GenL G [S₀] (w.map Prod.fst) :=
  have hw : ∀ x ∈ w, x.1 ≤ G.nT ∧ x.1 ≠ 1 := fun x hx => ⟨(isT_pos (hwT x hx).1).2, (hwT x hx).2⟩
  C02_of_outcome res hR G nS P A t sem eofVal bv hG hB hLa hM S₀ h0 w hwT env _
    (fun fuel => parser_packed_object res hR G nS P A t sem eofVal bv zeroV hG hB hLa hW w hw fuel env)

end pipeline

/-! ## 5. with the lookup performed by the translated `Action` text -/

/-- the parameters of the packed parser, lookup = the translated `Action` of the global template
    applied to the arrays `act`/`off`/`check` of `packA` and the default vectors of `trySplit` -/
def pparamsGo {V : Type} (G : Grammar) (T : Dense) (n : Nat) (sem : Nat → List V → V) (eofVal : V) :
    Params V :=
  { L := fun q a => some (Gen.actionPackedGlobal
      (PackA.packA (PackX.trySplit T G.nT).tab).act (PackA.packA (PackX.trySplit T G.nT).tab).off
      (PackA.packA (PackX.trySplit T G.nT).tab).check
      (PackX.trySplit T G.nT).actdef (PackX.trySplit T G.nT).gtdef
      (G.nT : Int) (errCode n) (q : Int) (a : Int)),
    errC := errCode n, accC := accCode n,
    rule := fun r => if r = 0 then none else (G.rules[r]?).map (fun rl => (rl.lhs, rl.rhs.length)),
    sem := sem, eofVal := eofVal }

/-- the same with the `Action` text of the object template -/
def pparamsGoObj {V : Type} (G : Grammar) (T : Dense) (n : Nat) (sem : Nat → List V → V) (eofVal : V) :
    Params V :=
  { L := fun q a => some (Gen.actionPackedObject
      (PackA.packA (PackX.trySplit T G.nT).tab).act (PackA.packA (PackX.trySplit T G.nT).tab).off
      (PackA.packA (PackX.trySplit T G.nT).tab).check
      (PackX.trySplit T G.nT).actdef (PackX.trySplit T G.nT).gtdef
      (G.nT : Int) (errCode n) (q : Int) (a : Int)),
    errC := errCode n, accC := accCode n,
    rule := fun r => if r = 0 then none else (G.rules[r]?).map (fun rl => (rl.lhs, rl.rhs.length)),
    sem := sem, eofVal := eofVal }

theorem pparamsGo_eq {V : Type} (G : Grammar) (T : Dense) (n : Nat) (sem : Nat → List V → V) (eofVal : V) :
    pparamsGo G T n sem eofVal = pparams G T n sem eofVal := by
  unfold pparamsGo pparams packedL
  simp only [C05c.C05_action_global]

theorem pparamsGoObj_eq {V : Type} (G : Grammar) (T : Dense) (n : Nat) (sem : Nat → List V → V) (eofVal : V) :
    pparamsGoObj G T n sem eofVal = pparams G T n sem eofVal := by
  unfold pparamsGoObj pparams packedL
  simp only [C05c.C05_action_object]

section pipelineGo
variable {V : Type} (res : Action → Action → Action) (hR : ResSel res)
  (G : Grammar) (nS : Nat) (P : PrecData) (A : Auto) (t : LATab)
  (sem : Nat → List V → V) (eofVal bv zeroV : V)
  (hG : gramWF G nS = true) (hB : buildL G = some A) (hLa : laL G nS A = some t)
  (hW : SplitA.DenseWF (genTableL res G nS P A t) G.nT nS (errCode A.n) = true)
include hR hG hB hLa hW

/-- **C01 for the generated text, `Parser` AND `Action` (global template).** -/
theorem C01_end_to_end_global_go
    (w : List (Sym × V)) (hw : ∀ x ∈ w, x.1 ≤ G.nT ∧ x.1 ≠ 1) (fuel : Nat)
    (env : List (Gen.Id × Val V)) (v : V) (m : M V)
    (hrun : goParserGlobal (pparamsGo G (genTableL res G nS P A t) A.n sem eofVal) zeroV fuel
        (initGlobal bv) w env = .ret (.val v) m) :
    ∃ rl0, G.rules[0]? = some rl0 ∧ rl0.lhs = 0 ∧
      RmDer G rl0.rhs m.reds (w.map Prod.fst) ∧ m.input = [] ∧ m.req = w.length + 1 := by
  rw [pparamsGo_eq] at hrun
  exact C01_end_to_end_global res hR G nS P A t sem eofVal bv zeroV hG hB hLa hW w hw fuel env v m hrun

/-- **C01 for the generated text, `Parser` AND `Action` (object template).** -/
theorem C01_end_to_end_object_go
    (w : List (Sym × V)) (hw : ∀ x ∈ w, x.1 ≤ G.nT ∧ x.1 ≠ 1) (fuel : Nat)
    (env : List (Gen.Id × Val V)) (v : V) (m : M V)
    (hrun : goParserObject (pparamsGoObj G (genTableL res G nS P A t) A.n sem eofVal) zeroV fuel
        (initCtx emptyStack bv) w env = .ret (.val v) m) :
    ∃ rl0, G.rules[0]? = some rl0 ∧ rl0.lhs = 0 ∧
      RmDer G rl0.rhs m.reds (w.map Prod.fst) ∧ m.input = [] ∧ m.req = w.length + 1 := by
  rw [pparamsGoObj_eq] at hrun
  exact C01_end_to_end_object res hR G nS P A t sem eofVal bv zeroV hG hB hLa hW w hw fuel env v m hrun

theorem C06_end_to_end_global_go
    (w : List (Sym × V)) (hw : ∀ x ∈ w, x.1 ≤ G.nT ∧ x.1 ≠ 1) (fuel : Nat)
    (env : List (Gen.Id × Val V)) :
    goParserGlobal (pparamsGo G (genTableL res G nS P A t) A.n sem eofVal) zeroV fuel (initGlobal bv) w env
      ≠ .crash ∧
    ∀ m, goParserGlobal (pparamsGo G (genTableL res G nS P A t) A.n sem eofVal) zeroV fuel (initGlobal bv) w env
      ≠ .ret .nil m := by
  rw [pparamsGo_eq]
  have h := C06_end_to_end_global res hR G nS P A t sem eofVal bv zeroV hG hB hLa hW w hw fuel env
  exact ⟨h.1, h.2.1⟩

theorem C06_end_to_end_object_go
    (w : List (Sym × V)) (hw : ∀ x ∈ w, x.1 ≤ G.nT ∧ x.1 ≠ 1) (fuel : Nat)
    (env : List (Gen.Id × Val V)) :
    goParserObject (pparamsGoObj G (genTableL res G nS P A t) A.n sem eofVal) zeroV fuel (initCtx emptyStack bv) w env
      ≠ .crash ∧
    ∀ m, goParserObject (pparamsGoObj G (genTableL res G nS P A t) A.n sem eofVal) zeroV fuel (initCtx emptyStack bv) w env
      ≠ .ret .nil m := by
  rw [pparamsGoObj_eq]
  have h := C06_end_to_end_object res hR G nS P A t sem eofVal bv zeroV hG hB hLa hW w hw fuel env
  exact ⟨h.1, h.2.1⟩

/-- **C02 for the generated text, `Parser` AND `Action` (global template).** -/
theorem C02_end_to_end_global_go
    (hM : maxCandsL G nS P A t ≤ 1) (S₀ : Sym) (h0 : G.rules[0]? = some ⟨0, [S₀]⟩)
    (w : List (Sym × V)) (hwT : ∀ x ∈ w, G.isT x.1 = true ∧ x.1 ≠ 1)
    (env : List (Gen.Id × Val V)) :
    (∃ fuel v m, goParserGlobal (pparamsGo G (genTableL res G nS P A t) A.n sem eofVal) zeroV fuel
        (initGlobal bv) w env = .ret (.val v) m) ↔ GenL G [S₀] (w.map Prod.fst) := by
  rw [pparamsGo_eq]
  exact C02_end_to_end_global res hR G nS P A t sem eofVal bv zeroV hG hB hLa hW hM S₀ h0 w hwT env

/-- **C02 for the generated text, `Parser` AND `Action` (object template).** -/
theorem C02_end_to_end_object_go
    (hM : maxCandsL G nS P A t ≤ 1) (S₀ : Sym) (h0 : G.rules[0]? = some ⟨0, [S₀]⟩)
    (w : List (Sym × V)) (hwT : ∀ x ∈ w, G.isT x.1 = true ∧ x.1 ≠ 1)
    (env : List (Gen.Id × Val V)) :
    (∃ fuel v m, goParserObject (pparamsGoObj G (genTableL res G nS P A t) A.n sem eofVal) zeroV fuel
        (initCtx emptyStack bv) w env = .ret (.val v) m) ↔ GenL G [S₀] (w.map Prod.fst) := by
  rw [pparamsGoObj_eq]
  exact C02_end_to_end_object res hR G nS P A t sem eofVal bv zeroV hG hB hLa hW hM S₀ h0 w hwT env

end pipelineGo

/-! ## 6. Non-vacuity: the grammar `S' → S ; S → a S | b` of C01 (`exG`, 5 symbols, 5 states)

The verified pipeline returns on it, its table is `exT`, no cell has two candidates, and `exT`
meets `DenseWF` (through the criterion `DenseSimple` on the dense table, and also through
`rowsLive`); so every hypothesis of the theorems above holds.  The theorems are then instantiated:
the text of `Parser` + `Action` of the global template on the packed arrays of `exT` accepts exactly
`a* b`, and on `a a b` it returns a value after the reductions 2, 1, 1. -/

theorem ex_pipeline : ∃ A t, buildL exG = some A ∧ laL exG 5 A = some t ∧
    genTableL Core.pairWinner exG 5 noPrec A t = exT ∧ maxCandsL exG 5 noPrec A t = 1 ∧ A.n = 5 := by
  have h : ((buildL exG).bind fun A => (laL exG 5 A).map fun t =>
      (genTableL Core.pairWinner exG 5 noPrec A t, maxCandsL exG 5 noPrec A t)) = some (exT, 1) := by
    decide
  cases hB : buildL exG with
  | none => rw [hB] at h; cases h
  | some A =>
    rw [hB] at h
    cases hL : laL exG 5 A with
    | none => simp [hL] at h
    | some t =>
      simp only [Option.bind_some, hL, Option.map_some, Option.some.injEq, Prod.mk.injEq] at h
      refine ⟨A, t, rfl, hL, h.1, h.2, ?_⟩
      have hl := genTable_length Core.pairWinner exG 5 noPrec A t
      rw [h.1] at hl
      exact hl.symm

/-- `DenseWF` of the pipeline's table, by the criterion on the dense table alone -/
theorem ex_denseWF : SplitA.DenseWF exT exG.nT 5 (errCode 5) = true :=
  SplitA.denseWF_of_simple PackX.findMax exT 3 5 105 (by decide) (by decide) (by decide)

/-- the weaker sufficient condition of `denseWF_pipeline` holds as well -/
example : rowsLive exT exG.nT (errCode 5) = true := by decide

/-- all hypotheses of the end-to-end theorems hold for `exG` -/
example : gramWF exG 5 = true ∧ ResSel Core.pairWinner ∧
    ∃ A t, buildL exG = some A ∧ laL exG 5 A = some t ∧ maxCandsL exG 5 noPrec A t ≤ 1 ∧
      SplitA.DenseWF (genTableL Core.pairWinner exG 5 noPrec A t) exG.nT 5 (errCode A.n) = true ∧
      exG.rules[0]? = some ⟨0, [4]⟩ := by
  obtain ⟨A, t, hB, hL, hT, hM, hn⟩ := ex_pipeline
  refine ⟨by decide, C01_pairWinner_sel, A, t, hB, hL, by omega, ?_, rfl⟩
  rw [hT, hn]; exact ex_denseWF

/-- **instance of `C02_end_to_end_global_go`**: the generated text (`Parser` and `Action` of the
    global template) on the packed arrays of `exT` returns a value exactly on the sentences of
    `exG` — for every string over `a` (2) and `b` (3) -/
theorem ex_end_to_end (w : List (Sym × Unit)) (hw : ∀ x ∈ w, x.1 = 2 ∨ x.1 = 3)
    (env : List (Gen.Id × Val Unit)) :
    (∃ fuel v m, goParserGlobal (pparamsGo exG exT 5 (fun _ _ => ()) ()) () fuel
        (initGlobal ()) w env = .ret (.val v) m) ↔ GenL exG [4] (w.map Prod.fst) := by
  obtain ⟨A, t, hB, hL, hT, hM, hn⟩ := ex_pipeline
  have hW : SplitA.DenseWF (genTableL Core.pairWinner exG 5 noPrec A t) exG.nT 5 (errCode A.n) = true := by
    rw [hT, hn]; exact ex_denseWF
  have hwT : ∀ x ∈ w, exG.isT x.1 = true ∧ x.1 ≠ 1 := by
    intro x hx
    rcases hw x hx with h | h <;> rw [h] <;> decide
  have := C02_end_to_end_global_go Core.pairWinner C01_pairWinner_sel exG 5 noPrec A t
    (fun _ _ => ()) () () () (by decide) hB hL hW (by omega) 4 rfl w hwT env
  rw [hT, hn] at this
  exact this

/-- a concrete run of the generated text on the packed arrays: `a a b` is accepted after the
    reductions `S → b`, `S → a S`, `S → a S` (most recent first: `[1, 1, 2]`) -/
example : ∃ v m, goParserGlobal (pparamsGo exG exT 5 (fun _ _ => ()) ()) () 20
      (initGlobal ()) [(2, ()), (2, ()), (3, ())] [] = .ret (.val v) m ∧ m.reds = [1, 1, 2] := by
  obtain ⟨A, t, hB, hL, hT, hM, hn⟩ := ex_pipeline
  have hW : SplitA.DenseWF (genTableL Core.pairWinner exG 5 noPrec A t) exG.nT 5 (errCode A.n) = true := by
    rw [hT, hn]; exact ex_denseWF
  obtain ⟨o, cl, ho, habs⟩ := parser_packed_global Core.pairWinner C01_pairWinner_sel exG 5 noPrec A t
    (fun _ _ => ()) () () () (by decide) hB hL hW [(2, ()), (2, ()), (3, ())] (by decide) 20 []
  rw [hT, hn] at ho habs
  have hd : ∃ c', run (dparams (V := Unit) exG exT 5 (fun _ _ => ()) ()) 20
      (init () [(2, ()), (2, ()), (3, ())]) = .accept () c' ∧ c'.reds = [1, 1, 2] := ⟨_, rfl, rfl⟩
  obtain ⟨c', hrun, hreds⟩ := hd
  rw [hrun] at habs
  obtain ⟨c, rfl, hc⟩ := absOutcome_accept habs
  refine ⟨(), withEnv [] (toM () c), ?_, ?_⟩
  · rw [pparamsGo_eq]; exact ho
  · show c.reds = [1, 1, 2]
    rw [← hreds, ← hc]; rfl

/-! ### direct evaluation (independent of the theorems above)

The packed arrays of `exT` are known (`SplitA.ex_packed`: act/off/check; the default vectors by
`decide`), so the interpreter can be run by the kernel on the concrete arrays, the lookup being the
translated `Action` text. -/

/-- `pparamsGo exG exT 5` with the arrays written out -/
def exGoP : Params Unit :=
  { L := fun q a => some (Gen.actionPackedGlobal [205, 2, 3, 1, 2, 3, 4, -2, -1] [-1, -1, 2, 6, 7]
      [1, 0, 0, 0, 2, 2, 2, 3, 4] [105, 105, 105, 105, 105] [105] 3 105 (q : Int) (a : Int)),
    errC := 105, accC := 205,
    rule := fun r => if r = 0 then none else (exG.rules[r]?).map (fun rl => (rl.lhs, rl.rhs.length)),
    sem := fun _ _ => (), eofVal := () }

theorem exGo_eq : pparamsGo (V := Unit) exG exT 5 (fun _ _ => ()) () = exGoP := by
  have h1 := SplitA.ex_packed
  have h2 : (PackX.trySplit exT 3).actdef = [105, 105, 105, 105, 105] ∧
      (PackX.trySplit exT 3).gtdef = [105] := by decide
  unfold pparamsGo exGoP
  show Params.mk (fun q a => some (Gen.actionPackedGlobal (PackA.packA (PackX.trySplit exT 3).tab).act
    (PackA.packA (PackX.trySplit exT 3).tab).off (PackA.packA (PackX.trySplit exT 3).tab).check
    (PackX.trySplit exT 3).actdef (PackX.trySplit exT 3).gtdef _ _ _ _)) _ _ _ _ _ = _
  rw [h1, h2.1, h2.2]
  rfl

/-- what `Parser` did: 0 = returned a value, 1 = returned nil, 2 = `panic(msg)` (syntax error),
    3 = run-time panic, 4 = out of fuel; with the reductions, the tokens requested, the tokens left -/
def rview {V : Type} : Res V → Nat × List Nat × Nat × Nat
  | .ret (.val _) m => (0, m.reds, m.req, m.input.length)
  | .ret _ m => (1, m.reds, m.req, m.input.length)
  | .err m => (2, m.reds, m.req, m.input.length)
  | .crash => (3, [], 0, 0)
  | .outOfFuel => (4, [], 0, 0)
  | .norm _ => (5, [], 0, 0)
  | .brk _ => (6, [], 0, 0)

/-- `a a b`: accepted, reductions 2, 1, 1, four tokens requested (three and the end marker) -/
example : rview (goParserGlobal (pparamsGo exG exT 5 (fun _ _ => ()) ()) () 20
    (initGlobal ()) [(2, ()), (2, ()), (3, ())] []) = (0, [1, 1, 2], 4, 0) := by
  rw [exGo_eq]; decide +kernel

/-- `a a`: syntax error at the end marker -/
example : rview (goParserGlobal (pparamsGo exG exT 5 (fun _ _ => ()) ()) () 20
    (initGlobal ()) [(2, ()), (2, ())] []) = (2, [], 3, 0) := by
  rw [exGo_eq]; decide +kernel

/-- `b b`: syntax error at the second `b` (state 3 holds the error code on `b`: nothing is reduced) -/
example : rview (goParserGlobal (pparamsGo exG exT 5 (fun _ _ => ()) ()) () 20
    (initGlobal ()) [(3, ()), (3, ())] []) = (2, [], 2, 0) := by
  rw [exGo_eq]; decide +kernel

/-- an unknown input code (`translate` answers 0): syntax error, no run-time panic -/
example : rview (goParserGlobal (pparamsGo exG exT 5 (fun _ _ => ()) ()) () 20
    (initGlobal ()) [(2, ()), (0, ())] []) = (2, [], 2, 0) := by
  rw [exGo_eq]; decide +kernel

/-- the object template, new context -/
example : rview (goParserObject (pparamsGoObj exG exT 5 (fun _ _ => ()) ()) () 20
    (initCtx emptyStack ()) [(2, ()), (2, ()), (3, ())] []) = (0, [1, 1, 2], 4, 0) := by
  rw [pparamsGoObj_eq, ← pparamsGo_eq, exGo_eq]; decide +kernel

/-! ### a second instance: the LALR(1)-but-not-SLR(1) grammar `laG` of C03

`S' → S ; S → L = R | R ; L → * R | id ; R → L` (terminals `=` 2, `*` 3, `id` 4; 8 symbols,
10 states).  The pipeline returns, no cell has two candidates, the table meets `DenseSimple`. -/

def laT : Dense :=
  [[110, 110, 110, 4, 5, 1, 2, 3], [110, 210, 110, 110, 110, 110, 110, 110],
   [110, -5, 6, 110, 110, 110, 110, 110], [110, -2, 110, 110, 110, 110, 110, 110],
   [110, 110, 110, 4, 5, 110, 8, 7], [110, -4, -4, 110, 110, 110, 110, 110],
   [110, 110, 110, 4, 5, 110, 8, 9], [110, -3, -3, 110, 110, 110, 110, 110],
   [110, -5, -5, 110, 110, 110, 110, 110], [110, -1, 110, 110, 110, 110, 110, 110]]

set_option maxRecDepth 4000 in
theorem la_pipeline : ∃ A t, buildL laG = some A ∧ laL laG 8 A = some t ∧
    genTableL Core.pairWinner laG 8 noPrec A t = laT ∧ maxCandsL laG 8 noPrec A t = 1 ∧ A.n = 10 := by
  have h : ((buildL laG).bind fun A => (laL laG 8 A).map fun t =>
      (genTableL Core.pairWinner laG 8 noPrec A t, maxCandsL laG 8 noPrec A t)) = some (laT, 1) := by
    decide
  cases hB : buildL laG with
  | none => rw [hB] at h; cases h
  | some A =>
    rw [hB] at h
    cases hL : laL laG 8 A with
    | none => simp [hL] at h
    | some t =>
      simp only [Option.bind_some, hL, Option.map_some, Option.some.injEq, Prod.mk.injEq] at h
      refine ⟨A, t, rfl, hL, h.1, h.2, ?_⟩
      have hl := genTable_length Core.pairWinner laG 8 noPrec A t
      rw [h.1] at hl
      exact hl.symm

theorem la_denseWF : SplitA.DenseWF laT laG.nT 8 (errCode 10) = true :=
  SplitA.denseWF_of_simple PackX.findMax laT 4 8 110 (by decide) (by decide) (by decide)

/-- the generated text on the packed arrays of `laG`'s table accepts exactly the language of
    `laG`, for every string over `=`, `*`, `id` -/
theorem la_end_to_end (w : List (Sym × Unit)) (hw : ∀ x ∈ w, x.1 = 2 ∨ x.1 = 3 ∨ x.1 = 4)
    (env : List (Gen.Id × Val Unit)) :
    (∃ fuel v m, goParserGlobal (pparamsGo laG laT 10 (fun _ _ => ()) ()) () fuel
        (initGlobal ()) w env = .ret (.val v) m) ↔ GenL laG [5] (w.map Prod.fst) := by
  obtain ⟨A, t, hB, hL, hT, hM, hn⟩ := la_pipeline
  have hW : SplitA.DenseWF (genTableL Core.pairWinner laG 8 noPrec A t) laG.nT 8 (errCode A.n) = true := by
    rw [hT, hn]; exact la_denseWF
  have hwT : ∀ x ∈ w, laG.isT x.1 = true ∧ x.1 ≠ 1 := by
    intro x hx
    rcases hw x hx with h | h | h <;> rw [h] <;> decide
  have := C02_end_to_end_global_go Core.pairWinner C01_pairWinner_sel laG 8 noPrec A t
    (fun _ _ => ()) () () () (by decide) hB hL hW (by omega) 5 rfl w hwT env
  rw [hT, hn] at this
  exact this

end Y.Props

#print axioms Y.Props.packed_run_eq
#print axioms Y.Props.parser_packed_global
#print axioms Y.Props.parser_packed_object
#print axioms Y.Props.C01_end_to_end_global
#print axioms Y.Props.C01_end_to_end_object
#print axioms Y.Props.C06_end_to_end_global
#print axioms Y.Props.C06_end_to_end_object
#print axioms Y.Props.C02_end_to_end_global
#print axioms Y.Props.C02_end_to_end_object
#print axioms Y.Props.pparamsGo_eq
#print axioms Y.Props.pparamsGoObj_eq
#print axioms Y.Props.C01_end_to_end_global_go
#print axioms Y.Props.C01_end_to_end_object_go
#print axioms Y.Props.C06_end_to_end_global_go
#print axioms Y.Props.C06_end_to_end_object_go
#print axioms Y.Props.C02_end_to_end_global_go
#print axioms Y.Props.C02_end_to_end_object_go
#print axioms Y.Props.packedP_run_eq
#print axioms Y.Props.C06_end_to_end_global_checked
#print axioms Y.Props.C06_end_to_end_object_checked
#print axioms Y.Props.C01_end_to_end_global_checked
#print axioms Y.Props.denseWF_pipeline
#print axioms Y.Props.ex_end_to_end
#print axioms Y.Props.la_end_to_end
#print axioms Y.Props.exGo_eq
