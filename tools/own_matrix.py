#!/usr/bin/env python3
"""For every seeded change: run the quick check of the property it was written against (meta.json `breaks`) in a scratch
worktree of /repo and record V (concrete replay) / n (no-failing-input-found) / - (missed).
usage: own_matrix.py [seed-id ...]   env: VERIF_DIR (copy of /verif), VERIF_WT (worktree path), OWN_OUT (json path)"""
import json, os, subprocess, sys, time
VERIF = os.environ.get("VERIF_DIR", "/verif")
WT = os.environ.get("VERIF_WT", "/tmp/ownwt")
OUT = os.environ.get("OWN_OUT", VERIF + "/seeded/OWN.json")
seeds = sys.argv[1:] or sorted(d for d in os.listdir(VERIF + "/seeded") if os.path.isfile(VERIF + "/seeded/%s/patch.diff" % d))
subprocess.run(["git", "-C", "/repo", "worktree", "remove", "--force", WT], stderr=subprocess.DEVNULL)
subprocess.run(["git", "-C", "/repo", "worktree", "add", "-q", "--detach", WT, "HEAD"], check=True)
env = dict(os.environ, VERIF_REPO=WT)
res = {}
try:
    for s in seeds:
        try:
            prop = json.load(open(VERIF + "/seeded/%s/meta.json" % s)).get("breaks", "")[:3]
        except Exception:
            prop = ""
        if not prop.startswith("C"):
            prop = s[:3] if s[:1] == "C" else ""
        if not prop:
            res[s] = {"error": "no property"}
            continue
        if subprocess.run(["git", "-C", WT, "apply", VERIF + "/seeded/%s/patch.diff" % s]).returncode != 0:
            res[s] = {"error": "patch does not apply"}
            continue
        t = time.time()
        p = subprocess.run([VERIF + "/bin/check", prop], cwd=VERIF, env=env, stdout=subprocess.PIPE, stderr=subprocess.DEVNULL)
        out = p.stdout.decode(errors="replace")
        v = ("n" if "no-failing-input-found" in out else "V") if "VIOLATION" in out else ("-" if p.returncode == 0 else "rc%d" % p.returncode)
        subprocess.run(["git", "-C", WT, "checkout", "--", "."])
        res[s] = {prop: v}
        print(s, prop, v, "%.0fs" % (time.time() - t), flush=True)
        json.dump(res, open(OUT, "w"), indent=1)
finally:
    subprocess.run(["git", "-C", "/repo", "worktree", "remove", "--force", WT], stderr=subprocess.DEVNULL)
    subprocess.run(["git", "-C", VERIF, "checkout", "--", "harness/go.mod"], stderr=subprocess.DEVNULL)
json.dump(res, open(OUT, "w"), indent=1)
print("done")
