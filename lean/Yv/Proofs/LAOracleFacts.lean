import Yv.Cert.LAOracle
import Yv.Proofs.CanonFacts
/-! Soundness (by an invariant over the iteration) and completeness (from the final Bool checks)
    of the executable oracle of `Yv/Cert/LAOracle.lean`. -/
namespace Y

/-! ## generic helpers -/

theorem foldl_inv {α β : Type} (P : β → Prop) (f : β → α → β) (l : List α)
    (h : ∀ s x, x ∈ l → P s → P (f s x)) : ∀ init, P init → P (l.foldl f init) := by
  induction l with
  | nil => intro init hi; exact hi
  | cons x xs ih =>
    intro init hi
    simp only [List.foldl_cons]
    exact ih (fun s y hy hs => h s y (List.mem_cons_of_mem _ hy) hs) _
      (h init x (List.mem_cons_self) hi)

theorem iterStop_inv {α : Type} (P : α → Prop) (f : α → α) (done : α → α → Bool)
    (h : ∀ x, P x → P (f x)) : ∀ n x, P x → P (iterStop f done n x) := by
  intro n
  induction n with
  | zero => intro x hx; exact hx
  | succ n ih =>
    intro x hx
    unfold iterStop
    split
    · exact h x hx
    · exact ih _ (h x hx)

theorem getD_modAt {α : Type} (f : α → α) (d : α) :
    ∀ (l : List α) (i j : Nat), (modAt f i l).getD j d = l.getD j d ∨
      (j = i ∧ (modAt f i l).getD j d = f (l.getD i d)) := by
  intro l
  induction l with
  | nil => intro i j; left; cases i <;> rfl
  | cons x xs ih =>
    intro i j
    cases i with
    | zero =>
      cases j with
      | zero => right; exact ⟨rfl, rfl⟩
      | succ j => left; rfl
    | succ i =>
      cases j with
      | zero => left; rfl
      | succ j =>
        rcases ih i j with h | ⟨h1, h2⟩
        · left; simpa [modAt] using h
        · right; exact ⟨by rw [h1], by simpa [modAt] using h2⟩

theorem getD_mem_or {α : Type} (d : α) : ∀ (l : List α) (i : Nat), l.getD i d = d ∨ l.getD i d ∈ l := by
  intro l
  induction l with
  | nil => intro i; left; rfl
  | cons x xs ih =>
    intro i
    cases i with
    | zero => right; simp
    | succ i =>
      rcases ih i with h | h
      · left; simpa using h
      · right; simp only [List.getD_cons_succ]; exact List.mem_cons_of_mem _ h

theorem mem_insS {a x : Sym} : ∀ {l : List Sym}, a ∈ insS x l ↔ a = x ∨ a ∈ l := by
  intro l
  induction l with
  | nil => simp [insS]
  | cons y ys ih =>
    unfold insS
    split
    · simp
    · split
      · rename_i h; subst h; simp
      · simp only [List.mem_cons, ih]
        constructor
        · rintro (h | h | h)
          · exact Or.inr (Or.inl h)
          · exact Or.inl h
          · exact Or.inr (Or.inr h)
        · rintro (h | h | h)
          · exact Or.inr (Or.inl h)
          · exact Or.inl h
          · exact Or.inr (Or.inr h)

theorem mem_unionS {a : Sym} : ∀ {xs ys : List Sym}, a ∈ unionS xs ys ↔ a ∈ xs ∨ a ∈ ys := by
  intro xs
  unfold unionS
  induction xs with
  | nil => intro ys; simp
  | cons x xs ih =>
    intro ys
    simp only [List.foldl_cons, ih, mem_insS, List.mem_cons]
    constructor
    · rintro (h | h | h)
      · exact Or.inl (Or.inr h)
      · exact Or.inl (Or.inl h)
      · exact Or.inr h
    · rintro ((h | h) | h)
      · exact Or.inr (Or.inl h)
      · exact Or.inl h
      · exact Or.inr (Or.inr h)

theorem mem_sortS {a : Sym} : ∀ {l : List Sym}, a ∈ sortS l ↔ a ∈ l := by
  intro l
  unfold sortS
  induction l with
  | nil => simp
  | cons x xs ih => simp only [List.foldr_cons, mem_insS, ih, List.mem_cons]

/-! ## derivations -/

theorem GenL.append {G : Grammar} {γ1 u : List Sym} (h1 : GenL G γ1 u) {γ2 v : List Sym}
    (h2 : GenL G γ2 v) : GenL G (γ1 ++ γ2) (u ++ v) := by
  induction h1 with
  | nil => simpa using h2
  | tm t γ w ht _ ih => exact .tm t _ _ ht ih
  | nt r rl γ u' v' hr hb _ _ ih2 =>
    have := GenL.nt r rl (γ ++ γ2) u' (v' ++ v) hr hb ih2
    simpa [List.append_assoc] using this

theorem GenL.cons1 {G : Grammar} {x : Sym} {u : List Sym} (h1 : GenL G [x] u) {γ v : List Sym}
    (h2 : GenL G γ v) : GenL G (x :: γ) (u ++ v) := GenL.append h1 h2

theorem GenL.terms {G : Grammar} {γ w : List Sym} (h : GenL G γ w) : ∀ t ∈ w, G.isT t = true := by
  induction h with
  | nil => intro t ht; cases ht
  | tm t γ v ht _ ih =>
    intro s hs
    rcases List.mem_cons.mp hs with rfl | hs
    · exact ht
    · exact ih s hs
  | nt r rl γ u v _ _ _ ih1 ih2 =>
    intro s hs
    rcases List.mem_append.mp hs with hs | hs
    · exact ih1 s hs
    · exact ih2 s hs

theorem GenL.ofRule {G : Grammar} {r : Nat} {rl : Rule} (hr : G.rules[r]? = some rl) {u : List Sym}
    (h : GenL G rl.rhs u) : GenL G [rl.lhs] u := by
  simpa using GenL.nt r rl [] u [] hr h .nil

theorem GenL.term1 {G : Grammar} {t : Sym} (ht : G.isT t = true) : GenL G [t] [t] :=
  .tm t [] [] ht .nil

/-- a symbol is productive when it derives some terminal string -/
def Productive (G : Grammar) (x : Sym) : Prop := ∃ y, GenL G [x] y

theorem gen_of_all_prod {G : Grammar} : ∀ (γ : List Sym), (∀ x ∈ γ, Productive G x) → ∃ y, GenL G γ y := by
  intro γ
  induction γ with
  | nil => intro _; exact ⟨[], .nil⟩
  | cons x xs ih =>
    intro h
    obtain ⟨y1, h1⟩ := h x List.mem_cons_self
    obtain ⟨y2, h2⟩ := ih (fun z hz => h z (List.mem_cons_of_mem _ hz))
    exact ⟨y1 ++ y2, GenL.cons1 h1 h2⟩

theorem gen_nil_of_all {G : Grammar} : ∀ (γ : List Sym), (∀ x ∈ γ, GenL G [x] []) → GenL G γ [] := by
  intro γ
  induction γ with
  | nil => intro _; exact .nil
  | cons x xs ih =>
    intro h
    have := GenL.cons1 (h x List.mem_cons_self) (ih (fun z hz => h z (List.mem_cons_of_mem _ hz)))
    simpa using this

/-! ## nullable and productive: soundness of `derivStep` -/

theorem derivStep_sound {G : Grammar} (Q : Sym → Prop)
    (hQ : ∀ (r : Nat) (rl : Rule), G.rules[r]? = some rl → (∀ x ∈ rl.rhs, Q x) → Q rl.lhs)
    (l : List Sym) (h : ∀ x ∈ l, Q x) : ∀ x ∈ derivStep G l, Q x := by
  unfold derivStep
  refine foldl_inv (fun l => ∀ x ∈ l, Q x) _ G.rules ?_ l h
  intro s rl hrl hs
  split
  · rename_i hc
    simp only [Bool.and_eq_true, List.all_eq_true, List.contains_eq_mem, decide_eq_true_eq] at hc
    obtain ⟨r, hr⟩ := List.getElem?_of_mem hrl
    intro x hx
    rcases List.mem_cons.mp hx with rfl | hx
    · exact hQ r rl hr (fun y hy => hs y (hc.2 y hy))
    · exact hs x hx
  · exact hs

theorem nullableL_sound {G : Grammar} {nS : Nat} : ∀ x ∈ nullableL G nS, GenL G [x] [] := by
  unfold nullableL
  refine iterStop_inv (fun l => ∀ x ∈ l, GenL G [x] []) _ _ ?_ _ _ (fun x hx => by cases hx)
  intro l hl
  exact derivStep_sound (fun x => GenL G [x] [])
    (fun r rl hr h => GenL.ofRule hr (gen_nil_of_all _ h)) l hl

theorem mem_terminals {G : Grammar} {x : Sym} : x ∈ terminals G ↔ G.isT x = true := by
  unfold terminals
  simp only [List.mem_filter, List.mem_range]
  exact ⟨fun h => h.2, fun h => ⟨isT_lt h, h⟩⟩

theorem prodL_sound {G : Grammar} {nS : Nat} : ∀ x ∈ prodL G nS, Productive G x := by
  unfold prodL
  refine iterStop_inv (fun l => ∀ x ∈ l, Productive G x) _ _ ?_ _ _
    (fun x hx => ⟨[x], GenL.term1 (mem_terminals.mp hx)⟩)
  intro l hl
  refine derivStep_sound (Productive G) (fun r rl hr h => ?_) l hl
  obtain ⟨y, hy⟩ := gen_of_all_prod _ h
  exact ⟨y, GenL.ofRule hr hy⟩

/-- what `prodOK` establishes -/
structure GramProd (G : Grammar) : Prop where
  eofT : G.isT 1 = true
  lhsP : ∀ rl ∈ G.rules, Productive G rl.lhs
  rhsP : ∀ rl ∈ G.rules, ∀ x ∈ rl.rhs, Productive G x

theorem prodOK_ok {G : Grammar} {nS : Nat} (h : prodOK G nS = true) : GramProd G := by
  unfold prodOK prodCovers at h
  simp only [Bool.and_eq_true, List.all_eq_true, List.contains_eq_mem, decide_eq_true_eq] at h
  exact ⟨h.1, fun rl hrl => prodL_sound _ (h.2 rl hrl).1,
    fun rl hrl x hx => prodL_sound _ ((h.2 rl hrl).2 x hx)⟩

/-- the symbols of the grammar: terminals, left-hand sides, right-hand-side symbols -/
def GSym (G : Grammar) (x : Sym) : Prop :=
  G.isT x = true ∨ ∃ rl ∈ G.rules, x = rl.lhs ∨ x ∈ rl.rhs

theorem GramProd.sym {G : Grammar} (hG : GramProd G) {x : Sym} (hx : GSym G x) : Productive G x := by
  rcases hx with h | ⟨rl, hrl, rfl | h⟩
  · exact ⟨[x], GenL.term1 h⟩
  · exact hG.lhsP rl hrl
  · exact hG.rhsP rl hrl x h

/-- every sequence over the grammar's symbols derives some terminal string -/
theorem prodOK_gen {G : Grammar} {nS : Nat} (h : prodOK G nS = true) (γ : List Sym)
    (hγ : ∀ x ∈ γ, GSym G x) : ∃ y, GenL G γ y :=
  gen_of_all_prod γ (fun x hx => (prodOK_ok h).sym (hγ x hx))

/-! ## FIRST: soundness -/

/-- every fact recorded in the candidate sets is a real one -/
structure SetsSound (G : Grammar) (S : Sets) : Prop where
  null : ∀ x, S.nullable x = true → GenL G [x] []
  first : ∀ x a, a ∈ S.first x → ∃ u, GenL G [x] (a :: u)

theorem firstSeq_sound_aux {G : Grammar} {S : Sets} (hS : SetsSound G S) {a : Sym} :
    ∀ (γ : List Sym), (∀ x ∈ γ, Productive G x) → a ∈ firstSeq S γ → ∃ u, GenL G γ (a :: u) := by
  intro γ
  induction γ with
  | nil => intro _ h; cases h
  | cons x xs ih =>
    intro hp h
    have hpx : ∀ z ∈ xs, Productive G z := fun z hz => hp z (List.mem_cons_of_mem _ hz)
    simp only [firstSeq, List.mem_append] at h
    rcases h with h | h
    · obtain ⟨u, hu⟩ := hS.first x a h
      obtain ⟨y, hy⟩ := gen_of_all_prod xs hpx
      exact ⟨u ++ y, by simpa using GenL.cons1 hu hy⟩
    · split at h
      · rename_i hn
        obtain ⟨u, hu⟩ := ih hpx h
        exact ⟨u, by simpa using GenL.cons1 (hS.null x hn) hu⟩
      · cases h

theorem mkSets_nullable {nl : List Sym} {ft : List (List Sym)} {x : Sym} :
    (mkSets nl ft).nullable x = true ↔ x ∈ nl := by
  simp [mkSets]

theorem getD_map_range {α : Type} (f : Nat → α) (d : α) (n x : Nat) :
    ((List.range n).map f).getD x d = if x < n then f x else d := by
  simp only [List.getD_eq_getElem?_getD, List.getElem?_map]
  by_cases h : x < n
  · simp [h]
  · simp [h]

/-- invariant of the FIRST iteration -/
def FInv (G : Grammar) (ft : List (List Sym)) : Prop :=
  ∀ x a, a ∈ ft.getD x [] → ∃ u, GenL G [x] (a :: u)

theorem firstInit_inv {G : Grammar} {nS : Nat} : FInv G (firstInit G nS) := by
  intro x a h
  unfold firstInit at h
  rw [getD_map_range] at h
  split at h
  · split at h
    · rename_i ht
      rcases List.mem_singleton.mp h with rfl
      exact ⟨[], GenL.term1 ht⟩
    · cases h
  · cases h

theorem firstStep_inv {G : Grammar} (hG : GramProd G) {nl : List Sym}
    (hN : ∀ x ∈ nl, GenL G [x] []) (ft : List (List Sym)) (h : FInv G ft) :
    FInv G (firstStep G nl ft) := by
  unfold firstStep
  refine foldl_inv (FInv G) _ G.rules ?_ ft h
  intro s rl hrl hs x a ha
  rcases getD_modAt (unionS (firstSeq (mkSets nl s) rl.rhs)) [] s rl.lhs x with e | ⟨e1, e2⟩
  · rw [e] at ha; exact hs x a ha
  · rw [e2] at ha
    subst e1
    rcases mem_unionS.mp ha with ha | ha
    · have hS : SetsSound G (mkSets nl s) :=
        ⟨fun z hz => hN z (mkSets_nullable.mp hz), fun z b hb => hs z b hb⟩
      obtain ⟨u, hu⟩ := firstSeq_sound_aux hS rl.rhs (hG.rhsP rl hrl) ha
      obtain ⟨r, hr⟩ := List.getElem?_of_mem hrl
      exact ⟨u, GenL.ofRule hr hu⟩
    · exact hs _ a ha

theorem firstTab_inv {G : Grammar} {nS : Nat} (hG : GramProd G) : FInv G (firstTab G nS) := by
  unfold firstTab firstTabOf
  exact iterStop_inv (FInv G) _ _ (firstStep_inv hG (fun x hx => nullableL_sound x hx)) _ _
    firstInit_inv

theorem firstL_sound {G : Grammar} {nS : Nat} (h : prodOK G nS = true) {x a : Sym}
    (ha : a ∈ firstL G nS x) : ∃ u, GenL G [x] (a :: u) :=
  firstTab_inv (prodOK_ok h) x a ha

theorem setsOf_eq (G : Grammar) (nS : Nat) :
    setsOf G nS = mkSets (nullableL G nS) (firstTab G nS) := rfl

theorem setsOf_sound {G : Grammar} {nS : Nat} (hG : GramProd G) : SetsSound G (setsOf G nS) := by
  rw [setsOf_eq]
  exact ⟨fun x hx => nullableL_sound x (mkSets_nullable.mp hx), fun x a ha => firstTab_inv hG x a ha⟩

theorem setsL_some {G : Grammar} {nS : Nat} {S : Sets} (h : setsL G nS = some S) :
    S = setsOf G nS ∧ setsClosed G S = true := by
  unfold setsL at h
  dsimp only at h
  split at h
  · rename_i hc
    cases h
    exact ⟨rfl, hc⟩
  · cases h

/-- completeness of the computed sets (they passed `setsClosed`) -/
theorem setsL_complete {G : Grammar} {nS : Nat} {S : Sets} (h : setsL G nS = some S)
    {γ : List Sym} {a : Sym} (hf : FirstOf G γ a) : a ∈ firstSeq S γ :=
  firstOf_sets G S (setsL_some h).2 γ a hf

/-- soundness of the computed sets on sequences over the grammar's symbols -/
theorem firstSeq_sound {G : Grammar} {nS : Nat} {S : Sets} (h : setsL G nS = some S)
    (hp : prodOK G nS = true) {γ : List Sym} (hγ : ∀ x ∈ γ, GSym G x) {a : Sym}
    (ha : a ∈ firstSeq S γ) : FirstOf G γ a := by
  have hG := prodOK_ok hp
  have hS : SetsSound G S := by rw [(setsL_some h).1]; exact setsOf_sound hG
  exact firstSeq_sound_aux hS γ (fun x hx => hG.sym (hγ x hx)) ha

/-! ## LALR(1) lookaheads: soundness -/

theorem rowGet_nil (it : Item) : rowGet [] it = [] := rfl

theorem rowGet_cons (p : Item × List Sym) (ps : Row) (it : Item) :
    rowGet (p :: ps) it = if p.1 == it then p.2 else rowGet ps it := by
  unfold rowGet
  simp only [List.find?_cons]
  cases h : (p.1 == it) <;> simp

theorem mem_rowGet_addIf {c : Item → Bool} {xs : List Sym} {it : Item} {a : Sym} :
    ∀ {row : Row}, a ∈ rowGet (rowAddIf c xs row) it →
      a ∈ rowGet row it ∨ (c it = true ∧ a ∈ xs) := by
  intro row
  induction row with
  | nil => intro h; cases h
  | cons p ps ih =>
    intro h
    have e : rowAddIf c xs (p :: ps) =
        (if c p.1 then (p.1, unionS xs p.2) else p) :: rowAddIf c xs ps := rfl
    rw [e, rowGet_cons] at h
    rw [rowGet_cons]
    have e1 : (if c p.1 = true then (p.1, unionS xs p.2) else p).1 = p.1 := by split <;> rfl
    rw [e1] at h
    cases hp : (p.1 == it)
    · simp only [hp] at h ⊢
      exact ih h
    · simp only [hp, if_true] at h ⊢
      have hpe : p.1 = it := by simpa using hp
      cases hc : c p.1
      · simp only [hc] at h
        exact Or.inl h
      · simp only [hc, if_true] at h
        rcases mem_unionS.mp h with h | h
        · exact Or.inr ⟨hpe ▸ hc, h⟩
        · exact Or.inl h

theorem rowGet_empty {row : Row} (h : ∀ p ∈ row, p.2 = []) (it : Item) : rowGet row it = [] := by
  induction row with
  | nil => rfl
  | cons p ps ih =>
    rw [rowGet_cons]
    split
    · exact h p List.mem_cons_self
    · exact ih (fun z hz => h z (List.mem_cons_of_mem _ hz))

theorem firstSeq_snoc {S : Sets} {b a : Sym} : ∀ {β : List Sym},
    a ∈ firstSeq S (β ++ [b]) ↔ a ∈ firstSeq S β ∨ (nullableSeq S β = true ∧ a ∈ S.first b) := by
  intro β
  induction β with
  | nil => simp [firstSeq, nullableSeq]
  | cons x xs ih =>
    simp only [List.cons_append, firstSeq, List.mem_append, nullableSeq, List.all_cons,
      Bool.and_eq_true]
    cases hx : S.nullable x
    · simp
    · simp only [if_true, ih, nullableSeq, true_and]
      constructor
      · rintro (h | h | h)
        · exact Or.inl (Or.inl h)
        · exact Or.inl (Or.inr h)
        · exact Or.inr h
      · rintro ((h | h) | h)
        · exact Or.inl h
        · exact Or.inr (Or.inl h)
        · exact Or.inr (Or.inr h)

theorem mem_fsOf {S : Sets} {β la : List Sym} {a : Sym} (h : a ∈ fsOf S β la) :
    ∃ b ∈ la, a ∈ firstSeq S (β ++ [b]) := by
  unfold fsOf at h
  split at h
  · cases h
  · rename_i hne
    rcases List.mem_append.mp h with h1 | h1
    · cases la with
      | nil => simp at hne
      | cons b bs => exact ⟨b, List.mem_cons_self, firstSeq_snoc.mpr (Or.inl h1)⟩
    · split at h1
      · rename_i hn
        obtain ⟨b, hb, hab⟩ := List.mem_flatMap.mp h1
        exact ⟨b, hb, firstSeq_snoc.mpr (Or.inr ⟨hn, hab⟩)⟩
      · cases h1

theorem isRuleOf_ok {G : Grammar} {B : Sym} {r : Nat} (h : isRuleOf G B r = true) :
    ∃ rl, G.rules[r]? = some rl ∧ rl.lhs = B := by
  unfold isRuleOf at h
  split at h
  · rename_i rl hr
    exact ⟨rl, hr, by simpa using h⟩
  · cases h

theorem rhsOf_of_get {G : Grammar} {r : Nat} {rl : Rule} (h : G.rules[r]? = some rl) :
    G.rhsOf r = rl.rhs := by
  unfold Grammar.rhsOf; rw [h]

theorem FirstOf.isT {G : Grammar} {γ : List Sym} {a : Sym} (h : FirstOf G γ a) : G.isT a = true := by
  obtain ⟨u, hu⟩ := h
  exact hu.terms a List.mem_cons_self

theorem LA_isT {G : Grammar} {goto : Nat → Sym → Option Nat} (h1 : G.isT 1 = true)
    {q : Nat} {it : Item} {a : Sym} (h : LA G goto q it a) : G.isT a = true := by
  induction h with
  | init => exact h1
  | clos q r d b r' a _ hs _ =>
    obtain ⟨_, _, _, _, _, hf⟩ := hs
    exact hf.isT
  | goto q r d b rl X p _ _ _ _ ih => exact ih

section LASound
variable {G : Grammar} {S : Sets} {A : Auto}

/-- invariant of a row of state `q` -/
def RowInv (G : Grammar) (A : Auto) (q : Nat) (row : Row) : Prop :=
  ∀ it a, a ∈ rowGet row it → LA G A.goto q it a

/-- invariant of the table -/
def TInv (G : Grammar) (A : Auto) (t : LTab) : Prop :=
  ∀ q, RowInv G A q (t.getD q [])

theorem closItem_inv (hG : GramProd G) (hS : SetsSound G S) (q : Nat) (row : Row) (it : Item)
    (h : RowInv G A q row) : RowInv G A q (closItem G S row it) := by
  unfold closItem
  split
  · exact h
  · rename_i B hB
    split
    · exact h
    · intro jt a ha
      rcases mem_rowGet_addIf ha with ha | ⟨hc, ha⟩
      · exact h jt a ha
      · obtain ⟨rl, hr, hx⟩ := rhsOf_get.mp hB
        simp only [Bool.and_eq_true, beq_iff_eq] at hc
        obtain ⟨rl', hr', hl'⟩ := isRuleOf_ok hc.2
        obtain ⟨b, hb, hab⟩ := mem_fsOf ha
        have hLb : LA G A.goto q ⟨it.r, it.d⟩ b := h it b hb
        rw [rhsOf_of_get hr] at hab
        have hbT : G.isT b = true := LA_isT hG.eofT hLb
        have hprod : ∀ x ∈ rl.rhs.drop (it.d + 1) ++ [b], Productive G x := by
          intro x hx
          rcases List.mem_append.mp hx with hx | hx
          · exact hG.rhsP rl (List.mem_of_getElem? hr) x (List.mem_of_mem_drop hx)
          · rcases List.mem_singleton.mp hx with rfl
            exact ⟨[x], GenL.term1 hbT⟩
        have hF : FirstOf G (rl.rhs.drop (it.d + 1) ++ [b]) a := firstSeq_sound_aux hS _ hprod hab
        have := LA.clos q it.r it.d b jt.r a hLb ⟨rl, rl', hr, hr', by rw [hl']; exact hx, hF⟩
        obtain ⟨jr, jd⟩ := jt
        simp only at hc this
        rw [hc.1]
        exact this

theorem gotoItem_inv (q : Nat) (row : Row) (hrow : RowInv G A q row) (t : LTab) (it : Item)
    (h : TInv G A t) : TInv G A (gotoItem G (A.gts q) row t it) := by
  unfold gotoItem
  split
  · exact h
  · rename_i X hX
    split
    · exact h
    · rename_i p hp
      have hg : A.goto q X = some p := hp
      obtain ⟨rl, hr, hx⟩ := rhsOf_get.mp hX
      intro q' jt a ha
      rcases getD_modAt (rowAddIf (fun jt => jt == ⟨it.r, it.d + 1⟩) (rowGet row it)) [] t p q'
        with e | ⟨e1, e2⟩
      · rw [e] at ha; exact h q' jt a ha
      · rw [e2] at ha
        subst e1
        rcases mem_rowGet_addIf ha with ha | ⟨hc, ha⟩
        · exact h _ jt a ha
        · have hj : jt = ⟨it.r, it.d + 1⟩ := by simpa using hc
          rw [hj]
          exact LA.goto q it.r it.d a rl X q' (hrow it a ha) hr hx hg

theorem gotoRow_inv (q : Nat) (its : List Item) (row : Row) (hrow : RowInv G A q row) (t : LTab)
    (h : TInv G A t) : TInv G A (gotoRow G (A.gts q) its q row t) := by
  unfold gotoRow
  refine foldl_inv (TInv G A) _ its (fun s it _ hs => gotoItem_inv q row hrow s it hs) _ ?_
  intro q' jt a ha
  rcases getD_modAt (fun _ => row) [] t q q' with e | ⟨e1, e2⟩
  · rw [e] at ha; exact h q' jt a ha
  · rw [e2] at ha
    subst e1
    exact hrow jt a ha

theorem stateStep_inv (hG : GramProd G) (hS : SetsSound G S) (t : LTab) (q : Nat)
    (h : TInv G A t) : TInv G A (stateStep G S A t q) := by
  unfold stateStep
  refine gotoRow_inv q _ _ ?_ t h
  exact foldl_inv (RowInv G A q) _ (A.its q)
    (fun s it _ hs => closItem_inv hG hS q s it hs) _ (h q)

theorem laStep_inv (hG : GramProd G) (hS : SetsSound G S) (t : LTab) (h : TInv G A t) :
    TInv G A (laStep G S A t) := by
  unfold laStep
  exact foldl_inv (TInv G A) _ _ (fun s q _ hs => stateStep_inv hG hS s q hs) t h

theorem laInit_inv : TInv G A (laInit A) := by
  have hbase : ∀ q it, rowGet ((A.items.map fun its => its.map fun it => (it, ([] : List Sym))).getD q []) it = [] := by
    intro q it
    refine rowGet_empty ?_ it
    intro p hp
    rcases getD_mem_or ([] : Row) (A.items.map fun its => its.map fun it => (it, ([] : List Sym))) q
      with e | e
    · rw [e] at hp; cases hp
    · obtain ⟨its, _, hits⟩ := List.mem_map.mp e
      rw [← hits] at hp
      obtain ⟨jt, _, hj⟩ := List.mem_map.mp hp
      rw [← hj]
  intro q it a ha
  unfold laInit at ha
  rcases getD_modAt (rowAddIf (fun jt => jt == (⟨0, 0⟩ : Item)) [1]) []
      (A.items.map fun its => its.map fun it => (it, ([] : List Sym))) 0 q with e | ⟨e1, e2⟩
  · rw [e, hbase] at ha; cases ha
  · rw [e2] at ha
    subst e1
    rcases mem_rowGet_addIf ha with ha | ⟨hc, ha⟩
    · rw [hbase] at ha; cases ha
    · have hj : it = ⟨0, 0⟩ := by simpa using hc
      rcases List.mem_singleton.mp ha with rfl
      rw [hj]
      exact LA.init

theorem laTab_inv (hG : GramProd G) (hS : SetsSound G S) : TInv G A (laTab G S A) := by
  unfold laTab
  exact iterStop_inv (TInv G A) _ _ (laStep_inv hG hS) _ _ laInit_inv

end LASound

theorem LATab.get_eq (t : LATab) (q : Nat) (it : Item) :
    t.get q it = rowGet (t.tab.getD q []) it := rfl

theorem laL_some {G : Grammar} {nS : Nat} {A : Auto} {t : LATab} (h : laL G nS A = some t) :
    ∃ S, setsL G nS = some S ∧ t = ⟨laTab G S A⟩ ∧ laClosed G S (toLAData A t) = true := by
  unfold laL at h
  split at h
  · cases h
  · rename_i S hS
    unfold checkedLA at h
    split at h
    · rename_i hc
      cases h
      exact ⟨S, hS, rfl, hc⟩
    · cases h

/-- completeness: a returned table contains every LALR(1) fact -/
theorem laL_complete {G : Grammar} {nS : Nat} {A : Auto} {t : LATab} (h : laL G nS A = some t)
    (hn : 0 < A.n) {q : Nat} {it : Item} {a : Sym} (hla : LA G A.goto q it a) :
    q < A.n ∧ it ∈ A.its q ∧ a ∈ t.get q it := by
  obtain ⟨S, hS, _, hc⟩ := laL_some h
  exact LA_in_table G S (toLAData A t) (setsL_some hS).2 hc hn q it a hla

/-- soundness: every entry of a returned table is an LALR(1) fact -/
theorem laL_sound {G : Grammar} {nS : Nat} {A : Auto} {t : LATab} (h : laL G nS A = some t)
    (hp : prodOK G nS = true) {q : Nat} {it : Item} {a : Sym} (ha : a ∈ t.get q it) :
    LA G A.goto q it a := by
  obtain ⟨S, hS, ht, _⟩ := laL_some h
  have hG := prodOK_ok hp
  have hSS : SetsSound G S := by rw [(setsL_some hS).1]; exact setsOf_sound hG
  subst ht
  exact laTab_inv hG hSS q it a ha

end Y
